/-
  Mxj.Lemmas.Json — facts about the JSON encoder/decoder model of Mxj.Model.Json, used by
  Mxj.Props.C06.

  Contents:
    * hex digits, `strBody` on what `quoteChar` writes (both escaping modes, every `Char`)
    * number literals: `numberLit` in stages, `NumOk`, `numEnd`
    * `JsonShaped`, the size bound `sz`, the round trip `value f (encN html v ++ rest)`
    * `sortByKey` on distinct keys, `Val.norm` idempotent on JSON-shaped values
    * `rewriteUnsafe` : the pinned byte rewrite (documentation of a repaired defect)
-/
import Mxj.Model.Json
namespace Mxj.Json
open Mxj

/-! ### hex digits -/

theorem hexVal_lower : ∀ d, d < 16 → hex4.hexDigitVal' (hexDigitLower d) = some d := by decide

theorem hex4_digits (n : Nat) (hn : n < 65536) (rest : Str) :
    hex4 (hexDigitLower (n / 4096 % 16) :: hexDigitLower (n / 256 % 16) ::
          hexDigitLower (n / 16 % 16) :: hexDigitLower (n % 16) :: rest) = some (n, rest) := by
  simp only [hex4, hexVal_lower _ (Nat.mod_lt _ (by decide : 16 > 0))]
  congr 2
  omega

/-- a `\uXXXX` escape of a code point below the surrogate range decodes to that code point -/
theorem strBody_u4 (n : Nat) (hn : n < 0xD800) (f : Nat) (rest acc : Str) :
    strBody (f + 1) (u4 n ++ rest) acc = strBody f rest (Char.ofNat n :: acc) := by
  have h1 : ¬ (0xD800 ≤ n) := by omega
  have h2 : ¬ (0xDC00 ≤ n) := by omega
  simp only [u4, List.cons_append, List.nil_append]
  rw [strBody.eq_4]
  simp only [hex4_digits n (by omega) rest]
  simp [h1, h2]

theorem hexDigitLower_not_html : ∀ d, d < 16 →
    hexDigitLower d ≠ '<' ∧ hexDigitLower d ≠ '>' ∧ hexDigitLower d ≠ '&' ∧
    hexDigitLower d ≠ '"' := by decide

/-! ### string literals -/

/-- one encoded character is decoded in one step of `strBody` -/
theorem strBody_quoteChar (html : Bool) (c : Char) (f : Nat) (rest acc : Str) :
    strBody (f + 1) (quoteChar html c ++ rest) acc = strBody f rest (c :: acc) := by
  unfold quoteChar
  split
  · next h => subst h; simp [strBody]
  split
  · next h => subst h; simp [strBody]
  split
  · next h => subst h; simp [strBody]
  split
  · next h => subst h; simp [strBody]
  split
  · next h => subst h; simp [strBody]
  split
  · next h => subst h; simp [strBody]
  split
  · next h => subst h; simp [strBody]
  split
  · next h => rw [strBody_u4 _ (by omega), Char.ofNat_toNat]
  split
  · next h =>
    have : c.toNat < 0xD800 := by
      simp only [Bool.and_eq_true, Bool.or_eq_true, decide_eq_true_eq] at h
      rcases h.2 with (h | h) | h <;> subst h <;> decide
    rw [strBody_u4 _ this, Char.ofNat_toNat]
  split
  · next h =>
    have : c.toNat < 0xD800 := by
      simp only [Bool.or_eq_true, decide_eq_true_eq] at h
      omega
    rw [strBody_u4 _ this, Char.ofNat_toNat]
  · next h1 h2 _ _ _ _ _ h8 _ _ =>
    simp only [List.cons_append, List.nil_append]
    rw [strBody.eq_6 _ _ _ _ h1 (fun _ _ e _ => h2 e) (fun e _ => h2 e)]
    simp [h8]

theorem quoteChar_length_pos (html : Bool) (c : Char) : 0 < (quoteChar html c).length := by
  unfold quoteChar u4
  repeat' split
  all_goals simp

theorem length_le_flatMap_quoteChar (html : Bool) (s : Str) :
    s.length ≤ (s.flatMap (quoteChar html)).length := by
  induction s with
  | nil => simp
  | cons c s ih =>
    have := quoteChar_length_pos html c
    simp only [List.flatMap_cons, List.length_append, List.length_cons]
    omega

/-- decoding the body the encoder wrote gives the string back (any accumulator, any fuel
    above the number of characters) -/
theorem strBody_flatMap (html : Bool) (s : Str) : ∀ (n : Nat) (rest acc : Str), s.length < n →
    strBody n (s.flatMap (quoteChar html) ++ '"' :: rest) acc = some (acc.reverse ++ s, rest) := by
  induction s with
  | nil =>
    intro n rest acc hn
    cases n with
    | zero => simp at hn
    | succ f => simp [strBody]
  | cons c s ih =>
    intro n rest acc hn
    cases n with
    | zero => simp at hn
    | succ f =>
      simp only [List.flatMap_cons, List.append_assoc]
      rw [strBody_quoteChar, ih f rest (c :: acc) (by simp at hn; omega)]
      simp

/-! ### HTML characters -/

theorem mem_u4_not_html (n : Nat) : ∀ c ∈ u4 n, c ≠ '<' ∧ c ≠ '>' ∧ c ≠ '&' := by
  intro c hc
  have hd := fun d (h : d < 16) => hexDigitLower_not_html d h
  have m := fun k => Nat.mod_lt k (by decide : 16 > 0)
  simp only [u4, List.mem_cons, List.not_mem_nil, or_false] at hc
  rcases hc with h | h | h | h | h | h <;> subst h
  · decide
  · decide
  · exact ⟨(hd _ (m _)).1, (hd _ (m _)).2.1, (hd _ (m _)).2.2.1⟩
  · exact ⟨(hd _ (m _)).1, (hd _ (m _)).2.1, (hd _ (m _)).2.2.1⟩
  · exact ⟨(hd _ (m _)).1, (hd _ (m _)).2.1, (hd _ (m _)).2.2.1⟩
  · exact ⟨(hd _ (m _)).1, (hd _ (m _)).2.1, (hd _ (m _)).2.2.1⟩

theorem mem_quoteChar_safe (x : Char) : ∀ c ∈ quoteChar true x, c ≠ '<' ∧ c ≠ '>' ∧ c ≠ '&' := by
  intro c
  unfold quoteChar
  split
  · intro hc; simp only [List.mem_cons, List.not_mem_nil, or_false] at hc
    rcases hc with h | h <;> subst h <;> decide
  split
  · intro hc; simp only [List.mem_cons, List.not_mem_nil, or_false] at hc
    rcases hc with h | h <;> subst h <;> decide
  split
  · intro hc; simp only [List.mem_cons, List.not_mem_nil, or_false] at hc
    rcases hc with h | h <;> subst h <;> decide
  split
  · intro hc; simp only [List.mem_cons, List.not_mem_nil, or_false] at hc
    rcases hc with h | h <;> subst h <;> decide
  split
  · intro hc; simp only [List.mem_cons, List.not_mem_nil, or_false] at hc
    rcases hc with h | h <;> subst h <;> decide
  split
  · intro hc; simp only [List.mem_cons, List.not_mem_nil, or_false] at hc
    rcases hc with h | h <;> subst h <;> decide
  split
  · intro hc; simp only [List.mem_cons, List.not_mem_nil, or_false] at hc
    rcases hc with h | h <;> subst h <;> decide
  split
  · exact mem_u4_not_html _ c
  split
  · exact mem_u4_not_html _ c
  split
  · exact mem_u4_not_html _ c
  · next h _ =>
    intro hc
    simp only [List.mem_cons, List.not_mem_nil, or_false] at hc
    subst hc
    simpa [and_assoc] using h

theorem quoteChar_default_html (c : Char) (hc : c = '<' ∨ c = '>' ∨ c = '&') :
    quoteChar false c = [c] := by
  rcases hc with h | h | h <;> subst h <;> decide

/-! ### number literals -/

def numSign (s : Str) : Str × Str := match s with | '-' :: r => (['-'], r) | r => ([], r)
def numInt (s1 : Str) : Option (Str × Str) := match s1 with
    | '0' :: r => some (['0'], r)
    | _ => match digits1 s1 with
      | some (ds, r) => some (ds, r)
      | none => none
def numFrac (s2 : Str) : Option (Str × Str) := match s2 with
      | '.' :: r => match digits1 r with
          | some (ds, r') => some ('.' :: ds, r')
          | none => none
      | r => some ([], r)
def numExpSign (r : Str) : Str × Str := match r with
                | '+' :: r' => (['+'], r')
                | '-' :: r' => (['-'], r')
                | r' => ([], r')
def numExp (s3 : Str) : Option (Str × Str) := match s3 with
        | e :: r => if e = 'e' || e = 'E' then
              match digits1 (numExpSign r).2 with
              | some (ds, r2) => some (e :: (numExpSign r).1 ++ ds, r2)
              | none => none
            else some ([], s3)
        | [] => some ([], [])

/-- `numberLit` is the composition of its four stages -/
theorem numberLit_eq (s : Str) : numberLit s =
    match numInt (numSign s).2 with
    | none => none
    | some (ip, s2) => match numFrac s2 with
      | none => none
      | some (fp, s3) => match numExp s3 with
        | none => none
        | some (ep, s4) => some ((numSign s).1 ++ ip ++ fp ++ ep, s4) := by
  unfold numberLit numSign numInt numFrac numExp numExpSign
  rfl

/-- `rest` cannot extend a number literal: it is empty or starts with something else than a
    digit, '.', 'e', 'E' -/
def numEnd : Str → Bool
  | [] => true
  | c :: _ => !(isDigit c || c == '.' || c == 'e' || c == 'E')

theorem numEnd_cons {c : Char} {r : Str} (h : numEnd (c :: r) = true) :
    isDigit c = false ∧ c ≠ '.' ∧ c ≠ 'e' ∧ c ≠ 'E' := by
  simpa [numEnd, not_or, and_assoc] using h

theorem takeWhile_isDigit_append (x rest : Str) (h : numEnd rest = true) :
    (x ++ rest).takeWhile isDigit = x.takeWhile isDigit := by
  induction x with
  | nil =>
    cases rest with
    | nil => rfl
    | cons c r => simp [List.takeWhile, (numEnd_cons h).1]
  | cons c x ih => simp only [List.cons_append, List.takeWhile_cons, ih]

theorem dropWhile_isDigit_append (x rest : Str) (h : numEnd rest = true) :
    (x ++ rest).dropWhile isDigit = x.dropWhile isDigit ++ rest := by
  induction x with
  | nil =>
    cases rest with
    | nil => rfl
    | cons c r => simp [List.dropWhile, (numEnd_cons h).1]
  | cons c x ih =>
    simp only [List.cons_append, List.dropWhile_cons, ih]
    split <;> rfl

theorem digits1_append (x rest d r : Str) (h : numEnd rest = true)
    (hx : digits1 x = some (d, r)) : digits1 (x ++ rest) = some (d, r ++ rest) := by
  simp only [digits1, takeWhile_isDigit_append x rest h, dropWhile_isDigit_append x rest h]
    at hx ⊢
  by_cases hne : (List.takeWhile isDigit x).isEmpty = true
  · simp [hne] at hx
  · simp only [hne, if_false, Option.some.injEq, Prod.mk.injEq, Bool.false_eq_true] at hx ⊢
    simp [hx.1, hx.2]

theorem digits1_nil : digits1 [] = none := by simp [digits1]

theorem digits1_head (x d r : Str) (hx : digits1 x = some (d, r)) :
    ∃ c tl, x = c :: tl ∧ isDigit c = true := by
  cases x with
  | nil => simp [digits1_nil] at hx
  | cons c tl =>
    refine ⟨c, tl, rfl, ?_⟩
    cases hc : isDigit c with
    | true => rfl
    | false => simp [digits1, List.takeWhile, hc] at hx

theorem numInt_of_ne (c : Char) (tl : Str) (h0 : c ≠ '0') :
    numInt (c :: tl) = (match digits1 (c :: tl) with
      | some (ds, r) => some (ds, r)
      | none => none) := by
  unfold numInt
  split
  · next heq => simp only [List.cons.injEq] at heq; exact absurd heq.1 h0
  · rfl

theorem numInt_append (x rest ip r : Str) (h : numEnd rest = true)
    (hx : numInt x = some (ip, r)) : numInt (x ++ rest) = some (ip, r ++ rest) := by
  cases x with
  | nil => simp [numInt, digits1_nil] at hx
  | cons c tl =>
    by_cases hc : c = '0'
    · subst hc
      simp only [numInt, Option.some.injEq, Prod.mk.injEq] at hx
      simp [numInt, hx.1, hx.2]
    · unfold numInt at hx ⊢
      simp only [List.cons_append]
      split at hx
      · next heq => simp only [List.cons.injEq] at heq; exact absurd heq.1 hc
      · split
        · next heq => simp only [List.cons.injEq] at heq; exact absurd heq.1 hc
        · cases hd : digits1 (c :: tl) with
          | none => simp [hd] at hx
          | some p =>
            obtain ⟨d', r'⟩ := p
            simp only [hd, Option.some.injEq, Prod.mk.injEq] at hx
            have := digits1_append (c :: tl) rest d' r' h hd
            simp only [List.cons_append] at this
            simp [this, hx.1, hx.2]

theorem numFrac_append (x rest fp r : Str) (h : numEnd rest = true)
    (hx : numFrac x = some (fp, r)) : numFrac (x ++ rest) = some (fp, r ++ rest) := by
  cases x with
  | nil =>
    simp only [numFrac, Option.some.injEq, Prod.mk.injEq] at hx
    obtain ⟨h1, h2⟩ := hx
    subst h1 h2
    cases rest with
    | nil => simp [numFrac]
    | cons c r =>
      have hc := (numEnd_cons h).2.1
      unfold numFrac
      simp only [List.nil_append]
      split
      · next heq => simp only [List.cons.injEq] at heq; exact absurd heq.1 hc
      · rfl
  | cons c tl =>
    by_cases hc : c = '.'
    · subst hc
      simp only [numFrac] at hx ⊢
      simp only [List.cons_append]
      cases hd : digits1 tl with
      | none => simp [hd] at hx
      | some p =>
        obtain ⟨d', r'⟩ := p
        simp only [hd, Option.some.injEq, Prod.mk.injEq] at hx
        simp [digits1_append tl rest d' r' h hd, hx.1, hx.2]
    · unfold numFrac at hx ⊢
      simp only [List.cons_append]
      split at hx
      · next heq => simp only [List.cons.injEq] at heq; exact absurd heq.1 hc
      · split
        · next heq => simp only [List.cons.injEq] at heq; exact absurd heq.1 hc
        · simp only [Option.some.injEq, Prod.mk.injEq] at hx
          simp [← hx.1, ← hx.2]

theorem numExpSign_append (c : Char) (tl rest : Str) :
    numExpSign (c :: tl ++ rest) = ((numExpSign (c :: tl)).1, (numExpSign (c :: tl)).2 ++ rest) := by
  by_cases h1 : c = '+'
  · subst h1; simp [numExpSign]
  · by_cases h2 : c = '-'
    · subst h2; simp [numExpSign]
    · unfold numExpSign
      simp only [List.cons_append]
      split
      · next heq => simp only [List.cons.injEq] at heq; exact absurd heq.1 h1
      · next heq => simp only [List.cons.injEq] at heq; exact absurd heq.1 h2
      · split
        · next heq => simp only [List.cons.injEq] at heq; exact absurd heq.1 h1
        · next heq => simp only [List.cons.injEq] at heq; exact absurd heq.1 h2
        · rfl

theorem numExp_append (x rest ep r : Str) (h : numEnd rest = true)
    (hx : numExp x = some (ep, r)) : numExp (x ++ rest) = some (ep, r ++ rest) := by
  cases x with
  | nil =>
    simp only [numExp, Option.some.injEq, Prod.mk.injEq] at hx
    obtain ⟨h1, h2⟩ := hx
    subst h1 h2
    cases rest with
    | nil => simp [numExp]
    | cons c r =>
      have hc := numEnd_cons h
      simp [numExp, hc.2.2.1, hc.2.2.2]
  | cons e tl =>
    simp only [numExp, List.cons_append] at hx ⊢
    split at hx
    · next he =>
      simp only [he, if_true]
      cases tl with
      | nil => simp [numExpSign, digits1_nil] at hx
      | cons c tl' =>
        rw [numExpSign_append]
        cases hd : digits1 (numExpSign (c :: tl')).2 with
        | none => simp [hd] at hx
        | some p =>
          obtain ⟨d', r'⟩ := p
          simp only [hd, Option.some.injEq, Prod.mk.injEq] at hx
          simp [digits1_append _ rest d' r' h hd, hx.1, hx.2]
    · next he =>
      simp only [he]
      simp only [Option.some.injEq, Prod.mk.injEq] at hx
      simp [← hx.1, ← hx.2]

/-- a literal recognised at the head of `x` is recognised, unchanged, when `x` is followed by
    something that cannot extend it -/
theorem numberLit_append (x rest t r : Str) (h : numEnd rest = true)
    (hx : numberLit x = some (t, r)) : numberLit (x ++ rest) = some (t, r ++ rest) := by
  rw [numberLit_eq] at hx ⊢
  have hs : numSign (x ++ rest) = ((numSign x).1, (numSign x).2 ++ rest) := by
    cases x with
    | nil => simp [numSign, numInt, digits1_nil] at hx
    | cons c tl =>
      by_cases hc : c = '-'
      · subst hc; simp [numSign]
      · unfold numSign
        simp only [List.cons_append]
        split
        · next heq => simp only [List.cons.injEq] at heq; exact absurd heq.1 hc
        · split
          · next heq => simp only [List.cons.injEq] at heq; exact absurd heq.1 hc
          · rfl
  rw [hs]
  cases h1 : numInt (numSign x).2 with
  | none => simp [h1] at hx
  | some p1 =>
    obtain ⟨ip, s2⟩ := p1
    simp only [h1] at hx
    simp only [numInt_append _ rest ip s2 h h1]
    cases h2 : numFrac s2 with
    | none => simp [h2] at hx
    | some p2 =>
      obtain ⟨fp, s3⟩ := p2
      simp only [h2] at hx
      simp only [numFrac_append _ rest fp s3 h h2]
      cases h3 : numExp s3 with
      | none => simp [h3] at hx
      | some p3 =>
        obtain ⟨ep, s4⟩ := p3
        simp only [h3, Option.some.injEq, Prod.mk.injEq] at hx
        simp only [numExp_append _ rest ep s4 h h3]
        simp [← hx.1, hx.2]

/-- a recognised literal starts with '-' or a digit -/
theorem numberLit_head (x t r : Str) (hx : numberLit x = some (t, r)) :
    ∃ c tl, x = c :: tl ∧ (c = '-' ∨ isDigit c = true) := by
  rw [numberLit_eq] at hx
  cases x with
  | nil => simp [numSign, numInt, digits1_nil] at hx
  | cons c tl =>
    refine ⟨c, tl, rfl, ?_⟩
    by_cases hc : c = '-'
    · exact Or.inl hc
    · right
      have hs : numSign (c :: tl) = ([], c :: tl) := by
        unfold numSign
        split
        · next heq => simp only [List.cons.injEq] at heq; exact absurd heq.1 hc
        · rfl
      rw [hs] at hx
      by_cases h0 : c = '0'
      · subst h0; decide
      · cases hd : digits1 (c :: tl) with
        | none =>
          simp [numInt_of_ne c tl h0, hd] at hx
        | some p =>
          obtain ⟨c', tl', he, hdig⟩ := digits1_head _ p.1 p.2 hd
          simp only [List.cons.injEq] at he
          rw [he.1]; exact hdig

/-- a well-formed number literal: the number grammar recognises exactly the whole of it -/
def NumOk (lit : Str) : Bool := numberLit lit == some (lit, [])

theorem NumOk_iff (lit : Str) : NumOk lit = true ↔ numberLit lit = some (lit, []) := by
  simp [NumOk]

/-! ### `value` on the first character -/

theorem skipWs_cons_of (c : Char) (r : Str) (h : isWs c = false) : skipWs (c :: r) = c :: r := by
  simp [skipWs, List.dropWhile, h]

theorem value_brace (f : Nat) (r : Str) :
    value (f + 1) ('{' :: r) = (match skipWs r with
        | '}' :: r' => some (.map [], r')
        | r' => members f r' []) := by
  rw [value, skipWs_cons_of _ _ (by decide)]; rfl

theorem value_bracket (f : Nat) (r : Str) :
    value (f + 1) ('[' :: r) = (match skipWs r with
        | ']' :: r' => some (.list [], r')
        | r' => elements f r' []) := by
  rw [value, skipWs_cons_of _ _ (by decide)]; rfl

theorem value_quote (f : Nat) (r : Str) :
    value (f + 1) ('"' :: r) = (strBody (r.length + 1) r []).map fun (t, r') => (.str t, r') := by
  rw [value, skipWs_cons_of _ _ (by decide)]; rfl

theorem value_null (f : Nat) (r : Str) :
    value (f + 1) ("null".toList ++ r) = some (.null, r) := by
  rw [value]; rfl
theorem value_true (f : Nat) (r : Str) :
    value (f + 1) ("true".toList ++ r) = some (.bool true, r) := by
  rw [value]; rfl
theorem value_false (f : Nat) (r : Str) :
    value (f + 1) ("false".toList ++ r) = some (.bool false, r) := by
  rw [value]; rfl

theorem quote_append (html : Bool) (s rest : Str) :
    quote html s ++ rest = '"' :: (s.flatMap (quoteChar html) ++ '"' :: rest) := by
  simp [quote]

theorem value_str (html : Bool) (s rest : Str) (f : Nat) :
    value (f + 1) (quote html s ++ rest) = some (.str s, rest) := by
  rw [quote_append, value_quote, strBody_flatMap]
  · simp
  · have := length_le_flatMap_quoteChar html s
    simp only [List.length_append, List.length_cons]; omega

/-- the first character of a number literal selects the number branch of `value` -/
theorem numHead_facts (c : Char) (hc : c = '-' ∨ isDigit c = true) :
    isWs c = false ∧ c ≠ '{' ∧ c ≠ '[' ∧ c ≠ '"' ∧ c ≠ 't' ∧ c ≠ 'f' ∧ c ≠ 'n' ∧ c ≠ ']' ∧
      c ≠ '}' := by
  rcases hc with h | h
  · subst h; decide
  · refine ⟨?_, ?_, ?_, ?_, ?_, ?_, ?_, ?_, ?_⟩
    · simp only [isDigit, Bool.and_eq_true, decide_eq_true_eq] at h
      have h1 : 48 ≤ c.toNat := h.1
      have h2 : c.toNat ≤ 57 := h.2
      cases hw : isWs c with
      | false => rfl
      | true =>
        simp only [isWs, Bool.or_eq_true, decide_eq_true_eq] at hw
        rcases hw with ((hw | hw) | hw) | hw <;> subst hw <;> revert h1 <;> decide
    all_goals (rintro rfl; revert h; decide)

theorem value_num (lit rest : Str) (f : Nat) (hl : NumOk lit = true) (hr : numEnd rest = true) :
    value (f + 1) (lit ++ rest) = some (.num ("jn:".toList ++ lit), rest) := by
  rw [NumOk_iff] at hl
  obtain ⟨c, tl, rfl, hc⟩ := numberLit_head lit lit [] hl
  obtain ⟨h0, h1, h2, h3, h4, h5, h6, _, _⟩ := numHead_facts c hc
  have hn := numberLit_append _ rest _ _ hr hl
  rw [value, List.cons_append, skipWs_cons_of _ _ h0]
  split
  · next heq => simp only [List.cons.injEq] at heq; exact absurd heq.1 h1
  · next heq => simp only [List.cons.injEq] at heq; exact absurd heq.1 h2
  · next heq => simp only [List.cons.injEq] at heq; exact absurd heq.1 h3
  · next heq => simp only [List.cons.injEq] at heq; exact absurd heq.1 h4
  · next heq => simp only [List.cons.injEq] at heq; exact absurd heq.1 h5
  · next heq => simp only [List.cons.injEq] at heq; exact absurd heq.1 h6
  · rw [List.cons_append] at hn; rw [hn]; simp

/-! ### JSON-shaped values -/

mutual
/-- every number is `"jn:" ++ lit` with a well-formed literal; maps have distinct keys -/
def JsonShaped : Val → Bool
  | .num t => t == "jn:".toList ++ numLit t && NumOk (numLit t)
  | .list xs => JsonShapedList xs
  | .map kvs => JsonShapedEntries kvs && distinctKeys kvs
  | _ => true
def JsonShapedList : List Val → Bool
  | [] => true
  | x :: xs => JsonShaped x && JsonShapedList xs
def JsonShapedEntries : Entries → Bool
  | [] => true
  | (_, v) :: rest => JsonShaped v && JsonShapedEntries rest
end

mutual
/-- fuel that suffices to decode the encoding of a value -/
def sz : Val → Nat
  | .list xs => 1 + szList xs
  | .map kvs => 1 + szEntries kvs
  | _ => 1
def szList : List Val → Nat
  | [] => 0
  | x :: xs => 1 + sz x + szList xs
def szEntries : Entries → Nat
  | [] => 0
  | (_, v) :: rest => 1 + sz v + szEntries rest
end

theorem sz_pos (v : Val) : 0 < sz v := by
  cases v <;> simp [sz] <;> omega

/-! ### association lists -/

theorem insert_of_not_mem (k : Str) (v : Val) (acc : Entries) (h : k ∉ keys acc) :
    insert k v acc = acc ++ [(k, v)] := by
  induction acc with
  | nil => rfl
  | cons e acc ih =>
    obtain ⟨k', v'⟩ := e
    simp only [keys, List.map_cons, List.mem_cons, not_or] at h
    simp only [insert, h.1, if_false, List.cons_append]
    rw [ih (by simpa [keys] using h.2)]

theorem distinct_mid (acc : Entries) (k : Str) (v : Val) (r : Entries)
    (h : distinctKeys (acc ++ (k, v) :: r) = true) : k ∉ keys acc := by
  induction acc with
  | nil => simp [keys]
  | cons e acc ih =>
    obtain ⟨k', v'⟩ := e
    simp only [List.cons_append, distinctKeys, Bool.and_eq_true, Bool.not_eq_true',
      List.any_eq_false, List.mem_append, List.mem_cons] at h
    have h1 := h.1 (k, v) (Or.inr (Or.inl rfl))
    simp only [beq_iff_eq] at h1
    simp only [keys, List.map_cons, List.mem_cons, not_or]
    exact ⟨h1, by simpa [keys] using ih h.2⟩

/-! ### the round trip -/

theorem members_step (f : Nat) (html : Bool) (k : Str) (tail : Str) (acc : Entries) :
    members (f + 1) (quote html k ++ ':' :: tail) acc =
      (match value f tail with
        | none => none
        | some (v, r3) => match skipWs r3 with
          | ',' :: r4 => members f r4 (insert k v acc)
          | '}' :: r4 => some (.map (insert k v acc), r4)
          | _ => none) := by
  rw [members, quote_append, skipWs_cons_of _ _ (by decide)]
  simp only []
  rw [strBody_flatMap html k _ (':' :: tail) []
    (by have := length_le_flatMap_quoteChar html k
        simp only [List.length_append, List.length_cons]; omega)]
  simp only [List.reverse_nil, List.nil_append]
  rw [skipWs_cons_of _ _ (by decide)]
  rfl

/-- the first character of an encoded value is no white space and no closing bracket -/
theorem encN_head (html : Bool) (v : Val) (hv : JsonShaped v = true) :
    ∃ c tl, encN html v = c :: tl ∧ isWs c = false ∧ c ≠ ']' ∧ c ≠ '}' := by
  cases v with
  | null => exact ⟨'n', _, rfl, by decide⟩
  | bool b => cases b
              · exact ⟨'f', _, rfl, by decide⟩
              · exact ⟨'t', _, rfl, by decide⟩
  | num t =>
    simp only [JsonShaped, Bool.and_eq_true] at hv
    obtain ⟨c, tl, he, hc⟩ := numberLit_head _ _ _ ((NumOk_iff _).1 hv.2)
    have := numHead_facts c hc
    exact ⟨c, tl, by simp [encN, he], this.1, this.2.2.2.2.2.2.2.1, this.2.2.2.2.2.2.2.2⟩
  | str s => exact ⟨'"', s.flatMap (quoteChar html) ++ ['"'], by simp [encN, quote], by decide⟩
  | list xs => exact ⟨'[', encList html xs ++ [']'], by simp [encN], by decide⟩
  | map kvs => exact ⟨'{', encEntries html kvs ++ ['}'], by simp [encN], by decide⟩

theorem value_bracket_ne (f : Nat) (c : Char) (tl : Str) (h : isWs c = false) (h2 : c ≠ ']') :
    value (f + 1) ('[' :: c :: tl) = elements f (c :: tl) [] := by
  rw [value_bracket, skipWs_cons_of _ _ h]
  split
  · next heq => simp only [List.cons.injEq] at heq; exact absurd heq.1 h2
  · rfl

theorem value_brace_quote (f : Nat) (tl : Str) :
    value (f + 1) ('{' :: '"' :: tl) = members f ('"' :: tl) [] := by
  rw [value_brace, skipWs_cons_of _ _ (by decide)]
  rfl

theorem numLit_jn (lit : Str) : numLit ("jn:".toList ++ lit) = lit := by
  simp [numLit, List.dropWhile]

mutual
theorem rt_value : ∀ (v : Val) (html : Bool) (rest : Str) (f : Nat), JsonShaped v = true →
    (∀ t, v = .num t → numEnd rest = true) → sz v ≤ f →
    value f (encN html v ++ rest) = some (v, rest)
  | .null, html, rest, f, _, _, hf => by
      cases f with
      | zero => simp [sz] at hf
      | succ f => exact value_null f rest
  | .bool b, html, rest, f, _, _, hf => by
      cases f with
      | zero => simp [sz] at hf
      | succ f => cases b
                  · exact value_false f rest
                  · exact value_true f rest
  | .num t, html, rest, f, hv, hr, hf => by
      cases f with
      | zero => simp [sz] at hf
      | succ f =>
        simp only [JsonShaped, Bool.and_eq_true, beq_iff_eq] at hv
        rw [encN, value_num _ rest f hv.2 (hr t rfl), ← hv.1]
  | .str s, html, rest, f, _, _, hf => by
      cases f with
      | zero => simp [sz] at hf
      | succ f => exact value_str html s rest f
  | .list [], html, rest, f, _, _, hf => by
      cases f with
      | zero => simp [sz] at hf
      | succ f =>
        simp only [encN, encList, List.cons_append, List.nil_append, List.append_nil]
        rw [value_bracket, skipWs_cons_of _ _ (by decide)]
        rfl
  | .list (x :: xs), html, rest, f, hv, _, hf => by
      cases f with
      | zero => simp [sz] at hf
      | succ f =>
        have hx : JsonShaped x = true := by
          simp only [JsonShaped, JsonShapedList, Bool.and_eq_true] at hv; exact hv.1
        obtain ⟨c, tl, he, hc1, hc2, _⟩ := encN_head html x hx
        have hh : ∃ tl', encList html (x :: xs) = c :: tl' := by
          cases xs with
          | nil => exact ⟨tl, by simp [encList, he]⟩
          | cons y r => exact ⟨_, by simp [encList, he]; rfl⟩
        obtain ⟨tl', he'⟩ := hh
        have := rt_elements (x :: xs) html rest f [] (by simp)
          (by simpa [JsonShaped] using hv) (by simp only [sz] at hf; omega)
        rw [he'] at this
        simp only [encN, List.cons_append, List.nil_append, List.append_assoc, he']
        rw [value_bracket_ne _ _ _ hc1 hc2]
        simpa using this
  | .map [], html, rest, f, _, _, hf => by
      cases f with
      | zero => simp [sz] at hf
      | succ f =>
        simp only [encN, encEntries, List.cons_append, List.nil_append, List.append_nil]
        rw [value_brace, skipWs_cons_of _ _ (by decide)]
        rfl
  | .map ((k, v) :: kvs), html, rest, f, hv, _, hf => by
      cases f with
      | zero => simp [sz] at hf
      | succ f =>
        have hh : ∃ tl', encEntries html ((k, v) :: kvs) = '"' :: tl' := by
          cases kvs with
          | nil => exact ⟨_, by simp [encEntries, quote]; rfl⟩
          | cons y r => exact ⟨_, by simp [encEntries, quote]; rfl⟩
        obtain ⟨tl', he'⟩ := hh
        simp only [JsonShaped, Bool.and_eq_true] at hv
        have := rt_members ((k, v) :: kvs) html rest f [] (by simp) hv.1
          (by simpa using hv.2) (by simp only [sz] at hf; omega)
        rw [he'] at this
        simp only [encN, List.cons_append, List.nil_append, List.append_assoc, he']
        rw [value_brace_quote]
        simpa using this
theorem rt_elements : ∀ (xs : List Val) (html : Bool) (rest : Str) (f : Nat) (acc : List Val),
    xs ≠ [] → JsonShapedList xs = true → szList xs ≤ f →
    elements f (encList html xs ++ ']' :: rest) acc = some (.list (acc.reverse ++ xs), rest)
  | [], _, _, _, _, hne, _, _ => absurd rfl hne
  | [x], html, rest, f, acc, _, hv, hf => by
      cases f with
      | zero => simp [szList] at hf
      | succ f =>
        simp only [JsonShapedList, Bool.and_eq_true] at hv
        rw [elements, encList,
          rt_value x html (']' :: rest) f hv.1 (fun _ _ => rfl) (by simp only [szList] at hf; omega)]
        simp only []
        rw [skipWs_cons_of _ _ (by decide)]
        simp
  | x :: y :: r, html, rest, f, acc, _, hv, hf => by
      cases f with
      | zero => simp [szList] at hf
      | succ f =>
        simp only [JsonShapedList, Bool.and_eq_true] at hv
        have h2 := rt_elements (y :: r) html rest f (x :: acc) (by simp)
          (by simp [JsonShapedList, hv.2.1, hv.2.2]) (by simp only [szList] at hf ⊢; omega)
        rw [elements, encList]
        simp only [List.append_assoc, List.cons_append, List.nil_append]
        rw [rt_value x html (',' :: (encList html (y :: r) ++ ']' :: rest)) f hv.1
          (fun _ _ => rfl) (by simp only [szList] at hf; omega)]
        simp only []
        rw [skipWs_cons_of _ _ (by decide)]
        simp only []
        rw [h2]; simp
theorem rt_members : ∀ (kvs : Entries) (html : Bool) (rest : Str) (f : Nat) (acc : Entries),
    kvs ≠ [] → JsonShapedEntries kvs = true → distinctKeys (acc ++ kvs) = true →
    szEntries kvs ≤ f →
    members f (encEntries html kvs ++ '}' :: rest) acc = some (.map (acc ++ kvs), rest)
  | [], _, _, _, _, hne, _, _, _ => absurd rfl hne
  | [(k, v)], html, rest, f, acc, _, hv, hd, hf => by
      cases f with
      | zero => simp [szEntries] at hf
      | succ f =>
        simp only [JsonShapedEntries, Bool.and_eq_true] at hv
        rw [encEntries]
        simp only [List.append_assoc, List.cons_append, List.nil_append]
        rw [members_step,
          rt_value v html ('}' :: rest) f hv.1 (fun _ _ => rfl) (by simp only [szEntries] at hf; omega)]
        simp only []
        rw [skipWs_cons_of _ _ (by decide)]
        simp only []
        rw [insert_of_not_mem k v acc (distinct_mid acc k v [] hd)]
  | (k, v) :: e :: r, html, rest, f, acc, _, hv, hd, hf => by
      cases f with
      | zero => simp [szEntries] at hf
      | succ f =>
        obtain ⟨k2, v2⟩ := e
        simp only [JsonShapedEntries, Bool.and_eq_true] at hv
        have h2 := rt_members ((k2, v2) :: r) html rest f (acc ++ [(k, v)]) (by simp)
          (by simp [JsonShapedEntries, hv.2.1, hv.2.2]) (by simpa using hd)
          (by simp only [szEntries] at hf ⊢; omega)
        rw [encEntries]
        simp only [List.append_assoc, List.cons_append, List.nil_append]
        rw [members_step,
          rt_value v html (',' :: (encEntries html ((k2, v2) :: r) ++ '}' :: rest)) f hv.1
            (fun _ _ => rfl) (by simp only [szEntries] at hf; omega)]
        simp only []
        rw [skipWs_cons_of _ _ (by decide)]
        simp only []
        rw [insert_of_not_mem k v acc (distinct_mid acc k v _ hd), h2]
        simp
end

/-! ### enough fuel: the length of the text -/

theorem numOk_ne_nil (lit : Str) (h : NumOk lit = true) : 0 < lit.length := by
  obtain ⟨c, tl, rfl, _⟩ := numberLit_head lit lit [] ((NumOk_iff _).1 h)
  simp

mutual
theorem sz_le_length : ∀ (html : Bool) (v : Val), JsonShaped v = true → sz v ≤ (encN html v).length
  | _, .null, _ => by simp [sz, encN]
  | _, .bool b, _ => by cases b <;> simp [sz, encN]
  | _, .num t, hv => by
      simp only [JsonShaped, Bool.and_eq_true] at hv
      have := numOk_ne_nil _ hv.2
      simp only [sz, encN]; omega
  | _, .str s, _ => by simp [sz, encN, quote]
  | html, .list xs, hv => by
      have := szList_le_length html xs (by simpa [JsonShaped] using hv)
      simp only [sz, encN, List.length_append, List.length_cons, List.length_nil]; omega
  | html, .map kvs, hv => by
      simp only [JsonShaped, Bool.and_eq_true] at hv
      have := szEntries_le_length html kvs hv.1
      simp only [sz, encN, List.length_append, List.length_cons, List.length_nil]; omega
theorem szList_le_length : ∀ (html : Bool) (xs : List Val), JsonShapedList xs = true →
    szList xs ≤ (encList html xs).length + 1
  | _, [], _ => by simp [szList]
  | html, [x], hv => by
      simp only [JsonShapedList, Bool.and_eq_true] at hv
      have := sz_le_length html x hv.1
      simp only [szList, encList]; omega
  | html, x :: y :: r, hv => by
      simp only [JsonShapedList, Bool.and_eq_true] at hv
      have h1 := sz_le_length html x hv.1
      have h2 := szList_le_length html (y :: r) (by simp [JsonShapedList, hv.2.1, hv.2.2])
      simp only [szList, encList, List.length_append, List.length_cons, List.length_nil] at h2 ⊢
      omega
theorem szEntries_le_length : ∀ (html : Bool) (kvs : Entries), JsonShapedEntries kvs = true →
    szEntries kvs ≤ (encEntries html kvs).length + 1
  | _, [], _ => by simp [szEntries]
  | html, [(k, v)], hv => by
      simp only [JsonShapedEntries, Bool.and_eq_true] at hv
      have := sz_le_length html v hv.1
      simp only [szEntries, encEntries, List.length_append, List.length_cons, List.length_nil]
      omega
  | html, (k, v) :: e :: r, hv => by
      obtain ⟨k2, v2⟩ := e
      simp only [JsonShapedEntries, Bool.and_eq_true] at hv
      have h1 := sz_le_length html v hv.1
      have h2 := szEntries_le_length html ((k2, v2) :: r)
        (by simp [JsonShapedEntries, hv.2.1, hv.2.2])
      simp only [szEntries, encEntries, List.length_append, List.length_cons, List.length_nil]
        at h2 ⊢
      omega
end

/-- the decoder's own fuel (text length + 1) is enough -/
theorem firstValue_encN (html : Bool) (v : Val) (hv : JsonShaped v = true) (rest : Str)
    (hr : ∀ t, v = .num t → numEnd rest = true) :
    firstValue (encN html v ++ rest) = some v := by
  have := sz_le_length html v hv
  unfold firstValue
  rw [rt_value v html rest _ hv hr (by simp only [List.length_append]; omega)]
  rfl

/-! ### sorting entries with distinct keys -/

theorem distinctKeys_iff_nodup (kvs : Entries) : distinctKeys kvs = true ↔ (keys kvs).Nodup := by
  induction kvs with
  | nil => simp [distinctKeys, keys]
  | cons e kvs ih =>
    obtain ⟨k, v⟩ := e
    simp only [distinctKeys, Bool.and_eq_true, Bool.not_eq_true', List.any_eq_false, beq_iff_eq,
      ih, keys, List.map_cons, List.nodup_cons, List.mem_map, not_exists, not_and]

theorem insertByKey_perm (e : Str × Val) (xs : Entries) : (insertByKey e xs).Perm (e :: xs) := by
  induction xs with
  | nil => exact List.Perm.refl _
  | cons x xs ih =>
    simp only [insertByKey]
    split
    · exact ((List.Perm.cons x ih).trans (List.Perm.swap e x xs))
    · exact List.Perm.refl _

theorem sortByKey_perm (l : Entries) : (sortByKey l).Perm l := by
  induction l with
  | nil => exact List.Perm.refl _
  | cons e l ih =>
    show (insertByKey e (sortByKey l)).Perm (e :: l)
    exact (insertByKey_perm e _).trans (List.Perm.cons e ih)

theorem distinctKeys_sortByKey (l : Entries) (h : distinctKeys l = true) :
    distinctKeys (sortByKey l) = true := by
  rw [distinctKeys_iff_nodup] at h ⊢
  unfold keys at h ⊢
  exact (((sortByKey_perm l).map (fun e => e.1)).nodup_iff).2 h

theorem jsonShapedEntries_iff (kvs : Entries) :
    JsonShapedEntries kvs = true ↔ ∀ e ∈ kvs, JsonShaped e.2 = true := by
  induction kvs with
  | nil => simp [JsonShapedEntries]
  | cons e kvs ih =>
    obtain ⟨k, v⟩ := e
    simp [JsonShapedEntries, ih]

theorem jsonShapedEntries_sortByKey (l : Entries) (h : JsonShapedEntries l = true) :
    JsonShapedEntries (sortByKey l) = true := by
  rw [jsonShapedEntries_iff] at h ⊢
  exact fun e he => h e ((sortByKey_perm l).mem_iff.1 he)

theorem keys_normEntries : ∀ kvs : Entries, keys (Val.normEntries kvs) = keys kvs
  | [] => rfl
  | (k, v) :: rest => by
      simp only [Val.normEntries, keys, List.map_cons]
      exact congrArg _ (keys_normEntries rest)

theorem distinctKeys_normEntries (kvs : Entries) (h : distinctKeys kvs = true) :
    distinctKeys (Val.normEntries kvs) = true := by
  rw [distinctKeys_iff_nodup] at h ⊢
  rwa [keys_normEntries]

mutual
/-- normalisation (sorting every map by key) keeps a value JSON-shaped -/
theorem jsonShaped_norm : ∀ v : Val, JsonShaped v = true → JsonShaped v.norm = true
  | .null, h => h
  | .bool _, h => h
  | .num _, h => h
  | .str _, h => h
  | .list xs, h => by
      simp only [Val.norm, JsonShaped] at h ⊢
      exact jsonShaped_normList xs h
  | .map kvs, h => by
      simp only [Val.norm, JsonShaped, Bool.and_eq_true] at h ⊢
      exact ⟨jsonShapedEntries_sortByKey _ (jsonShaped_normEntries kvs h.1),
        distinctKeys_sortByKey _ (distinctKeys_normEntries kvs h.2)⟩
theorem jsonShaped_normList : ∀ xs : List Val, JsonShapedList xs = true →
    JsonShapedList (Val.normList xs) = true
  | [], _ => rfl
  | x :: xs, h => by
      simp only [Val.normList, JsonShapedList, Bool.and_eq_true] at h ⊢
      exact ⟨jsonShaped_norm x h.1, jsonShaped_normList xs h.2⟩
theorem jsonShaped_normEntries : ∀ kvs : Entries, JsonShapedEntries kvs = true →
    JsonShapedEntries (Val.normEntries kvs) = true
  | [], _ => rfl
  | (k, v) :: rest, h => by
      simp only [Val.normEntries, JsonShapedEntries, Bool.and_eq_true] at h ⊢
      exact ⟨jsonShaped_norm v h.1, jsonShaped_normEntries rest h.2⟩
end

/-! ### the key order: total and antisymmetric, so sorting a sorted distinct list is the identity -/

theorem strLe_total : ∀ a b : Str, strLe a b = false → strLe b a = true
  | [], _, h => by simp [strLe] at h
  | _ :: _, [], _ => by simp [strLe]
  | a :: as, b :: bs, h => by
      simp only [strLe, Bool.or_eq_false_iff, decide_eq_false_iff_not, Bool.and_eq_false_iff,
        beq_eq_false_iff_ne, Nat.not_lt] at h
      simp only [strLe, Bool.or_eq_true, decide_eq_true_eq, Bool.and_eq_true, beq_iff_eq]
      rcases h with ⟨h1, h2 | h2⟩
      · left; omega
      · by_cases he : a.toNat = b.toNat
        · right; exact ⟨he.symm, strLe_total as bs h2⟩
        · left; omega

theorem strLe_antisymm : ∀ a b : Str, strLe a b = true → strLe b a = true → a = b
  | [], [], _, _ => rfl
  | [], _ :: _, _, h => by simp [strLe] at h
  | _ :: _, [], h, _ => by simp [strLe] at h
  | a :: as, b :: bs, h1, h2 => by
      simp only [strLe, Bool.or_eq_true, decide_eq_true_eq, Bool.and_eq_true, beq_iff_eq] at h1 h2
      have he : a.toNat = b.toNat := by
        rcases h1 with h1 | h1 <;> rcases h2 with h2 | h2 <;> omega
      have h1' : strLe as bs = true := by
        rcases h1 with h1 | h1
        · omega
        · exact h1.2
      have h2' : strLe bs as = true := by
        rcases h2 with h2 | h2
        · omega
        · exact h2.2
      rw [Char.toNat_inj.1 he, strLe_antisymm as bs h1' h2']

/-- adjacent entries are in key order -/
def sortedAdj : Entries → Prop
  | [] => True
  | [_] => True
  | x :: y :: r => strLe x.1 y.1 = true ∧ sortedAdj (y :: r)

theorem sortedAdj_tail {x : Str × Val} {l : Entries} (h : sortedAdj (x :: l)) : sortedAdj l := by
  cases l with
  | nil => trivial
  | cons y r => exact h.2

theorem insertByKey_sortedAdj (e : Str × Val) : ∀ xs : Entries, sortedAdj xs →
    sortedAdj (insertByKey e xs)
  | [], _ => trivial
  | [x], _ => by
      simp only [insertByKey]
      split
      · next h => exact ⟨h, trivial⟩
      · next h => exact ⟨strLe_total _ _ (by simpa using h), trivial⟩
  | x :: y :: r, hs => by
      have ih := insertByKey_sortedAdj e (y :: r) hs.2
      simp only [insertByKey] at ih ⊢
      split
      · next h =>
        split
        · next h' => simp only [h', if_true] at ih; exact ⟨hs.1, ih⟩
        · next h' => exact ⟨h, strLe_total _ _ (by simpa using h'), hs.2⟩
      · next h => exact ⟨strLe_total _ _ (by simpa using h), hs⟩

theorem sortByKey_sortedAdj : ∀ l : Entries, sortedAdj (sortByKey l)
  | [] => trivial
  | e :: l => insertByKey_sortedAdj e _ (sortByKey_sortedAdj l)

theorem sortByKey_of_sorted : ∀ l : Entries, sortedAdj l → distinctKeys l = true → sortByKey l = l
  | [], _, _ => rfl
  | [e], _, _ => rfl
  | e :: x :: r, hs, hd => by
      have hd' : distinctKeys (x :: r) = true := by
        simp only [distinctKeys, Bool.and_eq_true] at hd ⊢; exact hd.2
      have ih := sortByKey_of_sorted (x :: r) hs.2 hd'
      show insertByKey e (sortByKey (x :: r)) = _
      rw [ih]
      have hne : x.1 ≠ e.1 := by
        simp only [distinctKeys, Bool.and_eq_true, Bool.not_eq_true', List.any_eq_false,
          beq_iff_eq, List.mem_cons] at hd
        exact hd.1 x (Or.inl rfl)
      have : strLe x.1 e.1 = false := by
        cases h : strLe x.1 e.1 with
        | false => rfl
        | true => exact absurd (strLe_antisymm _ _ h hs.1) hne
      simp [insertByKey, this]

theorem sortByKey_idem (l : Entries) (hd : distinctKeys l = true) :
    sortByKey (sortByKey l) = sortByKey l :=
  sortByKey_of_sorted _ (sortByKey_sortedAdj l) (distinctKeys_sortByKey l hd)

theorem normEntries_insertByKey (e : Str × Val) : ∀ xs : Entries,
    Val.normEntries (insertByKey e xs) = insertByKey (e.1, e.2.norm) (Val.normEntries xs)
  | [] => by obtain ⟨k, v⟩ := e; simp [insertByKey, Val.normEntries]
  | (k', v') :: xs => by
      obtain ⟨k, v⟩ := e
      simp only [insertByKey, Val.normEntries]
      split
      · simp only [Val.normEntries]; exact congrArg _ (normEntries_insertByKey (k, v) xs)
      · simp [Val.normEntries]

theorem normEntries_sortByKey : ∀ l : Entries,
    Val.normEntries (sortByKey l) = sortByKey (Val.normEntries l)
  | [] => rfl
  | (k, v) :: l => by
      show Val.normEntries (insertByKey (k, v) (sortByKey l)) = _
      rw [normEntries_insertByKey, normEntries_sortByKey l]
      rfl

mutual
/-- on JSON-shaped values (distinct keys) normalising twice is normalising once -/
theorem norm_idem : ∀ v : Val, JsonShaped v = true → v.norm.norm = v.norm
  | .null, _ => rfl
  | .bool _, _ => rfl
  | .num _, _ => rfl
  | .str _, _ => rfl
  | .list xs, h => by
      simp only [Val.norm, JsonShaped] at h ⊢
      rw [normList_idem xs h]
  | .map kvs, h => by
      simp only [JsonShaped, Bool.and_eq_true] at h
      simp only [Val.norm]
      rw [normEntries_sortByKey, normEntries_idem kvs h.1,
        sortByKey_idem _ (distinctKeys_normEntries kvs h.2)]
theorem normList_idem : ∀ xs : List Val, JsonShapedList xs = true →
    Val.normList (Val.normList xs) = Val.normList xs
  | [], _ => rfl
  | x :: xs, h => by
      simp only [JsonShapedList, Bool.and_eq_true] at h
      simp only [Val.normList]
      rw [norm_idem x h.1, normList_idem xs h.2]
theorem normEntries_idem : ∀ kvs : Entries, JsonShapedEntries kvs = true →
    Val.normEntries (Val.normEntries kvs) = Val.normEntries kvs
  | [], _ => rfl
  | (k, v) :: rest, h => by
      simp only [JsonShapedEntries, Bool.and_eq_true] at h
      simp only [Val.normEntries]
      rw [norm_idem v h.1, normEntries_idem rest h.2]
end

/-! ### `Map.Json` then `NewMapJson` -/

/-- a whole string literal (opening quote … closing quote, nothing after it) -/
def unquote (t : Str) : Option Str :=
  match t with
  | '"' :: r => match strBody (r.length + 1) r [] with
    | some (s, []) => some s
    | _ => none
  | _ => none

theorem unquote_quote (html : Bool) (s : Str) : unquote (quote html s) = some s := by
  have h := quote_append html s []
  rw [List.append_nil] at h
  rw [h, unquote]
  rw [strBody_flatMap html s _ [] [] (by
    have := length_le_flatMap_quoteChar html s
    simp only [List.length_append, List.length_cons]; omega)]
  simp

/-- the text the PINNED `NewMapJson` decoded when the input starts with '[' (repaired defect
    F-JSON-ARRAYTAIL; kept as documentation, see `wrapObj_shape` and the examples in C06) -/
def wrapObj (s : Str) : Str := "{\"object\":".toList ++ s ++ ['}']

/-- the array branch of `NewMapJson`: the first value under the key "object" -/
def wrapVal (v : Val) : Val := .map [(objKey, v)]

theorem newMapJson_eq (s : Str) (hs : s ≠ []) :
    newMapJson s =
      if (skipWs s).head? = some '[' then (firstValue s).map wrapVal
      else (match firstValue s with
        | some (.map m) => some (.map m)
        | some .null => some .null
        | _ => none) := by
  cases s with
  | nil => exact absurd rfl hs
  | cons c tl => rfl

theorem newMapJson_mapJson (safe : Bool) (m : Entries) (hm : JsonShaped (.map m) = true) :
    newMapJson (mapJson safe (.map m)) = some (Val.norm (.map m)) := by
  have hn := jsonShaped_norm _ hm
  have hf := firstValue_encN safe _ hn [] (fun _ _ => rfl)
  rw [List.append_nil] at hf
  unfold mapJson
  simp only [Val.norm] at hf ⊢
  have he : encN safe (Val.map (sortByKey (Val.normEntries m)))
      = '{' :: (encEntries safe (sortByKey (Val.normEntries m)) ++ ['}']) := by simp [encN]
  rw [he] at hf ⊢
  rw [newMapJson_eq _ (by simp), skipWs_cons_of _ _ (by decide)]
  simp only [List.head?_cons, Option.some.injEq]
  rw [if_neg (by decide), hf]

/-- … and whatever follows the encoded Map is not looked at -/
theorem newMapJson_mapJson_tail (safe : Bool) (m : Entries) (hm : JsonShaped (.map m) = true)
    (rest : Str) :
    newMapJson (mapJson safe (.map m) ++ rest) = some (Val.norm (.map m)) := by
  have hn := jsonShaped_norm _ hm
  have hf := firstValue_encN safe _ hn rest (fun t h => by simp [Val.norm] at h)
  unfold mapJson
  simp only [Val.norm] at hf ⊢
  have he : encN safe (Val.map (sortByKey (Val.normEntries m)))
      = '{' :: (encEntries safe (sortByKey (Val.normEntries m)) ++ ['}']) := by simp [encN]
  rw [he] at hf ⊢
  rw [newMapJson_eq _ (by simp), List.cons_append, skipWs_cons_of _ _ (by decide)]
  simp only [List.head?_cons, Option.some.injEq]
  rw [if_neg (by decide), ← List.cons_append, hf]

theorem encN_single (html : Bool) (k : Str) (v : Val) :
    encN html (.map [(k, v)]) = '{' :: (quote html k ++ ':' :: (encN html v ++ ['}'])) := by
  simp [encN, encEntries]

theorem objKey_eq : "object".toList = objKey := by decide
theorem quote_objKey (html : Bool) : quote html objKey = '"' :: (objKey ++ ['"']) := by
  cases html <;> decide

theorem wrapObj_eq (html : Bool) (s : Str) :
    wrapObj s = '{' :: (quote html objKey ++ ':' :: (s ++ ['}'])) := by
  rw [quote_objKey]
  rfl

/-- an encoded array followed by ANY bytes is accepted and comes back, alone, under "object" -/
theorem newMapJson_array_tail (html : Bool) (xs : List Val) (hx : JsonShaped (.list xs) = true)
    (rest : Str) :
    newMapJson (encN html (.list xs) ++ rest) = some (.map [(objKey, .list xs)]) := by
  have hf := firstValue_encN html _ hx rest (fun _ h => by cases h)
  have h1 : encN html (.list xs) = '[' :: (encList html xs ++ [']']) := by simp [encN]
  rw [h1] at hf ⊢
  rw [newMapJson_eq _ (by simp), List.cons_append, skipWs_cons_of _ _ (by decide)]
  simp only [List.head?_cons, if_true]
  rw [← List.cons_append, hf]
  rfl

theorem newMapJson_array (html : Bool) (xs : List Val) (hx : JsonShaped (.list xs) = true) :
    newMapJson (encN html (.list xs)) = some (.map [(objKey, .list xs)]) := by
  have := newMapJson_array_tail html xs hx []
  rwa [List.append_nil] at this

theorem keys_insert_prefix (k : Str) (v : Val) : ∀ acc : Entries, keys acc <+: keys (insert k v acc)
  | [] => List.nil_prefix
  | (k', v') :: rest => by
      simp only [insert]
      split
      · next h => subst h; simp [keys]
      · simp only [keys, List.map_cons]
        exact (List.prefix_cons_inj _).2 (keys_insert_prefix k v rest)

/-- `members` returns a map, and the entries already collected keep their positions -/
theorem members_isMap : ∀ (f : Nat) (s : Str) (acc : Entries) (v : Val) (r : Str),
    members f s acc = some (v, r) → ∃ m, v = .map m ∧ keys acc <+: keys m := by
  intro f
  induction f with
  | zero => intro s acc v r h; simp [members] at h
  | succ f ih =>
    intro s acc v r h
    rw [members] at h
    split at h
    · split at h
      · cases h
      · split at h
        · split at h
          · cases h
          · split at h
            · obtain ⟨m, hm, hp⟩ := ih _ _ _ _ h
              exact ⟨m, hm, (keys_insert_prefix _ _ acc).trans hp⟩
            · simp only [Option.some.injEq, Prod.mk.injEq] at h
              exact ⟨_, h.1.symm, keys_insert_prefix _ _ acc⟩
            · cases h
        · cases h
    · cases h

theorem value_brace_isMap (f : Nat) (r : Str) (v : Val) (r' : Str)
    (h : value f ('{' :: r) = some (v, r')) : ∃ m, v = .map m := by
  cases f with
  | zero => simp [value] at h
  | succ f =>
    rw [value_brace] at h
    split at h
    · simp only [Option.some.injEq, Prod.mk.injEq] at h; exact ⟨[], h.1.symm⟩
    · obtain ⟨m, hm, _⟩ := members_isMap _ _ _ _ _ h
      exact ⟨m, hm⟩

theorem value_brace_quoted (f : Nat) (html : Bool) (k rest : Str) :
    value (f + 1) ('{' :: (quote html k ++ rest)) = members f (quote html k ++ rest) [] := by
  rw [quote_append]; exact value_brace_quote f _

theorem firstValue_eq_some (s : Str) (v : Val) (h : firstValue s = some v) :
    ∃ r, value (s.length + 1) s = some (v, r) := by
  unfold firstValue at h
  cases hv : value (s.length + 1) s with
  | none => simp [hv] at h
  | some p =>
    obtain ⟨v', r⟩ := p
    simp only [hv, Option.map_some, Option.some.injEq] at h
    exact ⟨r, by rw [← h]⟩

/-- `elements` returns a list -/
theorem elements_isList : ∀ (f : Nat) (s : Str) (acc : List Val) (v : Val) (r : Str),
    elements f s acc = some (v, r) → ∃ xs, v = .list xs := by
  intro f
  induction f with
  | zero => intro s acc v r h; simp [elements] at h
  | succ f ih =>
    intro s acc v r h
    rw [elements] at h
    split at h
    · cases h
    · split at h
      · exact ih _ _ _ _ h
      · simp only [Option.some.injEq, Prod.mk.injEq] at h
        exact ⟨_, h.1.symm⟩
      · cases h

/-- `value` on a text whose first non-white-space character is '[' -/
theorem value_bracket_ws (f : Nat) (s r : Str) (h : skipWs s = '[' :: r) :
    value (f + 1) s = (match skipWs r with
        | ']' :: r' => some (.list [], r')
        | r' => elements f r' []) := by
  rw [value, h]; rfl

theorem value_bracket_isList (f : Nat) (s r : Str) (hs : skipWs s = '[' :: r) (v : Val) (r' : Str)
    (h : value f s = some (v, r')) : ∃ xs, v = .list xs := by
  cases f with
  | zero => simp [value] at h
  | succ f =>
    rw [value_bracket_ws f s r hs] at h
    split at h
    · simp only [Option.some.injEq, Prod.mk.injEq] at h; exact ⟨[], h.1.symm⟩
    · exact elements_isList _ _ _ _ _ h

theorem head_skipWs_bracket (s : Str) (hb : (skipWs s).head? = some '[') :
    ∃ r, skipWs s = '[' :: r := by
  cases h : skipWs s with
  | nil => simp [h] at hb
  | cons c r => simp only [h, List.head?_cons, Option.some.injEq] at hb; exact ⟨r, by rw [hb]⟩

/-- behind a leading '[' the first value, if there is one, is a list -/
theorem firstValue_bracket_isList (s : Str) (hb : (skipWs s).head? = some '[') (v : Val)
    (h : firstValue s = some v) : ∃ xs, v = .list xs := by
  obtain ⟨r, hr⟩ := head_skipWs_bracket s hb
  obtain ⟨r', hv⟩ := firstValue_eq_some s v h
  exact value_bracket_isList _ s r hr v r' hv

/-- … and a list is the first value only behind a leading '[' -/
theorem value_list_head (f : Nat) (s : Str) (xs : List Val) (r : Str)
    (h : value f s = some (.list xs, r)) : (skipWs s).head? = some '[' := by
  cases f with
  | zero => simp [value] at h
  | succ f =>
    rw [value] at h
    split at h
    · next heq =>
      exfalso
      split at h
      · cases h
      · obtain ⟨m, hm, _⟩ := members_isMap _ _ _ _ _ h
        cases hm
    · next heq => rw [heq]; rfl
    · next heq =>
      exfalso
      simp only [Option.map_eq_some_iff, Prod.mk.injEq] at h
      obtain ⟨p, _, hp, _⟩ := h
      cases hp
    · cases h
    · cases h
    · cases h
    · exfalso
      simp only [Option.map_eq_some_iff, Prod.mk.injEq] at h
      obtain ⟨p, _, hp, _⟩ := h
      cases hp

theorem firstValue_list_head (s : Str) (xs : List Val) (h : firstValue s = some (.list xs)) :
    (skipWs s).head? = some '[' := by
  obtain ⟨r, hv⟩ := firstValue_eq_some s _ h
  exact value_list_head _ s xs r hv

/-- `NewMapJson` as a function of the FIRST VALUE alone (non-empty input): an object or `null` is
    returned as it is, an array under "object", anything else - and no value - is an error -/
theorem newMapJson_spec (s : Str) (hs : s ≠ []) :
    newMapJson s =
      (match firstValue s with
        | some (.map m) => some (.map m)
        | some .null => some .null
        | some (.list xs) => some (.map [(objKey, .list xs)])
        | _ => none) := by
  rw [newMapJson_eq s hs]
  by_cases hb : (skipWs s).head? = some '['
  · rw [if_pos hb]
    cases hfv : firstValue s with
    | none => rfl
    | some v =>
      obtain ⟨xs, rfl⟩ := firstValue_bracket_isList s hb v hfv
      rfl
  · rw [if_neg hb]
    cases hfv : firstValue s with
    | none => rfl
    | some v =>
      cases v with
      | list xs => exact absurd (firstValue_list_head s xs hfv) hb
      | _ => rfl

/-- what the array wrapper can produce: a map whose first key is "object" -/
theorem wrapObj_shape (s : Str) (m : Entries) (h : firstValue (wrapObj s) = some (.map m)) :
    ∃ v m', m = (objKey, v) :: m' := by
  obtain ⟨r, hv⟩ := firstValue_eq_some _ _ h
  rw [wrapObj_eq false s, value_brace_quoted] at hv
  generalize (('{' :: (quote false objKey ++ ':' :: (s ++ ['}']))).length) = n at hv
  cases n with
  | zero => simp [members] at hv
  | succ n =>
    rw [members_step] at hv
    split at hv
    · cases hv
    · split at hv
      · obtain ⟨m2, hm, hp⟩ := members_isMap _ _ _ _ _ hv
        simp only [Val.map.injEq] at hm
        subst hm
        cases m with
        | nil => simp [insert, keys] at hp
        | cons e m' =>
          obtain ⟨k, v⟩ := e
          simp only [insert, keys, List.map_cons, List.map_nil] at hp
          have := (List.cons_prefix_cons.1 hp).1
          exact ⟨v, m', by rw [this]⟩
      · simp only [Option.some.injEq, Prod.mk.injEq, Val.map.injEq] at hv
        exact ⟨_, [], hv.1.symm⟩
      · cases hv

/-! ### the pinned byte rewrite (a repaired defect, kept as documentation) -/

/-- `bytes.Replace(s, pat, rep, -1)` for non-empty `pat` (`skip` counts the characters of a
    matched occurrence still to be dropped) -/
def replaceGo (pat rep : Str) : Str → Nat → Str
  | [], _ => []
  | _ :: cs, skip + 1 => replaceGo pat rep cs skip
  | c :: cs, 0 =>
      if pat.isPrefixOf (c :: cs) then rep ++ replaceGo pat rep cs (pat.length - 1)
      else c :: replaceGo pat rep cs 0

def replaceAll (pat rep s : Str) : Str := replaceGo pat rep s 0

/-- the six-character escape sequence backslash, 'u', '0', '0', x, y -/
def esc00 (x y : Char) : Str := ['\\', 'u', '0', '0', x, y]

/-- the pinned `Map.Json()` without `safeEncoding`: marshal with HTML escaping, then replace the
    escape sequences of '<', '>', '&' in the encoded BYTES by the literal characters -/
def rewriteUnsafe (s : Str) : Str :=
  replaceAll (esc00 '2' '6') ['&'] (replaceAll (esc00 '3' 'e') ['>'] (replaceAll (esc00 '3' 'c') ['<'] s))

end Mxj.Json
