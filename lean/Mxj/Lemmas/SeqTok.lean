/-
  Mxj.Lemmas.SeqTok — the tokenizer model (`Model/Tokenizer.lean`) inverts the canonical rendering
  of SEQUENCE trees (`renderSeq`, Model/SeqTree.lean: elements, text, comments, processing
  instructions) with escaping on: one `step` per piece of markup (`step_start_seq`,
  `step_comment`, `step_pi`, the text step), lifted to `Cat` (TokenizerCat) and composed along
  the tree (`tok_seq_node` / `tok_seq_kids`).  Directives (`<!…>`) are outside the tokenizer
  model and excluded by `seqTokNode`.  Used by `Props/C04ExtTok.lean`.
-/
import Mxj.Lemmas.TokenizerCatGen
import Mxj.Lemmas.SeqIndent
namespace Mxj.Tokz
open Mxj Mxj.Enc Mxj.EscDec

/-! ### the executable side conditions -/

/-- a comment text the tokenizer reads back: no `--` inside and no `-` at the end (the closing
    `-->` would then begin one character early: `--->` is a syntax error) -/
def commentOk : Str → Bool
  | [] => true
  | c :: r =>
    (if c = '-' then (match r with | [] => false | d :: _ => d != '-') else true) && commentOk r

/-- a processing-instruction text without `?>` -/
def piTextOk : Str → Bool
  | [] => true
  | c :: r => !(['?', '>'].isPrefixOf (c :: r)) && piTextOk r

/-- … and not beginning with white space (the tokenizer skips the white space after the target) -/
def noLeadSp : Str → Bool
  | [] => true
  | c :: _ => !isSp c

mutual
/-- sequence trees the tokenizer law speaks about: empty name spaces and (ASCII, colon-free) XML
    names, round-trippable characters in attribute values and text, no empty text node, comments
    per `commentOk`, processing instructions with a name as target and a text per `noLeadSp` /
    `piTextOk`, NO directive -/
def seqTokNode : Node → Bool
  | .elem sp name attrs kids =>
      sp.isEmpty && xmlNameOk name
      && attrs.all (fun a => a.space.isEmpty && xmlNameOk a.name && xmlCharsOk a.value)
      && seqTokKids kids
  | .text s => !s.isEmpty && xmlCharsOk s
  | .comment s => commentOk s
  | .procinst t i => xmlNameOk t && noLeadSp i && piTextOk i
  | .directive _ => false
def seqTokKids : List Node → Bool
  | [] => true
  | k :: ks => seqTokNode k && seqTokKids ks
end

/-- … and no two adjacent text nodes (they would come back as one token) -/
def SeqTokOk (n : Node) : Bool := seqTokNode n && noAdjText n

/-! ### attributes and tags: reduction to the Map encoder's lemmas -/

def E0 : EncCfg := {}

theorem renderSeqAttrs_eq : ∀ (as : List Attr),
    renderSeqAttrs true as = renderAttrs E0 (as.map (mapAttr escapeChars))
  | [] => rfl
  | a :: as => by
      simp only [renderSeqAttrs, List.map_cons, renderAttrs, renderSeqAttrs_eq as]
      simp [escIf, E0, mapAttr]

theorem valOk_escape (s : Str) (h : xmlCharsOk s = true) : valOk (escapeChars s) = true :=
  valOk_of_raw _ s (rawSafeStr_escape s) (unesc_escapeChars s) h

theorem step_start_seq (name : Str) (attrs : List Attr) (e : Bool) (rest : Str)
    (hn : xmlNameOk name = true)
    (hw : attrs.all (fun a => a.space.isEmpty && xmlNameOk a.name && xmlCharsOk a.value) = true) :
    step ('<' :: (name ++ (renderSeqAttrs true attrs ++ (tagEnd e ++ rest))))
      = some (if e then [Tok.start [] name attrs, Tok.stop [] name]
              else [Tok.start [] name attrs], rest) := by
  rw [renderSeqAttrs_eq]
  refine step_start E0 rfl name _ attrs e rest hn (rawAttrs_escape attrs) ?_ hw
  intro a ha
  obtain ⟨b, hb, rfl⟩ := List.mem_map.1 ha
  have := List.all_eq_true.1 hw b hb
  simp only [Bool.and_eq_true] at this
  exact valOk_escape _ this.2

/-! ### comments -/

theorem breakOn_comment : ∀ (s rest : Str), commentOk s = true →
    breakOn ['-', '-'] (s ++ '-' :: '-' :: rest) = some (s, rest)
  | [], rest, _ => by simp [breakOn]
  | c :: r, rest, h => by
      simp only [commentOk, Bool.and_eq_true] at h
      have ih := breakOn_comment r rest h.2
      have hp : ['-', '-'].isPrefixOf (c :: (r ++ '-' :: '-' :: rest)) = false := by
        by_cases hc : c = '-'
        · subst hc
          cases r with
          | nil => simp at h
          | cons d r' =>
            have hd : d ≠ '-' := by simpa using h.1
            have hd' : ¬ '-' = d := fun e => hd e.symm
            simp [List.isPrefixOf, hd']
        · have hc' : ¬ '-' = c := fun e => hc e.symm
          simp [List.isPrefixOf, hc']
      simp only [List.cons_append, breakOn, hp, ih]
      simp

theorem step_comment (s rest : Str) (h : commentOk s = true) :
    step ('<' :: '!' :: '-' :: '-' :: (s ++ '-' :: '-' :: '>' :: rest))
      = some ([Tok.comment s], rest) := by
  simp [step, bang, breakOn_comment s ('>' :: rest) h]

/-! ### processing instructions -/

theorem breakOn_pi : ∀ (s rest : Str), piTextOk s = true →
    breakOn ['?', '>'] (s ++ '?' :: '>' :: rest) = some (s, rest)
  | [], rest, _ => by simp [breakOn]
  | c :: r, rest, h => by
      simp only [piTextOk, Bool.and_eq_true, Bool.not_eq_true'] at h
      have ih := breakOn_pi r rest h.2
      have hp : ['?', '>'].isPrefixOf (c :: (r ++ '?' :: '>' :: rest)) = false := by
        by_cases hc : c = '?'
        · subst hc
          cases r with
          | nil => simp [List.isPrefixOf]
          | cons d r' =>
            have hd : d ≠ '>' := by
              intro e; subst e; simp [List.isPrefixOf] at h
            have hd' : ¬ '>' = d := fun e => hd e.symm
            simp [List.isPrefixOf, hd']
        · have hc' : ¬ '?' = c := fun e => hc e.symm
          simp [List.isPrefixOf, hc']
      simp only [List.cons_append, breakOn, hp, ih]
      simp

theorem lexRawName_ok (name tl : Str) (hn : xmlNameOk name = true) (ht : nameStop tl = true) :
    lexRawName (name ++ tl) = some (name, tl) := by
  cases name with
  | nil => simp [xmlNameOk] at hn
  | cons c nm =>
    simp only [xmlNameOk, Bool.and_eq_true, List.all_eq_true] at hn
    have hall' : ∀ x ∈ c :: nm, isNmCh x = true := by
      intro x hx
      rcases List.mem_cons.1 hx with rfl | hx
      · exact isNmCh_of_xml (xmlNameChar_of_start hn.1)
      · exact isNmCh_of_xml (hn.2 x hx)
    have htk := takeWhile_stop isNmCh (c :: nm) tl hall' (nameStop_stops ht)
    have hdr := dropWhile_stop isNmCh (c :: nm) tl hall' (nameStop_stops ht)
    simp only [lexRawName, htk, hdr, isNmStart_of_xml hn.1, nameStop_ascii ht, Bool.and_self,
      if_true]

theorem dropSp_pi (i rest : Str) (h : noLeadSp i = true) :
    dropSp (' ' :: (i ++ '?' :: '>' :: rest)) = i ++ '?' :: '>' :: rest := by
  unfold dropSp
  rw [List.dropWhile_cons_of_pos (by decide)]
  cases i with
  | nil => exact List.dropWhile_cons_of_neg (by decide)
  | cons c r =>
    simp only [noLeadSp, Bool.not_eq_true'] at h
    exact List.dropWhile_cons_of_neg (by simp [h])

theorem step_pi (t i rest : Str) (ht : xmlNameOk t = true) (hl : noLeadSp i = true)
    (hi : piTextOk i = true) :
    step ('<' :: '?' :: (t ++ ' ' :: (i ++ '?' :: '>' :: rest)))
      = some ([Tok.procinst t i], rest) := by
  have h1 := lexRawName_ok t (' ' :: (i ++ '?' :: '>' :: rest)) ht (by simp [nameStop]; decide)
  simp [step, procInst, h1, dropSp_pi i rest hl, breakOn_pi i rest hi]

/-! ### text -/

theorem escapeChars_ne (s : Str) (h : s ≠ []) : escapeChars s ≠ [] := by
  intro e
  have := unesc_escapeChars s
  rw [e] at this
  simp [unesc, unescF] at this
  exact h this

theorem step_text_esc (s rest : Str) (hne : s ≠ []) (hx : xmlCharsOk s = true)
    (hrest : startsLt rest = true) :
    step (escapeChars s ++ rest) = some ([Tok.text s], rest) :=
  step_text (escapeChars s) s rest (escapeChars_ne s hne) (valOk_escape s hx)
    (lexChars_ok _ s (valOk_escape s hx) (unesc_escapeChars s) hx) hrest

/-! ### from one step to `Cat` -/

theorem cat_of_step {b : Str} {tk : List Tok} (hb : b ≠ [])
    (h : ∀ rest, step (b ++ rest) = some (tk, rest)) : Cat b tk := by
  intro rest ts ht
  exact tokenize_of_tokF _ _ _ (tokF_step _ b rest tk ts hb (h rest) ht)

theorem cat_open (name : Str) (attrs : List Attr) (e : Bool) (hn : xmlNameOk name = true)
    (hw : attrs.all (fun a => a.space.isEmpty && xmlNameOk a.name && xmlCharsOk a.value) = true) :
    Cat ('<' :: (name ++ (renderSeqAttrs true attrs ++ tagEnd e)))
      (if e then [Tok.start [] name attrs, Tok.stop [] name] else [Tok.start [] name attrs]) :=
  cat_of_step (by simp) (fun r => by
    have := step_start_seq name attrs e r hn hw
    simpa [List.append_assoc] using this)

theorem cat_close (name : Str) (hn : xmlNameOk name = true) :
    Cat ('<' :: '/' :: (name ++ ['>'])) [Tok.stop [] name] :=
  cat_of_step (by simp) (fun r => by
    have := step_stop name r hn
    simpa [List.append_assoc] using this)

theorem cat_comment (s : Str) (h : commentOk s = true) :
    Cat ('<' :: '!' :: '-' :: '-' :: (s ++ ['-', '-', '>'])) [Tok.comment s] :=
  cat_of_step (by simp) (fun r => by
    have := step_comment s r h
    simpa [List.append_assoc] using this)

theorem cat_pi (t i : Str) (ht : xmlNameOk t = true) (hl : noLeadSp i = true)
    (hi : piTextOk i = true) :
    Cat ('<' :: '?' :: (t ++ ' ' :: (i ++ ['?', '>']))) [Tok.procinst t i] :=
  cat_of_step (by simp) (fun r => by
    have := step_pi t i r ht hl hi
    simpa [List.append_assoc] using this)

/-! ### the rendering of an element -/

theorem renderSeq_selfclose (sp name : Str) (attrs : List Attr) :
    renderSeq true false (.elem sp name attrs [])
      = '<' :: (name ++ (renderSeqAttrs true attrs ++ tagEnd true)) := by
  simp [renderSeq, tagEnd]

theorem renderSeq_open (ge : Bool) (sp name : Str) (attrs : List Attr) (kids : List Node)
    (h : kids ≠ [] ∨ ge = true) :
    renderSeq true ge (.elem sp name attrs kids)
      = '<' :: (name ++ (renderSeqAttrs true attrs ++ tagEnd false)) ++
          (renderSeqKids true ge kids ++ ('<' :: '/' :: (name ++ ['>']))) := by
  cases kids with
  | nil =>
    have hg : ge = true := by simpa using h
    simp [renderSeq, hg, tagEnd, renderSeqKids, closeTag]
  | cons k ks => simp [renderSeq, tagEnd, closeTag]

theorem startsLt_seq (ge : Bool) (k : Node) (tl : Str) (h : isTextNode k = false) :
    startsLt (renderSeq true ge k ++ tl) = true := by
  cases k <;> simp [isTextNode] at h <;> simp [renderSeq, startsLt, stops]

/-! ### the tree induction -/

mutual
theorem tok_seq_node (ge : Bool) : ∀ (n : Node) (rest : Str) (ts : List Tok),
    seqTokNode n = true → noAdjText n = true → (isTextNode n = true → startsLt rest = true) →
    tokenize rest = some ts →
    tokenize (renderSeq true ge n ++ rest) = some (flatten n ++ ts)
  | .elem sp name attrs kids, rest, ts, hw, hadj, _, ht => by
      simp only [seqTokNode, Bool.and_eq_true, List.isEmpty_iff] at hw
      obtain ⟨⟨⟨hsp, hname⟩, hattrs⟩, hkids⟩ := hw
      subst hsp
      simp only [noAdjText] at hadj
      by_cases hsc : kids = [] ∧ ge = false
      · obtain ⟨hk, hg⟩ := hsc
        subst hk hg
        have := cat_open name attrs true hname hattrs rest ts ht
        rw [renderSeq_selfclose]
        simpa [flatten, flattenKids] using this
      · have hopen : kids ≠ [] ∨ ge = true := by
          by_cases hk : kids = []
          · right
            cases hg : ge with
            | true => rfl
            | false => exact absurd ⟨hk, hg⟩ hsc
          · left; exact hk
        have h1 := cat_close name hname rest ts ht
        have h2 := tok_seq_kids ge kids _ _ hkids hadj (by simp [startsLt, stops]) h1
        have h3 := cat_open name attrs false hname hattrs _ _ h2
        rw [renderSeq_open ge [] name attrs kids hopen]
        simpa [flatten, List.append_assoc] using h3
  | .text s, rest, ts, hw, _, hafter, ht => by
      simp only [seqTokNode, Bool.and_eq_true, Bool.not_eq_true', List.isEmpty_eq_false_iff] at hw
      have hstep := step_text_esc s rest hw.1 hw.2 (hafter rfl)
      have := tokenize_of_tokF _ _ _
        (tokF_step _ (escapeChars s) rest _ ts (escapeChars_ne s hw.1) hstep ht)
      simpa [renderSeq, flatten] using this
  | .comment s, rest, ts, hw, _, _, ht => by
      simp only [seqTokNode] at hw
      have := cat_comment s hw rest ts ht
      simpa [renderSeq, flatten, List.append_assoc] using this
  | .procinst t i, rest, ts, hw, _, _, ht => by
      simp only [seqTokNode, Bool.and_eq_true] at hw
      have := cat_pi t i hw.1.1 hw.1.2 hw.2 rest ts ht
      simpa [renderSeq, flatten, List.append_assoc] using this
  | .directive s, _, _, hw, _, _, _ => by simp [seqTokNode] at hw
theorem tok_seq_kids (ge : Bool) : ∀ (ks : List Node) (rest : Str) (ts : List Tok),
    seqTokKids ks = true → noAdjTextKids ks = true → startsLt rest = true →
    tokenize rest = some ts →
    tokenize (renderSeqKids true ge ks ++ rest) = some (flattenKids ks ++ ts)
  | [], rest, ts, _, _, _, ht => by simpa [renderSeqKids, flattenKids] using ht
  | k :: ks, rest, ts, hw, hadj, hrest, ht => by
      simp only [seqTokKids, Bool.and_eq_true] at hw
      have ih := tok_seq_kids ge ks rest ts hw.2 (noAdjKids_tail hadj) hrest ht
      have hafter : isTextNode k = true → startsLt (renderSeqKids true ge ks ++ rest) = true := by
        intro hkt
        cases k with
        | text r =>
          cases ks with
          | nil => simpa [renderSeqKids] using hrest
          | cons k2 ks3 =>
            have hnt : isTextNode k2 = false := by
              cases k2 with
              | text s' => exact absurd rfl (noAdjKids_text hadj s' ks3)
              | _ => rfl
            simp only [renderSeqKids, List.append_assoc]
            exact startsLt_seq ge k2 _ hnt
        | elem _ _ _ _ => simp [isTextNode] at hkt
        | comment _ => simp [isTextNode] at hkt
        | procinst _ _ => simp [isTextNode] at hkt
        | directive _ => simp [isTextNode] at hkt
      have h := tok_seq_node ge k (renderSeqKids true ge ks ++ rest) (flattenKids ks ++ ts)
        hw.1 (noAdjKids_head hadj) hafter ih
      simpa [renderSeqKids, flattenKids, List.append_assoc] using h
end

/-- the tokenizer inverts `renderSeq` (escaping on, either empty-element syntax) -/
theorem tokenize_renderSeq (ge : Bool) (n : Node) (h : SeqTokOk n = true) :
    tokenize (renderSeq true ge n) = some (flatten n) := by
  simp only [SeqTokOk, Bool.and_eq_true] at h
  have := tok_seq_node ge n [] [] h.1 h.2 (fun _ => rfl) rfl
  simpa using this

/-! ### trees with empty name spaces are their own qualified form -/

theorem qualAttrs_id : ∀ (attrs : List Attr),
    attrs.all (fun a => a.space.isEmpty && xmlNameOk a.name && xmlCharsOk a.value) = true →
    attrs.map (qualAttr seqDflt) = attrs
  | [], _ => rfl
  | a :: as, h => by
      simp only [List.all_cons, Bool.and_eq_true, List.isEmpty_iff] at h
      obtain ⟨⟨⟨hsp, _⟩, _⟩, hr⟩ := h
      cases a with
      | mk s n v =>
        simp only at hsp
        subst hsp
        simp only [List.map_cons, qualAttrs_id as hr]
        simp [qualAttr, qualName, seqDflt]

mutual
theorem qualify_id : ∀ (n : Node), seqTokNode n = true → qualify seqDflt n = n
  | .elem sp name attrs kids, h => by
      simp only [seqTokNode, Bool.and_eq_true, List.isEmpty_iff] at h
      obtain ⟨⟨⟨hsp, _⟩, hattrs⟩, hkids⟩ := h
      subst hsp
      simp only [qualify, qualAttrs_id attrs hattrs, qualifyKids_id kids hkids]
      simp [qualName, seqDflt]
  | .text _, _ => rfl
  | .comment _, _ => rfl
  | .procinst _ _, _ => rfl
  | .directive _, _ => rfl
theorem qualifyKids_id : ∀ (ks : List Node), seqTokKids ks = true → qualifyKids seqDflt ks = ks
  | [], _ => rfl
  | k :: ks, h => by
      simp only [seqTokKids, Bool.and_eq_true] at h
      simp only [qualifyKids, qualify_id k h.1, qualifyKids_id ks h.2]
end

end Mxj.Tokz
