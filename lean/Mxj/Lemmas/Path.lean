/- Mxj.Lemmas.Path — helper lemmas relating the walker to the frontier semantics. -/
import Mxj.Model.Denote
namespace Mxj
open Denote

theorem walk_nil (subs : Option SubKeys) (m : Val) : walk subs m [] = loadLeaf subs m := by
  cases m <;> simp [walk]

/-- one walker step = one frontier step, then continue from every selected value -/
theorem walk_step (subs : Option SubKeys) (k : Str) (ks : List Str) (m : Val) :
    walk subs m (k :: ks) = (match plainStep k with
      | .wild => stepWild m
      | .key k' => stepKey k' m
      | .idx _ _ => []).flatMap (fun v => walk subs v ks) := by
  unfold plainStep
  by_cases hk : k = ['*']
  · subst hk
    cases m with
    | map kvs =>
      simp only [walk, if_true, stepWild, selAll, List.flatMap_map]
    | list xs =>
      simp only [walk, if_true, stepWild, List.flatMap_assoc]
      congr 1; funext x
      cases x <;> simp [List.flatMap_map]
    | _ => simp [walk, stepWild, selAll]
  · simp only [hk, if_false]
    cases m with
    | map kvs =>
      simp only [walk, hk, if_false, stepKey, selKey]
      cases lookup k kvs <;> simp
    | list xs =>
      simp only [walk, hk, if_false, stepKey, List.flatMap_assoc]
      congr 1; funext x
      cases x with
      | map kvs => simp only [selKey]; cases lookup k kvs <;> simp
      | _ => simp [selKey]
    | _ => simp [walk, stepKey, selKey]

theorem run_plain_cons (k : Str) (ks : List Str) (fr : List Val) :
    run ((k :: ks).map plainStep) fr = run (ks.map plainStep) (fr.flatMap fun m =>
      match plainStep k with
      | .wild => stepWild m
      | .key k' => stepKey k' m
      | .idx _ _ => []) := by
  simp only [List.map_cons]
  unfold plainStep
  by_cases hk : k = ['*'] <;> simp [hk, run]

/-- DFS over the path = iterated frontier steps, for every frontier -/
theorem walk_front (subs : Option SubKeys) (ks : List Str) : ∀ fr : List Val,
    fr.flatMap (fun m => walk subs m ks)
      = (run (ks.map plainStep) fr).flatMap (loadLeaf subs) := by
  induction ks with
  | nil => intro fr; simp [walk_nil, run]
  | cons k ks ih =>
    intro fr
    rw [run_plain_cons, ← ih]
    simp only [walk_step, List.flatMap_assoc]

theorem lastIsIdx_cons2 (a b : Step) (rest : List Step) :
    lastIsIdx (a :: b :: rest) = lastIsIdx (b :: rest) := by
  cases a <;> simp [lastIsIdx]

theorem lastIsIdx_plain (ks : List Str) : lastIsIdx (ks.map plainStep) = false := by
  induction ks with
  | nil => rfl
  | cons k ks ih =>
    cases ks with
    | nil =>
      show lastIsIdx [plainStep k] = false
      unfold plainStep; split <;> rfl
    | cons k' ks' =>
      simp only [List.map_cons] at ih ⊢
      rw [lastIsIdx_cons2]; exact ih

theorem loadLeaf_none (v : Val) : loadLeaf none v = expand v := by
  cases v <;> simp [loadLeaf, expand, passSubs]

/-- with a non-empty condition set, the leaf filter is "expand, then keep what satisfies" -/
theorem loadLeaf_some (s : SubKeys) (hs : s ≠ []) (v : Val) :
    loadLeaf (some s) v = (expand v).filter (fun x => hasSubKeys x s) := by
  cases v with
  | map kvs =>
    simp only [loadLeaf, expand, passSubs]
    by_cases h : hasSubKeys (Val.map kvs) s = true <;> simp [h]
  | list xs =>
    simp only [loadLeaf, expand]
    congr 1
  | null => simp [loadLeaf, expand, hasSubKeys, hs]
  | bool b => simp [loadLeaf, expand, hasSubKeys, hs]
  | num t => simp [loadLeaf, expand, hasSubKeys, hs]
  | str t => simp [loadLeaf, expand, hasSubKeys, hs]

theorem put_ne_nil (k : Str) (v : SubVal) (acc : SubKeys) : acc.put k v ≠ [] := by
  cases acc with
  | nil => simp [SubKeys.put]
  | cons e rest => obtain ⟨k', v'⟩ := e; simp only [SubKeys.put]; split <;> simp

theorem getSubKeyMap_ne_nil (sep : Str) (pf : Str → Option Str) :
    ∀ (kv : List Str) (acc s : SubKeys), (kv ≠ [] ∨ acc ≠ []) →
      getSubKeyMap sep pf kv acc = .ok s → s ≠ [] := by
  intro kv
  induction kv with
  | nil => intro acc s h; simp [getSubKeyMap] at *; intro e; subst e; exact h
  | cons v rest ih =>
    intro acc s _ h
    unfold getSubKeyMap at h
    split at h
    · exact ih _ _ (Or.inr (put_ne_nil _ _ _)) h
    · split at h
      · exact ih _ _ (Or.inr (put_ne_nil _ _ _)) h
      · split at h
        · split at h
          · exact ih _ _ (Or.inr (put_ne_nil _ _ _)) h
          · cases h
        · split at h
          · split at h
            · exact ih _ _ (Or.inr (put_ne_nil _ _ _)) h
            · cases h
          · cases h
    · cases h

theorem subKeyArg_some_ne_nil (sep : Str) (pf : Str → Option Str) (subkeys : List Str) (s : SubKeys)
    (h : subKeyArg sep pf subkeys = .ok (some s)) : s ≠ [] := by
  unfold subKeyArg at h
  split at h
  · cases h
  · rename_i hne
    split at h
    · rename_i s' hs
      cases h
      refine getSubKeyMap_ne_nil sep pf subkeys [] s (Or.inl ?_) hs
      intro e; simp [e] at hne
    · cases h

end Mxj
