/-
  Mxj.Lemmas.EncTok — well-formedness of token streams (`balanced`) and the bridge from the
  encoder's trees to it; used by Props/C03ExtTok.lean and Props/C05ExtTok.lean.
-/
import Mxj.Lemmas.Tokenizer
import Mxj.Lemmas.Encode
import Mxj.Lemmas.Decode
import Mxj.Lemmas.IndentCor
import Mxj.Model.Balanced
namespace Mxj.EncTok
open Mxj Mxj.Enc Mxj.Tokz

mutual
/-- inside an open element the tokens of a whole subtree are consumed without changing the
    state of the checker -/
theorem balGo_flatten : ∀ (n : Node) (o : Str × Str) (st : List (Str × Str)) (r : Nat)
    (rest : List Tok), balGo (o :: st) r (flatten n ++ rest) = balGo (o :: st) r rest
  | .elem sp nm as ks, o, st, r, rest => by
      simp only [flatten, List.cons_append, List.append_assoc, balGo, List.isEmpty_cons,
        Bool.not_false, Bool.true_or, Bool.true_and, Bool.false_eq_true, if_false]
      rw [balGo_flattenKids ks (sp, nm) (o :: st) r]
      simp [balGo]
  | .text s, o, st, r, rest => by simp [flatten, balGo]
  | .comment s, o, st, r, rest => by simp [flatten, balGo]
  | .procinst t i, o, st, r, rest => by simp [flatten, balGo]
  | .directive s, o, st, r, rest => by simp [flatten, balGo]
theorem balGo_flattenKids : ∀ (ks : List Node) (o : Str × Str) (st : List (Str × Str)) (r : Nat)
    (rest : List Tok), balGo (o :: st) r (flattenKids ks ++ rest) = balGo (o :: st) r rest
  | [], o, st, r, rest => by simp [flattenKids]
  | k :: ks, o, st, r, rest => by
      simp only [flattenKids, List.append_assoc]
      rw [balGo_flatten k o st r, balGo_flattenKids ks o st r]
end

/-- the token sequence of EVERY element tree (any names, attributes, kinds of children, any
    depth) is balanced -/
theorem balanced_flatten_elem (sp nm : Str) (as : List Attr) (ks : List Node) :
    balanced (flatten (.elem sp nm as ks)) = true := by
  unfold balanced
  simp only [flatten, balGo, List.isEmpty_nil, Bool.not_true, Bool.false_or, if_true]
  rw [balGo_flattenKids ks (sp, nm) [] 1]
  simp [balGo]

/-- a sequence of sibling element trees is balanced exactly when there is one of them -/
theorem balanced_two_roots (sp nm sp' nm' : Str) (as as' : List Attr) (ks ks' : List Node)
    (rest : List Tok) :
    balanced (flatten (.elem sp nm as ks) ++ flatten (.elem sp' nm' as' ks') ++ rest) = false := by
  unfold balanced
  simp only [flatten, balGo, List.isEmpty_nil, Bool.not_true, Bool.false_or, if_true,
    List.cons_append, List.append_assoc]
  rw [balGo_flattenKids ks (sp, nm) [] 1]
  simp [balGo]

/-- the conventions' value of a single tree, as sibling value and as document -/
theorem siblingsValue_doc (S : Strconv) (key : Str) (as : List Attr) (ks : List Node) :
    siblingsValue dc S [.elem [] key as ks] = Conv.doc dc S (.elem [] key as ks) := by
  unfold siblingsValue
  rw [childVals_single]
  have := groupOnto_block [] key [Conv.value dc S (.elem [] key as ks)] [] (by simp)
    (by simp [keys]) (by simp [keys])
  simp only [List.map_cons, List.map_nil, List.append_nil, List.nil_append, groupOnto_nil] at this
  rw [this]
  rfl

/-- every attribute value and every character-data run of a token stream, in order -/
def tokValues : List Tok → List Str
  | [] => []
  | .start _ _ as :: ts => attrValues as ++ tokValues ts
  | .text s :: ts => s :: tokValues ts
  | _ :: ts => tokValues ts

theorem tokValues_append : ∀ (a b : List Tok), tokValues (a ++ b) = tokValues a ++ tokValues b
  | [], b => rfl
  | .start _ _ as :: ts, b => by simp [tokValues, tokValues_append ts b]
  | .text s :: ts, b => by simp [tokValues, tokValues_append ts b]
  | .stop _ _ :: ts, b => by simp [tokValues, tokValues_append ts b]
  | .comment _ :: ts, b => by simp [tokValues, tokValues_append ts b]
  | .procinst _ _ :: ts, b => by simp [tokValues, tokValues_append ts b]
  | .directive _ :: ts, b => by simp [tokValues, tokValues_append ts b]

mutual
/-- the values of a tree's token sequence are the values of the tree -/
theorem tokValues_flatten : ∀ (n : Node), tokValues (flatten n) = nodeValues n
  | .elem sp nm as ks => by
      simp only [flatten, tokValues, tokValues_append, nodeValues, tokValues_flattenKids ks,
        List.append_nil]
  | .text s => rfl
  | .comment s => rfl
  | .procinst t i => rfl
  | .directive s => rfl
theorem tokValues_flattenKids : ∀ (ks : List Node), tokValues (flattenKids ks) = nodeValuesKids ks
  | [] => rfl
  | k :: ks => by
      simp only [flattenKids, tokValues_append, nodeValuesKids, tokValues_flatten k,
        tokValues_flattenKids ks]
end

/-- `xmlCharsOk` in the tokenizer's own terms: every character is one the tokenizer accepts
    (`Tokz.charsOk`, Go's `isInCharacterRange`) and none is '\r' (which it rewrites) -/
theorem xmlCharsOk_eq : ∀ (v : Str),
    xmlCharsOk v = (charsOk v && v.all (fun c => c != '\r'))
  | [] => rfl
  | c :: r => by
      have ih := xmlCharsOk_eq r
      simp only [xmlCharsOk, charsOk, List.all_cons] at ih ⊢
      rw [ih]
      cases xmlCharOk c.toNat <;> cases (c != '\r') <;> simp

/-! ### a predicate on the VALUE under which the encoder's tree is `WellNamed` -/

/-- an attribute value: a string, number or boolean whose text holds only XML characters
    other than '\r' -/
def attrNamed (v : Val) : Bool :=
  match attrValue v with
  | some s => xmlCharsOk s
  | none => false

/-- a text-key value: its `%v` text is non-empty and holds only XML characters other than
    '\r' -/
def textNamed (v : Val) : Bool := !(leafText v).isEmpty && xmlCharsOk (leafText v)

mutual
/-- the value-level counterpart of `WellNamed` (default options): every element key is a
    (colon-free ASCII) XML name, every attribute key is the prefix followed by an XML name,
    and every string / number text holds only XML characters other than '\r' (numbers:
    non-empty) -/
def ValNamed : Val → Bool
  | .null => true
  | .bool _ => true
  | .num t => !(numText t).isEmpty && xmlCharsOk (numText t)
  | .str s => xmlCharsOk s
  | .list xs => ValNamedList xs
  | .map kvs => ValNamedEntries kvs
def ValNamedList : List Val → Bool
  | [] => true
  | x :: xs => ValNamed x && ValNamedList xs
def ValNamedEntries : Entries → Bool
  | [] => true
  | (k, v) :: rest =>
      (if isAttrK ec k then xmlNameOk (k.drop ec.attrPrefix.length) && attrNamed v
       else if k = ec.textK then textNamed v
       else xmlNameOk k && ValNamed v) && ValNamedEntries rest
end

theorem wellNamedKids_iff : ∀ (ks : List Node),
    wellNamedKids ks = true ↔ ∀ k ∈ ks, wellNamedNode k = true
  | [] => by simp [wellNamedKids]
  | k :: ks => by simp [wellNamedKids, wellNamedKids_iff ks]

theorem noAdjTextKids_elems : ∀ (ks : List Node),
    (∀ k ∈ ks, isElem k = true ∧ noAdjText k = true) → noAdjTextKids ks = true
  | [], _ => rfl
  | k :: ks, h => by
      have hk := h k (List.mem_cons_self ..)
      have ih := noAdjTextKids_elems ks (fun x hx => h x (List.mem_cons_of_mem _ hx))
      cases k with
      | elem sp n as kk => simp only [noAdjTextKids, hk.2, ih, Bool.and_self]
      | text _ => simp [isElem] at hk
      | comment _ => simp [isElem] at hk
      | procinst _ _ => simp [isElem] at hk
      | directive _ => simp [isElem] at hk

theorem noAdjTextKids_text_elems (s : Str) (ks : List Node)
    (h : ∀ k ∈ ks, isElem k = true ∧ noAdjText k = true) :
    noAdjTextKids (.text s :: ks) = true := by
  have ih := noAdjTextKids_elems ks h
  cases ks with
  | nil => simp [noAdjTextKids, noAdjText]
  | cons k rest =>
    have hk := h k (List.mem_cons_self ..)
    cases k with
    | elem sp n as kk => simp only [noAdjTextKids, noAdjText, Bool.true_and] at ih ⊢; exact ih
    | text _ => simp [isElem] at hk
    | comment _ => simp [isElem] at hk
    | procinst _ _ => simp [isElem] at hk
    | directive _ => simp [isElem] at hk

theorem encAttrs_named : ∀ (kvs : Entries) (as : List Attr), ValNamedEntries kvs = true →
    encAttrs ec kvs = .ok as →
    as.all (fun a => a.space.isEmpty && xmlNameOk a.name && xmlCharsOk a.value) = true
  | [], as, _, h => by simp only [encAttrs, Except.ok.injEq] at h; subst h; rfl
  | (k, v) :: rest, as, hv, h => by
      simp only [ValNamedEntries, Bool.and_eq_true] at hv
      simp only [encAttrs] at h
      split at h
      · rename_i hk
        simp only [hk, if_true, Bool.and_eq_true] at hv
        cases hav : attrValue v with
        | none => simp [attrNamed, hav] at hv
        | some s =>
          have hs : xmlCharsOk s = true := by simpa [attrNamed, hav] using hv.1.2
          simp only [encAttr, hav] at h
          cases hr : encAttrs ec rest with
          | error e => rw [hr] at h; simp at h
          | ok r =>
            rw [hr] at h
            simp only [Except.ok.injEq] at h
            subst h
            simp only [List.all_cons, Bool.and_eq_true, List.isEmpty_nil, true_and]
            exact ⟨⟨hv.1.1, hs⟩, encAttrs_named rest r hv.2 hr⟩
      · exact encAttrs_named rest as hv.2 h

theorem textNodes_named : ∀ (kvs : Entries), ValNamedEntries kvs = true →
    ∀ k ∈ textNodes kvs, wellNamedNode k = true := by
  intro kvs hv
  have key : ∀ (l : Entries), ValNamedEntries l = true → ∀ tv, lookup ec.textK l = some tv →
      textNamed tv = true := by
    intro l
    induction l with
    | nil => intro _ tv h; simp [lookup] at h
    | cons e rest ih =>
      obtain ⟨k, v⟩ := e
      intro hl tv h
      simp only [ValNamedEntries, Bool.and_eq_true] at hl
      by_cases hk : k = ec.textK
      · subst hk
        have : lookup ec.textK ((ec.textK, v) :: rest) = some v := by simp [lookup]
        rw [this] at h
        simp only [Option.some.injEq] at h
        subst h
        have h1 := hl.1
        have hna : isAttrK ec ec.textK = false := by decide
        simpa [hna] using h1
      · have : lookup ec.textK ((k, v) :: rest) = lookup ec.textK rest := by
          simp [lookup]
          intro e
          exact absurd e.symm hk
        rw [this] at h
        exact ih hl.2 tv h
  unfold textNodes
  cases hl : lookup ec.textK kvs with
  | none => intro k hk; simp at hk
  | some tv =>
    intro k hk
    simp only [List.mem_singleton] at hk
    subst hk
    have := key kvs hv tv hl
    simpa [textNamed, wellNamedNode] using this

theorem wellNamed_leaf (key t : Str) (hk : xmlNameOk key = true) (ht : t.isEmpty = false)
    (hc : xmlCharsOk t = true) : WellNamed (.elem [] key [] [.text t]) = true := by
  simp [WellNamed, wellNamedNode, wellNamedKids, noAdjText, noAdjTextKids, hk, ht, hc]

theorem wellNamed_empty (key : Str) (hk : xmlNameOk key = true) :
    WellNamed (.elem [] key [] []) = true := by
  simp [WellNamed, wellNamedNode, wellNamedKids, noAdjText, noAdjTextKids, hk]

mutual
theorem encTree_wellNamed : ∀ (key : Str) (v : Val) (ns : List Node),
    xmlNameOk key = true → ValNamed v = true → encTree ec key v = .ok ns →
    ∀ n ∈ ns, WellNamed n = true
  | key, .null, ns, hk, _, h => by
      simp only [encTree, Except.ok.injEq] at h; subst h
      intro n hn; simp only [List.mem_singleton] at hn; subst hn
      exact wellNamed_empty key hk
  | key, .str [], ns, hk, _, h => by
      simp only [encTree, Except.ok.injEq] at h; subst h
      intro n hn; simp only [List.mem_singleton] at hn; subst hn
      exact wellNamed_empty key hk
  | key, .str (c :: s), ns, hk, hv, h => by
      simp only [encTree, Except.ok.injEq] at h; subst h
      intro n hn; simp only [List.mem_singleton] at hn; subst hn
      exact wellNamed_leaf key _ hk rfl (by simpa [ValNamed] using hv)
  | key, .bool b, ns, hk, _, h => by
      cases b <;> simp only [encTree, fmtV, Except.ok.injEq] at h <;> subst h <;>
        intro n hn <;> simp only [List.mem_singleton] at hn <;> subst hn <;>
        exact wellNamed_leaf key _ hk rfl (by decide)
  | key, .num t, ns, hk, hv, h => by
      simp only [encTree, fmtV, Except.ok.injEq] at h; subst h
      simp only [ValNamed, Bool.and_eq_true, Bool.not_eq_true'] at hv
      intro n hn; simp only [List.mem_singleton] at hn; subst hn
      exact wellNamed_leaf key _ hk hv.1 hv.2
  | key, .list xs, ns, hk, hv, h => by
      simp only [encTree] at h
      split at h
      · simp only [Except.ok.injEq] at h; subst h
        intro n hn; simp only [List.mem_singleton] at hn; subst hn
        exact wellNamed_empty key hk
      · exact encMembers_wellNamed key xs ns hk (by simpa [ValNamed] using hv) h
  | key, .map vv, ns, hk, hv, h => by
      obtain ⟨attrs, kids, hA, hE, rfl⟩ := encTree_map_ec key vv ns h
      have hv' : ValNamedEntries vv = true := by simpa [ValNamed] using hv
      have hkids := encElems_wellNamed vv kids hv' hE
      have hel := encElems_isElem ec vv kids hE
      intro n hn; simp only [List.mem_singleton] at hn; subst hn
      have hadjk : ∀ k ∈ kids, isElem k = true ∧ noAdjText k = true := by
        intro k hkm
        have := hkids k hkm
        unfold WellNamed at this
        simp only [Bool.and_eq_true] at this
        exact ⟨hel k hkm, this.2⟩
      unfold WellNamed
      simp only [Bool.and_eq_true, wellNamedNode, List.isEmpty_nil, true_and, hk,
        encAttrs_named vv attrs hv' hA, noAdjText]
      constructor
      · rw [wellNamedKids_iff]
        intro k hkm
        rcases List.mem_append.1 hkm with hkm | hkm
        · exact textNodes_named vv hv' k hkm
        · have := hkids k hkm
          unfold WellNamed at this
          simp only [Bool.and_eq_true] at this
          exact this.1
      · unfold textNodes
        cases lookup ec.textK vv with
        | none => exact noAdjTextKids_elems kids hadjk
        | some tv => exact noAdjTextKids_text_elems _ kids hadjk
theorem encMembers_wellNamed (key : Str) : ∀ (xs : List Val) (ns : List Node),
    xmlNameOk key = true → ValNamedList xs = true → encMembers ec key xs = .ok ns →
    ∀ n ∈ ns, WellNamed n = true
  | [], ns, _, _, h => by
      simp only [encMembers, Except.ok.injEq] at h; subst h
      intro n hn; simp at hn
  | x :: xs, ns, hk, hv, h => by
      simp only [ValNamedList, Bool.and_eq_true] at hv
      simp only [encMembers] at h
      split at h
      · simp at h
      · rename_i a ha
        split at h
        · simp at h
        · rename_i r hr
          simp only [Except.ok.injEq] at h
          subst h
          intro n hn
          rcases List.mem_append.1 hn with hn | hn
          · exact encTree_wellNamed key x a hk hv.1 ha n hn
          · exact encMembers_wellNamed key xs r hk hv.2 hr n hn
theorem encElems_wellNamed : ∀ (kvs : Entries) (ns : List Node),
    ValNamedEntries kvs = true → encElems ec kvs = .ok ns → ∀ n ∈ ns, WellNamed n = true
  | [], ns, _, h => by
      simp only [encElems, Except.ok.injEq] at h; subst h
      intro n hn; simp at hn
  | (k, v) :: rest, ns, hv, h => by
      simp only [ValNamedEntries, Bool.and_eq_true] at hv
      simp only [encElems] at h
      split at h
      · exact encElems_wellNamed rest ns hv.2 h
      · rename_i hk
        simp only [Bool.or_eq_true, decide_eq_true_eq, not_or, Bool.not_eq_true] at hk
        have h1 := hv.1
        simp only [hk.2, Bool.false_eq_true, if_false, hk.1, Bool.and_eq_true] at h1
        split at h
        · simp at h
        · rename_i a ha
          split at h
          · simp at h
          · rename_i r hr
            simp only [Except.ok.injEq] at h
            subst h
            intro n hn
            rcases List.mem_append.1 hn with hn | hn
            · exact encTree_wellNamed k v a h1.1 h1.2 ha n hn
            · exact encElems_wellNamed rest r hv.2 hr n hn
end

/-! ### `ValNamed` under normalisation (the encoder walks `v.norm`: entries sorted by key) -/

def entryNamed (e : Str × Val) : Bool :=
  if isAttrK ec e.1 then xmlNameOk (e.1.drop ec.attrPrefix.length) && attrNamed e.2
  else if e.1 = ec.textK then textNamed e.2
  else xmlNameOk e.1 && ValNamed e.2

theorem ValNamedEntries_iff : ∀ (l : Entries),
    ValNamedEntries l = true ↔ ∀ e ∈ l, entryNamed e = true
  | [] => by simp [ValNamedEntries]
  | (k, v) :: rest => by
      simp only [ValNamedEntries, Bool.and_eq_true, ValNamedEntries_iff rest, List.mem_cons,
        forall_eq_or_imp, entryNamed]

theorem attrNamed_norm (v : Val) : attrNamed v.norm = attrNamed v := by
  unfold attrNamed; rw [attrValue_norm]
theorem textNamed_norm (v : Val) : textNamed v.norm = textNamed v := by
  unfold textNamed; rw [leafText_norm]

mutual
theorem ValNamed_norm : ∀ (v : Val), ValNamed v = true → ValNamed v.norm = true
  | .null, _ => rfl
  | .bool _, _ => rfl
  | .num _, h => h
  | .str _, h => h
  | .list xs, h => by
      simp only [ValNamed] at h
      simp only [Val.norm, ValNamed, ValNamedList_norm xs h]
  | .map kvs, h => by
      simp only [ValNamed] at h
      have hp := sortByKey_perm (Val.normEntries kvs)
      simp only [Val.norm, ValNamed]
      rw [ValNamedEntries_iff]
      intro e he
      exact (ValNamedEntries_iff _).1 (ValNamedEntries_norm kvs h) e (hp.mem_iff.1 he)
theorem ValNamedList_norm : ∀ (xs : List Val), ValNamedList xs = true →
    ValNamedList (Val.normList xs) = true
  | [], _ => rfl
  | x :: xs, h => by
      simp only [ValNamedList, Bool.and_eq_true] at h
      simp only [Val.normList, ValNamedList, ValNamed_norm x h.1, ValNamedList_norm xs h.2,
        Bool.and_self]
theorem ValNamedEntries_norm : ∀ (kvs : Entries), ValNamedEntries kvs = true →
    ValNamedEntries (Val.normEntries kvs) = true
  | [], _ => rfl
  | (k, v) :: rest, h => by
      simp only [ValNamedEntries, Bool.and_eq_true] at h
      simp only [Val.normEntries, ValNamedEntries, Bool.and_eq_true, attrNamed_norm,
        textNamed_norm]
      refine ⟨?_, ValNamedEntries_norm rest h.2⟩
      have h1 := h.1
      split
      · rename_i hc; simpa only [hc, if_true] using h1
      · rename_i hc
        simp only [hc, Bool.false_eq_true, if_false] at h1
        split
        · rename_i ht; simpa only [ht, if_true] using h1
        · rename_i ht
          simp only [ht, if_false, Bool.and_eq_true] at h1 ⊢
          exact ⟨h1.1, ValNamed_norm v h1.2⟩
end

/-- the bridge: a value-level, executable hypothesis for "the encoder's tree is well-named" -/
theorem encTree_norm_wellNamed (key : Str) (v : Val) (ns : List Node)
    (hk : xmlNameOk key = true) (hv : ValNamed v = true) (h : encTree ec key v.norm = .ok ns) :
    ∀ n ∈ ns, WellNamed n = true :=
  encTree_wellNamed key v.norm ns hk (ValNamed_norm v hv) h

end Mxj.EncTok
