/-
  Mxj.Lemmas.SurfaceSplit — the decoder's tree fold does not depend on how a run of character
  data is split into directly adjacent text nodes (text / CDATA pieces): `Fold.value` of a tree
  equals `Fold.value` of the tree with adjacent text nodes concatenated (`mergeN`).
-/
import Mxj.Lemmas.Surface
import Mxj.Lemmas.Decode
import Mxj.Lemmas.SeqIndent
namespace Mxj.Surf
open Mxj Mxj.Dec

theorem insert_over (k : Str) (a b : Val) : ∀ kvs : Entries,
    insert k a (insert k b kvs) = insert k a kvs
  | [] => by simp [insert]
  | (k0, v0) :: rest => by
      by_cases h : k = k0
      · simp [insert, h]
      · simp only [insert, h, if_false]
        rw [insert_over k a b rest]

theorem insert_not_empty (k : Str) (v : Val) (na : Entries) : (insert k v na).isEmpty = false := by
  cases na with
  | nil => simp [insert]
  | cons e r =>
    obtain ⟨k', v'⟩ := e
    simp only [insert]
    split <;> simp

theorem escOne_ne_nil (c : Char) : escOne c ≠ [] := by
  unfold escOne
  repeat' split
  all_goals first | decide | simp

theorem escapeChars_isEmpty (x : Str) : (escapeChars x).isEmpty = x.isEmpty := by
  cases x with
  | nil => simp [escapeChars_nil]
  | cons c r =>
    rw [escapeChars_flatMap]
    have := escOne_ne_nil c
    cases h : escOne c with
    | nil => exact absurd h this
    | cons d e => simp [List.flatMap_cons, h]

/-- the trimmed (and, under `escDec`, escaped) text the decoder looks at -/
def ttOf (cfg : DecCfg) (s : Str) : Str := escDecIf cfg (trimChars (trimSet cfg) s)

theorem ttOf_isEmpty (cfg : DecCfg) (s : Str) :
    (ttOf cfg s).isEmpty = (trimChars (trimSet cfg) s).isEmpty := by
  unfold ttOf escDecIf
  split
  · exact escapeChars_isEmpty _
  · rfl

theorem ttOf_append (cfg : DecCfg) (a b : Str) (h : (ttOf cfg a).isEmpty = false) :
    (ttOf cfg (a ++ b)).isEmpty = false := by
  rw [ttOf_isEmpty] at h ⊢
  cases hx : trimChars (trimSet cfg) (a ++ b) with
  | cons c r => rfl
  | nil =>
    exfalso
    have h1 := (SeqIL.trim_nil_iff _ _).1 hx
    have h2 := (SeqIL.trim_nil_iff (trimSet cfg) a).2 (fun ch hch => h1 ch (List.mem_append_left _ hch))
    rw [h2] at h
    simp at h

/-- handling the run `a` and then the longer run `a ++ b` = handling `a ++ b` at once -/
theorem onText_split (cfg : DecCfg) (S : Strconv) (skey : Str) (na : Entries) (n : Option Val)
    (a b : Str) :
    onText cfg S skey (onText cfg S skey na n a).1 (onText cfg S skey na n a).2 (a ++ b)
      = onText cfg S skey na n (a ++ b) := by
  by_cases ha : (ttOf cfg a).isEmpty = true
  · have ha' : (escDecIf cfg (trimChars (trimSet cfg) a)).isEmpty = true := ha
    simp [onText, ha']
  · have ha1 : (ttOf cfg a).isEmpty = false := by simpa using ha
    have hab : (escDecIf cfg (trimChars (trimSet cfg) (a ++ b))).isEmpty = false :=
      ttOf_append cfg a b ha1
    have ha' : (escDecIf cfg (trimChars (trimSet cfg) a)).isEmpty = false := ha1
    by_cases hc : (!na.isEmpty || cfg.asMap) = true
    · simp [onText, ha', hab, hc, insert_not_empty, insert_over]
    · have hc' : (!na.isEmpty || cfg.asMap) = false := by simpa using hc
      simp only [Bool.or_eq_false_iff, Bool.not_eq_false'] at hc'
      simp [onText, ha', hab, hc'.1, hc'.2]

theorem kids'_text_text (cfg : DecCfg) (S : Strconv) (skey : Str)
    (st : Entries × Option Val × Nat × Option Str) (a b : Str) (rest : List Node) :
    Fold.kids' cfg S skey st (.text a :: .text b :: rest)
      = Fold.kids' cfg S skey st (.text (a ++ b) :: rest) := by
  obtain ⟨na, n, seq, pend⟩ := st
  have h := onText_split cfg S skey na n (pend.getD [] ++ a) b
  simp only [List.append_assoc] at h
  simp only [Fold.kids', Option.getD_some, List.append_assoc, h]

/-- put `k` in front of `r`, concatenating two text nodes that would become adjacent -/
def glue : Node → List Node → List Node
  | .text a, .text b :: r => .text (a ++ b) :: r
  | k, r => k :: r

mutual
/-- the tree with every run of adjacent text nodes concatenated into one -/
def mergeN : Node → Node
  | .elem sp name attrs kids => .elem sp name attrs (mergeK kids)
  | .text s => .text s
  | .comment s => .comment s
  | .procinst t i => .procinst t i
  | .directive s => .directive s
def mergeK : List Node → List Node
  | [] => []
  | k :: ks => glue (mergeN k) (mergeK ks)
end

theorem kids'_glue (cfg : DecCfg) (S : Strconv) (skey : Str)
    (st : Entries × Option Val × Nat × Option Str) (k : Node) (r : List Node) :
    Fold.kids' cfg S skey st (glue k r) = Fold.kids' cfg S skey st (k :: r) := by
  cases k with
  | text a =>
    cases r with
    | nil => rfl
    | cons x r' =>
      cases x <;> first | rfl | exact (kids'_text_text cfg S skey st a _ r').symm
  | _ => rfl

mutual
theorem value_mergeN (cfg : DecCfg) (S : Strconv) : ∀ (t : Node),
    Fold.value cfg S (mergeN t) = Fold.value cfg S t
  | .elem sp name attrs kids => by
      simp only [mergeN, Fold.value]
      rw [kids'_mergeK cfg S kids]
  | .text _ => rfl
  | .comment _ => rfl
  | .procinst _ _ => rfl
  | .directive _ => rfl
theorem kids'_mergeK (cfg : DecCfg) (S : Strconv) : ∀ (ks : List Node) {skey : Str}
    {st : Entries × Option Val × Nat × Option Str},
    Fold.kids' cfg S skey st (mergeK ks) = Fold.kids' cfg S skey st ks
  | [], _, _ => rfl
  | k :: ks, skey, st => by
      obtain ⟨na, n, seq, pend⟩ := st
      simp only [mergeK]
      rw [kids'_glue]
      cases k with
      | elem sp name attrs kids =>
        have hv := value_mergeN cfg S (.elem sp name attrs kids)
        simp only [mergeN] at hv
        simp only [mergeN, Fold.kids', hv]
        exact kids'_mergeK cfg S ks
      | text s => simp only [mergeN, Fold.kids']; exact kids'_mergeK cfg S ks
      | comment s => simp only [mergeN, Fold.kids']; exact kids'_mergeK cfg S ks
      | procinst t i => simp only [mergeN, Fold.kids']; exact kids'_mergeK cfg S ks
      | directive s => simp only [mergeN, Fold.kids']; exact kids'_mergeK cfg S ks
end

theorem doc_mergeN (cfg : DecCfg) (S : Strconv) (sp name : Str) (attrs : List Attr) (kids : List Node) :
    Fold.doc cfg S (.elem sp name attrs (mergeK kids)) = Fold.doc cfg S (.elem sp name attrs kids) := by
  have hv := value_mergeN cfg S (.elem sp name attrs kids)
  simp only [mergeN] at hv
  simp only [Fold.doc, hv]

/-! ### the merged tree has no adjacent text nodes -/

theorem noAdj_glue (k : Node) (r : List Node) (hk : noAdjText k = true)
    (hr : noAdjTextKids r = true) : noAdjTextKids (glue k r) = true := by
  cases k with
  | text a =>
    cases r with
    | nil => simp [glue, noAdjTextKids, noAdjText]
    | cons x r' =>
      cases x with
      | text b =>
        cases r' with
        | nil => simp [glue, noAdjTextKids, noAdjText]
        | cons y r'' => cases y <;> simp_all [glue, noAdjTextKids, noAdjText]
      | _ => simp_all [glue, noAdjTextKids, noAdjText]
  | _ => simp_all [glue, noAdjTextKids]

mutual
theorem noAdj_mergeN : ∀ (t : Node), noAdjText (mergeN t) = true
  | .elem sp name attrs kids => by simp only [mergeN, noAdjText]; exact noAdj_mergeK kids
  | .text _ => rfl
  | .comment _ => rfl
  | .procinst _ _ => rfl
  | .directive _ => rfl
theorem noAdj_mergeK : ∀ (ks : List Node), noAdjTextKids (mergeK ks) = true
  | [] => rfl
  | k :: ks => by
      simp only [mergeK]
      exact noAdj_glue _ _ (noAdj_mergeN k) (noAdj_mergeK ks)
end
end Mxj.Surf
