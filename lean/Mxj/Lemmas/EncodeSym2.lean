/-
  Mxj.Lemmas.EncodeSym2 — C02 for symmetric non-default option pairs, part 2: decoding the
  encoder's tree computes `imageG` (on values of the decoded shape), and the encoder succeeds
  on such values.
-/
import Mxj.Lemmas.EncodeSym1
namespace Mxj.EncSym
open Mxj Mxj.Enc

theorem textK_not_mem_baseG (d : DecCfg) (S : Strconv) (e : EncCfg)
    (hta : isAttrK e e.textK = false) (vv : Entries) :
    e.textK ∉ keys (imageAttrsG d S e vv ++ imageElemsG d S e vv) := by
  rw [keys_append, List.mem_append]
  rintro (h | h)
  · have := (keys_imageAttrsG_sub d S e vv _ h).2
    rw [hta] at this; simp at this
  · have := (keys_imageElemsG_sub d S e vv _ h).2
    simp [isElemKG] at this

theorem imageAttrsG_isEmpty_of_base (d : DecCfg) (S : Strconv) (e : EncCfg) (vv : Entries)
    (h : (imageAttrsG d S e vv ++ imageElemsG d S e vv).isEmpty = true) :
    (imageAttrsG d S e vv).isEmpty = true := by
  cases hA : imageAttrsG d S e vv with
  | nil => rfl
  | cons _ _ => rw [hA] at h; simp at h

/-- the value of the element built for a map -/
theorem value_map_nodeG (d : DecCfg) (S : Strconv) (e : EncCfg) (hs : Sym d e) (key : Str)
    (vv : Entries) (attrs : List Attr) (kids : List Node) (hd : (keys vv).Nodup)
    (hf : AttrKeysFixed d S e vv) (hA : encAttrs e vv = .ok attrs)
    (hk : ∀ n ∈ kids, isElem n = true) (hcv : Conv.childVals d S 0 kids = elemPairsG d S e vv) :
    Conv.value d S (.elem [] key attrs (textNodesG e vv ++ kids))
      = finishImageG d e (imageAttrsG d S e vv ++ imageElemsG d S e vv) (imageTextG d S e vv) := by
  have hLA := loadAttrs_encAttrsG d S e hs.esc hs.skip vv attrs hd hf hA
  have hbase : Conv.groupOnto (imageAttrsG d S e vv) (elemPairsG d S e vv)
      = imageAttrsG d S e vv ++ imageElemsG d S e vv := by
    apply groupOnto_elemPairsG d S e vv _ hd
    intro q _ he hm
    have := (keys_imageAttrsG_sub d S e vv q hm).2
    simp [isElemKG, this] at he
  have hcv' : Conv.childVals d S 0 (textNodesG e vv ++ kids) = elemPairsG d S e vv := by
    unfold textNodesG
    split
    · rw [List.singleton_append, childVals_textG, hcv]
    · rw [List.nil_append, hcv]
  have hruns_k : ∀ seen, Conv.textRuns d seen kids = [] := fun seen => textRuns_elems d kids seen hk
  cases hl : lookup e.textK vv with
  | none =>
    have htn : textNodesG e vv = [] := by simp only [textNodesG, hl]
    have hit : imageTextG d S e vv = none := by simp only [imageTextG, hl]
    rw [value_elem_nil d S _ _ _ _ (by rw [htn, List.nil_append]; exact hruns_k _)]
    rw [hcv', hLA, hbase, hit]
    rfl
  | some tv =>
    have htn : textNodesG e vv = [.text (leafText tv)] := by simp only [textNodesG, hl]
    by_cases hte : (trimG d (leafText tv)).isEmpty = true
    · have hit : imageTextG d S e vv = none := by
        simp only [imageTextG, hl, textImg, hte, if_true]
      rw [value_elem_nil d S _ _ _ _ (by
        rw [htn, List.singleton_append]
        simp only [Conv.textRuns, textOf_eq d hs.esc, hte, if_true]
        exact hruns_k _)]
      rw [hcv', hLA, hbase, hit]
      rfl
    · have hit : imageTextG d S e vv = some (lf d S (trimG d (leafText tv))) := by
        simp only [imageTextG, hl, textImg, hte, Bool.false_eq_true, if_false]
      rw [value_elem_cons d S _ _ _ _
        ⟨trimG d (leafText tv), !(!(loadAttrs d S attrs).isEmpty || d.asMap)⟩ [] (by
        rw [htn, List.singleton_append]
        simp only [Conv.textRuns, textOf_eq d hs.esc, hte, Bool.false_eq_true, if_false, hruns_k])]
      rw [hcv', hLA, hbase, hit]
      rw [cast_key S d.cast hs.skip _ (elemKey d S key), cast_key S d.cast hs.skip _ d.textK]
      have hnot : d.textK ∉ keys (imageAttrsG d S e vv ++ imageElemsG d S e vv) := by
        rw [← hs.txt]; exact textK_not_mem_baseG d S e hs.txt_not_attr vv
      rw [insert_of_not_mem _ _ _ hnot]
      simp only [finishImageG, lf, hs.txt]
      by_cases hb : (imageAttrsG d S e vv ++ imageElemsG d S e vv).isEmpty = true
      · have ha := imageAttrsG_isEmpty_of_base d S e vv hb
        cases hm : d.asMap <;> simp [hb, ha]
      · have hb' : (imageAttrsG d S e vv ++ imageElemsG d S e vv).isEmpty = false := by
          simpa using hb
        simp only [hb', Bool.false_eq_true, if_false, Bool.false_and]
        split <;> rfl

theorem value_emptyG (d : DecCfg) (S : Strconv) (key : Str) :
    Conv.value d S (.elem [] key [] []) = .str [] := by
  rw [value_elem_nil d S _ _ _ _ rfl]; rfl

theorem value_leafG (d : DecCfg) (S : Strconv) (e : EncCfg) (hs : Sym d e) (key t : Str) :
    Conv.value d S (.elem [] key [] [.text t]) = finishImageG d e [] (textImg d S t) := by
  by_cases hte : (trimG d t).isEmpty = true
  · rw [value_elem_nil d S _ _ _ _ (by
      simp only [Conv.textRuns, textOf_eq d hs.esc, hte, if_true])]
    simp only [textImg, hte, if_true, finishImageG]
    rfl
  · rw [value_elem_cons d S _ _ _ _ ⟨trimG d t, !(!(loadAttrs d S []).isEmpty || d.asMap)⟩ [] (by
      simp only [Conv.textRuns, textOf_eq d hs.esc, hte, Bool.false_eq_true, if_false])]
    rw [cast_key S d.cast hs.skip _ (elemKey d S key), cast_key S d.cast hs.skip _ d.textK]
    simp only [textImg, hte, Bool.false_eq_true, if_false, finishImageG, lf, hs.txt]
    cases hm : d.asMap <;> simp [loadAttrs, Conv.childVals, Conv.groupOnto, insert]

theorem childVals_singleG (d : DecCfg) (S : Strconv) (hseq : d.seqNum = false) (key : Str)
    (attrs : List Attr) (kids : List Node) :
    Conv.childVals d S 0 [.elem [] key attrs kids]
      = [(elemKey d S key, Conv.value d S (.elem [] key attrs kids))] := by
  rw [childVals_elemG d S hseq]; simp only [Conv.childVals]

/-! ### reading the decoded shape -/

theorem DecodedEntriesG_attrFixed (d : DecCfg) (S : Strconv) (e : EncCfg) :
    ∀ (kvs : Entries), DecodedEntriesG d S e kvs = true → AttrKeysFixed d S e kvs
  | [], _ => by intro x hx; simp at hx
  | (k, v) :: rest, h => by
      simp only [DecodedEntriesG, Bool.and_eq_true] at h
      intro x hx ha
      rcases List.mem_cons.1 hx with rfl | hx
      · have h1 := h.1
        simp only [ha, if_true, Bool.and_eq_true, decide_eq_true_eq] at h1
        exact h1.2
      · exact DecodedEntriesG_attrFixed d S e rest h.2 x hx ha

mutual
theorem DecodedChildG_wf (d : DecCfg) (S : Strconv) (e : EncCfg) :
    ∀ (v : Val), DecodedChildG d S e v = true → v.wf = true
  | .null, _ => rfl
  | .bool _, _ => rfl
  | .num _, _ => rfl
  | .str _, _ => rfl
  | .list xs, h => by
      simp only [DecodedChildG, Bool.and_eq_true] at h
      simp only [Val.wf, DecodedListG_wf d S e xs h.2]
  | .map kvs, h => by
      simp only [DecodedChildG, Bool.and_eq_true] at h
      simp only [Val.wf, DecodedEntriesG_wf d S e kvs h.2, h.1.1, Bool.and_self]
theorem DecodedListG_wf (d : DecCfg) (S : Strconv) (e : EncCfg) :
    ∀ (xs : List Val), DecodedListG d S e xs = true → Val.wfList xs = true
  | [], _ => rfl
  | x :: xs, h => by
      simp only [DecodedListG, Bool.and_eq_true] at h
      simp only [Val.wfList, DecodedChildG_wf d S e x h.1.2, DecodedListG_wf d S e xs h.2,
        Bool.and_self]
theorem DecodedEntriesG_wf (d : DecCfg) (S : Strconv) (e : EncCfg) :
    ∀ (kvs : Entries), DecodedEntriesG d S e kvs = true → Val.wfEntries kvs = true
  | [], _ => rfl
  | (k, v) :: rest, h => by
      simp only [DecodedEntriesG, Bool.and_eq_true] at h
      simp only [Val.wfEntries, DecodedEntriesG_wf d S e rest h.2, Bool.and_true]
      have h1 := h.1
      split at h1
      · simp only [attrOk, Bool.and_eq_true] at h1
        exact isScalar_wf h1.1.1
      · split at h1
        · simp only [textOk, attrOk, Bool.and_eq_true] at h1
          exact isScalar_wf h1.1.1.1
        · simp only [Bool.and_eq_true] at h1
          exact DecodedChildG_wf d S e v h1.2
end

/-! ### decoding the encoder's tree computes the image -/

mutual
/-- the decoding conventions on the encoder's sibling trees: every sibling is an element named
    `key`, and their values are, in order, the sibling images of `v` -/
theorem childVals_encTreeG (d : DecCfg) (S : Strconv) (e : EncCfg) (hs : Sym d e) :
    ∀ (key : Str) (v : Val) (ns : List Node), elemKey d S key = key →
    DecodedChildG d S e v = true → encTree e key v = .ok ns →
    Conv.childVals d S 0 ns = (imageSibsG d S e v).map (key, ·)
  | key, .null, ns, _, hD, _ => by simp [DecodedChildG] at hD
  | key, .str [], ns, hkey, _, h => by
      simp only [encTree, Except.ok.injEq] at h; subst h
      simp only [List.isEmpty_nil, if_true]
      rw [childVals_singleG d S hs.seq, value_emptyG, hkey]; rfl
  | key, .str (c :: s), ns, hkey, _, h => by
      simp only [encTree, Except.ok.injEq] at h; subst h
      simp only [List.isEmpty_cons, Bool.false_eq_true, if_false]
      rw [childVals_singleG d S hs.seq, value_leafG d S e hs, hkey]; rfl
  | key, .bool b, ns, hkey, _, h => by
      cases b <;> simp only [encTree, fmtV, Except.ok.injEq] at h <;> subst h <;>
        rw [childVals_singleG d S hs.seq, value_leafG d S e hs, hkey] <;> rfl
  | key, .num t, ns, hkey, _, h => by
      simp only [encTree, fmtV, Except.ok.injEq] at h; subst h
      rw [childVals_singleG d S hs.seq, value_leafG d S e hs, hkey]; rfl
  | key, .list xs, ns, hkey, hD, h => by
      simp only [DecodedChildG, Bool.and_eq_true] at hD
      simp only [encTree] at h
      simp only [imageSibsG]
      split at h
      · rename_i he
        simp only [Except.ok.injEq] at h; subst h
        simp only [he, if_true]
        rw [childVals_singleG d S hs.seq, value_emptyG, hkey]; rfl
      · rename_i he
        simp only [he, Bool.false_eq_true, if_false]
        exact childVals_encMembersG d S e hs key xs ns hkey hD.2 h
  | key, .map vv, ns, hkey, hD, h => by
      simp only [DecodedChildG, Bool.and_eq_true] at hD
      obtain ⟨attrs, kids, hA, hE, rfl⟩ := encTree_mapG e hs.txt_not_attr key vv ns h
      have hd := (distinctKeys_iff vv).1 hD.1.1
      rw [childVals_singleG d S hs.seq,
        value_map_nodeG d S e hs key vv attrs kids hd (DecodedEntriesG_attrFixed d S e vv hD.2) hA
          (encElems_isElem e vv kids hE) (childVals_encElemsG d S e hs vv kids hD.2 hE), hkey]
      simp only [imageSibsG, List.map_cons, List.map_nil]
theorem childVals_encMembersG (d : DecCfg) (S : Strconv) (e : EncCfg) (hs : Sym d e) (key : Str) :
    ∀ (xs : List Val) (ns : List Node), elemKey d S key = key →
    DecodedListG d S e xs = true → encMembers e key xs = .ok ns →
    Conv.childVals d S 0 ns = (imageMembersG d S e xs).map (key, ·)
  | [], ns, _, _, h => by
      simp only [encMembers, Except.ok.injEq] at h; subst h
      simp only [imageMembersG, List.map_nil, Conv.childVals]
  | x :: xs, ns, hkey, hD, h => by
      simp only [DecodedListG, Bool.and_eq_true] at hD
      simp only [encMembers] at h
      split at h
      · simp at h
      · rename_i a ha
        split at h
        · simp at h
        · rename_i r hr
          simp only [Except.ok.injEq] at h
          subst h
          rw [childVals_appendG d S hs.seq, childVals_encTreeG d S e hs key x a hkey hD.1.2 ha,
            childVals_encMembersG d S e hs key xs r hkey hD.2 hr]
          simp only [imageMembersG, List.map_append]
theorem childVals_encElemsG (d : DecCfg) (S : Strconv) (e : EncCfg) (hs : Sym d e) :
    ∀ (kvs : Entries) (ns : List Node),
    DecodedEntriesG d S e kvs = true → encElems e kvs = .ok ns →
    Conv.childVals d S 0 ns = elemPairsG d S e kvs
  | [], ns, _, h => by
      simp only [encElems, Except.ok.injEq] at h; subst h
      simp only [elemPairsG, Conv.childVals]
  | (k, v) :: rest, ns, hD, h => by
      simp only [DecodedEntriesG, Bool.and_eq_true] at hD
      simp only [encElems] at h
      simp only [elemPairsG]
      split at h
      · rename_i hk
        simp only [hk, if_true]
        exact childVals_encElemsG d S e hs rest ns hD.2 h
      · rename_i hk
        simp only [hk, Bool.false_eq_true, if_false]
        have hk2 : ¬ k = e.textK ∧ isAttrK e k = false := by simpa using hk
        have h1 := hD.1
        simp only [hk2.1, hk2.2, Bool.false_eq_true, if_false, Bool.and_eq_true,
          decide_eq_true_eq] at h1
        split at h
        · simp at h
        · rename_i a ha
          split at h
          · simp at h
          · rename_i r hr
            simp only [Except.ok.injEq] at h
            subst h
            rw [childVals_appendG d S hs.seq, childVals_encTreeG d S e hs k v a h1.1 h1.2 ha,
              childVals_encElemsG d S e hs rest r hD.2 hr]
end

/-! ### the encoder succeeds on values of the decoded shape -/

theorem encAttrs_okG (d : DecCfg) (S : Strconv) (e : EncCfg) :
    ∀ (kvs : Entries), DecodedEntriesG d S e kvs = true → ∃ attrs, encAttrs e kvs = .ok attrs
  | [], _ => ⟨[], rfl⟩
  | (k, v) :: rest, h => by
      simp only [DecodedEntriesG, Bool.and_eq_true] at h
      obtain ⟨r, hr⟩ := encAttrs_okG d S e rest h.2
      simp only [encAttrs]
      split
      · rename_i ha
        have h1 := h.1
        simp only [ha, if_true, attrOk, Bool.and_eq_true, isScalar] at h1
        obtain ⟨s, hs⟩ := Option.isSome_iff_exists.1 h1.1.1
        exact ⟨⟨[], k.drop e.attrPrefix.length, s⟩ :: r, by simp only [encAttr, hs, hr]⟩
      · exact ⟨r, hr⟩

theorem fmtV_of_scalar {v : Val} (h : isScalar v = true) : ∃ t, fmtV v = some t := by
  match v, h with
  | .str _, _ => exact ⟨_, rfl⟩
  | .num _, _ => exact ⟨_, rfl⟩
  | .bool true, _ => exact ⟨_, rfl⟩
  | .bool false, _ => exact ⟨_, rfl⟩
  | .null, h => simp [isScalar, attrValue] at h
  | .list _, h => simp [isScalar, attrValue] at h
  | .map _, h => simp [isScalar, attrValue] at h

theorem textValue_okG (d : DecCfg) (S : Strconv) (e : EncCfg) (hta : isAttrK e e.textK = false) :
    ∀ (kvs : Entries) (tv : Val), DecodedEntriesG d S e kvs = true →
    lookup e.textK kvs = some tv → textOk d S tv = true
  | [], _, _, h => by simp [lookup] at h
  | (k, v) :: rest, tv, hd, h => by
      simp only [DecodedEntriesG, Bool.and_eq_true] at hd
      simp only [lookup] at h
      split at h
      · rename_i he
        obtain rfl := Option.some.inj h
        have h1 := hd.1
        rw [← he] at h1
        simpa only [hta, Bool.false_eq_true, if_false, if_true] using h1
      · exact textValue_okG d S e hta rest tv hd.2 h

theorem textOk_scalar {d : DecCfg} {S : Strconv} {v : Val} (h : textOk d S v = true) :
    isScalar v = true := by
  simp only [textOk, attrOk, Bool.and_eq_true] at h
  exact h.1.1.1

mutual
theorem encTree_okG (d : DecCfg) (S : Strconv) (e : EncCfg) (hta : isAttrK e e.textK = false) :
    ∀ (key : Str) (v : Val), DecodedChildG d S e v = true → ∃ ns, encTree e key v = .ok ns
  | key, .null, _ => ⟨_, rfl⟩
  | key, .str s, _ => ⟨_, rfl⟩
  | key, .bool true, _ => ⟨_, rfl⟩
  | key, .bool false, _ => ⟨_, rfl⟩
  | key, .num t, _ => ⟨_, rfl⟩
  | key, .list xs, h => by
      simp only [DecodedChildG, Bool.and_eq_true] at h
      simp only [encTree]
      split
      · exact ⟨_, rfl⟩
      · exact encMembers_okG d S e hta key xs h.2
  | key, .map vv, h => by
      simp only [DecodedChildG, Bool.and_eq_true] at h
      obtain ⟨attrs, hA⟩ := encAttrs_okG d S e vv h.2
      obtain ⟨kids, hE⟩ := encElems_okG d S e hta vv h.2
      simp only [encTree, hA, hE]
      split
      · exact ⟨_, rfl⟩
      · split
        · rename_i tv hl
          obtain ⟨t, ht⟩ := fmtV_of_scalar (textOk_scalar (textValue_okG d S e hta vv tv h.2 hl))
          simp only [ht]
          split <;> exact ⟨_, rfl⟩
        · exact ⟨_, rfl⟩
theorem encMembers_okG (d : DecCfg) (S : Strconv) (e : EncCfg) (hta : isAttrK e e.textK = false)
    (key : Str) : ∀ (xs : List Val), DecodedListG d S e xs = true →
    ∃ ns, encMembers e key xs = .ok ns
  | [], _ => ⟨_, rfl⟩
  | x :: xs, h => by
      simp only [DecodedListG, Bool.and_eq_true] at h
      obtain ⟨a, ha⟩ := encTree_okG d S e hta key x h.1.2
      obtain ⟨r, hr⟩ := encMembers_okG d S e hta key xs h.2
      exact ⟨a ++ r, by simp only [encMembers, ha, hr]⟩
theorem encElems_okG (d : DecCfg) (S : Strconv) (e : EncCfg) (hta : isAttrK e e.textK = false) :
    ∀ (kvs : Entries), DecodedEntriesG d S e kvs = true → ∃ ns, encElems e kvs = .ok ns
  | [], _ => ⟨_, rfl⟩
  | (k, v) :: rest, h => by
      simp only [DecodedEntriesG, Bool.and_eq_true] at h
      obtain ⟨r, hr⟩ := encElems_okG d S e hta rest h.2
      simp only [encElems]
      split
      · exact ⟨r, hr⟩
      · rename_i hk
        have hk2 : ¬ k = e.textK ∧ isAttrK e k = false := by simpa using hk
        have h1 := h.1
        simp only [hk2.1, hk2.2, Bool.false_eq_true, if_false, Bool.and_eq_true] at h1
        obtain ⟨a, ha⟩ := encTree_okG d S e hta k v h1.2
        exact ⟨a ++ r, by simp only [ha, hr]⟩
end

end Mxj.EncSym
