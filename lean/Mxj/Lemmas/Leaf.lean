/-
  Mxj.Lemmas.Leaf — helper lemmas for C09 (LeafNodes / LeafPaths / LeafValues).

  Part A: the model `getLeafNodes` is the segment-level specification (`leafSegs` rendered by
          `renderSegs`, seen through the no-attributes view).
  Part B: for bracket notation, a rendered leaf path parses back (`parsePath`) to the keys
          `segKeys` of its segments, and those keys denote (`Denote.path`) exactly the leaf value.

  All names are prefixed / chosen so that they do not clash with Mxj.Lemmas.PathIdx.
-/
import Mxj.Model.Leaf
import Mxj.Model.Denote
import Mxj.Model.KeySpec
namespace Mxj

/-! ## Part A — model = specification -/

/-! ### decimal rendering -/

theorem natToStr_eq (i : Nat) : natToStr i = Nat.toDigits 10 i := by
  simp [natToStr]

theorem isDigit_eq (c : Char) : isDigit c = c.isDigit := by
  simp [isDigit, Char.isDigit, Char.le_def]

theorem natToStr_ne_nil (i : Nat) : natToStr i ≠ [] := by
  rw [natToStr_eq]; exact Nat.toDigits_ne_nil

theorem natToStr_isDigit (i : Nat) (c : Char) (h : c ∈ natToStr i) : isDigit c = true := by
  rw [natToStr_eq] at h
  rw [isDigit_eq]
  exact Nat.isDigit_of_mem_toDigits (by decide) (by decide) h

theorem isDigit_ne (c d : Char) (hc : isDigit c = true) (hd : isDigit d = false) : c ≠ d := by
  intro e; subst e; rw [hc] at hd; cases hd

theorem natToStr_all (i : Nat) : (natToStr i).all isDigit = true :=
  List.all_eq_true.2 (fun c hc => natToStr_isDigit i c hc)

/-- a decimal numeral never starts with `[` -/
theorem natToStr_no_bracket (i : Nat) : hasPrefix ['['] (natToStr i) = false := by
  cases h : natToStr i with
  | nil => exact absurd h (natToStr_ne_nil i)
  | cons c cs =>
    have hc : isDigit c = true := natToStr_isDigit i c (by simp [h])
    have hne : c ≠ '[' := isDigit_ne c '[' hc (by decide)
    have hb : (('[' : Char) == c) = false := by
      simp only [beq_eq_false_iff_ne, ne_eq]; exact fun e => hne e.symm
    simp [hasPrefix, List.isPrefixOf, hb]

theorem listNode_prefix (cfg : LeafCfg) (i : Nat) :
    hasPrefix ['['] (listNode cfg i) = !cfg.useDot := by
  unfold listNode
  cases cfg.useDot with
  | true => simp only [if_true, Bool.not_true]; exact natToStr_no_bracket i
  | false => simp [hasPrefix, List.isPrefixOf]

/-- a text key that neither starts with `[` nor is all digits is never a list node -/
theorem listNode_ne_of (cfg : LeafCfg) (hb : hasPrefix ['['] cfg.textK = false)
    (hd : cfg.textK.all isDigit = false) : ∀ i, listNode cfg i ≠ cfg.textK := by
  intro i e
  cases hu : cfg.useDot with
  | true =>
    simp only [listNode, hu, if_true] at e
    rw [← e, natToStr_all] at hd; cases hd
  | false =>
    have := listNode_prefix cfg i
    rw [e, hb, hu] at this; cases this

/-! ### the no-attributes view of the specification -/

/-- what `C09_is_spec` puts between `leafSegs` and the rendering -/
def leafView (cfg : LeafCfg) (noattr : Bool) (l : List (List Seg × Val)) : List (List Seg × Val) :=
  if noattr then
    (l.filter fun pv => !pv.1.any (segIsAttr cfg)).map fun pv => (stripSegs cfg pv.1, pv.2)
  else l

theorem leafView_nil (cfg : LeafCfg) (noattr : Bool) : leafView cfg noattr [] = [] := by
  unfold leafView; split <;> rfl

theorem leafView_append (cfg : LeafCfg) (noattr : Bool) (a b : List (List Seg × Val)) :
    leafView cfg noattr (a ++ b) = leafView cfg noattr a ++ leafView cfg noattr b := by
  unfold leafView; split <;> simp only [List.filter_append, List.map_append]

/-- the string a segment contributes as `node` argument of `getLeafNodes` -/
def segNode (cfg : LeafCfg) : Seg → Str
  | .key k => k
  | .idx i => listNode cfg i

theorem renderSegs_cons (cfg : LeafCfg) (acc : Str) (s : Seg) (p : List Seg) :
    renderSegs cfg acc (s :: p) = renderSegs cfg (leafPath cfg false acc (segNode cfg s)) p := by
  cases s with
  | key k => simp [renderSegs, leafPath, segNode]
  | idx i => simp [renderSegs, leafPath, segNode, listNode_prefix]

theorem leafPath_true_ne (cfg : LeafCfg) (acc node : Str) (h : node ≠ cfg.textK) :
    leafPath cfg true acc node = leafPath cfg false acc node := by
  simp [leafPath, h]

theorem leafPath_true_eq (cfg : LeafCfg) (acc : Str) :
    leafPath cfg true acc cfg.textK = acc := by
  simp [leafPath]

/-- stripping the text-key segment is what `leafPath … noattr=true` does to the string -/
theorem renderSegs_strip_cons (cfg : LeafCfg) (acc : Str) (s : Seg) (p : List Seg)
    (hs : ∀ i, s = Seg.idx i → listNode cfg i ≠ cfg.textK) :
    renderSegs cfg acc (stripSegs cfg (s :: p))
      = renderSegs cfg (leafPath cfg true acc (segNode cfg s)) (stripSegs cfg p) := by
  by_cases h : s = Seg.key cfg.textK
  · subst h
    simp [stripSegs, segNode, leafPath_true_eq]
  · have hn : segNode cfg s ≠ cfg.textK := by
      cases s with
      | key k => intro e; apply h; simp only [segNode] at e; rw [e]
      | idx i => exact hs i rfl
    have : stripSegs cfg (s :: p) = s :: stripSegs cfg p := by
      simp [stripSegs, h]
    rw [this, renderSegs_cons, leafPath_true_ne cfg acc _ hn]

/-- below an attribute segment the no-attributes view is empty -/
theorem leafView_attr (cfg : LeafCfg) (s : Seg) (l : List (List Seg × Val))
    (h : segIsAttr cfg s = true) :
    leafView cfg true (l.map fun pv => (s :: pv.1, pv.2)) = [] := by
  simp [leafView, List.filter_map, h]

/-- one more segment in front = one more `leafPath` step on the accumulated string -/
theorem leafView_cons (cfg : LeafCfg) (noattr : Bool) (acc : Str) (s : Seg)
    (l : List (List Seg × Val))
    (ha : noattr = true → segIsAttr cfg s = false)
    (hs : noattr = true → ∀ i, s = Seg.idx i → listNode cfg i ≠ cfg.textK) :
    (leafView cfg noattr (l.map fun pv => (s :: pv.1, pv.2))).map
        (fun pv => (⟨renderSegs cfg acc pv.1, pv.2⟩ : Leaf))
      = (leafView cfg noattr l).map
        (fun pv => (⟨renderSegs cfg (leafPath cfg noattr acc (segNode cfg s)) pv.1, pv.2⟩ : Leaf)) := by
  cases noattr with
  | false =>
    simp only [leafView, Bool.false_eq_true, if_false, List.map_map]
    apply List.map_congr_left
    intro pv _
    simp only [Function.comp, renderSegs_cons]
  | true =>
    have ha' := ha rfl
    have hs' := hs rfl
    simp only [leafView, if_true, List.filter_map, List.map_map]
    have hf : ((fun pv : List Seg × Val => !pv.1.any (segIsAttr cfg)) ∘
        fun pv : List Seg × Val => (s :: pv.1, pv.2))
        = fun pv : List Seg × Val => !pv.1.any (segIsAttr cfg) := by
      funext pv; simp [Function.comp, ha']
    rw [hf]
    apply List.map_congr_left
    intro pv _
    simp only [Function.comp, renderSegs_strip_cons cfg acc s pv.1 hs']

theorem leafView_scalar (cfg : LeafCfg) (noattr : Bool) (v : Val) :
    leafView cfg noattr [([], v)] = [([], v)] := by
  cases noattr <;> simp [leafView, stripSegs]

mutual
theorem getLeafNodes_spec (cfg : LeafCfg) (noattr : Bool)
    (hln : noattr = true → ∀ i, listNode cfg i ≠ cfg.textK) :
    ∀ (v : Val) (path node : Str),
      getLeafNodes cfg noattr path node v
        = (leafView cfg noattr (leafSegs v)).map
            (fun pv => (⟨renderSegs cfg (leafPath cfg noattr path node) pv.1, pv.2⟩ : Leaf))
  | .map kvs, path, node => by
      simp only [getLeafNodes, leafSegs]
      exact leafEntries_spec cfg noattr hln kvs _
  | .list xs, path, node => by
      simp only [getLeafNodes, leafSegs]
      exact leafList_spec cfg noattr hln xs _ 0
  | .null, path, node => by simp [getLeafNodes, leafSegs, leafView_scalar, renderSegs]
  | .bool _, path, node => by simp [getLeafNodes, leafSegs, leafView_scalar, renderSegs]
  | .num _, path, node => by simp [getLeafNodes, leafSegs, leafView_scalar, renderSegs]
  | .str _, path, node => by simp [getLeafNodes, leafSegs, leafView_scalar, renderSegs]
theorem leafEntries_spec (cfg : LeafCfg) (noattr : Bool)
    (hln : noattr = true → ∀ i, listNode cfg i ≠ cfg.textK) :
    ∀ (kvs : Entries) (path : Str),
      leafEntries cfg noattr path kvs
        = (leafView cfg noattr (leafSegsEntries kvs)).map
            (fun pv => (⟨renderSegs cfg path pv.1, pv.2⟩ : Leaf))
  | [], path => by simp [leafEntries, leafSegsEntries, leafView_nil]
  | (k, v) :: rest, path => by
      have hl : leafSegsEntries ((k, v) :: rest)
          = (leafSegs v).map (fun pv => (Seg.key k :: pv.1, pv.2)) ++ leafSegsEntries rest := rfl
      rw [hl, leafView_append, List.map_append, leafEntries, leafEntries_spec cfg noattr hln rest path]
      congr 1
      by_cases hattr : (noattr && isAttrKey cfg k) = true
      · simp only [Bool.and_eq_true] at hattr
        obtain ⟨hna, hk⟩ := hattr
        subst hna
        simp only [Bool.true_and, hk, if_true]
        rw [leafView_attr cfg (Seg.key k) _ (by simpa [segIsAttr] using hk)]
        rfl
      · simp only [hattr, Bool.false_eq_true, if_false]
        rw [leafView_cons cfg noattr path (Seg.key k) (leafSegs v)
          (fun hna => by
            subst hna
            simpa [segIsAttr] using hattr)
          (fun _ i e => by cases e)]
        exact getLeafNodes_spec cfg noattr hln v path k
theorem leafList_spec (cfg : LeafCfg) (noattr : Bool)
    (hln : noattr = true → ∀ i, listNode cfg i ≠ cfg.textK) :
    ∀ (xs : List Val) (path : Str) (i : Nat),
      leafList cfg noattr path i xs
        = (leafView cfg noattr (leafSegsList i xs)).map
            (fun pv => (⟨renderSegs cfg path pv.1, pv.2⟩ : Leaf))
  | [], path, i => by simp [leafList, leafSegsList, leafView_nil]
  | x :: xs, path, i => by
      have hl : leafSegsList i (x :: xs)
          = (leafSegs x).map (fun pv => (Seg.idx i :: pv.1, pv.2)) ++ leafSegsList (i + 1) xs := rfl
      rw [hl, leafView_append, List.map_append, leafList, leafList_spec cfg noattr hln xs path (i + 1)]
      congr 1
      rw [leafView_cons cfg noattr path (Seg.idx i) (leafSegs x)
        (fun _ => rfl)
        (fun hna j e => by cases e; exact hln hna _)]
      exact getLeafNodes_spec cfg noattr hln x path (listNode cfg i)
end

theorem leafPath_root (cfg : LeafCfg) (noattr : Bool) : leafPath cfg noattr [] [] = [] := by
  unfold leafPath; split <;> simp

theorem leafNodes_spec (cfg : LeafCfg) (noattr : Bool)
    (hln : noattr = true → ∀ i, listNode cfg i ≠ cfg.textK) (m : Val) :
    leafNodes cfg noattr m
      = (leafView cfg noattr (leafSegs m)).map
          (fun pv => (⟨renderSegs cfg [] pv.1, pv.2⟩ : Leaf)) := by
  unfold leafNodes
  rw [getLeafNodes_spec cfg noattr hln m [] [], leafPath_root]

mutual
theorem leafSegs_values : ∀ v : Val, (leafSegs v).map (·.2) = scalars v
  | .map kvs => by simp only [leafSegs, scalars]; exact leafSegsEntries_values kvs
  | .list xs => by simp only [leafSegs, scalars]; exact leafSegsList_values 0 xs
  | .null => by simp [leafSegs, scalars]
  | .bool _ => by simp [leafSegs, scalars]
  | .num _ => by simp [leafSegs, scalars]
  | .str _ => by simp [leafSegs, scalars]
theorem leafSegsEntries_values : ∀ kvs : Entries, (leafSegsEntries kvs).map (·.2) = scalarsEntries kvs
  | [] => by simp [leafSegsEntries, scalarsEntries]
  | (k, v) :: rest => by
      have hl : leafSegsEntries ((k, v) :: rest)
          = (leafSegs v).map (fun pv => (Seg.key k :: pv.1, pv.2)) ++ leafSegsEntries rest := rfl
      rw [hl, List.map_append, List.map_map, scalarsEntries, leafSegsEntries_values rest,
        ← leafSegs_values v]
      rfl
theorem leafSegsList_values : ∀ (i : Nat) (xs : List Val),
    (leafSegsList i xs).map (·.2) = scalarsList xs
  | _, [] => by simp [leafSegsList, scalarsList]
  | i, x :: xs => by
      have hl : leafSegsList i (x :: xs)
          = (leafSegs x).map (fun pv => (Seg.idx i :: pv.1, pv.2)) ++ leafSegsList (i + 1) xs := rfl
      rw [hl, List.map_append, List.map_map, scalarsList, leafSegsList_values (i + 1) xs,
        ← leafSegs_values x]
      rfl
end

/-! ## Part B — rendered leaf paths parse back and resolve -/
open KeySpec

/-! ### segments to parsed keys -/

/-- the parsed keys a segment path stands for (Maps with no list directly inside a list):
    a key immediately followed by an index is one indexed key, any other key is a plain key.
    (An index not preceded by a key — impossible below a Map without nested lists — is given
    the empty name.) -/
def segKeys : List Seg → List Key
  | [] => []
  | .key k :: .idx i :: rest => ⟨k, true, i⟩ :: segKeys rest
  | .key k :: rest => ⟨k, false, 0⟩ :: segKeys rest
  | .idx i :: rest => ⟨[], true, i⟩ :: segKeys rest

/-- the dot-separated pieces of the bracket-notation rendering -/
def segStrs : List Seg → List Str
  | [] => []
  | .key k :: .idx i :: rest => (k ++ '[' :: (natToStr i ++ [']'])) :: segStrs rest
  | .key k :: rest => k :: segStrs rest
  | .idx i :: rest => ('[' :: (natToStr i ++ [']'])) :: segStrs rest

/-- segment paths the resolution clause speaks about: every index directly follows a key, keys
    are path-safe, indices fit an int32 -/
def segsOk : List Seg → Bool
  | [] => true
  | .key k :: .idx i :: rest => keySafe k && decide (i ≤ 2147483647) && segsOk rest
  | .key k :: rest => keySafe k && segsOk rest
  | .idx _ :: _ => false

mutual
/-- every list has at most 2^31 members, i.e. every index that occurs is ≤ 2147483647 and
    survives `strconv.ParseInt(·, 10, 32)` -/
def listsFit : Val → Bool
  | .list xs => decide (xs.length ≤ 2147483648) && listsFitL xs
  | .map kvs => listsFitE kvs
  | _ => true
def listsFitL : List Val → Bool
  | [] => true
  | x :: xs => listsFit x && listsFitL xs
def listsFitE : Entries → Bool
  | [] => true
  | (_, v) :: rest => listsFit v && listsFitE rest
end

theorem keySafe_iff (k : Str) : keySafe k = true ↔ k ≠ [] ∧ '.' ∉ k ∧ '[' ∉ k ∧ '*' ∉ k := by
  unfold keySafe; cases k <;> simp [and_assoc]

theorem hasPrefix_bracket_of_not_mem (k : Str) (h : '[' ∉ k) : hasPrefix ['['] k = false := by
  cases k with
  | nil => simp [hasPrefix, List.isPrefixOf]
  | cons c cs =>
    have hb : (('[' : Char) == c) = false := by
      simp only [beq_eq_false_iff_ne, ne_eq]; intro e; apply h; subst e; simp
    simp [hasPrefix, List.isPrefixOf, hb]

/-! ### split / join -/

theorem lf_splitGo_nil (d : Char) (acc : Str) : splitGo [d] [] 0 acc = [acc.reverse] := by
  simp [splitGo]

theorem lf_splitGo_sep (d : Char) (cs acc : Str) :
    splitGo [d] (d :: cs) 0 acc = acc.reverse :: splitGo [d] cs 0 [] := by
  simp [splitGo]

theorem lf_splitGo_ne (d c : Char) (cs acc : Str) (h : c ≠ d) :
    splitGo [d] (c :: cs) 0 acc = splitGo [d] cs 0 (c :: acc) := by
  have : ¬ d = c := fun e => h e.symm
  simp [splitGo, this]

theorem lf_chunk_end (d : Char) : ∀ (x acc : Str), d ∉ x →
    splitGo [d] x 0 acc = [acc.reverse ++ x] := by
  intro x
  induction x with
  | nil => intro acc _; simp [lf_splitGo_nil]
  | cons c cs ih =>
    intro acc h
    have hc : c ≠ d := fun e => h (by simp [e])
    have hcs : d ∉ cs := fun e => h (by simp [e])
    rw [lf_splitGo_ne d c cs acc hc, ih _ hcs]
    simp

theorem lf_chunk_sep (d : Char) : ∀ (x r acc : Str), d ∉ x →
    splitGo [d] (x ++ d :: r) 0 acc = (acc.reverse ++ x) :: splitGo [d] r 0 [] := by
  intro x
  induction x with
  | nil => intro r acc _; simp [lf_splitGo_sep]
  | cons c cs ih =>
    intro r acc h
    have hc : c ≠ d := fun e => h (by simp [e])
    have hcs : d ∉ cs := fun e => h (by simp [e])
    rw [List.cons_append, lf_splitGo_ne d c _ acc hc, ih _ _ hcs]
    simp

/-- splitting a joined list of separator-free pieces gives the pieces back -/
theorem lf_splitOn_joinWith (d : Char) : ∀ (xs : List Str), xs ≠ [] → (∀ x ∈ xs, d ∉ x) →
    splitOn [d] (joinWith [d] xs) = xs := by
  intro xs
  induction xs with
  | nil => intro h; exact absurd rfl h
  | cons x rest ih =>
    intro _ hall
    cases rest with
    | nil =>
      simp only [joinWith, splitOn]
      rw [lf_chunk_end d x [] (hall x (by simp))]; simp
    | cons y rest' =>
      simp only [joinWith, splitOn]
      have := ih (by simp) (fun z hz => hall z (by simp [hz]))
      simp only [splitOn] at this
      rw [List.append_assoc, List.singleton_append, lf_chunk_sep d x _ [] (hall x (by simp)), this]
      simp

/-- the way `getLeafNodes` accumulates a path: a "." only when something is already there -/
def joinAcc : Str → List Str → Str
  | acc, [] => acc
  | acc, s :: ss => joinAcc ((if acc.isEmpty then acc else acc ++ ['.']) ++ s) ss

theorem joinWith_head (a s : Str) (ss : List Str) :
    joinWith ['.'] ((a ++ ['.'] ++ s) :: ss) = a ++ ['.'] ++ joinWith ['.'] (s :: ss) := by
  cases ss <;> simp [joinWith, List.append_assoc]

theorem joinAcc_ne (ss : List Str) : ∀ acc : Str, acc ≠ [] →
    joinAcc acc ss = joinWith ['.'] (acc :: ss) := by
  induction ss with
  | nil => intro acc _; simp [joinAcc, joinWith]
  | cons s ss ih =>
    intro acc h
    have he : acc.isEmpty = false := by cases acc <;> simp_all
    simp only [joinAcc, he, Bool.false_eq_true, if_false]
    rw [ih _ (by cases acc <;> simp_all), joinWith_head]
    simp [joinWith]

theorem joinAcc_nil (ss : List Str) (h : ∀ s ∈ ss, s ≠ []) : joinAcc [] ss = joinDot ss := by
  cases ss with
  | nil => rfl
  | cons s ss =>
    simp only [joinAcc, List.isEmpty_nil, if_true, List.nil_append]
    exact joinAcc_ne ss s (h s (by simp))

/-! ### `strconv.ParseInt` on a rendered index -/

theorem digitsVal_eq (ds : Str) : ∀ acc : Nat, digitsVal ds acc = Nat.ofDigitChars 10 ds acc := by
  induction ds with
  | nil => intro acc; simp [digitsVal]
  | cons c cs ih =>
    intro acc
    rw [digitsVal, ih, Nat.ofDigitChars_cons, Nat.mul_comm]

theorem digitsVal_natToStr (i : Nat) : digitsVal (natToStr i) 0 = i := by
  rw [digitsVal_eq, natToStr_eq]; exact Nat.ofDigitChars_ten_toDigits

/-- on a non-empty all-digit string `parseInt32` is the value, subject to the int32 range check -/
theorem parseInt32_digits (ds : Str) (hne : ds ≠ []) (hall : ds.all isDigit = true) :
    parseInt32 ds
      = if digitsVal ds 0 ≤ 2147483647 then some (digitsVal ds 0 : Int) else none := by
  cases ds with
  | nil => exact absurd rfl hne
  | cons c cs =>
    have hc : isDigit c = true := by
      simp only [List.all_cons, Bool.and_eq_true] at hall; exact hall.1
    have hm : c ≠ '-' := isDigit_ne c '-' hc (by decide)
    have hp : c ≠ '+' := isDigit_ne c '+' hc (by decide)
    unfold parseInt32
    split
    · rename_i neg ds' heq
      split at heq
      · rename_i r hr; injection hr with h1 _; exact absurd h1 hm
      · rename_i r hr; injection hr with h1 _; exact absurd h1 hp
      · injection heq with h1 h2
        subst h1; subst h2
        simp [hall]

/-- the range check of `ParseInt(·, 10, 32)` forces the bound: exactly the indices up to
    2147483647 parse back -/
theorem parseInt32_natToStr (i : Nat) :
    parseInt32 (natToStr i) = if i ≤ 2147483647 then some (i : Int) else none := by
  rw [parseInt32_digits _ (natToStr_ne_nil i) (natToStr_all i), digitsVal_natToStr]

/-! ### `parseSeg` on the two kinds of rendered piece -/

theorem parseSeg_plain (k : Str) (h : '[' ∉ k) : parseSeg k = .ok ⟨k, false, 0⟩ := by
  unfold parseSeg
  simp [h]

theorem parseSeg_idx (k ds : Str) (n : Nat) (hk : '[' ∉ k) (h1 : '[' ∉ ds) (h2 : ']' ∉ ds)
    (hne : ds ≠ []) (hp : parseInt32 ds = some (n : Int)) :
    parseSeg (k ++ '[' :: (ds ++ [']'])) = .ok ⟨k, true, n⟩ := by
  unfold parseSeg
  have hs1 : splitOn ['['] (k ++ '[' :: (ds ++ [']'])) = [k, ds ++ [']']] := by
    unfold splitOn
    rw [lf_chunk_sep '[' k _ [] hk, lf_chunk_end '[' (ds ++ [']']) []
      (by simp only [List.mem_append, List.mem_singleton, not_or]; exact ⟨h1, by decide⟩)]
    simp
  have hs2 : splitOn [']'] (ds ++ [']']) = [ds, []] := by
    unfold splitOn
    rw [lf_chunk_sep ']' ds [] [] h2, lf_splitGo_nil]
    simp
  have he : ds.isEmpty = false := by cases ds <;> simp_all
  simp [hs1, hs2, he, hp]

theorem parseSeg_natIdx (k : Str) (i : Nat) (hk : '[' ∉ k) (hi : i ≤ 2147483647) :
    parseSeg (k ++ '[' :: (natToStr i ++ [']'])) = .ok ⟨k, true, i⟩ := by
  refine parseSeg_idx k (natToStr i) i hk ?_ ?_ (natToStr_ne_nil i) ?_
  · intro h; exact isDigit_ne _ '[' (natToStr_isDigit i _ h) (by decide) rfl
  · intro h; exact isDigit_ne _ ']' (natToStr_isDigit i _ h) (by decide) rfl
  · rw [parseInt32_natToStr]; simp [hi]

/-! ### rendering, piece-wise -/

theorem segKeys_key_other (k : Str) (p : List Seg) (h : ∀ i r, p = Seg.idx i :: r → False) :
    segKeys (.key k :: p) = ⟨k, false, 0⟩ :: segKeys p := segKeys.eq_3 k p h
theorem segStrs_key_other (k : Str) (p : List Seg) (h : ∀ i r, p = Seg.idx i :: r → False) :
    segStrs (.key k :: p) = k :: segStrs p := segStrs.eq_3 k p h
theorem segsOk_key_other (k : Str) (p : List Seg) (h : ∀ i r, p = Seg.idx i :: r → False) :
    segsOk (.key k :: p) = (keySafe k && segsOk p) := segsOk.eq_3 k p h

theorem renderSegs_joinAcc (cfg : LeafCfg) (hdot : cfg.useDot = false) :
    ∀ p : List Seg, segsOk p = true → ∀ acc : Str,
      renderSegs cfg acc p = joinAcc acc (segStrs p) := by
  intro p
  induction p using segsOk.induct with
  | case1 => intro _ acc; simp [renderSegs, segStrs, joinAcc]
  | case2 k i rest ih =>
    intro h acc
    simp only [segsOk, Bool.and_eq_true] at h
    obtain ⟨⟨hk, _⟩, hr⟩ := h
    have hb := hasPrefix_bracket_of_not_mem k ((keySafe_iff k).1 hk).2.2.1
    simp only [renderSegs, segStrs, joinAcc, hb, hdot, listNode, Bool.not_false, Bool.and_true,
      Bool.and_false, Bool.false_eq_true, if_false]
    rw [ih hr]
    congr 1
    cases acc <;> simp
  | case3 k rest hno ih =>
    intro h acc
    rw [segsOk_key_other k rest hno, Bool.and_eq_true] at h
    obtain ⟨hk, hr⟩ := h
    have hb := hasPrefix_bracket_of_not_mem k ((keySafe_iff k).1 hk).2.2.1
    rw [segStrs_key_other k rest hno]
    simp only [renderSegs, joinAcc, hb, Bool.not_false, Bool.and_true]
    rw [ih hr]
    congr 1
    cases acc <;> simp
  | case4 i rest => intro h; simp [segsOk] at h

theorem segStrs_ok : ∀ p : List Seg, segsOk p = true → ∀ s ∈ segStrs p, s ≠ [] ∧ '.' ∉ s := by
  intro p
  induction p using segsOk.induct with
  | case1 => intro _ s hs; simp [segStrs] at hs
  | case2 k i rest ih =>
    intro h s hs
    simp only [segsOk, Bool.and_eq_true] at h
    obtain ⟨⟨hk, _⟩, hr⟩ := h
    obtain ⟨hne, hd, _, _⟩ := (keySafe_iff k).1 hk
    simp only [segStrs, List.mem_cons] at hs
    rcases hs with e | hs
    · subst e
      refine ⟨by cases k <;> simp_all, ?_⟩
      simp only [List.mem_append, List.mem_cons, List.not_mem_nil, or_false, not_or]
      refine ⟨hd, by decide, ?_, by decide⟩
      intro hm; exact isDigit_ne _ '.' (natToStr_isDigit i _ hm) (by decide) rfl
    · exact ih hr s hs
  | case3 k rest hno ih =>
    intro h s hs
    rw [segsOk_key_other k rest hno, Bool.and_eq_true] at h
    obtain ⟨hk, hr⟩ := h
    obtain ⟨hne, hd, _, _⟩ := (keySafe_iff k).1 hk
    rw [segStrs_key_other k rest hno, List.mem_cons] at hs
    rcases hs with e | hs
    · subst e; exact ⟨hne, hd⟩
    · exact ih hr s hs
  | case4 i rest => intro h; simp [segsOk] at h

theorem parsePathSegs_segStrs : ∀ p : List Seg, segsOk p = true →
    parsePathSegs (segStrs p) = .ok (segKeys p) := by
  intro p
  induction p using segsOk.induct with
  | case1 => intro _; simp [segStrs, segKeys, parsePathSegs]
  | case2 k i rest ih =>
    intro h
    simp only [segsOk, Bool.and_eq_true, decide_eq_true_eq] at h
    obtain ⟨⟨hk, hi⟩, hr⟩ := h
    obtain ⟨hne, _, hb, _⟩ := (keySafe_iff k).1 hk
    have he : (k ++ '[' :: (natToStr i ++ [']'])).isEmpty = false := by cases k <;> simp_all
    simp only [segStrs, segKeys, parsePathSegs, he, Bool.false_eq_true, if_false,
      parseSeg_natIdx k i hb hi, ih hr]
  | case3 k rest hno ih =>
    intro h
    rw [segsOk_key_other k rest hno, Bool.and_eq_true] at h
    obtain ⟨hk, hr⟩ := h
    obtain ⟨hne, _, hb, _⟩ := (keySafe_iff k).1 hk
    have he : k.isEmpty = false := by cases k <;> simp_all
    rw [segStrs_key_other k rest hno, segKeys_key_other k rest hno]
    simp only [parsePathSegs, he, Bool.false_eq_true, if_false, parseSeg_plain k hb, ih hr]
  | case4 i rest => intro h; simp [segsOk] at h

/-- the parse half: a bracket-notation rendering of an admissible segment path parses back to
    its keys -/
theorem parsePath_renderSegs (cfg : LeafCfg) (hdot : cfg.useDot = false) (p : List Seg)
    (h : segsOk p = true) : parsePath (renderSegs cfg [] p) = .ok (segKeys p) := by
  rw [renderSegs_joinAcc cfg hdot p h, joinAcc_nil _ (fun s hs => (segStrs_ok p h s hs).1)]
  unfold parsePath splitDot joinDot
  by_cases hnil : segStrs p = []
  · have hp : p = [] := by
      cases p with
      | nil => rfl
      | cons s r =>
        exfalso
        cases s with
        | idx i => simp [segsOk] at h
        | key k =>
          cases r with
          | nil => simp [segStrs] at hnil
          | cons s' r' => cases s' <;> simp [segStrs] at hnil
    subst hp
    simp [segStrs, joinWith, splitOn, splitGo, parsePathSegs, segKeys]
  · rw [lf_splitOn_joinWith '.' _ hnil (fun s hs => (segStrs_ok p h s hs).2)]
    exact parsePathSegs_segStrs p h

/-! ### sub-values of an admissible Map -/

/-- the domain of the resolution clause -/
structure Good (v : Val) : Prop where
  safe : pathSafe v = true
  noLL : Denote.noListInList v = true
  wf : v.wf = true
  fit : listsFit v = true

theorem lookup_of_mem : ∀ (kvs : Entries) (k : Str) (w : Val), distinctKeys kvs = true →
    (k, w) ∈ kvs → lookup k kvs = some w
  | [], _, _, _, h => by simp at h
  | (k', v') :: rest, k, w, hd, h => by
      simp only [distinctKeys, Bool.and_eq_true, Bool.not_eq_true', List.any_eq_false,
        beq_iff_eq] at hd
      rcases List.mem_cons.1 h with e | e
      · injection e with e1 e2; subst e1; subst e2; simp [lookup]
      · have hne : ¬ k = k' := by
          intro e'; subst e'; exact hd.1 (k, w) e rfl
        simp only [lookup, hne, if_false]
        exact lookup_of_mem rest k w hd.2 e

theorem entries_sub : ∀ (kvs : Entries) (k : Str) (w : Val), pathSafeEntries kvs = true →
    Denote.noLL_entries kvs = true → Val.wfEntries kvs = true → listsFitE kvs = true →
    (k, w) ∈ kvs → keySafe k = true ∧ Good w
  | [], _, _, _, _, _, _, h => by simp at h
  | (k', v') :: rest, k, w, h1, h2, h3, h4, h => by
      simp only [pathSafeEntries, Bool.and_eq_true] at h1
      simp only [Denote.noLL_entries, Bool.and_eq_true] at h2
      simp only [Val.wfEntries, Bool.and_eq_true] at h3
      simp only [listsFitE, Bool.and_eq_true] at h4
      rcases List.mem_cons.1 h with e | e
      · injection e with e1 e2; subst e1; subst e2
        exact ⟨h1.1.1, ⟨h1.1.2, h2.1, h3.1, h4.1⟩⟩
      · exact entries_sub rest k w h1.2 h2.2 h3.2 h4.2 e

theorem good_entry (kvs : Entries) (k : Str) (w : Val) (hg : Good (.map kvs)) (h : (k, w) ∈ kvs) :
    keySafe k = true ∧ Good w ∧ lookup k kvs = some w := by
  obtain ⟨h1, h2, h3, h4⟩ := hg
  simp only [pathSafe] at h1
  simp only [Denote.noListInList] at h2
  simp only [Val.wf, Bool.and_eq_true] at h3
  simp only [listsFit] at h4
  obtain ⟨hk, hw⟩ := entries_sub kvs k w h1 h2 h3.1 h4 h
  exact ⟨hk, hw, lookup_of_mem kvs k w h3.2 h⟩

theorem noLL_members_cons (x : Val) (xs : List Val) (h : Denote.noLL_members (x :: xs) = true) :
    x.isList = false ∧ Denote.noListInList x = true ∧ Denote.noLL_members xs = true := by
  cases x <;> simp_all [Denote.noLL_members, Val.isList]

theorem members_sub : ∀ (xs : List Val) (j : Nat) (y : Val), pathSafeList xs = true →
    Denote.noLL_members xs = true → Val.wfList xs = true → listsFitL xs = true →
    xs[j]? = some y → Good y ∧ y.isList = false
  | [], _, _, _, _, _, _, h => by simp at h
  | x :: xs, j, y, h1, h2, h3, h4, h => by
      simp only [pathSafeList, Bool.and_eq_true] at h1
      obtain ⟨hx, h2a, h2b⟩ := noLL_members_cons x xs h2
      simp only [Val.wfList, Bool.and_eq_true] at h3
      simp only [listsFitL, Bool.and_eq_true] at h4
      cases j with
      | zero =>
        simp only [List.getElem?_cons_zero, Option.some.injEq] at h
        subst h
        exact ⟨⟨h1.1, h2a, h3.1, h4.1⟩, hx⟩
      | succ j =>
        simp only [List.getElem?_cons_succ] at h
        exact members_sub xs j y h1.2 h2b h3.2 h4.2 h

theorem good_member (xs : List Val) (j : Nat) (y : Val) (hg : Good (.list xs))
    (h : xs[j]? = some y) : Good y ∧ y.isList = false ∧ j ≤ 2147483647 := by
  obtain ⟨h1, h2, h3, h4⟩ := hg
  simp only [pathSafe] at h1
  simp only [Denote.noListInList] at h2
  simp only [Val.wf] at h3
  simp only [listsFit, Bool.and_eq_true, decide_eq_true_eq] at h4
  obtain ⟨hy, hl⟩ := members_sub xs j y h1 h2 h3 h4.2 h
  have hj : j < xs.length := by
    rcases Nat.lt_or_ge j xs.length with hlt | hge
    · exact hlt
    · rw [List.getElem?_eq_none hge] at h; cases h
  exact ⟨hy, hl, by omega⟩

/-! ### inversion of `leafSegs` membership -/

theorem mem_leafSegsEntries : ∀ (kvs : Entries) (p : List Seg) (x : Val),
    (p, x) ∈ leafSegsEntries kvs →
    ∃ k w p', (k, w) ∈ kvs ∧ p = Seg.key k :: p' ∧ (p', x) ∈ leafSegs w
  | [], _, _, h => by simp [leafSegsEntries] at h
  | (k, v) :: rest, p, x, h => by
      have hl : leafSegsEntries ((k, v) :: rest)
          = (leafSegs v).map (fun pv => (Seg.key k :: pv.1, pv.2)) ++ leafSegsEntries rest := rfl
      rw [hl, List.mem_append] at h
      rcases h with h | h
      · obtain ⟨pv, hpv, e⟩ := List.mem_map.1 h
        injection e with e1 e2
        subst e1; subst e2
        exact ⟨k, v, pv.1, by simp, rfl, hpv⟩
      · obtain ⟨k', w, p', hm, hp, hx⟩ := mem_leafSegsEntries rest p x h
        exact ⟨k', w, p', by simp [hm], hp, hx⟩

theorem mem_leafSegsList : ∀ (xs : List Val) (n : Nat) (p : List Seg) (x : Val),
    (p, x) ∈ leafSegsList n xs →
    ∃ j y p', xs[j]? = some y ∧ p = Seg.idx (n + j) :: p' ∧ (p', x) ∈ leafSegs y
  | [], _, _, _, h => by simp [leafSegsList] at h
  | x0 :: xs, n, p, x, h => by
      have hl : leafSegsList n (x0 :: xs)
          = (leafSegs x0).map (fun pv => (Seg.idx n :: pv.1, pv.2)) ++ leafSegsList (n + 1) xs := rfl
      rw [hl, List.mem_append] at h
      rcases h with h | h
      · obtain ⟨pv, hpv, e⟩ := List.mem_map.1 h
        injection e with e1 e2
        subst e1; subst e2
        exact ⟨0, x0, pv.1, by simp, rfl, hpv⟩
      · obtain ⟨j, y, p', hm, hp, hx⟩ := mem_leafSegsList xs (n + 1) p x h
        refine ⟨j + 1, y, p', by simpa using hm, ?_, hx⟩
        rw [hp]; congr 2; omega

/-- below a non-list value a segment path never starts with an index -/
theorem leafSegs_head_nonlist (w : Val) (hw : w.isList = false) (p : List Seg) (x : Val)
    (h : (p, x) ∈ leafSegs w) : ∀ i r, p = Seg.idx i :: r → False := by
  intro i r e
  cases w with
  | map kvs =>
    simp only [leafSegs] at h
    obtain ⟨k, w', p', _, hp, _⟩ := mem_leafSegsEntries kvs p x h
    rw [hp] at e; cases e
  | list xs => simp [Val.isList] at hw
  | null => simp [leafSegs] at h; rw [h.1] at e; cases e
  | bool _ => simp [leafSegs] at h; rw [h.1] at e; cases e
  | num _ => simp [leafSegs] at h; rw [h.1] at e; cases e
  | str _ => simp [leafSegs] at h; rw [h.1] at e; cases e

/-! ### frontier steps along a leaf path -/

theorem run_key_step (k : Str) (hk : k ≠ ['*']) (kvs : Entries) (w : Val) (rest : List Denote.Step)
    (hl : lookup k kvs = some w) :
    Denote.run (Denote.keyStep ⟨k, false, 0⟩ :: rest) [.map kvs] = Denote.run rest [w] := by
  simp [Denote.keyStep, Denote.plainStep, hk, Denote.run, Denote.stepKey, Denote.selKey, hl]

theorem run_idx_step (k : Str) (i : Nat) (kvs : Entries) (xs : List Val) (y : Val)
    (rest : List Denote.Step) (hl : lookup k kvs = some (.list xs)) (hy : xs[i]? = some y) :
    Denote.run (Denote.keyStep ⟨k, true, i⟩ :: rest) [.map kvs] = Denote.run rest [y] := by
  simp [Denote.keyStep, Denote.run, Denote.expand, Denote.pick, Denote.selKey, hl, hy]

theorem expand_nonlist (x : Val) (h : x.isList = false) : Denote.expand x = [x] := by
  cases x <;> simp_all [Denote.expand, Val.isList]

/-- along a leaf's segment path: the path is admissible, and the frontier semantics walks from
    the value to exactly that leaf -/
theorem resolve_core : ∀ (n : Nat) (p : List Seg) (v x : Val), p.length < n → Good v →
    v.isList = false → (p, x) ∈ leafSegs v →
    segsOk p = true ∧ Denote.run ((segKeys p).map Denote.keyStep) [v] = [x] ∧ x.isList = false := by
  intro n
  induction n with
  | zero => intro p v x h; omega
  | succ n ih =>
    intro p v x hlen hg hv h
    cases v with
    | list xs => simp [Val.isList] at hv
    | null => simp [leafSegs] at h; obtain ⟨hp, hx⟩ := h; subst hp; subst hx; simp [segsOk, segKeys, Denote.run, Val.isList]
    | bool _ => simp [leafSegs] at h; obtain ⟨hp, hx⟩ := h; subst hp; subst hx; simp [segsOk, segKeys, Denote.run, Val.isList]
    | num _ => simp [leafSegs] at h; obtain ⟨hp, hx⟩ := h; subst hp; subst hx; simp [segsOk, segKeys, Denote.run, Val.isList]
    | str _ => simp [leafSegs] at h; obtain ⟨hp, hx⟩ := h; subst hp; subst hx; simp [segsOk, segKeys, Denote.run, Val.isList]
    | map kvs =>
      simp only [leafSegs] at h
      obtain ⟨k, w, p', hm, hp, hx⟩ := mem_leafSegsEntries kvs p x h
      subst hp
      obtain ⟨hk, hgw, hl⟩ := good_entry kvs k w hg hm
      have hstar : k ≠ ['*'] := by
        intro e; have := ((keySafe_iff k).1 hk).2.2.2; rw [e] at this; simp at this
      simp only [List.length_cons] at hlen
      by_cases hwl : w.isList = true
      · cases w with
        | list xs =>
          simp only [leafSegs] at hx
          obtain ⟨j, y, p'', hy, hp', hx'⟩ := mem_leafSegsList xs 0 p' x hx
          rw [Nat.zero_add] at hp'
          subst hp'
          simp only [List.length_cons] at hlen
          obtain ⟨hgy, hyl, hj⟩ := good_member xs j y hgw hy
          obtain ⟨ih1, ih2, ih3⟩ := ih p'' y x (by omega) hgy hyl hx'
          refine ⟨?_, ?_, ih3⟩
          · simp [segsOk, hk, hj, ih1]
          · simp only [segKeys, List.map_cons]
            rw [run_idx_step k j kvs xs y _ hl hy]; exact ih2
        | _ => simp [Val.isList] at hwl
      · have hwl' : w.isList = false := by simpa using hwl
        have hno := leafSegs_head_nonlist w hwl' p' x hx
        obtain ⟨ih1, ih2, ih3⟩ := ih p' w x (by omega) hgw hwl' hx
        refine ⟨?_, ?_, ih3⟩
        · rw [segsOk_key_other k p' hno, hk, ih1]; rfl
        · rw [segKeys_key_other k p' hno, List.map_cons, run_key_step k hstar kvs w _ hl]
          exact ih2

/-- the resolution clause on segment paths -/
theorem leaf_resolves (cfg : LeafCfg) (hdot : cfg.useDot = false) (kvs : Entries)
    (hg : Good (.map kvs)) :
    ∀ pv ∈ leafSegs (.map kvs),
      parsePath (renderSegs cfg [] pv.1) = .ok (segKeys pv.1)
      ∧ Denote.path ((segKeys pv.1).map Denote.keyStep) (.map kvs) = [pv.2] := by
  intro pv hpv
  obtain ⟨h1, h2, h3⟩ := resolve_core (pv.1.length + 1) pv.1 (.map kvs) pv.2 (by omega) hg rfl hpv
  refine ⟨parsePath_renderSegs cfg hdot pv.1 h1, ?_⟩
  unfold Denote.path
  simp only [h2]
  split
  · rfl
  · simp [expand_nonlist pv.2 h3]

/-! ### up to the specification `Denote.valuesForPath` -/

theorem lf_dropTrailingEmpty_id (xs : List Str) (h : ∀ x ∈ xs, x ≠ []) :
    dropTrailingEmpty xs = xs := by
  unfold dropTrailingEmpty
  cases hl : xs.getLast? with
  | none => rfl
  | some l =>
    have := List.mem_of_getLast? hl
    cases l with
    | nil => exact absurd rfl (h _ this)
    | cons _ _ => rfl

theorem mem_joinWith (sep : Str) : ∀ (ss : List Str) (s : Str) (c : Char), s ∈ ss → c ∈ s →
    c ∈ joinWith sep ss := by
  intro ss
  induction ss with
  | nil => intro s c h; simp at h
  | cons x rest ih =>
    intro s c hs hc
    cases rest with
    | nil =>
      simp only [List.mem_singleton] at hs
      subst hs; simpa [joinWith] using hc
    | cons y r =>
      simp only [joinWith, List.mem_append]
      rcases List.mem_cons.1 hs with e | e
      · subst e; exact Or.inl (Or.inl hc)
      · exact Or.inr (ih s c e hc)

/-- without any index the pieces are plain keys -/
theorem segs_plain : ∀ p : List Seg, segsOk p = true → (∀ s ∈ segStrs p, '[' ∉ s) →
    (segStrs p).map Denote.plainStep = (segKeys p).map Denote.keyStep := by
  intro p
  induction p using segsOk.induct with
  | case1 => intro _ _; simp [segStrs, segKeys]
  | case2 k i rest ih =>
    intro _ hall
    exact absurd (by simp) (hall (k ++ '[' :: (natToStr i ++ [']'])) (by simp [segStrs]))
  | case3 k rest hno ih =>
    intro h hall
    rw [segsOk_key_other k rest hno, Bool.and_eq_true] at h
    rw [segStrs_key_other k rest hno] at hall ⊢
    rw [segKeys_key_other k rest hno, List.map_cons, List.map_cons,
      ih h.2 (fun s hs => hall s (by simp [hs]))]
    rfl
  | case4 i rest => intro h; simp [segsOk] at h

theorem segKeys_idxOk : ∀ p : List Seg, segsOk p = true →
    (segKeys p).all Denote.idxOk = true := by
  intro p
  induction p using segsOk.induct with
  | case1 => intro _; simp [segKeys]
  | case2 k i rest ih =>
    intro h
    simp only [segsOk, Bool.and_eq_true] at h
    obtain ⟨⟨hk, _⟩, hr⟩ := h
    obtain ⟨hne, _, _, hs⟩ := (keySafe_iff k).1 hk
    have hstar : k ≠ ['*'] := by intro e; rw [e] at hs; simp at hs
    have he : k.isEmpty = false := by cases k <;> simp_all
    simp [segKeys, Denote.idxOk, hstar, he, ih hr]
  | case3 k rest hno ih =>
    intro h
    rw [segsOk_key_other k rest hno, Bool.and_eq_true] at h
    rw [segKeys_key_other k rest hno]
    simp [Denote.idxOk, ih h.2]
  | case4 i rest => intro h; simp [segsOk] at h

/-- every leaf path of an admissible Map is in the domain of the C07 specification of
    `ValuesForPath`, which yields exactly the one leaf value -/
theorem leaf_resolves_spec (cfg : LeafCfg) (hdot : cfg.useDot = false) (kvs : Entries)
    (hg : Good (.map kvs)) (sep : Str) (pf : Str → Option Str) :
    ∀ pv ∈ leafSegs (.map kvs),
      Denote.valuesForPath sep pf (.map kvs) (renderSegs cfg [] pv.1) [] = some [pv.2] := by
  intro pv hpv
  obtain ⟨hok, _, _⟩ := resolve_core (pv.1.length + 1) pv.1 (.map kvs) pv.2 (by omega) hg rfl hpv
  obtain ⟨hparse, hpath⟩ := leaf_resolves cfg hdot kvs hg pv hpv
  have hsub : subKeyArg sep pf [] = .ok none := by simp [subKeyArg]
  unfold Denote.valuesForPath
  simp only [hsub]
  cases hc : (renderSegs cfg [] pv.1).contains '[' with
  | true =>
    simp only [Bool.not_true, Bool.false_eq_true, if_false, hparse, segKeys_idxOk pv.1 hok, hg.noLL,
      Bool.and_self, if_true, Denote.subFilter, hpath]
  | false =>
    simp only [Bool.not_false, if_true, Denote.subFilter]
    have hne : segStrs pv.1 ≠ [] := by
      simp only [leafSegs] at hpv
      obtain ⟨k, w, p', _, hp, _⟩ := mem_leafSegsEntries kvs pv.1 pv.2 hpv
      rw [hp]
      cases p' with
      | nil => simp [segStrs]
      | cons s r => cases s <;> simp [segStrs]
    have hr : renderSegs cfg [] pv.1 = joinDot (segStrs pv.1) := by
      rw [renderSegs_joinAcc cfg hdot pv.1 hok,
        joinAcc_nil _ (fun s hs => (segStrs_ok pv.1 hok s hs).1)]
    rw [hr] at hc ⊢
    have hnb : ∀ s ∈ segStrs pv.1, '[' ∉ s := by
      intro s hs hm
      have := mem_joinWith ['.'] (segStrs pv.1) s '[' hs hm
      have hc' : '[' ∉ joinDot (segStrs pv.1) := by simpa using hc
      exact hc' this
    have hk : pathKeys (joinDot (segStrs pv.1)) = segStrs pv.1 := by
      unfold pathKeys splitDot joinDot
      rw [lf_splitOn_joinWith '.' _ hne (fun s hs => (segStrs_ok pv.1 hok s hs).2)]
      exact lf_dropTrailingEmpty_id _ (fun s hs => (segStrs_ok pv.1 hok s hs).1)
    rw [hk, segs_plain pv.1 hok hnb, hpath]

/-! ### the example used for non-vacuity in Mxj.Props.C09 -/

/-- `{"doc": {"-x": "1", "#text": "hi", "it": [{"a": 1}, {"a": 2, "-y": true}]}}` -/
def leafExMap : Entries :=
  [(['d','o','c'], .map
    [(['-','x'], .str ['1']),
     (['#','t','e','x','t'], .str ['h','i']),
     (['i','t'], .list
        [.map [(['a'], .num ['i',':','1'])],
         .map [(['a'], .num ['i',':','2']), (['-','y'], .bool true)]])])]

def leafExCfg : LeafCfg := ⟨['-'], ['#','t','e','x','t'], false⟩

end Mxj
