/-
  Mxj.Lemmas.TokenizerCat — the tokenizer model (`Model/Tokenizer.lean`) is COMPOSITIONAL over
  concatenation at token boundaries (this discharges the "tokens of the concatenated bytes are the
  concatenated tokens" half of the formerly trusted law TB-XML-stop of C13/C19):

    * `Cat b toks`: whatever tokenizable input follows the bytes `b`, the tokens of the whole are
      `toks` followed by the tokens of what follows (so lexing `b` looks at nothing behind it);
    * `cat_render_raw` / `cat_render_esc`: the rendering of an element document is `Cat` with its
      flattening (from the continuation-style induction `tokF_node`);
    * `cat_sep_doc`: a white-space separator in front of a document;
    * `tokenize_fileBytes`: a file of documents with white-space separators and a white-space
      trailer tokenizes to `Files.fileToks` of the documents (induction on the list);
    * `tokenize_xmlDocs(_then)`: the same for encoder renderings (escaping on), and
      `Files.xmlString`, the transcription of `Maps.XmlString`.
  `step` exposes the unread input and `tokF` is by definition the iteration of `step`; `Cat`
  quantifies over every tokenizable continuation, which is the model form of "no read beyond the
  end tag".
-/
import Mxj.Lemmas.Tokenizer
import Mxj.Lemmas.FilesXml
namespace Mxj.Tokz
open Mxj Mxj.Enc Mxj.EscDec Mxj.Files

/-! ### `Cat`: bytes whose tokens do not depend on what follows -/

/-- the tokens of `b ++ rest` are `toks` followed by the tokens of `rest`, for every `rest` the
    tokenizer accepts -/
def Cat (b : Str) (toks : List Tok) : Prop :=
  ∀ (rest : Str) (ts : List Tok), tokenize rest = some ts → tokenize (b ++ rest) = some (toks ++ ts)

theorem cat_nil : Cat [] [] := fun _ _ h => by simpa using h

theorem cat_append {a b : Str} {x y : List Tok} (ha : Cat a x) (hb : Cat b y) :
    Cat (a ++ b) (x ++ y) := by
  intro rest ts h
  have := ha _ _ (hb rest ts h)
  simpa [List.append_assoc] using this

theorem cat_tokenize {b : Str} {toks : List Tok} (h : Cat b toks) : tokenize b = some toks := by
  have := h [] [] rfl
  simpa using this

/-- from the continuation form with explicit fuel -/
theorem cat_of_tokF {b : Str} {toks : List Tok}
    (h : ∀ (rest : Str) (f : Nat) (ts : List Tok), tokF f rest = some ts →
      ∃ g, tokF g (b ++ rest) = some (toks ++ ts)) : Cat b toks := by
  intro rest ts ht
  obtain ⟨g, hg⟩ := h rest _ ts ht
  exact tokenize_of_tokF g _ _ hg

/-! ### documents -/

theorem isText_of_isElem {n : Node} (h : Files.isElem n = true) : isTextNode n = false := by
  cases n <;> simp [Files.isElem, isTextNode] at h ⊢

/-- an element document written with escaping off (raw values that denote `n'`) -/
theorem cat_render_raw (cfg : EncCfg) (hesc : cfg.escape = false) (n n' : Node)
    (hv : rawView n = some n') (hs : rawSafe n = true) (hW : WellNamed n' = true)
    (he : Files.isElem n = true) : Cat (render cfg n) (flatten n') := by
  apply cat_of_tokF
  intro rest f ts ht
  have hw := hW
  unfold WellNamed at hw
  simp only [Bool.and_eq_true] at hw
  exact ⟨_, tokF_node cfg hesc n n' rest f ts hv (valsOk_node n n' hv hs hw.1) hw.1 hw.2
    (fun h => by simp [isText_of_isElem he] at h) ht⟩

theorem isElem_mapNode (f : Str → Str) {n : Node} (h : Files.isElem n = true) :
    Files.isElem (mapNode f n) = true := by
  cases n <;> simp [Files.isElem, mapNode] at h ⊢

/-- an element document written with escaping on: every well-named tree -/
theorem cat_render_esc (cfg : EncCfg) (hesc : cfg.escape = true) (n : Node)
    (hW : WellNamed n = true) (he : Files.isElem n = true) : Cat (render cfg n) (flatten n) := by
  have hcfg : escOn (escOff cfg) = cfg := by
    cases cfg
    simp only [escOn, escOff] at hesc ⊢
    simp only [hesc]
  have hr := render_mapNode_escape (escOff cfg) rfl n
  rw [hcfg] at hr
  rw [← hr]
  exact cat_render_raw (escOff cfg) rfl _ n (rawView_mapNode_escape n) (rawSafe_mapNode_escape n)
    hW (isElem_mapNode _ he)

theorem render_elem_lt (cfg : EncCfg) {n : Node} (he : Files.isElem n = true) :
    ∃ r, render cfg n = '<' :: r := by
  cases n with
  | elem sp name attrs kids => exact ⟨_, by simp [render]; rfl⟩
  | _ => simp [Files.isElem] at he

/-! ### white-space separators -/

/-- the white space a writer (or a user) puts between documents -/
def isWs (c : Char) : Bool := c = ' ' || c = '\n' || c = '\t'
def wsOk (s : Str) : Bool := s.all isWs

/-- the tokens of a separator: nothing, or one run of character data -/
def sepToks (s : Str) : List Tok := if s.isEmpty then [] else [Tok.text s]

theorem sepToks_noStart (s : Str) : ∀ t ∈ sepToks s, ¬ isStart t := by
  intro t ht
  unfold sepToks at ht
  split at ht
  · simp at ht
  · simp only [List.mem_singleton] at ht; subst ht; simp [isStart]

theorem isWs_facts {c : Char} (h : isWs c = true) :
    c ≠ '&' ∧ c ≠ '<' ∧ c ≠ '>' ∧ c ≠ '"' ∧ c ≠ '\r' ∧ xmlCharOk c.toNat = true := by
  simp only [isWs, Bool.or_eq_true, decide_eq_true_eq] at h
  rcases h with (rfl | rfl) | rfl <;> decide

theorem unescF_ws : ∀ (f : Nat) (s : Str), s.length < f → wsOk s = true → unescF f s = some s
  | f, [], _, _ => by cases f <;> rfl
  | 0, _ :: _, h, _ => by simp at h
  | f + 1, c :: r, h, hw => by
      simp only [wsOk, List.all_cons, Bool.and_eq_true] at hw
      have hc := isWs_facts hw.1
      have ih := unescF_ws f r (by simp at h; omega) hw.2
      simp [unescF, hc.1, hc.2.1, ih]

theorem valOk_ws {s : Str} (h : wsOk s = true) : valOk s = true := by
  simp only [wsOk, List.all_eq_true] at h
  simp only [valOk, List.all_eq_true, Bool.and_eq_true, bne_iff_ne, ne_eq]
  intro c hc
  have := isWs_facts (h c hc)
  exact ⟨⟨⟨this.2.1, this.2.2.1⟩, this.2.2.2.1⟩, this.2.2.2.2.1⟩

theorem lexChars_ws {s : Str} (h : wsOk s = true) : lexChars s = some s := by
  have hv := valOk_ws h
  have h1 := hasCDEnd_false s (fun c hc => (valOk_mem hv hc).2.1)
  have h2 : normCR s = s := normCRa_id s (fun c hc => (valOk_mem hv hc).2.2.2)
  have h3 : unesc s = some s := unescF_ws _ s (Nat.lt_succ_self _) h
  have h4 : charsOk s = true := by
    simp only [wsOk, List.all_eq_true] at h
    simp only [charsOk, List.all_eq_true]
    exact fun c hc => (isWs_facts (h c hc)).2.2.2.2.2
  simp [lexChars, h1, h2, h3, h4]

/-- a white-space separator in front of input that is empty or begins with `<` -/
theorem tokF_sep (sep rest : Str) (f : Nat) (ts : List Tok) (hw : wsOk sep = true)
    (hrest : startsLt rest = true) (ht : tokF f rest = some ts) :
    tokF (f + 1) (sep ++ rest) = some (sepToks sep ++ ts) := by
  cases sep with
  | nil => simpa [sepToks] using tokF_mono f rest ts ht
  | cons c r =>
    have hstep := step_text (c :: r) (c :: r) rest (by simp) (valOk_ws hw) (lexChars_ws hw) hrest
    have := tokF_step' f _ rest _ ts hstep (by simp; omega) ht
    simpa [sepToks] using this

/-- a separator and the document behind it -/
theorem cat_sep_doc (sep b : Str) (toks : List Tok) (hw : wsOk sep = true)
    (hlt : ∃ r, b = '<' :: r) (hb : Cat b toks) : Cat (sep ++ b) (sepToks sep ++ toks) := by
  intro rest ts ht
  have h1 := hb rest ts ht
  obtain ⟨r, rfl⟩ := hlt
  have := tokF_sep sep ('<' :: r ++ rest) _ _ hw (by simp [startsLt, stops]) h1
  have := tokenize_of_tokF _ _ _ this
  simpa [List.append_assoc] using this

/-- white space at the very end of the input -/
theorem tokenize_ws (s : Str) (hw : wsOk s = true) : tokenize s = some (sepToks s) := by
  have := tokF_sep s [] 0 [] hw rfl rfl
  have := tokenize_of_tokF _ _ _ this
  simpa using this

/-! ### files: a list of documents -/

/-- the bytes of a file: each document's bytes `d.2.1` behind its separator `d.1`, then `trail`
    (`d.2.2` is the tree the document denotes) -/
def fileBytes : List (Str × Str × Node) → Str → Str
  | [], trail => trail
  | d :: ds, trail => d.1 ++ d.2.1 ++ fileBytes ds trail

/-- the same file at token level, in the form `Files.fileToks` wants -/
def fileDocs (ds : List (Str × Str × Node)) : List (List Tok × Node) :=
  ds.map (fun d => (sepToks d.1, d.2.2))

/-- compositionality for a whole file, by induction on the list of documents: white-space
    separators, documents that begin with `<` and are `Cat` with the flattening of their tree,
    a white-space trailer -/
theorem tokenize_fileBytes (ds : List (Str × Str × Node)) (trail : Str)
    (hsep : ∀ d ∈ ds, wsOk d.1 = true) (hlt : ∀ d ∈ ds, ∃ r, d.2.1 = '<' :: r)
    (hcat : ∀ d ∈ ds, Cat d.2.1 (flatten d.2.2)) (htrail : wsOk trail = true) :
    tokenize (fileBytes ds trail) = some (fileToks (fileDocs ds) (sepToks trail)) := by
  induction ds with
  | nil => simpa [fileBytes, fileDocs, fileToks] using tokenize_ws trail htrail
  | cons d ds ih =>
    have ih' := ih (fun x hx => hsep x (List.mem_cons_of_mem _ hx))
      (fun x hx => hlt x (List.mem_cons_of_mem _ hx))
      (fun x hx => hcat x (List.mem_cons_of_mem _ hx))
    have hc := cat_sep_doc d.1 d.2.1 _ (hsep d (List.mem_cons_self ..))
      (hlt d (List.mem_cons_self ..)) (hcat d (List.mem_cons_self ..))
    have := hc _ _ ih'
    simpa [fileBytes, fileDocs, fileToks, List.append_assoc] using this

/-- … followed by ANY tokenizable input instead of a white-space trailer (the junction is fine
    when the last document ends the file, or the rest begins with `<`) -/
theorem tokenize_fileBytes_then (ds : List (Str × Str × Node)) (rest : Str) (us : List Tok)
    (hsep : ∀ d ∈ ds, wsOk d.1 = true) (hlt : ∀ d ∈ ds, ∃ r, d.2.1 = '<' :: r)
    (hcat : ∀ d ∈ ds, Cat d.2.1 (flatten d.2.2)) (hrest : tokenize rest = some us) :
    tokenize (fileBytes ds rest) = some (fileToks (fileDocs ds) us) := by
  induction ds with
  | nil => simpa [fileBytes, fileDocs, fileToks] using hrest
  | cons d ds ih =>
    have ih' := ih (fun x hx => hsep x (List.mem_cons_of_mem _ hx))
      (fun x hx => hlt x (List.mem_cons_of_mem _ hx))
      (fun x hx => hcat x (List.mem_cons_of_mem _ hx))
    have hc := cat_sep_doc d.1 d.2.1 _ (hsep d (List.mem_cons_self ..))
      (hlt d (List.mem_cons_self ..)) (hcat d (List.mem_cons_self ..))
    have := hc _ _ ih'
    simpa [fileBytes, fileDocs, fileToks, List.append_assoc] using this

/-! ### files of encoder output -/

/-- documents `d.2` (trees, rendered by the encoder under `cfg`) behind separators `d.1` -/
def xmlDocsBytes (cfg : EncCfg) (docs : List (Str × Node)) (trail : Str) : Str :=
  fileBytes (docs.map (fun d => (d.1, render cfg d.2, d.2))) trail

/-- … at token level -/
def xmlDocsToks (docs : List (Str × Node)) : List (List Tok × Node) :=
  docs.map (fun d => (sepToks d.1, d.2))

theorem fileDocs_xmlDocs (cfg : EncCfg) (docs : List (Str × Node)) :
    fileDocs (docs.map (fun d => (d.1, render cfg d.2, d.2))) = xmlDocsToks docs := by
  simp [fileDocs, xmlDocsToks, List.map_map, Function.comp_def]

/-- a file of encoder renderings (escaping on, well-named element trees) with white-space
    separators, followed by any tokenizable input -/
theorem tokenize_xmlDocs_then (cfg : EncCfg) (hesc : cfg.escape = true) (docs : List (Str × Node))
    (hsep : ∀ d ∈ docs, wsOk d.1 = true) (hW : ∀ d ∈ docs, WellNamed d.2 = true)
    (he : ∀ d ∈ docs, Files.isElem d.2 = true) (rest : Str) (us : List Tok)
    (hrest : tokenize rest = some us) :
    tokenize (xmlDocsBytes cfg docs rest) = some (fileToks (xmlDocsToks docs) us) := by
  unfold xmlDocsBytes
  rw [← fileDocs_xmlDocs cfg docs]
  apply tokenize_fileBytes_then _ rest us _ _ _ hrest
  · intro d hd
    obtain ⟨x, hx, rfl⟩ := List.mem_map.1 hd
    exact hsep x hx
  · intro d hd
    obtain ⟨x, hx, rfl⟩ := List.mem_map.1 hd
    exact render_elem_lt cfg (he x hx)
  · intro d hd
    obtain ⟨x, hx, rfl⟩ := List.mem_map.1 hd
    exact cat_render_esc cfg hesc x.2 (hW x hx) (he x hx)

theorem tokenize_xmlDocs (cfg : EncCfg) (hesc : cfg.escape = true) (docs : List (Str × Node))
    (hsep : ∀ d ∈ docs, wsOk d.1 = true) (hW : ∀ d ∈ docs, WellNamed d.2 = true)
    (he : ∀ d ∈ docs, Files.isElem d.2 = true) (trail : Str) (htrail : wsOk trail = true) :
    tokenize (xmlDocsBytes cfg docs trail) = some (fileToks (xmlDocsToks docs) (sepToks trail)) :=
  tokenize_xmlDocs_then cfg hesc docs hsep hW he trail _ (tokenize_ws trail htrail)

theorem xmlDocsToks_wf (docs : List (Str × Node)) (he : ∀ d ∈ docs, Files.isElem d.2 = true) :
    (∀ d ∈ xmlDocsToks docs, ∀ t ∈ d.1, ¬ isStart t) ∧
    (∀ d ∈ xmlDocsToks docs, Files.isElem d.2 = true) := by
  constructor
  · intro d hd
    obtain ⟨x, _, rfl⟩ := List.mem_map.1 hd
    exact sepToks_noStart x.1
  · intro d hd
    obtain ⟨x, hx, rfl⟩ := List.mem_map.1 hd
    exact he x hx

end Mxj.Tokz

namespace Mxj.Files
open Mxj Mxj.Enc

/-- `mvs.XmlString()` (what `Maps.XmlFile` writes): the per-Map encodings `mv.Xml()` one after
    another, nothing in between; the first encoder error ends the loop -/
def xmlString (e : EncCfg) : List Entries → Except ErrKind Str
  | [] => .ok []
  | m :: ms =>
    match mapXml e m none with
    | .error err => .error err
    | .ok x =>
      match xmlString e ms with
      | .error err => .error err
      | .ok r => .ok (x ++ r)

end Mxj.Files
