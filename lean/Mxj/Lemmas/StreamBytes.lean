/-
  Mxj.Lemmas.StreamBytes — helper lemmas for Props/C13ExtBytes: the tee adaptor pulled `k`
  times (`teeDrain`), its buffer = the bytes delivered, and the bytes delivered by `k` pulls =
  the first `k` data bytes of the schedule, for EVERY schedule.
-/
import Mxj.Lemmas.Stream
namespace Mxj.Stream
open Mxj

/-- `teeReader.ReadByte()` called until its first error, at most `k` times: the bytes
    delivered, the error, and the capture buffer (started at `w`) -/
def teeDrain : Nat → Str → Sched → Str × RdErr × Str
  | 0, w, _ => ([], .other, w)
  | f + 1, w, s => match teeReadByte w s with
      | (.ok b, rest, w') => let (bs, e, w'') := teeDrain f w' rest; (b :: bs, e, w'')
      | (.error e, _, w') => ([], e, w')

/-- the tee adaptor delivers what the plain adaptor delivers and captures exactly that -/
theorem teeDrain_eq : ∀ (k : Nat) (w : Str) (s : Sched),
    teeDrain k w s = ((drain k s).1, (drain k s).2, w ++ (drain k s).1) := by
  intro k
  induction k with
  | zero => intro w s; simp [teeDrain, drain]
  | succ f ih =>
    intro w s
    unfold teeDrain drain teeReadByte
    cases h : readByte s with
    | mk r rest =>
      cases r with
      | error e => simp
      | ok b => simp [ih (w ++ [b]) rest]

/-- `k` pulls deliver the first `k` data bytes before the first (0,EOF)/(0,error) entry -/
theorem drain_take (s : Sched) : ∀ k, (drain k s).1 = (bytesOf (upToEnd s)).take k := by
  induction s with
  | nil => intro k; cases k <;> simp [drain, readByte, upToEnd, bytesOf]
  | cons r s ih =>
    intro k
    cases k with
    | zero => simp [drain]
    | succ f =>
      cases r with
      | byte c e => simp [drain, readByte, upToEnd, bytesOf, ih f]
      | zero => rw [drain_zero_cons, ih (f + 1)]; simp [upToEnd, bytesOf]
      | zeroEof => simp [drain, readByte, upToEnd, bytesOf]
      | fail => simp [drain, readByte, upToEnd, bytesOf]

end Mxj.Stream
