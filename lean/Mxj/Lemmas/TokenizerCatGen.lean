/-
  Mxj.Lemmas.TokenizerCatGen — compositionality of the tokenizer model for ARBITRARY accepted
  input (not only encoder renderings): one `step` on `s ++ t` yields the tokens of the step on `s`
  and leaves exactly `rest ++ t` unread, provided the step is markup or its character data ends
  before the end of `s` (or `t` is empty / begins with `<`); hence `tokenize (s ++ t)`.
-/
import Mxj.Lemmas.TokenizerCat
namespace Mxj.Tokz
open Mxj

theorem span_append (p : Char → Bool) : ∀ (s t : Str), s.dropWhile p ≠ [] →
    (s ++ t).takeWhile p = s.takeWhile p ∧ (s ++ t).dropWhile p = s.dropWhile p ++ t
  | [], _, h => by simp at h
  | c :: r, t, h => by
      by_cases hc : p c = true
      · have h' : r.dropWhile p ≠ [] := by simpa [List.dropWhile_cons, hc] using h
        have ih := span_append p r t h'
        simp [hc, ih.1, ih.2]
      · simp [hc]

theorem dropWhile_nil_all (p : Char → Bool) : ∀ (s : Str), s.dropWhile p = [] →
    ∀ x ∈ s, p x = true
  | [], _, _, hx => by simp at hx
  | c :: r, h, x, hx => by
      by_cases hc : p c = true
      · have h' : r.dropWhile p = [] := by simpa [hc] using h
        rcases List.mem_cons.1 hx with rfl | hx
        · exact hc
        · exact dropWhile_nil_all p r h' x hx
      · simp [hc] at h

theorem takeWhile_all (p : Char → Bool) : ∀ (s : Str), (∀ x ∈ s, p x = true) → s.takeWhile p = s
  | [], _ => rfl
  | c :: r, h => by
      have hc := h c (List.mem_cons_self ..)
      have ih := takeWhile_all p r (fun x hx => h x (List.mem_cons_of_mem _ hx))
      simp [hc, ih]

theorem asciiNext_append {r : Str} (t : Str) (h : r ≠ []) : asciiNext (r ++ t) = asciiNext r := by
  cases r with
  | nil => exact absurd rfl h
  | cons c r => rfl

theorem lexRawName_append (s t nm r1 : Str) (h : lexRawName s = some (nm, r1)) (hr : r1 ≠ []) :
    lexRawName (s ++ t) = some (nm, r1 ++ t) := by
  cases htw : s.takeWhile isNmCh with
  | nil => simp [lexRawName, htw] at h
  | cons c nm' =>
    simp only [lexRawName, htw] at h
    split at h
    · rename_i hcond
      simp only [Option.some.injEq, Prod.mk.injEq] at h
      obtain ⟨h1, h2⟩ := h
      subst h1 h2
      have hsp := span_append isNmCh s t hr
      simp only [Bool.and_eq_true] at hcond
      simp only [lexRawName, hsp.1, hsp.2, htw, hcond.1, asciiNext_append t hr, hcond.2,
        Bool.and_self, if_true]
    · cases h

theorem lexName_append (s t sp l r1 : Str) (h : lexName s = some (sp, l, r1)) (hr : r1 ≠ []) :
    lexName (s ++ t) = some (sp, l, r1 ++ t) := by
  unfold lexName at h ⊢
  cases hl : lexRawName s with
  | none => simp [hl] at h
  | some p =>
    obtain ⟨nm, r⟩ := p
    simp only [hl] at h
    cases hn : nsname nm with
    | none => simp [hn] at h
    | some q =>
      obtain ⟨sp', l'⟩ := q
      simp only [hn, Option.some.injEq, Prod.mk.injEq] at h
      obtain ⟨rfl, rfl, rfl⟩ := h
      simp only [lexRawName_append s t nm r hl hr, hn]

theorem dropSp_append (r t : Str) (h : dropSp r ≠ []) : dropSp (r ++ t) = dropSp r ++ t :=
  (span_append isSp r t h).2

theorem dropSp_ne {r : Str} {c : Char} {x : Str} (h : dropSp r = c :: x) : r ≠ [] := by
  intro e; subst e; simp [dropSp] at h

theorem endTag_append (s t : Str) (tk : List Tok) (rest : Str)
    (h : endTag s = some (tk, rest)) : endTag (s ++ t) = some (tk, rest ++ t) := by
  unfold endTag at h ⊢
  cases hl : lexName s with
  | none => simp [hl] at h
  | some p =>
    obtain ⟨sp, nm, r1⟩ := p
    simp only [hl] at h
    cases hd : dropSp r1 with
    | nil => simp [hd] at h
    | cons c rest' =>
      simp only [hd] at h
      have hds := dropSp_append r1 t (by rw [hd]; simp)
      rw [lexName_append s t sp nm r1 hl (dropSp_ne hd)]
      simp only [hds, hd, List.cons_append]
      split at h
      · rename_i hc
        simp only [Option.some.injEq, Prod.mk.injEq] at h
        simp [hc, h.1, h.2]
      · cases h

theorem isPrefixOf_append_true (p s t : Str) (h : p.isPrefixOf s = true) :
    p.isPrefixOf (s ++ t) = true :=
  List.isPrefixOf_iff_prefix.2 ((List.isPrefixOf_iff_prefix.1 h).trans (List.prefix_append s t))

theorem isPrefixOf_append_len (p s t : Str) (hl : p.length ≤ s.length) :
    p.isPrefixOf (s ++ t) = p.isPrefixOf s := by
  cases h : p.isPrefixOf s with
  | true => exact isPrefixOf_append_true p s t h
  | false =>
    cases h2 : p.isPrefixOf (s ++ t) with
    | false => rfl
    | true =>
      have h3 := List.prefix_of_prefix_length_le (List.isPrefixOf_iff_prefix.1 h2)
        (List.prefix_append s t) hl
      rw [List.isPrefixOf_iff_prefix.2 h3] at h
      cases h

theorem breakOn_len (pat : Str) : ∀ (s a b : Str), breakOn pat s = some (a, b) →
    pat.length ≤ s.length
  | [], _, _, h => by simp [breakOn] at h
  | c :: r, a, b, h => by
      simp only [breakOn] at h
      split at h
      · rename_i hp
        obtain ⟨t, ht⟩ := List.isPrefixOf_iff_prefix.1 hp
        rw [← ht]; simp
      · cases hb : breakOn pat r with
        | none => simp [hb] at h
        | some q =>
          have := breakOn_len pat r q.1 q.2 hb
          simp only [List.length_cons]; omega

theorem breakOn_append (pat : Str) : ∀ (s t a b : Str), breakOn pat s = some (a, b) →
    breakOn pat (s ++ t) = some (a, b ++ t)
  | [], _, _, _, h => by simp [breakOn] at h
  | c :: r, t, a, b, h => by
      have hlen := breakOn_len pat _ _ _ h
      have hpre : pat.isPrefixOf (c :: (r ++ t)) = pat.isPrefixOf (c :: r) :=
        isPrefixOf_append_len pat (c :: r) t hlen
      simp only [breakOn] at h
      show breakOn pat (c :: (r ++ t)) = _
      simp only [breakOn, hpre]
      split at h
      · rename_i hp
        simp only [Option.some.injEq, Prod.mk.injEq] at h
        have hd : (c :: (r ++ t)).drop pat.length = (c :: r).drop pat.length ++ t :=
          List.drop_append_of_le_length (l₁ := c :: r) hlen
        simp only [hp, if_true, hd, ← h.1, ← h.2]
      · rename_i hp
        cases hb : breakOn pat r with
        | none => simp [hb] at h
        | some q =>
          obtain ⟨a', b'⟩ := q
          simp only [hb, Option.some.injEq, Prod.mk.injEq] at h
          simp only [hp, breakOn_append pat r t a' b' hb, ← h.1, ← h.2]
          simp

theorem procInst_append (s t : Str) (tk : List Tok) (rest : Str)
    (h : procInst s = some (tk, rest)) : procInst (s ++ t) = some (tk, rest ++ t) := by
  unfold procInst at h ⊢
  cases hl : lexRawName s with
  | none => simp [hl] at h
  | some p =>
    obtain ⟨target, r1⟩ := p
    simp only [hl] at h
    cases hb : breakOn ['?', '>'] (dropSp r1) with
    | none => simp [hb] at h
    | some q =>
      obtain ⟨inst, rest'⟩ := q
      simp only [hb, Option.some.injEq, Prod.mk.injEq] at h
      have hne : dropSp r1 ≠ [] := by
        intro e; rw [e] at hb; simp [breakOn] at hb
      have hr1 : r1 ≠ [] := by intro e; subst e; simp [dropSp] at hne
      rw [lexRawName_append s t target r1 hl hr1]
      simp only [dropSp_append r1 t hne, breakOn_append _ _ t _ _ hb, ← h.1, ← h.2]

theorem bang_append (s t : Str) (tk : List Tok) (rest : Str)
    (h : bang s = some (tk, rest)) : bang (s ++ t) = some (tk, rest ++ t) := by
  unfold bang at h ⊢
  by_cases h1 : ['-', '-'].isPrefixOf s = true
  · have hl : 2 ≤ s.length := by
      obtain ⟨u, hu⟩ := List.isPrefixOf_iff_prefix.1 h1
      rw [← hu]; simp
    simp only [h1, if_true] at h
    simp only [isPrefixOf_append_true _ s t h1, if_true,
      List.drop_append_of_le_length (l₁ := s) (l₂ := t) hl]
    cases hb : breakOn ['-', '-'] (s.drop 2) with
    | none => simp [hb] at h
    | some q =>
      obtain ⟨body, r⟩ := q
      simp only [hb] at h
      simp only [breakOn_append _ _ t _ _ hb]
      cases r with
      | nil => simp at h
      | cons c rest' =>
        simp only [List.cons_append] at h ⊢
        split at h
        · rename_i hc
          simp only [Option.some.injEq, Prod.mk.injEq] at h
          simp [hc, h.1, h.2]
        · cases h
  · have h1f : ['-', '-'].isPrefixOf s = false := Bool.eq_false_iff.2 h1
    simp only [h1f, Bool.false_eq_true, if_false] at h
    by_cases h2 : ['[', 'C', 'D', 'A', 'T', 'A', '['].isPrefixOf s = true
    · have hl : 7 ≤ s.length := by
        obtain ⟨u, hu⟩ := List.isPrefixOf_iff_prefix.1 h2
        rw [← hu]; simp
      have h1' : ['-', '-'].isPrefixOf (s ++ t) = false := by
        rw [isPrefixOf_append_len _ s t (by simp; omega)]
        exact h1f
      simp only [h2, if_true] at h
      simp only [h1', isPrefixOf_append_true _ s t h2, if_true,
        List.drop_append_of_le_length (l₁ := s) (l₂ := t) hl]
      cases hb : breakOn [']', ']', '>'] (s.drop 7) with
      | none => simp [hb] at h
      | some q =>
        obtain ⟨body, r⟩ := q
        simp only [hb] at h
        simp only [breakOn_append _ _ t _ _ hb]
        cases hc : cdataChars body with
        | none => simp [hc] at h
        | some v =>
          simp only [hc, Option.some.injEq, Prod.mk.injEq] at h
          simp [h.1, h.2]
    · simp [h2] at h

theorem lexAttr_append (s t : Str) (a : Attr) (r4 : Str) (h : lexAttr s = some (a, r4)) :
    lexAttr (s ++ t) = some (a, r4 ++ t) := by
  unfold lexAttr at h ⊢
  cases hl : lexName s with
  | none => simp [hl] at h
  | some p =>
    obtain ⟨sp, nm, r1⟩ := p
    simp only [hl] at h
    cases hd : dropSp r1 with
    | nil => simp [hd] at h
    | cons e r2 =>
      simp only [hd] at h
      rw [lexName_append s t sp nm r1 hl (dropSp_ne hd)]
      simp only [dropSp_append r1 t (by rw [hd]; simp), hd, List.cons_append]
      split at h
      · rename_i he
        rw [if_pos he]
        cases hd2 : dropSp r2 with
        | nil => simp [hd2] at h
        | cons q r3 =>
          simp only [hd2] at h
          simp only [dropSp_append r2 t (by rw [hd2]; simp), hd2, List.cons_append]
          split at h
          · rename_i hq
            rw [if_pos hq]
            cases hd3 : r3.dropWhile (· != q) with
            | nil => simp [hd3] at h
            | cons x r4' =>
              simp only [hd3] at h
              have hsp := span_append (· != q) r3 t (by rw [hd3]; simp)
              simp only [hsp.1, hsp.2, hd3, List.cons_append]
              cases hc : lexChars (r3.takeWhile (· != q)) with
              | none => simp [hc] at h
              | some v =>
                simp only [hc, Option.some.injEq, Prod.mk.injEq] at h
                simp [h.1, h.2]
          · cases h
      · cases h

theorem lexAttrs_append : ∀ (f : Nat) (s t : Str) (as : List Attr) (e : Bool) (rest : Str),
    lexAttrs f s = some (as, e, rest) → ∀ g, f ≤ g →
    lexAttrs g (s ++ t) = some (as, e, rest ++ t)
  | 0, _, _, _, _, _, h, _, _ => by simp [lexAttrs] at h
  | f + 1, s, t, as, e, rest, h, g, hg => by
      obtain ⟨g', rfl⟩ : ∃ g', g = g' + 1 := ⟨g - 1, by omega⟩
      simp only [lexAttrs] at h ⊢
      cases hd : dropSp s with
      | nil => simp [hd] at h
      | cons c r =>
        simp only [hd] at h
        simp only [dropSp_append s t (by rw [hd]; simp), hd, List.cons_append]
        split at h
        · rename_i hc
          simp only [Option.some.injEq, Prod.mk.injEq] at h
          rw [if_pos hc]
          simp [h.1, h.2.1, h.2.2]
        · rename_i hc
          rw [if_neg hc]
          split at h
          · rename_i hs
            rw [if_pos hs]
            cases r with
            | nil => simp at h
            | cons g2 r' =>
              simp only [List.cons_append] at h ⊢
              split at h
              · rename_i hg2
                simp only [Option.some.injEq, Prod.mk.injEq] at h
                rw [if_pos hg2]
                simp [h.1, h.2.1, h.2.2]
              · cases h
          · rename_i hs
            rw [if_neg hs]
            cases ha : lexAttr (c :: r) with
            | none => simp [ha] at h
            | some p =>
              obtain ⟨a, r1⟩ := p
              simp only [ha] at h
              have hap := lexAttr_append (c :: r) t a r1 ha
              simp only [List.cons_append] at hap
              simp only [hap]
              cases hr : lexAttrs f r1 with
              | none => simp [hr] at h
              | some q =>
                obtain ⟨as', e', rest'⟩ := q
                simp only [hr, Option.some.injEq, Prod.mk.injEq] at h
                simp only [lexAttrs_append f r1 t as' e' rest' hr g' (by omega)]
                simp [h.1, h.2.1, h.2.2]

theorem startTag_append (s t : Str) (tk : List Tok) (rest : Str)
    (h : startTag s = some (tk, rest)) : startTag (s ++ t) = some (tk, rest ++ t) := by
  unfold startTag at h ⊢
  cases hl : lexName s with
  | none => simp [hl] at h
  | some p =>
    obtain ⟨sp, nm, r1⟩ := p
    simp only [hl] at h
    cases ha : lexAttrs (r1.length + 1) r1 with
    | none => simp [ha] at h
    | some q =>
      obtain ⟨as, e, rest'⟩ := q
      simp only [ha, Option.some.injEq, Prod.mk.injEq] at h
      have hr1 : r1 ≠ [] := by
        intro e0; subst e0; simp [lexAttrs, dropSp] at ha
      rw [lexName_append s t sp nm r1 hl hr1]
      simp only [lexAttrs_append _ r1 t as e rest' ha ((r1 ++ t).length + 1) (by simp)]
      simp [h.1, h.2]

/-- a markup step (the input begins with `<`) reads nothing beyond what it consumes: on `s ++ t`
    it yields the same tokens and leaves exactly `rest ++ t` -/
theorem step_append_markup (r t : Str) (tk : List Tok) (rest : Str)
    (h : step ('<' :: r) = some (tk, rest)) :
    step ('<' :: (r ++ t)) = some (tk, rest ++ t) := by
  cases r with
  | nil => simp [step] at h
  | cons d r' =>
    simp only [List.cons_append, step, if_true] at h ⊢
    by_cases h1 : d = '/'
    · rw [if_pos h1] at h ⊢; exact endTag_append r' t tk rest h
    · rw [if_neg h1] at h ⊢
      by_cases h2 : d = '?'
      · rw [if_pos h2] at h ⊢; exact procInst_append r' t tk rest h
      · rw [if_neg h2] at h ⊢
        by_cases h3 : d = '!'
        · rw [if_pos h3] at h ⊢; exact bang_append r' t tk rest h
        · rw [if_neg h3] at h ⊢
          have := startTag_append (d :: r') t tk rest h
          simpa using this

/-- a character-data step composes when the run ends inside `s` (`rest ≠ []`: it stopped at a
    `<`) or `t` is empty or begins with `<`; the token is a single `Tok.text` -/
theorem step_append_text (c : Char) (r t : Str) (tk : List Tok) (rest : Str) (hc : c ≠ '<')
    (h : step (c :: r) = some (tk, rest)) :
    (∃ v, tk = [Tok.text v]) ∧
    ((rest ≠ [] ∨ startsLt t = true) → step (c :: (r ++ t)) = some (tk, rest ++ t)) := by
  simp only [step, if_neg hc, textRun] at h ⊢
  cases hl : lexChars ((c :: r).takeWhile (· != '<')) with
  | none => simp [hl] at h
  | some v =>
    simp only [hl, Option.some.injEq, Prod.mk.injEq] at h
    refine ⟨⟨v, h.1.symm⟩, fun hj => ?_⟩
    have hspan : (c :: (r ++ t)).takeWhile (· != '<') = (c :: r).takeWhile (· != '<') ∧
        (c :: (r ++ t)).dropWhile (· != '<') = (c :: r).dropWhile (· != '<') ++ t := by
      by_cases hd : (c :: r).dropWhile (· != '<') = []
      · have hst : startsLt t = true := by
          rcases hj with hj | hj
          · exact absurd (h.2 ▸ hd) hj
          · exact hj
        have hall : ∀ x ∈ c :: r, (x != '<') = true := dropWhile_nil_all _ _ hd
        have h1 := takeWhile_stop (· != '<') (c :: r) t hall hst
        have h2 := dropWhile_stop (· != '<') (c :: r) t hall hst
        have h3 : (c :: r).takeWhile (· != '<') = c :: r := takeWhile_all _ _ hall
        simp only [List.cons_append] at h1 h2
        rw [h1, h2, h3, hd]; simp
      · exact span_append _ (c :: r) t hd
    rw [hspan.1, hspan.2, hl]
    simp [h.1, h.2]

/-! ### the token loop on a concatenation -/

/-- the last token is character data (as `RawToken` hands it over: `Tok.text`) -/
def lastIsText (ts : List Tok) : Bool :=
  match ts.getLast? with
  | some (.text _) => true
  | _ => false

/-- the junction of `s` (tokens `ts`) and `t` is not inside a run of character data: the last
    token of `s` is not character data, or `t` is empty or begins with `<` -/
def junctionOk (ts : List Tok) (t : Str) : Bool := !lastIsText ts || startsLt t

theorem tokF_nil_of (f : Nat) (ts : List Tok) (h : tokF f [] = some ts) : ts = [] := by
  cases f <;> simpa [tokF] using h.symm

theorem junctionOk_tail (tk more : List Tok) (t : Str) (h : junctionOk (tk ++ more) t = true) :
    junctionOk more t = true := by
  cases more with
  | nil => simp [junctionOk, lastIsText]
  | cons m ms =>
    cases hg : (m :: ms).getLast? with
    | none => simp at hg
    | some x =>
      simp only [junctionOk, lastIsText, List.getLast?_append, hg, Option.some_or] at h ⊢
      exact h

theorem tokF_append : ∀ (f : Nat) (s : Str) (ts : List Tok), tokF f s = some ts →
    ∀ (t : Str) (us : List Tok) (g : Nat), tokF g t = some us → junctionOk ts t = true →
    tokF (f + g) (s ++ t) = some (ts ++ us)
  | f, [], ts, h, t, us, g, ht, _ => by
      have := tokF_nil_of f ts h
      subst this
      have := tokF_mono_add g f t us ht
      simpa [Nat.add_comm] using this
  | 0, _ :: _, _, h, _, _, _, _, _ => by simp [tokF] at h
  | f + 1, c :: r, ts, h, t, us, g, ht, hj => by
      simp only [tokF] at h
      cases hs : step (c :: r) with
      | none => simp [hs] at h
      | some p =>
        obtain ⟨tk, rest⟩ := p
        simp only [hs] at h
        split at h
        · rename_i hle
          cases hr : tokF f rest with
          | none => simp [hr] at h
          | some more =>
            simp only [hr, Option.some.injEq] at h
            subst h
            have hstep : step (c :: (r ++ t)) = some (tk, rest ++ t) := by
              by_cases hc : c = '<'
              · subst hc; exact step_append_markup r t tk rest hs
              · obtain ⟨⟨v, hv⟩, hcomp⟩ := step_append_text c r t tk rest hc hs
                apply hcomp
                by_cases hrest : rest = []
                · right
                  subst hrest
                  have := tokF_nil_of f more hr
                  subst this
                  subst hv
                  simpa [junctionOk, lastIsText] using hj
                · left; exact hrest
            have ih := tokF_append f rest more hr t us g ht (junctionOk_tail tk more t hj)
            have he : f + 1 + g = (f + g) + 1 := by omega
            rw [he]
            show tokF (f + g + 1) (c :: (r ++ t)) = _
            simp only [tokF, hstep, ih, List.length_append]
            have : rest.length + t.length ≤ r.length + t.length := by omega
            simp [this]
        · simp at h

/-- COMPOSITIONALITY of the tokenizer model over concatenation at token boundaries: if `s` and
    `t` are accepted and the junction is not inside a run of character data, the tokens of
    `s ++ t` are the tokens of `s` followed by the tokens of `t` -/
theorem tokenize_append (s t : Str) (ts us : List Tok) (hs : tokenize s = some ts)
    (ht : tokenize t = some us) (hj : junctionOk ts t = true) :
    tokenize (s ++ t) = some (ts ++ us) :=
  tokenize_of_tokF _ _ _ (tokF_append _ s ts hs t us _ ht hj)

/-- … in `Cat` form: accepted input whose last token is not character data (it ends with a tag,
    a comment, a processing instruction: never inside a text run) composes with EVERYTHING -/
theorem cat_of_closed (s : Str) (ts : List Tok) (hs : tokenize s = some ts)
    (hc : lastIsText ts = false) : Cat s ts := by
  intro rest us hr
  exact tokenize_append s rest ts us hs hr (by simp [junctionOk, hc])

end Mxj.Tokz
