/-
  Mxj.Lemmas.EncodeSym3 — C02 for symmetric non-default option pairs, part 3: a value of the
  decoded shape is its own image (up to entry order), and the shape is invariant under
  normalisation.
-/
import Mxj.Lemmas.EncodeSym2
namespace Mxj.EncSym
open Mxj Mxj.Enc

/-! ### leaves -/

theorem trimG_nil (d : DecCfg) : trimG d [] = [] := by
  simp [trimG, trimChars]

theorem textImg_of_textOk (d : DecCfg) (S : Strconv) (v : Val) (h : textOk d S v = true) :
    textImg d S (leafText v) = some v := by
  simp only [textOk, attrOk, Bool.and_eq_true, decide_eq_true_eq, beq_iff_eq,
    Bool.not_eq_true'] at h
  obtain ⟨⟨⟨_, h1⟩, h2⟩, h3⟩ := h
  simp only [textImg, h2, h3, Bool.false_eq_true, if_false, h1]

theorem leaf_image (d : DecCfg) (S : Strconv) (e : EncCfg) (v : Val)
    (h : leafChildOk d S v = true) :
    finishImageG d e [] (textImg d S (leafText v)) = v := by
  simp only [leafChildOk, Bool.or_eq_true, decide_eq_true_eq, Bool.and_eq_true,
    Bool.not_eq_true'] at h
  rcases h with rfl | ⟨hm, h⟩
  · simp [leafText, fmtV, textImg, trimG_nil, finishImageG]
  · rw [textImg_of_textOk d S v h]
    simp [finishImageG, hm]

/-! ### a decoded value is its own image (up to entry order) -/

/-- the text-key entries (at most one on a map with distinct keys) -/
def textEntriesG (e : EncCfg) : Entries → Entries
  | [] => []
  | (k, v) :: rest =>
      if isAttrK e k then textEntriesG e rest
      else if k = e.textK then (k, v) :: textEntriesG e rest
      else textEntriesG e rest

theorem textEntriesG_of_not_mem (e : EncCfg) :
    ∀ (kvs : Entries), e.textK ∉ keys kvs → textEntriesG e kvs = []
  | [], _ => rfl
  | (k, v) :: rest, h => by
      simp only [keys_cons, List.mem_cons, not_or] at h
      have hk : ¬ k = e.textK := fun he => h.1 he.symm
      simp only [textEntriesG, hk, if_false, ite_self]
      exact textEntriesG_of_not_mem e rest h.2

theorem textEntriesG_lookup (e : EncCfg) (hta : isAttrK e e.textK = false) :
    ∀ (kvs : Entries), (keys kvs).Nodup →
    textEntriesG e kvs = match lookup e.textK kvs with
      | some v => [(e.textK, v)]
      | none => []
  | [], _ => rfl
  | (k, v) :: rest, hd => by
      simp only [keys_cons, List.nodup_cons] at hd
      by_cases hk : k = e.textK
      · subst hk
        simp only [textEntriesG, hta, Bool.false_eq_true, if_false, if_true, lookup]
        rw [textEntriesG_of_not_mem e rest hd.1]
      · have hk' : ¬ e.textK = k := fun he => hk he.symm
        simp only [textEntriesG, hk, if_false, ite_self, lookup, hk']
        exact textEntriesG_lookup e hta rest hd.2

theorem base_ne_nilG (d : DecCfg) (S : Strconv) (e : EncCfg) :
    ∀ (kvs : Entries), kvs.any (fun x => x.1 != e.textK) = true →
    (imageAttrsG d S e kvs ++ imageElemsG d S e kvs).isEmpty = false
  | [], h => by simp at h
  | (k, v) :: rest, h => by
      simp only [List.any_cons, Bool.or_eq_true, bne_iff_ne, ne_eq] at h
      simp only [imageAttrsG, imageElemsG]
      by_cases ha : isAttrK e k = true
      · simp [ha]
      · have ha' : isAttrK e k = false := by simpa using ha
        by_cases hk : k = e.textK
        · simp only [hk, decide_true, Bool.true_or, if_true]
          rcases h with h | h
          · exact absurd hk h
          · have := base_ne_nilG d S e rest (by simpa using h)
            rw [hk] at ha'
            simpa [ha'] using this
        · simp [ha', hk]

theorem finishImageG_decoded (d : DecCfg) (e : EncCfg) (base T : Entries) (txt : Option Val)
    (hT : T = match txt with | some t => [(e.textK, t)] | none => [])
    (hb : base.isEmpty = false ∨ (d.asMap = true ∧ txt ≠ none)) :
    finishImageG d e base txt = .map (base ++ T) := by
  subst hT
  rcases hb with hb | ⟨hm, ht⟩
  · cases txt <;> simp [finishImageG, hb]
  · cases txt with
    | none => exact absurd rfl ht
    | some t => simp [finishImageG, hm]

mutual
theorem image_decodedChildG (d : DecCfg) (S : Strconv) (e : EncCfg)
    (hta : isAttrK e e.textK = false) : ∀ (v : Val), DecodedChildG d S e v = true →
    (imageSibsG d S e v).map Val.norm = (sibsOf v).map Val.norm
  | .null, h => by simp [DecodedChildG] at h
  | .bool b, h => by
      simp only [DecodedChildG] at h
      have := leaf_image d S e _ h
      simp only [imageSibsG, sibsOf, this]
  | .num t, h => by
      simp only [DecodedChildG] at h
      have := leaf_image d S e _ h
      simp only [leafText, fmtV, Option.getD_some] at this
      simp only [imageSibsG, sibsOf, this]
  | .str s, h => by
      simp only [DecodedChildG] at h
      have := leaf_image d S e _ h
      simp only [leafText, fmtV, Option.getD_some] at this
      simp only [imageSibsG, sibsOf, this]
  | .list xs, h => by
      simp only [DecodedChildG, Bool.and_eq_true, decide_eq_true_eq] at h
      have hne : xs.isEmpty = false := by cases xs <;> simp_all
      simp only [imageSibsG, hne, Bool.false_eq_true, if_false, sibsOf]
      exact image_decodedListG d S e hta xs h.2
  | .map kvs, h => by
      simp only [DecodedChildG, Bool.and_eq_true] at h
      obtain ⟨⟨hd, hany⟩, hE⟩ := h
      have hnd := (distinctKeys_iff kvs).1 hd
      have hperm := image_decodedEntriesG d S e hta kvs hE
      have hT : textEntriesG e kvs = match imageTextG d S e kvs with
          | some t => [(e.textK, t)]
          | none => [] := by
        rw [textEntriesG_lookup e hta kvs hnd]
        unfold imageTextG
        cases hl : lookup e.textK kvs with
        | none => rfl
        | some tv =>
          have hok := textValue_okG d S e hta kvs tv hE hl
          simp only [textImg_of_textOk d S tv hok]
      have hb : (imageAttrsG d S e kvs ++ imageElemsG d S e kvs).isEmpty = false
          ∨ (d.asMap = true ∧ imageTextG d S e kvs ≠ none) := by
        by_cases hb : (imageAttrsG d S e kvs ++ imageElemsG d S e kvs).isEmpty = false
        · exact .inl hb
        · right
          have hb' : imageAttrsG d S e kvs ++ imageElemsG d S e kvs = [] := by
            cases hc : imageAttrsG d S e kvs ++ imageElemsG d S e kvs with
            | nil => rfl
            | cons _ _ => rw [hc] at hb; simp at hb
          have hany' : d.asMap = true ∧ kvs.isEmpty = false := by
            rcases Bool.or_eq_true_iff.1 hany with h1 | h1
            · exact absurd (base_ne_nilG d S e kvs h1) hb
            · simpa using h1
          refine ⟨hany'.1, ?_⟩
          intro hnone
          rw [hnone] at hT
          rw [hb', hT] at hperm
          have := hperm.length_eq
          simp only [List.append_nil, List.length_nil, normEntries_eq_map,
            List.length_map] at this
          have h0 : kvs = [] := List.eq_nil_of_length_eq_zero this.symm
          rw [h0] at hany'
          simp at hany'
      simp only [imageSibsG, sibsOf, List.map_cons, List.map_nil, List.cons.injEq, and_true]
      rw [finishImageG_decoded d e _ (textEntriesG e kvs) _ hT hb]
      simp only [Val.norm]
      congr 1
      refine (sortByKey_congr ?_ hperm.symm).symm
      rw [keys_normEntries]; exact hnd
theorem image_decodedListG (d : DecCfg) (S : Strconv) (e : EncCfg)
    (hta : isAttrK e e.textK = false) : ∀ (xs : List Val), DecodedListG d S e xs = true →
    (imageMembersG d S e xs).map Val.norm = xs.map Val.norm
  | [], _ => rfl
  | x :: xs, h => by
      simp only [DecodedListG, Bool.and_eq_true, Bool.not_eq_true'] at h
      have h1 := image_decodedChildG d S e hta x h.1.2
      have hs : sibsOf x = [x] := by
        cases x <;> simp [Val.isList] at h <;> rfl
      rw [hs] at h1
      simp only [imageMembersG, List.map_append, h1, image_decodedListG d S e hta xs h.2,
        List.map_cons, List.map_nil, List.singleton_append]
theorem image_decodedEntriesG (d : DecCfg) (S : Strconv) (e : EncCfg)
    (hta : isAttrK e e.textK = false) : ∀ (kvs : Entries), DecodedEntriesG d S e kvs = true →
    (Val.normEntries (imageAttrsG d S e kvs ++ imageElemsG d S e kvs ++ textEntriesG e kvs)).Perm
      (Val.normEntries kvs)
  | [], _ => by simp [imageAttrsG, imageElemsG, textEntriesG, Val.normEntries]
  | (k, v) :: rest, h => by
      simp only [DecodedEntriesG, Bool.and_eq_true] at h
      have ih := image_decodedEntriesG d S e hta rest h.2
      have h1 := h.1
      simp only [normEntries_eq_map, List.map_append] at ih ⊢
      by_cases ha : isAttrK e k = true
      · simp only [ha, if_true, attrOk, Bool.and_eq_true, decide_eq_true_eq] at h1
        have hv : lf d S ((attrValue v).getD []) = v := by
          have hsc := h1.1.1
          have hlt : leafText v = (attrValue v).getD [] := by
            cases v with
            | bool b => cases b <;> rfl
            | null | num _ | str _ | list _ | map _ => first | rfl | simp [isScalar, attrValue] at hsc
          rw [← hlt]; exact h1.1.2
        simp only [imageAttrsG, imageElemsG, textEntriesG, ha, if_true, Bool.or_true, hv,
          List.map_cons, List.cons_append]
        exact ih.cons _
      · have ha' : isAttrK e k = false := by simpa using ha
        simp only [ha', Bool.false_eq_true, if_false] at h1
        by_cases hk : k = e.textK
        · simp only [imageAttrsG, imageElemsG, textEntriesG, hk, decide_true, Bool.true_or,
            if_true, List.map_cons]
          rw [hk] at ha'
          simp only [ha', Bool.false_eq_true, if_false]
          exact List.perm_middle.trans (ih.cons _)
        · simp only [hk, if_false, Bool.and_eq_true] at h1
          have hc : (collectV (imageSibsG d S e v)).norm = v.norm := by
            apply collectV_norm _ _ (image_decodedChildG d S e hta v h1.2)
            intro xs he; subst he
            have h2 := h1.2
            simp only [DecodedChildG, Bool.and_eq_true, decide_eq_true_eq] at h2
            exact h2.1
          simp only [imageAttrsG, imageElemsG, textEntriesG, ha', hk, decide_false, Bool.or_false,
            Bool.false_eq_true, if_false, List.map_cons, hc]
          simp only [List.append_assoc, List.cons_append] at ih ⊢
          exact List.perm_middle.trans (ih.cons _)
end

/-- a value of the shape the decoder produces is, up to entry order, its own image -/
theorem image_decodedG (d : DecCfg) (S : Strconv) (e : EncCfg) (hta : isAttrK e e.textK = false)
    (v : Val) (h : DecodedG d S e v = true) : imageG d S e v ≈ᵥ v := by
  unfold DecodedG at h
  simp only [Bool.and_eq_true, Bool.not_eq_true'] at h
  unfold imageG Val.equiv
  apply collectV_norm _ _ (image_decodedChildG d S e hta v h.2)
  intro xs he; subst he; simp [Val.isList] at h

/-! ### the decoded shape is invariant under normalisation -/

def entryDecodedG (d : DecCfg) (S : Strconv) (e : EncCfg) (x : Str × Val) : Bool :=
  if isAttrK e x.1 then
    attrOk d S x.2 && decide (attrKey d S (x.1.drop e.attrPrefix.length) = x.1)
  else if x.1 = e.textK then textOk d S x.2
  else decide (elemKey d S x.1 = x.1) && DecodedChildG d S e x.2

theorem DecodedEntriesG_iff (d : DecCfg) (S : Strconv) (e : EncCfg) : ∀ (l : Entries),
    DecodedEntriesG d S e l = true ↔ ∀ x ∈ l, entryDecodedG d S e x = true
  | [] => by simp [DecodedEntriesG]
  | (k, v) :: rest => by
      simp only [DecodedEntriesG, Bool.and_eq_true, DecodedEntriesG_iff d S e rest, List.mem_cons,
        forall_eq_or_imp, entryDecodedG]

theorem norm_of_scalar {v : Val} (h : isScalar v = true) : v.norm = v := by
  cases v <;> first | rfl | simp [isScalar, attrValue] at h

theorem attrOk_norm (d : DecCfg) (S : Strconv) (v : Val) : attrOk d S v.norm = attrOk d S v := by
  by_cases h : isScalar v = true
  · rw [norm_of_scalar h]
  · have h' : isScalar v = false := by simpa using h
    simp only [attrOk, isScalar_norm, h', Bool.false_and]

theorem textOk_norm (d : DecCfg) (S : Strconv) (v : Val) : textOk d S v.norm = textOk d S v := by
  by_cases h : isScalar v = true
  · rw [norm_of_scalar h]
  · have h' : isScalar v = false := by simpa using h
    simp only [textOk, attrOk, isScalar_norm, h', Bool.false_and]

mutual
theorem DecodedChildG_norm (d : DecCfg) (S : Strconv) (e : EncCfg) :
    ∀ (v : Val), DecodedChildG d S e v = true → DecodedChildG d S e v.norm = true
  | .null, h => h
  | .bool _, h => h
  | .num _, h => h
  | .str _, h => h
  | .list xs, h => by
      simp only [DecodedChildG, Bool.and_eq_true, decide_eq_true_eq] at h
      simp only [Val.norm, DecodedChildG, Bool.and_eq_true, decide_eq_true_eq, length_normList]
      exact ⟨h.1, DecodedListG_norm d S e xs h.2⟩
  | .map kvs, h => by
      simp only [DecodedChildG, Bool.and_eq_true] at h
      obtain ⟨⟨hd, hany⟩, hE⟩ := h
      have hp := sortByKey_perm (Val.normEntries kvs)
      simp only [Val.norm, DecodedChildG, Bool.and_eq_true]
      refine ⟨⟨?_, ?_⟩, ?_⟩
      · apply distinctKeys_perm hp.symm
        rw [distinctKeys_iff, keys_normEntries]; exact (distinctKeys_iff kvs).1 hd
      · rcases Bool.or_eq_true_iff.1 hany with hany | hany
        · apply Bool.or_eq_true_iff.2; left
          rw [List.any_eq_true] at hany ⊢
          obtain ⟨x, hx, hk⟩ := hany
          refine ⟨(x.1, x.2.norm), hp.mem_iff.2 ?_, hk⟩
          rw [normEntries_eq_map]
          exact List.mem_map.2 ⟨x, hx, rfl⟩
        · apply Bool.or_eq_true_iff.2; right
          simp only [Bool.and_eq_true, Bool.not_eq_true'] at hany ⊢
          refine ⟨hany.1, ?_⟩
          have hlen : (sortByKey (Val.normEntries kvs)).length = kvs.length := by
            rw [hp.length_eq, normEntries_eq_map, List.length_map]
          cases hc : sortByKey (Val.normEntries kvs) with
          | cons _ _ => rfl
          | nil =>
            rw [hc] at hlen
            have : kvs = [] := List.eq_nil_of_length_eq_zero hlen.symm
            rw [this] at hany; simp at hany
      · rw [DecodedEntriesG_iff]
        intro x hx
        exact (DecodedEntriesG_iff d S e _).1 (DecodedEntriesG_norm d S e kvs hE) x (hp.mem_iff.1 hx)
theorem DecodedListG_norm (d : DecCfg) (S : Strconv) (e : EncCfg) :
    ∀ (xs : List Val), DecodedListG d S e xs = true →
    DecodedListG d S e (Val.normList xs) = true
  | [], _ => rfl
  | x :: xs, h => by
      simp only [DecodedListG, Bool.and_eq_true] at h
      simp only [Val.normList, DecodedListG, Bool.and_eq_true, isList_norm]
      exact ⟨⟨h.1.1, DecodedChildG_norm d S e x h.1.2⟩, DecodedListG_norm d S e xs h.2⟩
theorem DecodedEntriesG_norm (d : DecCfg) (S : Strconv) (e : EncCfg) :
    ∀ (kvs : Entries), DecodedEntriesG d S e kvs = true →
    DecodedEntriesG d S e (Val.normEntries kvs) = true
  | [], _ => rfl
  | (k, v) :: rest, h => by
      simp only [DecodedEntriesG, Bool.and_eq_true] at h
      simp only [Val.normEntries, DecodedEntriesG, Bool.and_eq_true, attrOk_norm, textOk_norm]
      refine ⟨?_, DecodedEntriesG_norm d S e rest h.2⟩
      have h1 := h.1
      split
      · rename_i ha; simpa only [ha, if_true] using h1
      · rename_i ha
        simp only [ha, Bool.false_eq_true, if_false] at h1
        split
        · rename_i hk; simpa only [hk, if_true] using h1
        · rename_i hk
          simp only [hk, if_false, Bool.and_eq_true] at h1 ⊢
          exact ⟨h1.1, DecodedChildG_norm d S e v h1.2⟩
end

theorem DecodedG_norm (d : DecCfg) (S : Strconv) (e : EncCfg) (v : Val)
    (h : DecodedG d S e v = true) : DecodedG d S e v.norm = true := by
  unfold DecodedG at h ⊢
  simp only [Bool.and_eq_true] at h ⊢
  exact ⟨by rw [isList_norm]; exact h.1, DecodedChildG_norm d S e v h.2⟩

end Mxj.EncSym
