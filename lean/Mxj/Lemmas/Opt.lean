/-
  Mxj.Lemmas.Opt — lemmas about the option state machine `Mxj.Model.Opt`:
  one-character `replaceAll` facts (for `rekey`), the call classifications used by the C18
  statements (`explicit`, `punctPrefixes`, `Toggle`, `goName` / `setterNames`), invariants over
  histories (`run_inv`, `run_inv_of`) and the restore lemma.
-/
import Mxj.Model.Opt
import Mxj.Lemmas.PathIdx
namespace Mxj.Opt
open Mxj

/-! ### split / join with a one-character separator -/

theorem splitGo1_exists_cons (d : Char) : ∀ (s acc : Str), ∃ y ys, splitGo [d] s 0 acc = y :: ys := by
  intro s
  induction s with
  | nil => intro acc; exact ⟨_, _, splitGo1_nil d acc⟩
  | cons c cs ih =>
    intro acc
    by_cases h : c = d
    · subst h; exact ⟨_, _, splitGo1_sep c cs acc⟩
    · rw [splitGo1_ne d c cs acc h]; exact ih _

theorem joinWith_cons_cons (sep x y : Str) (ys : List Str) :
    joinWith sep (x :: y :: ys) = x ++ sep ++ joinWith sep (y :: ys) := by
  simp [joinWith]

/-- `strings.ReplaceAll(s, d, d) = s` -/
theorem joinWith_splitGo1 (d : Char) : ∀ (s acc : Str),
    joinWith [d] (splitGo [d] s 0 acc) = acc.reverse ++ s := by
  intro s
  induction s with
  | nil => intro acc; simp [splitGo1_nil, joinWith]
  | cons c cs ih =>
    intro acc
    by_cases h : c = d
    · subst h
      rw [splitGo1_sep]
      obtain ⟨y, ys, hy⟩ := splitGo1_exists_cons c cs []
      have := ih []
      rw [hy] at this ⊢
      rw [joinWith_cons_cons, this]; simp
    · rw [splitGo1_ne d c cs acc h, ih]; simp

theorem replaceAll_self (d : Char) (s : Str) : replaceAll [d] [d] s = s := by
  simp [replaceAll, splitOn, joinWith_splitGo1]

/-- the result of replacing the leading character starts with the replacement -/
theorem replaceAll_head (c : Char) (new rest : Str) :
    replaceAll [c] new (c :: rest) = new ++ replaceAll [c] new rest := by
  simp only [replaceAll, splitOn]
  rw [splitGo1_sep]
  obtain ⟨y, ys, hy⟩ := splitGo1_exists_cons c rest []
  rw [hy, joinWith_cons_cons]; simp

/-- `strings.ReplaceAll(c + w, c, p) = p + w` when `c` does not occur in `w` -/
theorem replaceAll_fresh (c : Char) (new w : Str) (h : c ∉ w) : replaceAll [c] new w = w := by
  simp [replaceAll, splitOn, splitGo1_chunk_end c w [] h, joinWith]

theorem rekey_fresh (c p : Char) (w : Str) (h : c ∉ w) : rekey [p] (c :: w) = p :: w := by
  simp [rekey, replaceAll_head, replaceAll_fresh c [p] w h]

theorem rekey_idem (p : Char) (k : Str) : rekey [p] (rekey [p] k) = rekey [p] k := by
  cases k with
  | nil => simp [rekey]
  | cons c rest =>
    have h1 : rekey [p] (c :: rest) = p :: replaceAll [c] [p] rest := by
      simp [rekey, replaceAll_head]
    rw [h1]
    simp [rekey, replaceAll_self]

/-! ### classifications of calls -/

/-- the call has only one meaning whatever the current state: toggling setters with an explicit
    value, the string / number / flag setters, the two empty-element setters; the two
    non-toggling argument-less forms (`DisableTrimWhiteSpace()`, `SetFieldSeparator()`) are
    included as well; `SetGlobalKeyMapPrefix` with a one-character argument -/
def explicit : Call → Bool
  | .setGlobalKeyMapPrefix s => s.length == 1
  | .includeTagSeqNum b | .coerceKeysToLower b | .coerceKeysToSnakeCase b | .castValuesToInt b
  | .handleXMPPStreamTag b | .decodeSimpleValuesAsMap b | .castNanInf b | .castValuesToFloat b
  | .castValuesToBool b | .xmlCheckIsValid b | .xmlEscapeChars b | .xmlEscapeCharsDecoder b
  | .leafUseDotNotation b => b.isSome
  | .disableTrimWhiteSpace _ | .prependAttrWithHyphen _ | .setAttrPrefix _
  | .setCheckTagToSkipFunc _ | .xmlGoEmptyElemSyntax | .xmlDefaultEmptyElemSyntax
  | .setFieldSeparator _ | .setArraySize _ => true

/-- a key-prefix argument that is one character, not a lower-case ASCII letter -/
def punctPrefix : Call → Bool
  | .setGlobalKeyMapPrefix s => match s with
      | [p] => !p.isLower
      | _ => false
  | _ => true

def punctPrefixes (calls : List Call) : Bool := calls.all punctPrefix

/-- the setters whose argument-less form is a pure toggle of one Boolean field -/
inductive Toggle where
  | includeTagSeqNum | coerceKeysToLower | coerceKeysToSnakeCase | castValuesToInt
  | handleXMPPStreamTag | decodeSimpleValuesAsMap | castNanInf | castValuesToFloat
  | castValuesToBool | xmlCheckIsValid | leafUseDotNotation
  deriving Repr, DecidableEq

def Toggle.call : Toggle → Option Bool → Call
  | .includeTagSeqNum => .includeTagSeqNum
  | .coerceKeysToLower => .coerceKeysToLower
  | .coerceKeysToSnakeCase => .coerceKeysToSnakeCase
  | .castValuesToInt => .castValuesToInt
  | .handleXMPPStreamTag => .handleXMPPStreamTag
  | .decodeSimpleValuesAsMap => .decodeSimpleValuesAsMap
  | .castNanInf => .castNanInf
  | .castValuesToFloat => .castValuesToFloat
  | .castValuesToBool => .castValuesToBool
  | .xmlCheckIsValid => .xmlCheckIsValid
  | .leafUseDotNotation => .leafUseDotNotation

def Toggle.field : Toggle → St → Bool
  | .includeTagSeqNum => St.includeTagSeqNum
  | .coerceKeysToLower => St.lowerCase
  | .coerceKeysToSnakeCase => St.snakeCaseKeys
  | .castValuesToInt => St.castToInt
  | .handleXMPPStreamTag => St.handleXMPPStreamTag
  | .decodeSimpleValuesAsMap => St.decodeSimpleValuesAsMap
  | .castNanInf => St.castNanInf
  | .castValuesToFloat => St.castToFloat
  | .castValuesToBool => St.castToBool
  | .xmlCheckIsValid => St.xmlCheckIsValid
  | .leafUseDotNotation => St.useDotNotation

/-- the Go function a call form belongs to -/
def goName : Call → String
  | .setGlobalKeyMapPrefix _ => "SetGlobalKeyMapPrefix"
  | .includeTagSeqNum _ => "IncludeTagSeqNum"
  | .coerceKeysToLower _ => "CoerceKeysToLower"
  | .disableTrimWhiteSpace _ => "DisableTrimWhiteSpace"
  | .prependAttrWithHyphen _ => "PrependAttrWithHyphen"
  | .setAttrPrefix _ => "SetAttrPrefix"
  | .coerceKeysToSnakeCase _ => "CoerceKeysToSnakeCase"
  | .castValuesToInt _ => "CastValuesToInt"
  | .handleXMPPStreamTag _ => "HandleXMPPStreamTag"
  | .decodeSimpleValuesAsMap _ => "DecodeSimpleValuesAsMap"
  | .castNanInf _ => "CastNanInf"
  | .castValuesToFloat _ => "CastValuesToFloat"
  | .castValuesToBool _ => "CastValuesToBool"
  | .setCheckTagToSkipFunc _ => "SetCheckTagToSkipFunc"
  | .xmlGoEmptyElemSyntax => "XmlGoEmptyElemSyntax"
  | .xmlDefaultEmptyElemSyntax => "XmlDefaultEmptyElemSyntax"
  | .xmlCheckIsValid _ => "XmlCheckIsValid"
  | .xmlEscapeChars _ => "XMLEscapeChars"
  | .xmlEscapeCharsDecoder _ => "XMLEscapeCharsDecoder"
  | .setFieldSeparator _ => "SetFieldSeparator"
  | .leafUseDotNotation _ => "LeafUseDotNotation"
  | .setArraySize _ => "SetArraySize"

/-- the setters named in the model (one per `Call` constructor) -/
def setterNames : List String :=
  ["SetGlobalKeyMapPrefix", "IncludeTagSeqNum", "CoerceKeysToLower", "DisableTrimWhiteSpace",
   "PrependAttrWithHyphen", "SetAttrPrefix", "CoerceKeysToSnakeCase", "CastValuesToInt",
   "HandleXMPPStreamTag", "DecodeSimpleValuesAsMap", "CastNanInf", "CastValuesToFloat",
   "CastValuesToBool", "SetCheckTagToSkipFunc", "XmlGoEmptyElemSyntax",
   "XmlDefaultEmptyElemSyntax", "XmlCheckIsValid", "XMLEscapeChars", "XMLEscapeCharsDecoder",
   "SetFieldSeparator", "LeafUseDotNotation", "SetArraySize"]

theorem goName_mem_setterNames (c : Call) : goName c ∈ setterNames := by
  cases c <;> simp [goName, setterNames]

/-- the package variables a call form assigns in the model (sorted, as the extractor lists them) -/
def modelWrites : Call → List String
  | .setGlobalKeyMapPrefix _ =>
      ["attrK", "commentK", "directiveK", "instK", "procinstK", "seqK", "targetK", "textK"]
  | .includeTagSeqNum _ => ["includeTagSeqNum"]
  | .coerceKeysToLower _ => ["lowerCase"]
  | .disableTrimWhiteSpace _ => ["disableTrimWhiteSpace", "trimRunes"]
  | .prependAttrWithHyphen _ => ["attrPrefix", "lenAttrPrefix"]
  | .setAttrPrefix _ => ["attrPrefix", "lenAttrPrefix"]
  | .coerceKeysToSnakeCase _ => ["snakeCaseKeys"]
  | .castValuesToInt _ => ["castToInt"]
  | .handleXMPPStreamTag _ => ["handleXMPPStreamTag"]
  | .decodeSimpleValuesAsMap _ => ["decodeSimpleValuesAsMap"]
  | .castNanInf _ => ["castNanInf"]
  | .castValuesToFloat _ => ["castToFloat"]
  | .castValuesToBool _ => ["castToBool"]
  | .setCheckTagToSkipFunc _ => ["checkTagToSkip"]
  | .xmlGoEmptyElemSyntax => ["useGoXmlEmptyElemSyntax"]
  | .xmlDefaultEmptyElemSyntax => ["useGoXmlEmptyElemSyntax"]
  | .xmlCheckIsValid _ => ["xmlCheckIsValid"]
  | .xmlEscapeChars _ => ["xmlEscapeChars"]
  | .xmlEscapeCharsDecoder _ => ["xmlEscapeChars", "xmlEscapeCharsDecoder"]
  | .setFieldSeparator _ => ["fieldSep"]
  | .leafUseDotNotation _ => ["useDotNotation"]
  | .setArraySize _ => ["defaultArraySize"]

/-! ### histories -/

theorem run_nil (st : St) : run st [] = st := rfl
theorem run_cons (st : St) (c : Call) (cs : List Call) : run st (c :: cs) = run (step st c) cs := rfl
theorem run_append (st : St) (a b : List Call) : run st (a ++ b) = run (run st a) b := by
  simp [run, List.foldl_append]

/-- an invariant of every step holds after every history -/
theorem run_inv (P : St → Prop) (hstep : ∀ st c, P st → P (step st c)) :
    ∀ (calls : List Call) (st : St), P st → P (run st calls) := by
  intro calls
  induction calls with
  | nil => intro st h; exact h
  | cons c cs ih => intro st h; exact ih _ (hstep st c h)

/-- … restricted to histories of calls satisfying `Q` -/
theorem run_inv_of (Q : Call → Bool) (P : St → Prop)
    (hstep : ∀ st c, Q c = true → P st → P (step st c)) :
    ∀ (calls : List Call) (st : St), calls.all Q = true → P st → P (run st calls) := by
  intro calls
  induction calls with
  | nil => intro st _ h; exact h
  | cons c cs ih =>
    intro st hq h
    simp only [List.all_cons, Bool.and_eq_true] at hq
    exact ih _ hq.2 (hstep st c hq.1 h)

/-! ### the key constants -/

/-- the eight key constants are `c :: word` for one common character `c` -/
def KeysAre (c : Char) (st : St) : Prop :=
  st.textK = c :: "text".toList ∧ st.seqK = c :: "seq".toList ∧
  st.commentK = c :: "comment".toList ∧ st.attrK = c :: "attr".toList ∧
  st.directiveK = c :: "directive".toList ∧ st.procinstK = c :: "procinst".toList ∧
  st.targetK = c :: "target".toList ∧ st.instK = c :: "inst".toList

/-- … where `c` is not a lower-case ASCII letter (so it does not occur in any of the words) -/
def KeysOK (st : St) : Prop := ∃ c : Char, c.isLower = false ∧ KeysAre c st

theorem not_mem_of_allLower (c : Char) (w : Str) (hw : w.all Char.isLower = true)
    (hc : c.isLower = false) : c ∉ w := by
  intro hm
  have := (List.all_eq_true.mp hw) c hm
  simp [hc] at this

theorem keysOK_dflt : KeysOK dflt := ⟨'#', by decide, by unfold KeysAre; decide⟩

theorem keysAre_rekey (c p : Char) (hc : c.isLower = false) (st : St) (h : KeysAre c st) :
    KeysAre p (step st (.setGlobalKeyMapPrefix [p])) := by
  obtain ⟨h1, h2, h3, h4, h5, h6, h7, h8⟩ := h
  have fr : ∀ w : Str, w.all Char.isLower = true → rekey [p] (c :: w) = p :: w :=
    fun w hw => rekey_fresh c p w (not_mem_of_allLower c w hw hc)
  refine ⟨?_, ?_, ?_, ?_, ?_, ?_, ?_, ?_⟩ <;> simp only [step]
  · rw [h1]; exact fr _ (by decide)
  · rw [h2]; exact fr _ (by decide)
  · rw [h3]; exact fr _ (by decide)
  · rw [h4]; exact fr _ (by decide)
  · rw [h5]; exact fr _ (by decide)
  · rw [h6]; exact fr _ (by decide)
  · rw [h7]; exact fr _ (by decide)
  · rw [h8]; exact fr _ (by decide)

/-- calls other than `SetGlobalKeyMapPrefix` leave the eight keys alone -/
theorem keysAre_other (k : Char) (st : St) (c : Call)
    (hc : ∀ s, c ≠ .setGlobalKeyMapPrefix s) (h : KeysAre k st) : KeysAre k (step st c) := by
  cases c with
  | setGlobalKeyMapPrefix s => exact absurd rfl (hc s)
  | prependAttrWithHyphen v => cases v <;> exact h
  | setFieldSeparator s =>
    cases s with
    | none => exact h
    | some x => unfold step; dsimp only; split <;> exact h
  | _ => exact h

theorem keysOK_step (st : St) (c : Call) (hq : punctPrefix c = true) (h : KeysOK st) :
    KeysOK (step st c) := by
  obtain ⟨k, hk, hka⟩ := h
  by_cases hs : ∃ s, c = .setGlobalKeyMapPrefix s
  · obtain ⟨s, rfl⟩ := hs
    match s, hq with
    | [p], hq =>
      simp [punctPrefix] at hq
      exact ⟨p, hq, keysAre_rekey k p hk st hka⟩
  · exact ⟨k, hk, keysAre_other k st c (fun s e => hs ⟨s, e⟩) hka⟩

theorem keysOK_run (calls : List Call) (h : punctPrefixes calls = true) : KeysOK (run dflt calls) :=
  run_inv_of punctPrefix KeysOK keysOK_step calls dflt h keysOK_dflt

/-- restoring from any state whose keys are well-formed -/
theorem restore_of_keysOK (st : St) (h : KeysOK st) : run st restoreCalls = dflt := by
  obtain ⟨k, hk, hka⟩ := h
  have h' := keysAre_rekey k '#' hk st hka
  obtain ⟨h1, h2, h3, h4, h5, h6, h7, h8⟩ := h'
  simp only [step] at h1 h2 h3 h4 h5 h6 h7 h8
  have hb : (String.ofList ['-']).utf8ByteSize = 1 := by decide
  simp [run, restoreCalls, step, tog, dflt, h1, h2, h3, h4, h5, h6, h7, h8, hb, trimAll]

end Mxj.Opt
