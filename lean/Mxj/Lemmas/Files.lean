/-
  Mxj.Lemmas.Files — lemmas connecting the compact JSON encoder (Mxj.Model.Json, C06) with the
  generative grammar of object texts the scanner is proved against (Mxj.Lemmas.Stream, C13), and
  facts about the file loop `readMapsJson` of Mxj.Model.Files.  Used by Mxj.Props.C19.

  Contents:
    * `Gr s`              : `s` is the text of a list of grammar items with no white space
                            outside strings (`flatList is = s = flatNoWsList is`)
    * `Bd s`              : `s` is the text of a string body of the grammar
    * `gr_encN`           : every compact encoding of a JSON-shaped value is such a text
    * `Good`, `stepJ_good`: scanner invariant "inside an object" (inJson, paren > 0)
    * `getJson_cut`       : input that ends inside an object gives `.noClose`
    * `getJson_doc_append`: a returned document does not depend on what follows it
    * `readMapsJson_sched_free`, `readMapsJson_step` : the file loop
-/
import Mxj.Model.Files
import Mxj.Lemmas.Stream
import Mxj.Lemmas.Json
namespace Mxj.Files
open Mxj Mxj.Stream Mxj.Json

/-! ### texts of the grammar -/

theorem flatBody_append (a b : List StrCh) : flatBody (a ++ b) = flatBody a ++ flatBody b := by
  induction a with
  | nil => rfl
  | cons x xs ih => simp only [List.cons_append, flatBody, ih, List.append_assoc]

theorem flatList_append (a b : List Item) : flatList (a ++ b) = flatList a ++ flatList b := by
  induction a with
  | nil => simp [flatList]
  | cons x xs ih => simp only [List.cons_append, flatList, ih, List.append_assoc]

theorem flatNoWsList_append (a b : List Item) :
    flatNoWsList (a ++ b) = flatNoWsList a ++ flatNoWsList b := by
  induction a with
  | nil => simp [flatNoWsList]
  | cons x xs ih => simp only [List.cons_append, flatNoWsList, ih, List.append_assoc]

/-- `s` is the text of a list of grammar items, and it has no white space outside strings -/
def Gr (s : Str) : Prop := ∃ is : List Item, flatList is = s ∧ flatNoWsList is = s

/-- `s` is the text of a string body of the grammar -/
def Bd (s : Str) : Prop := ∃ b : List StrCh, flatBody b = s

theorem Gr.nil : Gr [] := ⟨[], by simp [flatList], by simp [flatNoWsList]⟩

theorem Gr.append {a b : Str} (ha : Gr a) (hb : Gr b) : Gr (a ++ b) := by
  obtain ⟨ia, ha1, ha2⟩ := ha
  obtain ⟨ib, hb1, hb2⟩ := hb
  exact ⟨ia ++ ib, by rw [flatList_append, ha1, hb1], by rw [flatNoWsList_append, ha2, hb2]⟩

theorem Gr.ch (c : Char) (h : isPlainCh c = true) : Gr [c] :=
  ⟨[.ch c h], by simp [flatList, flat], by simp [flatNoWsList, flatNoWs]⟩

theorem Gr.plain (s : Str) (h : ∀ c ∈ s, isPlainCh c = true) : Gr s := by
  induction s with
  | nil => exact Gr.nil
  | cons c s ih =>
    exact Gr.append (a := [c]) (Gr.ch c (h c (List.mem_cons_self ..)))
      (ih (fun x hx => h x (List.mem_cons_of_mem _ hx)))

theorem Gr.str {s : Str} (h : Bd s) : Gr ('"' :: s ++ ['"']) := by
  obtain ⟨b, hb⟩ := h
  exact ⟨[.str b], by simp [flatList, flat, hb], by simp [flatNoWsList, flatNoWs, hb]⟩

theorem Gr.obj {s : Str} (h : Gr s) : Gr ('{' :: s ++ ['}']) := by
  obtain ⟨is, h1, h2⟩ := h
  exact ⟨[.obj is], by simp [flatList, flat, h1], by simp [flatNoWsList, flatNoWs, h2]⟩

theorem Bd.nil : Bd [] := ⟨[], rfl⟩

theorem Bd.append {a b : Str} (ha : Bd a) (hb : Bd b) : Bd (a ++ b) := by
  obtain ⟨ia, ha⟩ := ha
  obtain ⟨ib, hb⟩ := hb
  exact ⟨ia ++ ib, by rw [flatBody_append, ha, hb]⟩

theorem Bd.esc (c : Char) : Bd ['\\', c] := ⟨[.esc c], by simp [flatBody, StrCh.flat]⟩

theorem Bd.plain (c : Char) (h : c ≠ '"' ∧ c ≠ '\\') : Bd [c] :=
  ⟨[.plain c h], by simp [flatBody, StrCh.flat]⟩

theorem hexDigitLower_ok : ∀ d, d < 16 → hexDigitLower d ≠ '"' ∧ hexDigitLower d ≠ '\\' := by
  decide

theorem Bd.u4 (n : Nat) : Bd (u4 n) := by
  have m := fun k => Nat.mod_lt k (by decide : 16 > 0)
  have hd := fun k => Bd.plain _ (hexDigitLower_ok (k % 16) (m k))
  exact Bd.append (a := ['\\', 'u']) (Bd.esc 'u')
    (Bd.append (a := [_]) (hd _) (Bd.append (a := [_]) (hd _)
      (Bd.append (a := [_]) (hd _) (hd _))))

theorem Bd.quoteChar (html : Bool) (c : Char) : Bd (quoteChar html c) := by
  unfold Json.quoteChar
  repeat' split
  all_goals first
    | exact Bd.esc _
    | exact Bd.u4 _
    | exact Bd.plain _ ⟨by assumption, by assumption⟩

theorem Bd.flatMap (html : Bool) (s : Str) : Bd (s.flatMap (Json.quoteChar html)) := by
  induction s with
  | nil => exact Bd.nil
  | cons c s ih => rw [List.flatMap_cons]; exact Bd.append (Bd.quoteChar html c) ih

theorem Gr.quote (html : Bool) (s : Str) : Gr (Json.quote html s) := by
  have := Gr.str (Bd.flatMap html s)
  simpa [Json.quote] using this

/-! ### number literals contain plain characters only -/

def isNumCh (c : Char) : Bool :=
  isDigit c || c == '-' || c == '+' || c == '.' || c == 'e' || c == 'E'

theorem isPlainCh_of_isNumCh (c : Char) (h : isNumCh c = true) : isPlainCh c = true := by
  by_cases h1 : c = '{'
  · subst h1; revert h; decide
  by_cases h2 : c = '}'
  · subst h2; revert h; decide
  by_cases h3 : c = '"'
  · subst h3; revert h; decide
  by_cases h4 : c = '\n'
  · subst h4; revert h; decide
  by_cases h5 : c = '\r'
  · subst h5; revert h; decide
  by_cases h6 : c = '\t'
  · subst h6; revert h; decide
  by_cases h7 : c = ' '
  · subst h7; revert h; decide
  simp [isPlainCh, isJsonWs, h1, h2, h3, h4, h5, h6, h7]

theorem digits1_numCh (x d r : Str) (hx : digits1 x = some (d, r)) : ∀ c ∈ d, isNumCh c = true := by
  simp only [digits1] at hx
  split at hx
  · cases hx
  · simp only [Option.some.injEq, Prod.mk.injEq] at hx
    intro c hc
    rw [← hx.1] at hc
    have := List.all_eq_true.1 (List.all_takeWhile (l := x) (p := isDigit)) c hc
    simp [isNumCh, this]

theorem numInt_numCh (x ip r : Str) (hx : numInt x = some (ip, r)) :
    ∀ c ∈ ip, isNumCh c = true := by
  cases x with
  | nil => simp [numInt, digits1_nil] at hx
  | cons c tl =>
    by_cases hc : c = '0'
    · subst hc
      simp only [numInt, Option.some.injEq, Prod.mk.injEq] at hx
      rw [← hx.1]; decide
    · rw [numInt_of_ne c tl hc] at hx
      cases hd : digits1 (c :: tl) with
      | none => simp [hd] at hx
      | some p =>
        obtain ⟨d', r'⟩ := p
        simp only [hd, Option.some.injEq, Prod.mk.injEq] at hx
        rw [← hx.1]; exact digits1_numCh _ _ _ hd

theorem numFrac_numCh (x fp r : Str) (hx : numFrac x = some (fp, r)) :
    ∀ c ∈ fp, isNumCh c = true := by
  cases x with
  | nil =>
    simp only [numFrac, Option.some.injEq, Prod.mk.injEq] at hx
    rw [← hx.1]; simp
  | cons c tl =>
    by_cases hc : c = '.'
    · subst hc
      simp only [numFrac] at hx
      cases hd : digits1 tl with
      | none => simp [hd] at hx
      | some p =>
        obtain ⟨d', r'⟩ := p
        simp only [hd, Option.some.injEq, Prod.mk.injEq] at hx
        rw [← hx.1]
        intro x hx'
        rcases List.mem_cons.1 hx' with h | h
        · subst h; decide
        · exact digits1_numCh _ _ _ hd x h
    · unfold numFrac at hx
      split at hx
      · next heq => simp only [List.cons.injEq] at heq; exact absurd heq.1 hc
      · simp only [Option.some.injEq, Prod.mk.injEq] at hx
        rw [← hx.1]; simp

theorem numExpSign_numCh (r : Str) : ∀ c ∈ (numExpSign r).1, isNumCh c = true := by
  unfold numExpSign
  split <;>
    (intro c hc; simp only [List.mem_cons, List.not_mem_nil, or_false] at hc
     try (subst hc; decide))

theorem numExp_numCh (x ep r : Str) (hx : numExp x = some (ep, r)) :
    ∀ c ∈ ep, isNumCh c = true := by
  cases x with
  | nil =>
    simp only [numExp, Option.some.injEq, Prod.mk.injEq] at hx
    rw [← hx.1]; simp
  | cons e tl =>
    simp only [numExp] at hx
    split at hx
    · next he =>
      cases hd : digits1 (numExpSign tl).2 with
      | none => simp [hd] at hx
      | some p =>
        obtain ⟨d', r'⟩ := p
        simp only [hd, Option.some.injEq, Prod.mk.injEq] at hx
        rw [← hx.1]
        intro x hx'
        rcases List.mem_cons.1 hx' with h | h
        · subst h
          simp only [Bool.or_eq_true, decide_eq_true_eq] at he
          rcases he with he | he <;> subst he <;> decide
        · rcases List.mem_append.1 h with h | h
          · exact numExpSign_numCh _ x h
          · exact digits1_numCh _ _ _ hd x h
    · simp only [Option.some.injEq, Prod.mk.injEq] at hx
      rw [← hx.1]; simp

theorem numSign_numCh (s : Str) : ∀ c ∈ (numSign s).1, isNumCh c = true := by
  unfold numSign
  split <;>
    (intro c hc; simp only [List.mem_cons, List.not_mem_nil, or_false] at hc
     try (subst hc; decide))

theorem numberLit_numCh (x t r : Str) (hx : numberLit x = some (t, r)) :
    ∀ c ∈ t, isNumCh c = true := by
  rw [numberLit_eq] at hx
  cases h1 : numInt (numSign x).2 with
  | none => simp [h1] at hx
  | some p1 =>
    obtain ⟨ip, s2⟩ := p1
    simp only [h1] at hx
    cases h2 : numFrac s2 with
    | none => simp [h2] at hx
    | some p2 =>
      obtain ⟨fp, s3⟩ := p2
      simp only [h2] at hx
      cases h3 : numExp s3 with
      | none => simp [h3] at hx
      | some p3 =>
        obtain ⟨ep, s4⟩ := p3
        simp only [h3, Option.some.injEq, Prod.mk.injEq] at hx
        rw [← hx.1]
        intro c hc
        simp only [List.mem_append] at hc
        rcases hc with ((hc | hc) | hc) | hc
        · exact numSign_numCh _ c hc
        · exact numInt_numCh _ _ _ h1 c hc
        · exact numFrac_numCh _ _ _ h2 c hc
        · exact numExp_numCh _ _ _ h3 c hc

theorem Gr.num (lit : Str) (h : NumOk lit = true) : Gr lit :=
  Gr.plain lit (fun c hc =>
    isPlainCh_of_isNumCh c (numberLit_numCh lit lit [] ((NumOk_iff lit).1 h) c hc))

/-! ### the compact encoder writes texts of the grammar -/

mutual
theorem gr_encN : ∀ (html : Bool) (v : Val), JsonShaped v = true → Gr (encN html v)
  | html, .null, _ => by simp only [encN]; exact Gr.plain _ (by decide)
  | html, .bool true, _ => by simp only [encN]; exact Gr.plain _ (by decide)
  | html, .bool false, _ => by simp only [encN]; exact Gr.plain _ (by decide)
  | html, .num t, h => by
      simp only [JsonShaped, Bool.and_eq_true] at h
      simp only [encN]
      exact Gr.num _ h.2
  | html, .str s, _ => by simp only [encN]; exact Gr.quote html s
  | html, .list xs, h => by
      simp only [JsonShaped] at h
      simp only [encN]
      exact Gr.append (Gr.append (Gr.ch '[' (by decide)) (gr_encList html xs h))
        (Gr.ch ']' (by decide))
  | html, .map kvs, h => by
      simp only [JsonShaped, Bool.and_eq_true] at h
      simp only [encN]
      exact Gr.obj (gr_encEntries html kvs h.1)
theorem gr_encList : ∀ (html : Bool) (xs : List Val), JsonShapedList xs = true →
    Gr (encList html xs)
  | html, [], _ => by simp only [encList]; exact Gr.nil
  | html, [x], h => by
      simp only [JsonShapedList, Bool.and_eq_true] at h
      simp only [encList]; exact gr_encN html x h.1
  | html, x :: y :: rest, h => by
      simp only [JsonShapedList, Bool.and_eq_true] at h
      simp only [encList]
      exact Gr.append (Gr.append (gr_encN html x h.1) (Gr.ch ',' (by decide)))
        (gr_encList html (y :: rest) (by simp only [JsonShapedList, Bool.and_eq_true]; exact h.2))
theorem gr_encEntries : ∀ (html : Bool) (kvs : Entries), JsonShapedEntries kvs = true →
    Gr (encEntries html kvs)
  | html, [], _ => by simp only [encEntries]; exact Gr.nil
  | html, [(k, v)], h => by
      simp only [JsonShapedEntries, Bool.and_eq_true] at h
      simp only [encEntries]
      exact Gr.append (Gr.append (Gr.quote html k) (Gr.ch ':' (by decide))) (gr_encN html v h.1)
  | html, (k, v) :: e :: rest, h => by
      rw [JsonShapedEntries, Bool.and_eq_true] at h
      simp only [encEntries]
      exact Gr.append (Gr.append (Gr.append (Gr.append (Gr.quote html k) (Gr.ch ':' (by decide)))
        (gr_encN html v h.1)) (Gr.ch ',' (by decide)))
        (gr_encEntries html (e :: rest) h.2)
end

/-- the compact encoding of a JSON-shaped Map is an object text of the grammar -/
theorem mapJson_items (safe : Bool) (m : Entries) (hm : JsonShaped (.map m) = true) :
    ∃ items, flat (.obj items) = mapJson safe (.map m) ∧
      flatNoWs (.obj items) = mapJson safe (.map m) := by
  have hn := jsonShaped_norm (.map m) hm
  simp only [Val.norm, JsonShaped, Bool.and_eq_true] at hn
  obtain ⟨items, h1, h2⟩ := gr_encEntries safe _ hn.1
  refine ⟨items, ?_, ?_⟩
  · simp only [flat, mapJson, Val.norm, encN, h1]; simp
  · simp only [flatNoWs, mapJson, Val.norm, encN, h2]; simp

/-- the scanner cuts exactly one encoded Map off the front of the input -/
theorem getJson_mapJson (safe : Bool) (m : Entries) (hm : JsonShaped (.map m) = true) (rest : Str) :
    getJson (plain (mapJson safe (.map m) ++ rest)) {}
      = (.doc (mapJson safe (.map m)), plain rest) := by
  obtain ⟨items, h1, h2⟩ := mapJson_items safe m hm
  have := getJson_obj [] (by simp) items rest
  rwa [List.nil_append, h1, h2] at this

/-- an encoded Map starts with its opening brace -/
theorem mapJson_head (safe : Bool) (m : Entries) :
    ∃ tl, mapJson safe (.map m) = '{' :: tl := by
  exact ⟨_, by simp only [mapJson, Val.norm, encN]; rfl⟩

/-! ### the scanner inside an object -/

/-- inside an object: an opening brace was seen and not all braces are closed -/
def Good (st : JState) : Prop := st.inJson = true ∧ 0 < st.paren

theorem good_inObj (jb : Str) (p : Nat) : Good (inObj jb p) := ⟨rfl, Nat.succ_pos _⟩

theorem endRes_good (st : JState) (h : Good st) : endRes st = .noClose st.jb.reverse := by
  simp [endRes, h.1, h.2]

/-- a byte that does not end the scan leaves the scanner inside the object -/
theorem stepJ_good (c : Char) (st st' : JState) (h : Good st) (hs : stepJ c st = .inr st') :
    Good st' := by
  obtain ⟨jb, q, j, p, e⟩ := st
  obtain ⟨hj, hp⟩ := h
  simp only at hj hp
  subst hj
  by_cases h1 : c = '{'
  · subst h1
    cases q <;> simp [stepJ] at hs <;> subst hs <;> simp [Good] <;> omega
  by_cases h2 : c = '}'
  · subst h2
    cases q
    · by_cases hp1 : p = 1
      · subst hp1; simp [stepJ] at hs
      · have : ¬ (p - 1 = 0) := by omega
        have : ¬ (p = 0) := by omega
        simp [stepJ, *] at hs
        subst hs; simp [Good]; omega
    · simp [stepJ] at hs
      have : ¬ (p = 0) := by omega
      simp [*] at hs
      subst hs; simp [Good]; omega
  by_cases h3 : c = '"'
  · subst h3
    simp [stepJ] at hs
    subst hs; exact ⟨rfl, hp⟩
  · simp only [stepJ, h1, h2, h3, if_false] at hs
    split at hs <;> simp only [Sum.inr.injEq] at hs <;> subst hs <;> exact ⟨rfl, hp⟩

/-- input that runs out while the scanner is inside an object: "no closing }".  The hypothesis
    says that with `b ≠ []` appended the scan does not stop before the end of `a ++ b`. -/
theorem getJson_cut_good (a : Str) : ∀ (st : JState) (b : Str), b ≠ [] → Good st →
    (getJson (plain (a ++ b)) st).2 = [] →
    ∃ raw, getJson (plain a) st = (.noClose raw, []) := by
  induction a with
  | nil =>
    intro st b _ hg _
    exact ⟨_, by rw [plain_nil, getJson_nil, endRes_good st hg]⟩
  | cons c a ih =>
    intro st b hb hg h
    rw [List.cons_append, getJson_plain_cons] at h
    rw [getJson_plain_cons]
    cases hs : stepJ c st with
    | inl r =>
      rw [hs] at h
      simp only at h
      cases a <;> cases b <;> simp [plain] at h hb
    | inr st' =>
      rw [hs] at h
      exact ih st' b hb (stepJ_good c st st' hg hs) h

/-- a proper non-empty prefix of a text the scanner reads as exactly one document (to the last
    byte) ends inside the object -/
theorem getJson_cut (a b : Str) (ha : ∃ tl, a = '{' :: tl) (hb : b ≠ [])
    (h : (getJson (plain (a ++ b)) {}).2 = []) :
    ∃ raw, getJson (plain a) {} = (.noClose raw, []) := by
  obtain ⟨tl, rfl⟩ := ha
  rw [List.cons_append, getJson_plain_cons, step_first_open] at h
  rw [getJson_plain_cons, step_first_open]
  exact getJson_cut_good tl _ b hb (good_inObj _ _) h

/-- a returned document, and what is left unread, do not depend on what follows the input -/
theorem getJson_doc_append (a : Str) : ∀ (st : JState) (raw : Str) (r s : Sched),
    getJson (plain a) st = (.doc raw, r) → getJson (plain a ++ s) st = (.doc raw, r ++ s) := by
  induction a with
  | nil =>
    intro st raw r s h
    rw [plain_nil, getJson_nil] at h
    unfold endRes at h
    split at h <;> cases h
  | cons c a ih =>
    intro st raw r s h
    rw [plain_cons, getJson_byte] at h
    rw [plain_cons, List.cons_append, getJson_byte]
    cases hs : stepJ c st with
    | inl x =>
      rw [hs] at h
      simp only [Prod.mk.injEq] at h
      simp only [h.1, h.2]
    | inr st' =>
      rw [hs] at h
      exact ih st' raw r s h

theorem getJson_mapJson_sched (safe : Bool) (m : Entries) (hm : JsonShaped (.map m) = true)
    (s : Sched) :
    getJson (plain (mapJson safe (.map m)) ++ s) {} = (.doc (mapJson safe (.map m)), s) := by
  have h := getJson_mapJson safe m hm []
  rw [List.append_nil, plain_nil] at h
  have := getJson_doc_append _ _ _ _ s h
  rwa [List.nil_append] at this

/-! ### the file loop -/

/-- `readMapsJson` does not depend on the delivery schedule -/
theorem readMapsJson_sched_free : ∀ (n : Nat) (s : Sched) (acc : List Val), Tame s = true →
    readMapsJson n s acc = readMapsJson n (plain (bytesOf s)) acc := by
  intro n
  induction n with
  | zero => intro s acc _; rfl
  | succ f ih =>
    intro s acc hs
    have h := getJson_sched_free s {} hs
    obtain ⟨y, hy⟩ := getJson_plain_rest (bytesOf s) {}
    have hd := getJson_doc_tame s {}
    simp only [readMapsJson]
    generalize getJson s {} = a at h hd
    generalize getJson (plain (bytesOf s)) {} = b at h hy
    obtain ⟨r1, s1⟩ := a
    obtain ⟨r2, s2⟩ := b
    simp only at h hy hd
    obtain ⟨h1, h2⟩ := h
    subst h1 hy
    rw [bytesOf_plain] at h2
    cases r1 with
    | doc raw =>
      simp only
      have e1 := fun acc' => ih s1 acc' (hd raw hs rfl)
      rw [h2] at e1
      cases newMapJson raw with
      | none => rfl
      | some v =>
        cases v <;> simp only [e1]
    | eof raw => rfl
    | noClose raw => rfl
    | stray raw => rfl
    | ioerr raw => rfl

/-- one round of the loop on an encoded Map: it is decoded to its normal form and the loop goes
    on with what follows -/
theorem readMapsJson_step (m : Entries) (hm : JsonShaped (.map m) = true) (f : Nat) (s : Sched)
    (acc : List Val) :
    readMapsJson (f + 1) (plain (mapJson false (.map m)) ++ s) acc
      = readMapsJson f s (Val.norm (.map m) :: acc) := by
  rw [readMapsJson, getJson_mapJson_sched false m hm s]
  simp only [newMapJson_mapJson false m hm, Val.norm]

theorem jsonString_nil : jsonString [] = [] := rfl
theorem jsonString_cons (v : Val) (vs : List Val) :
    jsonString (v :: vs) = mapJson false v ++ jsonString vs := by
  simp [jsonString]

/-- the loop over what `JsonFile` wrote, followed by any schedule `s`: every Map comes back (as
    its normal form), in order, and the loop goes on with `s` -/
theorem readMapsJson_file (ms : List Entries) : (∀ m ∈ ms, JsonShaped (.map m) = true) →
    ∀ (f : Nat) (s : Sched) (acc : List Val),
    readMapsJson (ms.length + f) (plain (jsonString (ms.map Val.map)) ++ s) acc
      = readMapsJson f s ((ms.map (fun m => Val.norm (.map m))).reverse ++ acc) := by
  induction ms with
  | nil => intro _ f s acc; simp [jsonString_nil, plain_nil]
  | cons m ms ih =>
    intro hms f s acc
    have hm := hms m (List.mem_cons_self ..)
    have ih' := ih (fun x hx => hms x (List.mem_cons_of_mem _ hx)) f s (Val.norm (.map m) :: acc)
    have e : (m :: ms).length + f = (ms.length + f) + 1 := by simp only [List.length_cons]; omega
    rw [e, List.map_cons, jsonString_cons, plain_append, List.append_assoc,
      readMapsJson_step m hm, ih']
    simp

/-- at the end of the input the loop stops without error -/
theorem readMapsJson_end (f : Nat) (acc : List Val) :
    readMapsJson (f + 1) [] acc = ⟨acc.reverse, false⟩ := by
  simp [readMapsJson, getJson_nil, endRes]

/-- a scanner error stops the loop with the Maps read so far -/
theorem readMapsJson_noClose (f : Nat) (s rest : Sched) (acc : List Val) (raw : Str)
    (h : getJson s {} = (.noClose raw, rest)) :
    readMapsJson (f + 1) s acc = ⟨acc.reverse, true⟩ := by
  simp [readMapsJson, h]

/-! ### the scanner level: the documents are the per-Map encodings -/

theorem readAll_jsonString (ms : List Entries) : (∀ m ∈ ms, JsonShaped (.map m) = true) →
    ∀ n, ms.length < n →
      readAll n (plain (jsonString (ms.map Val.map)))
        = (ms.map (fun m => mapJson false (.map m)), some (.eof [])) := by
  induction ms with
  | nil =>
    intro _ n hn
    cases n with
    | zero => simp at hn
    | succ f => simp [jsonString_nil, plain_nil, readAll, getJson_nil, endRes]
  | cons m ms ih =>
    intro hms n hn
    cases n with
    | zero => simp at hn
    | succ f =>
      have hf : ms.length < f := by simp at hn; omega
      rw [List.map_cons, jsonString_cons, readAll,
        getJson_mapJson false m (hms m (List.mem_cons_self ..))]
      simp only [ih (fun x hx => hms x (List.mem_cons_of_mem _ hx)) f hf, List.map_cons]

/-! ### documents separated by skippable characters (new lines, blanks, commas, …) -/

/-- encoded Maps, each preceded by some separator text -/
def sepText : List (Str × Entries) → Str
  | [] => []
  | d :: ds => d.1 ++ mapJson false (.map d.2) ++ sepText ds

theorem getJson_lead_mapJson (lead : Str) (hlead : ∀ c ∈ lead, c ≠ '{' ∧ c ≠ '}' ∧ c ≠ '"')
    (m : Entries) (hm : JsonShaped (.map m) = true) (rest : Str) :
    getJson (plain (lead ++ mapJson false (.map m) ++ rest)) {}
      = (.doc (mapJson false (.map m)), plain rest) := by
  obtain ⟨items, h1, h2⟩ := mapJson_items false m hm
  have := getJson_obj lead hlead items rest
  rwa [h1, h2] at this

theorem readMapsJson_separated (docs : List (Str × Entries)) :
    (∀ d ∈ docs, ∀ c ∈ d.1, c ≠ '{' ∧ c ≠ '}' ∧ c ≠ '"') →
    (∀ d ∈ docs, JsonShaped (.map d.2) = true) →
    ∀ (trail : Str), (∀ c ∈ trail, c ≠ '{' ∧ c ≠ '}' ∧ c ≠ '"') →
    ∀ (f : Nat) (acc : List Val), docs.length < f →
      readMapsJson f (plain (sepText docs ++ trail)) acc
        = ⟨acc.reverse ++ docs.map (fun d => Val.norm (.map d.2)), false⟩ := by
  induction docs with
  | nil =>
    intro _ _ trail htrail f acc hf
    cases f with
    | zero => simp at hf
    | succ f => simp [sepText, readMapsJson, getJson_trail trail htrail]
  | cons d ds ih =>
    intro hlead hms trail htrail f acc hf
    cases f with
    | zero => simp at hf
    | succ f =>
      have hf' : ds.length < f := by simp at hf; omega
      have hm := hms d (List.mem_cons_self ..)
      have h1 := getJson_lead_mapJson d.1 (hlead d (List.mem_cons_self ..)) d.2 hm
        (sepText ds ++ trail)
      simp only [sepText, List.append_assoc] at h1 ⊢
      rw [readMapsJson, h1]
      simp only [newMapJson_mapJson false d.2 hm, Val.norm]
      rw [ih (fun x hx => hlead x (List.mem_cons_of_mem _ hx))
        (fun x hx => hms x (List.mem_cons_of_mem _ hx)) trail htrail f _ hf']
      simp [Val.norm]

end Mxj.Files
