/-
  Mxj.Lemmas.PermQuery — "m' is m with the entries of every map permuted" (`ValPerm`) and the
  invariance of the path walker under it.  Go's hash-iteration order is the entry order of the
  association list in the model; these lemmas say the query answers do not depend on it.
-/
import Mxj.Lemmas.Path
namespace Mxj
open Denote

/-- memberwise relation on two lists of values (core has no `Forall₂`) -/
inductive All2 (R : Val → Val → Prop) : List Val → List Val → Prop
  | nil : All2 R [] []
  | cons {a b : Val} {l l' : List Val} : R a b → All2 R l l' → All2 R (a :: l) (b :: l')

/-- entrywise relation: same keys in the same order, related values -/
inductive EntAll2 (R : Val → Val → Prop) : Entries → Entries → Prop
  | nil : EntAll2 R [] []
  | cons (k : Str) {v w : Val} {r r' : Entries} :
      R v w → EntAll2 R r r' → EntAll2 R ((k, v) :: r) ((k, w) :: r')

/-- `ValPerm m m'`: `m'` is `m` with the entries of every map, at every depth, permuted -/
inductive ValPerm : Val → Val → Prop
  | refl (v : Val) : ValPerm v v
  | list {xs ys : List Val} : All2 ValPerm xs ys → ValPerm (.list xs) (.list ys)
  | map {kvs mid kvs' : Entries} :
      List.Perm kvs mid → EntAll2 ValPerm mid kvs' → ValPerm (.map kvs) (.map kvs')

/-- the two answer lists are permutations of each other, members compared up to `ValPerm` -/
def PermR (l l' : List Val) : Prop := ∃ mid, List.Perm l mid ∧ All2 ValPerm mid l'

theorem F2_refl : ∀ l : List Val, All2 ValPerm l l
  | [] => .nil
  | x :: xs => .cons (.refl x) (F2_refl xs)

theorem F2_append {R : Val → Val → Prop} {a a' b b' : List Val}
    (h1 : All2 R a a') (h2 : All2 R b b') :
    All2 R (a ++ b) (a' ++ b') := by
  induction h1 with
  | nil => simpa using h2
  | cons h _ ih => exact .cons h ih

theorem PermR.refl (l : List Val) : PermR l l := ⟨l, List.Perm.refl l, F2_refl l⟩
theorem PermR.of_F2 {l l' : List Val} (h : All2 ValPerm l l') : PermR l l' :=
  ⟨l, List.Perm.refl l, h⟩
theorem PermR.of_perm_left {l m l' : List Val} (p : List.Perm l m) (h : PermR m l') :
    PermR l l' := by
  obtain ⟨mid, p', f⟩ := h; exact ⟨mid, p.trans p', f⟩

theorem PermR.append {a a' b b' : List Val} (h1 : PermR a a') (h2 : PermR b b') :
    PermR (a ++ b) (a' ++ b') := by
  obtain ⟨m1, p1, f1⟩ := h1; obtain ⟨m2, p2, f2⟩ := h2
  exact ⟨m1 ++ m2, List.Perm.append p1 p2, F2_append f1 f2⟩

theorem PermR.length {l l' : List Val} (h : PermR l l') : l.length = l'.length := by
  obtain ⟨mid, p, f⟩ := h
  rw [p.length_eq]
  clear p
  induction f with
  | nil => rfl
  | cons _ _ ih => simp [ih]

/-- flatMap over related lists with a function that respects the relation -/
theorem F2_flatMap {R : Val → Val → Prop} {f g : Val → List Val} {l l' : List Val}
    (h : All2 R l l')
    (hf : ∀ a b, a ∈ l → R a b → PermR (f a) (g b)) : PermR (l.flatMap f) (l'.flatMap g) := by
  induction h with
  | nil => exact PermR.refl []
  | @cons a b l l' hab _ ih =>
    simp only [List.flatMap_cons]
    exact PermR.append (hf a b (by simp) hab)
      (ih (fun x y hx hxy => hf x y (List.mem_cons_of_mem _ hx) hxy))

theorem F2_flatMap_F2 {R : Val → Val → Prop} {f g : Val → List Val} {l l' : List Val}
    (h : All2 R l l')
    (hf : ∀ a b, a ∈ l → R a b → All2 ValPerm (f a) (g b)) :
    All2 ValPerm (l.flatMap f) (l'.flatMap g) := by
  induction h with
  | nil => exact .nil
  | @cons a b l l' hab _ ih =>
    simp only [List.flatMap_cons]
    exact F2_append (hf a b (by simp) hab)
      (ih (fun x y hx hxy => hf x y (List.mem_cons_of_mem _ hx) hxy))

theorem PermR.flatMap {f : Val → List Val} {l l' : List Val} (h : PermR l l')
    (hf : ∀ a b, a ∈ l → ValPerm a b → PermR (f a) (f b)) :
    PermR (l.flatMap f) (l'.flatMap f) := by
  obtain ⟨mid, p, f2⟩ := h
  exact PermR.of_perm_left (List.Perm.flatMap_right f p)
    (F2_flatMap f2 (fun a b ha => hf a b (p.mem_iff.2 ha)))

/-! ### lookup on permuted entries -/

theorem lookup_mem {k : Str} {v : Val} : ∀ {l : Entries}, lookup k l = some v → (k, v) ∈ l
  | [], h => by simp [lookup] at h
  | (k', v') :: rest, h => by
    unfold lookup at h
    by_cases hk : k = k'
    · simp [hk] at h; subst hk; subst h; simp
    · simp [hk] at h; exact List.mem_cons_of_mem _ (lookup_mem h)

theorem lookup_none_not_mem {k : Str} : ∀ {l : Entries}, lookup k l = none → ∀ v, (k, v) ∉ l
  | [], _, _ => by simp
  | (k', v') :: rest, h, v => by
    unfold lookup at h
    by_cases hk : k = k'
    · simp [hk] at h
    · simp [hk] at h
      intro hm
      rcases List.mem_cons.1 hm with e | e
      · exact hk (by injection e)
      · exact lookup_none_not_mem h v e

theorem mem_lookup_of_distinct {k : Str} {v : Val} :
    ∀ {l : Entries}, distinctKeys l = true → (k, v) ∈ l → lookup k l = some v
  | [], _, h => by simp at h
  | (k', v') :: rest, hd, hm => by
    simp only [distinctKeys, Bool.and_eq_true, Bool.not_eq_true', List.any_eq_false] at hd
    unfold lookup
    rcases List.mem_cons.1 hm with e | e
    · injection e with e1 e2; subst e1; subst e2; simp
    · by_cases hk : k = k'
      · subst hk
        have := hd.1 (k, v) e
        simp at this
      · simp [hk]; exact mem_lookup_of_distinct hd.2 e

theorem lookup_perm {k : Str} {kvs mid : Entries} (hd : distinctKeys kvs = true)
    (p : List.Perm kvs mid) : lookup k mid = lookup k kvs := by
  cases h : lookup k mid with
  | some v => exact (mem_lookup_of_distinct hd (p.mem_iff.2 (lookup_mem h))).symm
  | none =>
    cases h' : lookup k kvs with
    | none => rfl
    | some w => exact absurd (p.mem_iff.1 (lookup_mem h')) (lookup_none_not_mem h w)

theorem lookup_all2 {R : Val → Val → Prop} {k : Str} {mid kvs' : Entries}
    (h : EntAll2 R mid kvs') :
    (lookup k mid = none ∧ lookup k kvs' = none)
      ∨ ∃ v w, lookup k mid = some v ∧ lookup k kvs' = some w ∧ R v w := by
  induction h with
  | nil => left; simp [lookup]
  | @cons k' v w r r' hvw _ ih =>
    unfold lookup
    by_cases hk : k = k'
    · right; exact ⟨v, w, by simp [hk], by simp [hk], hvw⟩
    · simpa [hk] using ih

/-- the look-up in a permuted map finds the permuted value -/
theorem lookup_valperm {k : Str} {kvs mid kvs' : Entries} (hd : distinctKeys kvs = true)
    (p : List.Perm kvs mid) (h : EntAll2 ValPerm mid kvs') :
    (lookup k kvs = none ∧ lookup k kvs' = none)
      ∨ ∃ v w, lookup k kvs = some v ∧ lookup k kvs' = some w ∧ ValPerm v w := by
  rw [← lookup_perm hd p]; exact lookup_all2 h

theorem all2_values {R : Val → Val → Prop} {mid kvs' : Entries} (h : EntAll2 R mid kvs') :
    All2 R (mid.map (·.2)) (kvs'.map (·.2)) := by
  induction h with
  | nil => exact .nil
  | cons k hvw _ ih => exact .cons hvw ih

/-! ### well-formedness of members -/

theorem wfList_mem : ∀ {xs : List Val}, Val.wfList xs = true → ∀ x ∈ xs, x.wf = true
  | [], _, _, hx => by simp at hx
  | y :: ys, h, x, hx => by
    simp only [Val.wfList, Bool.and_eq_true] at h
    rcases List.mem_cons.1 hx with e | e
    · subst e; exact h.1
    · exact wfList_mem h.2 x e

theorem wfEntries_mem : ∀ {kvs : Entries}, Val.wfEntries kvs = true → ∀ e ∈ kvs, e.2.wf = true
  | [], _, _, hx => by simp at hx
  | (k, v) :: ys, h, x, hx => by
    simp only [Val.wfEntries, Bool.and_eq_true] at h
    rcases List.mem_cons.1 hx with e | e
    · subst e; exact h.1
    · exact wfEntries_mem h.2 x e

theorem wf_map {kvs : Entries} (h : (Val.map kvs).wf = true) :
    distinctKeys kvs = true ∧ ∀ e ∈ kvs, e.2.wf = true := by
  simp only [Val.wf, Bool.and_eq_true] at h
  exact ⟨h.2, wfEntries_mem h.1⟩

theorem wf_list {xs : List Val} (h : (Val.list xs).wf = true) : ∀ x ∈ xs, x.wf = true := by
  simp only [Val.wf] at h
  exact wfList_mem h

theorem lookup_wf {k : Str} {kvs : Entries} {v : Val} (h : (Val.map kvs).wf = true)
    (hl : lookup k kvs = some v) : v.wf = true :=
  (wf_map h).2 (k, v) (lookup_mem hl)

/-! ### one frontier step -/

/-- the step of `walk_step` -/
def step1 (k : Str) (m : Val) : List Val :=
  match plainStep k with
  | .wild => stepWild m
  | .key k' => stepKey k' m
  | .idx _ _ => []

theorem selKey_valperm (k : Str) {m m' : Val} (hw : m.wf = true) (h : ValPerm m m') :
    All2 ValPerm (selKey k m) (selKey k m') := by
  cases h with
  | refl => exact F2_refl _
  | list _ => exact .nil
  | map p a =>
    simp only [selKey]
    rcases lookup_valperm (k := k) (wf_map hw).1 p a with ⟨h1, h2⟩ | ⟨v, w, h1, h2, hvw⟩
    · rw [h1, h2]; exact .nil
    · rw [h1, h2]; exact .cons hvw .nil

theorem selKey_wf (k : Str) {m : Val} (hw : m.wf = true) : ∀ x ∈ selKey k m, x.wf = true := by
  cases m with
  | map kvs =>
    intro x hx
    simp only [selKey] at hx
    cases hl : lookup k kvs with
    | none => simp [hl] at hx
    | some v => simp [hl] at hx; subst hx; exact lookup_wf hw hl
  | _ => intro x hx; simp [selKey] at hx

/-- a key step keeps the ORDER of the answers -/
theorem stepKey_valperm (k : Str) {m m' : Val} (hw : m.wf = true) (h : ValPerm m m') :
    All2 ValPerm (stepKey k m) (stepKey k m') := by
  cases h with
  | refl => exact F2_refl _
  | list f =>
    simp only [stepKey]
    exact F2_flatMap_F2 f (fun a b ha hab => selKey_valperm k (wf_list hw a ha) hab)
  | map p a => exact selKey_valperm k hw (.map p a)

theorem mem_flatMap' {f : Val → List Val} {l : List Val} {x : Val} (h : x ∈ l.flatMap f) :
    ∃ a ∈ l, x ∈ f a := by simpa [List.mem_flatMap] using h

theorem stepKey_wf (k : Str) {m : Val} (hw : m.wf = true) :
    ∀ x ∈ stepKey k m, x.wf = true := by
  cases m with
  | list xs =>
    intro x hx
    simp only [stepKey] at hx
    obtain ⟨a, ha, hxa⟩ := mem_flatMap' hx
    exact selKey_wf k (wf_list hw a ha) x hxa
  | map kvs => exact selKey_wf k hw
  | _ => intro x hx; simp [stepKey, selKey] at hx

/-- the wildcard on one list member -/
def wildMember (x : Val) : List Val :=
  match x with
  | .map kvs => kvs.map (·.2)
  | y => [y]

theorem stepWild_list (xs : List Val) : stepWild (.list xs) = xs.flatMap wildMember := by
  simp only [stepWild]; congr 1

theorem values_permR {kvs mid kvs' : Entries} (p : List.Perm kvs mid)
    (a : EntAll2 ValPerm mid kvs') : PermR (kvs.map (·.2)) (kvs'.map (·.2)) :=
  ⟨mid.map (·.2), p.map _, all2_values a⟩

theorem wildMember_valperm {m m' : Val} (h : ValPerm m m') :
    PermR (wildMember m) (wildMember m') := by
  cases h with
  | refl => exact PermR.refl _
  | list f => exact PermR.of_F2 (.cons (.list f) .nil)
  | map p a => exact values_permR p a

theorem values_wf {kvs : Entries} (hw : (Val.map kvs).wf = true) :
    ∀ x ∈ kvs.map (·.2), x.wf = true := by
  intro x hx
  obtain ⟨e, he, rfl⟩ := List.mem_map.1 hx
  exact (wf_map hw).2 e he

theorem wildMember_wf {m : Val} (hw : m.wf = true) : ∀ x ∈ wildMember m, x.wf = true := by
  cases m with
  | map kvs => exact values_wf hw
  | _ => intro x hx; simp [wildMember] at hx; subst hx; exact hw

/-- a wildcard step: the answers are permuted -/
theorem stepWild_valperm {m m' : Val} (hw : m.wf = true) (h : ValPerm m m') :
    PermR (stepWild m) (stepWild m') := by
  cases h with
  | refl => exact PermR.refl _
  | list f =>
    rw [stepWild_list, stepWild_list]
    exact F2_flatMap f (fun a b _ hab => wildMember_valperm hab)
  | map p a => exact values_permR p a

theorem stepWild_wf {m : Val} (hw : m.wf = true) : ∀ x ∈ stepWild m, x.wf = true := by
  cases m with
  | list xs =>
    intro x hx
    rw [stepWild_list] at hx
    obtain ⟨a, ha, hxa⟩ := mem_flatMap' hx
    exact wildMember_wf (wf_list hw a ha) x hxa
  | map kvs => exact values_wf hw
  | _ => intro x hx; simp [stepWild, selAll] at hx

theorem step1_valperm (k : Str) {m m' : Val} (hw : m.wf = true) (h : ValPerm m m') :
    PermR (step1 k m) (step1 k m') := by
  unfold step1 plainStep
  by_cases hk : k = ['*']
  · simp only [hk, if_true]; exact stepWild_valperm hw h
  · simp only [hk, if_false]; exact PermR.of_F2 (stepKey_valperm k hw h)

theorem step1_key_valperm (k : Str) (hk : k ≠ ['*']) {m m' : Val} (hw : m.wf = true)
    (h : ValPerm m m') : All2 ValPerm (step1 k m) (step1 k m') := by
  unfold step1 plainStep
  simp only [hk, if_false]; exact stepKey_valperm k hw h

theorem step1_wf (k : Str) {m : Val} (hw : m.wf = true) : ∀ x ∈ step1 k m, x.wf = true := by
  unfold step1 plainStep
  by_cases hk : k = ['*']
  · simp only [hk, if_true]; exact stepWild_wf hw
  · simp only [hk, if_false]; exact stepKey_wf k hw

theorem walk_step1 (subs : Option SubKeys) (k : Str) (ks : List Str) (m : Val) :
    walk subs m (k :: ks) = (step1 k m).flatMap (fun v => walk subs v ks) :=
  walk_step subs k ks m

/-! ### the leaf: sub-key conditions look only at scalars under distinct keys -/

theorem subCond_valperm {kvs mid kvs' : Entries} (hd : distinctKeys kvs = true)
    (p : List.Perm kvs mid) (a : EntAll2 ValPerm mid kvs') (skey : Str) (sval : SubVal) :
    subCond kvs skey sval = subCond kvs' skey sval := by
  unfold subCond
  rcases lookup_valperm (k := if hasPrefix ['!'] skey then skey.drop 1 else skey) hd p a
    with ⟨h1, h2⟩ | ⟨v, w, h1, h2, hvw⟩
  · simp only [h1, h2]
  · simp only [h1, h2]
    cases hvw with
    | refl => rfl
    | list _ => cases sval <;> rfl
    | map _ _ => cases sval <;> rfl

theorem hasSubKeys_valperm {m m' : Val} (hw : m.wf = true) (h : ValPerm m m') (s : SubKeys) :
    hasSubKeys m s = hasSubKeys m' s := by
  cases h with
  | refl => rfl
  | list _ => simp [hasSubKeys]
  | map p a =>
    unfold hasSubKeys
    have : (fun (x : Str × SubVal) => subCond _ x.1 x.2) = fun x => subCond _ x.1 x.2 :=
      funext fun x => subCond_valperm (wf_map hw).1 p a x.1 x.2
    simp only [this]

theorem passSubs_valperm (subs : Option SubKeys) {m m' : Val} (hw : m.wf = true)
    (h : ValPerm m m') : passSubs subs m = passSubs subs m' := by
  cases subs with
  | none => rfl
  | some s => exact hasSubKeys_valperm hw h s

theorem F2_filter {q : Val → Bool} {l l' : List Val} (f : All2 ValPerm l l')
    (hq : ∀ a b, a ∈ l → ValPerm a b → q a = q b) :
    All2 ValPerm (l.filter q) (l'.filter q) := by
  induction f with
  | nil => exact .nil
  | @cons a b l l' hab _ ih =>
    have e := hq a b (by simp) hab
    have ih' := ih (fun x y hx hxy => hq x y (List.mem_cons_of_mem _ hx) hxy)
    simp only [List.filter_cons, ← e]
    cases q a
    · simpa using ih'
    · simpa using All2.cons hab ih'

/-- the leaf keeps the order -/
theorem loadLeaf_valperm (subs : Option SubKeys) {m m' : Val} (hw : m.wf = true)
    (h : ValPerm m m') : All2 ValPerm (loadLeaf subs m) (loadLeaf subs m') := by
  cases h with
  | refl => exact F2_refl _
  | list f =>
    simp only [loadLeaf]
    exact F2_filter f (fun a b ha hab => passSubs_valperm subs (wf_list hw a ha) hab)
  | map p a =>
    simp only [loadLeaf, ← passSubs_valperm subs hw (.map p a)]
    cases passSubs subs (.map _)
    · simpa using All2.nil
    · simpa using All2.cons (ValPerm.map p a) .nil

/-! ### the walker -/

/-- the answers of the walker on a map-permuted value are a permutation of the answers on the
    value (each answer itself map-permuted) -/
theorem walk_valperm (subs : Option SubKeys) : ∀ (ks : List Str) {m m' : Val},
    m.wf = true → ValPerm m m' → PermR (walk subs m ks) (walk subs m' ks)
  | [], m, m', hw, h => by
    rw [walk_nil, walk_nil]; exact PermR.of_F2 (loadLeaf_valperm subs hw h)
  | k :: ks, m, m', hw, h => by
    rw [walk_step1, walk_step1]
    exact PermR.flatMap (step1_valperm k hw h)
      (fun a b ha hab => walk_valperm subs ks (step1_wf k hw a ha) hab)

/-- without a wildcard the ORDER of the answers is kept -/
theorem walk_valperm_ordered (subs : Option SubKeys) : ∀ (ks : List Str) {m m' : Val},
    (∀ k ∈ ks, k ≠ ['*']) → m.wf = true → ValPerm m m' →
    All2 ValPerm (walk subs m ks) (walk subs m' ks)
  | [], m, m', _, hw, h => by
    rw [walk_nil, walk_nil]; exact loadLeaf_valperm subs hw h
  | k :: ks, m, m', hk, hw, h => by
    rw [walk_step1, walk_step1]
    exact F2_flatMap_F2 (step1_key_valperm k (hk k (by simp)) hw h)
      (fun a b ha hab => walk_valperm_ordered subs ks
        (fun k' hk' => hk k' (List.mem_cons_of_mem _ hk')) (step1_wf k hw a ha) hab)

end Mxj
