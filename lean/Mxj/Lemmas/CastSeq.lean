/-
  Mxj.Lemmas.CastSeq — helper lemmas for Mxj.Props.C14ExtSeq (namespace `Mxj.CastSeq`): casting in
  the sequence-preserving decoder (`seqElem` / `seqTop` / `newMapXmlSeq` of Mxj.Model.Seq).

  (1) `LRel L`: two values have the same shape (lists of the same length, maps with the same
      keys in the same order) and corresponding leaves are related by `L`;  preservation by
      `insert`, `lookup`, `addChild`, `seqChild`;
  (2) the PARAMETRICITY theorem of the sequence decoder (`LRel_seqElem`, `LRel_seqTop`,
      `LRel_newMapXmlSeq`): run the decoder on the same tokens under two cast configurations /
      `Strconv`s whose leaf casts are `L`-related — same control flow, same unread tokens,
      `L`-related values.  Every statement of C14ExtSeq about "all leaves" is an instance;
  (3) `AllLeaves P` (every leaf satisfies `P`) as the diagonal of `LRel`;
  (4) text runs: fuel irrelevance above the token count, the merge step for two adjacent
      CharData tokens, and its lifting to a split anywhere in a token stream.
-/
import Mxj.Lemmas.Cast
import Mxj.Lemmas.Total
import Mxj.Lemmas.Seq
import Mxj.Lemmas.SeqIndent
namespace Mxj
namespace CastSeq

/-! ### (1) the leaf-wise relation -/

mutual
/-- same shape, same keys in the same order, leaves related by `L` -/
def LRel (L : Val → Val → Prop) : Val → Val → Prop
  | .list xs, w => ∃ ys, w = .list ys ∧ LRelList L xs ys
  | .map kvs, w => ∃ kvs', w = .map kvs' ∧ LRelEntries L kvs kvs'
  | .null, w => L .null w
  | .bool b, w => L (.bool b) w
  | .num x, w => L (.num x) w
  | .str s, w => L (.str s) w
def LRelList (L : Val → Val → Prop) : List Val → List Val → Prop
  | [], ys => ys = []
  | x :: xs, ys => ∃ y ys', ys = y :: ys' ∧ LRel L x y ∧ LRelList L xs ys'
def LRelEntries (L : Val → Val → Prop) : Entries → Entries → Prop
  | [], b => b = []
  | (k, v) :: rest, b => ∃ w rest', b = (k, w) :: rest' ∧ LRel L v w ∧ LRelEntries L rest rest'
end

section Rel
variable (L : Val → Val → Prop)

/-- at a leaf the relation is `L` -/
theorem LRel_leaf (v w : Val) (hl : v.isList = false) (hm : v.isMap = false) :
    LRel L v w ↔ L v w := by
  cases v with
  | list xs => simp [Val.isList] at hl
  | map a => simp [Val.isMap] at hm
  | null => unfold LRel; exact Iff.rfl
  | bool b => unfold LRel; exact Iff.rfl
  | num x => unfold LRel; exact Iff.rfl
  | str s => unfold LRel; exact Iff.rfl

theorem LRel_scalar (v w : Val) (hv : Dec.scalar v = true) : LRel L v w ↔ L v w := by
  apply LRel_leaf <;> cases v <;> simp_all [Dec.scalar, Val.isList, Val.isMap]

theorem LRel_list (xs ys : List Val) : LRel L (.list xs) (.list ys) ↔ LRelList L xs ys := by
  constructor
  · intro h; unfold LRel at h; obtain ⟨ys', he, h⟩ := h; cases he; exact h
  · intro h; unfold LRel; exact ⟨ys, rfl, h⟩

theorem LRel_map (a b : Entries) : LRel L (.map a) (.map b) ↔ LRelEntries L a b := by
  constructor
  · intro h; unfold LRel at h; obtain ⟨b', he, h⟩ := h; cases he; exact h
  · intro h; unfold LRel; exact ⟨b, rfl, h⟩

theorem LRelList_nil : LRelList L [] [] := by unfold LRelList; rfl

theorem LRelList_cons (x y : Val) (xs ys : List Val) :
    LRelList L (x :: xs) (y :: ys) ↔ LRel L x y ∧ LRelList L xs ys := by
  constructor
  · intro h; unfold LRelList at h; obtain ⟨y', ys', he, h1, h2⟩ := h; cases he; exact ⟨h1, h2⟩
  · intro h; unfold LRelList; exact ⟨y, ys, rfl, h.1, h.2⟩

theorem LRelEntries_nil : LRelEntries L [] [] := by unfold LRelEntries; rfl

theorem LRelEntries_cons (k k' : Str) (v w : Val) (a b : Entries) :
    LRelEntries L ((k, v) :: a) ((k', w) :: b) ↔ k = k' ∧ LRel L v w ∧ LRelEntries L a b := by
  constructor
  · intro h; unfold LRelEntries at h; obtain ⟨w', b', he, h1, h2⟩ := h; cases he; exact ⟨rfl, h1, h2⟩
  · intro h; obtain ⟨rfl, h1, h2⟩ := h; unfold LRelEntries; exact ⟨w, b, rfl, h1, h2⟩

theorem LRelList_append : ∀ (xs ys xs' ys' : List Val), LRelList L xs ys →
    LRelList L xs' ys' → LRelList L (xs ++ xs') (ys ++ ys') := by
  intro xs
  induction xs with
  | nil => intro ys xs' ys' h h'; unfold LRelList at h; subst h; simpa using h'
  | cons x xs ih =>
    intro ys xs' ys' h h'
    unfold LRelList at h
    obtain ⟨y, ys1, rfl, h1, h2⟩ := h
    rw [List.cons_append, List.cons_append, LRelList_cons]
    exact ⟨h1, ih _ _ _ h2 h'⟩

/-- same keys, in the same order -/
theorem LRelEntries_keys : ∀ (a b : Entries), LRelEntries L a b → keys a = keys b := by
  intro a
  induction a with
  | nil => intro b h; unfold LRelEntries at h; subst h; rfl
  | cons hd rest ih =>
    obtain ⟨k, v⟩ := hd
    intro b h
    unfold LRelEntries at h
    obtain ⟨w, b', rfl, _, h2⟩ := h
    simp only [keys, List.map_cons] at ih ⊢
    rw [ih b' h2]

theorem LRelList_length : ∀ (a b : List Val), LRelList L a b → a.length = b.length := by
  intro a
  induction a with
  | nil => intro b h; unfold LRelList at h; subst h; rfl
  | cons x xs ih =>
    intro b h
    unfold LRelList at h
    obtain ⟨y, ys, rfl, _, h2⟩ := h
    simp [ih ys h2]

theorem LRelEntries_isEmpty (a b : Entries) (h : LRelEntries L a b) : b.isEmpty = a.isEmpty := by
  cases a with
  | nil => unfold LRelEntries at h; subst h; rfl
  | cons hd rest =>
    obtain ⟨k, v⟩ := hd
    unfold LRelEntries at h
    obtain ⟨w, b', rfl, _, _⟩ := h
    rfl

/-- relation on `lookup` results -/
def LRelOpt : Option Val → Option Val → Prop
  | none, none => True
  | some v, some w => LRel L v w
  | _, _ => False

theorem LRelEntries_lookup (k : Str) : ∀ (a b : Entries), LRelEntries L a b →
    LRelOpt L (lookup k a) (lookup k b) := by
  intro a
  induction a with
  | nil => intro b h; unfold LRelEntries at h; subst h; simp [lookup, LRelOpt]
  | cons hd rest ih =>
    obtain ⟨k', v⟩ := hd
    intro b h
    unfold LRelEntries at h
    obtain ⟨w, b', rfl, h1, h2⟩ := h
    unfold lookup
    by_cases hk : k = k'
    · simp only [hk, if_true]; exact h1
    · simp only [hk, if_false]; exact ih b' h2

theorem LRelEntries_insert (k : Str) (v w : Val) (hv : LRel L v w) :
    ∀ (a b : Entries), LRelEntries L a b → LRelEntries L (insert k v a) (insert k w b) := by
  intro a
  induction a with
  | nil =>
    intro b h; unfold LRelEntries at h; subst h
    simp only [insert]
    exact (LRelEntries_cons L _ _ _ _ _ _).2 ⟨rfl, hv, LRelEntries_nil L⟩
  | cons hd rest ih =>
    obtain ⟨k', v'⟩ := hd
    intro b h
    unfold LRelEntries at h
    obtain ⟨w', b', rfl, h1, h2⟩ := h
    unfold insert
    by_cases hk : k = k'
    · simp only [hk, if_true]
      exact (LRelEntries_cons L _ _ _ _ _ _).2 ⟨rfl, hv, h2⟩
    · simp only [hk, if_false]
      exact (LRelEntries_cons L _ _ _ _ _ _).2 ⟨rfl, h1, ih b' h2⟩

/-- `L` relates leaves to leaves only (the right-hand value is no list and no map) -/
def ScalarRight : Prop := ∀ v w, L v w → w.isList = false ∧ w.isMap = false

variable (hS : ScalarRight L)
include hS

theorem LRel_isList (v w : Val) (h : LRel L v w) : w.isList = v.isList := by
  cases v with
  | list xs => unfold LRel at h; obtain ⟨ys, rfl, _⟩ := h; rfl
  | map a => unfold LRel at h; obtain ⟨b, rfl, _⟩ := h; rfl
  | null => unfold LRel at h; exact (hS _ _ h).1
  | bool b => unfold LRel at h; exact (hS _ _ h).1
  | num x => unfold LRel at h; exact (hS _ _ h).1
  | str s => unfold LRel at h; exact (hS _ _ h).1

theorem LRelEntries_addChild (a b : Entries) (k : Str) (v w : Val)
    (hE : LRelEntries L a b) (hv : LRel L v w) :
    LRelEntries L (addChild a k v) (addChild b k w) := by
  have hl := LRelEntries_lookup L k a b hE
  cases ha : lookup k a with
  | none =>
    cases hb : lookup k b with
    | none =>
      rw [addChild_none a k v ha, addChild_none b k w hb]
      exact LRelEntries_insert L k v w hv a b hE
    | some _ => rw [ha, hb] at hl; exact hl.elim
  | some old =>
    cases hb : lookup k b with
    | none => rw [ha, hb] at hl; exact hl.elim
    | some wold =>
      rw [ha, hb] at hl
      have hl : LRel L old wold := hl
      cases hol : old.isList with
      | true =>
        cases old with
        | list xs =>
          have hl' := hl
          unfold LRel at hl'
          obtain ⟨ys, rfl, hxs⟩ := hl'
          rw [addChild_list a k v xs ha, addChild_list b k w ys hb]
          apply LRelEntries_insert L k _ _ _ a b hE
          rw [LRel_list]
          exact LRelList_append L _ _ _ _ hxs ((LRelList_cons L _ _ _ _).2 ⟨hv, LRelList_nil L⟩)
        | _ => simp [Val.isList] at hol
      | false =>
        have hwl : wold.isList = false := by rw [LRel_isList L hS _ _ hl]; exact hol
        rw [addChild_other a k v old ha hol, addChild_other b k w wold hb hwl]
        apply LRelEntries_insert L k _ _ _ a b hE
        rw [LRel_list]
        exact (LRelList_cons L _ _ _ _).2 ⟨hl, (LRelList_cons L _ _ _ _).2 ⟨hv, LRelList_nil L⟩⟩

theorem LRel_seqChild (c : SeqCfg) (seq : Nat) (v w : Val) (hnum : L (seqNum seq) (seqNum seq))
    (h : LRel L v w) : LRel L (seqChild c seq v) (seqChild c seq w) := by
  have hn : LRel L (seqNum seq) (seqNum seq) := by unfold seqNum; unfold LRel; exact hnum
  have two : ∀ v w : Val, LRel L v w →
      LRel L (.map [(c.textK, v), (c.seqK, seqNum seq)]) (.map [(c.textK, w), (c.seqK, seqNum seq)]) := by
    intro v w h
    rw [LRel_map]
    exact (LRelEntries_cons L _ _ _ _ _ _).2 ⟨rfl, h,
      (LRelEntries_cons L _ _ _ _ _ _).2 ⟨rfl, hn, LRelEntries_nil L⟩⟩
  have leaf : ∀ v w : Val, v.isMap = false → w.isMap = false →
      seqChild c seq v = .map [(c.textK, v), (c.seqK, seqNum seq)] ∧
      seqChild c seq w = .map [(c.textK, w), (c.seqK, seqNum seq)] := by
    intro v w hv hw
    constructor
    · cases v <;> simp_all [seqChild, Val.isMap]
    · cases w <;> simp_all [seqChild, Val.isMap]
  cases v with
  | map a =>
    have h' := h
    unfold LRel at h'; obtain ⟨b, rfl, hab⟩ := h'
    simp only [seqChild]
    rw [LRel_map]
    exact LRelEntries_insert L _ _ _ hn a b hab
  | list xs =>
    have h' := h
    unfold LRel at h'; obtain ⟨ys, rfl, _⟩ := h'
    simp only [seqChild]
    exact two _ _ h
  | null =>
    have hw : w.isMap = false := by unfold LRel at h; exact (hS _ _ h).2
    obtain ⟨e1, e2⟩ := leaf .null w rfl hw
    rw [e1, e2]; exact two _ _ h
  | bool b =>
    have hw : w.isMap = false := by unfold LRel at h; exact (hS _ _ h).2
    obtain ⟨e1, e2⟩ := leaf (.bool b) w rfl hw
    rw [e1, e2]; exact two _ _ h
  | num x =>
    have hw : w.isMap = false := by unfold LRel at h; exact (hS _ _ h).2
    obtain ⟨e1, e2⟩ := leaf (.num x) w rfl hw
    rw [e1, e2]; exact two _ _ h
  | str s =>
    have hw : w.isMap = false := by unfold LRel at h; exact (hS _ _ h).2
    obtain ⟨e1, e2⟩ := leaf (.str s) w rfl hw
    rw [e1, e2]; exact two _ _ h

end Rel

/-! ### (2) parametricity of the sequence decoder in the leaf cast -/

/-- `c` with another cast configuration, everything else unchanged -/
def withCast (c : SeqCfg) (cc : CastCfg) : SeqCfg := { c with cast := cc }

theorem withCast_self (c : SeqCfg) : withCast c c.cast = c := by cases c; rfl

/-- what the two runs must have in common: `L` relates leaves to leaves, the two leaf casts of
    every text, every string with itself, every sequence number with itself -/
structure LeafHyp (L : Val → Val → Prop) (S1 S2 : Strconv) (cc1 cc2 : CastCfg) : Prop where
  scalar : ScalarRight L
  hcast : ∀ s, L (cast S1 cc1 s []) (cast S2 cc2 s [])
  str : ∀ s, L (.str s) (.str s)
  seq : ∀ n, L (seqNum n) (seqNum n)

section Param
variable {L : Val → Val → Prop} {S1 S2 : Strconv} {cc1 cc2 : CastCfg}
variable (H : LeafHyp L S1 S2 cc1 cc2) (c : SeqCfg)
include H

theorem LRel_cast (s : Str) : LRel L (cast S1 cc1 s []) (cast S2 cc2 s []) :=
  (LRel_scalar L _ _ (Dec.cast_scalar _ _ _ _)).2 (H.hcast s)

theorem LRel_str (s : Str) : LRel L (.str s) (.str s) := by unfold LRel; exact H.str s

theorem LRel_seqNum (n : Nat) : LRel L (seqNum n) (seqNum n) := by
  unfold seqNum; unfold LRel; exact H.seq n

/-- the `{#text, #seq}` map of a cast text -/
theorem LRel_textSeq (s : Str) (n : Nat) :
    LRel L (.map [(c.textK, cast S1 cc1 s []), (c.seqK, seqNum n)])
      (.map [(c.textK, cast S2 cc2 s []), (c.seqK, seqNum n)]) := by
  rw [LRel_map]
  exact (LRelEntries_cons L _ _ _ _ _ _).2 ⟨rfl, LRel_cast H s,
    (LRelEntries_cons L _ _ _ _ _ _).2 ⟨rfl, LRel_seqNum H n, LRelEntries_nil L⟩⟩

/-- a comment / directive entry: identical on both sides -/
theorem LRel_metaText (s : Str) (n : Nat) :
    LRel L (.map [(c.textK, .str s), (c.seqK, seqNum n)]) (.map [(c.textK, .str s), (c.seqK, seqNum n)]) := by
  rw [LRel_map]
  exact (LRelEntries_cons L _ _ _ _ _ _).2 ⟨rfl, LRel_str H s,
    (LRelEntries_cons L _ _ _ _ _ _).2 ⟨rfl, LRel_seqNum H n, LRelEntries_nil L⟩⟩

theorem LRel_metaPI (t i : Str) (n : Nat) :
    LRel L (.map [(c.targetK, .str t), (c.instK, .str i), (c.seqK, seqNum n)])
      (.map [(c.targetK, .str t), (c.instK, .str i), (c.seqK, seqNum n)]) := by
  rw [LRel_map]
  exact (LRelEntries_cons L _ _ _ _ _ _).2 ⟨rfl, LRel_str H t,
    (LRelEntries_cons L _ _ _ _ _ _).2 ⟨rfl, LRel_str H i,
      (LRelEntries_cons L _ _ _ _ _ _).2 ⟨rfl, LRel_seqNum H n, LRelEntries_nil L⟩⟩⟩

theorem LRel_seqAttrs : ∀ (attrs : List Attr) (i : Nat) (a b : Entries), LRelEntries L a b →
    LRelEntries L (seqAttrs (withCast c cc1) S1 i attrs a) (seqAttrs (withCast c cc2) S2 i attrs b) := by
  intro attrs
  induction attrs with
  | nil => intro i a b h; simpa [seqAttrs] using h
  | cons x rest ih =>
    intro i a b h
    simp only [seqAttrs]
    apply ih
    exact LRelEntries_insert L _ _ _ (LRel_textSeq H c _ i) a b h

theorem LRel_seqInitNa (attrs : List Attr) :
    LRelEntries L (seqInitNa (withCast c cc1) S1 attrs) (seqInitNa (withCast c cc2) S2 attrs) := by
  unfold seqInitNa
  split
  · exact LRelEntries_nil L
  · refine (LRelEntries_cons L _ _ _ _ _ _).2 ⟨rfl, ?_, LRelEntries_nil L⟩
    rw [LRel_map]
    exact LRel_seqAttrs H c attrs 0 [] [] (LRelEntries_nil L)

/-- the CharData step: related entries, same sequence counter and pending run -/
theorem LRel_onText (na nb : Entries) (seq : Nat) (pend : Option (Str × Bool)) (s : Str)
    (hE : LRelEntries L na nb) :
    LRelEntries L (SeqFold.onText (withCast c cc1) S1 na seq pend s).1
        (SeqFold.onText (withCast c cc2) S2 nb seq pend s).1 ∧
      (SeqFold.onText (withCast c cc2) S2 nb seq pend s).2
        = (SeqFold.onText (withCast c cc1) S1 na seq pend s).2 := by
  have h1 : ∀ x, escDecIf (withCast c cc1).dec x = escDecIf (withCast c cc2).dec x := fun _ => rfl
  have h2 : trimSet (withCast c cc1).dec = trimSet (withCast c cc2).dec := rfl
  have h3 : (withCast c cc1).textK = (withCast c cc2).textK := rfl
  have h4 : (withCast c cc1).seqK = (withCast c cc2).seqK := rfl
  have h5 : (withCast c cc1).cast = cc1 := rfl
  have h6 : (withCast c cc2).cast = cc2 := rfl
  rcases pend with _ | ⟨p, b⟩
  · simp only [SeqFold.onText, h1, h2, h3, h4, h5, h6]
    by_cases e1 : (escDecIf (withCast c cc2).dec (trimChars (trimSet (withCast c cc2).dec)
        ([] ++ s))).isEmpty = true
    · simp only [e1, if_true]; exact ⟨hE, trivial⟩
    · simp only [e1, if_false, Bool.false_eq_true]
      exact ⟨LRelEntries_insert L _ _ _ (LRel_seqNum H _) _ _
        (LRelEntries_insert L _ _ _ (LRel_cast H _) na nb hE), trivial⟩
  · simp only [SeqFold.onText, h1, h2, h3, h4, h5, h6]
    by_cases e1 : (escDecIf (withCast c cc2).dec (trimChars (trimSet (withCast c cc2).dec)
        (p ++ s))).isEmpty = true
    · simp only [e1, if_true]; exact ⟨hE, trivial⟩
    · cases b
      · simp only [e1, if_false, Bool.false_eq_true]
        exact ⟨LRelEntries_insert L _ _ _ (LRel_seqNum H _) _ _
          (LRelEntries_insert L _ _ _ (LRel_cast H _) na nb hE), trivial⟩
      · simp only [e1, if_false, if_true, Bool.false_eq_true]
        exact ⟨LRelEntries_insert L _ _ _ (LRel_cast H _) na nb hE, trivial⟩

/-- outcomes of the element loop: identical control flow, related values, same unread tokens -/
def LRelOut (L : Val → Val → Prop) :
    Outcome (Val × List Tok) → Outcome (Val × List Tok) → Prop
  | .ok (v, r), .ok (w, r') => LRel L v w ∧ r = r'
  | .eof, .eof => True
  | .syntax, .syntax => True
  | .err a, .err b => a = b
  | .panic a, .panic b => a = b
  | _, _ => False

theorem LRel_seqElem (fin : StreamEnd) :
    ∀ (f : Nat) (skey : Str) (na nb : Entries) (seq : Nat) (pend : Option (Str × Bool))
      (toks : List Tok), LRelEntries L na nb →
      LRelOut L (seqElem (withCast c cc1) S1 fin f skey na seq pend toks)
        (seqElem (withCast c cc2) S2 fin f skey nb seq pend toks) := by
  intro f
  induction f with
  | zero => intro skey na nb seq pend toks _; simp [seqElem, LRelOut]
  | succ f ih =>
    intro skey na nb seq pend toks hE
    cases toks with
    | nil => cases fin <;> simp [seqElem, LRelOut]
    | cons tok toks =>
      cases tok with
      | start sp name attrs =>
        simp only [seqElem]
        have hk : qualName (withCast c cc1) sp name = qualName (withCast c cc2) sp name := rfl
        rw [hk]
        have h1 := ih (qualName (withCast c cc2) sp name) _ _ 0 none toks (LRel_seqInitNa H c attrs)
        revert h1
        cases seqElem (withCast c cc1) S1 fin f (qualName (withCast c cc2) sp name)
            (seqInitNa (withCast c cc1) S1 attrs) 0 none toks with
        | ok p0 =>
          obtain ⟨v0, r0⟩ := p0
          cases seqElem (withCast c cc2) S2 fin f (qualName (withCast c cc2) sp name)
              (seqInitNa (withCast c cc2) S2 attrs) 0 none toks with
          | ok p1 =>
            obtain ⟨v1, r1⟩ := p1
            intro h1
            simp only [LRelOut] at h1
            obtain ⟨hv, rfl⟩ := h1
            simp only
            have hd : LRel L (seqChild (withCast c cc1) seq v0) (seqChild (withCast c cc2) seq v1) :=
              LRel_seqChild L H.scalar c seq v0 v1 (H.seq seq) hv
            exact ih skey _ _ _ none r0 (LRelEntries_addChild L H.scalar na nb _ _ _ hE hd)
          | eof => intro h1; simp [LRelOut] at h1
          | «syntax» => intro h1; simp [LRelOut] at h1
          | err k => intro h1; simp [LRelOut] at h1
          | panic s => intro h1; simp [LRelOut] at h1
        | eof =>
          cases seqElem (withCast c cc2) S2 fin f (qualName (withCast c cc2) sp name)
              (seqInitNa (withCast c cc2) S2 attrs) 0 none toks <;>
            intro h1 <;> simp [LRelOut] at h1 ⊢
        | «syntax» =>
          cases seqElem (withCast c cc2) S2 fin f (qualName (withCast c cc2) sp name)
              (seqInitNa (withCast c cc2) S2 attrs) 0 none toks <;>
            intro h1 <;> simp [LRelOut] at h1 ⊢
        | err k =>
          cases seqElem (withCast c cc2) S2 fin f (qualName (withCast c cc2) sp name)
              (seqInitNa (withCast c cc2) S2 attrs) 0 none toks <;>
            intro h1 <;> simp [LRelOut] at h1 ⊢
          exact h1
        | panic s =>
          cases seqElem (withCast c cc2) S2 fin f (qualName (withCast c cc2) sp name)
              (seqInitNa (withCast c cc2) S2 attrs) 0 none toks <;>
            intro h1 <;> simp [LRelOut] at h1 ⊢
          exact h1
      | stop sp name =>
        simp only [seqElem]
        have hk : qualName (withCast c cc1) sp name = qualName (withCast c cc2) sp name := rfl
        rw [hk, LRelEntries_isEmpty L na nb hE]
        split
        · simp [LRelOut]
        · simp only [LRelOut, and_true]
          split
          · exact LRel_str H []
          · rw [LRel_map]; exact hE
      | text s =>
        rw [SeqL.seqElem_text, SeqL.seqElem_text]
        obtain ⟨hE', h2⟩ := LRel_onText H c na nb seq pend s hE
        rw [h2]
        exact ih _ _ _ _ _ _ hE'
      | comment s =>
        simp only [seqElem]
        exact ih _ _ _ _ _ _ (LRelEntries_insert L _ _ _ (LRel_metaText H c s seq) na nb hE)
      | directive s =>
        simp only [seqElem]
        exact ih _ _ _ _ _ _ (LRelEntries_insert L _ _ _ (LRel_metaText H c s seq) na nb hE)
      | procinst t i =>
        simp only [seqElem]
        exact ih _ _ _ _ _ _ (LRelEntries_insert L _ _ _ (LRel_metaPI H c t i seq) na nb hE)

/-- results of the first call: same kind; a document's values are related, a no-root result
    (which holds no cast value) is identical -/
def LRelTop (L : Val → Val → Prop) : Outcome SeqTop → Outcome SeqTop → Prop
  | .ok (.doc v), .ok (.doc w) => LRel L v w
  | .ok (.noRoot v), .ok (.noRoot w) => LRel L v w ∧ w = v
  | .eof, .eof => True
  | .syntax, .syntax => True
  | .err a, .err b => a = b
  | .panic a, .panic b => a = b
  | _, _ => False

theorem LRel_seqTop (fin : StreamEnd) : ∀ (f : Nat) (toks : List Tok),
    LRelTop L (seqTop (withCast c cc1) S1 fin f toks) (seqTop (withCast c cc2) S2 fin f toks) := by
  intro f
  induction f with
  | zero => intro toks; simp [seqTop, LRelTop]
  | succ f ih =>
    intro toks
    cases toks with
    | nil => cases fin <;> simp [seqTop, LRelTop]
    | cons tok toks =>
      cases tok with
      | start sp name attrs =>
        simp only [seqTop]
        have hk : qualName (withCast c cc1) sp name = qualName (withCast c cc2) sp name := rfl
        rw [hk]
        have h1 := LRel_seqElem H c fin f (qualName (withCast c cc2) sp name) _ _ 0 none toks
          (LRel_seqInitNa H c attrs)
        revert h1
        cases seqElem (withCast c cc1) S1 fin f (qualName (withCast c cc2) sp name)
            (seqInitNa (withCast c cc1) S1 attrs) 0 none toks with
        | ok p0 =>
          obtain ⟨v0, r0⟩ := p0
          cases seqElem (withCast c cc2) S2 fin f (qualName (withCast c cc2) sp name)
              (seqInitNa (withCast c cc2) S2 attrs) 0 none toks with
          | ok p1 =>
            obtain ⟨v1, r1⟩ := p1
            intro h1
            simp only [LRelOut] at h1
            simp only [LRelTop]
            rw [LRel_map]
            exact (LRelEntries_cons L _ _ _ _ _ _).2 ⟨rfl, h1.1, LRelEntries_nil L⟩
          | eof => intro h1; simp [LRelOut] at h1
          | «syntax» => intro h1; simp [LRelOut] at h1
          | err k => intro h1; simp [LRelOut] at h1
          | panic s => intro h1; simp [LRelOut] at h1
        | eof =>
          cases seqElem (withCast c cc2) S2 fin f (qualName (withCast c cc2) sp name)
              (seqInitNa (withCast c cc2) S2 attrs) 0 none toks <;>
            intro h1 <;> simp [LRelOut, LRelTop] at h1 ⊢
        | «syntax» =>
          cases seqElem (withCast c cc2) S2 fin f (qualName (withCast c cc2) sp name)
              (seqInitNa (withCast c cc2) S2 attrs) 0 none toks <;>
            intro h1 <;> simp [LRelOut, LRelTop] at h1 ⊢
        | err k =>
          cases seqElem (withCast c cc2) S2 fin f (qualName (withCast c cc2) sp name)
              (seqInitNa (withCast c cc2) S2 attrs) 0 none toks <;>
            intro h1 <;> simp [LRelOut, LRelTop] at h1 ⊢
          exact h1
        | panic s =>
          cases seqElem (withCast c cc2) S2 fin f (qualName (withCast c cc2) sp name)
              (seqInitNa (withCast c cc2) S2 attrs) 0 none toks <;>
            intro h1 <;> simp [LRelOut, LRelTop] at h1 ⊢
          exact h1
      | stop sp name => simp [seqTop, LRelTop]
      | text s => simp only [seqTop]; exact ih _
      | comment s =>
        simp only [seqTop, LRelTop]
        refine ⟨?_, rfl⟩
        rw [LRel_map]
        exact (LRelEntries_cons L _ _ _ _ _ _).2 ⟨rfl, LRel_str H s, LRelEntries_nil L⟩
      | directive s =>
        simp only [seqTop, LRelTop]
        refine ⟨?_, rfl⟩
        rw [LRel_map]
        exact (LRelEntries_cons L _ _ _ _ _ _).2 ⟨rfl, LRel_str H s, LRelEntries_nil L⟩
      | procinst t i =>
        simp only [seqTop, LRelTop]
        refine ⟨?_, rfl⟩
        rw [LRel_map]
        refine (LRelEntries_cons L _ _ _ _ _ _).2 ⟨rfl, ?_, LRelEntries_nil L⟩
        rw [LRel_map]
        exact (LRelEntries_cons L _ _ _ _ _ _).2 ⟨rfl, LRel_str H t,
          (LRelEntries_cons L _ _ _ _ _ _).2 ⟨rfl, LRel_str H i, LRelEntries_nil L⟩⟩

theorem LRel_newMapXmlSeq (fin : StreamEnd) (toks : List Tok) :
    LRelTop L (newMapXmlSeq (withCast c cc1) S1 toks fin) (newMapXmlSeq (withCast c cc2) S2 toks fin) :=
  LRel_seqTop H c fin _ toks

end Param

/-! ### (3) "every leaf satisfies `P`" as the diagonal of `LRel` -/

mutual
/-- every leaf (null, boolean, number, string) of the value satisfies `P` -/
def AllLeaves (P : Val → Prop) : Val → Prop
  | .list xs => AllLeavesList P xs
  | .map kvs => AllLeavesEntries P kvs
  | .null => P .null
  | .bool b => P (.bool b)
  | .num x => P (.num x)
  | .str s => P (.str s)
def AllLeavesList (P : Val → Prop) : List Val → Prop
  | [] => True
  | x :: xs => AllLeaves P x ∧ AllLeavesList P xs
def AllLeavesEntries (P : Val → Prop) : Entries → Prop
  | [] => True
  | (_, v) :: rest => AllLeaves P v ∧ AllLeavesEntries P rest
end

mutual
theorem AllLeaves_of_LRel_left {L : Val → Val → Prop} {P : Val → Prop} (hL : ∀ v w, L v w → P v) :
    ∀ (v w : Val), LRel L v w → AllLeaves P v
  | .list xs, w, h => by
      unfold LRel at h; obtain ⟨ys, rfl, h⟩ := h
      unfold AllLeaves; exact AllLeavesList_of_LRel_left hL xs ys h
  | .map a, w, h => by
      unfold LRel at h; obtain ⟨b, rfl, h⟩ := h
      unfold AllLeaves; exact AllLeavesEntries_of_LRel_left hL a b h
  | .null, w, h => by unfold LRel at h; unfold AllLeaves; exact hL _ _ h
  | .bool _, w, h => by unfold LRel at h; unfold AllLeaves; exact hL _ _ h
  | .num _, w, h => by unfold LRel at h; unfold AllLeaves; exact hL _ _ h
  | .str _, w, h => by unfold LRel at h; unfold AllLeaves; exact hL _ _ h
theorem AllLeavesList_of_LRel_left {L : Val → Val → Prop} {P : Val → Prop} (hL : ∀ v w, L v w → P v) :
    ∀ (xs ys : List Val), LRelList L xs ys → AllLeavesList P xs
  | [], _, _ => by unfold AllLeavesList; trivial
  | x :: xs, ys, h => by
      unfold LRelList at h; obtain ⟨y, ys', rfl, h1, h2⟩ := h
      unfold AllLeavesList
      exact ⟨AllLeaves_of_LRel_left hL x y h1, AllLeavesList_of_LRel_left hL xs ys' h2⟩
theorem AllLeavesEntries_of_LRel_left {L : Val → Val → Prop} {P : Val → Prop} (hL : ∀ v w, L v w → P v) :
    ∀ (a b : Entries), LRelEntries L a b → AllLeavesEntries P a
  | [], _, _ => by unfold AllLeavesEntries; trivial
  | (k, v) :: rest, b, h => by
      unfold LRelEntries at h; obtain ⟨w, b', rfl, h1, h2⟩ := h
      unfold AllLeavesEntries
      exact ⟨AllLeaves_of_LRel_left hL v w h1, AllLeavesEntries_of_LRel_left hL rest b' h2⟩
end

mutual
theorem AllLeaves_mono {P Q : Val → Prop} (hPQ : ∀ v, P v → Q v) :
    ∀ (v : Val), AllLeaves P v → AllLeaves Q v
  | .list xs, h => by unfold AllLeaves at h ⊢; exact AllLeavesList_mono hPQ xs h
  | .map a, h => by unfold AllLeaves at h ⊢; exact AllLeavesEntries_mono hPQ a h
  | .null, h => by unfold AllLeaves at h ⊢; exact hPQ _ h
  | .bool _, h => by unfold AllLeaves at h ⊢; exact hPQ _ h
  | .num _, h => by unfold AllLeaves at h ⊢; exact hPQ _ h
  | .str _, h => by unfold AllLeaves at h ⊢; exact hPQ _ h
theorem AllLeavesList_mono {P Q : Val → Prop} (hPQ : ∀ v, P v → Q v) :
    ∀ (xs : List Val), AllLeavesList P xs → AllLeavesList Q xs
  | [], _ => by unfold AllLeavesList; trivial
  | x :: xs, h => by
      unfold AllLeavesList at h ⊢
      exact ⟨AllLeaves_mono hPQ x h.1, AllLeavesList_mono hPQ xs h.2⟩
theorem AllLeavesEntries_mono {P Q : Val → Prop} (hPQ : ∀ v, P v → Q v) :
    ∀ (a : Entries), AllLeavesEntries P a → AllLeavesEntries Q a
  | [], _ => by unfold AllLeavesEntries; trivial
  | (k, v) :: rest, h => by
      unfold AllLeavesEntries at h ⊢
      exact ⟨AllLeaves_mono hPQ v h.1, AllLeavesEntries_mono hPQ rest h.2⟩
end

/-- the value of a successful top-level result, document or no-root -/
def _root_.Mxj.SeqTop.val : SeqTop → Val
  | .doc m => m
  | .noRoot m => m

/-- a leaf property that holds of every cast result, every string and every sequence number
    holds of every leaf of every decoded value -/
theorem allLeaves_newMapXmlSeq (P : Val → Prop) (c : SeqCfg) (S : Strconv)
    (hcast : ∀ s, P (cast S c.cast s [])) (hstr : ∀ s, P (.str s)) (hseq : ∀ n, P (seqNum n))
    (fin : StreamEnd) (toks : List Tok) (top : SeqTop)
    (h : newMapXmlSeq c S toks fin = .ok top) : AllLeaves P (SeqTop.val top) := by
  have H : LeafHyp (fun v w => P v ∧ Dec.scalar w = true) S S c.cast c.cast :=
    { scalar := fun _ w h => by cases w <;> simp_all [Dec.scalar, Val.isList, Val.isMap]
      hcast := fun s => ⟨hcast s, Dec.cast_scalar _ _ _ _⟩
      str := fun s => ⟨hstr s, rfl⟩
      seq := fun n => ⟨hseq n, rfl⟩ }
  have hr := LRel_newMapXmlSeq H c fin toks
  rw [withCast_self, h] at hr
  cases top with
  | doc v => exact AllLeaves_of_LRel_left (fun _ _ h => h.1) v v hr
  | noRoot v => exact AllLeaves_of_LRel_left (fun _ _ h => h.1) v v hr.1

/-! ### (4) runs of CharData tokens -/

theorem escDecIf_isEmpty (d : DecCfg) (s : Str) : (escDecIf d s).isEmpty = s.isEmpty := by
  unfold escDecIf
  split
  · cases s with
    | nil => rw [escapeChars_nil]
    | cons ch s =>
      rw [escapeChars_cons]
      have := escOne_length_pos ch
      cases h : escOne ch with
      | nil => simp [h] at this
      | cons x y => rfl
  · rfl

/-- a run that is blank after more character data was appended was blank before -/
theorem blank_of_append (d : DecCfg) (x b : Str)
    (h : (escDecIf d (trimChars (trimSet d) (x ++ b))).isEmpty = true) :
    (escDecIf d (trimChars (trimSet d) x)).isEmpty = true := by
  rw [escDecIf_isEmpty] at h ⊢
  rw [List.isEmpty_iff] at h ⊢
  rw [SeqIL.trim_nil_iff] at h ⊢
  intro ch hch
  exact h ch (List.mem_append_left _ hch)

theorem insert_insert (k : Str) (v1 v2 : Val) : ∀ (na : Entries),
    insert k v2 (insert k v1 na) = insert k v2 na
  | [] => by simp [insert]
  | (k0, v0) :: rest => by
      by_cases h : k = k0
      · simp [insert, h]
      · simp only [insert, h, if_false]
        rw [insert_insert k v1 v2 rest]

/-- overwriting `k` commutes with an intervening write to another key once `k` is present -/
theorem insert_swap (k k' : Str) (hk : k ≠ k') (v1 v2 n : Val) : ∀ (na : Entries),
    insert k v2 (insert k' n (insert k v1 na)) = insert k' n (insert k v2 na)
  | [] => by
      have hk' : ¬ k' = k := fun e => hk e.symm
      simp [insert, hk']
  | (k0, v0) :: rest => by
      have hk' : ¬ k' = k := fun e => hk e.symm
      by_cases h : k = k0
      · subst h
        simp [insert, hk']
      · by_cases h' : k' = k0
        · subst h'
          simp only [insert, h, if_false, if_true]
          rw [insert_insert]
        · simp only [insert, h, h', if_false]
          rw [insert_swap k k' hk v1 v2 n rest]

/-- two adjacent CharData tokens act like the single token holding their concatenation -/
theorem onText_merge (c : SeqCfg) (S : Strconv) (na : Entries) (seq : Nat)
    (pend : Option (Str × Bool)) (a b : Str) (hk : c.textK ≠ c.seqK) :
    SeqFold.onText c S (SeqFold.onText c S na seq pend a).1 (SeqFold.onText c S na seq pend a).2.1
      (SeqFold.onText c S na seq pend a).2.2 b = SeqFold.onText c S na seq pend (a ++ b) := by
  obtain ⟨p, b0, hp⟩ : ∃ p b0, ∀ s, SeqFold.onText c S na seq pend s
      = SeqFold.onText c S na seq (some (p, b0)) s := by
    rcases pend with _ | ⟨p, b0⟩
    · exact ⟨[], false, fun _ => rfl⟩
    · exact ⟨p, b0, fun _ => rfl⟩
  rw [hp a, hp (a ++ b)]
  by_cases e1 : (escDecIf c.dec (trimChars (trimSet c.dec) (p ++ a))).isEmpty = true
  · have hr : SeqFold.onText c S na seq (some (p, b0)) a = (na, seq, some (p ++ a, b0)) := by
      simp only [SeqFold.onText, e1, if_true]
    rw [hr]
    simp only [SeqFold.onText, List.append_assoc]
  · have e2 : ¬ (escDecIf c.dec (trimChars (trimSet c.dec) (p ++ (a ++ b)))).isEmpty = true := by
      intro h
      rw [← List.append_assoc] at h
      exact e1 (blank_of_append c.dec _ _ h)
    cases b0 with
    | true =>
      have hr : SeqFold.onText c S na seq (some (p, true)) a =
          (insert c.textK (cast S c.cast (escDecIf c.dec (trimChars (trimSet c.dec) (p ++ a))) []) na,
            seq, some (p ++ a, true)) := by
        simp only [SeqFold.onText, e1, if_false, if_true, Bool.false_eq_true]
      rw [hr]
      simp only [SeqFold.onText, List.append_assoc, e2, if_false, if_true, Bool.false_eq_true, insert_insert]
    | false =>
      have hr : SeqFold.onText c S na seq (some (p, false)) a =
          (insert c.seqK (seqNum seq)
            (insert c.textK (cast S c.cast (escDecIf c.dec (trimChars (trimSet c.dec) (p ++ a))) []) na),
            seq + 1, some (p ++ a, true)) := by
        simp only [SeqFold.onText, e1, if_false, Bool.false_eq_true]
      rw [hr]
      simp only [SeqFold.onText, List.append_assoc, e2, if_false, if_true, Bool.false_eq_true]
      rw [insert_swap c.textK c.seqK hk]

/-- the merge step of the stream decoder: `chars a :: chars b` is `chars (a ++ b)` (one unit of
    fuel less) -/
theorem seqElem_merge (c : SeqCfg) (S : Strconv) (fin : StreamEnd) (f : Nat) (skey : Str)
    (na : Entries) (seq : Nat) (pend : Option (Str × Bool)) (a b : Str) (rest : List Tok)
    (hk : c.textK ≠ c.seqK) :
    seqElem c S fin (f + 2) skey na seq pend (.text a :: .text b :: rest) =
      seqElem c S fin (f + 1) skey na seq pend (.text (a ++ b) :: rest) := by
  rw [SeqL.seqElem_text, SeqL.seqElem_text, SeqL.seqElem_text, onText_merge c S na seq pend a b hk]

/-- above the token count the fuel does not matter -/
theorem seqElem_fuel (c : SeqCfg) (S : Strconv) (fin : StreamEnd) {f g : Nat} (toks : List Tok)
    (hf : toks.length < f) (hg : toks.length < g) (skey : Str) (na : Entries) (seq : Nat)
    (pend : Option (Str × Bool)) :
    seqElem c S fin f skey na seq pend toks = seqElem c S fin g skey na seq pend toks := by
  have s1 := Total.seqElem_spec c S fin f toks hf skey na seq pend
  have s2 := Total.seqElem_spec c S fin g toks hg skey na seq pend
  unfold Total.SeqElemSpec at s1 s2
  cases hs : seqScan c [skey] toks with
  | closed r =>
    rw [hs] at s1 s2
    obtain ⟨v, hv⟩ := s1
    obtain ⟨w, hw⟩ := s2
    rcases Nat.le_total f g with hfg | hgf
    · rw [hv, SeqL.seqElem_mono_le c S fin hfg hv]
    · rw [hw, SeqL.seqElem_mono_le c S fin hgf hw]
  | trunc => rw [hs] at s1 s2; rw [s1, s2]
  | bad => rw [hs] at s1 s2; rw [s1, s2]

/-- the unread tokens of a successful element loop are a strictly shorter list -/
theorem seqElem_rest_length (c : SeqCfg) (S : Strconv) (fin : StreamEnd) {f : Nat} (toks : List Tok)
    (hf : toks.length < f) (skey : Str) (na : Entries) (seq : Nat) (pend : Option (Str × Bool))
    (v : Val) (r : List Tok) (h : seqElem c S fin f skey na seq pend toks = .ok (v, r)) :
    r.length < toks.length := by
  have s1 := Total.seqElem_spec c S fin f toks hf skey na seq pend
  unfold Total.SeqElemSpec at s1
  cases hs : seqScan c [skey] toks with
  | closed r' =>
    rw [hs] at s1
    obtain ⟨v', hv⟩ := s1
    rw [h] at hv
    cases hv
    have := Total.seqScan_length c toks [skey] r hs
    simp only [List.length_cons, List.length_nil] at this
    omega
  | trunc => rw [hs, h] at s1; cases fin <;> simp [finErr] at s1
  | bad => rw [hs, h] at s1; cases s1

theorem seqTop_fuel (c : SeqCfg) (S : Strconv) (fin : StreamEnd) {f g : Nat} (toks : List Tok)
    (hf : toks.length < f) (hg : toks.length < g) :
    seqTop c S fin f toks = seqTop c S fin g toks := by
  have s1 := Total.seqTop_spec c S fin f toks hf
  have s2 := Total.seqTop_spec c S fin g toks hg
  unfold Total.SeqTopSpec at s1 s2
  cases hs : seqClass c toks with
  | doc =>
    rw [hs] at s1 s2
    obtain ⟨k, v, hv⟩ := s1
    obtain ⟨k', w, hw⟩ := s2
    rcases Nat.le_total f g with hfg | hgf
    · rw [hv, SeqL.seqTop_mono_le c S fin hfg hv]
    · rw [hw, SeqL.seqTop_mono_le c S fin hgf hw]
  | noRoot =>
    rw [hs] at s1 s2
    obtain ⟨v, hv⟩ := s1
    obtain ⟨w, hw⟩ := s2
    rcases Nat.le_total f g with hfg | hgf
    · rw [hv, SeqL.seqTop_mono_le c S fin hfg hv]
    · rw [hw, SeqL.seqTop_mono_le c S fin hgf hw]
  | trunc => rw [hs] at s1 s2; rw [s1, s2]
  | badEnd => rw [hs] at s1 s2; rw [s1, s2]

/-- `t2` is `t1`, or `t1` with one pair of adjacent CharData tokens merged into one -/
inductive Merge : List Tok → List Tok → Prop
  | refl (t : List Tok) : Merge t t
  | here (a b : Str) (rest : List Tok) : Merge (.text a :: .text b :: rest) (.text (a ++ b) :: rest)
  | cons (t : Tok) {t1 t2 : List Tok} : Merge t1 t2 → Merge (t :: t1) (t :: t2)

theorem Merge_at (pre : List Tok) (a b : Str) (post : List Tok) :
    Merge (pre ++ .text a :: .text b :: post) (pre ++ .text (a ++ b) :: post) := by
  induction pre with
  | nil => exact Merge.here a b post
  | cons t pre ih => exact Merge.cons t ih

/-- outcomes of the element loop on two streams that differ by one merge: same value, unread
    tokens again differing by at most that merge -/
def MergeOut : Outcome (Val × List Tok) → Outcome (Val × List Tok) → Prop
  | .ok (v, r), .ok (w, r') => v = w ∧ Merge r r'
  | .eof, .eof => True
  | .syntax, .syntax => True
  | .err a, .err b => a = b
  | .panic a, .panic b => a = b
  | _, _ => False

theorem MergeOut_refl (o : Outcome (Val × List Tok)) : MergeOut o o := by
  cases o with
  | ok p => obtain ⟨v, r⟩ := p; exact ⟨rfl, Merge.refl r⟩
  | eof => trivial
  | «syntax» => trivial
  | err k => rfl
  | panic s => rfl

theorem merge_seqElem (c : SeqCfg) (S : Strconv) (fin : StreamEnd) (hk : c.textK ≠ c.seqK) :
    ∀ (f : Nat) (t1 t2 : List Tok), Merge t1 t2 → t1.length < f →
      ∀ (skey : Str) (na : Entries) (seq : Nat) (pend : Option (Str × Bool)),
        MergeOut (seqElem c S fin f skey na seq pend t1) (seqElem c S fin f skey na seq pend t2) := by
  intro f
  induction f with
  | zero => intro t1 t2 _ h; omega
  | succ f ih =>
    intro t1 t2 hM hlen skey na seq pend
    cases hM with
    | refl => exact MergeOut_refl _
    | here a b rest =>
      simp only [List.length_cons] at hlen
      obtain ⟨f', rfl⟩ : ∃ f', f = f' + 1 := ⟨f - 1, by omega⟩
      rw [seqElem_merge c S fin f' skey na seq pend a b rest hk,
        seqElem_fuel c S fin (f := f' + 1) (g := f' + 1 + 1) (.text (a ++ b) :: rest)
          (by simp only [List.length_cons]; omega) (by simp only [List.length_cons]; omega)]
      exact MergeOut_refl _
    | @cons t t1' t2' hM' =>
      simp only [List.length_cons] at hlen
      have hlen' : t1'.length < f := by omega
      cases t with
      | text s =>
        rw [SeqL.seqElem_text, SeqL.seqElem_text]
        exact ih t1' t2' hM' hlen' _ _ _ _
      | comment s => simp only [seqElem]; exact ih t1' t2' hM' hlen' _ _ _ _
      | directive s => simp only [seqElem]; exact ih t1' t2' hM' hlen' _ _ _ _
      | procinst x y => simp only [seqElem]; exact ih t1' t2' hM' hlen' _ _ _ _
      | stop sp name =>
        simp only [seqElem]
        split
        · rfl
        · exact ⟨rfl, hM'⟩
      | start sp name attrs =>
        simp only [seqElem]
        have h1 := ih t1' t2' hM' hlen' (qualName c sp name) (seqInitNa c S attrs) 0 none
        revert h1
        cases hc1 : seqElem c S fin f (qualName c sp name) (seqInitNa c S attrs) 0 none t1' with
        | ok p0 =>
          obtain ⟨v0, r0⟩ := p0
          cases seqElem c S fin f (qualName c sp name) (seqInitNa c S attrs) 0 none t2' with
          | ok p1 =>
            obtain ⟨v1, r1⟩ := p1
            intro h1
            obtain ⟨rfl, hMr⟩ := h1
            simp only
            have hr0 := seqElem_rest_length c S fin t1' hlen' _ _ _ _ _ _ hc1
            exact ih r0 r1 hMr (by omega) _ _ _ _
          | eof => intro h1; exact h1.elim
          | «syntax» => intro h1; exact h1.elim
          | err k => intro h1; exact h1.elim
          | panic s => intro h1; exact h1.elim
        | eof =>
          cases seqElem c S fin f (qualName c sp name) (seqInitNa c S attrs) 0 none t2' <;>
            intro h1 <;> first | exact h1.elim | trivial
        | «syntax» =>
          cases seqElem c S fin f (qualName c sp name) (seqInitNa c S attrs) 0 none t2' <;>
            intro h1 <;> first | exact h1.elim | trivial
        | err k =>
          cases seqElem c S fin f (qualName c sp name) (seqInitNa c S attrs) 0 none t2' <;>
            intro h1 <;> first | exact h1.elim | exact h1
        | panic s =>
          cases seqElem c S fin f (qualName c sp name) (seqInitNa c S attrs) 0 none t2' <;>
            intro h1 <;> first | exact h1.elim | exact h1

theorem merge_seqTop (c : SeqCfg) (S : Strconv) (fin : StreamEnd) (hk : c.textK ≠ c.seqK) :
    ∀ (f : Nat) (t1 t2 : List Tok), Merge t1 t2 → t1.length < f →
      seqTop c S fin f t1 = seqTop c S fin f t2 := by
  intro f
  induction f with
  | zero => intro t1 t2 _ h; omega
  | succ f ih =>
    intro t1 t2 hM hlen
    cases hM with
    | refl => rfl
    | here a b rest =>
      simp only [List.length_cons] at hlen
      obtain ⟨f', rfl⟩ : ∃ f', f = f' + 1 := ⟨f - 1, by omega⟩
      simp only [seqTop]
      exact seqTop_fuel c S fin rest (by omega) (by omega)
    | @cons t t1' t2' hM' =>
      simp only [List.length_cons] at hlen
      have hlen' : t1'.length < f := by omega
      cases t with
      | text s => simp only [seqTop]; exact ih t1' t2' hM' hlen'
      | comment s => simp only [seqTop]
      | directive s => simp only [seqTop]
      | procinst x y => simp only [seqTop]
      | stop sp name => simp only [seqTop]
      | start sp name attrs =>
        simp only [seqTop]
        have h1 := merge_seqElem c S fin hk f t1' t2' hM' hlen' (qualName c sp name)
          (seqInitNa c S attrs) 0 none
        revert h1
        cases seqElem c S fin f (qualName c sp name) (seqInitNa c S attrs) 0 none t1' with
        | ok p0 =>
          obtain ⟨v0, r0⟩ := p0
          cases seqElem c S fin f (qualName c sp name) (seqInitNa c S attrs) 0 none t2' with
          | ok p1 =>
            obtain ⟨v1, r1⟩ := p1
            intro h1
            obtain ⟨rfl, _⟩ := h1
            rfl
          | eof => intro h1; exact h1.elim
          | «syntax» => intro h1; exact h1.elim
          | err k => intro h1; exact h1.elim
          | panic s => intro h1; exact h1.elim
        | eof =>
          cases seqElem c S fin f (qualName c sp name) (seqInitNa c S attrs) 0 none t2' <;>
            intro h1 <;> first | exact h1.elim | rfl
        | «syntax» =>
          cases seqElem c S fin f (qualName c sp name) (seqInitNa c S attrs) 0 none t2' <;>
            intro h1 <;> first | exact h1.elim | rfl
        | err k =>
          cases seqElem c S fin f (qualName c sp name) (seqInitNa c S attrs) 0 none t2' <;>
            intro h1 <;> first | exact h1.elim | (have h1 : _ = _ := h1; subst h1; rfl)
        | panic s =>
          cases seqElem c S fin f (qualName c sp name) (seqInitNa c S attrs) 0 none t2' <;>
            intro h1 <;> first | exact h1.elim | (have h1 : _ = _ := h1; subst h1; rfl)

/-- how one run of character data is split into tokens does not matter -/
theorem merge_newMapXmlSeq (c : SeqCfg) (S : Strconv) (fin : StreamEnd) (hk : c.textK ≠ c.seqK)
    (pre : List Tok) (a b : Str) (post : List Tok) :
    newMapXmlSeq c S (pre ++ .text a :: .text b :: post) fin =
      newMapXmlSeq c S (pre ++ .text (a ++ b) :: post) fin := by
  unfold newMapXmlSeq
  rw [merge_seqTop c S fin hk _ _ _ (Merge_at pre a b post) (Nat.lt_succ_self _)]
  apply seqTop_fuel <;> simp only [List.length_append, List.length_cons] <;> omega

/-- a whole run `a, t1, …, tn` merged into one token -/
theorem seqElem_run (c : SeqCfg) (S : Strconv) (fin : StreamEnd) (hk : c.textK ≠ c.seqK)
    (skey : Str) (na : Entries) (seq : Nat) (pend : Option (Str × Bool)) (rest : List Tok) :
    ∀ (ts : List Str) (a : Str) (f : Nat),
      seqElem c S fin (f + ts.length + 1) skey na seq pend (.text a :: (ts.map Tok.text ++ rest)) =
        seqElem c S fin (f + 1) skey na seq pend (.text (a ++ ts.flatten) :: rest)
  | [], a, f => by simp
  | b :: ts, a, f => by
      have e : f + (b :: ts).length + 1 = (f + ts.length) + 2 := by simp only [List.length_cons]; omega
      rw [e, List.map_cons, List.cons_append, seqElem_merge c S fin _ skey na seq pend a b _ hk,
        seqElem_run c S fin hk skey na seq pend rest ts (a ++ b) f]
      simp [List.append_assoc]

end CastSeq
end Mxj
