/-
  Mxj.Lemmas.Encode — helper lemmas for C16 / C02 / C03 (Props/C16.lean, C02.lean, C03.lean):
  (1) `strLe` is a total order; `sortByKey` is a sorted permutation, canonical on entry lists with
      distinct keys; `Val.norm` is idempotent on well-formed values and preserves well-formedness;
  (2) the compact encoder's bytes are the canonical rendering of the tree `encTree` builds;
  (3) the decoding conventions (`Conv.value`, default options) applied to the encoder's tree
      compute `image`; values produced by the conventions are their own image.
  Everything lives in `Mxj.Enc` (self-contained: does not depend on Lemmas/Decode.lean).
-/
import Mxj.Model.EncTree
import Mxj.Lemmas.Escape
namespace Mxj.Enc
open Mxj

theorem strLe_total : ∀ (a b : Str), strLe a b = true ∨ strLe b a = true
  | [], _ => by simp [strLe]
  | _ :: _, [] => by simp [strLe]
  | a :: as, b :: bs => by
      have ih := strLe_total as bs
      simp only [strLe, Bool.or_eq_true, decide_eq_true_eq, Bool.and_eq_true, beq_iff_eq]
      rcases ih with h | h
      · rcases Nat.lt_trichotomy a.toNat b.toNat with h1 | h1 | h1
        · exact .inl (.inl h1)
        · exact .inl (.inr ⟨h1, h⟩)
        · exact .inr (.inl h1)
      · rcases Nat.lt_trichotomy a.toNat b.toNat with h1 | h1 | h1
        · exact .inl (.inl h1)
        · exact .inr (.inr ⟨h1.symm, h⟩)
        · exact .inr (.inl h1)

theorem strLe_refl (a : Str) : strLe a a = true := by
  rcases strLe_total a a with h | h <;> exact h

theorem strLe_trans : ∀ (a b c : Str), strLe a b = true → strLe b c = true → strLe a c = true
  | [], _, _, _, _ => by simp [strLe]
  | _ :: _, [], _, h, _ => by simp [strLe] at h
  | _ :: _, _ :: _, [], _, h => by simp [strLe] at h
  | a :: as, b :: bs, c :: cs, h1, h2 => by
      have ih := strLe_trans as bs cs
      simp only [strLe, Bool.or_eq_true, decide_eq_true_eq, Bool.and_eq_true, beq_iff_eq] at h1 h2 ⊢
      rcases h1 with h1 | ⟨e1, h1⟩ <;> rcases h2 with h2 | ⟨e2, h2⟩
      · exact .inl (by omega)
      · exact .inl (by omega)
      · exact .inl (by omega)
      · exact .inr ⟨by omega, ih h1 h2⟩

theorem strLe_antisymm : ∀ (a b : Str), strLe a b = true → strLe b a = true → a = b
  | [], [], _, _ => rfl
  | [], _ :: _, _, h => by simp [strLe] at h
  | _ :: _, [], h, _ => by simp [strLe] at h
  | a :: as, b :: bs, h1, h2 => by
      have ih := strLe_antisymm as bs
      simp only [strLe, Bool.or_eq_true, decide_eq_true_eq, Bool.and_eq_true, beq_iff_eq] at h1 h2
      rcases h1 with h1 | ⟨e1, h1⟩ <;> rcases h2 with h2 | ⟨e2, h2⟩
      · omega
      · omega
      · omega
      · rw [Char.toNat_inj.1 e1, ih h1 h2]

/-! ### `sortByKey`: a permutation, sorted, canonical on lists with distinct keys -/

theorem insertByKey_perm (e : Str × Val) : ∀ (l : Entries), (insertByKey e l).Perm (e :: l)
  | [] => by simp [insertByKey]
  | x :: xs => by
      simp only [insertByKey]
      split
      · exact ((insertByKey_perm e xs).cons x).trans (List.Perm.swap e x xs)
      · exact List.Perm.refl _

theorem sortByKey_cons (x : Str × Val) (xs : Entries) :
    sortByKey (x :: xs) = insertByKey x (sortByKey xs) := rfl

theorem sortByKey_perm : ∀ (l : Entries), (sortByKey l).Perm l
  | [] => by simp [sortByKey]
  | x :: xs => by
      rw [sortByKey_cons]
      exact (insertByKey_perm x _).trans ((sortByKey_perm xs).cons x)

def KeySorted (l : Entries) : Prop := l.Pairwise (fun a b => strLe a.1 b.1 = true)

theorem insertByKey_sorted (e : Str × Val) : ∀ (l : Entries), KeySorted l → KeySorted (insertByKey e l)
  | [], _ => by simp [insertByKey, KeySorted]
  | x :: xs, h => by
      unfold KeySorted at h ⊢
      rw [List.pairwise_cons] at h
      simp only [insertByKey]
      split
      · rename_i hx
        rw [List.pairwise_cons]
        refine ⟨?_, insertByKey_sorted e xs h.2⟩
        intro y hy
        rcases List.mem_cons.1 ((insertByKey_perm e xs).mem_iff.1 hy) with rfl | hy
        · exact hx
        · exact h.1 y hy
      · rename_i hx
        have hex : strLe e.1 x.1 = true := by
          rcases strLe_total e.1 x.1 with h' | h'
          · exact h'
          · exact absurd h' hx
        rw [List.pairwise_cons]
        refine ⟨?_, List.pairwise_cons.2 h⟩
        intro y hy
        rcases List.mem_cons.1 hy with rfl | hy
        · exact hex
        · exact strLe_trans _ _ _ hex (h.1 y hy)

theorem sortByKey_sorted : ∀ (l : Entries), KeySorted (sortByKey l)
  | [] => by simp [sortByKey, KeySorted]
  | x :: xs => by
      rw [sortByKey_cons]
      exact insertByKey_sorted x _ (sortByKey_sorted xs)

theorem keys_nodup_perm {l l' : Entries} (h : l.Perm l') : (keys l).Nodup ↔ (keys l').Nodup := by
  unfold keys
  exact (h.map (fun e => e.1)).nodup_iff

/-- `distinctKeys` is `Nodup` of the keys -/
theorem distinctKeys_iff : ∀ (l : Entries), distinctKeys l = true ↔ (keys l).Nodup
  | [] => by simp [distinctKeys, keys]
  | (k, v) :: rest => by
      have ih := distinctKeys_iff rest
      simp only [distinctKeys, keys, List.map_cons, List.nodup_cons, Bool.and_eq_true,
        Bool.not_eq_true', List.any_eq_false, beq_iff_eq, List.mem_map] at ih ⊢
      rw [ih]
      constructor
      · rintro ⟨h1, h2⟩
        exact ⟨fun ⟨e, he, hk⟩ => h1 e he hk, h2⟩
      · rintro ⟨h1, h2⟩
        exact ⟨fun e he hk => h1 ⟨e, he, hk⟩, h2⟩

/-- two key-sorted permutations of each other with pairwise distinct keys are equal -/
theorem sorted_perm_eq {l l' : Entries} (hs : KeySorted l) (hs' : KeySorted l')
    (hd : (keys l).Nodup) (hp : l.Perm l') : l = l' := by
  have hd' : (keys l').Nodup := (keys_nodup_perm hp).1 hd
  have strict : ∀ {m : Entries}, KeySorted m → (keys m).Nodup →
      m.Pairwise (fun a b => strLe a.1 b.1 = true ∧ a.1 ≠ b.1) := by
    intro m hm hn
    refine List.Pairwise.and hm ?_
    unfold keys at hn
    exact List.pairwise_map.1 hn
  refine List.Perm.eq_of_pairwise ?_ (strict hs hd) (strict hs' hd') hp
  intro a b _ _ hab hba
  exact absurd (strLe_antisymm _ _ hab.1 hba.1) hab.2

theorem sortByKey_congr {l l' : Entries} (hd : (keys l).Nodup) (hp : l.Perm l') :
    sortByKey l = sortByKey l' := by
  refine sorted_perm_eq (sortByKey_sorted l) (sortByKey_sorted l') ?_ ?_
  · exact (keys_nodup_perm (sortByKey_perm l)).2 hd
  · exact (sortByKey_perm l).trans (hp.trans (sortByKey_perm l').symm)


/-! ### `Val.norm` -/

theorem normEntries_eq_map : ∀ (l : Entries), Val.normEntries l = l.map (fun e => (e.1, e.2.norm))
  | [] => rfl
  | (k, v) :: rest => by simp [Val.normEntries, normEntries_eq_map rest]

theorem normList_eq_map : ∀ (l : List Val), Val.normList l = l.map Val.norm
  | [] => rfl
  | x :: xs => by simp [Val.normList, normList_eq_map xs]

theorem keys_normEntries (l : Entries) : keys (Val.normEntries l) = keys l := by
  rw [normEntries_eq_map]; unfold keys; simp [Function.comp_def]

theorem keys_sortByKey_nodup {l : Entries} (h : (keys l).Nodup) : (keys (sortByKey l)).Nodup :=
  (keys_nodup_perm (sortByKey_perm l)).2 h

/-- `insertByKey` looks at keys only -/
theorem insertByKey_map (f : Val → Val) (e : Str × Val) : ∀ (l : Entries),
    (insertByKey e l).map (fun x => (x.1, f x.2))
      = insertByKey (e.1, f e.2) (l.map (fun x => (x.1, f x.2)))
  | [] => rfl
  | x :: xs => by
      simp only [insertByKey, List.map_cons]
      split
      · simp [insertByKey_map f e xs]
      · simp

theorem sortByKey_map (f : Val → Val) : ∀ (l : Entries),
    (sortByKey l).map (fun x => (x.1, f x.2)) = sortByKey (l.map (fun x => (x.1, f x.2)))
  | [] => rfl
  | x :: xs => by
      rw [sortByKey_cons, insertByKey_map, sortByKey_map f xs]; rfl

theorem normEntries_sortByKey (l : Entries) :
    Val.normEntries (sortByKey l) = sortByKey (Val.normEntries l) := by
  rw [normEntries_eq_map, normEntries_eq_map, sortByKey_map]

theorem sortByKey_of_sorted {l : Entries} (hs : KeySorted l) (hd : (keys l).Nodup) :
    sortByKey l = l :=
  sorted_perm_eq (sortByKey_sorted l) hs (keys_sortByKey_nodup hd) (sortByKey_perm l)

theorem sortByKey_idem {l : Entries} (hd : (keys l).Nodup) : sortByKey (sortByKey l) = sortByKey l :=
  sortByKey_of_sorted (sortByKey_sorted l) (keys_sortByKey_nodup hd)

mutual
theorem norm_idem : ∀ (v : Val), v.wf = true → v.norm.norm = v.norm
  | .null, _ => rfl
  | .bool _, _ => rfl
  | .num _, _ => rfl
  | .str _, _ => rfl
  | .list xs, h => by
      simp only [Val.wf] at h
      simp only [Val.norm, normList_idem xs h]
  | .map kvs, h => by
      simp only [Val.wf, Bool.and_eq_true] at h
      simp only [Val.norm]
      rw [normEntries_sortByKey, normEntries_idem kvs h.1, sortByKey_idem]
      rw [keys_normEntries]; exact (distinctKeys_iff kvs).1 h.2
theorem normList_idem : ∀ (xs : List Val), Val.wfList xs = true →
    Val.normList (Val.normList xs) = Val.normList xs
  | [], _ => rfl
  | x :: xs, h => by
      simp only [Val.wfList, Bool.and_eq_true] at h
      simp only [Val.normList, norm_idem x h.1, normList_idem xs h.2]
theorem normEntries_idem : ∀ (kvs : Entries), Val.wfEntries kvs = true →
    Val.normEntries (Val.normEntries kvs) = Val.normEntries kvs
  | [], _ => rfl
  | (k, v) :: rest, h => by
      simp only [Val.wfEntries, Bool.and_eq_true] at h
      simp only [Val.normEntries, norm_idem v h.1, normEntries_idem rest h.2]
end

theorem wfEntries_iff : ∀ (l : Entries), Val.wfEntries l = true ↔ ∀ e ∈ l, e.2.wf = true
  | [] => by simp [Val.wfEntries]
  | (k, v) :: rest => by simp [Val.wfEntries, wfEntries_iff rest]

theorem wfList_iff : ∀ (l : List Val), Val.wfList l = true ↔ ∀ x ∈ l, x.wf = true
  | [] => by simp [Val.wfList]
  | x :: xs => by simp [Val.wfList, wfList_iff xs]

mutual
theorem wf_norm : ∀ (v : Val), v.wf = true → v.norm.wf = true
  | .null, _ => rfl
  | .bool _, _ => rfl
  | .num _, _ => rfl
  | .str _, _ => rfl
  | .list xs, h => by
      simp only [Val.wf] at h
      simp only [Val.norm, Val.wf, wfList_norm xs h]
  | .map kvs, h => by
      simp only [Val.wf, Bool.and_eq_true] at h
      simp only [Val.norm, Val.wf, Bool.and_eq_true]
      constructor
      · rw [wfEntries_iff]
        intro e he
        exact (wfEntries_iff _).1 (wfEntries_norm kvs h.1) e ((sortByKey_perm _).mem_iff.1 he)
      · rw [distinctKeys_iff]
        apply keys_sortByKey_nodup
        rw [keys_normEntries]; exact (distinctKeys_iff kvs).1 h.2
theorem wfList_norm : ∀ (xs : List Val), Val.wfList xs = true → Val.wfList (Val.normList xs) = true
  | [], _ => rfl
  | x :: xs, h => by
      simp only [Val.wfList, Bool.and_eq_true] at h
      simp only [Val.normList, Val.wfList, wf_norm x h.1, wfList_norm xs h.2, Bool.and_self]
theorem wfEntries_norm : ∀ (kvs : Entries), Val.wfEntries kvs = true →
    Val.wfEntries (Val.normEntries kvs) = true
  | [], _ => rfl
  | (k, v) :: rest, h => by
      simp only [Val.wfEntries, Bool.and_eq_true] at h
      simp only [Val.normEntries, Val.wfEntries, wf_norm v h.1, wfEntries_norm rest h.2, Bool.and_self]
end

/-- permuting the entries of a map with distinct keys gives an equivalent map -/
theorem equiv_map_of_perm {m m' : Entries} (hp : m.Perm m') (hd : distinctKeys m = true) :
    Val.map m ≈ᵥ Val.map m' := by
  unfold Val.equiv
  simp only [Val.norm]
  rw [sortByKey_congr (l := Val.normEntries m) (l' := Val.normEntries m')]
  · rw [keys_normEntries]; exact (distinctKeys_iff m).1 hd
  · rw [normEntries_eq_map, normEntries_eq_map]; exact hp.map _


/-! ### bytes = rendering of the tree -/

theorem renderKids_eq (cfg : EncCfg) : ∀ (ks : List Node), renderKids cfg ks = ks.flatMap (render cfg)
  | [] => rfl
  | k :: ks => by simp [renderKids, renderKids_eq cfg ks]

theorem escapeChars_isEmpty (s : Str) : (escapeChars s).isEmpty = s.isEmpty := by
  cases s with
  | nil => rfl
  | cons c r =>
    rw [escapeChars_cons]
    have := escOne_length_pos c
    cases h : escOne c with
    | nil => rw [h] at this; simp at this
    | cons _ _ => rfl

theorem escIf_isEmpty (cfg : EncCfg) (s : Str) : (escIf cfg s).isEmpty = s.isEmpty := by
  unfold escIf; split
  · exact escapeChars_isEmpty s
  · rfl

theorem escIf_true (cfg : EncCfg) : escIf cfg ['t', 'r', 'u', 'e'] = ['t', 'r', 'u', 'e'] := by
  unfold escIf; split
  · rw [escapeChars_flatMap]; decide
  · rfl

theorem escIf_false (cfg : EncCfg) :
    escIf cfg ['f', 'a', 'l', 's', 'e'] = ['f', 'a', 'l', 's', 'e'] := by
  unfold escIf; split
  · rw [escapeChars_flatMap]; decide
  · rfl

theorem plainText_eq {cfg : EncCfg} {s : Str} (h : plainText cfg s = true) : escIf cfg s = s := by
  unfold plainText at h; exact beq_iff_eq.1 h

theorem attrText_eq (cfg : EncCfg) (k : Str) (v : Val) (hp : Plain cfg v = true) :
    attrText cfg k v = (encAttr cfg k v).map (fun a => renderAttrs cfg [a]) := by
  cases v with
  | null => rfl
  | list _ => rfl
  | map _ => rfl
  | str s => simp [attrText, encAttr, attrValue, Except.map, renderAttrs]
  | num t =>
    simp only [Plain, Bool.and_eq_true] at hp
    simp [attrText, encAttr, attrValue, Except.map, renderAttrs, plainText_eq hp.2]
  | bool b =>
    cases b <;> simp [attrText, encAttr, attrValue, Except.map, renderAttrs, escIf_true, escIf_false]

theorem attrsText_eq (cfg : EncCfg) : ∀ (kvs : Entries), PlainEntries cfg kvs = true →
    attrsText cfg kvs = (encAttrs cfg kvs).map (renderAttrs cfg)
  | [], _ => rfl
  | (k, v) :: rest, hp => by
      simp only [PlainEntries, Bool.and_eq_true] at hp
      have ih := attrsText_eq cfg rest hp.2
      simp only [attrsText, encAttrs]
      split
      · rw [attrText_eq cfg k v hp.1.2, ih]
        cases encAttr cfg k v <;> cases encAttrs cfg rest <;> simp [Except.map, renderAttrs]
      · exact ih

/-- text written for the text-key value = the escaped `%v` text -/
theorem textValue_eq (cfg : EncCfg) (k : Str) : ∀ (kvs : Entries) (tv : Val),
    PlainEntries cfg kvs = true → k = cfg.textK → lookup k kvs = some tv →
    textValue cfg tv = (fmtV tv).map (escIf cfg)
  | [], _, _, _, h => by simp [lookup] at h
  | (k', v) :: rest, tv, hp, hk, h => by
      simp only [PlainEntries, Bool.and_eq_true] at hp
      simp only [lookup] at h
      split at h
      · rename_i e
        subst e
        obtain rfl := Option.some.inj h
        cases v with
        | str s => rfl
        | list _ => rfl
        | map _ => rfl
        | bool b => cases b <;> simp [textValue, fmtV, escIf_true, escIf_false]
        | num t =>
          simp only [Plain, Bool.and_eq_true] at hp
          simp [textValue, fmtV, plainText_eq hp.1.2.2]
        | null =>
          have h1 := hp.1.1
          simp only [nullTextOk, hk, decide_true, Bool.true_and, Bool.not_eq_true'] at h1
          simp [textValue, fmtV, escIf, h1]
      · exact textValue_eq cfg k rest tv hp.2 hk h


mutual
theorem encTree_ne_nil (cfg : EncCfg) : ∀ (key : Str) (v : Val) (ns : List Node),
    encTree cfg key v = .ok ns → ns ≠ []
  | key, .null, ns, h => by simp only [encTree, Except.ok.injEq] at h; subst h; simp
  | key, .str s, ns, h => by simp only [encTree, Except.ok.injEq] at h; subst h; simp
  | key, .bool b, ns, h => by
      cases b <;> simp only [encTree, fmtV, Except.ok.injEq] at h <;> subst h <;> simp
  | key, .num t, ns, h => by simp only [encTree, fmtV, Except.ok.injEq] at h; subst h; simp
  | key, .list xs, ns, h => by
      simp only [encTree] at h
      split at h
      · simp only [Except.ok.injEq] at h; subst h; simp
      · rename_i hne
        exact encMembers_ne_nil cfg key xs ns (by intro e; subst e; simp at hne) h
  | key, .map vv, ns, h => by
      simp only [encTree] at h
      repeat' split at h
      all_goals first
        | (simp only [Except.ok.injEq] at h; subst h; simp)
        | simp at h
theorem encMembers_ne_nil (cfg : EncCfg) (key : Str) : ∀ (xs : List Val) (ns : List Node),
    xs ≠ [] → encMembers cfg key xs = .ok ns → ns ≠ []
  | [], _, hne, _ => absurd rfl hne
  | x :: xs, ns, _, h => by
      simp only [encMembers] at h
      split at h
      · simp at h
      · rename_i a ha
        split at h
        · simp at h
        · simp only [Except.ok.injEq] at h
          subst h
          have := encTree_ne_nil cfg key x a ha
          simp [this]
end

theorem encElems_ne_nil (cfg : EncCfg) : ∀ (vv : Entries) (ns : List Node),
    countAttrs cfg vv ≠ vv.length → lookup cfg.textK vv = none → encElems cfg vv = .ok ns → ns ≠ []
  | [], _, h, _, _ => by simp [countAttrs] at h
  | (k, v) :: rest, ns, hc, hl, h => by
      simp only [lookup] at hl
      split at hl
      · simp at hl
      · rename_i hk
        have hk' : ¬ k = cfg.textK := fun e => hk e.symm
        simp only [encElems, hk', decide_false, Bool.false_or] at h
        by_cases ha : isAttrK cfg k = true
        · simp only [ha, if_true] at h
          refine encElems_ne_nil cfg rest ns ?_ hl h
          simp only [countAttrs, List.filter_cons, ha, if_true, List.length_cons] at hc
          simp only [countAttrs]
          omega
        · have ha2 : isAttrK cfg k = false := by simpa using ha
          simp only [ha2, Bool.false_eq_true, if_false] at h
          split at h
          · simp at h
          · rename_i a ha'
            split at h
            · simp at h
            · simp only [Except.ok.injEq] at h
              subst h
              have := encTree_ne_nil cfg k v a ha'
              simp [this]

theorem flatMap_render_single (cfg : EncCfg) (n : Node) : [n].flatMap (render cfg) = render cfg n := by
  simp

mutual
/-- the compact encoder's bytes are the rendering of the encoder's tree (and it fails exactly
    when the tree builder fails) -/
theorem marshalN_eq_render (cfg : EncCfg) : ∀ (key : Str) (v : Val), Plain cfg v = true →
    marshalN cfg key v = (encTree cfg key v).map (fun ns => ns.flatMap (render cfg))
  | key, .null, _ => by
      simp [marshalN, encTree, Except.map, render, renderAttrs]
  | key, .str s, _ => by
      by_cases hs : s = []
      · subst hs
        have : escIf cfg [] = [] := by unfold escIf escapeChars; simp
        simp [marshalN, encTree, Except.map, render, this, renderAttrs]
      · have h1 : s.isEmpty = false := by cases s <;> simp_all
        have h2 : (escIf cfg s).isEmpty = false := by rw [escIf_isEmpty]; exact h1
        have h3 : (escIf cfg s).length > 0 := by
          cases h : escIf cfg s with
          | nil => rw [h] at h2; simp at h2
          | cons _ _ => simp
        have h4 : escIf cfg s ≠ [] := by intro e; rw [e] at h2; simp at h2
        simp [marshalN, encTree, Except.map, render, renderKids, h1, h2, endOf, h3, h4, renderAttrs]
  | key, .bool b, _ => by
      cases b <;>
        simp [marshalN, encTree, fmtV, Except.map, render, renderKids, endOf, renderAttrs,
          escIf_true, escIf_false]
  | key, .num t, hp => by
      simp only [Plain, Bool.and_eq_true, Bool.not_eq_true'] at hp
      have h3 : (numText t).length > 0 := by
        cases h : numText t with
        | nil => rw [h] at hp; simp at hp
        | cons _ _ => simp
      have h4 : numText t ≠ [] := by intro e; rw [e] at h3; simp at h3
      simp [marshalN, encTree, fmtV, Except.map, render, renderKids, endOf, renderAttrs,
        plainText_eq hp.2, h3, h4]
  | key, .list xs, hp => by
      simp only [Plain] at hp
      simp only [marshalN, encTree]
      split
      · simp [Except.map, render, renderAttrs]
      · exact marshalMembers_eq_render cfg key xs hp
  | key, .map vv, hp => by
      simp only [Plain] at hp
      simp only [marshalN, encTree, attrsText_eq cfg vv hp]
      cases hA : encAttrs cfg vv with
      | error e => rfl
      | ok attrs =>
        simp only [Except.map]
        by_cases hn : countAttrs cfg vv = vv.length
        · simp only [hn, if_true, flatMap_render_single, render, List.isEmpty_nil, endOf]
          simp
        · simp only [hn, if_false]
          cases hl : lookup cfg.textK vv with
          | some tv =>
            simp only [textValue_eq cfg cfg.textK vv tv hp rfl hl]
            cases hf : fmtV tv with
            | none => rfl
            | some txt =>
              simp only [Option.map_some]
              by_cases hn1 : countAttrs cfg vv + 1 = vv.length
              · simp only [hn1, if_true, flatMap_render_single, render, renderKids, endOf]
                simp
              · simp only [hn1, if_false, marshalElems_eq_render cfg vv hp]
                cases hE : encElems cfg vv with
                | error e => rfl
                | ok kids =>
                  simp only [Except.map, flatMap_render_single, render, renderKids, endOf,
                    renderKids_eq]
                  simp
          | none =>
            simp only [marshalElems_eq_render cfg vv hp]
            cases hE : encElems cfg vv with
            | error e => rfl
            | ok kids =>
              have hne := encElems_ne_nil cfg vv kids hn hl hE
              have hne' : kids.isEmpty = false := by cases kids <;> simp_all
              simp only [Except.map, flatMap_render_single, render, renderKids_eq, endOf, hne']
              simp
theorem marshalMembers_eq_render (cfg : EncCfg) (key : Str) : ∀ (xs : List Val),
    PlainList cfg xs = true →
    marshalMembers cfg key xs = (encMembers cfg key xs).map (fun ns => ns.flatMap (render cfg))
  | [], _ => rfl
  | x :: xs, hp => by
      simp only [PlainList, Bool.and_eq_true] at hp
      simp only [marshalMembers, encMembers, marshalN_eq_render cfg key x hp.1,
        marshalMembers_eq_render cfg key xs hp.2]
      cases encTree cfg key x <;> cases encMembers cfg key xs <;> simp [Except.map]
theorem marshalElems_eq_render (cfg : EncCfg) : ∀ (kvs : Entries), PlainEntries cfg kvs = true →
    marshalElems cfg kvs = (encElems cfg kvs).map (fun ns => ns.flatMap (render cfg))
  | [], _ => rfl
  | (k, v) :: rest, hp => by
      simp only [PlainEntries, Bool.and_eq_true] at hp
      simp only [marshalElems, encElems]
      split
      · exact marshalElems_eq_render cfg rest hp.2
      · simp only [marshalN_eq_render cfg k v hp.1.2, marshalElems_eq_render cfg rest hp.2]
        cases encTree cfg k v <;> cases encElems cfg rest <;> simp [Except.map]
end


/-! ### `Plain` is invariant under normalisation -/

def plainEntry (cfg : EncCfg) (e : Str × Val) : Bool :=
  nullTextOk cfg e.1 e.2 && Plain cfg e.2

theorem PlainEntries_iff (cfg : EncCfg) : ∀ (l : Entries),
    PlainEntries cfg l = true ↔ ∀ e ∈ l, plainEntry cfg e = true
  | [] => by simp [PlainEntries]
  | (k, v) :: rest => by
      simp only [PlainEntries, Bool.and_eq_true, PlainEntries_iff cfg rest, List.mem_cons,
        forall_eq_or_imp, plainEntry]

mutual
theorem Plain_norm (cfg : EncCfg) : ∀ (v : Val), Plain cfg v = true → Plain cfg v.norm = true
  | .null, _ => rfl
  | .bool _, _ => rfl
  | .num _, h => h
  | .str _, _ => rfl
  | .list xs, h => by
      simp only [Plain] at h
      simp only [Val.norm, Plain, PlainList_norm cfg xs h]
  | .map kvs, h => by
      simp only [Plain] at h
      simp only [Val.norm, Plain]
      rw [PlainEntries_iff]
      intro e he
      exact (PlainEntries_iff cfg _).1 (PlainEntries_norm cfg kvs h) e ((sortByKey_perm _).mem_iff.1 he)
theorem PlainList_norm (cfg : EncCfg) : ∀ (xs : List Val), PlainList cfg xs = true →
    PlainList cfg (Val.normList xs) = true
  | [], _ => rfl
  | x :: xs, h => by
      simp only [PlainList, Bool.and_eq_true] at h
      simp only [Val.normList, PlainList, Plain_norm cfg x h.1, PlainList_norm cfg xs h.2, Bool.and_self]
theorem PlainEntries_norm (cfg : EncCfg) : ∀ (kvs : Entries), PlainEntries cfg kvs = true →
    PlainEntries cfg (Val.normEntries kvs) = true
  | [], _ => rfl
  | (k, v) :: rest, h => by
      simp only [PlainEntries, Bool.and_eq_true] at h
      simp only [Val.normEntries, PlainEntries, Bool.and_eq_true]
      refine ⟨⟨?_, Plain_norm cfg v h.1.2⟩, PlainEntries_norm cfg rest h.2⟩
      have := h.1.1
      cases v <;> simp_all [Val.norm, nullTextOk]
end


/-! ### the default configurations -/

theorem elemKey_dc (S : Strconv) (n : Str) : elemKey dc S n = n := rfl
theorem attrKey_dc (S : Strconv) (n : Str) : attrKey dc S n = '-' :: n := rfl
theorem escDecIf_dc (s : Str) : escDecIf dc s = s := rfl
theorem cast_dc (S : Strconv) (s t : Str) : cast S dc.cast s t = .str s := by
  unfold cast; simp [dc]
theorem seqDecorate_dc (seq : Nat) (v : Val) : seqDecorate dc seq v = (v, seq) := rfl
theorem textOf_dc (s : Str) : Conv.textOf dc s = trimD s := rfl
theorem textK_ec : ec.textK = "#text".toList := rfl
theorem textK_dc : dc.textK = ec.textK := rfl

theorem isAttrK_ec_iff (k : Str) : isAttrK ec k = true ↔ ∃ c r, k = '-' :: c :: r := by
  unfold isAttrK
  simp only [ec]
  constructor
  · intro h
    match k, h with
    | [], h => simp at h
    | [_], h => simp at h
    | a :: c :: r, h =>
      simp at h
      exact ⟨c, r, by rw [h]⟩
  · rintro ⟨c, r, rfl⟩
    simp

theorem isAttrK_ec_cons (k : Str) (h : isAttrK ec k = true) : '-' :: k.drop 1 = k := by
  obtain ⟨c, r, rfl⟩ := (isAttrK_ec_iff k).1 h
  rfl

theorem textK_not_attr : isAttrK ec ec.textK = false := by decide


/-! ### association lists -/

theorem mem_keys {k : Str} {l : Entries} : k ∈ keys l ↔ ∃ e ∈ l, e.1 = k := by
  unfold keys; simp [List.mem_map]

theorem keys_append (a b : Entries) : keys (a ++ b) = keys a ++ keys b := by
  unfold keys; simp

theorem keys_cons (e : Str × Val) (l : Entries) : keys (e :: l) = e.1 :: keys l := rfl

theorem lookup_eq_none_iff (k : Str) : ∀ (l : Entries), lookup k l = none ↔ k ∉ keys l
  | [] => by simp [lookup, keys]
  | (k', v) :: rest => by
      have ih := lookup_eq_none_iff k rest
      simp only [lookup, keys_cons, List.mem_cons, not_or]
      split
      · rename_i e; simp [e]
      · rename_i e; simp [e, ih]

theorem insert_of_not_mem (k : Str) (v : Val) : ∀ (l : Entries), k ∉ keys l →
    insert k v l = l ++ [(k, v)]
  | [], _ => rfl
  | (k', v') :: rest, h => by
      simp only [keys_cons, List.mem_cons, not_or] at h
      simp only [insert, h.1, if_false, insert_of_not_mem k v rest h.2, List.cons_append]

/-! ### `Conv.groupOnto` on the encoder's sibling sequences: exact computation -/

def valsOf (k : Str) (cs : List (Str × Val)) : List Val := (cs.filter (·.1 = k)).map (·.2)

/-- one step of `groupOnto` -/
def gStep (cs : List (Str × Val)) (b : Entries) (k : Str) : Entries :=
  match Conv.collect (lookup k b) (valsOf k cs) with
  | some val => insert k val b
  | none => b

theorem groupOnto_eq (base : Entries) (cs : List (Str × Val)) :
    Conv.groupOnto base cs = ((cs.map (·.1)).eraseDups).foldl (gStep cs) base := rfl

theorem foldl_gStep_congr (cs cs' : List (Str × Val)) : ∀ (ks : List Str) (b : Entries),
    (∀ q ∈ ks, valsOf q cs = valsOf q cs') → ks.foldl (gStep cs) b = ks.foldl (gStep cs') b
  | [], _, _ => rfl
  | k :: ks, b, h => by
      have h1 : gStep cs b k = gStep cs' b k := by
        unfold gStep; rw [h k (List.mem_cons_self ..)]
      rw [List.foldl_cons, List.foldl_cons, h1]
      exact foldl_gStep_congr cs cs' ks _ (fun q hq => h q (List.mem_cons_of_mem _ hq))

theorem collect_none (vs : List Val) (h : vs ≠ []) : Conv.collect none vs = some (collectV vs) := by
  match vs, h with
  | [_], _ => rfl
  | _ :: _ :: _, _ => rfl

theorem valsOf_block_self (k : Str) (sibs : List Val) (rest : List (Str × Val))
    (hr : k ∉ keys rest) : valsOf k (sibs.map (k, ·) ++ rest) = sibs := by
  unfold valsOf
  rw [List.filter_append, List.map_append]
  have h1 : (sibs.map (fun x => (k, x))).filter (fun e => decide (e.1 = k)) = sibs.map (k, ·) := by
    rw [List.filter_eq_self]; intro a ha
    obtain ⟨x, _, rfl⟩ := List.mem_map.1 ha
    simp
  have h2 : rest.filter (fun e => decide (e.1 = k)) = [] := by
    rw [List.filter_eq_nil_iff]; intro a ha e
    exact hr (mem_keys.2 ⟨a, ha, of_decide_eq_true e⟩)
  rw [h1, h2]; simp [Function.comp_def]

theorem valsOf_block_other (k q : Str) (sibs : List Val) (rest : List (Str × Val))
    (hq : q ≠ k) : valsOf q (sibs.map (k, ·) ++ rest) = valsOf q rest := by
  unfold valsOf
  rw [List.filter_append, List.map_append]
  have h1 : (sibs.map (fun x => (k, x))).filter (fun e => decide (e.1 = q)) = [] := by
    rw [List.filter_eq_nil_iff]; intro a ha e
    obtain ⟨x, _, rfl⟩ := List.mem_map.1 ha
    exact hq (of_decide_eq_true e).symm
  rw [h1]; rfl

theorem groupOnto_nil (base : Entries) : Conv.groupOnto base [] = base := rfl

/-- a block of siblings with a fresh key is collected into one new entry at the end -/
theorem groupOnto_block (base : Entries) (k : Str) (sibs : List Val) (rest : List (Str × Val))
    (hs : sibs ≠ []) (hk : k ∉ keys base) (hr : k ∉ keys rest) :
    Conv.groupOnto base (sibs.map (k, ·) ++ rest)
      = Conv.groupOnto (base ++ [(k, collectV sibs)]) rest := by
  obtain ⟨s, ss, rfl⟩ := List.exists_cons_of_ne_nil hs
  rw [groupOnto_eq, groupOnto_eq]
  have hkeys : (((s :: ss).map (k, ·) ++ rest).map (·.1)).eraseDups
      = k :: (rest.map (·.1)).eraseDups := by
    simp only [List.map_cons, List.cons_append, List.eraseDups_cons]
    congr 1
    congr 1
    rw [List.map_append, List.filter_append]
    have h1 : ((ss.map (fun x => (k, x))).map (·.1)).filter (fun b => !b == k) = [] := by
      rw [List.filter_eq_nil_iff]; intro a ha
      simp only [List.map_map, List.mem_map, Function.comp_def] at ha
      obtain ⟨_, _, rfl⟩ := ha
      simp
    have h2 : (rest.map (·.1)).filter (fun b => !b == k) = rest.map (·.1) := by
      rw [List.filter_eq_self]; intro a ha
      have : a ≠ k := fun e => hr (by subst e; exact ha)
      simp [this]
    rw [h1, h2]; rfl
  rw [hkeys, List.foldl_cons]
  have hstep : gStep ((s :: ss).map (k, ·) ++ rest) base k = base ++ [(k, collectV (s :: ss))] := by
    unfold gStep
    rw [(lookup_eq_none_iff k base).2 hk, valsOf_block_self k _ rest hr,
      collect_none _ (by simp)]
    exact insert_of_not_mem k _ base hk
  rw [hstep]
  apply foldl_gStep_congr
  intro q hq
  rw [List.mem_eraseDups] at hq
  apply valsOf_block_other
  intro e; subst e; exact hr hq


/-! ### the pieces of the image of a map -/

/-- an entry that becomes child elements -/
def isElemK (k : Str) : Bool := !(k = ec.textK || isAttrK ec k)

/-- the `(key, value)` sequence the children of a map element decode to -/
def elemPairs : Entries → List (Str × Val)
  | [] => []
  | (k, v) :: rest =>
      if k = ec.textK || isAttrK ec k then elemPairs rest
      else (imageSibs v).map (k, ·) ++ elemPairs rest

mutual
theorem imageSibs_ne_nil : ∀ (v : Val), imageSibs v ≠ []
  | .null => by simp [imageSibs]
  | .bool _ => by simp [imageSibs]
  | .num _ => by simp [imageSibs]
  | .str _ => by simp [imageSibs]
  | .map _ => by simp [imageSibs]
  | .list xs => by
      simp only [imageSibs]
      split
      · simp
      · rename_i h
        exact imageMembers_ne_nil xs (by intro e; subst e; simp at h)
theorem imageMembers_ne_nil : ∀ (xs : List Val), xs ≠ [] → imageMembers xs ≠ []
  | [], h => absurd rfl h
  | x :: xs, _ => by
      simp only [imageMembers]
      have := imageSibs_ne_nil x
      simp [this]
end

theorem keys_imageAttrs_sub : ∀ (kvs : Entries) (q : Str), q ∈ keys (imageAttrs kvs) →
    q ∈ keys kvs ∧ isAttrK ec q = true
  | [], _, h => by simp [imageAttrs, keys] at h
  | (k, v) :: rest, q, h => by
      simp only [imageAttrs] at h
      split at h
      · rename_i ha
        simp only [keys_cons, List.mem_cons] at h ⊢
        rcases h with rfl | h
        · exact ⟨.inl rfl, ha⟩
        · exact ⟨.inr (keys_imageAttrs_sub rest q h).1, (keys_imageAttrs_sub rest q h).2⟩
      · simp only [keys_cons, List.mem_cons]
        exact ⟨.inr (keys_imageAttrs_sub rest q h).1, (keys_imageAttrs_sub rest q h).2⟩

theorem keys_imageElems_sub : ∀ (kvs : Entries) (q : Str), q ∈ keys (imageElems kvs) →
    q ∈ keys kvs ∧ isElemK q = true
  | [], _, h => by simp [imageElems, keys] at h
  | (k, v) :: rest, q, h => by
      simp only [imageElems] at h
      split at h
      · simp only [keys_cons, List.mem_cons]
        exact ⟨.inr (keys_imageElems_sub rest q h).1, (keys_imageElems_sub rest q h).2⟩
      · rename_i ha
        simp only [keys_cons, List.mem_cons] at h ⊢
        rcases h with rfl | h
        · exact ⟨.inl rfl, by unfold isElemK; simpa using ha⟩
        · exact ⟨.inr (keys_imageElems_sub rest q h).1, (keys_imageElems_sub rest q h).2⟩

theorem keys_elemPairs_sub : ∀ (kvs : Entries) (q : Str), q ∈ keys (elemPairs kvs) → q ∈ keys kvs
  | [], _, h => by simp [elemPairs, keys] at h
  | (k, v) :: rest, q, h => by
      simp only [elemPairs] at h
      simp only [keys_cons, List.mem_cons]
      split at h
      · exact .inr (keys_elemPairs_sub rest q h)
      · rw [keys_append, List.mem_append] at h
        rcases h with h | h
        · left
          obtain ⟨e, he, rfl⟩ := mem_keys.1 h
          obtain ⟨_, _, rfl⟩ := List.mem_map.1 he
          rfl
        · exact .inr (keys_elemPairs_sub rest q h)

/-- grouping the children of a map element: one entry per element key, in entry order -/
theorem groupOnto_elemPairs : ∀ (kvs : Entries) (base : Entries), (keys kvs).Nodup →
    (∀ q ∈ keys kvs, isElemK q = true → q ∉ keys base) →
    Conv.groupOnto base (elemPairs kvs) = base ++ imageElems kvs
  | [], base, _, _ => by simp [elemPairs, imageElems, groupOnto_nil]
  | (k, v) :: rest, base, hd, hb => by
      simp only [keys_cons, List.nodup_cons] at hd
      have hb' : ∀ q ∈ keys rest, isElemK q = true → q ∉ keys base :=
        fun q hq => hb q (List.mem_cons_of_mem _ hq)
      simp only [elemPairs, imageElems]
      split
      · exact groupOnto_elemPairs rest base hd.2 hb'
      · rename_i hk
        have hk' : isElemK k = true := by unfold isElemK; simpa using hk
        rw [groupOnto_block base k _ _ (imageSibs_ne_nil v) (hb k (List.mem_cons_self ..) hk')
          (fun h => hd.1 (keys_elemPairs_sub rest k h))]
        rw [groupOnto_elemPairs rest _ hd.2, List.append_assoc]
        · rfl
        · intro q hq he
          rw [keys_append, List.mem_append, not_or]
          refine ⟨hb' q hq he, ?_⟩
          simp only [keys, List.map_cons, List.map_nil, List.mem_singleton]
          intro e; subst e; exact hd.1 hq

/-! ### attributes -/

theorem loadAttrs_eq (S : Strconv) (attrs : List Attr) :
    loadAttrs dc S attrs
      = attrs.foldl (fun na a => insert ('-' :: a.name) (.str a.value) na) [] := by
  unfold loadAttrs
  congr 1

theorem foldl_insert_fresh : ∀ (attrs : List Attr) (acc : Entries),
    (keys acc ++ attrs.map (fun a => '-' :: a.name)).Nodup →
    attrs.foldl (fun na a => insert ('-' :: a.name) (.str a.value) na) acc
      = acc ++ attrs.map (fun a => ('-' :: a.name, Val.str a.value))
  | [], acc, _ => by simp
  | a :: as, acc, h => by
      have hk : ('-' :: a.name) ∉ keys acc := by
        intro hm
        have := (List.nodup_append.1 h).2.2 _ hm _ (List.mem_map.2 ⟨a, List.mem_cons_self .., rfl⟩)
        exact this rfl
      rw [List.foldl_cons, insert_of_not_mem _ _ _ hk, foldl_insert_fresh as]
      · simp
      · rw [keys_append]
        simp only [keys, List.map_nil, List.map_cons, List.append_assoc,
          List.singleton_append] at h ⊢
        exact h

/-- decoding the encoder's attributes gives back the attribute entries, as strings -/
theorem encAttrs_image : ∀ (kvs : Entries) (attrs : List Attr), encAttrs ec kvs = .ok attrs →
    attrs.map (fun a => ('-' :: a.name, Val.str a.value)) = imageAttrs kvs
  | [], attrs, h => by
      simp only [encAttrs, Except.ok.injEq] at h; subst h; rfl
  | (k, v) :: rest, attrs, h => by
      simp only [encAttrs] at h
      simp only [imageAttrs]
      split at h
      · rename_i ha
        simp only [ha, if_true]
        cases hA : encAttr ec k v with
        | error e => rw [hA] at h; simp at h
        | ok a =>
          cases hR : encAttrs ec rest with
          | error e => rw [hA, hR] at h; simp at h
          | ok r =>
            rw [hA, hR] at h
            simp only [Except.ok.injEq] at h
            subst h
            unfold encAttr at hA
            cases hv : attrValue v with
            | none => rw [hv] at hA; simp at hA
            | some s =>
              rw [hv] at hA
              simp only [Except.ok.injEq] at hA
              subst hA
              simp only [List.map_cons, Option.getD_some, encAttrs_image rest r hR]
              congr 2
              exact isAttrK_ec_cons k ha
      · rename_i ha
        simp only [ha, Bool.false_eq_true, if_false]
        exact encAttrs_image rest attrs h

theorem nodup_keys_imageAttrs (kvs : Entries) (hd : (keys kvs).Nodup) : (keys (imageAttrs kvs)).Nodup := by
  induction kvs with
  | nil => simp [imageAttrs, keys]
  | cons e rest ih =>
    obtain ⟨k, v⟩ := e
    simp only [keys_cons, List.nodup_cons] at hd
    simp only [imageAttrs]
    split
    · simp only [keys_cons, List.nodup_cons]
      exact ⟨fun h => hd.1 (keys_imageAttrs_sub rest k h).1, ih hd.2⟩
    · exact ih hd.2

theorem loadAttrs_encAttrs (S : Strconv) (kvs : Entries) (attrs : List Attr)
    (hd : (keys kvs).Nodup) (h : encAttrs ec kvs = .ok attrs) :
    loadAttrs dc S attrs = imageAttrs kvs := by
  have hi := encAttrs_image kvs attrs h
  rw [loadAttrs_eq, foldl_insert_fresh attrs []]
  · simpa using hi
  · have := nodup_keys_imageAttrs kvs hd
    rw [← hi] at this
    simpa [keys, Function.comp_def] using this


/-! ### `Conv.value` unfolded -/

theorem value_elem_nil (cfg : DecCfg) (S : Strconv) (sp name : Str) (attrs : List Attr)
    (kids : List Node)
    (h : Conv.textRuns cfg (!(loadAttrs cfg S attrs).isEmpty || cfg.asMap) kids = []) :
    Conv.value cfg S (.elem sp name attrs kids) =
      if (Conv.groupOnto (loadAttrs cfg S attrs) (Conv.childVals cfg S 0 kids)).isEmpty
      then .str [] else .map (Conv.groupOnto (loadAttrs cfg S attrs) (Conv.childVals cfg S 0 kids)) := by
  simp only [Conv.value, h]

theorem value_elem_cons (cfg : DecCfg) (S : Strconv) (sp name : Str) (attrs : List Attr)
    (kids : List Node) (t : Conv.TextRun) (r : List Conv.TextRun)
    (h : Conv.textRuns cfg (!(loadAttrs cfg S attrs).isEmpty || cfg.asMap) kids = t :: r) :
    Conv.value cfg S (.elem sp name attrs kids) =
      if t.early then
        if (Conv.groupOnto (loadAttrs cfg S attrs) (Conv.childVals cfg S 0 kids)).isEmpty
        then cast S cfg.cast t.value (elemKey cfg S name)
        else .map (insert cfg.textK (cast S cfg.cast t.value (elemKey cfg S name))
              (Conv.groupOnto (loadAttrs cfg S attrs) (Conv.childVals cfg S 0 kids)))
      else .map (insert cfg.textK (cast S cfg.cast t.value cfg.textK)
              (Conv.groupOnto (loadAttrs cfg S attrs) (Conv.childVals cfg S 0 kids))) := by
  simp only [Conv.value, h]

/-! ### shape of the encoder's trees -/

def isElem : Node → Bool
  | .elem .. => true
  | _ => false

theorem childVals_append (S : Strconv) : ∀ (a b : List Node) (seq : Nat),
    Conv.childVals dc S seq (a ++ b) = Conv.childVals dc S seq a ++ Conv.childVals dc S seq b
  | [], _, _ => by simp [Conv.childVals]
  | n :: a, b, seq => by
      cases n <;>
        simp only [List.cons_append, Conv.childVals, seqDecorate_dc, childVals_append S a b,
          List.cons_append]

theorem childVals_text (S : Strconv) (s : Str) (ks : List Node) (seq : Nat) :
    Conv.childVals dc S seq (.text s :: ks) = Conv.childVals dc S seq ks := by
  simp only [Conv.childVals]

theorem childVals_elem (S : Strconv) (sp name : Str) (attrs : List Attr) (kids ks : List Node)
    (seq : Nat) :
    Conv.childVals dc S seq (.elem sp name attrs kids :: ks)
      = (name, Conv.value dc S (.elem sp name attrs kids)) :: Conv.childVals dc S seq ks := by
  simp only [Conv.childVals, seqDecorate_dc, elemKey_dc]

theorem textRuns_elems (cfg : DecCfg) : ∀ (ns : List Node) (seen : Bool),
    (∀ n ∈ ns, isElem n = true) → Conv.textRuns cfg seen ns = []
  | [], _, _ => rfl
  | n :: ns, seen, h => by
      have h1 := h n (List.mem_cons_self ..)
      have h2 : ∀ m ∈ ns, isElem m = true := fun m hm => h m (List.mem_cons_of_mem _ hm)
      cases n <;> simp only [isElem, Bool.false_eq_true] at h1
      simp only [Conv.textRuns, textRuns_elems cfg ns true h2]

mutual
theorem encTree_isElem (cfg : EncCfg) : ∀ (key : Str) (v : Val) (ns : List Node),
    encTree cfg key v = .ok ns → ∀ n ∈ ns, isElem n = true
  | key, .null, ns, h => by simp only [encTree, Except.ok.injEq] at h; subst h; simp [isElem]
  | key, .str s, ns, h => by simp only [encTree, Except.ok.injEq] at h; subst h; simp [isElem]
  | key, .bool b, ns, h => by
      cases b <;> simp only [encTree, fmtV, Except.ok.injEq] at h <;> subst h <;> simp [isElem]
  | key, .num t, ns, h => by simp only [encTree, fmtV, Except.ok.injEq] at h; subst h; simp [isElem]
  | key, .list xs, ns, h => by
      simp only [encTree] at h
      split at h
      · simp only [Except.ok.injEq] at h; subst h; simp [isElem]
      · exact encMembers_isElem cfg key xs ns h
  | key, .map vv, ns, h => by
      simp only [encTree] at h
      repeat' split at h
      all_goals first
        | (simp only [Except.ok.injEq] at h; subst h; simp [isElem])
        | simp at h
theorem encMembers_isElem (cfg : EncCfg) (key : Str) : ∀ (xs : List Val) (ns : List Node),
    encMembers cfg key xs = .ok ns → ∀ n ∈ ns, isElem n = true
  | [], ns, h => by simp only [encMembers, Except.ok.injEq] at h; subst h; simp
  | x :: xs, ns, h => by
      simp only [encMembers] at h
      split at h
      · simp at h
      · rename_i a ha
        split at h
        · simp at h
        · rename_i r hr
          simp only [Except.ok.injEq] at h
          subst h
          intro n hn
          rcases List.mem_append.1 hn with hn | hn
          · exact encTree_isElem cfg key x a ha n hn
          · exact encMembers_isElem cfg key xs r hr n hn
end

theorem encElems_isElem (cfg : EncCfg) : ∀ (kvs : Entries) (ns : List Node),
    encElems cfg kvs = .ok ns → ∀ n ∈ ns, isElem n = true
  | [], ns, h => by simp only [encElems, Except.ok.injEq] at h; subst h; simp
  | (k, v) :: rest, ns, h => by
      simp only [encElems] at h
      split at h
      · exact encElems_isElem cfg rest ns h
      · split at h
        · simp at h
        · rename_i a ha
          split at h
          · simp at h
          · rename_i r hr
            simp only [Except.ok.injEq] at h
            subst h
            intro n hn
            rcases List.mem_append.1 hn with hn | hn
            · exact encTree_isElem cfg k v a ha n hn
            · exact encElems_isElem cfg rest r hr n hn

/-! ### the map clause of `encTree` for the default configuration, uniformly -/

theorem countAttrs_le (cfg : EncCfg) (vv : Entries) : countAttrs cfg vv ≤ vv.length :=
  List.length_filter_le _ _

theorem countAttrs_cons (cfg : EncCfg) (k : Str) (v : Val) (rest : Entries) :
    countAttrs cfg ((k, v) :: rest)
      = (if isAttrK cfg k then 1 else 0) + countAttrs cfg rest := by
  unfold countAttrs
  rw [List.filter_cons]
  split <;> simp <;> omega

theorem encElems_all_attrs (cfg : EncCfg) : ∀ (vv : Entries), countAttrs cfg vv = vv.length →
    encElems cfg vv = .ok []
  | [], _ => rfl
  | (k, v) :: rest, h => by
      rw [countAttrs_cons] at h
      have := countAttrs_le cfg rest
      simp only [List.length_cons] at h
      by_cases ha : isAttrK cfg k = true
      · simp only [ha, if_true] at h
        simp only [encElems, ha, Bool.or_true, if_true]
        exact encElems_all_attrs cfg rest (by omega)
      · simp only [ha, Bool.false_eq_true, if_false] at h
        omega

theorem lookup_all_attrs : ∀ (vv : Entries), countAttrs ec vv = vv.length →
    lookup ec.textK vv = none
  | [], _ => rfl
  | (k, v) :: rest, h => by
      rw [countAttrs_cons] at h
      have := countAttrs_le ec rest
      simp only [List.length_cons] at h
      by_cases ha : isAttrK ec k = true
      · simp only [ha, if_true] at h
        have hk : ¬ ec.textK = k := by
          intro e; rw [← e, textK_not_attr] at ha; simp at ha
        simp only [lookup, hk, if_false]
        exact lookup_all_attrs rest (by omega)
      · simp only [ha, Bool.false_eq_true, if_false] at h
        omega

theorem encElems_text_attrs : ∀ (vv : Entries) (tv : Val), countAttrs ec vv + 1 = vv.length →
    lookup ec.textK vv = some tv → encElems ec vv = .ok []
  | [], _, h, _ => by simp [countAttrs] at h
  | (k, v) :: rest, tv, h, hl => by
      rw [countAttrs_cons] at h
      have := countAttrs_le ec rest
      simp only [List.length_cons] at h
      by_cases ha : isAttrK ec k = true
      · simp only [ha, if_true] at h
        have hk : ¬ ec.textK = k := by
          intro e; rw [← e, textK_not_attr] at ha; simp at ha
        simp only [lookup, hk, if_false] at hl
        simp only [encElems, ha, Bool.or_true, if_true]
        exact encElems_text_attrs rest tv (by omega) hl
      · simp only [ha, Bool.false_eq_true, if_false, Nat.zero_add] at h
        have hc : countAttrs ec rest = rest.length := by omega
        by_cases hk : k = ec.textK
        · simp only [encElems, hk, decide_true, Bool.true_or, if_true]
          exact encElems_all_attrs ec rest hc
        · have hk' : ¬ ec.textK = k := fun e => hk e.symm
          simp only [lookup, hk', if_false, lookup_all_attrs rest hc] at hl
          simp at hl

/-- the text child of a map element -/
def textNodes (vv : Entries) : List Node :=
  match lookup ec.textK vv with
  | some tv => [.text (leafText tv)]
  | none => []

theorem encTree_map_ec (key : Str) (vv : Entries) (ns : List Node)
    (h : encTree ec key (.map vv) = .ok ns) :
    ∃ attrs kids, encAttrs ec vv = .ok attrs ∧ encElems ec vv = .ok kids
      ∧ ns = [.elem [] key attrs (textNodes vv ++ kids)] := by
  simp only [encTree] at h
  cases hA : encAttrs ec vv with
  | error e => rw [hA] at h; simp at h
  | ok attrs =>
    rw [hA] at h
    simp only at h
    by_cases hn : countAttrs ec vv = vv.length
    · simp only [hn, if_true, Except.ok.injEq] at h
      refine ⟨attrs, [], rfl, encElems_all_attrs ec vv hn, ?_⟩
      simp only [textNodes, lookup_all_attrs vv hn]
      exact h.symm
    · simp only [hn, if_false] at h
      cases hl : lookup ec.textK vv with
      | some tv =>
        rw [hl] at h
        simp only at h
        cases hf : fmtV tv with
        | none => rw [hf] at h; simp at h
        | some txt =>
          rw [hf] at h
          simp only at h
          have htn : textNodes vv = [.text txt] := by
            simp only [textNodes, hl, leafText, hf, Option.getD_some]
          by_cases hn1 : countAttrs ec vv + 1 = vv.length
          · simp only [hn1, if_true, Except.ok.injEq] at h
            refine ⟨attrs, [], rfl, encElems_text_attrs vv tv hn1 hl, ?_⟩
            rw [htn]; exact h.symm
          · simp only [hn1, if_false] at h
            cases hE : encElems ec vv with
            | error e => rw [hE] at h; simp at h
            | ok kids =>
              rw [hE] at h
              simp only [Except.ok.injEq] at h
              refine ⟨attrs, kids, rfl, rfl, ?_⟩
              rw [htn]; exact h.symm
      | none =>
        rw [hl] at h
        simp only at h
        cases hE : encElems ec vv with
        | error e => rw [hE] at h; simp at h
        | ok kids =>
          rw [hE] at h
          simp only [Except.ok.injEq] at h
          refine ⟨attrs, kids, rfl, rfl, ?_⟩
          simp only [textNodes, hl]
          exact h.symm


/-! ### decoding the encoder's tree computes the image -/

theorem textK_not_mem_base (vv : Entries) : ec.textK ∉ keys (imageAttrs vv ++ imageElems vv) := by
  rw [keys_append, List.mem_append]
  rintro (h | h)
  · have := (keys_imageAttrs_sub vv _ h).2
    rw [textK_not_attr] at this; simp at this
  · have := (keys_imageElems_sub vv _ h).2
    simp [isElemK] at this

theorem imageAttrs_isEmpty_of_base (vv : Entries)
    (h : (imageAttrs vv ++ imageElems vv).isEmpty = true) : (imageAttrs vv).isEmpty = true := by
  cases hA : imageAttrs vv with
  | nil => rfl
  | cons _ _ => rw [hA] at h; simp at h

/-- the value of the element built for a map -/
theorem value_map_node (S : Strconv) (key : Str) (vv : Entries) (attrs : List Attr)
    (kids : List Node) (hd : (keys vv).Nodup) (hA : encAttrs ec vv = .ok attrs)
    (hk : ∀ n ∈ kids, isElem n = true) (hcv : Conv.childVals dc S 0 kids = elemPairs vv) :
    Conv.value dc S (.elem [] key attrs (textNodes vv ++ kids))
      = finishImage (imageAttrs vv ++ imageElems vv) (imageText vv) := by
  have hLA := loadAttrs_encAttrs S vv attrs hd hA
  have hbase : Conv.groupOnto (imageAttrs vv) (elemPairs vv) = imageAttrs vv ++ imageElems vv := by
    apply groupOnto_elemPairs vv _ hd
    intro q _ he hm
    have := (keys_imageAttrs_sub vv q hm).2
    simp [isElemK, this] at he
  have hcv' : Conv.childVals dc S 0 (textNodes vv ++ kids) = elemPairs vv := by
    unfold textNodes
    split
    · rw [List.singleton_append, childVals_text, hcv]
    · rw [List.nil_append, hcv]
  have hruns_k : ∀ seen, Conv.textRuns dc seen kids = [] := fun seen => textRuns_elems dc kids seen hk
  cases hl : lookup ec.textK vv with
  | none =>
    have htn : textNodes vv = [] := by simp only [textNodes, hl]
    have hit : imageText vv = none := by simp only [imageText, hl]
    rw [value_elem_nil dc S _ _ _ _ (by rw [htn, List.nil_append]; exact hruns_k _)]
    rw [hcv', hLA, hbase, hit]
    rfl
  | some tv =>
    have htn : textNodes vv = [.text (leafText tv)] := by simp only [textNodes, hl]
    by_cases hte : (trimD (leafText tv)).isEmpty = true
    · have hit : imageText vv = none := by simp only [imageText, hl, hte, if_true]
      rw [value_elem_nil dc S _ _ _ _ (by
        rw [htn, List.singleton_append]
        simp only [Conv.textRuns, textOf_dc, hte, if_true]
        exact hruns_k _)]
      rw [hcv', hLA, hbase, hit]
      rfl
    · have hit : imageText vv = some (trimD (leafText tv)) := by
        simp only [imageText, hl, hte, Bool.false_eq_true, if_false]
      rw [value_elem_cons dc S _ _ _ _ ⟨trimD (leafText tv), !(!(loadAttrs dc S attrs).isEmpty || dc.asMap)⟩ [] (by
        rw [htn, List.singleton_append]
        simp only [Conv.textRuns, textOf_dc, hte, Bool.false_eq_true, if_false, hruns_k])]
      rw [hcv', hLA, hbase, hit]
      simp only [cast_dc, finishImage, textK_dc]
      rw [insert_of_not_mem _ _ _ (textK_not_mem_base vv)]
      by_cases hb : (imageAttrs vv ++ imageElems vv).isEmpty = true
      · have ha := imageAttrs_isEmpty_of_base vv hb
        simp [hb, ha, dc]
      · simp only [hb, Bool.false_eq_true, if_false]
        split <;> rfl


theorem value_empty (S : Strconv) (key : Str) : Conv.value dc S (.elem [] key [] []) = .str [] := by
  rw [value_elem_nil dc S _ _ _ _ rfl]; rfl

theorem trimD_nil : trimD [] = [] := rfl

theorem isEmpty_eq_nil {α : Type} {l : List α} (h : l.isEmpty = true) : l = [] := by
  cases l <;> simp_all

theorem value_leaf (S : Strconv) (key t : Str) :
    Conv.value dc S (.elem [] key [] [.text t]) = .str (trimD t) := by
  by_cases hte : (trimD t).isEmpty = true
  · rw [value_elem_nil dc S _ _ _ _ (by simp only [Conv.textRuns, textOf_dc, hte, if_true])]
    rw [isEmpty_eq_nil hte]; rfl
  · rw [value_elem_cons dc S _ _ _ _ ⟨trimD t, true⟩ [] (by
      simp only [Conv.textRuns, textOf_dc, hte, Bool.false_eq_true, if_false]; rfl)]
    simp only [cast_dc, if_true]
    rfl

theorem childVals_single (S : Strconv) (key : Str) (attrs : List Attr) (kids : List Node) :
    Conv.childVals dc S 0 [.elem [] key attrs kids]
      = [(key, Conv.value dc S (.elem [] key attrs kids))] := by
  rw [childVals_elem]; simp only [Conv.childVals]

mutual
/-- the decoding conventions on the encoder's sibling trees: every sibling is an element
    named `key`, and their values are, in order, the sibling images of `v` -/
theorem childVals_encTree (S : Strconv) : ∀ (key : Str) (v : Val) (ns : List Node),
    v.wf = true → encTree ec key v = .ok ns →
    Conv.childVals dc S 0 ns = (imageSibs v).map (key, ·)
  | key, .null, ns, _, h => by
      simp only [encTree, Except.ok.injEq] at h; subst h
      rw [childVals_single, value_empty]; rfl
  | key, .str [], ns, _, h => by
      simp only [encTree, Except.ok.injEq] at h; subst h
      simp only [List.isEmpty_nil, if_true]
      rw [childVals_single, value_empty]; rfl
  | key, .str (c :: s), ns, _, h => by
      simp only [encTree, Except.ok.injEq] at h; subst h
      simp only [List.isEmpty_cons, Bool.false_eq_true, if_false]
      rw [childVals_single, value_leaf]; rfl
  | key, .bool b, ns, _, h => by
      cases b <;> simp only [encTree, fmtV, Except.ok.injEq] at h <;> subst h <;>
        rw [childVals_single, value_leaf] <;> rfl
  | key, .num t, ns, _, h => by
      simp only [encTree, fmtV, Except.ok.injEq] at h; subst h
      rw [childVals_single, value_leaf]; rfl
  | key, .list xs, ns, hwf, h => by
      simp only [Val.wf] at hwf
      simp only [encTree] at h
      simp only [imageSibs]
      split at h
      · rename_i he
        simp only [Except.ok.injEq] at h; subst h
        simp only [he, if_true]
        rw [childVals_single, value_empty]; rfl
      · rename_i he
        simp only [he, Bool.false_eq_true, if_false]
        exact childVals_encMembers S key xs ns hwf h
  | key, .map vv, ns, hwf, h => by
      simp only [Val.wf, Bool.and_eq_true] at hwf
      obtain ⟨attrs, kids, hA, hE, rfl⟩ := encTree_map_ec key vv ns h
      have hd := (distinctKeys_iff vv).1 hwf.2
      rw [childVals_single, value_map_node S key vv attrs kids hd hA (encElems_isElem ec vv kids hE)
        (childVals_encElems S vv kids hwf.1 hE)]
      simp only [imageSibs, List.map_cons, List.map_nil]
theorem childVals_encMembers (S : Strconv) (key : Str) : ∀ (xs : List Val) (ns : List Node),
    Val.wfList xs = true → encMembers ec key xs = .ok ns →
    Conv.childVals dc S 0 ns = (imageMembers xs).map (key, ·)
  | [], ns, _, h => by
      simp only [encMembers, Except.ok.injEq] at h; subst h
      simp only [imageMembers, List.map_nil, Conv.childVals]
  | x :: xs, ns, hwf, h => by
      simp only [Val.wfList, Bool.and_eq_true] at hwf
      simp only [encMembers] at h
      split at h
      · simp at h
      · rename_i a ha
        split at h
        · simp at h
        · rename_i r hr
          simp only [Except.ok.injEq] at h
          subst h
          rw [childVals_append, childVals_encTree S key x a hwf.1 ha,
            childVals_encMembers S key xs r hwf.2 hr]
          simp only [imageMembers, List.map_append]
theorem childVals_encElems (S : Strconv) : ∀ (kvs : Entries) (ns : List Node),
    Val.wfEntries kvs = true → encElems ec kvs = .ok ns →
    Conv.childVals dc S 0 ns = elemPairs kvs
  | [], ns, _, h => by
      simp only [encElems, Except.ok.injEq] at h; subst h
      simp only [elemPairs, Conv.childVals]
  | (k, v) :: rest, ns, hwf, h => by
      simp only [Val.wfEntries, Bool.and_eq_true] at hwf
      simp only [encElems] at h
      simp only [elemPairs]
      split at h
      · rename_i hk
        simp only [hk, if_true]
        exact childVals_encElems S rest ns hwf.2 h
      · rename_i hk
        simp only [hk, Bool.false_eq_true, if_false]
        split at h
        · simp at h
        · rename_i a ha
          split at h
          · simp at h
          · rename_i r hr
            simp only [Except.ok.injEq] at h
            subst h
            rw [childVals_append, childVals_encTree S k v a hwf.1 ha,
              childVals_encElems S rest r hwf.2 hr]
end

/-- grouping the siblings under their common key -/
theorem siblingsValue_encTree (S : Strconv) (key : Str) (v : Val) (ns : List Node)
    (hwf : v.wf = true) (h : encTree ec key v = .ok ns) :
    siblingsValue dc S ns = imageUnder key v := by
  unfold siblingsValue imageUnder image
  rw [childVals_encTree S key v ns hwf h]
  have := groupOnto_block [] key (imageSibs v) [] (imageSibs_ne_nil v) (by simp [keys]) (by simp [keys])
  rw [List.append_nil] at this
  rw [this, groupOnto_nil]
  rfl


/-! ### the encoder succeeds on `EncDomain` -/

theorem isScalar_wf {v : Val} (h : isScalar v = true) : v.wf = true := by
  cases v <;> simp [isScalar, attrValue] at h <;> rfl

mutual
theorem EncDomain_wf : ∀ (v : Val), EncDomain v = true → v.wf = true
  | .null, _ => rfl
  | .bool _, _ => rfl
  | .num _, _ => rfl
  | .str _, _ => rfl
  | .list xs, h => by
      simp only [EncDomain] at h
      simp only [Val.wf, EncDomainList_wf xs h]
  | .map kvs, h => by
      simp only [EncDomain, Bool.and_eq_true] at h
      simp only [Val.wf, EncDomainEntries_wf kvs h.2, h.1, Bool.and_self]
theorem EncDomainList_wf : ∀ (xs : List Val), EncDomainList xs = true → Val.wfList xs = true
  | [], _ => rfl
  | x :: xs, h => by
      simp only [EncDomainList, Bool.and_eq_true] at h
      simp only [Val.wfList, EncDomain_wf x h.1, EncDomainList_wf xs h.2, Bool.and_self]
theorem EncDomainEntries_wf : ∀ (kvs : Entries), EncDomainEntries kvs = true →
    Val.wfEntries kvs = true
  | [], _ => rfl
  | (k, v) :: rest, h => by
      simp only [EncDomainEntries, Bool.and_eq_true] at h
      simp only [Val.wfEntries, EncDomainEntries_wf rest h.2, Bool.and_true]
      have h1 := h.1
      split at h1
      · exact isScalar_wf h1
      · exact EncDomain_wf v h1
end

theorem encAttrs_ok : ∀ (kvs : Entries), EncDomainEntries kvs = true →
    ∃ attrs, encAttrs ec kvs = .ok attrs
  | [], _ => ⟨[], rfl⟩
  | (k, v) :: rest, h => by
      simp only [EncDomainEntries, Bool.and_eq_true] at h
      obtain ⟨r, hr⟩ := encAttrs_ok rest h.2
      simp only [encAttrs]
      split
      · rename_i ha
        have h1 := h.1
        simp only [ha, Bool.true_or, if_true, isScalar] at h1
        obtain ⟨s, hs⟩ := Option.isSome_iff_exists.1 h1
        exact ⟨⟨[], k.drop ec.attrPrefix.length, s⟩ :: r, by simp only [encAttr, hs, hr]⟩
      · exact ⟨r, hr⟩

theorem textValue_ok : ∀ (kvs : Entries) (tv : Val), EncDomainEntries kvs = true →
    lookup ec.textK kvs = some tv → ∃ t, fmtV tv = some t
  | [], _, _, h => by simp [lookup] at h
  | (k, v) :: rest, tv, hd, h => by
      simp only [EncDomainEntries, Bool.and_eq_true] at hd
      simp only [lookup] at h
      split at h
      · rename_i e
        obtain rfl := Option.some.inj h
        have h1 := hd.1
        simp only [← e, decide_true, Bool.or_true, if_true, isScalar] at h1
        match v, h1 with
        | .str _, _ => exact ⟨_, rfl⟩
        | .num _, _ => exact ⟨_, rfl⟩
        | .bool true, _ => exact ⟨_, rfl⟩
        | .bool false, _ => exact ⟨_, rfl⟩
        | .null, h1 => simp [attrValue] at h1
        | .list _, h1 => simp [attrValue] at h1
        | .map _, h1 => simp [attrValue] at h1
      · exact textValue_ok rest tv hd.2 h

mutual
theorem encTree_ok : ∀ (key : Str) (v : Val), EncDomain v = true → ∃ ns, encTree ec key v = .ok ns
  | key, .null, _ => ⟨_, rfl⟩
  | key, .str s, _ => ⟨_, rfl⟩
  | key, .bool true, _ => ⟨_, rfl⟩
  | key, .bool false, _ => ⟨_, rfl⟩
  | key, .num t, _ => ⟨_, rfl⟩
  | key, .list xs, h => by
      simp only [EncDomain] at h
      simp only [encTree]
      split
      · exact ⟨_, rfl⟩
      · exact encMembers_ok key xs h
  | key, .map vv, h => by
      simp only [EncDomain, Bool.and_eq_true] at h
      obtain ⟨attrs, hA⟩ := encAttrs_ok vv h.2
      obtain ⟨kids, hE⟩ := encElems_ok vv h.2
      simp only [encTree, hA, hE]
      split
      · exact ⟨_, rfl⟩
      · split
        · rename_i tv hl
          obtain ⟨t, ht⟩ := textValue_ok vv tv h.2 hl
          simp only [ht]
          split <;> exact ⟨_, rfl⟩
        · exact ⟨_, rfl⟩
theorem encMembers_ok (key : Str) : ∀ (xs : List Val), EncDomainList xs = true →
    ∃ ns, encMembers ec key xs = .ok ns
  | [], _ => ⟨_, rfl⟩
  | x :: xs, h => by
      simp only [EncDomainList, Bool.and_eq_true] at h
      obtain ⟨a, ha⟩ := encTree_ok key x h.1
      obtain ⟨r, hr⟩ := encMembers_ok key xs h.2
      exact ⟨a ++ r, by simp only [encMembers, ha, hr]⟩
theorem encElems_ok : ∀ (kvs : Entries), EncDomainEntries kvs = true →
    ∃ ns, encElems ec kvs = .ok ns
  | [], _ => ⟨_, rfl⟩
  | (k, v) :: rest, h => by
      simp only [EncDomainEntries, Bool.and_eq_true] at h
      obtain ⟨r, hr⟩ := encElems_ok rest h.2
      simp only [encElems]
      split
      · exact ⟨r, hr⟩
      · rename_i hk
        have h1 := h.1
        have hk' : (isAttrK ec k || decide (k = ec.textK)) = false := by
          rw [Bool.or_comm]; simpa using hk
        simp only [hk', Bool.false_eq_true, if_false] at h1
        obtain ⟨a, ha⟩ := encTree_ok k v h1
        exact ⟨a ++ r, by simp only [ha, hr]⟩
end


/-! ### a decoded value is its own image (up to entry order) -/

/-- the values stored under a key, as siblings -/
def sibsOf : Val → List Val
  | .list xs => xs
  | v => [v]

/-- the text-key entries (at most one on a map with distinct keys) -/
def textEntries : Entries → Entries
  | [] => []
  | (k, v) :: rest =>
      if isAttrK ec k then textEntries rest
      else if k = ec.textK then (k, v) :: textEntries rest
      else textEntries rest

theorem textEntries_of_not_mem : ∀ (kvs : Entries), ec.textK ∉ keys kvs → textEntries kvs = []
  | [], _ => rfl
  | (k, v) :: rest, h => by
      simp only [keys_cons, List.mem_cons, not_or] at h
      have hk : ¬ k = ec.textK := fun e => h.1 e.symm
      simp only [textEntries, hk, if_false, ite_self]
      exact textEntries_of_not_mem rest h.2

theorem textEntries_lookup : ∀ (kvs : Entries), (keys kvs).Nodup →
    textEntries kvs = match lookup ec.textK kvs with
      | some v => [(ec.textK, v)]
      | none => []
  | [], _ => rfl
  | (k, v) :: rest, hd => by
      simp only [keys_cons, List.nodup_cons] at hd
      by_cases hk : k = ec.textK
      · subst hk
        simp only [textEntries, textK_not_attr, Bool.false_eq_true, if_false, if_true, lookup]
        rw [textEntries_of_not_mem rest hd.1]
      · have hk' : ¬ ec.textK = k := fun e => hk e.symm
        simp only [textEntries, hk, if_false, ite_self, lookup, hk']
        exact textEntries_lookup rest hd.2

theorem lookup_text_decoded : ∀ (kvs : Entries) (v : Val), DecodedEntries kvs = true →
    lookup ec.textK kvs = some v → textEntryOk v = true
  | [], _, _, h => by simp [lookup] at h
  | (k, v') :: rest, v, hd, h => by
      simp only [DecodedEntries, Bool.and_eq_true] at hd
      simp only [lookup] at h
      split at h
      · rename_i e
        obtain rfl := Option.some.inj h
        have h1 := hd.1
        rw [← e] at h1
        simpa only [textK_not_attr, Bool.false_eq_true, if_false, if_true] using h1
      · exact lookup_text_decoded rest v hd.2 h

theorem base_ne_nil : ∀ (kvs : Entries), kvs.any (fun e => e.1 != ec.textK) = true →
    (imageAttrs kvs ++ imageElems kvs).isEmpty = false
  | [], h => by simp at h
  | (k, v) :: rest, h => by
      simp only [List.any_cons, Bool.or_eq_true, bne_iff_ne, ne_eq] at h
      simp only [imageAttrs, imageElems]
      by_cases ha : isAttrK ec k = true
      · simp [ha]
      · have ha' : isAttrK ec k = false := by simpa using ha
        by_cases hk : k = ec.textK
        · simp only [hk, decide_true, Bool.true_or, if_true]
          rcases h with h | h
          · exact absurd hk h
          · exact base_ne_nil rest (by simpa using h)
        · simp [ha', hk]

theorem collectV_norm (ys : List Val) (v : Val) (h : ys.map Val.norm = (sibsOf v).map Val.norm)
    (hl : ∀ xs, v = .list xs → 2 ≤ xs.length) : (collectV ys).norm = v.norm := by
  have hlen : ys.length = (sibsOf v).length := by
    have := congrArg List.length h
    simpa using this
  cases v with
  | list xs =>
    have h2 := hl xs rfl
    simp only [sibsOf] at h hlen
    match ys, hlen with
    | [], hlen => simp at hlen; omega
    | [_], hlen => simp at hlen; omega
    | a :: b :: r, _ =>
      simp only [collectV, Val.norm, normList_eq_map, h]
  | null | bool _ | num _ | str _ | map _ =>
    simp only [sibsOf, List.length_cons, List.length_nil] at hlen
    match ys, hlen with
    | [y], _ =>
      simp only [sibsOf, List.map_cons, List.map_nil, List.cons.injEq, and_true] at h
      exact h

theorem finishImage_decoded (base T : Entries) (txt : Option Str)
    (hb : base.isEmpty = false)
    (hT : T = match txt with | some s => [(ec.textK, .str s)] | none => []) :
    finishImage base txt = .map (base ++ T) := by
  subst hT
  cases txt <;> simp [finishImage, hb]

mutual
theorem image_decodedChild : ∀ (v : Val), DecodedChild v = true →
    (imageSibs v).map Val.norm = (sibsOf v).map Val.norm
  | .null, h => by simp [DecodedChild] at h
  | .bool _, h => by simp [DecodedChild] at h
  | .num _, h => by simp [DecodedChild] at h
  | .str s, h => by
      simp only [DecodedChild, trimmed, beq_iff_eq] at h
      simp only [imageSibs, sibsOf, h]
  | .list xs, h => by
      simp only [DecodedChild, Bool.and_eq_true, decide_eq_true_eq] at h
      have hne : xs.isEmpty = false := by cases xs <;> simp_all
      simp only [imageSibs, hne, Bool.false_eq_true, if_false, sibsOf]
      exact image_decodedList xs h.2
  | .map kvs, h => by
      simp only [DecodedChild, Bool.and_eq_true] at h
      obtain ⟨⟨hd, hany⟩, hE⟩ := h
      have hnd := (distinctKeys_iff kvs).1 hd
      have hperm := image_decodedEntries kvs hE
      have hT : textEntries kvs = match imageText kvs with
          | some s => [(ec.textK, .str s)]
          | none => [] := by
        rw [textEntries_lookup kvs hnd]
        unfold imageText
        cases hl : lookup ec.textK kvs with
        | none => rfl
        | some tv =>
          have hok := lookup_text_decoded kvs tv hE hl
          cases tv <;> simp only [textEntryOk, Bool.false_eq_true] at hok
          rename_i s
          simp only [Bool.and_eq_true, trimmed, beq_iff_eq, Bool.not_eq_true'] at hok
          simp only [leafText, fmtV, Option.getD_some, hok.1, hok.2, Bool.false_eq_true, if_false]
      simp only [imageSibs, sibsOf, List.map_cons, List.map_nil, List.cons.injEq, and_true]
      rw [finishImage_decoded _ (textEntries kvs) _ (base_ne_nil kvs hany) hT]
      simp only [Val.norm]
      congr 1
      refine (sortByKey_congr ?_ hperm.symm).symm
      rw [keys_normEntries]; exact hnd
theorem image_decodedList : ∀ (xs : List Val), DecodedList xs = true →
    (imageMembers xs).map Val.norm = xs.map Val.norm
  | [], _ => rfl
  | x :: xs, h => by
      simp only [DecodedList, Bool.and_eq_true, Bool.not_eq_true'] at h
      have h1 := image_decodedChild x h.1.2
      have hs : sibsOf x = [x] := by
        cases x <;> simp [Val.isList] at h <;> rfl
      rw [hs] at h1
      simp only [imageMembers, List.map_append, h1, image_decodedList xs h.2, List.map_cons,
        List.map_nil, List.singleton_append]
theorem image_decodedEntries : ∀ (kvs : Entries), DecodedEntries kvs = true →
    (Val.normEntries (imageAttrs kvs ++ imageElems kvs ++ textEntries kvs)).Perm
      (Val.normEntries kvs)
  | [], _ => by simp [imageAttrs, imageElems, textEntries, Val.normEntries]
  | (k, v) :: rest, h => by
      simp only [DecodedEntries, Bool.and_eq_true] at h
      have ih := image_decodedEntries rest h.2
      have h1 := h.1
      simp only [normEntries_eq_map, List.map_append] at ih ⊢
      by_cases ha : isAttrK ec k = true
      · simp only [ha, if_true] at h1
        cases v <;> simp only [isStr, Bool.false_eq_true] at h1
        simp only [imageAttrs, imageElems, textEntries, ha, if_true, Bool.or_true, attrValue,
          Option.getD_some, List.map_cons, List.cons_append]
        exact ih.cons _
      · have ha' : isAttrK ec k = false := by simpa using ha
        simp only [ha', Bool.false_eq_true, if_false] at h1
        by_cases hk : k = ec.textK
        · simp only [imageAttrs, imageElems, textEntries, hk, decide_true, Bool.true_or,
            if_true, List.map_cons]
          exact List.perm_middle.trans (ih.cons _)
        · simp only [hk, if_false] at h1
          have hc : (collectV (imageSibs v)).norm = v.norm := by
            apply collectV_norm _ _ (image_decodedChild v h1)
            intro xs e; subst e
            simp only [DecodedChild, Bool.and_eq_true, decide_eq_true_eq] at h1
            exact h1.1
          simp only [imageAttrs, imageElems, textEntries, ha', hk, decide_false, Bool.or_false,
            Bool.false_eq_true, if_false, List.map_cons, hc]
          simp only [List.append_assoc, List.cons_append] at ih ⊢
          exact List.perm_middle.trans (ih.cons _)
end

/-- a value of the shape the decoder produces is, up to entry order, its own image -/
theorem image_decoded (v : Val) (h : Decoded v = true) : image v ≈ᵥ v := by
  unfold Decoded at h
  simp only [Bool.and_eq_true, Bool.not_eq_true'] at h
  unfold image Val.equiv
  apply collectV_norm _ _ (image_decodedChild v h.2)
  intro xs e; subst e; simp [Val.isList] at h


/-! ### `Decoded` is invariant under normalisation, and inside the encoder's domain -/

def entryDecoded (e : Str × Val) : Bool :=
  if isAttrK ec e.1 then isStr e.2
  else if e.1 = ec.textK then textEntryOk e.2
  else DecodedChild e.2

theorem DecodedEntries_iff : ∀ (l : Entries),
    DecodedEntries l = true ↔ ∀ e ∈ l, entryDecoded e = true
  | [] => by simp [DecodedEntries]
  | (k, v) :: rest => by
      simp only [DecodedEntries, Bool.and_eq_true, DecodedEntries_iff rest, List.mem_cons,
        forall_eq_or_imp, entryDecoded]

theorem isStr_norm (v : Val) : isStr v.norm = isStr v := by cases v <;> rfl
theorem textEntryOk_norm (v : Val) : textEntryOk v.norm = textEntryOk v := by cases v <;> rfl
theorem isList_norm (v : Val) : v.norm.isList = v.isList := by cases v <;> rfl

theorem distinctKeys_perm {l l' : Entries} (hp : l.Perm l') (h : distinctKeys l = true) :
    distinctKeys l' = true :=
  (distinctKeys_iff l').2 ((keys_nodup_perm hp).1 ((distinctKeys_iff l).1 h))

theorem length_normList (xs : List Val) : (Val.normList xs).length = xs.length := by
  rw [normList_eq_map, List.length_map]

mutual
theorem DecodedChild_norm : ∀ (v : Val), DecodedChild v = true → DecodedChild v.norm = true
  | .null, h => h
  | .bool _, h => h
  | .num _, h => h
  | .str _, h => h
  | .list xs, h => by
      simp only [DecodedChild, Bool.and_eq_true, decide_eq_true_eq] at h
      simp only [Val.norm, DecodedChild, Bool.and_eq_true, decide_eq_true_eq, length_normList]
      exact ⟨h.1, DecodedList_norm xs h.2⟩
  | .map kvs, h => by
      simp only [DecodedChild, Bool.and_eq_true] at h
      obtain ⟨⟨hd, hany⟩, hE⟩ := h
      have hp := sortByKey_perm (Val.normEntries kvs)
      simp only [Val.norm, DecodedChild, Bool.and_eq_true]
      refine ⟨⟨?_, ?_⟩, ?_⟩
      · apply distinctKeys_perm hp.symm
        rw [distinctKeys_iff, keys_normEntries]; exact (distinctKeys_iff kvs).1 hd
      · rw [List.any_eq_true] at hany ⊢
        obtain ⟨e, he, hk⟩ := hany
        refine ⟨(e.1, e.2.norm), hp.mem_iff.2 ?_, hk⟩
        rw [normEntries_eq_map]
        exact List.mem_map.2 ⟨e, he, rfl⟩
      · rw [DecodedEntries_iff]
        intro e he
        exact (DecodedEntries_iff _).1 (DecodedEntries_norm kvs hE) e (hp.mem_iff.1 he)
theorem DecodedList_norm : ∀ (xs : List Val), DecodedList xs = true →
    DecodedList (Val.normList xs) = true
  | [], _ => rfl
  | x :: xs, h => by
      simp only [DecodedList, Bool.and_eq_true] at h
      simp only [Val.normList, DecodedList, Bool.and_eq_true, isList_norm]
      exact ⟨⟨h.1.1, DecodedChild_norm x h.1.2⟩, DecodedList_norm xs h.2⟩
theorem DecodedEntries_norm : ∀ (kvs : Entries), DecodedEntries kvs = true →
    DecodedEntries (Val.normEntries kvs) = true
  | [], _ => rfl
  | (k, v) :: rest, h => by
      simp only [DecodedEntries, Bool.and_eq_true] at h
      simp only [Val.normEntries, DecodedEntries, Bool.and_eq_true, isStr_norm, textEntryOk_norm]
      refine ⟨?_, DecodedEntries_norm rest h.2⟩
      have h1 := h.1
      split
      · rename_i ha; simpa only [ha, if_true] using h1
      · rename_i ha
        simp only [ha, Bool.false_eq_true, if_false] at h1
        split
        · rename_i hk; simpa only [hk, if_true] using h1
        · rename_i hk
          simp only [hk, if_false] at h1
          exact DecodedChild_norm v h1
end

theorem Decoded_norm (v : Val) (h : Decoded v = true) : Decoded v.norm = true := by
  unfold Decoded at h ⊢
  simp only [Bool.and_eq_true] at h ⊢
  exact ⟨by rw [isList_norm]; exact h.1, DecodedChild_norm v h.2⟩

theorem isStr_scalar {v : Val} (h : isStr v = true) : isScalar v = true := by
  cases v <;> simp [isStr] at h <;> rfl

theorem textEntryOk_scalar {v : Val} (h : textEntryOk v = true) : isScalar v = true := by
  cases v <;> simp [textEntryOk] at h <;> rfl

mutual
theorem DecodedChild_EncDomain : ∀ (v : Val), DecodedChild v = true → EncDomain v = true
  | .null, _ => rfl
  | .bool _, _ => rfl
  | .num _, _ => rfl
  | .str _, _ => rfl
  | .list xs, h => by
      simp only [DecodedChild, Bool.and_eq_true] at h
      simp only [EncDomain, DecodedList_EncDomain xs h.2]
  | .map kvs, h => by
      simp only [DecodedChild, Bool.and_eq_true] at h
      simp only [EncDomain, h.1.1, DecodedEntries_EncDomain kvs h.2, Bool.and_self]
theorem DecodedList_EncDomain : ∀ (xs : List Val), DecodedList xs = true →
    EncDomainList xs = true
  | [], _ => rfl
  | x :: xs, h => by
      simp only [DecodedList, Bool.and_eq_true] at h
      simp only [EncDomainList, DecodedChild_EncDomain x h.1.2, DecodedList_EncDomain xs h.2,
        Bool.and_self]
theorem DecodedEntries_EncDomain : ∀ (kvs : Entries), DecodedEntries kvs = true →
    EncDomainEntries kvs = true
  | [], _ => rfl
  | (k, v) :: rest, h => by
      simp only [DecodedEntries, Bool.and_eq_true] at h
      simp only [EncDomainEntries, DecodedEntries_EncDomain rest h.2, Bool.and_true]
      have h1 := h.1
      by_cases ha : isAttrK ec k = true
      · simp only [ha, if_true] at h1
        simp only [ha, Bool.true_or, if_true, isStr_scalar h1]
      · have ha' : isAttrK ec k = false := by simpa using ha
        simp only [ha', Bool.false_eq_true, if_false] at h1
        by_cases hk : k = ec.textK
        · simp only [hk, if_true] at h1
          simp only [hk, decide_true, Bool.or_true, if_true, textEntryOk_scalar h1]
        · simp only [hk, if_false] at h1
          simp only [ha', hk, decide_false, Bool.or_false, Bool.false_eq_true, if_false,
            DecodedChild_EncDomain v h1]
end

theorem Decoded_EncDomain (v : Val) (h : Decoded v = true) : EncDomain v = true := by
  unfold Decoded at h
  simp only [Bool.and_eq_true] at h
  exact DecodedChild_EncDomain v h.2


/-! ### more on association lists and `Conv.groupOnto`, key-wise -/

theorem lookup_insert (k k' : Str) (v : Val) : ∀ (l : Entries),
    lookup k (insert k' v l) = if k = k' then some v else lookup k l
  | [] => by simp [insert, lookup]
  | (k'', v'') :: rest => by
      have ih := lookup_insert k k' v rest
      simp only [insert]
      by_cases h : k' = k''
      · subst h
        by_cases h2 : k = k' <;> simp [lookup, h2]
      · simp only [h, if_false, lookup, ih]
        by_cases h2 : k = k''
        · subst h2
          have : ¬ k = k' := fun e => h e.symm
          simp [this]
        · simp [h2]

theorem mem_keys_insert (x k : Str) (v : Val) : ∀ (l : Entries),
    x ∈ keys (insert k v l) ↔ x = k ∨ x ∈ keys l
  | [] => by simp [insert, keys]
  | (k', v') :: rest => by
      have ih := mem_keys_insert x k v rest
      simp only [keys, List.map_cons, List.mem_cons] at ih ⊢
      simp only [insert]
      by_cases h : k = k'
      · subst h; simp
      · simp only [h, if_false, List.map_cons, List.mem_cons, ih]
        constructor
        · rintro (h1 | h1 | h1) <;> simp [h1]
        · rintro (h1 | h1 | h1) <;> simp [h1]

theorem nodup_keys_insert (k : Str) (v : Val) : ∀ (l : Entries),
    (keys l).Nodup → (keys (insert k v l)).Nodup
  | [], _ => by simp [insert, keys]
  | (k', v') :: rest, h => by
      have h' : k' ∉ keys rest ∧ (keys rest).Nodup := by simpa [keys] using h
      simp only [insert]
      by_cases hk : k = k'
      · subst hk; simpa [keys] using h
      · simp only [hk, if_false]
        have ih := nodup_keys_insert k v rest h'.2
        have hm := mem_keys_insert k' k v rest
        rw [keys_cons, List.nodup_cons]
        refine ⟨?_, ih⟩
        rw [hm]
        rintro (e | e)
        · exact hk e.symm
        · exact h'.1 e

/-- on a list with distinct keys, membership is lookup -/
theorem mem_iff_lookup : ∀ (l : Entries), (keys l).Nodup → ∀ (k : Str) (v : Val),
    (k, v) ∈ l ↔ lookup k l = some v
  | [], _, _, _ => by simp [lookup]
  | (k', v') :: rest, hd, k, v => by
      simp only [keys_cons, List.nodup_cons] at hd
      have ih := mem_iff_lookup rest hd.2 k v
      simp only [List.mem_cons, Prod.mk.injEq, lookup]
      by_cases e : k = k'
      · subst e
        simp only [true_and, if_true, Option.some.injEq]
        constructor
        · rintro (h | h)
          · exact h.symm
          · exact absurd (mem_keys.2 ⟨_, h, rfl⟩) hd.1
        · intro h; exact .inl h.symm
      · simp only [e, false_and, false_or, if_false, ih]

theorem collect_eq_none {o : Option Val} {vs : List Val} (h : Conv.collect o vs = none) : o = none := by
  unfold Conv.collect at h
  split at h <;> simp_all

theorem lookup_gStep (cs : List (Str × Val)) (b : Entries) (k q : Str) :
    lookup q (gStep cs b k)
      = if q = k then Conv.collect (lookup k b) (valsOf k cs) else lookup q b := by
  unfold gStep
  split
  · rename_i val hval
    rw [lookup_insert]
    by_cases e : q = k <;> simp [e, hval]
  · rename_i hnone
    by_cases e : q = k
    · subst e
      simp only [if_true, hnone]
      exact collect_eq_none hnone
    · simp [e]

theorem nodup_keys_gStep (cs : List (Str × Val)) (b : Entries) (k : Str) (h : (keys b).Nodup) :
    (keys (gStep cs b k)).Nodup := by
  unfold gStep
  split
  · exact nodup_keys_insert _ _ _ h
  · exact h

theorem lookup_foldl_gStep (cs : List (Str × Val)) (q : Str) : ∀ (ks : List Str) (b : Entries),
    ks.Nodup → lookup q (ks.foldl (gStep cs) b)
      = if q ∈ ks then Conv.collect (lookup q b) (valsOf q cs) else lookup q b
  | [], b, _ => by simp
  | k :: ks, b, h => by
      rw [List.nodup_cons] at h
      rw [List.foldl_cons, lookup_foldl_gStep cs q ks _ h.2, lookup_gStep]
      by_cases e : q = k
      · subst e
        simp [h.1]
      · simp [e]

theorem nodup_keys_foldl_gStep (cs : List (Str × Val)) : ∀ (ks : List Str) (b : Entries),
    (keys b).Nodup → (keys (ks.foldl (gStep cs) b)).Nodup
  | [], _, h => h
  | k :: ks, b, h => by
      rw [List.foldl_cons]
      exact nodup_keys_foldl_gStep cs ks _ (nodup_keys_gStep cs b k h)

theorem nodup_eraseDups_aux : ∀ (n : Nat) (l : List Str), l.length ≤ n → l.eraseDups.Nodup
  | _, [], _ => by simp
  | 0, _ :: _, h => by simp at h
  | n + 1, a :: as, h => by
      rw [List.eraseDups_cons, List.nodup_cons]
      refine ⟨?_, nodup_eraseDups_aux n _ ?_⟩
      · rw [List.mem_eraseDups]; simp
      · have := List.length_filter_le (fun b => !b == a) as
        simp only [List.length_cons] at h
        omega

theorem nodup_eraseDups (l : List Str) : l.eraseDups.Nodup := nodup_eraseDups_aux _ l (Nat.le_refl _)

theorem lookup_groupOnto (base : Entries) (cs : List (Str × Val)) (q : Str) :
    lookup q (Conv.groupOnto base cs)
      = if q ∈ keys cs then Conv.collect (lookup q base) (valsOf q cs) else lookup q base := by
  rw [groupOnto_eq, lookup_foldl_gStep cs q _ _ (nodup_eraseDups _)]
  simp only [List.mem_eraseDups, keys]
  by_cases e : q ∈ List.map (fun x => x.fst) cs <;> simp [e]

theorem nodup_keys_groupOnto (base : Entries) (cs : List (Str × Val)) (h : (keys base).Nodup) :
    (keys (Conv.groupOnto base cs)).Nodup := by
  rw [groupOnto_eq]; exact nodup_keys_foldl_gStep cs _ _ h

/-! ### `strings.Trim` is idempotent -/

theorem dropWhile_head (p : Char → Bool) : ∀ (s : Str),
    s.dropWhile p = [] ∨ ∃ x r, s.dropWhile p = x :: r ∧ p x = false
  | [] => .inl rfl
  | c :: s => by
      by_cases h : p c = true
      · rw [List.dropWhile_cons_of_pos h]; exact dropWhile_head p s
      · rw [List.dropWhile_cons_of_neg h]; exact .inr ⟨c, s, rfl, by simpa using h⟩

theorem dropWhile_idem (p : Char → Bool) (s : Str) : (s.dropWhile p).dropWhile p = s.dropWhile p := by
  rcases dropWhile_head p s with h | ⟨x, r, h, hx⟩
  · rw [h]; rfl
  · rw [h, List.dropWhile_cons_of_neg (by simp [hx])]

theorem dropWhile_append_last (p : Char → Bool) (x : Char) (hx : p x = false) : ∀ (l : Str),
    (l ++ [x]).dropWhile p = l.dropWhile p ++ [x]
  | [] => by simp [List.dropWhile, hx]
  | c :: l => by
      by_cases h : p c = true
      · rw [List.cons_append, List.dropWhile_cons_of_pos h, List.dropWhile_cons_of_pos h]
        exact dropWhile_append_last p x hx l
      · rw [List.cons_append, List.dropWhile_cons_of_neg h, List.dropWhile_cons_of_neg h]
        rfl

theorem trimChars_idem (cut : List Char) (s : Str) :
    trimChars cut (trimChars cut (s)) = trimChars cut s := by
  unfold trimChars
  generalize hp : (fun c => cut.contains c) = p
  have hb : ((((s.dropWhile p).reverse.dropWhile p).reverse).dropWhile p)
      = ((s.dropWhile p).reverse.dropWhile p).reverse := by
    rcases dropWhile_head p s with h | ⟨x, r, h, hx⟩
    · rw [h]; rfl
    · rw [h, List.reverse_cons, dropWhile_append_last p x hx, List.reverse_append]
      simp only [List.reverse_cons, List.reverse_nil, List.nil_append, List.singleton_append]
      rw [List.dropWhile_cons_of_neg (by simp [hx])]
  rw [hb, List.reverse_reverse, dropWhile_idem]

theorem trimmed_trimD (s : Str) : trimmed (trimD s) = true := by
  unfold trimmed trimD
  rw [trimChars_idem]; simp


/-! ### what the conventions produce is `Decoded` -/

theorem mem_insert {e : Str × Val} {k : Str} {v : Val} : ∀ {l : Entries},
    e ∈ insert k v l → e = (k, v) ∨ e ∈ l
  | [], h => by simp [insert] at h; exact .inl h
  | (k', v') :: rest, h => by
      simp only [insert] at h
      split at h
      · rcases List.mem_cons.1 h with h | h
        · exact .inl h
        · exact .inr (List.mem_cons_of_mem _ h)
      · rcases List.mem_cons.1 h with h | h
        · exact .inr (by rw [h]; exact List.mem_cons_self ..)
        · rcases mem_insert h with h | h
          · exact .inl h
          · exact .inr (List.mem_cons_of_mem _ h)

theorem mem_foldl_insert : ∀ (attrs : List Attr) (acc : Entries) (e : Str × Val),
    e ∈ attrs.foldl (fun na a => insert ('-' :: a.name) (.str a.value) na) acc →
    e ∈ acc ∨ ∃ a ∈ attrs, e = ('-' :: a.name, Val.str a.value)
  | [], _, _, h => .inl h
  | a :: as, acc, e, h => by
      rw [List.foldl_cons] at h
      rcases mem_foldl_insert as _ e h with h | ⟨b, hb, he⟩
      · rcases mem_insert h with h | h
        · exact .inr ⟨a, List.mem_cons_self .., h⟩
        · exact .inl h
      · exact .inr ⟨b, List.mem_cons_of_mem _ hb, he⟩

theorem nodup_foldl_insert : ∀ (attrs : List Attr) (acc : Entries), (keys acc).Nodup →
    (keys (attrs.foldl (fun na a => insert ('-' :: a.name) (.str a.value) na) acc)).Nodup
  | [], _, h => h
  | a :: as, acc, h => by
      rw [List.foldl_cons]
      exact nodup_foldl_insert as _ (nodup_keys_insert _ _ _ h)

theorem nodup_keys_loadAttrs (S : Strconv) (attrs : List Attr) :
    (keys (loadAttrs dc S attrs)).Nodup := by
  rw [loadAttrs_eq]; exact nodup_foldl_insert attrs [] (by simp [keys])

theorem mem_loadAttrs (S : Strconv) (attrs : List Attr) (e : Str × Val)
    (h : e ∈ loadAttrs dc S attrs) : ∃ a ∈ attrs, e = ('-' :: a.name, Val.str a.value) := by
  rw [loadAttrs_eq] at h
  rcases mem_foldl_insert attrs [] e h with h | h
  · simp at h
  · exact h

theorem textRuns_trimmed : ∀ (ks : List Node) (seen : Bool), ∀ t ∈ Conv.textRuns dc seen ks,
    trimmed t.value = true ∧ t.value.isEmpty = false
  | [], _, _, h => by simp [Conv.textRuns] at h
  | n :: ks, seen, t, h => by
      cases n with
      | text s =>
        simp only [Conv.textRuns, textOf_dc] at h
        by_cases hte : (trimD s).isEmpty = true
        · simp only [hte, if_true] at h
          exact textRuns_trimmed ks seen t h
        · simp only [hte, Bool.false_eq_true, if_false] at h
          rcases List.mem_cons.1 h with rfl | h
          · exact ⟨trimmed_trimD s, by simpa using hte⟩
          · exact textRuns_trimmed ks seen t h
      | elem _ _ _ _ =>
        simp only [Conv.textRuns] at h
        exact textRuns_trimmed ks true t h
      | comment _ | procinst _ _ | directive _ =>
        simp only [Conv.textRuns] at h
        exact textRuns_trimmed ks seen t h

theorem textRuns_late (S : Strconv) : ∀ (ks : List Node) (seen : Bool) (seq : Nat),
    ∀ t ∈ Conv.textRuns dc seen ks, t.early = false →
    seen = true ∨ Conv.childVals dc S seq ks ≠ []
  | [], _, _, _, h, _ => by simp [Conv.textRuns] at h
  | n :: ks, seen, seq, t, h, he => by
      cases n with
      | text s =>
        simp only [Conv.textRuns, textOf_dc] at h
        rw [childVals_text]
        by_cases hte : (trimD s).isEmpty = true
        · simp only [hte, if_true] at h
          exact textRuns_late S ks seen seq t h he
        · simp only [hte, Bool.false_eq_true, if_false] at h
          rcases List.mem_cons.1 h with rfl | h
          · left; simpa using he
          · exact textRuns_late S ks seen seq t h he
      | elem _ _ _ _ =>
        right; rw [childVals_elem]; simp
      | comment _ | procinst _ _ | directive _ =>
        simp only [Conv.textRuns] at h
        simp only [Conv.childVals]
        exact textRuns_late S ks seen seq t h he

theorem collect_isSome (o : Option Val) (vs : List Val) (h : o ≠ none ∨ vs ≠ []) :
    Conv.collect o vs ≠ none := by
  intro hc
  have ho := collect_eq_none hc
  subst ho
  rcases h with h | h
  · exact h rfl
  · rw [collect_none vs h] at hc; simp at hc

theorem lookup_ne_nil {q : Str} {l : Entries} (h : lookup q l ≠ none) : l.isEmpty = false := by
  cases l with
  | nil => simp [lookup] at h
  | cons _ _ => rfl

theorem valsOf_ne_nil {q : Str} {cs : List (Str × Val)} (h : q ∈ keys cs) : valsOf q cs ≠ [] := by
  obtain ⟨c, hc, rfl⟩ := mem_keys.1 h
  unfold valsOf
  intro he
  have : c.2 ∈ List.map (fun x => x.2) (cs.filter (fun x => decide (x.1 = c.1))) :=
    List.mem_map.2 ⟨c, List.mem_filter.2 ⟨hc, by simp⟩, rfl⟩
  rw [he] at this; simp at this

theorem groupOnto_ne_nil (A : Entries) (cs : List (Str × Val))
    (h : A.isEmpty = false ∨ cs ≠ []) : (Conv.groupOnto A cs).isEmpty = false := by
  rcases h with h | h
  · cases A with
    | nil => simp at h
    | cons e rest =>
      apply lookup_ne_nil (q := e.1)
      rw [lookup_groupOnto]
      have hl : lookup e.1 (e :: rest) ≠ none := by
        rw [Ne, lookup_eq_none_iff]; simp [keys]
      split
      · exact collect_isSome _ _ (.inl hl)
      · exact hl
  · cases cs with
    | nil => exact absurd rfl h
    | cons c rest =>
      have hq : c.1 ∈ keys (c :: rest) := by simp [keys]
      apply lookup_ne_nil (q := c.1)
      rw [lookup_groupOnto, if_pos hq]
      exact collect_isSome _ _ (.inr (valsOf_ne_nil hq))

theorem DecodedList_of_all : ∀ (vs : List Val), (∀ x ∈ vs, Decoded x = true) → DecodedList vs = true
  | [], _ => rfl
  | x :: xs, h => by
      have hx := h x (List.mem_cons_self ..)
      unfold Decoded at hx
      simp only [DecodedList, hx, Bool.true_and]
      exact DecodedList_of_all xs (fun y hy => h y (List.mem_cons_of_mem _ hy))

theorem DecodedChild_collectV (vs : List Val) (hne : vs ≠ []) (h : ∀ x ∈ vs, Decoded x = true) :
    DecodedChild (collectV vs) = true := by
  match vs, hne, h with
  | [x], _, h =>
    have := h x (List.mem_cons_self ..)
    unfold Decoded at this
    simp only [Bool.and_eq_true] at this
    exact this.2
  | a :: b :: r, _, h =>
    simp only [collectV, DecodedChild, List.length_cons, Bool.and_eq_true, decide_eq_true_eq]
    exact ⟨by omega, DecodedList_of_all _ h⟩

theorem mem_valsOf {q : Str} {cs : List (Str × Val)} {x : Val} (h : x ∈ valsOf q cs) :
    (q, x) ∈ cs := by
  unfold valsOf at h
  obtain ⟨c, hc, rfl⟩ := List.mem_map.1 h
  have := List.mem_filter.1 hc
  have e : c.1 = q := of_decide_eq_true this.2
  rw [← e]; exact this.1

theorem trimmed_nil : trimmed [] = true := rfl

/-- the element clause of `Conv.value`, given the children's values are `Decoded` under
    element keys and the attribute names are non-empty -/
theorem value_decoded_core (S : Strconv) (sp name : Str) (attrs : List Attr) (kids : List Node)
    (hattr : ∀ a ∈ attrs, a.name.isEmpty = false)
    (hcs : ∀ c ∈ Conv.childVals dc S 0 kids, Decoded c.2 = true ∧ isElemK c.1 = true) :
    Decoded (Conv.value dc S (.elem sp name attrs kids)) = true := by
  -- attribute entries
  have hA : ∀ e ∈ loadAttrs dc S attrs, isAttrK ec e.1 = true ∧ isStr e.2 = true := by
    intro e he
    obtain ⟨a, ha, rfl⟩ := mem_loadAttrs S attrs e he
    have := hattr a ha
    refine ⟨(isAttrK_ec_iff _).2 ?_, rfl⟩
    cases hn : a.name with
    | nil => rw [hn] at this; simp at this
    | cons c r => exact ⟨c, r, rfl⟩
  have hAnd := nodup_keys_loadAttrs S attrs
  have hBnd := nodup_keys_groupOnto (loadAttrs dc S attrs) (Conv.childVals dc S 0 kids) hAnd
  -- entries of the grouped base
  have hB : ∀ e ∈ Conv.groupOnto (loadAttrs dc S attrs) (Conv.childVals dc S 0 kids),
      entryDecoded e = true ∧ e.1 ≠ ec.textK := by
    rintro ⟨k, v⟩ he
    have hl := (mem_iff_lookup _ hBnd k v).1 he
    rw [lookup_groupOnto] at hl
    split at hl
    · rename_i hk
      obtain ⟨c, hc, rfl⟩ := mem_keys.1 hk
      have hek := (hcs c hc).2
      have hnone : lookup c.1 (loadAttrs dc S attrs) = none := by
        cases hla : lookup c.1 (loadAttrs dc S attrs) with
        | none => rfl
        | some w =>
          have := (hA _ ((mem_iff_lookup _ hAnd c.1 w).2 hla)).1
          simp [isElemK, this] at hek
      rw [hnone, collect_none _ (valsOf_ne_nil hk)] at hl
      obtain rfl := Option.some.inj hl
      have hdc : DecodedChild (collectV (valsOf c.1 (Conv.childVals dc S 0 kids))) = true :=
        DecodedChild_collectV _ (valsOf_ne_nil hk) (fun x hx => (hcs _ (mem_valsOf hx)).1)
      simp only [isElemK, Bool.not_eq_true', Bool.or_eq_false_iff, decide_eq_false_iff_not] at hek
      exact ⟨by simp only [entryDecoded, hek.2, hek.1, Bool.false_eq_true, if_false, hdc], hek.1⟩
    · have hm := (mem_iff_lookup _ hAnd k v).2 hl
      have := hA _ hm
      refine ⟨by simp only [entryDecoded, this.1, if_true, this.2], ?_⟩
      intro e
      have h1 := this.1
      have e' : k = ec.textK := e
      rw [e', textK_not_attr] at h1
      simp at h1
  -- a non-empty base is a decoded map
  have hmap : ∀ (l : Entries), l.isEmpty = false → (keys l).Nodup →
      (∀ e ∈ l, entryDecoded e = true) → (∃ e ∈ l, e.1 ≠ ec.textK) →
      Decoded (.map l) = true := by
    intro l _ hnd hall hex
    unfold Decoded
    simp only [Val.isList, Bool.not_false, Bool.true_and, DecodedChild, Bool.and_eq_true]
    refine ⟨⟨(distinctKeys_iff l).2 hnd, ?_⟩, (DecodedEntries_iff l).2 hall⟩
    rw [List.any_eq_true]
    obtain ⟨e, he, hk⟩ := hex
    exact ⟨e, he, by simpa using hk⟩
  have hfirst : ∀ (l : Entries), l.isEmpty = false → (∀ e ∈ l, e.1 ≠ ec.textK) →
      ∃ e ∈ l, e.1 ≠ ec.textK := by
    intro l hne h
    cases l with
    | nil => simp at hne
    | cons e r => exact ⟨e, List.mem_cons_self .., h e (List.mem_cons_self ..)⟩
  -- base with a text entry
  have htext : ∀ (tv : Str), trimmed tv = true → tv.isEmpty = false →
      (Conv.groupOnto (loadAttrs dc S attrs) (Conv.childVals dc S 0 kids)).isEmpty = false →
      Decoded (.map (insert dc.textK (.str tv)
        (Conv.groupOnto (loadAttrs dc S attrs) (Conv.childVals dc S 0 kids)))) = true := by
    intro tv ht hne hbne
    have hnot : dc.textK ∉ keys (Conv.groupOnto (loadAttrs dc S attrs) (Conv.childVals dc S 0 kids)) := by
      intro hm
      obtain ⟨e, he, hk⟩ := mem_keys.1 hm
      exact (hB e he).2 hk
    apply hmap
    · rw [insert_of_not_mem _ _ _ hnot]; cases Conv.groupOnto (loadAttrs dc S attrs) (Conv.childVals dc S 0 kids) <;> rfl
    · exact nodup_keys_insert _ _ _ hBnd
    · intro e he
      rcases mem_insert he with rfl | he
      · simp only [entryDecoded, textK_dc, textK_not_attr, Bool.false_eq_true, if_false, if_true,
          textEntryOk, ht, hne, Bool.not_false, Bool.and_self]
      · exact (hB e he).1
    · obtain ⟨e, he, hk⟩ := hfirst _ hbne (fun e he => (hB e he).2)
      refine ⟨e, ?_, hk⟩
      rw [insert_of_not_mem _ _ _ hnot]
      exact List.mem_append_left _ he
  cases hruns : Conv.textRuns dc (!(loadAttrs dc S attrs).isEmpty || dc.asMap) kids with
  | nil =>
    rw [value_elem_nil dc S _ _ _ _ hruns]
    split
    · rfl
    · rename_i hbne
      have hbne' : (Conv.groupOnto (loadAttrs dc S attrs) (Conv.childVals dc S 0 kids)).isEmpty = false := by
        simpa using hbne
      exact hmap _ hbne' hBnd (fun e he => (hB e he).1) (hfirst _ hbne' (fun e he => (hB e he).2))
  | cons t r =>
    have htr := textRuns_trimmed kids _ t (by rw [hruns]; exact List.mem_cons_self ..)
    rw [value_elem_cons dc S _ _ _ _ t r hruns]
    simp only [cast_dc]
    split
    · split
      · unfold Decoded; simp only [Val.isList, Bool.not_false, Bool.true_and, DecodedChild, htr.1]
      · rename_i hbne
        exact htext t.value htr.1 htr.2 (by simpa using hbne)
    · rename_i hearly
      have hlate := textRuns_late S kids _ 0 t (by rw [hruns]; exact List.mem_cons_self ..)
        (by simpa using hearly)
      apply htext t.value htr.1 htr.2
      apply groupOnto_ne_nil
      rcases hlate with h | h
      · left
        simpa [dc] using h
      · exact .inr h

mutual
theorem value_decoded (S : Strconv) : ∀ (t : Node), Conv.inDomain dc S t = true →
    NamesOk t = true → isElem t = true → Decoded (Conv.value dc S t) = true
  | .elem sp name attrs kids, hin, hn, _ => by
      simp only [Conv.inDomain, Bool.and_eq_true] at hin
      simp only [NamesOk, Bool.and_eq_true, List.all_eq_true, Bool.not_eq_true'] at hn
      exact value_decoded_core S sp name attrs kids hn.1
        (childVals_decoded S kids 0 hin.2 hn.2)
  | .text _, _, _, h => by simp [isElem] at h
  | .comment _, _, _, h => by simp [isElem] at h
  | .procinst _ _, _, _, h => by simp [isElem] at h
  | .directive _, _, _, h => by simp [isElem] at h
theorem childVals_decoded (S : Strconv) : ∀ (ks : List Node) (seq : Nat),
    Conv.inDomainKids dc S ks = true → NamesOkKids ks = true →
    ∀ c ∈ Conv.childVals dc S seq ks, Decoded c.2 = true ∧ isElemK c.1 = true
  | [], _, _, _, c, h => by simp [Conv.childVals] at h
  | .elem sp name attrs kids :: rest, seq, hin, hn, c, h => by
      simp only [Conv.inDomainKids, Bool.and_eq_true, elemKey_dc] at hin
      simp only [NamesOkKids, Bool.and_eq_true, Bool.not_eq_true'] at hn
      rw [childVals_elem] at h
      rcases List.mem_cons.1 h with rfl | h
      · refine ⟨value_decoded S (.elem sp name attrs kids) hin.1.2 hn.1.2 rfl, ?_⟩
        have h1 : ¬ name = ec.textK := of_decide_eq_true hin.1.1.1
        simp only [isElemK, h1, decide_false, hn.1.1, Bool.or_false, Bool.not_false]
      · exact childVals_decoded S rest seq hin.2 hn.2 c h
  | .text _ :: rest, seq, hin, hn, c, h => by
      simp only [Conv.inDomainKids] at hin
      simp only [NamesOkKids] at hn
      simp only [Conv.childVals] at h
      exact childVals_decoded S rest seq hin hn c h
  | .comment _ :: rest, seq, hin, hn, c, h => by
      simp only [Conv.inDomainKids] at hin
      simp only [NamesOkKids] at hn
      simp only [Conv.childVals] at h
      exact childVals_decoded S rest seq hin hn c h
  | .procinst _ _ :: rest, seq, hin, hn, c, h => by
      simp only [Conv.inDomainKids] at hin
      simp only [NamesOkKids] at hn
      simp only [Conv.childVals] at h
      exact childVals_decoded S rest seq hin hn c h
  | .directive _ :: rest, seq, hin, hn, c, h => by
      simp only [Conv.inDomainKids] at hin
      simp only [NamesOkKids] at hn
      simp only [Conv.childVals] at h
      exact childVals_decoded S rest seq hin hn c h
end


/-! ### XML → Map → XML → Map, tree level -/

theorem encTree_single (cfg : EncCfg) (key : Str) (v : Val) (ns : List Node)
    (hl : v.isList = false) (h : encTree cfg key v = .ok ns) :
    ∃ attrs kids, ns = [.elem [] key attrs kids] := by
  cases v with
  | list _ => simp [Val.isList] at hl
  | null => simp only [encTree, Except.ok.injEq] at h; subst h; exact ⟨_, _, rfl⟩
  | str s => simp only [encTree, Except.ok.injEq] at h; subst h; exact ⟨_, _, rfl⟩
  | num t => simp only [encTree, fmtV, Except.ok.injEq] at h; subst h; exact ⟨_, _, rfl⟩
  | bool b =>
    cases b <;> simp only [encTree, fmtV, Except.ok.injEq] at h <;> subst h <;> exact ⟨_, _, rfl⟩
  | map vv =>
    simp only [encTree] at h
    repeat' split at h
    all_goals first
      | (simp only [Except.ok.injEq] at h; subst h; exact ⟨_, _, rfl⟩)
      | simp at h

theorem imageSibs_not_list (v : Val) (hl : v.isList = false) : imageSibs v = [image v] := by
  cases v with
  | list _ => simp [Val.isList] at hl
  | null | bool _ | num _ | str _ | map _ => simp only [image, imageSibs, collectV]

theorem norm_singleton_map (k : Str) (v : Val) : (Val.map [(k, v)]).norm = .map [(k, v.norm)] := rfl

/-- for an in-domain tree `t`, encoding the value the conventions give and applying the
    conventions to the encoder's tree gives an equivalent value -/
theorem fixed_point_value (S : Strconv) (sp name : Str) (attrs : List Attr) (kids : List Node)
    (hd : Conv.inDomain dc S (.elem sp name attrs kids) = true)
    (hn : NamesOk (.elem sp name attrs kids) = true) :
    ∃ n, encTree ec name (Conv.value dc S (.elem sp name attrs kids)).norm = .ok [n]
      ∧ Conv.doc dc S n = .map [(name, Conv.value dc S n)]
      ∧ Conv.value dc S n ≈ᵥ Conv.value dc S (.elem sp name attrs kids) := by
  have hD := value_decoded S (.elem sp name attrs kids) hd hn rfl
  generalize Conv.value dc S (.elem sp name attrs kids) = w at hD
  have hDn := Decoded_norm w hD
  have hwf : w.wf = true := EncDomain_wf w (Decoded_EncDomain w hD)
  have hwfn : w.norm.wf = true := EncDomain_wf _ (Decoded_EncDomain _ hDn)
  have hnl : w.norm.isList = false := by
    unfold Decoded at hDn
    simp only [Bool.and_eq_true, Bool.not_eq_true'] at hDn
    exact hDn.1
  obtain ⟨ns, hns⟩ := encTree_ok name w.norm (Decoded_EncDomain _ hDn)
  obtain ⟨a', k', rfl⟩ := encTree_single ec name w.norm ns hnl hns
  refine ⟨_, hns, rfl, ?_⟩
  have hcv := childVals_encTree S name w.norm _ hwfn hns
  rw [childVals_single, imageSibs_not_list _ hnl] at hcv
  simp only [List.map_cons, List.map_nil, List.cons.injEq, Prod.mk.injEq, true_and, and_true] at hcv
  rw [hcv]
  exact Val.equiv_trans (image_decoded _ hDn) (norm_idem w hwf)


/-! ### towards bytes: decoded values are `Plain`, the encoder's trees are in the C01 domain -/

mutual
theorem DecodedChild_Plain : ∀ (v : Val), DecodedChild v = true → Plain ec v = true
  | .null, _ => rfl
  | .bool _, _ => rfl
  | .num _, h => by simp [DecodedChild] at h
  | .str _, _ => rfl
  | .list xs, h => by
      simp only [DecodedChild, Bool.and_eq_true] at h
      simp only [Plain, DecodedList_Plain xs h.2]
  | .map kvs, h => by
      simp only [DecodedChild, Bool.and_eq_true] at h
      simp only [Plain, DecodedEntries_Plain kvs h.2]
theorem DecodedList_Plain : ∀ (xs : List Val), DecodedList xs = true → PlainList ec xs = true
  | [], _ => rfl
  | x :: xs, h => by
      simp only [DecodedList, Bool.and_eq_true] at h
      simp only [PlainList, DecodedChild_Plain x h.1.2, DecodedList_Plain xs h.2, Bool.and_self]
theorem DecodedEntries_Plain : ∀ (kvs : Entries), DecodedEntries kvs = true →
    PlainEntries ec kvs = true
  | [], _ => rfl
  | (k, v) :: rest, h => by
      simp only [DecodedEntries, Bool.and_eq_true] at h
      have h1 := h.1
      have hv : nullTextOk ec k v = true ∧ Plain ec v = true := by
        by_cases ha : isAttrK ec k = true
        · simp only [ha, if_true] at h1
          cases v <;> simp only [isStr, Bool.false_eq_true] at h1
          exact ⟨rfl, rfl⟩
        · have ha' : isAttrK ec k = false := by simpa using ha
          simp only [ha', Bool.false_eq_true, if_false] at h1
          by_cases hk : k = ec.textK
          · simp only [hk, if_true] at h1
            cases v <;> simp only [textEntryOk, Bool.false_eq_true] at h1
            exact ⟨rfl, rfl⟩
          · simp only [hk, if_false] at h1
            refine ⟨?_, DecodedChild_Plain v h1⟩
            cases v <;> simp [nullTextOk, hk]
      simp only [PlainEntries, hv.1, hv.2, DecodedEntries_Plain rest h.2, Bool.and_self]
end

theorem Decoded_Plain (v : Val) (h : Decoded v = true) : Plain ec v = true := by
  unfold Decoded at h
  simp only [Bool.and_eq_true] at h
  exact DecodedChild_Plain v h.2

theorem inDomainKids_append (S : Strconv) : ∀ (a b : List Node),
    Conv.inDomainKids dc S a = true → Conv.inDomainKids dc S b = true →
    Conv.inDomainKids dc S (a ++ b) = true
  | [], _, _, hb => hb
  | n :: a, b, ha, hb => by
      cases n <;> simp only [List.cons_append, Conv.inDomainKids, Bool.and_eq_true] at ha ⊢
      · exact ⟨ha.1, inDomainKids_append S a b ha.2 hb⟩
      all_goals exact inDomainKids_append S a b ha hb

/-- siblings named `key` -/
def SibsDom (S : Strconv) (key : Str) (ns : List Node) : Prop :=
  ∀ n ∈ ns, ∃ attrs kids, n = .elem [] key attrs kids ∧ Conv.inDomain dc S n = true

theorem inDomainKids_of_sibs (S : Strconv) (key : Str) (hk : key ≠ ec.textK) :
    ∀ (ns : List Node), SibsDom S key ns → Conv.inDomainKids dc S ns = true
  | [], _ => rfl
  | n :: ns, h => by
      obtain ⟨attrs, kids, rfl, hin⟩ := h n (List.mem_cons_self ..)
      simp only [Conv.inDomainKids, Bool.and_eq_true, elemKey_dc]
      refine ⟨⟨⟨decide_eq_true (show key ≠ dc.textK from hk), rfl⟩, hin⟩, ?_⟩
      exact inDomainKids_of_sibs S key hk ns (fun m hm => h m (List.mem_cons_of_mem _ hm))

theorem SibsDom_single (S : Strconv) (key : Str) (n : Node) (attrs : List Attr) (kids : List Node)
    (e : n = .elem [] key attrs kids) (h : Conv.inDomain dc S n = true) : SibsDom S key [n] := by
  intro m hm
  rw [List.mem_singleton] at hm
  subst hm
  exact ⟨attrs, kids, e, h⟩

theorem inDomain_empty (S : Strconv) (key : Str) : Conv.inDomain dc S (.elem [] key [] []) = true := rfl

theorem inDomain_leaf (S : Strconv) (key t : Str) :
    Conv.inDomain dc S (.elem [] key [] [.text t]) = true := by
  simp only [Conv.inDomain, Conv.inDomainKids, Conv.textRuns, textOf_dc, List.all_nil,
    Bool.and_true]
  by_cases h : (trimD t).isEmpty = true <;> simp [h]

theorem attrs_inDomain (S : Strconv) (attrs : List Attr) :
    attrs.all (fun a => decide (attrKey dc S a.name ≠ dc.textK)
      && (!dc.seqNum || decide (attrKey dc S a.name ≠ "_seq".toList))) = true := by
  rw [List.all_eq_true]
  intro a _
  simp only [attrKey_dc, Bool.and_eq_true]
  refine ⟨decide_eq_true ?_, rfl⟩
  intro e
  have : dc.textK = "#text".toList := rfl
  rw [this] at e
  simp at e

theorem inDomainKids_textNodes (S : Strconv) (vv : Entries) (kids : List Node) :
    Conv.inDomainKids dc S (textNodes vv ++ kids) = Conv.inDomainKids dc S kids := by
  unfold textNodes
  split
  · simp only [List.singleton_append, Conv.inDomainKids]
  · rfl

theorem textRuns_textNodes (vv : Entries) (kids : List Node) (hk : ∀ n ∈ kids, isElem n = true) :
    (Conv.textRuns dc false (textNodes vv ++ kids)).length ≤ 1 := by
  unfold textNodes
  split
  · simp only [List.singleton_append, Conv.textRuns, textRuns_elems dc kids _ hk]
    split <;> simp
  · simp [textRuns_elems dc kids _ hk]

mutual
theorem encTree_dom (S : Strconv) : ∀ (key : Str) (v : Val) (ns : List Node),
    encTree ec key v = .ok ns → SibsDom S key ns
  | key, .null, ns, h => by
      simp only [encTree, Except.ok.injEq] at h; subst h
      exact SibsDom_single S key _ _ _ rfl (inDomain_empty S key)
  | key, .str [], ns, h => by
      simp only [encTree, Except.ok.injEq] at h; subst h
      exact SibsDom_single S key _ _ _ rfl (inDomain_empty S key)
  | key, .str (c :: s), ns, h => by
      simp only [encTree, Except.ok.injEq] at h; subst h
      exact SibsDom_single S key _ _ _ rfl (inDomain_leaf S key _)
  | key, .bool b, ns, h => by
      cases b <;> simp only [encTree, fmtV, Except.ok.injEq] at h <;> subst h <;>
        exact SibsDom_single S key _ _ _ rfl (inDomain_leaf S key _)
  | key, .num t, ns, h => by
      simp only [encTree, fmtV, Except.ok.injEq] at h; subst h
      exact SibsDom_single S key _ _ _ rfl (inDomain_leaf S key _)
  | key, .list xs, ns, h => by
      simp only [encTree] at h
      split at h
      · simp only [Except.ok.injEq] at h; subst h
        exact SibsDom_single S key _ _ _ rfl (inDomain_empty S key)
      · exact encMembers_dom S key xs ns h
  | key, .map vv, ns, h => by
      obtain ⟨attrs, kids, hA, hE, rfl⟩ := encTree_map_ec key vv ns h
      apply SibsDom_single S key _ attrs (textNodes vv ++ kids) rfl
      simp only [Conv.inDomain, Bool.and_eq_true, decide_eq_true_eq]
      refine ⟨⟨textRuns_textNodes vv kids (encElems_isElem ec vv kids hE), attrs_inDomain S attrs⟩, ?_⟩
      rw [inDomainKids_textNodes]
      exact encElems_dom S vv kids hE
theorem encMembers_dom (S : Strconv) (key : Str) : ∀ (xs : List Val) (ns : List Node),
    encMembers ec key xs = .ok ns → SibsDom S key ns
  | [], ns, h => by
      simp only [encMembers, Except.ok.injEq] at h; subst h
      intro n hn; simp at hn
  | x :: xs, ns, h => by
      simp only [encMembers] at h
      split at h
      · simp at h
      · rename_i a ha
        split at h
        · simp at h
        · rename_i r hr
          simp only [Except.ok.injEq] at h
          subst h
          intro n hn
          rcases List.mem_append.1 hn with hn | hn
          · exact encTree_dom S key x a ha n hn
          · exact encMembers_dom S key xs r hr n hn
theorem encElems_dom (S : Strconv) : ∀ (kvs : Entries) (ns : List Node),
    encElems ec kvs = .ok ns → Conv.inDomainKids dc S ns = true
  | [], ns, h => by
      simp only [encElems, Except.ok.injEq] at h; subst h; rfl
  | (k, v) :: rest, ns, h => by
      simp only [encElems] at h
      split at h
      · exact encElems_dom S rest ns h
      · rename_i hk
        split at h
        · simp at h
        · rename_i a ha
          split at h
          · simp at h
          · rename_i r hr
            simp only [Except.ok.injEq] at h
            subst h
            have hk' : k ≠ ec.textK := by
              intro e; simp [e] at hk
            exact inDomainKids_append S a r
              (inDomainKids_of_sibs S k hk' a (encTree_dom S k v a ha))
              (encElems_dom S rest r hr)
end


/-! ### `EncDomain` and `image` under normalisation -/

def entryDom (e : Str × Val) : Bool :=
  if isAttrK ec e.1 || e.1 = ec.textK then isScalar e.2 else EncDomain e.2

theorem EncDomainEntries_iff : ∀ (l : Entries),
    EncDomainEntries l = true ↔ ∀ e ∈ l, entryDom e = true
  | [] => by simp [EncDomainEntries]
  | (k, v) :: rest => by
      simp only [EncDomainEntries, Bool.and_eq_true, EncDomainEntries_iff rest, List.mem_cons,
        forall_eq_or_imp, entryDom]

theorem isScalar_norm (v : Val) : isScalar v.norm = isScalar v := by cases v <;> rfl
theorem attrValue_norm (v : Val) : attrValue v.norm = attrValue v := by cases v <;> rfl
theorem leafText_norm (v : Val) : leafText v.norm = leafText v := by cases v <;> rfl

mutual
theorem EncDomain_norm : ∀ (v : Val), EncDomain v = true → EncDomain v.norm = true
  | .null, _ => rfl
  | .bool _, _ => rfl
  | .num _, _ => rfl
  | .str _, _ => rfl
  | .list xs, h => by
      simp only [EncDomain] at h
      simp only [Val.norm, EncDomain, EncDomainList_norm xs h]
  | .map kvs, h => by
      simp only [EncDomain, Bool.and_eq_true] at h
      have hp := sortByKey_perm (Val.normEntries kvs)
      simp only [Val.norm, EncDomain, Bool.and_eq_true]
      constructor
      · apply distinctKeys_perm hp.symm
        rw [distinctKeys_iff, keys_normEntries]; exact (distinctKeys_iff kvs).1 h.1
      · rw [EncDomainEntries_iff]
        intro e he
        exact (EncDomainEntries_iff _).1 (EncDomainEntries_norm kvs h.2) e (hp.mem_iff.1 he)
theorem EncDomainList_norm : ∀ (xs : List Val), EncDomainList xs = true →
    EncDomainList (Val.normList xs) = true
  | [], _ => rfl
  | x :: xs, h => by
      simp only [EncDomainList, Bool.and_eq_true] at h
      simp only [Val.normList, EncDomainList, EncDomain_norm x h.1, EncDomainList_norm xs h.2,
        Bool.and_self]
theorem EncDomainEntries_norm : ∀ (kvs : Entries), EncDomainEntries kvs = true →
    EncDomainEntries (Val.normEntries kvs) = true
  | [], _ => rfl
  | (k, v) :: rest, h => by
      simp only [EncDomainEntries, Bool.and_eq_true] at h
      simp only [Val.normEntries, EncDomainEntries, Bool.and_eq_true, isScalar_norm]
      refine ⟨?_, EncDomainEntries_norm rest h.2⟩
      have h1 := h.1
      split
      · rename_i hc; simpa only [hc, if_true] using h1
      · rename_i hc
        simp only [hc] at h1
        exact EncDomain_norm v h1
end

/-! the image of a normalised value is the image of the value, up to entry order -/

def fAttr (e : Str × Val) : Option (Str × Val) :=
  if isAttrK ec e.1 then some (e.1, .str ((attrValue e.2).getD [])) else none

def fElem (e : Str × Val) : Option (Str × Val) :=
  if e.1 = ec.textK || isAttrK ec e.1 then none else some (e.1, collectV (imageSibs e.2))

theorem imageAttrs_filterMap : ∀ (l : Entries), imageAttrs l = l.filterMap fAttr
  | [] => rfl
  | (k, v) :: rest => by
      simp only [imageAttrs, List.filterMap_cons, fAttr, imageAttrs_filterMap rest]
      split <;> rfl

theorem imageElems_filterMap : ∀ (l : Entries), imageElems l = l.filterMap fElem
  | [] => rfl
  | (k, v) :: rest => by
      simp only [imageElems, List.filterMap_cons, fElem, imageElems_filterMap rest]
      split <;> rfl

theorem imageAttrs_normEntries : ∀ (l : Entries), imageAttrs (Val.normEntries l) = imageAttrs l
  | [] => rfl
  | (k, v) :: rest => by
      simp only [Val.normEntries, imageAttrs, attrValue_norm, imageAttrs_normEntries rest]

theorem lookup_normEntries (k : Str) : ∀ (l : Entries),
    lookup k (Val.normEntries l) = (lookup k l).map Val.norm
  | [] => rfl
  | (k', v) :: rest => by
      simp only [Val.normEntries, lookup]
      split
      · rfl
      · exact lookup_normEntries k rest

theorem lookup_perm {l l' : Entries} (hp : l.Perm l') (hd : (keys l).Nodup) (k : Str) :
    lookup k l = lookup k l' := by
  have hd' := (keys_nodup_perm hp).1 hd
  cases h : lookup k l with
  | some v =>
    have := (mem_iff_lookup l' hd' k v).1 (hp.mem_iff.1 ((mem_iff_lookup l hd k v).2 h))
    exact this.symm
  | none =>
    cases h' : lookup k l' with
    | none => rfl
    | some v =>
      have := (mem_iff_lookup l hd k v).1 (hp.mem_iff.2 ((mem_iff_lookup l' hd' k v).2 h'))
      rw [h] at this; simp at this

theorem imageText_of_lookup {l l' : Entries}
    (h : lookup ec.textK l = (lookup ec.textK l').map Val.norm) : imageText l = imageText l' := by
  unfold imageText
  rw [h]
  cases lookup ec.textK l' with
  | none => rfl
  | some v => simp only [Option.map_some, leafText_norm]

theorem nodup_keys_imageElems (kvs : Entries) (hd : (keys kvs).Nodup) :
    (keys (imageElems kvs)).Nodup := by
  induction kvs with
  | nil => simp [imageElems, keys]
  | cons e rest ih =>
    obtain ⟨k, v⟩ := e
    simp only [keys_cons, List.nodup_cons] at hd
    simp only [imageElems]
    split
    · exact ih hd.2
    · simp only [keys_cons, List.nodup_cons]
      exact ⟨fun h => hd.1 (keys_imageElems_sub rest k h).1, ih hd.2⟩

theorem nodup_keys_base (kvs : Entries) (T : Entries) (hd : (keys kvs).Nodup)
    (hT : T = [] ∨ ∃ x, T = [(ec.textK, x)]) :
    (keys (imageAttrs kvs ++ imageElems kvs ++ T)).Nodup := by
  have hb : (keys (imageAttrs kvs ++ imageElems kvs)).Nodup := by
    rw [keys_append, List.nodup_append]
    refine ⟨nodup_keys_imageAttrs kvs hd, nodup_keys_imageElems kvs hd, ?_⟩
    intro a ha b hb e
    subst e
    have h1 := (keys_imageAttrs_sub kvs a ha).2
    have h2 := (keys_imageElems_sub kvs a hb).2
    simp [isElemK, h1] at h2
  rcases hT with rfl | ⟨x, rfl⟩
  · rw [List.append_nil]; exact hb
  · rw [keys_append, List.nodup_append]
    refine ⟨hb, by simp [keys], ?_⟩
    intro a ha b hb' e
    subst e
    simp only [keys, List.map_cons, List.map_nil, List.mem_singleton] at hb'
    subst hb'
    exact textK_not_mem_base kvs ha

theorem normEntries_append (a b : Entries) :
    Val.normEntries (a ++ b) = Val.normEntries a ++ Val.normEntries b := by
  simp only [normEntries_eq_map, List.map_append]

theorem perm_normEntries {a b : Entries} (hp : a.Perm b) :
    (Val.normEntries a).Perm (Val.normEntries b) := by
  rw [normEntries_eq_map, normEntries_eq_map]; exact hp.map _

theorem finishImage_norm_congr (b b' : Entries) (t : Option Str)
    (hp : (Val.normEntries b).Perm (Val.normEntries b'))
    (hnd : ∀ T, (T = [] ∨ ∃ x, T = [(ec.textK, x)]) → (keys (b ++ T)).Nodup) :
    (finishImage b t).norm = (finishImage b' t).norm := by
  have hemp : b.isEmpty = b'.isEmpty := by
    have := hp.length_eq
    rw [normEntries_eq_map, normEntries_eq_map, List.length_map, List.length_map] at this
    cases b <;> cases b' <;> simp_all
  have key : ∀ T, (T = [] ∨ ∃ x, T = [(ec.textK, x)]) →
      (Val.map (b ++ T)).norm = (Val.map (b' ++ T)).norm := by
    intro T hT
    simp only [Val.norm]
    congr 1
    apply sortByKey_congr
    · rw [keys_normEntries]; exact hnd T hT
    · rw [normEntries_append, normEntries_append]
      exact hp.append_right _
  cases t with
  | none =>
    simp only [finishImage, ← hemp]
    split
    · rfl
    · have := key [] (.inl rfl)
      simpa using this
  | some s =>
    simp only [finishImage, ← hemp]
    split
    · rfl
    · exact key _ (.inr ⟨_, rfl⟩)

mutual
theorem imageSibs_norm : ∀ (v : Val), v.wf = true →
    (imageSibs v.norm).map Val.norm = (imageSibs v).map Val.norm
  | .null, _ => rfl
  | .bool _, _ => rfl
  | .num _, _ => rfl
  | .str _, _ => rfl
  | .list xs, h => by
      simp only [Val.wf] at h
      simp only [Val.norm, imageSibs]
      have he : (Val.normList xs).isEmpty = xs.isEmpty := by cases xs <;> rfl
      rw [he]
      split
      · rfl
      · exact imageMembers_norm xs h
  | .map kvs, h => by
      simp only [Val.wf, Bool.and_eq_true] at h
      have hnd := (distinctKeys_iff kvs).1 h.2
      have hndm : (keys (Val.normEntries kvs)).Nodup := by rw [keys_normEntries]; exact hnd
      have hp := sortByKey_perm (Val.normEntries kvs)
      have hnds := (keys_nodup_perm hp.symm).1 hndm
      simp only [Val.norm, imageSibs, List.map_cons, List.map_nil, List.cons.injEq, and_true]
      have hT : imageText (sortByKey (Val.normEntries kvs)) = imageText kvs := by
        apply imageText_of_lookup
        rw [lookup_perm hp hnds, lookup_normEntries]
      rw [hT]
      apply finishImage_norm_congr
      · -- entries
        rw [normEntries_append, normEntries_append]
        apply List.Perm.append
        · rw [imageAttrs_filterMap (sortByKey _), ← imageAttrs_normEntries kvs,
            imageAttrs_filterMap (Val.normEntries kvs)]
          exact perm_normEntries (hp.filterMap _)
        · rw [← imageElems_norm kvs h.1, imageElems_filterMap (sortByKey _),
            imageElems_filterMap (Val.normEntries kvs)]
          exact perm_normEntries (hp.filterMap _)
      · intro T hT'
        exact nodup_keys_base _ T hnds hT'
theorem imageMembers_norm : ∀ (xs : List Val), Val.wfList xs = true →
    (imageMembers (Val.normList xs)).map Val.norm = (imageMembers xs).map Val.norm
  | [], _ => rfl
  | x :: xs, h => by
      simp only [Val.wfList, Bool.and_eq_true] at h
      simp only [Val.normList, imageMembers, List.map_append, imageSibs_norm x h.1,
        imageMembers_norm xs h.2]
theorem imageElems_norm : ∀ (kvs : Entries), Val.wfEntries kvs = true →
    Val.normEntries (imageElems (Val.normEntries kvs)) = Val.normEntries (imageElems kvs)
  | [], _ => rfl
  | (k, v) :: rest, h => by
      simp only [Val.wfEntries, Bool.and_eq_true] at h
      simp only [Val.normEntries, imageElems]
      split
      · exact imageElems_norm rest h.2
      · simp only [Val.normEntries, imageElems_norm rest h.2, List.cons.injEq, Prod.mk.injEq,
          true_and, and_true]
        have hs := imageSibs_norm v h.1
        have hlen : (imageSibs v.norm).length = (imageSibs v).length := by
          have := congrArg List.length hs
          simpa using this
        match h1 : imageSibs v.norm, h2 : imageSibs v, hlen with
        | [], [], _ => rfl
        | [a], [b], _ =>
          rw [h1, h2] at hs
          simpa [collectV] using hs
        | a :: a' :: r, b :: b' :: r', _ =>
          rw [h1, h2] at hs
          simp only [collectV, Val.norm, normList_eq_map, hs]
        | [], _ :: _, hl => simp at hl
        | _ :: _, [], hl => simp at hl
        | [_], _ :: _ :: _, hl => simp at hl
        | _ :: _ :: _, [_], hl => simp at hl
end

/-- the image of the normalised value is the image of the value, up to entry order -/
theorem image_norm (v : Val) (hwf : v.wf = true) : image v.norm ≈ᵥ image v := by
  have hs := imageSibs_norm v hwf
  have hlen : (imageSibs v.norm).length = (imageSibs v).length := by
    have := congrArg List.length hs
    simpa using this
  unfold image Val.equiv
  match h1 : imageSibs v.norm, h2 : imageSibs v, hlen with
  | [], [], _ => rfl
  | [a], [b], _ =>
    rw [h1, h2] at hs
    simpa [collectV] using hs
  | a :: a' :: r, b :: b' :: r', _ =>
    rw [h1, h2] at hs
    simp only [collectV, Val.norm, normList_eq_map, hs]
  | [], _ :: _, hl => simp at hl
  | _ :: _, [], hl => simp at hl
  | [_], _ :: _ :: _, hl => simp at hl
  | _ :: _ :: _, [_], hl => simp at hl


/-! ### `AnyXml`: bytes = rendering of the tree; the tree decodes to `anyImage` -/

theorem marshal_eq_render (cfg : EncCfg) (key : Str) (v : Val) (hp : Plain cfg v = true) :
    marshal cfg key v = (encTree cfg key v.norm).map (fun ns => ns.flatMap (render cfg)) := by
  unfold marshal
  exact marshalN_eq_render cfg key v.norm (Plain_norm cfg v hp)

/-- the bytes of one member of a top-level list -/
def anyOne (cfg : EncCfg) (et : Str) (x : Val) : Except ErrKind Str :=
  match x with
  | .map [(tag, val)] =>
      if tag = cfg.textK || isAttrK cfg tag then marshal cfg et x else marshal cfg tag val
  | x => marshal cfg et x

theorem anyGo_cons (cfg : EncCfg) (et : Str) (x : Val) (rest : List Val) :
    anyXml.go cfg et (x :: rest) =
      match anyOne cfg et x with
      | .error e => .error e
      | .ok a => match anyXml.go cfg et rest with
        | .error e => .error e
        | .ok r => .ok (a ++ r) := by
  match x with
  | .null => rfl
  | .bool _ => rfl
  | .num _ => rfl
  | .str _ => rfl
  | .list _ => rfl
  | .map [] => rfl
  | .map [(_, _)] => rfl
  | .map (_ :: _ :: _) => rfl

theorem anyOne_eq_render (cfg : EncCfg) (et : Str) (x : Val) (hp : Plain cfg x = true) :
    anyOne cfg et x = (anyMember cfg et x).map (fun ns => ns.flatMap (render cfg)) := by
  unfold anyOne anyMember
  split
  · rename_i tag val
    have hv : Plain cfg val = true := by
      simp only [Plain, PlainEntries, Bool.and_eq_true] at hp
      exact hp.1.2
    split
    · rename_i hc
      simp only [hc, if_true]
      exact marshal_eq_render cfg et _ hp
    · rename_i hc
      simp only [hc, Bool.false_eq_true, if_false]
      exact marshal_eq_render cfg tag val hv
  · rename_i hx
    split
    · rename_i tag val
      exact absurd rfl (hx tag val)
    · exact marshal_eq_render cfg et x hp

theorem anyGo_eq_render (cfg : EncCfg) (et : Str) : ∀ (xs : List Val), PlainList cfg xs = true →
    anyXml.go cfg et xs = (anyMembers cfg et xs).map (fun ns => ns.flatMap (render cfg))
  | [], _ => rfl
  | x :: rest, hp => by
      simp only [PlainList, Bool.and_eq_true] at hp
      rw [anyGo_cons, anyOne_eq_render cfg et x hp.1, anyGo_eq_render cfg et rest hp.2]
      simp only [anyMembers]
      cases anyMember cfg et x <;> cases anyMembers cfg et rest <;> simp [Except.map]

theorem anyXml_eq_render (cfg : EncCfg) (v : Val) (rt et : Str) (hp : Plain cfg v = true) :
    anyXml cfg v rt et = (anyTree cfg v rt et).map (fun ns => ns.flatMap (render cfg)) := by
  cases v with
  | null =>
    simp only [anyXml, anyTree, Except.map, flatMap_render_single, render, renderAttrs, endOf,
      List.isEmpty_nil, if_true]
    cases cfg.goEmpty <;> simp
  | list xs =>
    simp only [Plain] at hp
    simp only [anyXml, anyTree, anyGo_eq_render cfg et xs hp]
    cases hE : anyMembers cfg et xs with
    | error e => rfl
    | ok kids =>
      simp only [Except.map, flatMap_render_single, render, renderAttrs, renderKids_eq]
      by_cases hk : kids.isEmpty = true
      · have : kids = [] := isEmpty_eq_nil hk
        subst this
        have h0 : escIf cfg [] = [] := by unfold escIf escapeChars; simp
        simp [render, h0]
      · simp [hk]
  | map m => exact marshal_eq_render cfg rt _ hp
  | bool b => exact marshal_eq_render cfg rt _ hp
  | num t => exact marshal_eq_render cfg rt _ hp
  | str s => exact marshal_eq_render cfg rt _ hp

theorem anyMember_childVals (S : Strconv) (et : Str) (x : Val) (ns : List Node)
    (hwf : x.wf = true) (h : anyMember ec et x = .ok ns) :
    Conv.childVals dc S 0 ns ++ [] = (match x with
        | .map [(tag, val)] =>
            if tag = ec.textK || isAttrK ec tag then (imageSibs x.norm).map (et, ·)
            else (imageSibs val.norm).map (tag, ·)
        | x => (imageSibs x.norm).map (et, ·)) := by
  rw [List.append_nil]
  unfold anyMember at h
  split at h
  · rename_i tag val
    have hv : val.wf = true := by
      simp only [Val.wf, Val.wfEntries, Bool.and_eq_true] at hwf
      exact hwf.1.1
    split at h
    · rename_i hc
      simp only [hc, if_true]
      exact childVals_encTree S et _ ns (wf_norm _ hwf) h
    · rename_i hc
      simp only [hc, Bool.false_eq_true, if_false]
      exact childVals_encTree S tag _ ns (wf_norm _ hv) h
  · rename_i hx
    have := childVals_encTree S et _ ns (wf_norm _ hwf) h
    rw [this]
    split
    · rename_i tag val
      exact absurd rfl (hx tag val)
    · rfl

theorem anyMembers_childVals (S : Strconv) (et : Str) : ∀ (xs : List Val) (ns : List Node),
    Val.wfList xs = true → anyMembers ec et xs = .ok ns →
    Conv.childVals dc S 0 ns = anyPairs et xs
  | [], ns, _, h => by
      simp only [anyMembers, Except.ok.injEq] at h; subst h
      simp only [anyPairs, Conv.childVals]
  | x :: rest, ns, hwf, h => by
      simp only [Val.wfList, Bool.and_eq_true] at hwf
      simp only [anyMembers] at h
      split at h
      · simp at h
      · rename_i a ha
        split at h
        · simp at h
        · rename_i r hr
          simp only [Except.ok.injEq] at h
          subst h
          have h1 := anyMember_childVals S et x a hwf.1 ha
          rw [List.append_nil] at h1
          rw [childVals_append, h1, anyMembers_childVals S et rest r hwf.2 hr]
          rfl

theorem anyMembers_isElem (et : Str) : ∀ (xs : List Val) (ns : List Node),
    anyMembers ec et xs = .ok ns → ∀ n ∈ ns, isElem n = true
  | [], ns, h => by simp only [anyMembers, Except.ok.injEq] at h; subst h; simp
  | x :: rest, ns, h => by
      simp only [anyMembers] at h
      split at h
      · simp at h
      · rename_i a ha
        split at h
        · simp at h
        · rename_i r hr
          simp only [Except.ok.injEq] at h
          subst h
          intro n hn
          rcases List.mem_append.1 hn with hn | hn
          · unfold anyMember at ha
            split at ha
            · split at ha <;> exact encTree_isElem ec _ _ a ha n hn
            · exact encTree_isElem ec _ _ a ha n hn
          · exact anyMembers_isElem et rest r hr n hn

theorem siblingsValue_single (S : Strconv) (key : Str) (attrs : List Attr) (kids : List Node) :
    siblingsValue dc S [.elem [] key attrs kids]
      = .map [(key, Conv.value dc S (.elem [] key attrs kids))] := by
  unfold siblingsValue
  rw [childVals_single]
  have := groupOnto_block [] key [Conv.value dc S (.elem [] key attrs kids)] [] (by simp)
    (by simp [keys]) (by simp [keys])
  simpa [groupOnto_nil, collectV] using this

/-- the tree `AnyXml` builds decodes to `{rt: anyImage v et}` -/
theorem siblingsValue_anyTree (S : Strconv) (v : Val) (rt et : Str) (ns : List Node)
    (hwf : v.wf = true) (h : anyTree ec v rt et = .ok ns) :
    siblingsValue dc S ns = .map [(rt, anyImage v et)] := by
  cases v with
  | null =>
    simp only [anyTree, Except.ok.injEq] at h; subst h
    rw [siblingsValue_single, value_empty]; rfl
  | list xs =>
    simp only [Val.wf] at hwf
    simp only [anyTree] at h
    split at h
    · simp at h
    · rename_i kids hk
      simp only [Except.ok.injEq] at h; subst h
      rw [siblingsValue_single]
      have hcv := anyMembers_childVals S et xs kids hwf hk
      have hel := anyMembers_isElem et xs kids hk
      by_cases he : kids.isEmpty = true
      · have : kids = [] := isEmpty_eq_nil he
        subst this
        simp only [List.isEmpty_nil, if_true]
        have hp : anyPairs et xs = [] := by rw [← hcv]; simp only [Conv.childVals]
        simp only [anyImage, hp, groupOnto_nil, List.isEmpty_nil, if_true]
        rw [value_leaf]; rfl
      · simp only [he, Bool.false_eq_true, if_false]
        rw [value_elem_nil dc S _ _ _ _ (textRuns_elems dc kids _ hel), hcv]
        rfl
  | map m => exact siblingsValue_encTree S rt _ ns (wf_norm _ hwf) h
  | bool b => exact siblingsValue_encTree S rt _ ns (wf_norm _ hwf) h
  | num t => exact siblingsValue_encTree S rt _ ns (wf_norm _ hwf) h
  | str s => exact siblingsValue_encTree S rt _ ns (wf_norm _ hwf) h

end Mxj.Enc
