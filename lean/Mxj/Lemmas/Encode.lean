/-
  Mxj.Lemmas.Encode — helper lemmas for C16 / C02 / C03 (Props/C16.lean, C02.lean, C03.lean):
  (1) `strLe` is a total order; `sortByKey` is a sorted permutation, canonical on entry lists with
      distinct keys; `Val.norm` is idempotent on well-formed values and preserves well-formedness;
  (2) the compact encoder's bytes are the canonical rendering of the tree `encTree` builds;
  (3) the decoding conventions (`Conv.value`, default options) applied to the encoder's tree
      compute `image`; values produced by the conventions are their own image.
  Everything lives in `Mxj.Enc` (self-contained: does not depend on Lemmas/Decode.lean).
-/
import Mxj.Model.EncTree
import Mxj.Lemmas.Escape
namespace Mxj.Enc
open Mxj

theorem strLe_total : ∀ (a b : Str), strLe a b = true ∨ strLe b a = true
  | [], _ => by simp [strLe]
  | _ :: _, [] => by simp [strLe]
  | a :: as, b :: bs => by
      have ih := strLe_total as bs
      simp only [strLe, Bool.or_eq_true, decide_eq_true_eq, Bool.and_eq_true, beq_iff_eq]
      rcases ih with h | h
      · rcases Nat.lt_trichotomy a.toNat b.toNat with h1 | h1 | h1
        · exact .inl (.inl h1)
        · exact .inl (.inr ⟨h1, h⟩)
        · exact .inr (.inl h1)
      · rcases Nat.lt_trichotomy a.toNat b.toNat with h1 | h1 | h1
        · exact .inl (.inl h1)
        · exact .inr (.inr ⟨h1.symm, h⟩)
        · exact .inr (.inl h1)

theorem strLe_refl (a : Str) : strLe a a = true := by
  rcases strLe_total a a with h | h <;> exact h

theorem strLe_trans : ∀ (a b c : Str), strLe a b = true → strLe b c = true → strLe a c = true
  | [], _, _, _, _ => by simp [strLe]
  | _ :: _, [], _, h, _ => by simp [strLe] at h
  | _ :: _, _ :: _, [], _, h => by simp [strLe] at h
  | a :: as, b :: bs, c :: cs, h1, h2 => by
      have ih := strLe_trans as bs cs
      simp only [strLe, Bool.or_eq_true, decide_eq_true_eq, Bool.and_eq_true, beq_iff_eq] at h1 h2 ⊢
      rcases h1 with h1 | ⟨e1, h1⟩ <;> rcases h2 with h2 | ⟨e2, h2⟩
      · exact .inl (by omega)
      · exact .inl (by omega)
      · exact .inl (by omega)
      · exact .inr ⟨by omega, ih h1 h2⟩

theorem strLe_antisymm : ∀ (a b : Str), strLe a b = true → strLe b a = true → a = b
  | [], [], _, _ => rfl
  | [], _ :: _, _, h => by simp [strLe] at h
  | _ :: _, [], h, _ => by simp [strLe] at h
  | a :: as, b :: bs, h1, h2 => by
      have ih := strLe_antisymm as bs
      simp only [strLe, Bool.or_eq_true, decide_eq_true_eq, Bool.and_eq_true, beq_iff_eq] at h1 h2
      rcases h1 with h1 | ⟨e1, h1⟩ <;> rcases h2 with h2 | ⟨e2, h2⟩
      · omega
      · omega
      · omega
      · rw [Char.toNat_inj.1 e1, ih h1 h2]

/-! ### `sortByKey`: a permutation, sorted, canonical on lists with distinct keys -/

theorem insertByKey_perm (e : Str × Val) : ∀ (l : Entries), (insertByKey e l).Perm (e :: l)
  | [] => by simp [insertByKey]
  | x :: xs => by
      simp only [insertByKey]
      split
      · exact ((insertByKey_perm e xs).cons x).trans (List.Perm.swap e x xs)
      · exact List.Perm.refl _

theorem sortByKey_cons (x : Str × Val) (xs : Entries) :
    sortByKey (x :: xs) = insertByKey x (sortByKey xs) := rfl

theorem sortByKey_perm : ∀ (l : Entries), (sortByKey l).Perm l
  | [] => by simp [sortByKey]
  | x :: xs => by
      rw [sortByKey_cons]
      exact (insertByKey_perm x _).trans ((sortByKey_perm xs).cons x)

def KeySorted (l : Entries) : Prop := l.Pairwise (fun a b => strLe a.1 b.1 = true)

theorem insertByKey_sorted (e : Str × Val) : ∀ (l : Entries), KeySorted l → KeySorted (insertByKey e l)
  | [], _ => by simp [insertByKey, KeySorted]
  | x :: xs, h => by
      unfold KeySorted at h ⊢
      rw [List.pairwise_cons] at h
      simp only [insertByKey]
      split
      · rename_i hx
        rw [List.pairwise_cons]
        refine ⟨?_, insertByKey_sorted e xs h.2⟩
        intro y hy
        rcases List.mem_cons.1 ((insertByKey_perm e xs).mem_iff.1 hy) with rfl | hy
        · exact hx
        · exact h.1 y hy
      · rename_i hx
        have hex : strLe e.1 x.1 = true := by
          rcases strLe_total e.1 x.1 with h' | h'
          · exact h'
          · exact absurd h' hx
        rw [List.pairwise_cons]
        refine ⟨?_, List.pairwise_cons.2 h⟩
        intro y hy
        rcases List.mem_cons.1 hy with rfl | hy
        · exact hex
        · exact strLe_trans _ _ _ hex (h.1 y hy)

theorem sortByKey_sorted : ∀ (l : Entries), KeySorted (sortByKey l)
  | [] => by simp [sortByKey, KeySorted]
  | x :: xs => by
      rw [sortByKey_cons]
      exact insertByKey_sorted x _ (sortByKey_sorted xs)

theorem keys_nodup_perm {l l' : Entries} (h : l.Perm l') : (keys l).Nodup ↔ (keys l').Nodup := by
  unfold keys
  exact (h.map (fun e => e.1)).nodup_iff

/-- `distinctKeys` is `Nodup` of the keys -/
theorem distinctKeys_iff : ∀ (l : Entries), distinctKeys l = true ↔ (keys l).Nodup
  | [] => by simp [distinctKeys, keys]
  | (k, v) :: rest => by
      have ih := distinctKeys_iff rest
      simp only [distinctKeys, keys, List.map_cons, List.nodup_cons, Bool.and_eq_true,
        Bool.not_eq_true', List.any_eq_false, beq_iff_eq, List.mem_map] at ih ⊢
      rw [ih]
      constructor
      · rintro ⟨h1, h2⟩
        exact ⟨fun ⟨e, he, hk⟩ => h1 e he hk, h2⟩
      · rintro ⟨h1, h2⟩
        exact ⟨fun e he hk => h1 ⟨e, he, hk⟩, h2⟩

/-- two key-sorted permutations of each other with pairwise distinct keys are equal -/
theorem sorted_perm_eq {l l' : Entries} (hs : KeySorted l) (hs' : KeySorted l')
    (hd : (keys l).Nodup) (hp : l.Perm l') : l = l' := by
  have hd' : (keys l').Nodup := (keys_nodup_perm hp).1 hd
  have strict : ∀ {m : Entries}, KeySorted m → (keys m).Nodup →
      m.Pairwise (fun a b => strLe a.1 b.1 = true ∧ a.1 ≠ b.1) := by
    intro m hm hn
    refine List.Pairwise.and hm ?_
    unfold keys at hn
    exact List.pairwise_map.1 hn
  refine List.Perm.eq_of_pairwise ?_ (strict hs hd) (strict hs' hd') hp
  intro a b _ _ hab hba
  exact absurd (strLe_antisymm _ _ hab.1 hba.1) hab.2

theorem sortByKey_congr {l l' : Entries} (hd : (keys l).Nodup) (hp : l.Perm l') :
    sortByKey l = sortByKey l' := by
  refine sorted_perm_eq (sortByKey_sorted l) (sortByKey_sorted l') ?_ ?_
  · exact (keys_nodup_perm (sortByKey_perm l)).2 hd
  · exact (sortByKey_perm l).trans (hp.trans (sortByKey_perm l').symm)


/-! ### `Val.norm` -/

theorem normEntries_eq_map : ∀ (l : Entries), Val.normEntries l = l.map (fun e => (e.1, e.2.norm))
  | [] => rfl
  | (k, v) :: rest => by simp [Val.normEntries, normEntries_eq_map rest]

theorem normList_eq_map : ∀ (l : List Val), Val.normList l = l.map Val.norm
  | [] => rfl
  | x :: xs => by simp [Val.normList, normList_eq_map xs]

theorem keys_normEntries (l : Entries) : keys (Val.normEntries l) = keys l := by
  rw [normEntries_eq_map]; unfold keys; simp [Function.comp_def]

theorem keys_sortByKey_nodup {l : Entries} (h : (keys l).Nodup) : (keys (sortByKey l)).Nodup :=
  (keys_nodup_perm (sortByKey_perm l)).2 h

/-- `insertByKey` looks at keys only -/
theorem insertByKey_map (f : Val → Val) (e : Str × Val) : ∀ (l : Entries),
    (insertByKey e l).map (fun x => (x.1, f x.2))
      = insertByKey (e.1, f e.2) (l.map (fun x => (x.1, f x.2)))
  | [] => rfl
  | x :: xs => by
      simp only [insertByKey, List.map_cons]
      split
      · simp [insertByKey_map f e xs]
      · simp

theorem sortByKey_map (f : Val → Val) : ∀ (l : Entries),
    (sortByKey l).map (fun x => (x.1, f x.2)) = sortByKey (l.map (fun x => (x.1, f x.2)))
  | [] => rfl
  | x :: xs => by
      rw [sortByKey_cons, insertByKey_map, sortByKey_map f xs]; rfl

theorem normEntries_sortByKey (l : Entries) :
    Val.normEntries (sortByKey l) = sortByKey (Val.normEntries l) := by
  rw [normEntries_eq_map, normEntries_eq_map, sortByKey_map]

theorem sortByKey_of_sorted {l : Entries} (hs : KeySorted l) (hd : (keys l).Nodup) :
    sortByKey l = l :=
  sorted_perm_eq (sortByKey_sorted l) hs (keys_sortByKey_nodup hd) (sortByKey_perm l)

theorem sortByKey_idem {l : Entries} (hd : (keys l).Nodup) : sortByKey (sortByKey l) = sortByKey l :=
  sortByKey_of_sorted (sortByKey_sorted l) (keys_sortByKey_nodup hd)

mutual
theorem norm_idem : ∀ (v : Val), v.wf = true → v.norm.norm = v.norm
  | .null, _ => rfl
  | .bool _, _ => rfl
  | .num _, _ => rfl
  | .str _, _ => rfl
  | .list xs, h => by
      simp only [Val.wf] at h
      simp only [Val.norm, normList_idem xs h]
  | .map kvs, h => by
      simp only [Val.wf, Bool.and_eq_true] at h
      simp only [Val.norm]
      rw [normEntries_sortByKey, normEntries_idem kvs h.1, sortByKey_idem]
      rw [keys_normEntries]; exact (distinctKeys_iff kvs).1 h.2
theorem normList_idem : ∀ (xs : List Val), Val.wfList xs = true →
    Val.normList (Val.normList xs) = Val.normList xs
  | [], _ => rfl
  | x :: xs, h => by
      simp only [Val.wfList, Bool.and_eq_true] at h
      simp only [Val.normList, norm_idem x h.1, normList_idem xs h.2]
theorem normEntries_idem : ∀ (kvs : Entries), Val.wfEntries kvs = true →
    Val.normEntries (Val.normEntries kvs) = Val.normEntries kvs
  | [], _ => rfl
  | (k, v) :: rest, h => by
      simp only [Val.wfEntries, Bool.and_eq_true] at h
      simp only [Val.normEntries, norm_idem v h.1, normEntries_idem rest h.2]
end

theorem wfEntries_iff : ∀ (l : Entries), Val.wfEntries l = true ↔ ∀ e ∈ l, e.2.wf = true
  | [] => by simp [Val.wfEntries]
  | (k, v) :: rest => by simp [Val.wfEntries, wfEntries_iff rest]

theorem wfList_iff : ∀ (l : List Val), Val.wfList l = true ↔ ∀ x ∈ l, x.wf = true
  | [] => by simp [Val.wfList]
  | x :: xs => by simp [Val.wfList, wfList_iff xs]

mutual
theorem wf_norm : ∀ (v : Val), v.wf = true → v.norm.wf = true
  | .null, _ => rfl
  | .bool _, _ => rfl
  | .num _, _ => rfl
  | .str _, _ => rfl
  | .list xs, h => by
      simp only [Val.wf] at h
      simp only [Val.norm, Val.wf, wfList_norm xs h]
  | .map kvs, h => by
      simp only [Val.wf, Bool.and_eq_true] at h
      simp only [Val.norm, Val.wf, Bool.and_eq_true]
      constructor
      · rw [wfEntries_iff]
        intro e he
        exact (wfEntries_iff _).1 (wfEntries_norm kvs h.1) e ((sortByKey_perm _).mem_iff.1 he)
      · rw [distinctKeys_iff]
        apply keys_sortByKey_nodup
        rw [keys_normEntries]; exact (distinctKeys_iff kvs).1 h.2
theorem wfList_norm : ∀ (xs : List Val), Val.wfList xs = true → Val.wfList (Val.normList xs) = true
  | [], _ => rfl
  | x :: xs, h => by
      simp only [Val.wfList, Bool.and_eq_true] at h
      simp only [Val.normList, Val.wfList, wf_norm x h.1, wfList_norm xs h.2, Bool.and_self]
theorem wfEntries_norm : ∀ (kvs : Entries), Val.wfEntries kvs = true →
    Val.wfEntries (Val.normEntries kvs) = true
  | [], _ => rfl
  | (k, v) :: rest, h => by
      simp only [Val.wfEntries, Bool.and_eq_true] at h
      simp only [Val.normEntries, Val.wfEntries, wf_norm v h.1, wfEntries_norm rest h.2, Bool.and_self]
end

/-- permuting the entries of a map with distinct keys gives an equivalent map -/
theorem equiv_map_of_perm {m m' : Entries} (hp : m.Perm m') (hd : distinctKeys m = true) :
    Val.map m ≈ᵥ Val.map m' := by
  unfold Val.equiv
  simp only [Val.norm]
  rw [sortByKey_congr (l := Val.normEntries m) (l' := Val.normEntries m')]
  · rw [keys_normEntries]; exact (distinctKeys_iff m).1 hd
  · rw [normEntries_eq_map, normEntries_eq_map]; exact hp.map _


/-! ### bytes = rendering of the tree -/

theorem renderKids_eq (cfg : EncCfg) : ∀ (ks : List Node), renderKids cfg ks = ks.flatMap (render cfg)
  | [] => rfl
  | k :: ks => by simp [renderKids, renderKids_eq cfg ks]

theorem escapeChars_isEmpty (s : Str) : (escapeChars s).isEmpty = s.isEmpty := by
  cases s with
  | nil => rfl
  | cons c r =>
    rw [escapeChars_cons]
    have := escOne_length_pos c
    cases h : escOne c with
    | nil => rw [h] at this; simp at this
    | cons _ _ => rfl

theorem escIf_isEmpty (cfg : EncCfg) (s : Str) : (escIf cfg s).isEmpty = s.isEmpty := by
  unfold escIf; split
  · exact escapeChars_isEmpty s
  · rfl

theorem escIf_true (cfg : EncCfg) : escIf cfg ['t', 'r', 'u', 'e'] = ['t', 'r', 'u', 'e'] := by
  unfold escIf; split
  · rw [escapeChars_flatMap]; decide
  · rfl

theorem escIf_false (cfg : EncCfg) :
    escIf cfg ['f', 'a', 'l', 's', 'e'] = ['f', 'a', 'l', 's', 'e'] := by
  unfold escIf; split
  · rw [escapeChars_flatMap]; decide
  · rfl

theorem plainText_eq {cfg : EncCfg} {s : Str} (h : plainText cfg s = true) : escIf cfg s = s := by
  unfold plainText at h; exact beq_iff_eq.1 h

theorem attrText_eq (cfg : EncCfg) (k : Str) (v : Val) (hp : Plain cfg v = true) :
    attrText cfg k v = (encAttr cfg k v).map (fun a => renderAttrs cfg [a]) := by
  cases v with
  | null => rfl
  | list _ => rfl
  | map _ => rfl
  | str s => simp [attrText, encAttr, attrValue, Except.map, renderAttrs]
  | num t =>
    simp only [Plain, Bool.and_eq_true] at hp
    simp [attrText, encAttr, attrValue, Except.map, renderAttrs, plainText_eq hp.2]
  | bool b =>
    cases b <;> simp [attrText, encAttr, attrValue, Except.map, renderAttrs, escIf_true, escIf_false]

theorem attrsText_eq (cfg : EncCfg) : ∀ (kvs : Entries), PlainEntries cfg kvs = true →
    attrsText cfg kvs = (encAttrs cfg kvs).map (renderAttrs cfg)
  | [], _ => rfl
  | (k, v) :: rest, hp => by
      simp only [PlainEntries, Bool.and_eq_true] at hp
      have ih := attrsText_eq cfg rest hp.2
      simp only [attrsText, encAttrs]
      split
      · rw [attrText_eq cfg k v hp.1.2, ih]
        cases encAttr cfg k v <;> cases encAttrs cfg rest <;> simp [Except.map, renderAttrs]
      · exact ih

/-- text written for the text-key value = the escaped `%v` text -/
theorem textValue_eq (cfg : EncCfg) (k : Str) : ∀ (kvs : Entries) (tv : Val),
    PlainEntries cfg kvs = true → k = cfg.textK → lookup k kvs = some tv →
    textValue cfg tv = (fmtV tv).map (escIf cfg)
  | [], _, _, _, h => by simp [lookup] at h
  | (k', v) :: rest, tv, hp, hk, h => by
      simp only [PlainEntries, Bool.and_eq_true] at hp
      simp only [lookup] at h
      split at h
      · rename_i e
        subst e
        obtain rfl := Option.some.inj h
        cases v with
        | str s => rfl
        | list _ => rfl
        | map _ => rfl
        | bool b => cases b <;> simp [textValue, fmtV, escIf_true, escIf_false]
        | num t =>
          simp only [Plain, Bool.and_eq_true] at hp
          simp [textValue, fmtV, plainText_eq hp.1.2.2]
        | null =>
          have h1 := hp.1.1
          simp only [nullTextOk, hk, decide_true, Bool.true_and, Bool.not_eq_true'] at h1
          simp [textValue, fmtV, escIf, h1]
      · exact textValue_eq cfg k rest tv hp.2 hk h


mutual
theorem encTree_ne_nil (cfg : EncCfg) : ∀ (key : Str) (v : Val) (ns : List Node),
    encTree cfg key v = .ok ns → ns ≠ []
  | key, .null, ns, h => by simp only [encTree, Except.ok.injEq] at h; subst h; simp
  | key, .str s, ns, h => by simp only [encTree, Except.ok.injEq] at h; subst h; simp
  | key, .bool b, ns, h => by
      cases b <;> simp only [encTree, fmtV, Except.ok.injEq] at h <;> subst h <;> simp
  | key, .num t, ns, h => by simp only [encTree, fmtV, Except.ok.injEq] at h; subst h; simp
  | key, .list xs, ns, h => by
      simp only [encTree] at h
      split at h
      · simp only [Except.ok.injEq] at h; subst h; simp
      · rename_i hne
        exact encMembers_ne_nil cfg key xs ns (by intro e; subst e; simp at hne) h
  | key, .map vv, ns, h => by
      simp only [encTree] at h
      repeat' split at h
      all_goals first
        | (simp only [Except.ok.injEq] at h; subst h; simp)
        | simp at h
theorem encMembers_ne_nil (cfg : EncCfg) (key : Str) : ∀ (xs : List Val) (ns : List Node),
    xs ≠ [] → encMembers cfg key xs = .ok ns → ns ≠ []
  | [], _, hne, _ => absurd rfl hne
  | x :: xs, ns, _, h => by
      simp only [encMembers] at h
      split at h
      · simp at h
      · rename_i a ha
        split at h
        · simp at h
        · simp only [Except.ok.injEq] at h
          subst h
          have := encTree_ne_nil cfg key x a ha
          simp [this]
end

theorem encElems_ne_nil (cfg : EncCfg) : ∀ (vv : Entries) (ns : List Node),
    countAttrs cfg vv ≠ vv.length → lookup cfg.textK vv = none → encElems cfg vv = .ok ns → ns ≠ []
  | [], _, h, _, _ => by simp [countAttrs] at h
  | (k, v) :: rest, ns, hc, hl, h => by
      simp only [lookup] at hl
      split at hl
      · simp at hl
      · rename_i hk
        have hk' : ¬ k = cfg.textK := fun e => hk e.symm
        simp only [encElems, hk', decide_false, Bool.false_or] at h
        by_cases ha : isAttrK cfg k = true
        · simp only [ha, if_true] at h
          refine encElems_ne_nil cfg rest ns ?_ hl h
          simp only [countAttrs, List.filter_cons, ha, if_true, List.length_cons] at hc
          simp only [countAttrs]
          omega
        · have ha2 : isAttrK cfg k = false := by simpa using ha
          simp only [ha2, Bool.false_eq_true, if_false] at h
          split at h
          · simp at h
          · rename_i a ha'
            split at h
            · simp at h
            · simp only [Except.ok.injEq] at h
              subst h
              have := encTree_ne_nil cfg k v a ha'
              simp [this]

theorem flatMap_render_single (cfg : EncCfg) (n : Node) : [n].flatMap (render cfg) = render cfg n := by
  simp

mutual
/-- the compact encoder's bytes are the rendering of the encoder's tree (and it fails exactly
    when the tree builder fails) -/
theorem marshalN_eq_render (cfg : EncCfg) : ∀ (key : Str) (v : Val), Plain cfg v = true →
    marshalN cfg key v = (encTree cfg key v).map (fun ns => ns.flatMap (render cfg))
  | key, .null, _ => by
      simp [marshalN, encTree, Except.map, render, renderAttrs]
  | key, .str s, _ => by
      by_cases hs : s = []
      · subst hs
        have : escIf cfg [] = [] := by unfold escIf escapeChars; simp
        simp [marshalN, encTree, Except.map, render, this, renderAttrs]
      · have h1 : s.isEmpty = false := by cases s <;> simp_all
        have h2 : (escIf cfg s).isEmpty = false := by rw [escIf_isEmpty]; exact h1
        have h3 : (escIf cfg s).length > 0 := by
          cases h : escIf cfg s with
          | nil => rw [h] at h2; simp at h2
          | cons _ _ => simp
        have h4 : escIf cfg s ≠ [] := by intro e; rw [e] at h2; simp at h2
        simp [marshalN, encTree, Except.map, render, renderKids, h1, h2, endOf, h3, h4, renderAttrs]
  | key, .bool b, _ => by
      cases b <;>
        simp [marshalN, encTree, fmtV, Except.map, render, renderKids, endOf, renderAttrs,
          escIf_true, escIf_false]
  | key, .num t, hp => by
      simp only [Plain, Bool.and_eq_true, Bool.not_eq_true'] at hp
      have h3 : (numText t).length > 0 := by
        cases h : numText t with
        | nil => rw [h] at hp; simp at hp
        | cons _ _ => simp
      have h4 : numText t ≠ [] := by intro e; rw [e] at h3; simp at h3
      simp [marshalN, encTree, fmtV, Except.map, render, renderKids, endOf, renderAttrs,
        plainText_eq hp.2, h3, h4]
  | key, .list xs, hp => by
      simp only [Plain] at hp
      simp only [marshalN, encTree]
      split
      · simp [Except.map, render, renderAttrs]
      · exact marshalMembers_eq_render cfg key xs hp
  | key, .map vv, hp => by
      simp only [Plain] at hp
      simp only [marshalN, encTree, attrsText_eq cfg vv hp]
      cases hA : encAttrs cfg vv with
      | error e => rfl
      | ok attrs =>
        simp only [Except.map]
        by_cases hn : countAttrs cfg vv = vv.length
        · simp only [hn, if_true, flatMap_render_single, render, List.isEmpty_nil, endOf]
          simp
        · simp only [hn, if_false]
          cases hl : lookup cfg.textK vv with
          | some tv =>
            simp only [textValue_eq cfg cfg.textK vv tv hp rfl hl]
            cases hf : fmtV tv with
            | none => rfl
            | some txt =>
              simp only [Option.map_some]
              by_cases hn1 : countAttrs cfg vv + 1 = vv.length
              · simp only [hn1, if_true, flatMap_render_single, render, renderKids, endOf]
                simp
              · simp only [hn1, if_false, marshalElems_eq_render cfg vv hp]
                cases hE : encElems cfg vv with
                | error e => rfl
                | ok kids =>
                  simp only [Except.map, flatMap_render_single, render, renderKids, endOf,
                    renderKids_eq]
                  simp
          | none =>
            simp only [marshalElems_eq_render cfg vv hp]
            cases hE : encElems cfg vv with
            | error e => rfl
            | ok kids =>
              have hne := encElems_ne_nil cfg vv kids hn hl hE
              have hne' : kids.isEmpty = false := by cases kids <;> simp_all
              simp only [Except.map, flatMap_render_single, render, renderKids_eq, endOf, hne']
              simp
theorem marshalMembers_eq_render (cfg : EncCfg) (key : Str) : ∀ (xs : List Val),
    PlainList cfg xs = true →
    marshalMembers cfg key xs = (encMembers cfg key xs).map (fun ns => ns.flatMap (render cfg))
  | [], _ => rfl
  | x :: xs, hp => by
      simp only [PlainList, Bool.and_eq_true] at hp
      simp only [marshalMembers, encMembers, marshalN_eq_render cfg key x hp.1,
        marshalMembers_eq_render cfg key xs hp.2]
      cases encTree cfg key x <;> cases encMembers cfg key xs <;> simp [Except.map]
theorem marshalElems_eq_render (cfg : EncCfg) : ∀ (kvs : Entries), PlainEntries cfg kvs = true →
    marshalElems cfg kvs = (encElems cfg kvs).map (fun ns => ns.flatMap (render cfg))
  | [], _ => rfl
  | (k, v) :: rest, hp => by
      simp only [PlainEntries, Bool.and_eq_true] at hp
      simp only [marshalElems, encElems]
      split
      · exact marshalElems_eq_render cfg rest hp.2
      · simp only [marshalN_eq_render cfg k v hp.1.2, marshalElems_eq_render cfg rest hp.2]
        cases encTree cfg k v <;> cases encElems cfg rest <;> simp [Except.map]
end

end Mxj.Enc
