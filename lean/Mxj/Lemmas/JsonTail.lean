/-
  Mxj.Lemmas.JsonTail — PREFIX STABILITY of the JSON text grammar of Mxj.Model.Json:
  what the parsers recognise at the head of `s` they recognise, unchanged, at the head of
  `s ++ t`, with `t` appended to the rest — for every fuel from the one that sufficed on.
  The only token a tail can extend is a number literal that ends exactly where `s` ends.
-/
import Mxj.Lemmas.Json
namespace Mxj.Json
open Mxj

/-! ### lists -/

theorem takeWhile_append_of_ne (p : Char → Bool) (x t : Str) (h : x.dropWhile p ≠ []) :
    (x ++ t).takeWhile p = x.takeWhile p := by
  induction x with
  | nil => simp at h
  | cons c x ih =>
    simp only [List.cons_append, List.takeWhile_cons]
    cases hc : p c with
    | false => rfl
    | true =>
      simp only [List.dropWhile_cons, hc, if_true] at h
      simp [ih h]

theorem dropWhile_append_of_ne (p : Char → Bool) (x t : Str) (h : x.dropWhile p ≠ []) :
    (x ++ t).dropWhile p = x.dropWhile p ++ t := by
  induction x with
  | nil => simp at h
  | cons c x ih =>
    simp only [List.cons_append, List.dropWhile_cons]
    cases hc : p c with
    | false => simp
    | true =>
      simp only [List.dropWhile_cons, hc, if_true] at h
      simp [ih h]

theorem skipWs_append (s t : Str) (h : skipWs s ≠ []) : skipWs (s ++ t) = skipWs s ++ t :=
  dropWhile_append_of_ne isWs s t h

theorem skipWs_idem (s : Str) : skipWs (skipWs s) = skipWs s := by
  induction s with
  | nil => rfl
  | cons c s ih =>
    cases hc : isWs c with
    | false => simp [skipWs, hc]
    | true => simpa [skipWs, List.dropWhile_cons, hc] using ih

theorem skipWs_head (s : Str) (c : Char) (r : Str) (h : skipWs s = c :: r) : isWs c = false := by
  induction s with
  | nil => simp [skipWs] at h
  | cons d s ih =>
    cases hd : isWs d with
    | false =>
      simp only [skipWs, List.dropWhile_cons, hd] at h
      simp only [Bool.false_eq_true, if_false, List.cons.injEq] at h
      rw [← h.1]; exact hd
    | true =>
      simp only [skipWs, List.dropWhile_cons, hd, if_true] at h
      exact ih h

/-! ### number literals: a rest that is not empty shields the literal from any tail -/

theorem digits1_append_ne (x t d r : Str) (hr : r ≠ [])
    (hx : digits1 x = some (d, r)) : digits1 (x ++ t) = some (d, r ++ t) := by
  have hd : x.dropWhile isDigit ≠ [] := by
    simp only [digits1] at hx
    by_cases hne : (List.takeWhile isDigit x).isEmpty = true
    · simp [hne] at hx
    · simp only [hne, if_false, Option.some.injEq, Prod.mk.injEq, Bool.false_eq_true] at hx
      rw [hx.2]; exact hr
  simp only [digits1, takeWhile_append_of_ne isDigit x t hd, dropWhile_append_of_ne isDigit x t hd]
    at hx ⊢
  by_cases hne : (List.takeWhile isDigit x).isEmpty = true
  · simp [hne] at hx
  · simp only [hne, if_false, Option.some.injEq, Prod.mk.injEq, Bool.false_eq_true] at hx ⊢
    simp [hx.1, hx.2]

theorem numInt_append_ne (x t ip r : Str) (hr : r ≠ [])
    (hx : numInt x = some (ip, r)) : numInt (x ++ t) = some (ip, r ++ t) := by
  cases x with
  | nil => simp [numInt, digits1_nil] at hx
  | cons c tl =>
    by_cases hc : c = '0'
    · subst hc
      simp only [numInt, Option.some.injEq, Prod.mk.injEq] at hx
      simp [numInt, hx.1, hx.2]
    · unfold numInt at hx ⊢
      simp only [List.cons_append]
      split at hx
      · next heq => simp only [List.cons.injEq] at heq; exact absurd heq.1 hc
      · split
        · next heq => simp only [List.cons.injEq] at heq; exact absurd heq.1 hc
        · cases hd : digits1 (c :: tl) with
          | none => simp [hd] at hx
          | some p =>
            obtain ⟨d', r'⟩ := p
            simp only [hd, Option.some.injEq, Prod.mk.injEq] at hx
            have := digits1_append_ne (c :: tl) t d' r' (by rw [hx.2]; exact hr) hd
            simp only [List.cons_append] at this
            simp [this, hx.1, hx.2]

theorem numFrac_nil : numFrac [] = some ([], []) := rfl
theorem numExp_nil : numExp [] = some ([], []) := rfl

theorem numFrac_append_ne (x t fp r : Str) (hr : r ≠ [])
    (hx : numFrac x = some (fp, r)) : numFrac (x ++ t) = some (fp, r ++ t) := by
  cases x with
  | nil =>
    simp only [numFrac, Option.some.injEq, Prod.mk.injEq] at hx
    exact absurd hx.2.symm hr
  | cons c tl =>
    by_cases hc : c = '.'
    · subst hc
      simp only [numFrac] at hx ⊢
      simp only [List.cons_append]
      cases hd : digits1 tl with
      | none => simp [hd] at hx
      | some p =>
        obtain ⟨d', r'⟩ := p
        simp only [hd, Option.some.injEq, Prod.mk.injEq] at hx
        simp [digits1_append_ne tl t d' r' (by rw [hx.2]; exact hr) hd, hx.1, hx.2]
    · unfold numFrac at hx ⊢
      simp only [List.cons_append]
      split at hx
      · next heq => simp only [List.cons.injEq] at heq; exact absurd heq.1 hc
      · split
        · next heq => simp only [List.cons.injEq] at heq; exact absurd heq.1 hc
        · simp only [Option.some.injEq, Prod.mk.injEq] at hx
          simp [← hx.1, ← hx.2]

theorem numExp_append_ne (x t ep r : Str) (hr : r ≠ [])
    (hx : numExp x = some (ep, r)) : numExp (x ++ t) = some (ep, r ++ t) := by
  cases x with
  | nil =>
    simp only [numExp, Option.some.injEq, Prod.mk.injEq] at hx
    exact absurd hx.2.symm hr
  | cons e tl =>
    simp only [numExp, List.cons_append] at hx ⊢
    split at hx
    · next he =>
      simp only [he, if_true]
      cases tl with
      | nil => simp [numExpSign, digits1_nil] at hx
      | cons c tl' =>
        rw [numExpSign_append]
        cases hd : digits1 (numExpSign (c :: tl')).2 with
        | none => simp [hd] at hx
        | some p =>
          obtain ⟨d', r'⟩ := p
          simp only [hd, Option.some.injEq, Prod.mk.injEq] at hx
          simp [digits1_append_ne _ t d' r' (by rw [hx.2]; exact hr) hd, hx.1, hx.2]
    · next he =>
      simp only [he]
      simp only [Option.some.injEq, Prod.mk.injEq] at hx
      simp [← hx.1, ← hx.2]

/-- a literal whose rest is not empty is recognised, unchanged, whatever is appended -/
theorem numberLit_append_ne (x t lit r : Str) (hr : r ≠ [])
    (hx : numberLit x = some (lit, r)) : numberLit (x ++ t) = some (lit, r ++ t) := by
  rw [numberLit_eq] at hx ⊢
  have hs : numSign (x ++ t) = ((numSign x).1, (numSign x).2 ++ t) := by
    cases x with
    | nil => simp [numSign, numInt, digits1_nil] at hx
    | cons c tl =>
      by_cases hc : c = '-'
      · subst hc; simp [numSign]
      · unfold numSign
        simp only [List.cons_append]
        split
        · next heq => simp only [List.cons.injEq] at heq; exact absurd heq.1 hc
        · split
          · next heq => simp only [List.cons.injEq] at heq; exact absurd heq.1 hc
          · rfl
  rw [hs]
  cases h1 : numInt (numSign x).2 with
  | none => simp [h1] at hx
  | some p1 =>
    obtain ⟨ip, s2⟩ := p1
    simp only [h1] at hx
    cases h2 : numFrac s2 with
    | none => simp [h2] at hx
    | some p2 =>
      obtain ⟨fp, s3⟩ := p2
      simp only [h2] at hx
      cases h3 : numExp s3 with
      | none => simp [h3] at hx
      | some p3 =>
        obtain ⟨ep, s4⟩ := p3
        simp only [h3, Option.some.injEq, Prod.mk.injEq] at hx
        have h4 : s4 ≠ [] := by rw [hx.2]; exact hr
        have h3' : s3 ≠ [] := by
          intro h; subst h; rw [numExp_nil] at h3
          simp only [Option.some.injEq, Prod.mk.injEq] at h3; exact h4 h3.2.symm
        have h2' : s2 ≠ [] := by
          intro h; subst h; rw [numFrac_nil] at h2
          simp only [Option.some.injEq, Prod.mk.injEq] at h2; exact h3' h2.2.symm
        simp only [numInt_append_ne _ t ip s2 h2' h1, numFrac_append_ne _ t fp s3 h3' h2,
          numExp_append_ne _ t ep s4 h4 h3]
        simp [← hx.1, hx.2]

/-- the tail condition for a value read with rest `r`: only a rest that is empty exposes it -/
def tailOk (r t : Str) : Bool := !r.isEmpty || numEnd t

theorem numberLit_tail (x t lit r : Str) (h : tailOk r t = true)
    (hx : numberLit x = some (lit, r)) : numberLit (x ++ t) = some (lit, r ++ t) := by
  cases r with
  | nil => exact numberLit_append x t lit [] (by simpa [tailOk] using h) hx
  | cons c r => exact numberLit_append_ne x t lit (c :: r) (by simp) hx

/-! ### string literals -/

theorem hex4_append (s t : Str) (n : Nat) (r : Str) (h : hex4 s = some (n, r)) :
    hex4 (s ++ t) = some (n, r ++ t) := by
  match s, h with
  | a :: b :: c :: d :: rest, h =>
    simp only [hex4] at h
    simp only [List.cons_append, hex4]
    split at h
    · simp only [Option.some.injEq, Prod.mk.injEq] at h
      simp [h.1, h.2]
    · cases h
  | [], h | [_], h | [_, _], h | [_, _, _], h => simp [hex4] at h

theorem strBody_zero (s acc : Str) : strBody 0 s acc = none := by
  unfold strBody; rfl
theorem strBody_nil (n : Nat) (acc : Str) : strBody n [] acc = none := by
  cases n <;> simp [strBody]
theorem strBody_bs (n : Nat) (acc : Str) : strBody n ['\\'] acc = none := by
  cases n <;> simp [strBody]

theorem strBody_plain (f : Nat) (c : Char) (rest acc : Str) (h1 : c ≠ '"') (h2 : c ≠ '\\') :
    strBody (f + 1) (c :: rest) acc
      = if c.toNat < 0x20 then none else strBody f rest (c :: acc) := by
  rw [strBody]
  · intro h; exact h1 h
  · intro _ _ h; exact absurd h h2
  · intro h; exact absurd h h2

theorem strBody_append : ∀ (n : Nat) (s acc k r : Str), strBody n s acc = some (k, r) →
    ∀ (m : Nat), n ≤ m → ∀ t : Str, strBody m (s ++ t) acc = some (k, r ++ t) := by
  intro n s acc
  fun_induction strBody n s acc <;> intro k r h m hm t
  all_goals first | (cases h; done) | skip
  all_goals (obtain ⟨m', rfl⟩ : ∃ m', m = m' + 1 := ⟨m - 1, by omega⟩)
  all_goals (have hm' := Nat.le_of_succ_le_succ hm)
  case case3 =>
    simp only [Option.some.injEq, Prod.mk.injEq] at h
    simp [strBody, h.1, h.2]
  case case4 ih => simpa [strBody] using ih k r h m' hm' t
  case case5 ih => simpa [strBody] using ih k r h m' hm' t
  case case6 ih => simpa [strBody] using ih k r h m' hm' t
  case case7 ih => simpa [strBody] using ih k r h m' hm' t
  case case8 ih => simpa [strBody] using ih k r h m' hm' t
  case case9 ih => simpa [strBody] using ih k r h m' hm' t
  case case10 ih => simpa [strBody] using ih k r h m' hm' t
  case case11 ih => simpa [strBody] using ih k r h m' hm' t
  case case13 hx2 hb _ _ _ _ _ _ _ _ hx ih =>
    have e1 := hex4_append _ t _ _ hx
    have e2 := hex4_append _ t _ _ hx2
    simp only [List.cons_append] at e1
    simp only [List.cons_append, strBody, e1, e2]
    simpa [*] using ih k r h m' hm' t
  case case14 hx2 hb _ _ _ _ _ _ _ _ hx ih =>
    have e1 := hex4_append _ t _ _ hx
    have e2 := hex4_append _ t _ _ hx2
    simp only [List.cons_append] at e1
    simp only [List.cons_append, strBody, e1, e2]
    simpa [*] using ih k r h m' hm' t
  case case16 f rest acc n rest' hx hb hnot _ _ _ _ _ _ _ _ ih =>
    have e1 := hex4_append _ t _ _ hx
    have hne : ∀ r2, rest' ++ t = '\\' :: 'u' :: r2 → False := by
      intro r2 he
      cases rest' with
      | nil => rw [strBody_nil] at h; cases h
      | cons a r1 =>
        cases r1 with
        | nil =>
          simp only [List.cons_append, List.nil_append, List.cons.injEq] at he
          rw [he.1, strBody_bs] at h; cases h
        | cons b r1' =>
          simp only [List.cons_append, List.cons.injEq] at he
          exact hnot r1' (by rw [he.1, he.2.1])
    simp only [List.cons_append, strBody, e1]
    rw [if_neg (by decide), if_neg (by decide), if_neg (by decide), if_neg (by decide), if_neg (by decide), if_neg (by decide), if_neg (by decide), if_neg (by decide), if_pos trivial, if_pos hb]
    first
      | exact ih k r h m' hm' t
      | (split
         · next heq => exact (hne _ heq).elim
         · exact ih k r h m' hm' t)
  case case17 hx _ _ _ _ _ _ _ _ _ _ ih =>
    have e1 := hex4_append _ t _ _ hx
    simp only [List.cons_append, strBody, e1]
    simpa [*] using ih k r h m' hm' t
  case case18 hx _ _ _ _ _ _ _ _ _ _ ih =>
    have e1 := hex4_append _ t _ _ hx
    simp only [List.cons_append, strBody, e1]
    simpa [*] using ih k r h m' hm' t
  case case22 f c rest acc h1 h2 h3 h4 ih =>
    have hb : c ≠ '\\' := by
      intro hc
      cases rest with
      | nil => exact h3 hc rfl
      | cons a b => exact h2 a b hc rfl
    rw [List.cons_append, strBody_plain _ _ _ _ (fun e => h1 e) hb, if_neg h4]
    exact ih k r h m' hm' t

/-! ### values -/

theorem skipWs_append_cons (s t : Str) (c : Char) (r : Str) (h : skipWs s = c :: r) :
    skipWs (s ++ t) = c :: (r ++ t) := by
  rw [skipWs_append s t (by rw [h]; simp), h]; rfl

theorem value_skipWs (f : Nat) (s : Str) : value f (skipWs s) = value f s := by
  cases f with
  | zero => simp [value]
  | succ f => rw [value, value, skipWs_idem]

theorem value_nil (f : Nat) : value f [] = none := by
  cases f with
  | zero => simp [value]
  | succ f => rw [value]; rfl

theorem members_nil (f : Nat) (acc : Entries) : members f [] acc = none := by
  cases f with
  | zero => simp [members]
  | succ f => rw [members]; rfl

theorem elements_nil (f : Nat) (acc : List Val) : elements f [] acc = none := by
  cases f with
  | zero => simp [elements]
  | succ f => rw [elements, value_nil]

/-- the number branch of `value` -/
theorem value_numHead (f : Nat) (c : Char) (tl : Str) (hc : c = '-' ∨ isDigit c = true) :
    value (f + 1) (c :: tl)
      = (numberLit (c :: tl)).map fun (t, r') => (.num ("jn:".toList ++ t), r') := by
  obtain ⟨h0, h1, h2, h3, h4, h5, h6, _, _⟩ := numHead_facts c hc
  rw [value, skipWs_cons_of _ _ h0]
  split
  · next heq => simp only [List.cons.injEq] at heq; exact absurd heq.1 h1
  · next heq => simp only [List.cons.injEq] at heq; exact absurd heq.1 h2
  · next heq => simp only [List.cons.injEq] at heq; exact absurd heq.1 h3
  · next heq => simp only [List.cons.injEq] at heq; exact absurd heq.1 h4
  · next heq => simp only [List.cons.injEq] at heq; exact absurd heq.1 h5
  · next heq => simp only [List.cons.injEq] at heq; exact absurd heq.1 h6
  · rfl

/-- the tail condition of a value: only a number that ends where the text ends is exposed -/
def numTail (v : Val) (r t : Str) : Bool :=
  match v with
  | .num _ => tailOk r t
  | _ => true

theorem numTail_of_ne (v : Val) (r t : Str) (h : r ≠ []) : numTail v r t = true := by
  cases r with
  | nil => exact absurd rfl h
  | cons c r => cases v <;> simp [numTail, tailOk]

def ValueStable (f : Nat) : Prop := ∀ (s : Str) (v : Val) (r : Str), value f s = some (v, r) →
    ∀ m, f ≤ m → ∀ t, numTail v r t = true → value m (s ++ t) = some (v, r ++ t)
def ElementsStable (f : Nat) : Prop := ∀ (s : Str) (acc : List Val) (v : Val) (r : Str),
    elements f s acc = some (v, r) → ∀ m, f ≤ m → ∀ t, elements m (s ++ t) acc = some (v, r ++ t)
def MembersStable (f : Nat) : Prop := ∀ (s : Str) (acc : Entries) (v : Val) (r : Str),
    members f s acc = some (v, r) → ∀ m, f ≤ m → ∀ t, members m (s ++ t) acc = some (v, r ++ t)

theorem valueStable_succ (f : Nat) (hE : ElementsStable f) (hM : MembersStable f) :
    ValueStable (f + 1) := by
  intro s v r h m hm t ht
  obtain ⟨m', rfl⟩ : ∃ m', m = m' + 1 := ⟨m - 1, by omega⟩
  have hm' : f ≤ m' := Nat.le_of_succ_le_succ hm
  rw [← value_skipWs] at h ⊢
  cases hw : skipWs s with
  | nil => rw [hw, value_nil] at h; cases h
  | cons c x =>
    have hws := skipWs_head s c x hw
    rw [hw] at h
    rw [skipWs_append_cons s t c x hw]
    by_cases c1 : c = '{'
    · subst c1
      rw [value_brace] at h ⊢
      split at h
      · next r' heq =>
        simp only [Option.some.injEq, Prod.mk.injEq] at h
        rw [skipWs_append_cons x t _ _ heq, ← h.1, ← h.2]; rfl
      · next hne =>
        cases hy : skipWs x with
        | nil => rw [hy, members_nil] at h; cases h
        | cons d y =>
          rw [skipWs_append_cons x t _ _ hy]
          rw [hy] at h
          split
          · next r'' heq =>
            simp only [List.cons.injEq] at heq
            exact (hne y (by rw [hy, heq.1])).elim
          · exact hM _ _ _ _ h m' hm' t
    by_cases c2 : c = '['
    · subst c2
      rw [value_bracket] at h ⊢
      split at h
      · next r' heq =>
        simp only [Option.some.injEq, Prod.mk.injEq] at h
        rw [skipWs_append_cons x t _ _ heq, ← h.1, ← h.2]; rfl
      · next hne =>
        cases hy : skipWs x with
        | nil => rw [hy, elements_nil] at h; cases h
        | cons d y =>
          rw [skipWs_append_cons x t _ _ hy]
          rw [hy] at h
          split
          · next r'' heq =>
            simp only [List.cons.injEq] at heq
            exact (hne y (by rw [hy, heq.1])).elim
          · exact hE _ _ _ _ h m' hm' t
    by_cases c3 : c = '"'
    · subst c3
      rw [value_quote] at h ⊢
      cases hs : strBody (x.length + 1) x [] with
      | none => rw [hs] at h; cases h
      | some p =>
        obtain ⟨k, r1⟩ := p
        rw [hs] at h
        simp only [Option.map_some, Option.some.injEq, Prod.mk.injEq] at h
        rw [strBody_append _ _ _ _ _ hs ((x ++ t).length + 1) (by simp) t]
        simp [← h.1, ← h.2]
    · rw [value, skipWs_cons_of _ _ hws] at h
      split at h
      · next heq => simp only [List.cons.injEq] at heq; exact absurd heq.1 c1
      · next heq => simp only [List.cons.injEq] at heq; exact absurd heq.1 c2
      · next heq => simp only [List.cons.injEq] at heq; exact absurd heq.1 c3
      · next r0 heq =>
        simp only [List.cons.injEq] at heq
        simp only [Option.some.injEq, Prod.mk.injEq] at h
        rw [heq.1, heq.2, ← h.1, ← h.2]
        exact value_true m' (r0 ++ t)
      · next r0 heq =>
        simp only [List.cons.injEq] at heq
        simp only [Option.some.injEq, Prod.mk.injEq] at h
        rw [heq.1, heq.2, ← h.1, ← h.2]
        exact value_false m' (r0 ++ t)
      · next r0 heq =>
        simp only [List.cons.injEq] at heq
        simp only [Option.some.injEq, Prod.mk.injEq] at h
        rw [heq.1, heq.2, ← h.1, ← h.2]
        exact value_null m' (r0 ++ t)
      · cases hn : numberLit (c :: x) with
        | none => rw [hn] at h; cases h
        | some p =>
          obtain ⟨lit, r1⟩ := p
          rw [hn] at h
          simp only [Option.map_some, Option.some.injEq, Prod.mk.injEq] at h
          obtain ⟨c', tl', he, hc⟩ := numberLit_head _ _ _ hn
          simp only [List.cons.injEq] at he
          rw [← he.1] at hc
          rw [← h.1] at ht
          rw [← h.2] at ht
          have hn' := numberLit_tail _ t _ _ (by simpa [numTail] using ht) hn
          rw [value_numHead m' c (x ++ t) hc, ← List.cons_append, hn']
          simp [← h.1, ← h.2]

theorem elementsStable_succ (f : Nat) (hV : ValueStable f) (hE : ElementsStable f) :
    ElementsStable (f + 1) := by
  intro s acc v r h m hm t
  obtain ⟨m', rfl⟩ : ∃ m', m = m' + 1 := ⟨m - 1, by omega⟩
  have hm' : f ≤ m' := Nat.le_of_succ_le_succ hm
  rw [elements] at h ⊢
  cases hv : value f s with
  | none => rw [hv] at h; cases h
  | some p =>
    obtain ⟨v1, r1⟩ := p
    rw [hv] at h
    simp only at h
    cases hy : skipWs r1 with
    | nil => rw [hy] at h; cases h
    | cons d y =>
      have hr1 : r1 ≠ [] := by intro e; rw [e] at hy; cases hy
      rw [hV s v1 r1 hv m' hm' t (numTail_of_ne v1 r1 t hr1)]
      simp only
      rw [skipWs_append_cons r1 t d y hy]
      rw [hy] at h
      split at h
      · next r' heq =>
        simp only [List.cons.injEq] at heq
        rw [heq.1, heq.2]
        exact hE _ _ _ _ h m' hm' t
      · next r' heq =>
        simp only [List.cons.injEq] at heq
        simp only [Option.some.injEq, Prod.mk.injEq] at h
        rw [heq.1, heq.2, ← h.1, ← h.2]; rfl
      · cases h

theorem membersStable_succ (f : Nat) (hV : ValueStable f) (hM : MembersStable f) :
    MembersStable (f + 1) := by
  intro s acc v r h m hm t
  obtain ⟨m', rfl⟩ : ∃ m', m = m' + 1 := ⟨m - 1, by omega⟩
  have hm' : f ≤ m' := Nat.le_of_succ_le_succ hm
  rw [members] at h ⊢
  split at h
  · next r0 hq =>
    rw [skipWs_append_cons s t _ _ hq]
    simp only
    cases hs : strBody (r0.length + 1) r0 [] with
    | none => rw [hs] at h; cases h
    | some p =>
      obtain ⟨k, r1⟩ := p
      rw [hs] at h
      simp only at h
      rw [strBody_append _ _ _ _ _ hs ((r0 ++ t).length + 1) (by simp) t]
      simp only
      split at h
      · next r2 hc =>
        rw [skipWs_append_cons r1 t _ _ hc]
        simp only
        cases hv : value f r2 with
        | none => rw [hv] at h; cases h
        | some p =>
          obtain ⟨v1, r3⟩ := p
          rw [hv] at h
          simp only at h
          cases hy : skipWs r3 with
          | nil => rw [hy] at h; cases h
          | cons d y =>
            have hr3 : r3 ≠ [] := by intro e; rw [e] at hy; cases hy
            rw [hV r2 v1 r3 hv m' hm' t (numTail_of_ne v1 r3 t hr3)]
            simp only
            rw [skipWs_append_cons r3 t d y hy]
            rw [hy] at h
            split at h
            · next r4 heq =>
              simp only [List.cons.injEq] at heq
              rw [heq.1, heq.2]
              exact hM _ _ _ _ h m' hm' t
            · next r4 heq =>
              simp only [List.cons.injEq] at heq
              simp only [Option.some.injEq, Prod.mk.injEq] at h
              rw [heq.1, heq.2, ← h.1, ← h.2]; rfl
            · cases h
      · cases h
  · cases h

theorem stable_all : ∀ f, ValueStable f ∧ ElementsStable f ∧ MembersStable f := by
  intro f
  induction f with
  | zero =>
    refine ⟨?_, ?_, ?_⟩
    · intro s v r h; simp [value] at h
    · intro s acc v r h; simp [elements] at h
    · intro s acc v r h; simp [members] at h
  | succ f ih =>
    exact ⟨valueStable_succ f ih.2.1 ih.2.2, elementsStable_succ f ih.1 ih.2.1,
      membersStable_succ f ih.1 ih.2.2⟩

/-- PREFIX STABILITY of `value`: same value, the tail appended to the rest, for every larger fuel -/
theorem value_append (f : Nat) (s : Str) (v : Val) (r : Str) (h : value f s = some (v, r))
    (m : Nat) (hm : f ≤ m) (t : Str) (ht : numTail v r t = true) :
    value m (s ++ t) = some (v, r ++ t) := (stable_all f).1 s v r h m hm t ht

theorem elements_append (f : Nat) (s : Str) (acc : List Val) (v : Val) (r : Str)
    (h : elements f s acc = some (v, r)) (m : Nat) (hm : f ≤ m) (t : Str) :
    elements m (s ++ t) acc = some (v, r ++ t) := (stable_all f).2.1 s acc v r h m hm t

theorem members_append (f : Nat) (s : Str) (acc : Entries) (v : Val) (r : Str)
    (h : members f s acc = some (v, r)) (m : Nat) (hm : f ≤ m) (t : Str) :
    members m (s ++ t) acc = some (v, r ++ t) := (stable_all f).2.2 s acc v r h m hm t

/-- fuel monotonicity is the case `t = []` -/
theorem value_mono (f : Nat) (s : Str) (v : Val) (r : Str) (h : value f s = some (v, r))
    (m : Nat) (hm : f ≤ m) : value m s = some (v, r) := by
  have := value_append f s v r h m hm [] (by cases v <;> simp [numTail, tailOk, numEnd])
  simpa using this

/-- a first value that is not a number is the first value of every extension of the text -/
theorem firstValue_append (s t : Str) (v : Val) (h : firstValue s = some v)
    (hv : ∀ lit, v ≠ .num lit) : firstValue (s ++ t) = some v := by
  simp only [firstValue] at h ⊢
  cases hs : value (s.length + 1) s with
  | none => rw [hs] at h; cases h
  | some p =>
    obtain ⟨v1, r⟩ := p
    rw [hs] at h
    simp only [Option.map_some, Option.some.injEq] at h
    subst h
    rw [value_append _ s v1 r hs ((s ++ t).length + 1) (by simp) t
      (by cases v1 <;> first | rfl | exact absurd rfl (hv _))]
    rfl


/-- the value is a number literal — the one kind of value a tail can extend -/
def isNumVal : Val → Bool
  | .num _ => true
  | _ => false

theorem numTail_of_not_num (v : Val) (r t : Str) (h : isNumVal v = false) :
    numTail v r t = true := by
  cases v <;> first | rfl | cases h

theorem numTail_of_numEnd (v : Val) (r t : Str) (h : numEnd t = true) : numTail v r t = true := by
  cases v <;> simp [numTail, tailOk, h]

/-- `firstValue` under a tail, from the tail condition on the rest of the first value -/
theorem firstValue_append_of (s t : Str)
    (h : ∀ v r, value (s.length + 1) s = some (v, r) → numTail v r t = true) :
    (firstValue s).isSome = true → firstValue (s ++ t) = firstValue s := by
  intro hsome
  simp only [firstValue] at hsome ⊢
  cases hs : value (s.length + 1) s with
  | none => rw [hs] at hsome; cases hsome
  | some p =>
    obtain ⟨v1, r⟩ := p
    rw [value_append _ s v1 r hs ((s ++ t).length + 1) (by simp) t (h v1 r hs)]
    rfl

/-- what `newMapJson` accepts is never a number -/
theorem newMapJson_accepts_not_num (s : Str) (hs : s ≠ []) (h : (newMapJson s).isSome = true) :
    ∃ v, firstValue s = some v ∧ isNumVal v = false := by
  rw [newMapJson_spec s hs] at h
  cases hf : firstValue s with
  | none => rw [hf] at h; cases h
  | some v =>
    refine ⟨v, rfl, ?_⟩
    rw [hf] at h
    cases v <;> first | rfl | cases h

end Mxj.Json
