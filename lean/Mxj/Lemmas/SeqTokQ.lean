/-
  Mxj.Lemmas.SeqTokQ — Lemmas/SeqTok.lean once more for PREFIXED names: the sequence encoder writes
  an element / attribute name as the key spells it (`qualify`: `prefix:local` in the name), the
  tokenizer hands it over split at the colon.  `tokenize (renderSeq true ge (qualify seqDflt n))
  = some (flatten n)` for trees whose prefixes (when present) and local names are XML names.
  The lexing lemmas of Lemmas/Tokenizer.lean are re-proved over `NameLex` (a name string that lexes
  to a given space / local pair in front of every delimiter).
-/
import Mxj.Lemmas.SeqTok
namespace Mxj.Tokz
open Mxj Mxj.Enc Mxj.EscDec

/-- `q` is how a name with space `sp` and local part `l` is written: it begins with a name-start
    character and lexes back to the pair in front of every delimiter -/
def NameLex (q sp l : Str) : Prop :=
  (∃ c r, q = c :: r ∧ isXmlNameStart c = true) ∧
  ∀ tl, nameStop tl = true → lexName (q ++ tl) = some (sp, l, tl)

theorem xmlNameOk_all {s : Str} (h : xmlNameOk s = true) : ∀ x ∈ s, isXmlNameChar x = true := by
  cases s with
  | nil => simp [xmlNameOk] at h
  | cons c nm =>
    simp only [xmlNameOk, Bool.and_eq_true, List.all_eq_true] at h
    intro x hx
    rcases List.mem_cons.1 hx with rfl | hx
    · exact xmlNameChar_of_start h.1
    · exact h.2 x hx

theorem nameLex_plain (name : Str) (hn : xmlNameOk name = true) : NameLex name [] name :=
  ⟨name_head hn, fun tl ht => lexName_ok name tl hn ht⟩

theorem nsname_qual (sp name : Str) (hs : xmlNameOk sp = true) (hn : xmlNameOk name = true) :
    nsname (sp ++ ':' :: name) = some (sp, name) := by
  have hsc : ∀ x ∈ sp, x ≠ ':' := fun x hx => xmlNameChar_ne_colon (xmlNameOk_all hs x hx)
  have hnc : ∀ x ∈ name, x ≠ ':' := fun x hx => xmlNameChar_ne_colon (xmlNameOk_all hn x hx)
  have h0 : sp.count ':' = 0 := List.count_eq_zero.2 (fun hm => hsc _ hm rfl)
  have h0' : name.count ':' = 0 := List.count_eq_zero.2 (fun hm => hnc _ hm rfl)
  have hcnt : (sp ++ ':' :: name).count ':' = 1 := by
    simp [List.count_append, h0, h0']
  have hq : ∀ x ∈ sp, (x != ':') = true := fun x hx => by simp [hsc x hx]
  have h1 := dropWhile_stop (· != ':') sp (':' :: name) hq (by simp [stops])
  have h2 := takeWhile_stop (· != ':') sp (':' :: name) hq (by simp [stops])
  have hsne : sp ≠ [] := by intro e; subst e; simp [xmlNameOk] at hs
  have hnne : name ≠ [] := by intro e; subst e; simp [xmlNameOk] at hn
  simp [nsname, hcnt, h1, h2, hsne, hnne]

theorem nameLex_prefixed (sp name : Str) (hs : xmlNameOk sp = true) (hn : xmlNameOk name = true) :
    NameLex (sp ++ ':' :: name) sp name := by
  obtain ⟨c, s', hsp, hc⟩ := name_head hs
  refine ⟨⟨c, s' ++ ':' :: name, by simp [hsp], hc⟩, fun tl ht => ?_⟩
  have hall : ∀ x ∈ sp ++ ':' :: name, isNmCh x = true := by
    intro x hx
    rcases List.mem_append.1 hx with hx | hx
    · exact isNmCh_of_xml (xmlNameOk_all hs x hx)
    · rcases List.mem_cons.1 hx with rfl | hx
      · decide
      · exact isNmCh_of_xml (xmlNameOk_all hn x hx)
  have htk := takeWhile_stop isNmCh (sp ++ ':' :: name) tl hall (nameStop_stops ht)
  have hdr := dropWhile_stop isNmCh (sp ++ ':' :: name) tl hall (nameStop_stops ht)
  have hns := nsname_qual sp name hs hn
  subst hsp
  simp only [List.cons_append] at htk hdr hns ⊢
  simp only [lexName, lexRawName, htk, hdr, isNmStart_of_xml hc, nameStop_ascii ht,
    Bool.and_self, if_true, hns]

/-- a name space: absent, or an XML name -/
def spaceOk (sp : Str) : Bool := sp.isEmpty || xmlNameOk sp

theorem nameLex_qual (sp name : Str) (hs : spaceOk sp = true) (hn : xmlNameOk name = true) :
    NameLex (qualName seqDflt sp name) sp name := by
  cases sp with
  | nil => simpa [qualName, seqDflt] using nameLex_plain name hn
  | cons c s' =>
    have hs' : xmlNameOk (c :: s') = true := by simpa [spaceOk] using hs
    have := nameLex_prefixed (c :: s') name hs' hn
    simpa [qualName, seqDflt] using this

/-! ### attributes, tags -/

theorem lexAttr_q (q sp l r v tl : Str) (hq : NameLex q sp l) (hr : valOk r = true)
    (hu : unesc r = some v) (hv : xmlCharsOk v = true) :
    lexAttr (q ++ ('=' :: '"' :: (r ++ '"' :: tl))) = some (⟨sp, l, v⟩, tl) := by
  have hqq : ∀ x ∈ r, (x != '"') = true := fun x hx => by simp [(valOk_mem hr hx).2.2.1]
  have h1 := takeWhile_stop (· != '"') r ('"' :: tl) hqq (by simp [stops])
  have h2 := dropWhile_stop (· != '"') r ('"' :: tl) hqq (by simp [stops])
  have hl := hq.2 ('=' :: '"' :: (r ++ '"' :: tl)) (by simp [nameStop]; decide)
  simp only [lexAttr, hl, dropSp_cons (c := '=') (by decide), dropSp_cons (c := '"') (by decide),
    if_true, decide_true, Bool.true_or, h1, h2, lexChars_ok r v hr hu hv]

/-- one attribute in the law's domain -/
def attrOkQ (a : Attr) : Bool := spaceOk a.space && xmlNameOk a.name && xmlCharsOk a.value

theorem nameStop_seqAttrs (attrs : List Attr) (e : Bool) (rest : Str) :
    nameStop (renderSeqAttrs true attrs ++ (tagEnd e ++ rest)) = true := by
  cases attrs with
  | nil => cases e <;> simp [renderSeqAttrs, tagEnd, nameStop] <;> decide
  | cons a as => simp [renderSeqAttrs, nameStop]; decide

theorem renderSeqAttrs_length : ∀ (as : List Attr), as.length ≤ (renderSeqAttrs true as).length
  | [] => Nat.le_refl _
  | a :: as => by
      have := renderSeqAttrs_length as
      have h1 : " ".toList.length = 1 := rfl
      simp only [renderSeqAttrs, List.length_cons, List.length_append, h1]
      omega

theorem lexAttrs_q (e : Bool) (rest : Str) : ∀ (attrs : List Attr) (f : Nat),
    attrs.all attrOkQ = true → attrs.length < f →
    lexAttrs f (renderSeqAttrs true (attrs.map (qualAttr seqDflt)) ++ (tagEnd e ++ rest))
      = some (attrs, e, rest)
  | [], f, _, hf => by
      obtain ⟨f', rfl⟩ : ∃ f', f = f' + 1 := ⟨f - 1, by simp at hf; omega⟩
      simpa [renderSeqAttrs] using lexAttrs_end f' e rest
  | a :: as, f, hw, hf => by
      obtain ⟨f', rfl⟩ : ∃ f', f = f' + 1 := ⟨f - 1, by simp at hf; omega⟩
      simp only [List.all_cons, Bool.and_eq_true] at hw
      obtain ⟨ha, hw'⟩ := hw
      simp only [attrOkQ, Bool.and_eq_true] at ha
      obtain ⟨⟨hsp, hnm⟩, hxv⟩ := ha
      have ih := lexAttrs_q e rest as f' hw' (by simp at hf; omega)
      have hq := nameLex_qual a.space a.name hsp hnm
      obtain ⟨⟨c, nm, hname, hc⟩, _⟩ := nameLex_qual a.space a.name hsp hnm
      have hfc := nameStart_facts hc
      have hla := lexAttr_q _ a.space a.name (escapeChars a.value) a.value
        (renderSeqAttrs true (as.map (qualAttr seqDflt)) ++ (tagEnd e ++ rest)) hq
        (valOk_escape _ hxv) (unesc_escapeChars _) hxv
      have hren : renderSeqAttrs true ((a :: as).map (qualAttr seqDflt)) ++ (tagEnd e ++ rest)
          = ' ' :: (qualName seqDflt a.space a.name ++ ('=' :: '"' :: (escapeChars a.value ++ '"' ::
              (renderSeqAttrs true (as.map (qualAttr seqDflt)) ++ (tagEnd e ++ rest))))) := by
        simp [renderSeqAttrs, qualAttr]
      rw [hren]
      have hds : dropSp (' ' :: (qualName seqDflt a.space a.name ++ ('=' :: '"' ::
              (escapeChars a.value ++ '"' ::
              (renderSeqAttrs true (as.map (qualAttr seqDflt)) ++ (tagEnd e ++ rest))))))
          = qualName seqDflt a.space a.name ++ ('=' :: '"' :: (escapeChars a.value ++ '"' ::
              (renderSeqAttrs true (as.map (qualAttr seqDflt)) ++ (tagEnd e ++ rest)))) := by
        unfold dropSp
        rw [List.dropWhile_cons_of_pos (by decide), hname]
        exact List.dropWhile_cons_of_neg (by simp [hfc.1])
      simp only [lexAttrs, hds]
      rw [hname] at hla ⊢
      simp only [List.cons_append, hfc.2.1, hfc.2.2.1, if_false] at hla ⊢
      rw [hla]
      simp only [ih]

theorem step_start_q (sp name : Str) (attrs : List Attr) (e : Bool) (rest : Str)
    (hs : spaceOk sp = true) (hn : xmlNameOk name = true) (hw : attrs.all attrOkQ = true) :
    step ('<' :: (qualName seqDflt sp name ++
        (renderSeqAttrs true (attrs.map (qualAttr seqDflt)) ++ (tagEnd e ++ rest))))
      = some (if e then [Tok.start sp name attrs, Tok.stop sp name]
              else [Tok.start sp name attrs], rest) := by
  have hq := nameLex_qual sp name hs hn
  have hl := hq.2 _ (nameStop_seqAttrs (attrs.map (qualAttr seqDflt)) e rest)
  have ha := lexAttrs_q e rest attrs
    ((renderSeqAttrs true (attrs.map (qualAttr seqDflt)) ++ (tagEnd e ++ rest)).length + 1) hw (by
      have := renderSeqAttrs_length (attrs.map (qualAttr seqDflt))
      simp only [List.length_append, List.length_map] at this ⊢; omega)
  obtain ⟨⟨c, nm, hname, hc⟩, _⟩ := hq
  have hfc := nameStart_facts hc
  rw [hname] at hl ⊢
  simp only [List.cons_append] at hl ⊢
  simp only [step, if_true, hfc.2.2.1, hfc.2.2.2.2.1, hfc.2.2.2.2.2, if_false, startTag, hl, ha]

theorem step_stop_q (sp name rest : Str) (hs : spaceOk sp = true) (hn : xmlNameOk name = true) :
    step ('<' :: '/' :: (qualName seqDflt sp name ++ '>' :: rest))
      = some ([Tok.stop sp name], rest) := by
  have hl := (nameLex_qual sp name hs hn).2 ('>' :: rest) (by simp [nameStop]; decide)
  simp [step, endTag, hl, dropSp_cons (c := '>') (by decide)]

theorem cat_open_q (sp name : Str) (attrs : List Attr) (e : Bool) (hs : spaceOk sp = true)
    (hn : xmlNameOk name = true) (hw : attrs.all attrOkQ = true) :
    Cat ('<' :: (qualName seqDflt sp name ++
        (renderSeqAttrs true (attrs.map (qualAttr seqDflt)) ++ tagEnd e)))
      (if e then [Tok.start sp name attrs, Tok.stop sp name] else [Tok.start sp name attrs]) :=
  cat_of_step (by simp) (fun r => by
    have := step_start_q sp name attrs e r hs hn hw
    simpa [List.append_assoc] using this)

theorem cat_close_q (sp name : Str) (hs : spaceOk sp = true) (hn : xmlNameOk name = true) :
    Cat ('<' :: '/' :: (qualName seqDflt sp name ++ ['>'])) [Tok.stop sp name] :=
  cat_of_step (by simp) (fun r => by
    have := step_stop_q sp name r hs hn
    simpa [List.append_assoc] using this)

/-! ### the domain and the tree induction -/

mutual
/-- `seqTokNode` with prefixes allowed: a name space is absent or an XML name -/
def seqTokNodeQ : Node → Bool
  | .elem sp name attrs kids =>
      spaceOk sp && xmlNameOk name && attrs.all attrOkQ && seqTokKidsQ kids
  | .text s => !s.isEmpty && xmlCharsOk s
  | .comment s => commentOk s
  | .procinst t i => xmlNameOk t && noLeadSp i && piTextOk i
  | .directive _ => false
def seqTokKidsQ : List Node → Bool
  | [] => true
  | k :: ks => seqTokNodeQ k && seqTokKidsQ ks
end

def SeqTokOkQ (n : Node) : Bool := seqTokNodeQ n && noAdjText n

theorem qualifyKids_isEmpty (ks : List Node) : (qualifyKids seqDflt ks).isEmpty = ks.isEmpty := by
  cases ks <;> rfl

theorem isTextNode_qualify (n : Node) : isTextNode (qualify seqDflt n) = isTextNode n := by
  cases n <;> rfl

mutual
theorem tok_seq_node_q (ge : Bool) : ∀ (n : Node) (rest : Str) (ts : List Tok),
    seqTokNodeQ n = true → noAdjText n = true → (isTextNode n = true → startsLt rest = true) →
    tokenize rest = some ts →
    tokenize (renderSeq true ge (qualify seqDflt n) ++ rest) = some (flatten n ++ ts)
  | .elem sp name attrs kids, rest, ts, hw, hadj, _, ht => by
      simp only [seqTokNodeQ, Bool.and_eq_true] at hw
      obtain ⟨⟨⟨hsp, hname⟩, hattrs⟩, hkids⟩ := hw
      simp only [noAdjText] at hadj
      simp only [qualify]
      by_cases hsc : kids = [] ∧ ge = false
      · obtain ⟨hk, hg⟩ := hsc
        subst hk hg
        have := cat_open_q sp name attrs true hsp hname hattrs rest ts ht
        simp only [qualifyKids]
        rw [renderSeq_selfclose]
        simpa [flatten, flattenKids] using this
      · have hopen : qualifyKids seqDflt kids ≠ [] ∨ ge = true := by
          by_cases hk : kids = []
          · right
            cases hg : ge with
            | true => rfl
            | false => exact absurd ⟨hk, hg⟩ hsc
          · left
            intro e
            have := qualifyKids_isEmpty kids
            rw [e] at this
            cases kids with
            | nil => exact hk rfl
            | cons _ _ => simp at this
        have h1 := cat_close_q sp name hsp hname rest ts ht
        have h2 := tok_seq_kids_q ge kids _ _ hkids hadj (by simp [startsLt, stops]) h1
        have h3 := cat_open_q sp name attrs false hsp hname hattrs _ _ h2
        rw [renderSeq_open ge [] _ _ _ hopen]
        simpa [flatten, List.append_assoc] using h3
  | .text s, rest, ts, hw, hadj, hafter, ht => by
      have := tok_seq_node ge (.text s) rest ts (by simpa [seqTokNodeQ, seqTokNode] using hw)
        hadj hafter ht
      simpa [qualify] using this
  | .comment s, rest, ts, hw, hadj, hafter, ht => by
      have := tok_seq_node ge (.comment s) rest ts (by simpa [seqTokNodeQ, seqTokNode] using hw)
        hadj hafter ht
      simpa [qualify] using this
  | .procinst t i, rest, ts, hw, hadj, hafter, ht => by
      have := tok_seq_node ge (.procinst t i) rest ts
        (by simpa [seqTokNodeQ, seqTokNode] using hw) hadj hafter ht
      simpa [qualify] using this
  | .directive s, _, _, hw, _, _, _ => by simp [seqTokNodeQ] at hw
theorem tok_seq_kids_q (ge : Bool) : ∀ (ks : List Node) (rest : Str) (ts : List Tok),
    seqTokKidsQ ks = true → noAdjTextKids ks = true → startsLt rest = true →
    tokenize rest = some ts →
    tokenize (renderSeqKids true ge (qualifyKids seqDflt ks) ++ rest)
      = some (flattenKids ks ++ ts)
  | [], rest, ts, _, _, _, ht => by simpa [qualifyKids, renderSeqKids, flattenKids] using ht
  | k :: ks, rest, ts, hw, hadj, hrest, ht => by
      simp only [seqTokKidsQ, Bool.and_eq_true] at hw
      have ih := tok_seq_kids_q ge ks rest ts hw.2 (noAdjKids_tail hadj) hrest ht
      have hafter : isTextNode k = true →
          startsLt (renderSeqKids true ge (qualifyKids seqDflt ks) ++ rest) = true := by
        intro hkt
        cases k with
        | text r =>
          cases ks with
          | nil => simpa [qualifyKids, renderSeqKids] using hrest
          | cons k2 ks3 =>
            have hnt : isTextNode k2 = false := by
              cases k2 with
              | text s' => exact absurd rfl (noAdjKids_text hadj s' ks3)
              | _ => rfl
            simp only [qualifyKids, renderSeqKids, List.append_assoc]
            exact startsLt_seq ge _ _ (by rw [isTextNode_qualify]; exact hnt)
        | elem _ _ _ _ => simp [isTextNode] at hkt
        | comment _ => simp [isTextNode] at hkt
        | procinst _ _ => simp [isTextNode] at hkt
        | directive _ => simp [isTextNode] at hkt
      have h := tok_seq_node_q ge k (renderSeqKids true ge (qualifyKids seqDflt ks) ++ rest)
        (flattenKids ks ++ ts) hw.1 (noAdjKids_head hadj) hafter ih
      simpa [qualifyKids, renderSeqKids, flattenKids, List.append_assoc] using h
end

/-- the tokenizer inverts `renderSeq ∘ qualify`: the prefixes come back as name spaces -/
theorem tokenize_renderSeq_q (ge : Bool) (n : Node) (h : SeqTokOkQ n = true) :
    tokenize (renderSeq true ge (qualify seqDflt n)) = some (flatten n) := by
  simp only [SeqTokOkQ, Bool.and_eq_true] at h
  have := tok_seq_node_q ge n [] [] h.1 h.2 (fun _ => rfl) rfl
  simpa using this

end Mxj.Tokz
