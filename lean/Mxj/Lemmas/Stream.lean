/-
  Mxj.Lemmas.Stream — facts about the byte adaptors (`readByte`, `drain`, `teeReadByte`) and the
  `getJson` scanner of Mxj.Model.Stream, used by Mxj.Props.C13.

  Contents:
    * `upToEnd`, `endErr`, `NoFail`, `Tame` : schedule vocabulary
    * `drain_eq`                       : what the adaptor delivers, for every schedule
    * `getJson_sched_free`             : result and unread bytes depend on the bytes only
    * `Item`/`StrCh`, `flat`, `flatNoWs` : a generator of JSON-object-like texts, independent
                                         of the scanner; `getJson_obj` : the scanner returns
                                         exactly the object and leaves the rest unread
    * `readAll`                        : iterate `getJson` until it stops returning documents
-/
import Mxj.Model.Stream
namespace Mxj.Stream
open Mxj

/-! ### schedule vocabulary -/

/-- the prefix of a schedule before its first (0, EOF) / (0, error) entry -/
def upToEnd : Sched → Sched
  | [] => []
  | .zeroEof :: _ => []
  | .fail :: _ => []
  | r :: rest => r :: upToEnd rest

/-- the error the first (0, EOF) / (0, error) entry carries; the exhausted reader says EOF -/
def endErr : Sched → RdErr
  | [] => .eof
  | .zeroEof :: _ => .eof
  | .fail :: _ => .other
  | _ :: rest => endErr rest

/-- no (0, error) entry -/
def NoFail (s : Sched) : Prop := ∀ r ∈ s, r ≠ Rd.fail

/-- `(0, io.EOF)` or `(0, error)` -/
def Rd.isEnd : Rd → Bool
  | .zeroEof => true
  | .fail => true
  | _ => false

/-- well formed: after a byte delivered together with io.EOF only (0,EOF)/(0,error) follow -/
def WF : Sched → Bool
  | [] => true
  | .byte _ true :: rest => rest.all Rd.isEnd
  | _ :: rest => WF rest

/-- no byte is delivered after a (0, EOF) or (0, error) read -/
def EndsOnce : Sched → Bool
  | [] => true
  | .zeroEof :: rest => (bytesOf rest).isEmpty
  | .fail :: rest => (bytesOf rest).isEmpty
  | _ :: rest => EndsOnce rest

/-- tame for the scanner: no (0, error) entry is reached and no byte follows a (0, EOF) entry
    (the scanner stops at the first (0, EOF); what follows it is never read) -/
def Tame : Sched → Bool
  | [] => true
  | .fail :: _ => false
  | .zeroEof :: rest => (bytesOf rest).isEmpty
  | _ :: rest => Tame rest

theorem bytesOf_append (a b : Sched) : bytesOf (a ++ b) = bytesOf a ++ bytesOf b := by
  induction a with
  | nil => rfl
  | cons r a ih => cases r <;> simp [bytesOf, ih]

theorem bytesOf_plain (s : Str) : bytesOf (plain s) = s := by
  induction s with
  | nil => rfl
  | cons c s ih => simp only [plain, List.map_cons, bytesOf]; exact congrArg _ ih

theorem plain_nil : plain [] = [] := rfl
theorem plain_cons (c : Char) (s : Str) : plain (c :: s) = .byte c false :: plain s := rfl
theorem plain_append (a b : Str) : plain (a ++ b) = plain a ++ plain b := by
  simp [plain]

/-- the natural-language side condition implies `Tame` -/
theorem tame_of (s : Sched) (h1 : NoFail s)
    (h2 : ∀ a b, s = a ++ Rd.zeroEof :: b → bytesOf b = []) : Tame s = true := by
  induction s with
  | nil => rfl
  | cons r s ih =>
    have h1' : NoFail s := fun x hx => h1 x (List.mem_cons_of_mem _ hx)
    have h2' : ∀ a b, s = a ++ Rd.zeroEof :: b → bytesOf b = [] := fun a b e =>
      h2 (r :: a) b (by rw [e]; rfl)
    cases r with
    | byte c e => simpa [Tame] using ih h1' h2'
    | zero => simpa [Tame] using ih h1' h2'
    | zeroEof => simp [Tame, h2 [] s rfl]
    | fail => exact absurd rfl (h1 Rd.fail (List.mem_cons_self ..))

/-! ### the byte adaptor -/

theorem drain_zero_cons (f : Nat) (s : Sched) : drain (f + 1) (.zero :: s) = drain (f + 1) s := by
  simp [drain, readByte]

/-- what `ReadByte` delivers until its first error, and that error — for EVERY schedule -/
theorem drain_eq (s : Sched) : ∀ n, s.length < n → drain n s = (bytesOf (upToEnd s), endErr s) := by
  induction s with
  | nil => intro n hn; cases n with
    | zero => simp at hn
    | succ f => simp [drain, readByte, upToEnd, endErr, bytesOf]
  | cons r s ih =>
    intro n hn
    cases n with
    | zero => simp at hn
    | succ f =>
      have hf : s.length < f := by simp at hn; omega
      cases r with
      | byte c e => simp [drain, readByte, upToEnd, endErr, bytesOf, ih f hf]
      | zero =>
        rw [drain_zero_cons, ih (f + 1) (by omega)]
        simp [upToEnd, endErr, bytesOf]
      | zeroEof => simp [drain, readByte, upToEnd, endErr, bytesOf]
      | fail => simp [drain, readByte, upToEnd, endErr, bytesOf]

theorem endErr_noFail (s : Sched) (h : NoFail s) : endErr s = .eof := by
  induction s with
  | nil => rfl
  | cons r s ih =>
    have h' : NoFail s := fun x hx => h x (List.mem_cons_of_mem _ hx)
    cases r with
    | byte c e => simpa [endErr] using ih h'
    | zero => simpa [endErr] using ih h'
    | zeroEof => rfl
    | fail => exact absurd rfl (h Rd.fail (List.mem_cons_self ..))

theorem upToEnd_noEnd (s : Sched) (h : ∀ r ∈ s, r.isEnd = false) : upToEnd s = s := by
  induction s with
  | nil => rfl
  | cons r s ih =>
    have h' := ih (fun x hx => h x (List.mem_cons_of_mem _ hx))
    have hr := h r (List.mem_cons_self ..)
    cases r with
    | byte c e => simp [upToEnd, h']
    | zero => simp [upToEnd, h']
    | zeroEof => simp [Rd.isEnd] at hr
    | fail => simp [Rd.isEnd] at hr

theorem upToEnd_append_noEnd (a b : Sched) (h : ∀ r ∈ a, r.isEnd = false) :
    upToEnd (a ++ b) = a ++ upToEnd b := by
  induction a with
  | nil => rfl
  | cons r a ih =>
    have h' := ih (fun x hx => h x (List.mem_cons_of_mem _ hx))
    have hr := h r (List.mem_cons_self ..)
    cases r with
    | byte c e => simp [upToEnd, h']
    | zero => simp [upToEnd, h']
    | zeroEof => simp [Rd.isEnd] at hr
    | fail => simp [Rd.isEnd] at hr

theorem upToEnd_allEnd (s : Sched) (h : s.all Rd.isEnd = true) : upToEnd s = [] := by
  cases s with
  | nil => rfl
  | cons r s =>
    cases r with
    | byte c e => simp [Rd.isEnd] at h
    | zero => simp [Rd.isEnd] at h
    | zeroEof => rfl
    | fail => rfl

theorem bytesOf_upToEnd_nil (s : Sched) (h : bytesOf s = []) : bytesOf (upToEnd s) = [] := by
  induction s with
  | nil => rfl
  | cons r s ih =>
    cases r with
    | byte c e => simp [bytesOf] at h
    | zero => simp only [bytesOf] at h; simpa [upToEnd, bytesOf] using ih h
    | zeroEof => rfl
    | fail => rfl

theorem bytesOf_upToEnd (s : Sched) (h : EndsOnce s = true) : bytesOf (upToEnd s) = bytesOf s := by
  induction s with
  | nil => rfl
  | cons r s ih =>
    cases r with
    | byte c e => simp only [EndsOnce] at h; simp [upToEnd, bytesOf, ih h]
    | zero => simp only [EndsOnce] at h; simp [upToEnd, bytesOf, ih h]
    | zeroEof => simp only [EndsOnce, List.isEmpty_iff] at h; simp [upToEnd, bytesOf, h]
    | fail => simp only [EndsOnce, List.isEmpty_iff] at h; simp [upToEnd, bytesOf, h]

/-- in a well-formed schedule a byte delivered with io.EOF is followed by end entries only -/
theorem wf_after_eof_byte (a : Sched) (b : Char) (r : Sched)
    (h : WF (a ++ .byte b true :: r) = true) : r.all Rd.isEnd = true := by
  induction a with
  | nil => simpa [WF] using h
  | cons x a ih =>
    cases x with
    | byte c e =>
      cases e with
      | false => exact ih (by simpa [WF] using h)
      | true => simp [WF, Rd.isEnd] at h
    | zero => exact ih (by simpa [WF] using h)
    | zeroEof => exact ih (by simpa [WF] using h)
    | fail => exact ih (by simpa [WF] using h)

/-! ### the scanner, one byte at a time -/

/-- what one delivered byte does to the scanner: stop with a result, or go on in a new state
    (the body of the loop of `getJson`, verbatim) -/
def stepJ (c : Char) (st : JState) : JRes ⊕ JState :=
  let wasEscaped := st.escaped
  let escaped := st.inQuote && !wasEscaped && c = '\\'
  if c = '{' then
    let st' := if !st.inQuote then { st with paren := st.paren + 1, inJson := true } else st
    .inr { st' with jb := (if st'.inJson then c :: st'.jb else st'.jb), escaped := escaped }
  else if c = '}' then
    if !st.inQuote && st.paren = 0 then .inl (.stray st.jb.reverse)
    else
      let p := if !st.inQuote then st.paren - 1 else st.paren
      let jb := if st.inJson then c :: st.jb else st.jb
      if st.inJson && p = 0 then .inl (.doc jb.reverse)
      else .inr { st with paren := p, jb := jb, escaped := escaped }
  else if c = '"' then
    let inQ := if st.inQuote then (if wasEscaped then true else false) else true
    .inr { st with inQuote := inQ, jb := (if st.inJson then c :: st.jb else st.jb), escaped := escaped }
  else if isJsonWs c && !st.inQuote then
    .inr { st with escaped := escaped }
  else
    .inr { st with jb := (if st.inJson then c :: st.jb else st.jb), escaped := escaped }

/-- the result at end of input / at a (0, EOF) read -/
def endRes (st : JState) : JRes :=
  if st.inJson && st.paren > 0 then .noClose st.jb.reverse else .eof st.jb.reverse

theorem getJson_byte (c : Char) (e : Bool) (rest : Sched) (st : JState) :
    getJson (.byte c e :: rest) st =
      match stepJ c st with
      | .inl r => (r, rest)
      | .inr st' => getJson rest st' := by
  rw [getJson]
  unfold stepJ
  simp only []
  repeat' split
  all_goals first | rfl | simp_all

theorem getJson_nil (st : JState) : getJson [] st = (endRes st, []) := by
  simp [getJson, endRes]
theorem getJson_zero (rest : Sched) (st : JState) : getJson (.zero :: rest) st = getJson rest st := by
  simp [getJson]
theorem getJson_zeroEof (rest : Sched) (st : JState) :
    getJson (.zeroEof :: rest) st = (endRes st, rest) := by
  simp [getJson, endRes]
theorem getJson_fail (rest : Sched) (st : JState) :
    getJson (.fail :: rest) st = (.ioerr st.jb.reverse, rest) := by
  simp [getJson]

/-- the scanner's result, and the bytes it leaves unread, depend on the delivered bytes only -/
theorem getJson_sched_free (s : Sched) : ∀ st, Tame s = true →
    (getJson s st).1 = (getJson (plain (bytesOf s)) st).1 ∧
    bytesOf (getJson s st).2 = bytesOf (getJson (plain (bytesOf s)) st).2 := by
  induction s with
  | nil => intro st _; exact ⟨rfl, rfl⟩
  | cons r s ih =>
    intro st ht
    cases r with
    | byte c e =>
      have ht' : Tame s = true := by simpa [Tame] using ht
      simp only [bytesOf, plain_cons, getJson_byte]
      cases stepJ c st with
      | inl r => simp [bytesOf_plain]
      | inr st' => exact ih st' ht'
    | zero =>
      have ht' : Tame s = true := by simpa [Tame] using ht
      simp only [bytesOf, getJson_zero]
      exact ih st ht'
    | zeroEof =>
      have hb : bytesOf s = [] := by simpa [Tame] using ht
      simp [bytesOf, getJson_zeroEof, hb, plain_nil, getJson_nil]
    | fail => simp [Tame] at ht

/-- the unread schedule is a suffix of the schedule -/
theorem getJson_suffix (s : Sched) : ∀ st, (getJson s st).2 <:+ s := by
  induction s with
  | nil => intro st; simp [getJson_nil]
  | cons r s ih =>
    intro st
    cases r with
    | byte c e =>
      rw [getJson_byte]
      cases stepJ c st with
      | inl r => exact List.suffix_cons _ _
      | inr st' => exact (ih st').trans (List.suffix_cons _ _)
    | zero => rw [getJson_zero]; exact (ih st).trans (List.suffix_cons _ _)
    | zeroEof => rw [getJson_zeroEof]; exact List.suffix_cons _ _
    | fail => rw [getJson_fail]; exact List.suffix_cons _ _

/-- when a document is returned the unread schedule is still tame -/
theorem getJson_doc_tame (s : Sched) : ∀ st raw, Tame s = true → (getJson s st).1 = .doc raw →
    Tame (getJson s st).2 = true := by
  induction s with
  | nil => intro st raw _ _; rfl
  | cons r s ih =>
    intro st raw ht
    cases r with
    | byte c e =>
      have ht' : Tame s = true := by simpa [Tame] using ht
      rw [getJson_byte]
      cases stepJ c st with
      | inl r => intro _; exact ht'
      | inr st' => exact ih st' raw ht'
    | zero =>
      rw [getJson_zero]; exact ih st raw (by simpa [Tame] using ht)
    | zeroEof =>
      rw [getJson_zeroEof]; unfold endRes; split <;> simp
    | fail => simp [Tame] at ht

/-- on a plain schedule the unread part is plain -/
theorem getJson_plain_rest (x : Str) : ∀ st, ∃ y, (getJson (plain x) st).2 = plain y := by
  induction x with
  | nil => intro st; exact ⟨[], by simp [plain_nil, getJson_nil]⟩
  | cons c x ih =>
    intro st
    rw [plain_cons, getJson_byte]
    cases stepJ c st with
    | inl r => exact ⟨x, rfl⟩
    | inr st' => exact ih st'

/-! ### a generator of object texts (independent of the scanner) -/

/-- a character that may stand outside strings: not a brace, not a quote, not white space -/
def isPlainCh (c : Char) : Bool := c != '{' && c != '}' && c != '"' && !isJsonWs c

/-- one character of a string body: an ordinary character (anything except the quote and the
    backslash — braces and white space included), or a backslash escape of ANY character -/
inductive StrCh where
  | plain (c : Char) (h : c ≠ '"' ∧ c ≠ '\\')
  | esc (c : Char)

/-- the pieces of an object text between its braces -/
inductive Item where
  | ch (c : Char) (h : isPlainCh c = true)
  | ws (c : Char) (h : isJsonWs c = true)
  | str (body : List StrCh)
  | obj (items : List Item)

def StrCh.flat : StrCh → Str
  | .plain c _ => [c]
  | .esc c => ['\\', c]

def flatBody : List StrCh → Str
  | [] => []
  | x :: xs => x.flat ++ flatBody xs

mutual
/-- the text of an item -/
def flat : Item → Str
  | .ch c _ => [c]
  | .ws c _ => [c]
  | .str b => '"' :: flatBody b ++ ['"']
  | .obj items => '{' :: flatList items ++ ['}']
def flatList : List Item → Str
  | [] => []
  | i :: is => flat i ++ flatList is
end

mutual
/-- the text of an item with the white space outside strings dropped -/
def flatNoWs : Item → Str
  | .ch c _ => [c]
  | .ws _ _ => []
  | .str b => '"' :: flatBody b ++ ['"']
  | .obj items => '{' :: flatNoWsList items ++ ['}']
def flatNoWsList : List Item → Str
  | [] => []
  | i :: is => flatNoWs i ++ flatNoWsList is
end

/-- scanner state inside an object at nesting depth `p + 1`, outside strings -/
def inObj (jb : Str) (p : Nat) : JState := ⟨jb, false, true, p + 1, false⟩
/-- inside a string of an object at nesting depth `p + 1` -/
def inStr (jb : Str) (p : Nat) (esc : Bool) : JState := ⟨jb, true, true, p + 1, esc⟩

theorem step_str_plain (c : Char) (h : c ≠ '"' ∧ c ≠ '\\') (jb : Str) (p : Nat) :
    stepJ c (inStr jb p false) = .inr (inStr (c :: jb) p false) := by
  obtain ⟨h1, h2⟩ := h
  by_cases h3 : c = '{'
  · subst h3; simp [stepJ, inStr]
  · by_cases h4 : c = '}'
    · subst h4; simp [stepJ, inStr]
    · simp [stepJ, inStr, h1, h2, h3, h4]

theorem step_str_bs (jb : Str) (p : Nat) :
    stepJ '\\' (inStr jb p false) = .inr (inStr ('\\' :: jb) p true) := by
  simp [stepJ, inStr]

theorem step_str_escaped (c : Char) (jb : Str) (p : Nat) :
    stepJ c (inStr jb p true) = .inr (inStr (c :: jb) p false) := by
  by_cases h3 : c = '{'
  · subst h3; simp [stepJ, inStr]
  · by_cases h4 : c = '}'
    · subst h4; simp [stepJ, inStr]
    · by_cases h5 : c = '"'
      · subst h5; simp [stepJ, inStr]
      · simp [stepJ, inStr, h3, h4, h5]

theorem step_str_close (jb : Str) (p : Nat) :
    stepJ '"' (inStr jb p false) = .inr (inObj ('"' :: jb) p) := by
  simp [stepJ, inStr, inObj]

theorem step_str_open (jb : Str) (p : Nat) :
    stepJ '"' (inObj jb p) = .inr (inStr ('"' :: jb) p false) := by
  simp [stepJ, inStr, inObj]

theorem step_ch (c : Char) (h : isPlainCh c = true) (jb : Str) (p : Nat) :
    stepJ c (inObj jb p) = .inr (inObj (c :: jb) p) := by
  simp only [isPlainCh, Bool.and_eq_true, bne_iff_ne, ne_eq, Bool.not_eq_true'] at h
  obtain ⟨⟨⟨h1, h2⟩, h3⟩, h4⟩ := h
  simp [stepJ, inObj, h1, h2, h3, h4]

theorem step_ws (c : Char) (h : isJsonWs c = true) (jb : Str) (p : Nat) :
    stepJ c (inObj jb p) = .inr (inObj jb p) := by
  have h1 : c ≠ '{' := by rintro rfl; simp [isJsonWs] at h
  have h2 : c ≠ '}' := by rintro rfl; simp [isJsonWs] at h
  have h3 : c ≠ '"' := by rintro rfl; simp [isJsonWs] at h
  simp [stepJ, inObj, h1, h2, h3, h]

theorem step_open (jb : Str) (p : Nat) :
    stepJ '{' (inObj jb p) = .inr (inObj ('{' :: jb) (p + 1)) := by
  simp [stepJ, inObj]

theorem step_close (jb : Str) (p : Nat) :
    stepJ '}' (inObj jb (p + 1)) = .inr (inObj ('}' :: jb) p) := by
  simp [stepJ, inObj]

theorem step_close_last (jb : Str) :
    stepJ '}' (inObj jb 0) = .inl (.doc ('}' :: jb).reverse) := by
  simp [stepJ, inObj]

theorem step_first_open : stepJ '{' {} = .inr (inObj ['{'] 0) := by
  simp [stepJ, inObj]

/-- before the first '{' everything except braces and quotes is skipped -/
theorem step_lead (c : Char) (h : c ≠ '{' ∧ c ≠ '}' ∧ c ≠ '"') : stepJ c {} = .inr {} := by
  obtain ⟨h1, h2, h3⟩ := h
  simp [stepJ, h1, h2, h3]

/-! ### the scanner on generated texts -/

theorem getJson_plain_cons (c : Char) (x : Str) (st : JState) :
    getJson (plain (c :: x)) st =
      match stepJ c st with
      | .inl r => (r, plain x)
      | .inr st' => getJson (plain x) st' := by
  rw [plain_cons, getJson_byte]

/-- a string body up to and including its closing quote -/
theorem scan_body (body : List StrCh) : ∀ (jb : Str) (p : Nat) (k : Str),
    getJson (plain (flatBody body ++ '"' :: k)) (inStr jb p false)
      = getJson (plain k) (inObj ('"' :: ((flatBody body).reverse ++ jb)) p) := by
  induction body with
  | nil => intro jb p k; simp [flatBody, getJson_plain_cons, step_str_close]
  | cons x xs ih =>
    intro jb p k
    cases x with
    | plain c h =>
      simp only [flatBody, StrCh.flat, List.cons_append, List.nil_append, getJson_plain_cons,
        step_str_plain c h, ih]
      simp
    | esc c =>
      simp only [flatBody, StrCh.flat, List.cons_append, List.nil_append, getJson_plain_cons,
        step_str_bs, step_str_escaped, ih]
      simp

mutual
/-- one item inside an object: the scanner appends its text minus outer white space and stays
    at the same depth, outside strings -/
theorem scan_item : ∀ (i : Item) (jb : Str) (p : Nat) (k : Str),
    getJson (plain (flat i ++ k)) (inObj jb p)
      = getJson (plain k) (inObj ((flatNoWs i).reverse ++ jb) p)
  | .ch c h, jb, p, k => by
      simp [flat, flatNoWs, getJson_plain_cons, step_ch c h]
  | .ws c h, jb, p, k => by
      simp [flat, flatNoWs, getJson_plain_cons, step_ws c h]
  | .str b, jb, p, k => by
      simp only [flat, flatNoWs, List.cons_append, List.append_assoc, List.nil_append,
        getJson_plain_cons, step_str_open, scan_body]
      simp
  | .obj items, jb, p, k => by
      simp only [flat, flatNoWs, List.cons_append, List.append_assoc, List.nil_append,
        getJson_plain_cons, step_open, scan_items items, step_close]
      simp
theorem scan_items : ∀ (is : List Item) (jb : Str) (p : Nat) (k : Str),
    getJson (plain (flatList is ++ k)) (inObj jb p)
      = getJson (plain k) (inObj ((flatNoWsList is).reverse ++ jb) p)
  | [], jb, p, k => by simp [flatList, flatNoWsList]
  | i :: is, jb, p, k => by
      simp only [flatList, flatNoWsList, List.append_assoc, scan_item i, scan_items is]
      simp
end

theorem scan_lead (lead : Str) (h : ∀ c ∈ lead, c ≠ '{' ∧ c ≠ '}' ∧ c ≠ '"') (k : Str) :
    getJson (plain (lead ++ k)) {} = getJson (plain k) {} := by
  induction lead with
  | nil => rfl
  | cons c l ih =>
    rw [List.cons_append, getJson_plain_cons, step_lead c (h c (List.mem_cons_self ..))]
    exact ih (fun x hx => h x (List.mem_cons_of_mem _ hx))

/-- a whole object from the initial state -/
theorem getJson_obj (lead : Str) (hlead : ∀ c ∈ lead, c ≠ '{' ∧ c ≠ '}' ∧ c ≠ '"')
    (items : List Item) (rest : Str) :
    getJson (plain (lead ++ flat (.obj items) ++ rest)) {}
      = (.doc (flatNoWs (.obj items)), plain rest) := by
  rw [List.append_assoc, scan_lead lead hlead]
  simp only [flat, flatNoWs, List.cons_append, List.append_assoc, List.nil_append,
    getJson_plain_cons, step_first_open, scan_items items, step_close_last]
  simp

/-- only skippable characters up to the end of input: EOF with nothing collected -/
theorem getJson_trail (trail : Str) (h : ∀ c ∈ trail, c ≠ '{' ∧ c ≠ '}' ∧ c ≠ '"') :
    getJson (plain trail) {} = (.eof [], []) := by
  have := scan_lead trail h []
  rw [List.append_nil] at this
  rw [this]; simp [plain_nil, getJson_nil, endRes]

/-! ### reading a stream of documents -/

/-- call `getJson` from the initial state until it returns something else than a document;
    result: the documents in order and the final non-document result -/
def readAll : Nat → Sched → List Str × Option JRes
  | 0, _ => ([], none)
  | f + 1, s =>
    match getJson s {} with
    | (.doc raw, rest) => let (ds, e) := readAll f rest; (raw :: ds, e)
    | (r, _) => ([], some r)

/-- the text of a stream of documents: each an object preceded by skippable characters -/
def docsText : List (Str × List Item) → Str
  | [] => []
  | d :: ds => d.1 ++ flat (.obj d.2) ++ docsText ds

theorem readAll_docs (docs : List (Str × List Item))
    (hlead : ∀ d ∈ docs, ∀ c ∈ d.1, c ≠ '{' ∧ c ≠ '}' ∧ c ≠ '"')
    (trail : Str) (htrail : ∀ c ∈ trail, c ≠ '{' ∧ c ≠ '}' ∧ c ≠ '"') :
    ∀ n, docs.length < n →
      readAll n (plain (docsText docs ++ trail))
        = (docs.map (fun d => flatNoWs (.obj d.2)), some (.eof [])) := by
  induction docs with
  | nil =>
    intro n hn
    cases n with
    | zero => simp at hn
    | succ f => simp [docsText, readAll, getJson_trail trail htrail]
  | cons d ds ih =>
    intro n hn
    cases n with
    | zero => simp at hn
    | succ f =>
      have hf : ds.length < f := by simp at hn; omega
      have h1 := getJson_obj d.1 (hlead d (List.mem_cons_self ..)) d.2 (docsText ds ++ trail)
      simp only [docsText, List.append_assoc] at h1 ⊢
      simp only [readAll, h1, ih (fun x hx => hlead x (List.mem_cons_of_mem _ hx)) f hf,
        List.map_cons]

/-- `readAll` does not depend on the delivery schedule either -/
theorem readAll_sched_free : ∀ (n : Nat) (s : Sched), Tame s = true →
    readAll n s = readAll n (plain (bytesOf s)) := by
  intro n
  induction n with
  | zero => intro s _; rfl
  | succ f ih =>
    intro s hs
    have h := getJson_sched_free s {} hs
    obtain ⟨y, hy⟩ := getJson_plain_rest (bytesOf s) {}
    have hd := getJson_doc_tame s {}
    simp only [readAll]
    generalize getJson s {} = a at h hd
    generalize getJson (plain (bytesOf s)) {} = b at h hy
    obtain ⟨r1, s1⟩ := a
    obtain ⟨r2, s2⟩ := b
    simp only at h hy hd
    obtain ⟨h1, h2⟩ := h
    subst h1 hy
    rw [bytesOf_plain] at h2
    cases r1 with
    | doc raw =>
      simp only
      rw [ih s1 (hd raw hs rfl), h2]
    | eof raw => rfl
    | noClose raw => rfl
    | stray raw => rfl
    | ioerr raw => rfl

end Mxj.Stream
