/-
  Mxj.Lemmas.Escape — `escapeChars` (sequential replace over the regenerated table) is a
  single-pass character map, and the tokenizer's entity expansion inverts it.
-/
import Mxj.Model.Escape
import Mxj.Lemmas.PathIdx
namespace Mxj

/-! ### `replaceAll` with a one-character pattern is a character-wise map -/

theorem splitGo1_ne_nil (d : Char) : ∀ (s acc : Str), splitGo [d] s 0 acc ≠ [] := by
  intro s
  induction s with
  | nil => intro acc; simp [splitGo1_nil]
  | cons c cs ih =>
    intro acc
    by_cases h : c = d
    · subst h; rw [splitGo1_sep]; simp
    · rw [splitGo1_ne d c cs acc h]; exact ih _

theorem joinWith_cons_of_ne_nil (sep x : Str) (l : List Str) (h : l ≠ []) :
    joinWith sep (x :: l) = x ++ sep ++ joinWith sep l := by
  cases l with
  | nil => exact absurd rfl h
  | cons y r => simp [joinWith]

/-- what `replaceAll [c] r` does to one character -/
def repOne (c : Char) (r : Str) (ch : Char) : Str := if ch = c then r else [ch]

theorem joinWith_splitGo1 (c : Char) (r : Str) : ∀ (s acc : Str),
    joinWith r (splitGo [c] s 0 acc) = acc.reverse ++ s.flatMap (repOne c r) := by
  intro s
  induction s with
  | nil => intro acc; simp [splitGo1_nil, joinWith]
  | cons ch cs ih =>
    intro acc
    by_cases h : ch = c
    · subst h
      rw [splitGo1_sep, joinWith_cons_of_ne_nil _ _ _ (splitGo1_ne_nil _ _ _), ih]
      simp [repOne]
    · rw [splitGo1_ne c ch cs acc h, ih]
      simp [repOne, h]

theorem replaceAll_single (c : Char) (r s : Str) :
    replaceAll [c] r s = s.flatMap (repOne c r) := by
  unfold replaceAll splitOn
  rw [joinWith_splitGo1]; simp

theorem replaceAll_single_nil (c : Char) (r : Str) : replaceAll [c] r [] = [] := by
  simp [replaceAll_single]

theorem replaceAll_single_cons (c : Char) (r : Str) (x : Char) (xs : Str) :
    replaceAll [c] r (x :: xs) = (if x = c then r else [x]) ++ replaceAll [c] r xs := by
  simp [replaceAll_single, repOne]

theorem replaceAll_single_append (c : Char) (r : Str) (xs ys : Str) :
    replaceAll [c] r (xs ++ ys) = replaceAll [c] r xs ++ replaceAll [c] r ys := by
  simp [replaceAll_single]

/-! ### the table, unfolded -/

/-- the fold over the regenerated table (this lemma breaks if the table changes) -/
theorem escapeWith_table (s : Str) :
    escapeWith Generated.escapeTable s =
      replaceAll ['\''] "&apos;".toList (replaceAll ['"'] "&quot;".toList
        (replaceAll ['>'] "&gt;".toList (replaceAll ['<'] "&lt;".toList
          (replaceAll ['&'] "&amp;".toList s)))) := by
  simp only [escapeWith, Generated.escapeTable, List.foldl]
  rfl

theorem escapeWith_table_nil : escapeWith Generated.escapeTable [] = [] := by
  rw [escapeWith_table]; simp only [replaceAll_single_nil]

theorem escapeWith_table_cons (c : Char) (s : Str) :
    escapeWith Generated.escapeTable (c :: s) = escOne c ++ escapeWith Generated.escapeTable s := by
  rw [escapeWith_table, escapeWith_table]
  unfold escOne
  by_cases h1 : c = '&'
  · subst h1; simp [replaceAll_single_cons]
  · by_cases h2 : c = '<'
    · subst h2; simp [replaceAll_single_cons]
    · by_cases h3 : c = '>'
      · subst h3; simp [replaceAll_single_cons]
      · by_cases h4 : c = '"'
        · subst h4; simp [replaceAll_single_cons]
        · by_cases h5 : c = '\''
          · subst h5; simp [replaceAll_single_cons]
          · simp [replaceAll_single_cons, h1, h2, h3, h4, h5]

theorem escapeWith_table_flatMap (s : Str) :
    escapeWith Generated.escapeTable s = s.flatMap escOne := by
  induction s with
  | nil => simp [escapeWith_table_nil]
  | cons c s ih => rw [escapeWith_table_cons, ih]; simp

theorem escapeChars_flatMap (s : Str) : escapeChars s = s.flatMap escOne := by
  unfold escapeChars
  cases s with
  | nil => simp
  | cons c s => simp only [List.isEmpty_cons, Bool.false_eq_true, if_false]; exact escapeWith_table_flatMap _

theorem escapeChars_nil : escapeChars [] = [] := by simp [escapeChars_flatMap]

theorem escapeChars_cons (c : Char) (s : Str) : escapeChars (c :: s) = escOne c ++ escapeChars s := by
  simp [escapeChars_flatMap]

theorem escapeChars_append (a b : Str) : escapeChars (a ++ b) = escapeChars a ++ escapeChars b := by
  simp [escapeChars_flatMap]

/-! ### the five special characters -/

def special (c : Char) : Bool := c = '&' || c = '<' || c = '>' || c = '"' || c = '\''

theorem escOne_plain {c : Char} (h : special c = false) : escOne c = [c] := by
  simp [special] at h; simp [escOne, h]

theorem escOne_special {c : Char} (h : special c = true) (rest : Str) :
    ∃ t, escOne c ++ rest = '&' :: t ∧ matchRef (escOne c ++ rest) = some (c, rest) := by
  simp [special] at h
  rcases h with (((h | h) | h) | h) | h <;> subst h <;>
    exact ⟨_, rfl, by simp [escOne, matchRef, namedEnts, List.findSome?]⟩

theorem escOne_length_pos (c : Char) : 1 ≤ (escOne c).length := by
  unfold escOne
  split <;> (try split) <;> (try split) <;> (try split) <;> (try split) <;> simp

/-- any fuel ≥ the length of the escaped text suffices -/
theorem unescF_escape : ∀ (s : Str) (f : Nat), (s.flatMap escOne).length ≤ f →
    unescF f (s.flatMap escOne) = some s := by
  intro s
  induction s with
  | nil => intro f _; cases f <;> simp [unescF]
  | cons c s ih =>
    intro f hf
    simp only [List.flatMap_cons, List.length_append] at hf ⊢
    have hpos := escOne_length_pos c
    cases f with
    | zero => omega
    | succ f =>
      have hf' : (s.flatMap escOne).length ≤ f := by omega
      have ih' := ih f hf'
      cases hs : special c with
      | false =>
        have hc : c ≠ '&' ∧ c ≠ '<' := by
          simp [special] at hs; exact ⟨hs.1.1.1.1, hs.1.1.1.2⟩
        rw [escOne_plain hs]
        simp [unescF, hc.1, hc.2, ih']
      | true =>
        obtain ⟨t, ht, hm⟩ := escOne_special hs (s.flatMap escOne)
        rw [ht] at hm ⊢
        simp [unescF, hm, ih']

theorem unesc_escapeChars (s : Str) : unesc (escapeChars s) = some s := by
  unfold unesc
  rw [escapeChars_flatMap]
  exact unescF_escape s _ (Nat.le_succ _)

/-! ### shape of the escaped text -/

theorem escOne_no_specials (a c : Char) (h : c ∈ escOne a) :
    c ≠ '<' ∧ c ≠ '>' ∧ c ≠ '"' ∧ c ≠ '\'' := by
  cases hs : special a with
  | false =>
    rw [escOne_plain hs] at h
    simp at h; subst h
    simp [special] at hs
    exact ⟨hs.1.1.1.2, hs.1.1.2, hs.1.2, hs.2⟩
  | true =>
    simp [special] at hs
    revert c
    rcases hs with (((e | e) | e) | e) | e <;> subst e <;> decide

/-- the five entity texts -/
def entityTexts : List Str := namedEnts.map (·.1)

theorem escOne_suffix_amp (a : Char) (rest t : Str)
    (h : ('&' :: t) <:+ escOne a ++ rest) :
    ('&' :: t) <:+ rest ∨ (special a = true ∧ '&' :: t = escOne a ++ rest) := by
  cases hs : special a with
  | false =>
    rw [escOne_plain hs] at h
    simp only [List.singleton_append, List.suffix_cons_iff] at h
    rcases h with h | h
    · simp [special] at hs
      exact absurd (List.cons.inj h).1.symm hs.1.1.1.1
    · exact Or.inl h
  | true =>
    simp [special] at hs
    rcases hs with (((e | e) | e) | e) | e <;> subst e <;>
      simp [escOne, List.suffix_cons_iff] at h ⊢ <;> exact h.symm

end Mxj
