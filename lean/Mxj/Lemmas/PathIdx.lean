/-
  Mxj.Lemmas.PathIdx — the look-ahead index wrapper `valuesForArray` (`vfa`) computes the
  frontier denotation `Denote.path` on the property's domain, and the lift to `valuesForPath`.
-/
import Mxj.Lemmas.Path
namespace Mxj
open Denote

/-- segment names produced by parsePath on the domain: non-empty, no '.' -/
def nameOk (n : Str) : Bool := !n.isEmpty && !n.contains '.'

/-! ### split / join -/

theorem splitGo1_nil (d : Char) (acc : Str) : splitGo [d] [] 0 acc = [acc.reverse] := by
  simp [splitGo]

theorem splitGo1_sep (d : Char) (cs acc : Str) :
    splitGo [d] (d :: cs) 0 acc = acc.reverse :: splitGo [d] cs 0 [] := by
  simp [splitGo]

theorem splitGo1_ne (d c : Char) (cs acc : Str) (h : c ≠ d) :
    splitGo [d] (c :: cs) 0 acc = splitGo [d] cs 0 (c :: acc) := by
  have : ¬ d = c := fun e => h e.symm
  simp [splitGo, this]

/-- a separator-free chunk followed by end of input -/
theorem splitGo1_chunk_end (d : Char) : ∀ (x acc : Str), d ∉ x →
    splitGo [d] x 0 acc = [acc.reverse ++ x] := by
  intro x
  induction x with
  | nil => intro acc _; simp [splitGo1_nil]
  | cons c cs ih =>
    intro acc h
    have hc : c ≠ d := fun e => h (by simp [e])
    have hcs : d ∉ cs := fun e => h (by simp [e])
    rw [splitGo1_ne d c cs acc hc, ih _ hcs]
    simp

theorem splitGo1_chunk_sep (d : Char) : ∀ (x r acc : Str), d ∉ x →
    splitGo [d] (x ++ d :: r) 0 acc = (acc.reverse ++ x) :: splitGo [d] r 0 [] := by
  intro x
  induction x with
  | nil => intro r acc _; simp [splitGo1_sep]
  | cons c cs ih =>
    intro r acc h
    have hc : c ≠ d := fun e => h (by simp [e])
    have hcs : d ∉ cs := fun e => h (by simp [e])
    rw [List.cons_append, splitGo1_ne d c _ acc hc, ih _ _ hcs]
    simp

theorem splitOn_joinWith (d : Char) : ∀ (xs : List Str), xs ≠ [] → (∀ x ∈ xs, d ∉ x) →
    splitOn [d] (joinWith [d] xs) = xs := by
  intro xs
  induction xs with
  | nil => intro h; exact absurd rfl h
  | cons x rest ih =>
    intro _ hall
    cases rest with
    | nil =>
      simp only [joinWith, splitOn]
      rw [splitGo1_chunk_end d x [] (hall x (by simp))]; simp
    | cons y rest' =>
      simp only [joinWith, splitOn]
      have := ih (by simp) (fun z hz => hall z (by simp [hz]))
      simp only [splitOn] at this
      rw [List.append_assoc, List.singleton_append, splitGo1_chunk_sep d x _ [] (hall x (by simp)), this]
      simp

theorem joinWith_snoc (sep : Str) : ∀ (xs : List Str) (n : Str), xs ≠ [] →
    joinWith sep (xs ++ [n]) = joinWith sep xs ++ sep ++ n := by
  intro xs
  induction xs with
  | nil => intro n h; exact absurd rfl h
  | cons x rest ih =>
    intro n _
    cases rest with
    | nil => simp [joinWith]
    | cons y rest' =>
      have := ih n (by simp)
      simp only [List.cons_append] at this ⊢
      simp only [joinWith, this, List.append_assoc]


theorem nameOk_iff (n : Str) : nameOk n = true ↔ n ≠ [] ∧ '.' ∉ n := by
  unfold nameOk; cases n <;> simp

theorem dropTrailingEmpty_id (xs : List Str) (h : ∀ x ∈ xs, x ≠ []) : dropTrailingEmpty xs = xs := by
  unfold dropTrailingEmpty
  cases hl : xs.getLast? with
  | none => rfl
  | some l =>
    have := List.mem_of_getLast? hl
    cases l with
    | nil => exact absurd rfl (h _ this)
    | cons _ _ => rfl

theorem pathKeys_joinDot (names : List Str) (hne : names ≠ []) (h : ∀ n ∈ names, nameOk n = true) :
    pathKeys (joinDot names) = names := by
  unfold pathKeys splitDot joinDot
  rw [splitOn_joinWith '.' names hne (fun x hx => ((nameOk_iff x).1 (h x hx)).2)]
  exact dropTrailingEmpty_id names (fun x hx => ((nameOk_iff x).1 (h x hx)).1)
/-- the per-value function of one frontier step -/
def stepFn : Step → Val → List Val
  | .key k => stepKey k
  | .wild => stepWild
  | .idx k i => fun v => (expand v).flatMap (pick k i)

theorem run_cons (s : Step) (rest : List Step) (fr : List Val) :
    run (s :: rest) fr = run rest (fr.flatMap (stepFn s)) := by
  cases s <;> simp [run, stepFn, List.flatMap_assoc]

theorem run_append (a b : List Step) : ∀ fr : List Val, run (a ++ b) fr = run b (run a fr) := by
  induction a with
  | nil => intro fr; simp [run]
  | cons s a ih => intro fr; simp only [List.cons_append, run_cons, ih]

theorem run_flatMap (steps : List Step) : ∀ (fr : List Val) (f : Val → List Val),
    run steps (fr.flatMap f) = fr.flatMap (fun v => run steps (f v)) := by
  induction steps with
  | nil => intro fr f; simp [run]
  | cons s rest ih =>
    intro fr f
    simp only [run_cons, List.flatMap_assoc, ih]

theorem run_empty (steps : List Step) : run steps [] = [] := by
  induction steps with
  | nil => rfl
  | cons s rest ih => simp [run_cons, ih]

theorem run_singletons (steps : List Step) (fr : List Val) :
    run steps fr = fr.flatMap (fun v => run steps [v]) := by
  have := run_flatMap steps fr (fun v => [v])
  simpa using this

theorem walk_none (m : Val) (ks : List Str) :
    walk none m ks = (run (ks.map plainStep) [m]).flatMap expand := by
  have := walk_front none ks [m]
  simp only [List.flatMap_cons, List.flatMap_nil, List.append_nil] at this
  rw [this]; congr 1; funext v; exact loadLeaf_none v

/-- `tmppath` of `vfa` -/
def tp (tmp : Option Str) (n : Str) : Str :=
  match tmp with
  | none => n
  | some t => t ++ ['.'] ++ n

/-- continuation of the look-ahead loop: only map values go on -/
def contMap (rest : List Key) : Val → List Val
  | .map am => vfa rest (.map am) none []
  | _ => []

theorem vfa_lookahead (k : Key) (rest : List Key) (m : Val) (tmp : Option Str) (vals : List Val)
    (hk : k.isArray = false) (hn : nextIsArray rest = true) :
    vfa (k :: rest) m tmp vals = (oldValues none m (tp tmp k.name)).flatMap (contMap rest) := by
  cases tmp <;> simp only [vfa, hk, hn, tp] <;> simp <;> congr 1 <;> funext v <;> cases v <;> rfl

theorem vfa_last_plain (k : Key) (m : Val) (tmp : Option Str) (vals : List Val)
    (hk : k.isArray = false) :
    vfa [k] m tmp vals = oldValues none m (tp tmp k.name) := by
  cases tmp <;> simp [vfa, hk, nextIsArray, tp]

theorem take1_drop {α} (xs : List α) (i : Nat) :
    (if xs.length ≤ i then [] else (xs.drop i).take 1) = (xs[i]?).toList := by
  induction xs generalizing i with
  | nil => simp
  | cons x xs ih =>
    cases i with
    | zero => simp
    | succ i => simpa using ih i

theorem vfa_last_idx (k : Key) (m : Val) (tmp : Option Str) (vals : List Val)
    (hk : k.isArray = true) :
    vfa [k] m tmp vals = ((oldValues none m (tp tmp k.name))[k.position]?).toList := by
  cases tmp <;> simp [vfa, hk, nextIsArray, tp, take1_drop]

/-- continuation after an index that is not the last key -/
def contIdx (rest : List Key) (vals' : List Val) : Option Val → List Val
  | some (.map amm) => vfa rest (.map amm) none vals'
  | _ => []

theorem contIdx_none_of_le (rest : List Key) (vs : List Val) (i : Nat) (h : vs.length ≤ i) :
    contIdx rest vs vs[i]? = [] := by
  rw [List.getElem?_eq_none h]; rfl

theorem vfa_idx_more (k : Key) (rest : List Key) (m : Val) (tmp : Option Str) (vals : List Val)
    (hk : k.isArray = true) (hr : rest ≠ []) :
    vfa (k :: rest) m tmp vals = contIdx rest (oldValues none m (tp tmp k.name))
      (oldValues none m (tp tmp k.name))[k.position]? := by
  cases tmp <;> simp only [vfa, hk, tp] <;> simp [hr] <;> split
  · rename_i h; exact (contIdx_none_of_le _ _ _ h).symm
  · cases (oldValues none m k.name)[k.position]? with
    | none => rfl
    | some v => cases v <;> rfl
  · rename_i h; exact (contIdx_none_of_le _ _ _ h).symm
  · rename_i t _
    cases (oldValues none m (t ++ '.' :: k.name))[k.position]? with
    | none => rfl
    | some v => cases v <;> rfl

theorem vfa_plain_more (k : Key) (rest : List Key) (m : Val) (tmp : Option Str) (vals : List Val)
    (hk : k.isArray = false) (hr : rest ≠ []) (hn : nextIsArray rest = false) :
    vfa (k :: rest) m tmp vals = vfa rest m (some (tp tmp k.name)) vals := by
  cases tmp <;> simp [vfa, hk, hr, hn, tp]

/-! ### `noListInList` is inherited -/

theorem noLL_lookup : ∀ (kvs : Entries) (k : Str) (v : Val),
    noLL_entries kvs = true → lookup k kvs = some v → noListInList v = true := by
  intro kvs
  induction kvs with
  | nil => intro k v _ h; simp [lookup] at h
  | cons e rest ih =>
    obtain ⟨k', v'⟩ := e
    intro k v hn h
    simp only [noLL_entries, Bool.and_eq_true] at hn
    simp only [lookup] at h
    split at h
    · cases h; exact hn.1
    · exact ih k v hn.2 h

theorem noLL_entry : ∀ (kvs : Entries) (e : Str × Val),
    noLL_entries kvs = true → e ∈ kvs → noListInList e.2 = true := by
  intro kvs
  induction kvs with
  | nil => intro e _ h; simp at h
  | cons e' rest ih =>
    obtain ⟨k', v'⟩ := e'
    intro e hn h
    simp only [noLL_entries, Bool.and_eq_true] at hn
    rcases List.mem_cons.1 h with h | h
    · subst h; exact hn.1
    · exact ih e hn.2 h

theorem noLL_mem : ∀ (xs : List Val) (x : Val),
    noLL_members xs = true → x ∈ xs → noListInList x = true ∧ x.isList = false := by
  intro xs
  induction xs with
  | nil => intro x _ h; simp at h
  | cons y ys ih =>
    intro x hn h
    have hy : noListInList y = true ∧ y.isList = false ∧ noLL_members ys = true := by
      cases y <;> simp_all [noLL_members, Val.isList, noListInList]
    rcases List.mem_cons.1 h with h | h
    · subst h; exact ⟨hy.1, hy.2.1⟩
    · exact ih x hy.2.2 h

theorem noLL_expand (v w : Val) (hv : noListInList v = true) (hw : w ∈ expand v) :
    noListInList w = true ∧ w.isList = false := by
  cases v with
  | list xs =>
    simp only [expand] at hw
    simp only [noListInList] at hv
    exact noLL_mem xs w hv hw
  | map kvs => simp only [expand, List.mem_singleton] at hw; subst hw; exact ⟨hv, rfl⟩
  | null => simp only [expand, List.mem_singleton] at hw; subst hw; exact ⟨hv, rfl⟩
  | bool b => simp only [expand, List.mem_singleton] at hw; subst hw; exact ⟨hv, rfl⟩
  | num t => simp only [expand, List.mem_singleton] at hw; subst hw; exact ⟨hv, rfl⟩
  | str t => simp only [expand, List.mem_singleton] at hw; subst hw; exact ⟨hv, rfl⟩

theorem noLL_selKey (k : Str) (v w : Val) (hv : noListInList v = true) (hw : w ∈ selKey k v) :
    noListInList w = true := by
  cases v with
  | map kvs =>
    simp only [selKey, Option.mem_toList] at hw
    simp only [noListInList] at hv
    exact noLL_lookup kvs k w hv hw
  | _ => simp [selKey] at hw

theorem noLL_stepKey (k : Str) (v w : Val) (hv : noListInList v = true) (hw : w ∈ stepKey k v) :
    noListInList w = true := by
  cases v with
  | list xs =>
    simp only [stepKey, List.mem_flatMap] at hw
    obtain ⟨x, hx, hw⟩ := hw
    simp only [noListInList] at hv
    exact noLL_selKey k x w (noLL_mem xs x hv hx).1 hw
  | map kvs => exact noLL_selKey k _ w hv hw
  | _ => simp [stepKey, selKey] at hw

theorem noLL_stepWild (v w : Val) (hv : noListInList v = true) (hw : w ∈ stepWild v) :
    noListInList w = true := by
  cases v with
  | list xs =>
    simp only [stepWild, List.mem_flatMap] at hw
    obtain ⟨x, hx, hw⟩ := hw
    simp only [noListInList] at hv
    have hx' := (noLL_mem xs x hv hx).1
    cases x with
    | map kvs =>
      simp only [List.mem_map] at hw
      obtain ⟨e, he, rfl⟩ := hw
      simp only [noListInList] at hx'
      exact noLL_entry kvs e hx' he
    | _ => simp at hw; subst hw; exact hx'
  | map kvs =>
    simp only [stepWild, selAll, List.mem_map] at hw
    obtain ⟨e, he, rfl⟩ := hw
    simp only [noListInList] at hv
    exact noLL_entry kvs e hv he
  | _ => simp [stepWild, selAll] at hw

theorem noLL_pick (k : Str) (i : Nat) (v w : Val) (hv : noListInList v = true)
    (hw : w ∈ pick k i v) : noListInList w = true ∧ w.isList = false := by
  cases v with
  | map kvs =>
    simp only [pick, Option.mem_toList] at hw
    have hw' := List.mem_of_getElem? hw
    simp only [List.mem_flatMap] at hw'
    obtain ⟨y, hy, hw'⟩ := hw'
    exact noLL_expand y w (noLL_selKey k _ y hv hy) hw'
  | _ => simp [pick] at hw

theorem noLL_stepFn (s : Step) (v w : Val) (hv : noListInList v = true) (hw : w ∈ stepFn s v) :
    noListInList w = true := by
  cases s with
  | key k => exact noLL_stepKey k v w hv hw
  | wild => exact noLL_stepWild v w hv hw
  | idx k i =>
    simp only [stepFn, List.mem_flatMap] at hw
    obtain ⟨x, hx, hw⟩ := hw
    exact (noLL_pick k i x w (noLL_expand v x hv hx).1 hw).1

theorem noLL_run (steps : List Step) : ∀ (fr : List Val),
    (∀ v ∈ fr, noListInList v = true) → ∀ w ∈ run steps fr, noListInList w = true := by
  induction steps with
  | nil => intro fr h w hw; exact h w hw
  | cons s rest ih =>
    intro fr h w hw
    rw [run_cons] at hw
    refine ih _ ?_ w hw
    intro x hx
    simp only [List.mem_flatMap] at hx
    obtain ⟨v, hv, hx⟩ := hx
    exact noLL_stepFn s v x (h v hv) hx

/-- a scalar is a dead end for every non-empty path -/
theorem run_dead (steps : List Step) (v : Val) (hs : steps ≠ []) (hm : v.isMap = false)
    (hl : v.isList = false) : run steps [v] = [] := by
  cases steps with
  | nil => exact absurd rfl hs
  | cons s rest =>
    rw [run_cons]
    have : stepFn s v = [] := by
      cases s <;> cases v <;>
        simp_all [stepFn, stepKey, selKey, stepWild, selAll, expand, pick, Val.isMap, Val.isList]
    simp [this, run_empty]

/-! ### the main invariant of `vfa` -/

/-- encoding of the accumulated plain-key prefix as `tmppath` -/
def enc : List Str → Option Str
  | [] => none
  | n :: ns => some (joinDot (n :: ns))

theorem tp_enc (pre : List Str) (n : Str) : tp (enc pre) n = joinDot (pre ++ [n]) := by
  cases pre with
  | nil => rfl
  | cons a as =>
    simp only [enc, tp, joinDot]
    rw [joinWith_snoc ['.'] (a :: as) n (by simp)]

theorem enc_snoc (pre : List Str) (n : Str) : enc (pre ++ [n]) = some (tp (enc pre) n) := by
  rw [tp_enc]
  cases pre <;> rfl

/-- final expansion, unless the last key is indexed -/
def fin (keys : List Key) (fr : List Val) : List Val :=
  if lastIsIdx (keys.map keyStep) then fr else fr.flatMap expand

theorem fin_nil (keys : List Key) : fin keys [] = [] := by
  unfold fin; split <;> rfl

theorem fin_flatMap (keys : List Key) (fr : List Val) (f : Val → List Val) :
    fin keys (fr.flatMap f) = fr.flatMap (fun v => fin keys (f v)) := by
  unfold fin; split
  · rfl
  · simp only [List.flatMap_assoc]

theorem fin_cons2 (k : Key) (rest : List Key) (h : rest ≠ []) (fr : List Val) :
    fin (k :: rest) fr = fin rest fr := by
  cases rest with
  | nil => exact absurd rfl h
  | cons k' rest' =>
    unfold fin
    simp only [List.map_cons, lastIsIdx_cons2]

theorem flatMap_congr_mem {α β} (l : List α) (f g : α → List β) (h : ∀ x ∈ l, f x = g x) :
    l.flatMap f = l.flatMap g := by
  induction l with
  | nil => rfl
  | cons a l ih =>
    simp only [List.flatMap_cons]
    rw [h a (by simp), ih (fun x hx => h x (by simp [hx]))]

theorem oldValues_joinDot (m : Val) (names : List Str) (hne : names ≠ [])
    (h : ∀ n ∈ names, nameOk n = true) :
    oldValues none m (joinDot names) = (run (names.map plainStep) [m]).flatMap expand := by
  unfold oldValues
  rw [pathKeys_joinDot names hne h, walk_none]

theorem vfa_inv : ∀ (keys : List Key), keys ≠ [] →
    (∀ k ∈ keys, nameOk k.name = true ∧ (k.isArray = true → k.name ≠ ['*'])) →
    ∀ (kvs : Entries) (pre : List Str) (vals : List Val),
    noListInList (.map kvs) = true → (∀ n ∈ pre, nameOk n = true) →
    (pre = [] ∨ nextIsArray keys = false) →
    vfa keys (.map kvs) (enc pre) vals
      = fin keys (run (keys.map keyStep) (run (pre.map plainStep) [.map kvs])) := by
  intro keys
  induction keys with
  | nil => intro h; exact absurd rfl h
  | cons k rest ih =>
    intro _ hnames kvs pre vals hm hpre hor
    have hk := hnames k (by simp)
    have hrn : ∀ k' ∈ rest, nameOk k'.name = true ∧ (k'.isArray = true → k'.name ≠ ['*']) :=
      fun k' hk' => hnames k' (by simp [hk'])
    have hpk : ∀ n ∈ pre ++ [k.name], nameOk n = true := by
      intro n hn
      rcases List.mem_append.1 hn with hn | hn
      · exact hpre n hn
      · simp only [List.mem_singleton] at hn; subst hn; exact hk.1
    have hov : oldValues none (.map kvs) (tp (enc pre) k.name)
        = (run ((pre ++ [k.name]).map plainStep) [.map kvs]).flatMap expand := by
      rw [tp_enc, oldValues_joinDot _ _ (by simp) hpk]
    have hsplit : ∀ (s : Step) (R : List Step),
        run (s :: R) (run (pre.map plainStep) [.map kvs])
          = run R (run (pre.map plainStep ++ [s]) [.map kvs]) := by
      intro s R
      rw [run_append, run_cons, run_cons]; rfl
    cases hka : k.isArray with
    | false =>
      have hks : keyStep k = plainStep k.name := by simp [keyStep, hka]
      cases rest with
      | nil =>
        rw [vfa_last_plain _ _ _ _ hka, hov]
        have : fin [k] = fun fr => fr.flatMap expand := by
          funext fr
          simp only [fin, List.map_cons, List.map_nil, hks]
          have := lastIsIdx_plain [k.name]
          simp only [List.map_cons, List.map_nil] at this
          simp [this]
        rw [this]
        simp only [List.map_cons, List.map_nil, hks, List.map_append, run_append]
      | cons k' rest' =>
        cases hn : k'.isArray with
        | false =>
          rw [vfa_plain_more _ _ _ _ _ hka (by simp) (by simp [nextIsArray, hn])]
          rw [← enc_snoc, ih (by simp) hrn kvs (pre ++ [k.name]) vals hm hpk
            (Or.inr (by simp [nextIsArray, hn]))]
          rw [fin_cons2 k (k' :: rest') (by simp)]
          simp only [List.map_cons, hks, List.map_append, List.map_nil, run_append]
          simp only [run_cons, run]
        | true =>
          rw [vfa_lookahead _ _ _ _ _ hka (by simp [nextIsArray, hn]), hov]
          rw [fin_cons2 k (k' :: rest') (by simp)]
          have hk's : keyStep k' = .idx k'.name k'.position := by simp [keyStep, hn]
          simp only [List.map_cons (f := keyStep) (a := k), hks, hsplit]
          have e1 : List.map plainStep pre ++ [plainStep k.name]
              = (pre ++ [k.name]).map plainStep := by simp
          rw [e1]
          generalize hF : run ((pre ++ [k.name]).map plainStep) [Val.map kvs] = F
          have hFn : ∀ v ∈ F, noListInList v = true := by
            rw [← hF]
            exact noLL_run _ _ (by intro v hv; simp at hv; subst hv; exact hm)
          simp only [List.map_cons, hk's]
          rw [show ∀ R fr, run (Step.idx k'.name k'.position :: R) fr
                = run R ((fr.flatMap expand).flatMap (pick k'.name k'.position)) from
              fun R fr => rfl]
          rw [run_flatMap, fin_flatMap]
          apply flatMap_congr_mem
          intro v hv
          have hvn : noListInList v = true := by
            simp only [List.mem_flatMap] at hv
            obtain ⟨y, hy, hv⟩ := hv
            exact (noLL_expand y v (hFn y hy) hv).1
          cases v with
          | map am =>
            show vfa (k' :: rest') (.map am) (enc []) [] = _
            rw [ih (by simp) hrn am [] [] hvn (by simp) (Or.inl rfl)]
            simp [run, hk's, expand]
          | _ => simp [contMap, pick, run_empty, fin_nil]
    | true =>
      have hks : keyStep k = .idx k.name k.position := by simp [keyStep, hka]
      have hpre0 : pre = [] := by
        rcases hor with h | h
        · exact h
        · simp [nextIsArray, hka] at h
      subst hpre0
      have hstar : k.name ≠ ['*'] := hk.2 hka
      have hov' : oldValues none (.map kvs) (tp (enc []) k.name)
          = (selKey k.name (.map kvs)).flatMap expand := by
        rw [hov]
        simp [run, plainStep, hstar, stepKey]
      have hrun : ∀ R, run (Step.idx k.name k.position :: R) (run (List.map plainStep []) [.map kvs])
          = run R (((selKey k.name (.map kvs)).flatMap expand)[k.position]?).toList := by
        intro R; simp [run, expand, pick]
      simp only [List.map_cons, hks, hrun]
      cases rest with
      | nil =>
        rw [vfa_last_idx _ _ _ _ hka, hov']
        simp [fin, hks, lastIsIdx, run]
      | cons k' rest' =>
        rw [vfa_idx_more _ _ _ _ _ hka (by simp), hov', fin_cons2 k (k' :: rest') (by simp)]
        cases hV : ((selKey k.name (.map kvs)).flatMap expand)[k.position]? with
        | none => simp [contIdx, run_empty, fin_nil]
        | some v =>
          have hvmem := List.mem_of_getElem? hV
          simp only [List.mem_flatMap] at hvmem
          obtain ⟨y, hy, hvy⟩ := hvmem
          have hvn := noLL_expand y v (noLL_selKey _ _ y hm hy) hvy
          simp only [Option.toList]
          cases v with
          | map amm =>
            show vfa (k' :: rest') (.map amm) (enc []) _ = _
            rw [ih (by simp) hrn amm [] _ hvn.1 (by simp) (Or.inl rfl)]
            simp [run]
          | list xs => simp [Val.isList] at hvn
          | _ => rw [run_dead _ _ (by simp) rfl rfl, fin_nil]; rfl

/-! ### facts about `parsePath` -/

theorem splitGo_chars (sep : Str) : ∀ (s : Str) (skip : Nat) (acc part : Str) (ch : Char),
    part ∈ splitGo sep s skip acc → ch ∈ part → ch ∈ acc ∨ ch ∈ s := by
  intro s
  induction s with
  | nil =>
    intro skip acc part ch hp hc
    simp only [splitGo, List.mem_singleton] at hp
    subst hp; left; simpa using hc
  | cons c cs ih =>
    intro skip acc part ch hp hc
    cases skip with
    | succ n =>
      simp only [splitGo] at hp
      rcases ih n acc part ch hp hc with h | h
      · left; exact h
      · right; simp [h]
    | zero =>
      simp only [splitGo] at hp
      split at hp
      · rcases List.mem_cons.1 hp with h | h
        · subst h; left; simpa using hc
        · rcases ih _ [] part ch h hc with h | h
          · simp at h
          · right; simp [h]
      · rcases ih 0 (c :: acc) part ch hp hc with h | h
        · rcases List.mem_cons.1 h with h | h
          · right; simp [h]
          · left; exact h
        · right; simp [h]

theorem splitGo1_free (d : Char) : ∀ (s acc part : Str), d ∉ acc →
    part ∈ splitGo [d] s 0 acc → d ∉ part := by
  intro s
  induction s with
  | nil =>
    intro acc part ha hp
    simp only [splitGo1_nil, List.mem_singleton] at hp
    subst hp; simpa using ha
  | cons c cs ih =>
    intro acc part ha hp
    by_cases hc : c = d
    · subst hc
      rw [splitGo1_sep] at hp
      rcases List.mem_cons.1 hp with h | h
      · subst h; simpa using ha
      · exact ih [] part (by simp) h
    · rw [splitGo1_ne d c cs acc hc] at hp
      refine ih (c :: acc) part ?_ hp
      intro h
      rcases List.mem_cons.1 h with h | h
      · exact hc h.symm
      · exact ha h

theorem splitGo1_covers (d ch : Char) (hch : ch ≠ d) : ∀ (s acc : Str), (ch ∈ acc ∨ ch ∈ s) →
    ∃ part ∈ splitGo [d] s 0 acc, ch ∈ part := by
  intro s
  induction s with
  | nil =>
    intro acc h
    refine ⟨acc.reverse, by simp [splitGo1_nil], ?_⟩
    rcases h with h | h
    · simpa using h
    · simp at h
  | cons c cs ih =>
    intro acc h
    by_cases hc : c = d
    · subst hc
      rw [splitGo1_sep]
      rcases h with h | h
      · exact ⟨acc.reverse, by simp, by simpa using h⟩
      · rcases List.mem_cons.1 h with h | h
        · exact absurd h hch
        · obtain ⟨part, hp, hcp⟩ := ih [] (Or.inr h)
          exact ⟨part, by simp [hp], hcp⟩
    · rw [splitGo1_ne d c cs acc hc]
      apply ih
      rcases h with h | h
      · left; simp [h]
      · rcases List.mem_cons.1 h with h | h
        · left; simp [h]
        · right; exact h

theorem parseSeg_ok (seg : Str) (k : Key) (h : parseSeg seg = .ok k) :
    (k.isArray = false → k.name = seg) ∧ (∀ ch ∈ k.name, ch ∈ seg) := by
  unfold parseSeg at h
  split at h
  · cases h; exact ⟨fun _ => rfl, fun _ h => h⟩
  · split at h
    · rename_i name idx tl hsp
      have hname : name ∈ splitGo ['['] seg 0 [] := by
        have : name ∈ splitOn ['['] seg := by rw [hsp]; simp
        exact this
      split at h
      · split at h
        · cases h
        · split at h
          · split at h
            · cases h
            · cases h
              refine ⟨fun h => (by cases h), fun ch hc => ?_⟩
              rcases splitGo_chars _ _ _ _ _ _ hname hc with h | h
              · simp at h
              · exact h
          · cases h
      · cases h
    · cases h

theorem parsePathSegs_mem : ∀ (segs : List Str) (keys : List Key),
    parsePathSegs segs = .ok keys →
    ∀ k ∈ keys, ∃ seg ∈ segs, seg ≠ [] ∧ parseSeg seg = .ok k := by
  intro segs
  induction segs with
  | nil => intro keys h k hk; simp only [parsePathSegs] at h; cases h; simp at hk
  | cons seg rest ih =>
    intro keys h k hk
    simp only [parsePathSegs] at h
    split at h
    · obtain ⟨s, hs, h2⟩ := ih keys h k hk
      exact ⟨s, by simp [hs], h2⟩
    · rename_i hse
      split at h
      · cases h
      · rename_i k0 hk0
        split at h
        · cases h
        · rename_i ks hks
          cases h
          rcases List.mem_cons.1 hk with e | e
          · subst e
            exact ⟨seg, by simp, by intro e; simp [e] at hse, hk0⟩
          · obtain ⟨s, hs, h2⟩ := ih ks hks k e
            exact ⟨s, by simp [hs], h2⟩

theorem parsePathSegs_ne_nil : ∀ (segs : List Str) (keys : List Key),
    parsePathSegs segs = .ok keys → (∃ seg ∈ segs, seg ≠ []) → keys ≠ [] := by
  intro segs
  induction segs with
  | nil => intro keys _ h; simp at h
  | cons seg rest ih =>
    intro keys h hex
    simp only [parsePathSegs] at h
    split at h
    · rename_i hse
      obtain ⟨s, hs, hne⟩ := hex
      rcases List.mem_cons.1 hs with e | e
      · subst e; simp at hse; exact absurd hse hne
      · exact ih keys h ⟨s, e, hne⟩
    · split at h
      · cases h
      · split at h
        · cases h
        · cases h; simp

theorem parsePath_names (p : Str) (keys : List Key) (h : parsePath p = .ok keys)
    (hall : keys.all idxOk = true) :
    ∀ k ∈ keys, (k.isArray = false → nameOk k.name = true)
      ∧ (k.isArray = true → nameOk k.name = true ∧ k.name ≠ ['*']) := by
  intro k hk
  obtain ⟨seg, hseg, hne, hps⟩ := parsePathSegs_mem _ _ h k hk
  have hfree : '.' ∉ seg := splitGo1_free '.' p [] seg (by simp) hseg
  obtain ⟨hplain, hchars⟩ := parseSeg_ok seg k hps
  have hkfree : '.' ∉ k.name := fun hc => hfree (hchars _ hc)
  have hok := List.all_eq_true.1 hall k hk
  constructor
  · intro ha
    rw [nameOk_iff, hplain ha]
    exact ⟨hne, hfree⟩
  · intro ha
    simp only [idxOk, ha, Bool.not_true, Bool.false_or, Bool.and_eq_true, decide_eq_true_eq,
      Bool.not_eq_true', List.isEmpty_eq_false_iff] at hok
    exact ⟨(nameOk_iff _).2 ⟨hok.2, hkfree⟩, hok.1⟩

theorem parsePath_ne_nil (p : Str) (keys : List Key) (h : parsePath p = .ok keys)
    (hp : p.contains '[' = true) : keys ≠ [] := by
  have hmem : '[' ∈ p := by simpa using hp
  obtain ⟨part, hpart, hc⟩ := splitGo1_covers '.' '[' (by decide) p [] (Or.inr hmem)
  refine parsePathSegs_ne_nil _ _ h ⟨part, hpart, ?_⟩
  intro e; subst e; simp at hc

theorem hasSubKeys_nil (v : Val) : hasSubKeys v [] = true := by
  simp [hasSubKeys]

theorem vfa_is_denotation (keys : List Key) (kvs : Entries)
    (hne : keys ≠ [])
    (hnames : ∀ k ∈ keys, (k.isArray = false → nameOk k.name = true) ∧ (k.isArray = true → nameOk k.name = true ∧ k.name ≠ ['*']))
    (hm : noListInList (.map kvs) = true) :
    valuesForArray keys (.map kvs) = Denote.path (keys.map keyStep) (.map kvs) := by
  have hn' : ∀ k ∈ keys, nameOk k.name = true ∧ (k.isArray = true → k.name ≠ ['*']) := by
    intro k hk
    have := hnames k hk
    cases hka : k.isArray with
    | false => exact ⟨this.1 hka, fun h => by cases h⟩
    | true => exact ⟨(this.2 hka).1, fun _ => (this.2 hka).2⟩
  have := vfa_inv keys hne hn' kvs [] [] hm (by simp) (Or.inl rfl)
  unfold valuesForArray Denote.path
  rw [show (none : Option Str) = enc [] from rfl, this]
  simp only [fin, List.map_nil, run]

/-- whenever the specification applies (returns `some`), the model returns exactly it -/
theorem valuesForPath_is_denotation (sep : Str) (pf : Str → Option Str) (m : Entries) (p : Str)
    (subkeys : List Str) (vs spec : List Val)
    (h : valuesForPath sep pf (.map m) p subkeys = .ok vs)
    (hs : Denote.valuesForPath sep pf (.map m) p subkeys = some spec) : vs = spec := by
  unfold Mxj.valuesForPath at h
  unfold Denote.valuesForPath at hs
  cases hsub : subKeyArg sep pf subkeys with
  | error e => simp [hsub] at hs
  | ok subs =>
    simp only [hsub] at h hs
    cases hp : p.contains '[' with
    | false =>
      simp only [hp, Bool.not_false, if_true] at h hs
      injection h with h
      injection hs with hs
      subst h; subst hs
      unfold oldValues Denote.path
      have hw := walk_front subs (pathKeys p) [.map m]
      simp only [List.flatMap_cons, List.flatMap_nil, List.append_nil] at hw
      rw [hw, lastIsIdx_plain]
      cases subs with
      | none =>
        simp only [subFilter, Bool.false_eq_true, if_false]
        congr 1; funext v; exact loadLeaf_none v
      | some s =>
        have hne := subKeyArg_some_ne_nil sep pf subkeys s hsub
        simp only [subFilter, Bool.false_eq_true, if_false]
        rw [List.filter_flatMap]
        congr 1; funext v
        exact loadLeaf_some s hne v
    | true =>
      simp only [hp, Bool.not_true, Bool.false_eq_true, if_false] at h hs
      cases hpp : parsePath p with
      | error e => simp [hpp] at hs
      | ok keys =>
        simp only [hpp] at h hs
        split at hs
        · rename_i hg
          simp only [Bool.and_eq_true] at hg
          injection h with h
          injection hs with hs
          subst h; subst hs
          rw [vfa_is_denotation keys m (parsePath_ne_nil p keys hpp hp)
            (parsePath_names p keys hpp hg.1) hg.2]
          cases subs with
          | none => simp [subFilter, hasSubKeys_nil]
          | some s => simp [subFilter]
        · cases hs

end Mxj
