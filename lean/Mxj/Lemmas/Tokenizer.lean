/-
  Mxj.Lemmas.Tokenizer — the tokenizer model (`Model/Tokenizer.lean`) inverts `render`:
  lexing lemmas (names, attribute lists, character data), one `step` per piece of markup, and
  the continuation-style induction over trees (`tokF_node` / `tokF_kids`) with an explicit
  rest-of-input parameter.  Used by `Props/C02ExtTok.lean`.
-/
import Mxj.Model.Tokenizer
import Mxj.Lemmas.EscDec2
namespace Mxj.Tokz
open Mxj Mxj.Enc Mxj.EscDec

/-! ### spans -/

/-- `tl` is empty or begins with a character on which `p` fails -/
def stops (p : Char → Bool) : Str → Bool
  | [] => true
  | c :: _ => !p c

theorem takeWhile_stop (p : Char → Bool) (a tl : Str) (ha : ∀ x ∈ a, p x = true)
    (ht : stops p tl = true) : (a ++ tl).takeWhile p = a := by
  rw [List.takeWhile_append_of_pos ha]
  cases tl with
  | nil => simp
  | cons c r =>
    simp only [stops, Bool.not_eq_true'] at ht
    rw [List.takeWhile_cons_of_neg (by simp [ht])]; simp

theorem dropWhile_stop (p : Char → Bool) (a tl : Str) (ha : ∀ x ∈ a, p x = true)
    (ht : stops p tl = true) : (a ++ tl).dropWhile p = tl := by
  rw [List.dropWhile_append_of_pos ha]
  cases tl with
  | nil => simp
  | cons c r =>
    simp only [stops, Bool.not_eq_true'] at ht
    rw [List.dropWhile_cons_of_neg (by simp [ht])]

/-! ### names -/

theorem isNmCh_of_xml {c : Char} (h : isXmlNameChar c = true) : isNmCh c = true := by
  simp only [isXmlNameChar, Bool.or_eq_true, decide_eq_true_eq] at h
  simp only [isNmCh, Bool.or_eq_true, decide_eq_true_eq]
  rcases h with (((h | h) | h) | h) | h <;> simp [h]

theorem isNmStart_of_xml {c : Char} (h : isXmlNameStart c = true) : isNmStart c = true := by
  simp only [isXmlNameStart, Bool.or_eq_true, decide_eq_true_eq] at h
  simp only [isNmStart, Bool.or_eq_true, decide_eq_true_eq]
  rcases h with h | h <;> simp [h]

theorem xmlNameChar_of_start {c : Char} (h : isXmlNameStart c = true) : isXmlNameChar c = true := by
  simp only [isXmlNameStart, Bool.or_eq_true, decide_eq_true_eq] at h
  simp only [isXmlNameChar, Bool.or_eq_true, decide_eq_true_eq]
  rcases h with h | h <;> simp [h]

theorem xmlNameChar_ne_colon {c : Char} (h : isXmlNameChar c = true) : c ≠ ':' := by
  intro e; subst e; revert h; decide

/-- what may follow a name: a non-name ASCII character -/
def nameStop : Str → Bool
  | [] => false
  | c :: _ => !isNmCh c && decide (c.toNat < 128)

theorem nameStop_stops {tl : Str} (h : nameStop tl = true) : stops isNmCh tl = true := by
  cases tl with
  | nil => rfl
  | cons c r => simp only [nameStop, Bool.and_eq_true] at h; exact h.1

theorem nameStop_ascii {tl : Str} (h : nameStop tl = true) : asciiNext tl = true := by
  cases tl with
  | nil => rfl
  | cons c r => simp only [nameStop, Bool.and_eq_true] at h; exact h.2

theorem nsname_plain (s : Str) (h : ∀ c ∈ s, c ≠ ':') : nsname s = some ([], s) := by
  have h0 : s.count ':' = 0 := List.count_eq_zero.2 (fun hm => h _ hm rfl)
  have h1 : s.dropWhile (· != ':') = [] := by
    have := dropWhile_stop (· != ':') s [] (fun x hx => by simp [h x hx]) rfl
    simpa using this
  simp [nsname, h0, h1]

/-- a well-formed (ASCII, colon-free) XML name followed by a delimiter is read back whole, with
    an empty name space -/
theorem lexName_ok (name tl : Str) (hn : xmlNameOk name = true) (ht : nameStop tl = true) :
    lexName (name ++ tl) = some ([], name, tl) := by
  cases name with
  | nil => simp [xmlNameOk] at hn
  | cons c nm =>
    simp only [xmlNameOk, Bool.and_eq_true, List.all_eq_true] at hn
    have hall : ∀ x ∈ c :: nm, isXmlNameChar x = true := by
      intro x hx
      rcases List.mem_cons.1 hx with rfl | hx
      · exact xmlNameChar_of_start hn.1
      · exact hn.2 x hx
    have hall' : ∀ x ∈ c :: nm, isNmCh x = true := fun x hx => isNmCh_of_xml (hall x hx)
    have htk := takeWhile_stop isNmCh (c :: nm) tl hall' (nameStop_stops ht)
    have hdr := dropWhile_stop isNmCh (c :: nm) tl hall' (nameStop_stops ht)
    have hns := nsname_plain (c :: nm) (fun x hx => xmlNameChar_ne_colon (hall x hx))
    simp only [lexName, lexRawName, htk, hdr, isNmStart_of_xml hn.1, nameStop_ascii ht,
      Bool.and_self, if_true, hns]

/-! ### character data and attribute values -/

theorem hasCDEnd_false : ∀ (s : Str), (∀ c ∈ s, c ≠ '>') → hasCDEnd s = false
  | [], _ => rfl
  | c :: r, h => by
      have ih := hasCDEnd_false r (fun x hx => h x (List.mem_cons_of_mem _ hx))
      have hp : [']', ']', '>'].isPrefixOf (c :: r) = false := by
        cases hb : [']', ']', '>'].isPrefixOf (c :: r) with
        | false => rfl
        | true =>
          obtain ⟨t, ht⟩ := List.isPrefixOf_iff_prefix.1 hb
          exact absurd rfl (h '>' (by rw [← ht]; simp))
      simp only [hasCDEnd, hp, ih, Bool.or_self]

theorem normCRa_id : ∀ (s : Str), (∀ c ∈ s, c ≠ '\r') → normCRa false s = s
  | [], _ => rfl
  | c :: r, h => by
      have ih := normCRa_id r (fun x hx => h x (List.mem_cons_of_mem _ hx))
      have hc : c ≠ '\r' := h c (List.mem_cons_self ..)
      simp [normCRa, hc, ih]

/-- a raw value the tokenizer hands back as `unesc` of it: no markup or delimiter character, no
    raw carriage return -/
def valOk (r : Str) : Bool := r.all (fun c => c != '<' && c != '>' && c != '"' && c != '\r')

theorem valOk_mem {r : Str} (h : valOk r = true) {c : Char} (hc : c ∈ r) :
    c ≠ '<' ∧ c ≠ '>' ∧ c ≠ '"' ∧ c ≠ '\r' := by
  have := List.all_eq_true.1 h c hc
  simpa [and_assoc] using this

theorem charsOk_of_xml {v : Str} (h : xmlCharsOk v = true) : charsOk v = true := by
  simp only [xmlCharsOk, List.all_eq_true, Bool.and_eq_true] at h
  simp only [charsOk, List.all_eq_true]
  exact fun c hc => (h c hc).1

theorem lexChars_ok (r v : Str) (hr : valOk r = true) (hu : unesc r = some v)
    (hv : xmlCharsOk v = true) : lexChars r = some v := by
  have h1 := hasCDEnd_false r (fun c hc => (valOk_mem hr hc).2.1)
  have h2 : normCR r = r := normCRa_id r (fun c hc => (valOk_mem hr hc).2.2.2)
  simp [lexChars, h1, h2, hu, charsOk_of_xml hv]

/-! ### attributes -/

theorem dropSp_cons {c : Char} (h : isSp c = false) (r : Str) : dropSp (c :: r) = c :: r := by
  unfold dropSp
  exact List.dropWhile_cons_of_neg (by simp [h])

theorem lexAttr_ok (name r v tl : Str) (hn : xmlNameOk name = true) (hr : valOk r = true)
    (hu : unesc r = some v) (hv : xmlCharsOk v = true) :
    lexAttr (name ++ ('=' :: '"' :: (r ++ '"' :: tl))) = some (⟨[], name, v⟩, tl) := by
  have hq : ∀ x ∈ r, (x != '"') = true := fun x hx => by simp [(valOk_mem hr hx).2.2.1]
  have h1 := takeWhile_stop (· != '"') r ('"' :: tl) hq (by simp [stops])
  have h2 := dropWhile_stop (· != '"') r ('"' :: tl) hq (by simp [stops])
  have hl := lexName_ok name ('=' :: '"' :: (r ++ '"' :: tl)) hn (by simp [nameStop]; decide)
  simp only [lexAttr, hl, dropSp_cons (c := '=') (by decide), dropSp_cons (c := '"') (by decide),
    if_true, decide_true, Bool.true_or, h1, h2, lexChars_ok r v hr hu hv]

/-- how a tag ends: `>` or `/>` -/
def tagEnd (e : Bool) : Str := if e then ['/', '>'] else ['>']

theorem lexAttrs_end (f : Nat) (e : Bool) (rest : Str) :
    lexAttrs (f + 1) (tagEnd e ++ rest) = some ([], e, rest) := by
  cases e
  · simp [tagEnd, lexAttrs, dropSp_cons (c := '>') (by decide)]
  · simp [tagEnd, lexAttrs, dropSp_cons (c := '/') (by decide)]

theorem name_head {name : Str} (hn : xmlNameOk name = true) :
    ∃ c nm, name = c :: nm ∧ isXmlNameStart c = true := by
  cases name with
  | nil => simp [xmlNameOk] at hn
  | cons c nm =>
    simp only [xmlNameOk, Bool.and_eq_true] at hn
    exact ⟨c, nm, rfl, hn.1⟩

theorem nameStart_facts {c : Char} (h : isXmlNameStart c = true) :
    isSp c = false ∧ c ≠ '>' ∧ c ≠ '/' ∧ c ≠ '<' ∧ c ≠ '?' ∧ c ≠ '!' := by
  refine ⟨?_, ?_, ?_, ?_, ?_, ?_⟩
  · cases hs : isSp c with
    | false => rfl
    | true =>
      simp only [isSp, Bool.or_eq_true, decide_eq_true_eq] at hs
      rcases hs with ((rfl | rfl) | rfl) | rfl <;> revert h <;> decide
  all_goals (intro e; subst e; revert h; decide)

theorem lexAttrs_ok (cfg : EncCfg) (hesc : cfg.escape = false) (e : Bool) (rest : Str) :
    ∀ (attrs attrs' : List Attr) (f : Nat), rawAttrs attrs = some attrs' →
    (∀ a ∈ attrs, valOk a.value = true) →
    attrs'.all (fun a => a.space.isEmpty && xmlNameOk a.name && xmlCharsOk a.value) = true →
    attrs.length < f →
    lexAttrs f (renderAttrs cfg attrs ++ (tagEnd e ++ rest)) = some (attrs', e, rest)
  | [], attrs', f, hv, _, _, hf => by
      simp only [rawAttrs, Option.some.injEq] at hv
      subst hv
      obtain ⟨f', rfl⟩ : ∃ f', f = f' + 1 := ⟨f - 1, by simp at hf; omega⟩
      simpa [renderAttrs] using lexAttrs_end f' e rest
  | a :: as, attrs', f, hv, hs, hw, hf => by
      obtain ⟨f', rfl⟩ : ∃ f', f = f' + 1 := ⟨f - 1, by simp at hf; omega⟩
      simp only [rawAttrs] at hv
      cases hu : unesc a.value with
      | none => simp [hu] at hv
      | some v =>
        cases hr : rawAttrs as with
        | none => simp [hu, hr] at hv
        | some r' =>
          simp only [hu, hr, Option.some.injEq] at hv
          subst hv
          simp only [List.all_cons, Bool.and_eq_true, List.isEmpty_iff] at hw
          obtain ⟨⟨⟨hsp, hnm⟩, hxv⟩, hw'⟩ := hw
          have ih := lexAttrs_ok cfg hesc e rest as r' f' hr
            (fun b hb => hs b (List.mem_cons_of_mem _ hb)) hw'
            (by simp at hf; omega)
          obtain ⟨c, nm, hname, hc⟩ := name_head hnm
          have hfc := nameStart_facts hc
          have hla := lexAttr_ok a.name a.value v (renderAttrs cfg as ++ (tagEnd e ++ rest)) hnm
            (hs a (List.mem_cons_self ..)) hu hxv
          have hren : renderAttrs cfg (a :: as) ++ (tagEnd e ++ rest)
              = ' ' :: (a.name ++ ('=' :: '"' :: (a.value ++ '"' ::
                  (renderAttrs cfg as ++ (tagEnd e ++ rest))))) := by
            simp [renderAttrs, escIf, hesc]
          rw [hren]
          have hds : dropSp (' ' :: (a.name ++ ('=' :: '"' :: (a.value ++ '"' ::
                  (renderAttrs cfg as ++ (tagEnd e ++ rest))))))
              = a.name ++ ('=' :: '"' :: (a.value ++ '"' ::
                  (renderAttrs cfg as ++ (tagEnd e ++ rest)))) := by
            unfold dropSp
            rw [List.dropWhile_cons_of_pos (by decide), hname]
            exact List.dropWhile_cons_of_neg (by simp [hfc.1])
          simp only [lexAttrs, hds]
          rw [hname] at hla ⊢
          simp only [List.cons_append, hfc.2.1, hfc.2.2.1, if_false] at hla ⊢
          rw [hla]
          simp only [ih, hsp]

/-! ### one step per piece of markup -/

theorem renderAttrs_length (cfg : EncCfg) : ∀ (as : List Attr),
    as.length ≤ (renderAttrs cfg as).length
  | [] => Nat.le_refl _
  | a :: as => by
      have := renderAttrs_length cfg as
      have h1 : " ".toList.length = 1 := rfl
      simp only [renderAttrs, List.length_cons, List.length_append, h1]
      omega

theorem nameStop_attrs (cfg : EncCfg) (attrs : List Attr) (e : Bool) (rest : Str) :
    nameStop (renderAttrs cfg attrs ++ (tagEnd e ++ rest)) = true := by
  cases attrs with
  | nil => cases e <;> simp [renderAttrs, tagEnd, nameStop] <;> decide
  | cons a as => simp [renderAttrs, nameStop]; decide

/-- a start tag (`e = false`) or an empty-element tag (`e = true`) as `render` writes it -/
theorem step_start (cfg : EncCfg) (hesc : cfg.escape = false) (name : Str)
    (attrs attrs' : List Attr) (e : Bool) (rest : Str) (hn : xmlNameOk name = true)
    (hv : rawAttrs attrs = some attrs') (hs : ∀ a ∈ attrs, valOk a.value = true)
    (hw : attrs'.all (fun a => a.space.isEmpty && xmlNameOk a.name && xmlCharsOk a.value) = true) :
    step ('<' :: (name ++ (renderAttrs cfg attrs ++ (tagEnd e ++ rest))))
      = some (if e then [Tok.start [] name attrs', Tok.stop [] name]
              else [Tok.start [] name attrs'], rest) := by
  have hl := lexName_ok name _ hn (nameStop_attrs cfg attrs e rest)
  have ha := lexAttrs_ok cfg hesc e rest attrs attrs'
    ((renderAttrs cfg attrs ++ (tagEnd e ++ rest)).length + 1) hv hs hw (by
      have := renderAttrs_length cfg attrs
      simp only [List.length_append]; omega)
  obtain ⟨c, nm, hname, hc⟩ := name_head hn
  have hfc := nameStart_facts hc
  rw [hname] at hl ⊢
  simp only [List.cons_append] at hl ⊢
  simp only [step, if_true, hfc.2.2.1, hfc.2.2.2.2.1, hfc.2.2.2.2.2, if_false, startTag, hl, ha]

theorem step_stop (name rest : Str) (hn : xmlNameOk name = true) :
    step ('<' :: '/' :: (name ++ '>' :: rest)) = some ([Tok.stop [] name], rest) := by
  have hl := lexName_ok name ('>' :: rest) hn (by simp [nameStop]; decide)
  simp [step, endTag, hl, dropSp_cons (c := '>') (by decide)]

/-- `rest` is empty or begins with `<` -/
def startsLt (rest : Str) : Bool := stops (· != '<') rest

theorem step_text (r v rest : Str) (hne : r ≠ []) (hr : valOk r = true)
    (hl : lexChars r = some v) (hrest : startsLt rest = true) :
    step (r ++ rest) = some ([Tok.text v], rest) := by
  have hq : ∀ x ∈ r, (x != '<') = true := fun x hx => by simp [(valOk_mem hr hx).1]
  have h1 := takeWhile_stop (· != '<') r rest hq hrest
  have h2 := dropWhile_stop (· != '<') r rest hq hrest
  cases r with
  | nil => exact absurd rfl hne
  | cons c r' =>
    have hc : c ≠ '<' := (valOk_mem hr (List.mem_cons_self ..)).1
    simp only [List.cons_append] at h1 h2 ⊢
    simp only [step, hc, if_false, textRun, h1, h2, hl]

/-! ### the token loop -/

theorem tokF_step (f : Nat) (pre rest : Str) (tk ts : List Tok) (hpre : pre ≠ [])
    (hs : step (pre ++ rest) = some (tk, rest)) (ht : tokF f rest = some ts) :
    tokF (f + 1) (pre ++ rest) = some (tk ++ ts) := by
  cases pre with
  | nil => exact absurd rfl hpre
  | cons c p =>
    simp only [List.cons_append] at hs ⊢
    simp only [tokF, hs, ht, List.length_append]
    simp

theorem tokF_mono : ∀ (f : Nat) (s : Str) (ts : List Tok), tokF f s = some ts →
    tokF (f + 1) s = some ts
  | _, [], ts, h => by simpa [tokF] using h
  | 0, _ :: _, _, h => by simp [tokF] at h
  | f + 1, c :: r, ts, h => by
      simp only [tokF] at h ⊢
      cases hs : step (c :: r) with
      | none => simp [hs] at h
      | some p =>
        obtain ⟨tk, rest⟩ := p
        simp only [hs] at h ⊢
        split at h
        · rename_i hle
          cases hr : tokF f rest with
          | none => simp [hr] at h
          | some more =>
            simp only [hr] at h
            simp only [hle, if_true, tokF_mono f rest more hr]
            exact h
        · simp at h

theorem tokF_mono_add (f k : Nat) (s : Str) (ts : List Tok) (h : tokF f s = some ts) :
    tokF (f + k) s = some ts := by
  induction k with
  | zero => exact h
  | succ k ih => exact tokF_mono _ _ _ ih

/-- a result obtained with any fuel is the result with fuel `length + 1` (every step consumes
    input), i.e. the result of `tokenize` -/
theorem tokF_enough : ∀ (g : Nat) (s : Str) (ts : List Tok), tokF g s = some ts →
    ∀ f, s.length < f → tokF f s = some ts
  | _, [], ts, h, f, _ => by
      cases f <;> simpa [tokF] using h
  | 0, _ :: _, _, h, _, _ => by simp [tokF] at h
  | g + 1, c :: r, ts, h, f, hf => by
      obtain ⟨f', rfl⟩ : ∃ f', f = f' + 1 := ⟨f - 1, by omega⟩
      simp only [tokF] at h ⊢
      cases hs : step (c :: r) with
      | none => simp [hs] at h
      | some p =>
        obtain ⟨tk, rest⟩ := p
        simp only [hs] at h ⊢
        split at h
        · rename_i hle
          cases hr : tokF g rest with
          | none => simp [hr] at h
          | some more =>
            simp only [hr] at h
            have := tokF_enough g rest more hr f' (by simp at hf; omega)
            simp only [hle, if_true, this]
            exact h
        · simp at h

theorem tokenize_of_tokF (g : Nat) (s : Str) (ts : List Tok) (h : tokF g s = some ts) :
    tokenize s = some ts := tokF_enough g s ts h _ (Nat.lt_succ_self _)

/-! ### the tree induction -/

mutual
/-- an upper bound on the `step`s the tokenizer needs for the rendering of a tree -/
def stepsN : Node → Nat
  | .elem _ _ _ kids => 2 + stepsKids kids
  | _ => 1
def stepsKids : List Node → Nat
  | [] => 0
  | k :: ks => stepsN k + stepsKids ks
end

def isTextNode : Node → Bool
  | .text _ => true
  | _ => false

theorem tokF_step' (f : Nat) (s rest : Str) (tk ts : List Tok)
    (hs : step s = some (tk, rest)) (hlen : rest.length < s.length)
    (ht : tokF f rest = some ts) : tokF (f + 1) s = some (tk ++ ts) := by
  cases s with
  | nil => simp at hlen
  | cons c r =>
    have : rest.length ≤ r.length := by simp at hlen; omega
    simp only [tokF, hs, ht, this, if_true]

theorem render_selfclose (cfg : EncCfg) (hg : cfg.goEmpty = false) (sp name : Str)
    (attrs : List Attr) :
    render cfg (.elem sp name attrs []) = '<' :: (name ++ (renderAttrs cfg attrs ++ tagEnd true)) := by
  simp [render, endOf, hg, tagEnd]

theorem render_open (cfg : EncCfg) (sp name : Str) (attrs : List Attr) (kids : List Node)
    (h : kids ≠ [] ∨ cfg.goEmpty = true) :
    render cfg (.elem sp name attrs kids)
      = '<' :: (name ++ (renderAttrs cfg attrs ++ (tagEnd false ++
          (renderKids cfg kids ++ ('<' :: '/' :: (name ++ ['>'])))))) := by
  cases kids with
  | nil =>
    have hg : cfg.goEmpty = true := by simpa using h
    simp [render, endOf, hg, tagEnd, renderKids, closeTag]
  | cons k ks => simp [render, tagEnd, closeTag]

theorem rawView_elem_head {k k' : Node} (h : rawView k = some k') (hw : wellNamedNode k' = true)
    (ht : isTextNode k' = false) : ∃ sp name attrs kids, k = .elem sp name attrs kids := by
  cases k with
  | elem sp name attrs kids => exact ⟨_, _, _, _, rfl⟩
  | text s =>
    simp only [rawView, Option.map_eq_some_iff] at h
    obtain ⟨v, _, rfl⟩ := h
    simp [isTextNode] at ht
  | comment s => simp only [rawView, Option.some.injEq] at h; subst h; simp [wellNamedNode] at hw
  | procinst t i => simp only [rawView, Option.some.injEq] at h; subst h; simp [wellNamedNode] at hw
  | directive s => simp only [rawView, Option.some.injEq] at h; subst h; simp [wellNamedNode] at hw

theorem noAdjKids_tail {k : Node} {rest : List Node} (h : noAdjTextKids (k :: rest) = true) :
    noAdjTextKids rest = true := by
  unfold noAdjTextKids at h
  split at h
  · rename_i heq; cases heq
  · cases h
  · rename_i k' rest' _ heq
    cases heq
    simp only [Bool.and_eq_true] at h
    exact h.2

theorem noAdjKids_head {k : Node} {rest : List Node} (h : noAdjTextKids (k :: rest) = true) :
    noAdjText k = true := by
  unfold noAdjTextKids at h
  split at h
  · rename_i heq; cases heq
  · cases h
  · rename_i k' rest' _ heq
    cases heq
    simp only [Bool.and_eq_true] at h
    exact h.1

theorem noAdjKids_text {s : Str} {rest : List Node} (h : noAdjTextKids (.text s :: rest) = true) :
    ∀ s' r', rest ≠ .text s' :: r' := by
  intro s' r' e
  subst e
  simp [noAdjTextKids] at h

theorem startsLt_elem (cfg : EncCfg) (sp name : Str) (attrs : List Attr) (kids : List Node)
    (tl : Str) : startsLt (render cfg (.elem sp name attrs kids) ++ tl) = true := by
  simp [render, startsLt, stops]

mutual
theorem tokF_node (cfg : EncCfg) (hesc : cfg.escape = false) :
    ∀ (n n' : Node) (rest : Str) (f : Nat) (ts : List Tok),
    rawView n = some n' → (nodeVals n).all valOk = true → wellNamedNode n' = true →
    noAdjText n' = true → (isTextNode n = true → startsLt rest = true) →
    tokF f rest = some ts →
    tokF (f + stepsN n) (render cfg n ++ rest) = some (flatten n' ++ ts)
  | .elem sp name attrs kids, n', rest, f, ts, hv, hs, hw, hadj, _, ht => by
      simp only [rawView] at hv
      cases hra : rawAttrs attrs with
      | none => simp [hra] at hv
      | some a' =>
        cases hrk : rawViewKids kids with
        | none => simp [hra, hrk] at hv
        | some k' =>
          simp only [hra, hrk, Option.some.injEq] at hv
          subst hv
          simp only [wellNamedNode, Bool.and_eq_true, List.isEmpty_iff] at hw
          obtain ⟨⟨⟨hsp, hname⟩, hattrs⟩, hkids⟩ := hw
          subst hsp
          simp only [nodeVals, List.all_append, Bool.and_eq_true, List.all_map] at hs
          have hsa : ∀ a ∈ attrs, valOk a.value = true := fun a ha =>
            List.all_eq_true.1 hs.1 a ha
          simp only [noAdjText] at hadj
          by_cases hsc : kids = [] ∧ cfg.goEmpty = false
          · -- `<name …/>`
            obtain ⟨hk, hg⟩ := hsc
            subst hk
            simp only [rawViewKids, Option.some.injEq] at hrk
            subst hrk
            have hstep := step_start cfg hesc name attrs a' true rest hname hra hsa hattrs
            have h1 := tokF_step' f _ rest _ ts hstep (by simp [tagEnd]; omega) ht
            have h2 := tokF_mono_add (f + 1) 1 _ _ h1
            have he : f + stepsN (.elem [] name attrs []) = f + 1 + 1 := by
              simp only [stepsN, stepsKids]
            rw [he, render_selfclose cfg hg]
            simpa [flatten, flattenKids] using h2
          · -- `<name …>` kids `</name>`
            have hopen : kids ≠ [] ∨ cfg.goEmpty = true := by
              by_cases hk : kids = []
              · right
                cases hg : cfg.goEmpty with
                | true => rfl
                | false => exact absurd ⟨hk, hg⟩ hsc
              · left; exact hk
            have h1 : tokF (f + 1) ('<' :: '/' :: (name ++ '>' :: rest))
                = some ([Tok.stop [] name] ++ ts) :=
              tokF_step' f _ rest _ ts (step_stop name rest hname) (by simp; omega) ht
            have h2 := tokF_kids cfg hesc kids k' ('<' :: '/' :: (name ++ '>' :: rest)) (f + 1)
              ([Tok.stop [] name] ++ ts) hrk hs.2 hkids hadj (by simp [startsLt, stops]) h1
            have hstep := step_start cfg hesc name attrs a' false
              (renderKids cfg kids ++ ('<' :: '/' :: (name ++ '>' :: rest))) hname hra hsa hattrs
            have h3 := tokF_step' (f + 1 + stepsKids kids) _ _ _ _ hstep (by simp; omega) h2
            have he : f + stepsN (.elem [] name attrs kids) = f + 1 + stepsKids kids + 1 := by
              simp [stepsN]; omega
            rw [he, render_open cfg [] name attrs kids hopen]
            simpa [flatten] using h3
  | .text r, n', rest, f, ts, hv, hs, hw, _, hafter, ht => by
      simp only [rawView, Option.map_eq_some_iff] at hv
      obtain ⟨v, hu, rfl⟩ := hv
      simp only [wellNamedNode, Bool.and_eq_true, Bool.not_eq_true', List.isEmpty_eq_false_iff] at hw
      simp only [nodeVals, List.all_cons, List.all_nil, Bool.and_true] at hs
      have hne : r ≠ [] := by
        intro e; subst e
        simp [unesc, unescF] at hu
        exact hw.1 hu
      have hl := lexChars_ok r v hs hu hw.2
      have hstep := step_text r v rest hne hs hl (hafter rfl)
      have h1 := tokF_step' f _ rest _ ts hstep (by
        cases r with
        | nil => exact absurd rfl hne
        | cons c r' => simp; omega) ht
      simpa [stepsN, render, escIf, hesc, flatten] using h1
  | .comment s, n', _, _, _, hv, _, hw, _, _, _ => by
      simp only [rawView, Option.some.injEq] at hv; subst hv; simp [wellNamedNode] at hw
  | .procinst t i, n', _, _, _, hv, _, hw, _, _, _ => by
      simp only [rawView, Option.some.injEq] at hv; subst hv; simp [wellNamedNode] at hw
  | .directive s, n', _, _, _, hv, _, hw, _, _, _ => by
      simp only [rawView, Option.some.injEq] at hv; subst hv; simp [wellNamedNode] at hw
theorem tokF_kids (cfg : EncCfg) (hesc : cfg.escape = false) :
    ∀ (ks ks' : List Node) (rest : Str) (f : Nat) (ts : List Tok),
    rawViewKids ks = some ks' → (kidsVals ks).all valOk = true → wellNamedKids ks' = true →
    noAdjTextKids ks' = true → startsLt rest = true →
    tokF f rest = some ts →
    tokF (f + stepsKids ks) (renderKids cfg ks ++ rest) = some (flattenKids ks' ++ ts)
  | [], ks', rest, f, ts, hv, _, _, _, _, ht => by
      simp only [rawViewKids, Option.some.injEq] at hv
      subst hv
      simpa [stepsKids, renderKids, flattenKids] using ht
  | k :: ks, ks', rest, f, ts, hv, hs, hw, hadj, hrest, ht => by
      simp only [rawViewKids] at hv
      cases hk : rawView k with
      | none => simp [hk] at hv
      | some k' =>
        cases hks : rawViewKids ks with
        | none => simp [hk, hks] at hv
        | some ks2 =>
          simp only [hk, hks, Option.some.injEq] at hv
          subst hv
          simp only [wellNamedKids, Bool.and_eq_true] at hw
          simp only [kidsVals, List.all_append, Bool.and_eq_true] at hs
          have ih := tokF_kids cfg hesc ks ks2 rest f ts hks hs.2 hw.2
            (noAdjKids_tail hadj) hrest ht
          have hafter : isTextNode k = true → startsLt (renderKids cfg ks ++ rest) = true := by
            intro hkt
            cases k with
            | text r =>
              simp only [rawView, Option.map_eq_some_iff] at hk
              obtain ⟨v, _, rfl⟩ := hk
              cases ks with
              | nil => simpa [renderKids] using hrest
              | cons k2 ks3 =>
                simp only [rawViewKids] at hks
                cases hk2 : rawView k2 with
                | none => simp [hk2] at hks
                | some k2' =>
                  cases hks3 : rawViewKids ks3 with
                  | none => simp [hk2, hks3] at hks
                  | some ks3' =>
                    simp only [hk2, hks3, Option.some.injEq] at hks
                    subst hks
                    have hnt : isTextNode k2' = false := by
                      cases k2' with
                      | text s' => exact absurd rfl (noAdjKids_text hadj s' ks3')
                      | _ => rfl
                    simp only [wellNamedKids, Bool.and_eq_true] at hw
                    obtain ⟨sp, name, attrs, kids, rfl⟩ := rawView_elem_head hk2 hw.2.1 hnt
                    simp only [renderKids, List.append_assoc]
                    exact startsLt_elem cfg sp name attrs kids _
            | elem _ _ _ _ => simp [isTextNode] at hkt
            | comment _ => simp [isTextNode] at hkt
            | procinst _ _ => simp [isTextNode] at hkt
            | directive _ => simp [isTextNode] at hkt
          have h := tokF_node cfg hesc k k' (renderKids cfg ks ++ rest) (f + stepsKids ks)
            (flattenKids ks2 ++ ts) hk hs.1 hw.1 (noAdjKids_head hadj) hafter ih
          have he : f + stepsKids (k :: ks) = f + stepsKids ks + stepsN k := by
            simp [stepsKids]; omega
          rw [he]
          simpa [renderKids, flattenKids, List.append_assoc] using h
end

/-- the tokenizer inverts `render` (escaping off) on raw trees: if every raw value is `valOk`
    and reads back (`rawView`) as a well-named tree, tokenizing the rendering succeeds with
    the token sequence of that tree -/
theorem tokenize_render_raw (cfg : EncCfg) (hesc : cfg.escape = false) (n n' : Node)
    (hv : rawView n = some n') (hs : (nodeVals n).all valOk = true)
    (hW : WellNamed n' = true) : tokenize (render cfg n) = some (flatten n') := by
  unfold WellNamed at hW
  simp only [Bool.and_eq_true] at hW
  have h := tokF_node cfg hesc n n' [] 0 [] hv hs hW.1 hW.2 (fun _ => rfl) rfl
  simp only [List.append_nil] at h
  exact tokenize_of_tokF _ _ _ h

/-! ### a raw carriage return survives entity expansion -/

theorem numRef_split (digit : Char → Option Nat) (base : Nat) :
    ∀ (s : Str) (acc : Nat) (seen : Bool) (n : Nat) (rest : Str),
    numRef digit base s acc seen = some (n, rest) →
    ∃ p, s = p ++ rest ∧ ∀ c ∈ p, c = ';' ∨ (digit c).isSome = true
  | [], _, _, _, _, h => by simp [numRef] at h
  | c :: r, acc, seen, n, rest, h => by
      unfold numRef at h
      split at h
      · rename_i heq; cases heq
      · rename_i r0 acc0 seen0 heq
        cases heq
        split at h
        · simp only [Option.some.injEq, Prod.mk.injEq] at h
          exact ⟨[';'], by simp [h.2], by simp⟩
        · cases h
      · rename_i c0 r0 acc0 _ _ heq
        cases heq
        cases hd : digit c with
        | none => simp [hd] at h
        | some d =>
          simp only [hd] at h
          obtain ⟨p, hp, hall⟩ := numRef_split digit base r _ _ n rest h
          refine ⟨c :: p, by simp [hp], ?_⟩
          intro x hx
          rcases List.mem_cons.1 hx with rfl | hx
          · right; simp [hd]
          · exact hall x hx

theorem matchRef_split (s : Str) (d : Char) (rest : Str) (h : matchRef s = some (d, rest)) :
    ∃ p, s = p ++ rest ∧ '\r' ∉ p := by
  unfold matchRef at h
  split at h
  · rename_i r hf
    simp only [Option.some.injEq] at h
    subst h
    obtain ⟨x, hx, hfx⟩ := List.exists_of_findSome?_eq_some hf
    obtain ⟨p, ch⟩ := x
    simp only at hfx
    split at hfx
    · rename_i hpre
      simp only [Option.some.injEq, Prod.mk.injEq] at hfx
      obtain ⟨t, ht⟩ := List.isPrefixOf_iff_prefix.1 hpre
      refine ⟨p, ?_, ?_⟩
      · rw [← hfx.2, ← ht]; simp
      · simp only [namedEnts, List.mem_cons, Prod.mk.injEq, List.mem_nil_iff, or_false] at hx
        rcases hx with h | h | h | h | h <;> (rw [h.1]; decide)
    · cases hfx
  · split at h
    · rename_i r0 _
      cases hn : numRef hexDigitVal 16 r0 0 false with
      | none => simp [hn] at h
      | some q =>
        obtain ⟨n, r1⟩ := q
        simp only [hn, Option.map_eq_some_iff, Prod.mk.injEq] at h
        obtain ⟨_, _, _, rfl⟩ := h
        obtain ⟨p, hp, hall⟩ := numRef_split _ _ _ _ _ _ _ hn
        refine ⟨'&' :: '#' :: 'x' :: p, by simp [hp], ?_⟩
        intro hm
        simp only [List.mem_cons] at hm
        rcases hm with h | h | h | h
        · exact absurd h (by decide)
        · exact absurd h (by decide)
        · exact absurd h (by decide)
        · rcases hall _ h with h' | h'
          · exact absurd h' (by decide)
          · exact absurd h' (by decide)
    · rename_i r0 _ _
      cases hn : numRef decDigitVal 10 r0 0 false with
      | none => simp [hn] at h
      | some q =>
        obtain ⟨n, r1⟩ := q
        simp only [hn, Option.map_eq_some_iff, Prod.mk.injEq] at h
        obtain ⟨_, _, _, rfl⟩ := h
        obtain ⟨p, hp, hall⟩ := numRef_split _ _ _ _ _ _ _ hn
        refine ⟨'&' :: '#' :: p, by simp [hp], ?_⟩
        intro hm
        simp only [List.mem_cons] at hm
        rcases hm with h | h | h
        · exact absurd h (by decide)
        · exact absurd h (by decide)
        · rcases hall _ h with h' | h'
          · exact absurd h' (by decide)
          · exact absurd h' (by decide)
    · cases h

theorem unescF_keeps_cr : ∀ (f : Nat) (s v : Str), unescF f s = some v → '\r' ∈ s → '\r' ∈ v
  | _, [], _, _, hm => by simp at hm
  | 0, _ :: _, _, h, _ => by simp [unescF] at h
  | f + 1, c :: r, v, h, hm => by
      simp only [unescF] at h
      split at h
      · rename_i hc
        cases hr : matchRef (c :: r) with
        | none => simp [hr] at h
        | some q =>
          obtain ⟨d, rest⟩ := q
          simp only [hr, Option.map_eq_some_iff] at h
          obtain ⟨v', hv', rfl⟩ := h
          obtain ⟨p, hp, hnp⟩ := matchRef_split _ _ _ hr
          have : '\r' ∈ rest := by
            rw [hp] at hm
            rcases List.mem_append.1 hm with h | h
            · exact absurd h hnp
            · exact h
          exact List.mem_cons_of_mem _ (unescF_keeps_cr f rest v' hv' this)
      · split at h
        · cases h
        · simp only [Option.map_eq_some_iff] at h
          obtain ⟨v', hv', rfl⟩ := h
          rcases List.mem_cons.1 hm with h | h
          · rw [← h]; exact List.mem_cons_self ..
          · exact List.mem_cons_of_mem _ (unescF_keeps_cr f r v' hv' h)

theorem valOk_of_raw (r v : Str) (hs : rawSafeStr r = true) (hu : unesc r = some v)
    (hv : xmlCharsOk v = true) : valOk r = true := by
  have hcr : '\r' ∉ r := by
    intro hm
    have := unescF_keeps_cr _ _ _ hu hm
    simp only [xmlCharsOk, List.all_eq_true, Bool.and_eq_true] at hv
    simpa using (hv _ this).2
  simp only [rawSafeStr, List.all_eq_true, Bool.and_eq_true] at hs
  simp only [valOk, List.all_eq_true, Bool.and_eq_true]
  intro c hc
  refine ⟨hs c hc, ?_⟩
  simp only [bne_iff_ne, ne_eq]
  intro e; subst e; exact hcr hc

/-! ### from the hypotheses of `TokLawRaw` to `valOk` -/

theorem valsOk_attrs : ∀ (attrs a' : List Attr), rawAttrs attrs = some a' →
    (attrs.map (·.value)).all rawSafeStr = true →
    a'.all (fun a => a.space.isEmpty && xmlNameOk a.name && xmlCharsOk a.value) = true →
    (attrs.map (·.value)).all valOk = true
  | [], _, _, _, _ => rfl
  | a :: as, a', hv, hs, hw => by
      simp only [rawAttrs] at hv
      cases hu : unesc a.value with
      | none => simp [hu] at hv
      | some v =>
        cases hr : rawAttrs as with
        | none => simp [hu, hr] at hv
        | some r' =>
          simp only [hu, hr, Option.some.injEq] at hv
          subst hv
          simp only [List.all_cons, Bool.and_eq_true] at hw
          simp only [List.map_cons, List.all_cons, Bool.and_eq_true] at hs ⊢
          exact ⟨valOk_of_raw _ v hs.1 hu hw.1.2, valsOk_attrs as r' hr hs.2 hw.2⟩

mutual
theorem valsOk_node : ∀ (n n' : Node), rawView n = some n' →
    (nodeVals n).all rawSafeStr = true → wellNamedNode n' = true →
    (nodeVals n).all valOk = true
  | .elem sp name attrs kids, n', hv, hs, hw => by
      simp only [rawView] at hv
      cases hra : rawAttrs attrs with
      | none => simp [hra] at hv
      | some a' =>
        cases hrk : rawViewKids kids with
        | none => simp [hra, hrk] at hv
        | some k' =>
          simp only [hra, hrk, Option.some.injEq] at hv
          subst hv
          simp only [wellNamedNode, Bool.and_eq_true] at hw
          simp only [nodeVals, List.all_append, Bool.and_eq_true] at hs ⊢
          exact ⟨valsOk_attrs attrs a' hra hs.1 hw.1.2, valsOk_kids kids k' hrk hs.2 hw.2⟩
  | .text r, n', hv, hs, hw => by
      simp only [rawView, Option.map_eq_some_iff] at hv
      obtain ⟨v, hu, rfl⟩ := hv
      simp only [wellNamedNode, Bool.and_eq_true] at hw
      simp only [nodeVals, List.all_cons, List.all_nil, Bool.and_true] at hs ⊢
      exact valOk_of_raw r v hs hu hw.2
  | .comment _, _, _, _, _ => rfl
  | .procinst _ _, _, _, _, _ => rfl
  | .directive _, _, _, _, _ => rfl
theorem valsOk_kids : ∀ (ks ks' : List Node), rawViewKids ks = some ks' →
    (kidsVals ks).all rawSafeStr = true → wellNamedKids ks' = true →
    (kidsVals ks).all valOk = true
  | [], _, _, _, _ => rfl
  | k :: ks, ks', hv, hs, hw => by
      simp only [rawViewKids] at hv
      cases hk : rawView k with
      | none => simp [hk] at hv
      | some k' =>
        cases hks : rawViewKids ks with
        | none => simp [hk, hks] at hv
        | some ks2 =>
          simp only [hk, hks, Option.some.injEq] at hv
          subst hv
          simp only [wellNamedKids, Bool.and_eq_true] at hw
          simp only [kidsVals, List.all_append, Bool.and_eq_true] at hs ⊢
          exact ⟨valsOk_node k k' hk hs.1 hw.1, valsOk_kids ks ks2 hks hs.2 hw.2⟩
end

/-- the tokenizer law for raw text, `Option` form: under the hypotheses of `TokLawRaw` the
    model tokenizer succeeds on the rendering, with the tokens of the tree the values denote -/
theorem tokenize_render (cfg : EncCfg) (hesc : cfg.escape = false) (n n' : Node)
    (hv : rawView n = some n') (hs : rawSafe n = true) (hW : WellNamed n' = true) :
    tokenize (render cfg n) = some (flatten n') := by
  have hw := hW
  unfold WellNamed at hw
  simp only [Bool.and_eq_true] at hw
  exact tokenize_render_raw cfg hesc n n' hv (valsOk_node n n' hv hs hw.1) hW

end Mxj.Tokz
