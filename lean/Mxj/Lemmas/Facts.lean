/-
  Mxj.Lemmas.Facts — reading the regenerated call-graph facts: transitive reachability and the
  "closed set" certificate check (the extractor supplies the closure; Lean only checks that it is
  closed and contains the roots, then lifts by `reach_subset_of_closed`).
-/
import Mxj.Generated.CallFacts
namespace Mxj.Facts
open Mxj.Generated

def factOf (f : String) : Option (String × List String × List String × List String) :=
  funcFacts.find? (·.1 == f)

def readsOf (f : String) : List String := match factOf f with | some x => x.2.1 | none => []
def writesOf (f : String) : List String := match factOf f with | some x => x.2.2.1 | none => []
def calleesOf (f : String) : List String := match factOf f with | some x => x.2.2.2 | none => []

/-- `g` is reachable from `f` through static calls inside the package -/
inductive Reach : String → String → Prop where
  | refl (f : String) : Reach f f
  | step {f g h : String} : Reach f g → h ∈ calleesOf g → Reach f h

/-- a set of functions closed under the callee relation -/
def closed (S : List String) : Bool := S.all fun f => (calleesOf f).all fun g => S.contains g

theorem reach_subset_of_closed (S : List String) (hc : closed S = true) (f g : String)
    (hf : f ∈ S) (h : Reach f g) : g ∈ S := by
  induction h with
  | refl => exact hf
  | step _ hh ih =>
    have := (List.all_eq_true.mp hc) _ ih
    have := (List.all_eq_true.mp this) _ hh
    simpa using this

/-- no function of `S` reads any of `vars` -/
def noneReads (S vars : List String) : Bool :=
  S.all fun f => vars.all fun v => !(readsOf f).contains v

/-- no function of `S` writes a package-level variable -/
def noneWrites (S : List String) : Bool := S.all fun f => (writesOf f).isEmpty

theorem not_reads_of_cert (S vars : List String) (hc : closed S = true) (hn : noneReads S vars = true)
    (root g v : String) (hr : root ∈ S) (h : Reach root g) (hv : v ∈ vars) : v ∉ readsOf g := by
  have hg := reach_subset_of_closed S hc root g hr h
  have := (List.all_eq_true.mp hn) _ hg
  have := (List.all_eq_true.mp this) _ hv
  simpa using this

theorem not_writes_of_cert (S : List String) (hc : closed S = true) (hn : noneWrites S = true)
    (root g : String) (hr : root ∈ S) (h : Reach root g) : writesOf g = [] := by
  have hg := reach_subset_of_closed S hc root g hr h
  have := (List.all_eq_true.mp hn) _ hg
  simpa using this

/-- every function of `S` reads only variables of `allowed` -/
def onlyReads (S allowed : List String) : Bool :=
  S.all fun f => (readsOf f).all fun v => allowed.contains v

theorem reads_subset_of_cert (S allowed : List String) (hc : closed S = true)
    (ho : onlyReads S allowed = true) (root g v : String) (hr : root ∈ S) (h : Reach root g)
    (hv : v ∈ readsOf g) : v ∈ allowed := by
  have hg := reach_subset_of_closed S hc root g hr h
  have := (List.all_eq_true.mp ho) _ hg
  have := (List.all_eq_true.mp this) _ hv
  simpa using this

theorem mem_of_all_contains' (roots S : List String) (h : roots.all (S.contains ·) = true)
    (r : String) (hr : r ∈ roots) : r ∈ S := by
  have := (List.all_eq_true.mp h) r hr
  simpa using this

end Mxj.Facts
