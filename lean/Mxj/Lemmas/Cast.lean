/-
  Mxj.Lemmas.Cast — the decision chain of `cast`, the "only string leaves" predicate, and the
  leaf-wise cast relation `CastRel` between an un-cast and a cast decoding, with the
  preservation lemmas for every decoder step.
-/
import Mxj.Model.Decode
namespace Mxj

/-! ### the decision chain of `cast` -/

/-- the skip-tag test (`checkTagToSkip != nil && t != "" && checkTagToSkip(t)`) -/
def castSkipped (c : CastCfg) (t : Str) : Bool := c.skipSet && !t.isEmpty && c.skip.contains t

/-- the bool screen: non-empty, shorter than 6, first letter one of t T f F -/
def boolScreen (s : Str) : Bool :=
  !s.isEmpty && s.length < 6
    && (s.head? = some 't' || s.head? = some 'T' || s.head? = some 'f' || s.head? = some 'F')

theorem cast_skipped (S : Strconv) (c : CastCfg) (s t : Str) (h : castSkipped c t = true) :
    cast S c s t = .str s := by
  unfold castSkipped at h
  unfold cast; rw [if_pos h]

theorem cast_off (S : Strconv) (c : CastCfg) (s t : Str) (h : c.r = false) :
    cast S c s t = .str s := by
  unfold cast
  split
  · rfl
  · simp [h]

theorem cast_nanword (S : Strconv) (c : CastCfg) (s t : Str)
    (hn : c.nanInf = false) (hw : isNanInfWord S s = true) : cast S c s t = .str s := by
  unfold cast
  split
  · rfl
  · split
    · rfl
    · simp [hn, hw]

/-- past the three guards, the chain proper -/
def castChain (S : Strconv) (c : CastCfg) (s : Str) : Val :=
  let asInt : Option Val :=
    if c.toInt then
      match S.parseInt s with
      | some t => some (.num t)
      | none => (S.parseUint s).map Val.num
    else none
  match asInt with
  | some v => v
  | none =>
    let asFloat : Option (Option Val) :=
      if c.toFloat then
        match S.parseFloat s with
        | some (t, special) => if !c.nanInf && special then some none else some (some (.num t))
        | none => none
      else none
    match asFloat with
    | some (some v) => v
    | some none => .str s
    | none =>
      if c.toBool && boolScreen s then
        match parseBool s with
        | some b => .bool b
        | none => .str s
      else .str s

theorem cast_eq_chain (S : Strconv) (c : CastCfg) (s t : Str)
    (hs : castSkipped c t = false) (hr : c.r = true)
    (hg : (!c.nanInf && isNanInfWord S s) = false) : cast S c s t = castChain S c s := by
  unfold castSkipped at hs
  unfold cast castChain boolScreen
  rw [if_neg (by rw [hs]; exact Bool.false_ne_true), if_neg (by simp [hr]),
    if_neg (by rw [hg]; exact Bool.false_ne_true)]
  simp only [Bool.and_assoc]
  rfl

/-- the whole chain in one equation -/
theorem cast_eq (S : Strconv) (c : CastCfg) (s t : Str) :
    cast S c s t =
      if castSkipped c t then .str s
      else if !c.r then .str s
      else if !c.nanInf && isNanInfWord S s then .str s
      else castChain S c s := by
  cases hs : castSkipped c t with
  | true => simp [cast_skipped S c s t hs]
  | false =>
    cases hr : c.r with
    | false => simp [cast_off S c s t hr]
    | true =>
      cases hg : (!c.nanInf && isNanInfWord S s) with
      | true =>
        simp only [Bool.and_eq_true, Bool.not_eq_true'] at hg
        simp [cast_nanword S c s t hg.1 hg.2]
      | false => simp [cast_eq_chain S c s t hs hr hg]

/-- the key matters only through the skip-tag test -/
theorem cast_key_irrelevant (S : Strconv) (c : CastCfg) (s t t' : Str) (h : c.skipSet = false) :
    cast S c s t = cast S c s t' := by
  rw [cast_eq, cast_eq]; simp [castSkipped, h]

theorem castChain_int (S : Strconv) (c : CastCfg) (s x : Str)
    (hi : c.toInt = true) (hp : S.parseInt s = some x) : castChain S c s = .num x := by
  simp [castChain, hi, hp]

theorem castChain_uint (S : Strconv) (c : CastCfg) (s x : Str)
    (hi : c.toInt = true) (hp : S.parseInt s = none) (hu : S.parseUint s = some x) :
    castChain S c s = .num x := by
  simp [castChain, hi, hp, hu]

/-- "no integer result": integers off, or both integer parsers fail -/
def noInt (S : Strconv) (c : CastCfg) (s : Str) : Prop :=
  c.toInt = false ∨ (S.parseInt s = none ∧ S.parseUint s = none)

theorem castChain_float (S : Strconv) (c : CastCfg) (s x : Str) (sp : Bool)
    (hi : noInt S c s) (hf : c.toFloat = true) (hp : S.parseFloat s = some (x, sp))
    (hsp : c.nanInf = true ∨ sp = false) : castChain S c s = .num x := by
  rcases hi with hi | ⟨h1, h2⟩ <;> rcases hsp with h | h <;> simp [castChain, *]

theorem castChain_float_special (S : Strconv) (c : CastCfg) (s x : Str)
    (hi : noInt S c s) (hf : c.toFloat = true) (hp : S.parseFloat s = some (x, true))
    (hn : c.nanInf = false) : castChain S c s = .str s := by
  rcases hi with hi | ⟨h1, h2⟩ <;> simp [castChain, *]

/-- "no float result": floats off or ParseFloat fails -/
def noFloat (S : Strconv) (c : CastCfg) (s : Str) : Prop :=
  c.toFloat = false ∨ S.parseFloat s = none

theorem castChain_bool (S : Strconv) (c : CastCfg) (s : Str) (b : Bool)
    (hi : noInt S c s) (hf : noFloat S c s) (hb : c.toBool = true) (hscr : boolScreen s = true)
    (hp : parseBool s = some b) : castChain S c s = .bool b := by
  rcases hi with hi | ⟨h1, h2⟩ <;> rcases hf with hf | hf <;> simp [castChain, *]

theorem castChain_str (S : Strconv) (c : CastCfg) (s : Str)
    (hi : noInt S c s) (hf : noFloat S c s)
    (hb : c.toBool = false ∨ boolScreen s = false ∨ parseBool s = none) :
    castChain S c s = .str s := by
  rcases hi with hi | ⟨h1, h2⟩ <;> rcases hf with hf | hf <;> rcases hb with hb | hb | hb <;>
    simp [castChain, *]

theorem castChain_result (S : Strconv) (c : CastCfg) (s : Str) :
    castChain S c s = .str s ∨ (∃ x, castChain S c s = .num x) ∨ (∃ b, castChain S c s = .bool b) := by
  unfold castChain
  simp only
  split
  · rename_i v hv
    split at hv
    · split at hv
      · cases hv; exact Or.inr (Or.inl ⟨_, rfl⟩)
      · cases hu : S.parseUint s with
        | none => simp [hu] at hv
        | some u => simp [hu] at hv; subst hv; exact Or.inr (Or.inl ⟨_, rfl⟩)
    · cases hv
  · split
    · rename_i v hv
      split at hv
      · split at hv
        · split at hv
          · cases hv
          · cases hv; exact Or.inr (Or.inl ⟨_, rfl⟩)
        · cases hv
      · cases hv
    · exact Or.inl rfl
    · split
      · split
        · exact Or.inr (Or.inr ⟨_, rfl⟩)
        · exact Or.inl rfl
      · exact Or.inl rfl

theorem cast_result (S : Strconv) (c : CastCfg) (s t : Str) :
    cast S c s t = .str s ∨ (∃ x, cast S c s t = .num x) ∨ (∃ b, cast S c s t = .bool b) := by
  rw [cast_eq]
  split
  · exact Or.inl rfl
  · split
    · exact Or.inl rfl
    · split
      · exact Or.inl rfl
      · exact castChain_result S c s

/-- a numeric result of the chain came from an integer parser or from a ParseFloat that was
    let through by the special-value guard -/
theorem castChain_num (S : Strconv) (c : CastCfg) (s x : Str) (h : castChain S c s = .num x) :
    (c.toInt = true ∧ (S.parseInt s = some x ∨ (S.parseInt s = none ∧ S.parseUint s = some x))) ∨
    (noInt S c s ∧ c.toFloat = true ∧ ∃ sp, S.parseFloat s = some (x, sp) ∧ (c.nanInf = true ∨ sp = false)) := by
  unfold castChain at h
  simp only at h
  cases hi : c.toInt with
  | true =>
    simp only [hi, if_true] at h
    cases hp : S.parseInt s with
    | some y =>
      simp only [hp] at h
      cases h; exact Or.inl ⟨rfl, Or.inl rfl⟩
    | none =>
      simp only [hp] at h
      cases hu : S.parseUint s with
      | some u =>
        simp only [hu, Option.map_some] at h
        cases h; exact Or.inl ⟨rfl, Or.inr ⟨rfl, rfl⟩⟩
      | none =>
        simp only [hu, Option.map_none] at h
        refine Or.inr ⟨Or.inr ⟨hp, hu⟩, ?_⟩
        cases hf : c.toFloat with
        | false =>
          simp only [hf, Bool.false_eq_true, if_false] at h
          split at h <;> (try split at h) <;> cases h
        | true =>
          simp only [hf, if_true] at h
          cases hpf : S.parseFloat s with
          | none =>
            simp only [hpf] at h
            split at h <;> (try split at h) <;> cases h
          | some r =>
            obtain ⟨y, sp⟩ := r
            simp only [hpf] at h
            cases hg : (!c.nanInf && sp) with
            | true => simp [hg] at h
            | false =>
              simp only [hg, Bool.false_eq_true, if_false] at h
              cases h
              refine ⟨rfl, sp, rfl, ?_⟩
              cases hn : c.nanInf <;> cases sp <;> simp_all
  | false =>
    simp only [hi, Bool.false_eq_true, if_false] at h
    refine Or.inr ⟨Or.inl hi, ?_⟩
    cases hf : c.toFloat with
    | false =>
      simp only [hf, Bool.false_eq_true, if_false] at h
      split at h <;> (try split at h) <;> cases h
    | true =>
      simp only [hf, if_true] at h
      cases hpf : S.parseFloat s with
      | none =>
        simp only [hpf] at h
        split at h <;> (try split at h) <;> cases h
      | some r =>
        obtain ⟨y, sp⟩ := r
        simp only [hpf] at h
        cases hg : (!c.nanInf && sp) with
        | true => simp [hg] at h
        | false =>
          simp only [hg, Bool.false_eq_true, if_false] at h
          cases h
          refine ⟨rfl, sp, rfl, ?_⟩
          cases hn : c.nanInf <;> cases sp <;> simp_all

/-- a non-string result means every guard was passed -/
theorem cast_ne_str_guards (S : Strconv) (c : CastCfg) (s t : Str) (h : cast S c s t ≠ .str s) :
    castSkipped c t = false ∧ c.r = true ∧ (!c.nanInf && isNanInfWord S s) = false ∧
      cast S c s t = castChain S c s := by
  rw [cast_eq] at h
  cases hs : castSkipped c t with
  | true => simp [hs] at h
  | false =>
    cases hr : c.r with
    | false => simp [hs, hr] at h
    | true =>
      cases hg : (!c.nanInf && isNanInfWord S s) with
      | true => simp [hs, hr, hg] at h
      | false => exact ⟨rfl, rfl, rfl, cast_eq_chain S c s t hs hr hg⟩

/-! ### association-list helpers -/

theorem Cast.mem_insert (k : Str) (v : Val) : ∀ (na : Entries) (e : Str × Val),
    e ∈ insert k v na → e = (k, v) ∨ e ∈ na := by
  intro na
  induction na with
  | nil => intro e h; simp [insert] at h; exact Or.inl h
  | cons hd rest ih =>
    obtain ⟨k', v'⟩ := hd
    intro e h
    unfold insert at h
    split at h
    · simp only [List.mem_cons] at h ⊢
      rcases h with h | h
      · exact Or.inl h
      · exact Or.inr (Or.inr h)
    · simp only [List.mem_cons] at h ⊢
      rcases h with h | h
      · exact Or.inr (Or.inl h)
      · rcases ih e h with h | h
        · exact Or.inl h
        · exact Or.inr (Or.inr h)

theorem Cast.lookup_mem (k : Str) : ∀ (na : Entries) (v : Val), lookup k na = some v → (k, v) ∈ na := by
  intro na
  induction na with
  | nil => intro v h; simp [lookup] at h
  | cons hd rest ih =>
    obtain ⟨k', v'⟩ := hd
    intro v h
    unfold lookup at h
    split at h
    · rename_i hk; cases h; subst hk; simp
    · exact List.mem_cons_of_mem _ (ih v h)

/-! ### "only string leaves" -/

def Val.isNum : Val → Bool | .num _ => true | _ => false

mutual
/-- every leaf is a string; with `seqOk` a map entry `_seq` may also hold a number -/
def strLeaves (seqOk : Bool) : Val → Bool
  | .str _ => true
  | .list xs => strLeavesList seqOk xs
  | .map kvs => strLeavesEntries seqOk kvs
  | _ => false
def strLeavesList (seqOk : Bool) : List Val → Bool
  | [] => true
  | x :: xs => strLeaves seqOk x && strLeavesList seqOk xs
def strLeavesEntries (seqOk : Bool) : Entries → Bool
  | [] => true
  | (k, v) :: rest =>
      (strLeaves seqOk v || (seqOk && k == "_seq".toList && v.isNum)) && strLeavesEntries seqOk rest
end

/-- strings only, and numbers only under the key `_seq` -/
def onlyStrLeaves (v : Val) : Bool := strLeaves true v

/-- strings only -/
def allStrLeaves (v : Val) : Bool := strLeaves false v

mutual
theorem strLeaves_mono : ∀ (v : Val), strLeaves false v = true → strLeaves true v = true
  | .null, h => by simp [strLeaves] at h
  | .bool _, h => by simp [strLeaves] at h
  | .num _, h => by simp [strLeaves] at h
  | .str _, _ => by simp [strLeaves]
  | .list xs, h => by
      simp only [strLeaves] at h ⊢; exact strLeavesList_mono xs h
  | .map kvs, h => by
      simp only [strLeaves] at h ⊢; exact strLeavesEntries_mono kvs h
theorem strLeavesList_mono : ∀ (xs : List Val), strLeavesList false xs = true → strLeavesList true xs = true
  | [], _ => by simp [strLeavesList]
  | x :: xs, h => by
      simp only [strLeavesList, Bool.and_eq_true] at h ⊢
      exact ⟨strLeaves_mono x h.1, strLeavesList_mono xs h.2⟩
theorem strLeavesEntries_mono : ∀ (kvs : Entries), strLeavesEntries false kvs = true → strLeavesEntries true kvs = true
  | [], _ => by simp [strLeavesEntries]
  | (k, v) :: rest, h => by
      simp only [strLeavesEntries, Bool.and_eq_true, Bool.or_eq_true, Bool.false_and, Bool.false_eq_true,
        or_false] at h ⊢
      exact ⟨Or.inl (strLeaves_mono v h.1), strLeavesEntries_mono rest h.2⟩
end

theorem strLeaves_of_cfg (b : Bool) (v : Val) (h : strLeaves b v = true) : onlyStrLeaves v = true := by
  cases b with
  | true => exact h
  | false => exact strLeaves_mono v h

theorem strLeavesList_append (b : Bool) : ∀ (xs ys : List Val),
    strLeavesList b (xs ++ ys) = (strLeavesList b xs && strLeavesList b ys) := by
  intro xs
  induction xs with
  | nil => intro ys; simp [strLeavesList]
  | cons x xs ih => intro ys; simp [strLeavesList, ih, Bool.and_assoc]

/-- the loose entries predicate, pointwise -/
theorem strLeavesEntries_iff (b : Bool) : ∀ (kvs : Entries), strLeavesEntries b kvs = true ↔
    ∀ e ∈ kvs, strLeaves b e.2 = true ∨ (b = true ∧ e.1 = "_seq".toList ∧ e.2.isNum = true) := by
  intro kvs
  induction kvs with
  | nil => simp [strLeavesEntries]
  | cons hd rest ih =>
    obtain ⟨k, v⟩ := hd
    simp only [strLeavesEntries, Bool.and_eq_true, Bool.or_eq_true, beq_iff_eq, ih, List.mem_cons,
      forall_eq_or_imp, and_assoc]

/-- the strict entries predicate (the element map under construction: no numbers at all) -/
def strictEntries (b : Bool) (na : Entries) : Prop := ∀ e ∈ na, strLeaves b e.2 = true

theorem strictEntries_nil (b : Bool) : strictEntries b [] := by
  intro e h; simp at h

theorem strictEntries_loose (b : Bool) (na : Entries) (h : strictEntries b na) :
    strLeavesEntries b na = true :=
  (strLeavesEntries_iff b na).2 (fun e he => Or.inl (h e he))

theorem strictEntries_insert (b : Bool) (na : Entries) (k : Str) (v : Val)
    (h : strictEntries b na) (hv : strLeaves b v = true) : strictEntries b (insert k v na) := by
  intro e he
  rcases Cast.mem_insert k v na e he with rfl | he
  · exact hv
  · exact h e he

theorem strictEntries_lookup (b : Bool) (na : Entries) (k : Str) (v : Val)
    (h : strictEntries b na) (hl : lookup k na = some v) : strLeaves b v = true :=
  h _ (Cast.lookup_mem k na v hl)

theorem strictEntries_addChild (b : Bool) (na : Entries) (k : Str) (v : Val)
    (h : strictEntries b na) (hv : strLeaves b v = true) : strictEntries b (addChild na k v) := by
  unfold addChild
  split
  · rename_i xs hl
    have := strictEntries_lookup b na k _ h hl
    simp only [strLeaves] at this
    apply strictEntries_insert b na k _ h
    simp [strLeaves, strLeavesList_append, this, strLeavesList, hv]
  · rename_i old _ hl
    have := strictEntries_lookup b na k _ h hl
    apply strictEntries_insert b na k _ h
    simp [strLeaves, strLeavesList, this, hv]
  · exact strictEntries_insert b na k v h hv

theorem strLeaves_seqDecorate (cfg : DecCfg) (seq : Nat) (v : Val)
    (hv : strLeaves cfg.seqNum v = true) : strLeaves cfg.seqNum (seqDecorate cfg seq v).1 = true := by
  unfold seqDecorate
  cases hb : cfg.seqNum with
  | false => simpa [hb] using hv
  | true =>
    rw [hb] at hv
    have hseq : ∀ (kvs : Entries) (x : Str), strLeavesEntries true kvs = true →
        strLeavesEntries true (insert "_seq".toList (.num x) kvs) = true := by
      intro kvs x hk
      rw [strLeavesEntries_iff] at hk ⊢
      intro e he
      rcases Cast.mem_insert _ _ kvs e he with rfl | he
      · exact Or.inr ⟨rfl, rfl, rfl⟩
      · exact hk e he
    cases v with
    | null => simp [strLeaves] at hv
    | bool _ => simp [strLeaves] at hv
    | num _ => simp [strLeaves] at hv
    | list xs => simpa using hv
    | map kvs =>
      simp only [strLeaves] at hv
      simp only [Bool.not_true, Bool.false_eq_true, if_false, strLeaves]
      exact hseq kvs _ hv
    | str s =>
      simp only [Bool.not_true, Bool.false_eq_true, if_false, strLeaves]
      apply hseq
      simp [strLeavesEntries, strLeaves]

theorem strLeaves_finishElem (cfg : DecCfg) (b : Bool) (na : Entries) (n : Option Val)
    (h : strictEntries b na) (hn : ∀ x, n = some x → strLeaves b x = true) :
    strLeaves b (finishElem cfg na n) = true := by
  unfold finishElem
  cases n with
  | none =>
    simp only
    split
    · simp [strLeaves]
    · simp only [strLeaves]; exact strictEntries_loose b na h
  | some v =>
    simp only
    split
    · exact hn v rfl
    · simp only [strLeaves]
      exact strictEntries_loose b _ (strictEntries_insert b na _ v h (hn v rfl))

theorem strict_onText (cfg : DecCfg) (S : Strconv) (b : Bool) (skey : Str) (na : Entries)
    (n : Option Val) (s : Str) (hr : cfg.cast.r = false)
    (h : strictEntries b na) (hn : ∀ x, n = some x → strLeaves b x = true) :
    strictEntries b (onText cfg S skey na n s).1 ∧
      ∀ x, (onText cfg S skey na n s).2 = some x → strLeaves b x = true := by
  unfold onText
  simp only
  split
  · exact ⟨h, hn⟩
  · split
    · refine ⟨strictEntries_insert b na _ _ h ?_, hn⟩
      rw [cast_off S _ _ _ hr]; simp [strLeaves]
    · refine ⟨h, ?_⟩
      intro x hx
      rw [cast_off S _ _ _ hr] at hx
      cases hx; simp [strLeaves]

theorem strict_loadAttrs (cfg : DecCfg) (S : Strconv) (b : Bool) (hr : cfg.cast.r = false)
    (attrs : List Attr) : strictEntries b (loadAttrs cfg S attrs) := by
  unfold loadAttrs
  suffices H : ∀ (attrs : List Attr) (acc : Entries), strictEntries b acc →
      strictEntries b (attrs.foldl (fun na a =>
        insert (attrKey cfg S a.name) (cast S cfg.cast (escDecIf cfg a.value) (attrKey cfg S a.name)) na) acc) from
    H attrs [] (strictEntries_nil b)
  intro attrs
  induction attrs with
  | nil => intro acc h; exact h
  | cons a rest ih =>
    intro acc h
    simp only [List.foldl_cons]
    apply ih
    apply strictEntries_insert b acc _ _ h
    rw [cast_off S _ _ _ hr]; simp [strLeaves]

theorem strLeaves_parseElem (cfg : DecCfg) (S : Strconv) (fin : StreamEnd) (hr : cfg.cast.r = false) :
    ∀ (f : Nat) (skey : Str) (na : Entries) (n : Option Val) (seq : Nat) (pend : Option Str)
      (toks : List Tok) (v : Val) (rest : List Tok),
      strictEntries cfg.seqNum na → (∀ x, n = some x → strLeaves cfg.seqNum x = true) →
      parseElem cfg S fin f skey na n seq pend toks = .ok (v, rest) →
      strLeaves cfg.seqNum v = true := by
  intro f
  induction f with
  | zero => intro skey na n seq pend toks v rest _ _ h; simp [parseElem] at h
  | succ f ih =>
    intro skey na n seq pend toks v rest hna hn h
    cases toks with
    | nil =>
      simp only [parseElem] at h
      cases fin <;> simp at h
    | cons tok toks =>
      cases tok with
      | start sp name attrs =>
        simp only [parseElem] at h
        split at h
        · rename_i v1 rest1 h1
          have hv1 := ih _ _ _ _ _ _ _ _ (strict_loadAttrs cfg S cfg.seqNum hr attrs)
            (by intro x hx; cases hx) h1
          have hv1' := strLeaves_seqDecorate cfg seq v1 hv1
          exact ih _ _ _ _ _ _ _ _ (strictEntries_addChild _ na _ _ hna hv1') hn h
        all_goals cases h
      | stop sp name =>
        simp only [parseElem] at h
        cases h
        exact strLeaves_finishElem cfg _ na n hna hn
      | text s =>
        simp only [parseElem] at h
        have := strict_onText cfg S cfg.seqNum skey na n (pend.getD [] ++ s) hr hna hn
        exact ih _ _ _ _ _ _ _ _ this.1 this.2 h
      | comment s => simp only [parseElem] at h; exact ih _ _ _ _ _ _ _ _ hna hn h
      | procinst a b => simp only [parseElem] at h; exact ih _ _ _ _ _ _ _ _ hna hn h
      | directive s => simp only [parseElem] at h; exact ih _ _ _ _ _ _ _ _ hna hn h

theorem strLeaves_decodeTop (cfg : DecCfg) (S : Strconv) (fin : StreamEnd) (hr : cfg.cast.r = false) :
    ∀ (f : Nat) (toks : List Tok) (v : Val) (rest : List Tok),
      decodeTop cfg S fin f toks = .ok (v, rest) → strLeaves cfg.seqNum v = true := by
  intro f
  induction f with
  | zero => intro toks v rest h; simp [decodeTop] at h
  | succ f ih =>
    intro toks v rest h
    cases toks with
    | nil =>
      simp only [decodeTop] at h
      cases fin <;> simp at h
    | cons tok toks =>
      cases tok with
      | start sp name attrs =>
        simp only [decodeTop] at h
        split at h
        · rename_i v1 rest1 h1
          have hv1 := strLeaves_parseElem cfg S fin hr _ _ _ _ _ _ _ _ _
            (strict_loadAttrs cfg S cfg.seqNum hr attrs) (by intro x hx; cases hx) h1
          cases h
          simp [strLeaves, strLeavesEntries, hv1]
        all_goals cases h
      | stop sp name => simp only [decodeTop] at h; exact ih _ _ _ h
      | text s => simp only [decodeTop] at h; exact ih _ _ _ h
      | comment s => simp only [decodeTop] at h; exact ih _ _ _ h
      | procinst a b => simp only [decodeTop] at h; exact ih _ _ _ h
      | directive s => simp only [decodeTop] at h; exact ih _ _ _ h

theorem strLeaves_newMapXml (cfg : DecCfg) (S : Strconv) (fin : StreamEnd) (toks : List Tok) (v : Val)
    (hr : cfg.cast.r = false) (h : newMapXml cfg S toks fin = .ok v) :
    strLeaves cfg.seqNum v = true := by
  unfold newMapXml at h
  split at h
  · rename_i v1 rest h1
    cases h
    exact strLeaves_decodeTop cfg S fin hr _ _ _ _ h1
  all_goals cases h

/-! ### the leaf-wise cast relation -/

mutual
/-- `CastRel S c v0 v`: `v` is `v0` with each string leaf `s` replaced by `cast S c s t` for some
    key `t` (the empty value `""` of an empty element is never passed to `cast` and stays `""`);
    same shape, same keys in the same order, non-string leaves equal -/
def CastRel (S : Strconv) (c : CastCfg) : Val → Val → Prop
  | .str s, w => (s = [] ∧ w = .str []) ∨ ∃ t, w = cast S c s t
  | .list xs, w => ∃ ys, w = .list ys ∧ CastRelList S c xs ys
  | .map kvs, w => ∃ kvs', w = .map kvs' ∧ CastRelEntries S c kvs kvs'
  | .null, w => w = .null
  | .bool b, w => w = .bool b
  | .num x, w => w = .num x
def CastRelList (S : Strconv) (c : CastCfg) : List Val → List Val → Prop
  | [], ys => ys = []
  | x :: xs, ys => ∃ y ys', ys = y :: ys' ∧ CastRel S c x y ∧ CastRelList S c xs ys'
def CastRelEntries (S : Strconv) (c : CastCfg) : Entries → Entries → Prop
  | [], b => b = []
  | (k, v) :: rest, b =>
      ∃ w rest', b = (k, w) :: rest' ∧ CastRel S c v w ∧ CastRelEntries S c rest rest'
end

section Rel
variable (S : Strconv) (c : CastCfg)

theorem CastRel_str_cast (s t : Str) : CastRel S c (.str s) (cast S c s t) := by
  unfold CastRel; exact Or.inr ⟨t, rfl⟩

theorem CastRel_str_empty : CastRel S c (.str []) (.str []) := by
  unfold CastRel; exact Or.inl ⟨rfl, rfl⟩

theorem CastRel_list (xs ys : List Val) :
    CastRel S c (.list xs) (.list ys) ↔ CastRelList S c xs ys := by
  constructor
  · intro h; unfold CastRel at h; obtain ⟨ys', he, h⟩ := h; cases he; exact h
  · intro h; unfold CastRel; exact ⟨ys, rfl, h⟩

theorem CastRel_map (a b : Entries) :
    CastRel S c (.map a) (.map b) ↔ CastRelEntries S c a b := by
  constructor
  · intro h; unfold CastRel at h; obtain ⟨b', he, h⟩ := h; cases he; exact h
  · intro h; unfold CastRel; exact ⟨b, rfl, h⟩

theorem CastRelList_nil : CastRelList S c [] [] := by unfold CastRelList; rfl

theorem CastRelList_cons (x y : Val) (xs ys : List Val) :
    CastRelList S c (x :: xs) (y :: ys) ↔ CastRel S c x y ∧ CastRelList S c xs ys := by
  constructor
  · intro h; unfold CastRelList at h; obtain ⟨y', ys', he, h1, h2⟩ := h; cases he; exact ⟨h1, h2⟩
  · intro h; unfold CastRelList; exact ⟨y, ys, rfl, h.1, h.2⟩

theorem CastRelEntries_nil : CastRelEntries S c [] [] := by unfold CastRelEntries; rfl

theorem CastRelEntries_cons (k k' : Str) (v w : Val) (a b : Entries) :
    CastRelEntries S c ((k, v) :: a) ((k', w) :: b) ↔
      k = k' ∧ CastRel S c v w ∧ CastRelEntries S c a b := by
  constructor
  · intro h; unfold CastRelEntries at h; obtain ⟨w', b', he, h1, h2⟩ := h; cases he; exact ⟨rfl, h1, h2⟩
  · intro h; obtain ⟨rfl, h1, h2⟩ := h; unfold CastRelEntries; exact ⟨w, b, rfl, h1, h2⟩

theorem CastRelList_append : ∀ (xs ys xs' ys' : List Val), CastRelList S c xs ys →
    CastRelList S c xs' ys' → CastRelList S c (xs ++ xs') (ys ++ ys') := by
  intro xs
  induction xs with
  | nil => intro ys xs' ys' h h'; unfold CastRelList at h; subst h; simpa using h'
  | cons x xs ih =>
    intro ys xs' ys' h h'
    unfold CastRelList at h
    obtain ⟨y, ys1, rfl, h1, h2⟩ := h
    rw [List.cons_append, List.cons_append, CastRelList_cons]
    exact ⟨h1, ih _ _ _ h2 h'⟩

/-- same keys, in the same order -/
theorem CastRelEntries_keys : ∀ (a b : Entries), CastRelEntries S c a b → keys a = keys b := by
  intro a
  induction a with
  | nil => intro b h; unfold CastRelEntries at h; subst h; rfl
  | cons hd rest ih =>
    obtain ⟨k, v⟩ := hd
    intro b h
    unfold CastRelEntries at h
    obtain ⟨w, b', rfl, _, h2⟩ := h
    simp only [keys, List.map_cons] at ih ⊢
    rw [ih b' h2]

theorem CastRelList_length : ∀ (a b : List Val), CastRelList S c a b → a.length = b.length := by
  intro a
  induction a with
  | nil => intro b h; unfold CastRelList at h; subst h; rfl
  | cons x xs ih =>
    intro b h
    unfold CastRelList at h
    obtain ⟨y, ys, rfl, _, h2⟩ := h
    simp [ih ys h2]

theorem CastRelEntries_isEmpty (a b : Entries) (h : CastRelEntries S c a b) :
    b.isEmpty = a.isEmpty := by
  cases a with
  | nil => unfold CastRelEntries at h; subst h; rfl
  | cons hd rest =>
    obtain ⟨k, v⟩ := hd
    unfold CastRelEntries at h
    obtain ⟨w, b', rfl, _, _⟩ := h
    rfl

/-- relation on optional values (`lookup` results, the pending text value `n`) -/
def CastRelOpt : Option Val → Option Val → Prop
  | none, none => True
  | some v, some w => CastRel S c v w
  | _, _ => False

theorem CastRelEntries_lookup (k : Str) : ∀ (a b : Entries), CastRelEntries S c a b →
    CastRelOpt S c (lookup k a) (lookup k b) := by
  intro a
  induction a with
  | nil => intro b h; unfold CastRelEntries at h; subst h; simp [lookup, CastRelOpt]
  | cons hd rest ih =>
    obtain ⟨k', v⟩ := hd
    intro b h
    unfold CastRelEntries at h
    obtain ⟨w, b', rfl, h1, h2⟩ := h
    unfold lookup
    by_cases hk : k = k'
    · simp only [hk, if_true]; exact h1
    · simp only [hk, if_false]; exact ih b' h2

theorem CastRelEntries_insert (k : Str) (v w : Val) (hv : CastRel S c v w) :
    ∀ (a b : Entries), CastRelEntries S c a b → CastRelEntries S c (insert k v a) (insert k w b) := by
  intro a
  induction a with
  | nil =>
    intro b h; unfold CastRelEntries at h; subst h
    simp only [insert]
    exact (CastRelEntries_cons S c _ _ _ _ _ _).2 ⟨rfl, hv, CastRelEntries_nil S c⟩
  | cons hd rest ih =>
    obtain ⟨k', v'⟩ := hd
    intro b h
    unfold CastRelEntries at h
    obtain ⟨w', b', rfl, h1, h2⟩ := h
    unfold insert
    by_cases hk : k = k'
    · simp only [hk, if_true]
      exact (CastRelEntries_cons S c _ _ _ _ _ _).2 ⟨rfl, hv, h2⟩
    · simp only [hk, if_false]
      exact (CastRelEntries_cons S c _ _ _ _ _ _).2 ⟨rfl, h1, ih b' h2⟩

/-! shapes agree: a cast result is never a list, a map or null -/

def Val.isScalar : Val → Bool
  | .bool _ => true
  | .num _ => true
  | .str _ => true
  | _ => false

theorem cast_isScalar (s t : Str) : (cast S c s t).isScalar = true := by
  rcases cast_result S c s t with h | ⟨x, h⟩ | ⟨b, h⟩ <;> rw [h] <;> rfl

theorem CastRel_isScalar (v w : Val) (h : CastRel S c v w) : w.isScalar = v.isScalar := by
  cases v with
  | str s =>
    unfold CastRel at h
    rcases h with ⟨_, rfl⟩ | ⟨t, rfl⟩
    · rfl
    · exact cast_isScalar S c s t
  | list xs => unfold CastRel at h; obtain ⟨ys, rfl, _⟩ := h; rfl
  | map a => unfold CastRel at h; obtain ⟨b, rfl, _⟩ := h; rfl
  | null => unfold CastRel at h; subst h; rfl
  | bool b => unfold CastRel at h; subst h; rfl
  | num x => unfold CastRel at h; subst h; rfl

theorem isScalar_not_list {v : Val} (h : v.isScalar = true) : v.isList = false := by
  cases v <;> simp_all [Val.isScalar, Val.isList]

/-! `addChild` by cases -/

theorem addChild_none (na : Entries) (k : Str) (v : Val) (h : lookup k na = none) :
    addChild na k v = insert k v na := by
  unfold addChild; rw [h]

theorem addChild_list (na : Entries) (k : Str) (v : Val) (xs : List Val)
    (h : lookup k na = some (.list xs)) : addChild na k v = insert k (.list (xs ++ [v])) na := by
  unfold addChild; rw [h]

theorem addChild_other (na : Entries) (k : Str) (v old : Val)
    (h : lookup k na = some old) (hl : old.isList = false) :
    addChild na k v = insert k (.list [old, v]) na := by
  unfold addChild; rw [h]
  cases old <;> simp_all [Val.isList]

theorem CastRel_isList (v w : Val) (h : CastRel S c v w) : w.isList = v.isList := by
  cases v with
  | str s =>
    have := CastRel_isScalar S c _ _ h
    exact isScalar_not_list this
  | list xs => unfold CastRel at h; obtain ⟨ys, rfl, _⟩ := h; rfl
  | map a => unfold CastRel at h; obtain ⟨b, rfl, _⟩ := h; rfl
  | null => unfold CastRel at h; subst h; rfl
  | bool b => unfold CastRel at h; subst h; rfl
  | num x => unfold CastRel at h; subst h; rfl

theorem CastRelEntries_addChild (a b : Entries) (k : Str) (v w : Val)
    (hE : CastRelEntries S c a b) (hv : CastRel S c v w) :
    CastRelEntries S c (addChild a k v) (addChild b k w) := by
  have hl := CastRelEntries_lookup S c k a b hE
  cases ha : lookup k a with
  | none =>
    cases hb : lookup k b with
    | none =>
      rw [addChild_none a k v ha, addChild_none b k w hb]
      exact CastRelEntries_insert S c k v w hv a b hE
    | some _ => rw [ha, hb] at hl; exact hl.elim
  | some old =>
    cases hb : lookup k b with
    | none => rw [ha, hb] at hl; exact hl.elim
    | some wold =>
      rw [ha, hb] at hl
      have hl : CastRel S c old wold := hl
      cases hol : old.isList with
      | true =>
        cases old with
        | list xs =>
          have hl' := hl
          unfold CastRel at hl'
          obtain ⟨ys, rfl, hxs⟩ := hl'
          rw [addChild_list a k v xs ha, addChild_list b k w ys hb]
          apply CastRelEntries_insert S c k _ _ _ a b hE
          rw [CastRel_list]
          exact CastRelList_append S c _ _ _ _ hxs
            ((CastRelList_cons S c _ _ _ _).2 ⟨hv, CastRelList_nil S c⟩)
        | _ => simp [Val.isList] at hol
      | false =>
        have hwl : wold.isList = false := by rw [CastRel_isList S c _ _ hl]; exact hol
        rw [addChild_other a k v old ha hol, addChild_other b k w wold hb hwl]
        apply CastRelEntries_insert S c k _ _ _ a b hE
        rw [CastRel_list]
        exact (CastRelList_cons S c _ _ _ _).2
          ⟨hl, (CastRelList_cons S c _ _ _ _).2 ⟨hv, CastRelList_nil S c⟩⟩

/-! `seqDecorate` by cases -/

theorem seqDecorate_off (cfg : DecCfg) (seq : Nat) (v : Val) (h : cfg.seqNum = false) :
    seqDecorate cfg seq v = (v, seq) := by
  unfold seqDecorate; simp [h]

theorem seqDecorate_scalar (cfg : DecCfg) (seq : Nat) (v : Val) (h : cfg.seqNum = true)
    (hv : v.isScalar = true) :
    seqDecorate cfg seq v =
      (.map (insert "_seq".toList (.num ("i:".toList ++ natToStr seq)) [(cfg.textK, v)]), seq + 1) := by
  unfold seqDecorate
  cases v <;> simp_all [Val.isScalar]

theorem CastRel_seqDecorate (cfg : DecCfg) (seq : Nat) (v w : Val) (h : CastRel S c v w) :
    CastRel S c (seqDecorate cfg seq v).1 (seqDecorate cfg seq w).1 ∧
      (seqDecorate cfg seq w).2 = (seqDecorate cfg seq v).2 := by
  cases hs : cfg.seqNum with
  | false => rw [seqDecorate_off cfg seq v hs, seqDecorate_off cfg seq w hs]; exact ⟨h, rfl⟩
  | true =>
    have hnum : CastRel S c (.num ("i:".toList ++ natToStr seq)) (.num ("i:".toList ++ natToStr seq)) := by
      unfold CastRel; rfl
    cases hv : v.isScalar with
    | true =>
      have hw : w.isScalar = true := by rw [CastRel_isScalar S c _ _ h]; exact hv
      rw [seqDecorate_scalar cfg seq v hs hv, seqDecorate_scalar cfg seq w hs hw]
      refine ⟨?_, rfl⟩
      rw [CastRel_map]
      apply CastRelEntries_insert S c _ _ _ hnum
      exact (CastRelEntries_cons S c _ _ _ _ _ _).2 ⟨rfl, h, CastRelEntries_nil S c⟩
    | false =>
      cases v with
      | str s => simp [Val.isScalar] at hv
      | bool b => simp [Val.isScalar] at hv
      | num x => simp [Val.isScalar] at hv
      | null =>
        unfold CastRel at h; subst h
        exact ⟨by simp only [seqDecorate, hs]; unfold CastRel; rfl, rfl⟩
      | list xs =>
        have h' := h
        unfold CastRel at h'; obtain ⟨ys, rfl, _⟩ := h'
        simp only [seqDecorate, hs]
        exact ⟨h, rfl⟩
      | map a =>
        have h' := h
        unfold CastRel at h'; obtain ⟨b, rfl, hab⟩ := h'
        simp only [seqDecorate, hs, Bool.not_true, Bool.false_eq_true, if_false]
        refine ⟨?_, trivial⟩
        rw [CastRel_map]
        exact CastRelEntries_insert S c _ _ _ hnum a b hab

theorem CastRel_finishElem (cfg : DecCfg) (na nb : Entries) (n m : Option Val)
    (hE : CastRelEntries S c na nb) (hn : CastRelOpt S c n m) :
    CastRel S c (finishElem cfg na n) (finishElem cfg nb m) := by
  have he := CastRelEntries_isEmpty S c na nb hE
  unfold finishElem
  rw [he]
  cases n with
  | none =>
    cases m with
    | some _ => exact hn.elim
    | none =>
      simp only
      split
      · exact CastRel_str_empty S c
      · rw [CastRel_map]; exact hE
  | some v =>
    cases m with
    | none => exact hn.elim
    | some w =>
      have hn : CastRel S c v w := hn
      simp only
      split
      · exact hn
      · rw [CastRel_map]; exact CastRelEntries_insert S c _ v w hn na nb hE

end Rel

/-! ### the un-cast configuration -/

/-- `cfg` with the cast flag off, everything else unchanged -/
def uncastCfg (cfg : DecCfg) : DecCfg := { cfg with cast := { cfg.cast with r := false } }

theorem uncastCfg_r (cfg : DecCfg) : (uncastCfg cfg).cast.r = false := rfl

theorem cast_uncast (S : Strconv) (cfg : DecCfg) (s t : Str) :
    cast S (uncastCfg cfg).cast s t = .str s := cast_off S _ s t rfl

theorem CastRel_onText (cfg : DecCfg) (S : Strconv) (skey : Str) (na nb : Entries)
    (n m : Option Val) (s : Str)
    (hE : CastRelEntries S cfg.cast na nb) (hn : CastRelOpt S cfg.cast n m) :
    CastRelEntries S cfg.cast (onText (uncastCfg cfg) S skey na n s).1 (onText cfg S skey nb m s).1 ∧
      CastRelOpt S cfg.cast (onText (uncastCfg cfg) S skey na n s).2 (onText cfg S skey nb m s).2 := by
  have he := CastRelEntries_isEmpty S cfg.cast na nb hE
  unfold onText
  have h1 : trimSet (uncastCfg cfg) = trimSet cfg := rfl
  have h2 : ∀ x, escDecIf (uncastCfg cfg) x = escDecIf cfg x := fun _ => rfl
  have h3 : (uncastCfg cfg).textK = cfg.textK := rfl
  have h4 : (uncastCfg cfg).asMap = cfg.asMap := rfl
  simp only [h1, h2, h3, h4, he, cast_uncast]
  split
  · exact ⟨hE, hn⟩
  · split
    · exact ⟨CastRelEntries_insert S cfg.cast _ _ _ (CastRel_str_cast S cfg.cast _ _) na nb hE, hn⟩
    · exact ⟨hE, CastRel_str_cast S cfg.cast _ _⟩

theorem CastRel_loadAttrs (cfg : DecCfg) (S : Strconv) (attrs : List Attr) :
    CastRelEntries S cfg.cast (loadAttrs (uncastCfg cfg) S attrs) (loadAttrs cfg S attrs) := by
  unfold loadAttrs
  have h1 : ∀ x, attrKey (uncastCfg cfg) S x = attrKey cfg S x := fun _ => rfl
  have h2 : ∀ x, escDecIf (uncastCfg cfg) x = escDecIf cfg x := fun _ => rfl
  simp only [h1, h2, cast_uncast]
  suffices H : ∀ (attrs : List Attr) (a b : Entries), CastRelEntries S cfg.cast a b →
      CastRelEntries S cfg.cast
        (attrs.foldl (fun na a => insert (attrKey cfg S a.name) (.str (escDecIf cfg a.value)) na) a)
        (attrs.foldl (fun na a => insert (attrKey cfg S a.name)
          (cast S cfg.cast (escDecIf cfg a.value) (attrKey cfg S a.name)) na) b) from
    H attrs [] [] (CastRelEntries_nil S cfg.cast)
  intro attrs
  induction attrs with
  | nil => intro a b h; exact h
  | cons x rest ih =>
    intro a b h
    simp only [List.foldl_cons]
    apply ih
    exact CastRelEntries_insert S cfg.cast _ _ _ (CastRel_str_cast S cfg.cast _ _) a b h

/-- outcomes of the token loop: identical control flow, related values, same unread tokens -/
def CastRelOut (S : Strconv) (c : CastCfg) :
    Outcome (Val × List Tok) → Outcome (Val × List Tok) → Prop
  | .ok (v, r), .ok (w, r') => CastRel S c v w ∧ r = r'
  | .eof, .eof => True
  | .syntax, .syntax => True
  | .err a, .err b => a = b
  | .panic a, .panic b => a = b
  | _, _ => False

theorem CastRel_parseElem (cfg : DecCfg) (S : Strconv) (fin : StreamEnd) :
    ∀ (f : Nat) (skey : Str) (na nb : Entries) (n m : Option Val) (seq : Nat) (pend : Option Str)
      (toks : List Tok),
      CastRelEntries S cfg.cast na nb → CastRelOpt S cfg.cast n m →
      CastRelOut S cfg.cast (parseElem (uncastCfg cfg) S fin f skey na n seq pend toks)
        (parseElem cfg S fin f skey nb m seq pend toks) := by
  intro f
  induction f with
  | zero => intro skey na nb n m seq pend toks _ _; simp [parseElem, CastRelOut]
  | succ f ih =>
    intro skey na nb n m seq pend toks hE hn
    cases toks with
    | nil => cases fin <;> simp [parseElem, CastRelOut]
    | cons tok toks =>
      cases tok with
      | start sp name attrs =>
        simp only [parseElem]
        have hk : elemKey (uncastCfg cfg) S name = elemKey cfg S name := rfl
        rw [hk]
        have h1 := ih (elemKey cfg S name) _ _ none none 0 none toks
          (CastRel_loadAttrs cfg S attrs) (by simp [CastRelOpt])
        revert h1
        cases parseElem (uncastCfg cfg) S fin f (elemKey cfg S name) (loadAttrs (uncastCfg cfg) S attrs)
            none 0 none toks with
        | ok p0 =>
          obtain ⟨v0, r0⟩ := p0
          cases parseElem cfg S fin f (elemKey cfg S name) (loadAttrs cfg S attrs) none 0 none toks with
          | ok p1 =>
            obtain ⟨v1, r1⟩ := p1
            intro h1
            simp only [CastRelOut] at h1
            obtain ⟨hv, rfl⟩ := h1
            simp only
            have hd := CastRel_seqDecorate S cfg.cast cfg seq v0 v1 hv
            have hsd : seqDecorate (uncastCfg cfg) seq v0 = seqDecorate cfg seq v0 := rfl
            rw [hsd, hd.2]
            exact ih skey _ _ n m _ none r0
              (CastRelEntries_addChild S cfg.cast na nb _ _ _ hE hd.1) hn
          | eof => intro h1; simp [CastRelOut] at h1
          | «syntax» => intro h1; simp [CastRelOut] at h1
          | err k => intro h1; simp [CastRelOut] at h1
          | panic s => intro h1; simp [CastRelOut] at h1
        | eof =>
          cases parseElem cfg S fin f (elemKey cfg S name) (loadAttrs cfg S attrs) none 0 none toks <;>
            intro h1 <;> simp [CastRelOut] at h1 ⊢
        | «syntax» =>
          cases parseElem cfg S fin f (elemKey cfg S name) (loadAttrs cfg S attrs) none 0 none toks <;>
            intro h1 <;> simp [CastRelOut] at h1 ⊢
        | err k =>
          cases parseElem cfg S fin f (elemKey cfg S name) (loadAttrs cfg S attrs) none 0 none toks <;>
            intro h1 <;> simp [CastRelOut] at h1 ⊢
          exact h1
        | panic s =>
          cases parseElem cfg S fin f (elemKey cfg S name) (loadAttrs cfg S attrs) none 0 none toks <;>
            intro h1 <;> simp [CastRelOut] at h1 ⊢
          exact h1
      | stop sp name =>
        simp only [parseElem, CastRelOut]
        exact ⟨CastRel_finishElem S cfg.cast cfg na nb n m hE hn, trivial⟩
      | text s =>
        simp only [parseElem]
        have := CastRel_onText cfg S skey na nb n m (pend.getD [] ++ s) hE hn
        exact ih skey _ _ _ _ seq _ toks this.1 this.2
      | comment s => simp only [parseElem]; exact ih _ _ _ _ _ _ _ _ hE hn
      | procinst a b => simp only [parseElem]; exact ih _ _ _ _ _ _ _ _ hE hn
      | directive s => simp only [parseElem]; exact ih _ _ _ _ _ _ _ _ hE hn

theorem CastRel_decodeTop (cfg : DecCfg) (S : Strconv) (fin : StreamEnd) :
    ∀ (f : Nat) (toks : List Tok),
      CastRelOut S cfg.cast (decodeTop (uncastCfg cfg) S fin f toks) (decodeTop cfg S fin f toks) := by
  intro f
  induction f with
  | zero => intro toks; simp [decodeTop, CastRelOut]
  | succ f ih =>
    intro toks
    cases toks with
    | nil => cases fin <;> simp [decodeTop, CastRelOut]
    | cons tok toks =>
      cases tok with
      | start sp name attrs =>
        simp only [decodeTop]
        have hk : elemKey (uncastCfg cfg) S name = elemKey cfg S name := rfl
        rw [hk]
        have h1 := CastRel_parseElem cfg S fin f (elemKey cfg S name) _ _ none none 0 none toks
          (CastRel_loadAttrs cfg S attrs) (by simp [CastRelOpt])
        revert h1
        cases parseElem (uncastCfg cfg) S fin f (elemKey cfg S name) (loadAttrs (uncastCfg cfg) S attrs)
            none 0 none toks with
        | ok p0 =>
          obtain ⟨v0, r0⟩ := p0
          cases parseElem cfg S fin f (elemKey cfg S name) (loadAttrs cfg S attrs) none 0 none toks with
          | ok p1 =>
            obtain ⟨v1, r1⟩ := p1
            intro h1
            simp only [CastRelOut] at h1 ⊢
            refine ⟨?_, h1.2⟩
            rw [CastRel_map]
            exact (CastRelEntries_cons S cfg.cast _ _ _ _ _ _).2 ⟨rfl, h1.1, CastRelEntries_nil S cfg.cast⟩
          | eof => intro h1; simp [CastRelOut] at h1
          | «syntax» => intro h1; simp [CastRelOut] at h1
          | err k => intro h1; simp [CastRelOut] at h1
          | panic s => intro h1; simp [CastRelOut] at h1
        | eof =>
          cases parseElem cfg S fin f (elemKey cfg S name) (loadAttrs cfg S attrs) none 0 none toks <;>
            intro h1 <;> simp [CastRelOut] at h1 ⊢
        | «syntax» =>
          cases parseElem cfg S fin f (elemKey cfg S name) (loadAttrs cfg S attrs) none 0 none toks <;>
            intro h1 <;> simp [CastRelOut] at h1 ⊢
        | err k =>
          cases parseElem cfg S fin f (elemKey cfg S name) (loadAttrs cfg S attrs) none 0 none toks <;>
            intro h1 <;> simp [CastRelOut] at h1 ⊢
          exact h1
        | panic s =>
          cases parseElem cfg S fin f (elemKey cfg S name) (loadAttrs cfg S attrs) none 0 none toks <;>
            intro h1 <;> simp [CastRelOut] at h1 ⊢
          exact h1
      | stop sp name => simp only [decodeTop]; exact ih _
      | text s => simp only [decodeTop]; exact ih _
      | comment s => simp only [decodeTop]; exact ih _
      | procinst a b => simp only [decodeTop]; exact ih _
      | directive s => simp only [decodeTop]; exact ih _

/-- outcomes of `NewMapXml`: identical control flow, related values -/
def CastRelOutV (S : Strconv) (c : CastCfg) : Outcome Val → Outcome Val → Prop
  | .ok v, .ok w => CastRel S c v w
  | .eof, .eof => True
  | .syntax, .syntax => True
  | .err a, .err b => a = b
  | .panic a, .panic b => a = b
  | _, _ => False

theorem CastRel_newMapXml (cfg : DecCfg) (S : Strconv) (fin : StreamEnd) (toks : List Tok) :
    CastRelOutV S cfg.cast (newMapXml (uncastCfg cfg) S toks fin) (newMapXml cfg S toks fin) := by
  unfold newMapXml
  have h1 := CastRel_decodeTop cfg S fin (toks.length + 1) toks
  revert h1
  cases decodeTop (uncastCfg cfg) S fin (toks.length + 1) toks with
  | ok p0 =>
    obtain ⟨v0, r0⟩ := p0
    cases decodeTop cfg S fin (toks.length + 1) toks with
    | ok p1 =>
      obtain ⟨v1, r1⟩ := p1
      intro h1
      simp only [CastRelOut] at h1
      simp only [CastRelOutV]
      exact h1.1
    | eof => intro h1; simp [CastRelOut] at h1
    | «syntax» => intro h1; simp [CastRelOut] at h1
    | err k => intro h1; simp [CastRelOut] at h1
    | panic s => intro h1; simp [CastRelOut] at h1
  | eof =>
    cases decodeTop cfg S fin (toks.length + 1) toks <;>
      intro h1 <;> simp [CastRelOut, CastRelOutV] at h1 ⊢
  | «syntax» =>
    cases decodeTop cfg S fin (toks.length + 1) toks <;>
      intro h1 <;> simp [CastRelOut, CastRelOutV] at h1 ⊢
  | err k =>
    cases decodeTop cfg S fin (toks.length + 1) toks <;>
      intro h1 <;> simp [CastRelOut, CastRelOutV] at h1 ⊢
    exact h1
  | panic s =>
    cases decodeTop cfg S fin (toks.length + 1) toks <;>
      intro h1 <;> simp [CastRelOut, CastRelOutV] at h1 ⊢
    exact h1

end Mxj
