/-
  Mxj.Lemmas.Cast — the decision chain of `cast`, the "only string leaves" predicate, and the
  leaf-wise cast relation `CastRel` between an un-cast and a cast decoding, with the
  preservation lemmas for every decoder step.
-/
import Mxj.Model.Decode
namespace Mxj

/-! ### the decision chain of `cast` -/

/-- the skip-tag test (`checkTagToSkip != nil && t != "" && checkTagToSkip(t)`) -/
def castSkipped (c : CastCfg) (t : Str) : Bool := c.skipSet && !t.isEmpty && c.skip.contains t

/-- the bool screen: non-empty, shorter than 6, first letter one of t T f F -/
def boolScreen (s : Str) : Bool :=
  !s.isEmpty && s.length < 6
    && (s.head? = some 't' || s.head? = some 'T' || s.head? = some 'f' || s.head? = some 'F')

theorem cast_skipped (S : Strconv) (c : CastCfg) (s t : Str) (h : castSkipped c t = true) :
    cast S c s t = .str s := by
  unfold castSkipped at h
  unfold cast; rw [if_pos h]

theorem cast_off (S : Strconv) (c : CastCfg) (s t : Str) (h : c.r = false) :
    cast S c s t = .str s := by
  unfold cast
  split
  · rfl
  · simp [h]

theorem cast_nanword (S : Strconv) (c : CastCfg) (s t : Str)
    (hn : c.nanInf = false) (hw : isNanInfWord S s = true) : cast S c s t = .str s := by
  unfold cast
  split
  · rfl
  · split
    · rfl
    · simp [hn, hw]

/-- past the three guards, the chain proper -/
def castChain (S : Strconv) (c : CastCfg) (s : Str) : Val :=
  let asInt : Option Val :=
    if c.toInt then
      match S.parseInt s with
      | some t => some (.num t)
      | none => (S.parseUint s).map Val.num
    else none
  match asInt with
  | some v => v
  | none =>
    let asFloat : Option (Option Val) :=
      if c.toFloat then
        match S.parseFloat s with
        | some (t, special) => if !c.nanInf && special then some none else some (some (.num t))
        | none => none
      else none
    match asFloat with
    | some (some v) => v
    | some none => .str s
    | none =>
      if c.toBool && boolScreen s then
        match parseBool s with
        | some b => .bool b
        | none => .str s
      else .str s

theorem cast_eq_chain (S : Strconv) (c : CastCfg) (s t : Str)
    (hs : castSkipped c t = false) (hr : c.r = true)
    (hg : (!c.nanInf && isNanInfWord S s) = false) : cast S c s t = castChain S c s := by
  unfold castSkipped at hs
  unfold cast castChain boolScreen
  rw [if_neg (by rw [hs]; exact Bool.false_ne_true), if_neg (by simp [hr]),
    if_neg (by rw [hg]; exact Bool.false_ne_true)]
  simp only [Bool.and_assoc]
  rfl

/-- the whole chain in one equation -/
theorem cast_eq (S : Strconv) (c : CastCfg) (s t : Str) :
    cast S c s t =
      if castSkipped c t then .str s
      else if !c.r then .str s
      else if !c.nanInf && isNanInfWord S s then .str s
      else castChain S c s := by
  cases hs : castSkipped c t with
  | true => simp [cast_skipped S c s t hs]
  | false =>
    cases hr : c.r with
    | false => simp [cast_off S c s t hr]
    | true =>
      cases hg : (!c.nanInf && isNanInfWord S s) with
      | true =>
        simp only [Bool.and_eq_true, Bool.not_eq_true'] at hg
        simp [cast_nanword S c s t hg.1 hg.2]
      | false => simp [cast_eq_chain S c s t hs hr hg]

/-- the key matters only through the skip-tag test -/
theorem cast_key_irrelevant (S : Strconv) (c : CastCfg) (s t t' : Str) (h : c.skipSet = false) :
    cast S c s t = cast S c s t' := by
  rw [cast_eq, cast_eq]; simp [castSkipped, h]

theorem castChain_int (S : Strconv) (c : CastCfg) (s x : Str)
    (hi : c.toInt = true) (hp : S.parseInt s = some x) : castChain S c s = .num x := by
  simp [castChain, hi, hp]

theorem castChain_uint (S : Strconv) (c : CastCfg) (s x : Str)
    (hi : c.toInt = true) (hp : S.parseInt s = none) (hu : S.parseUint s = some x) :
    castChain S c s = .num x := by
  simp [castChain, hi, hp, hu]

/-- "no integer result": integers off, or both integer parsers fail -/
def noInt (S : Strconv) (c : CastCfg) (s : Str) : Prop :=
  c.toInt = false ∨ (S.parseInt s = none ∧ S.parseUint s = none)

theorem castChain_float (S : Strconv) (c : CastCfg) (s x : Str) (sp : Bool)
    (hi : noInt S c s) (hf : c.toFloat = true) (hp : S.parseFloat s = some (x, sp))
    (hsp : c.nanInf = true ∨ sp = false) : castChain S c s = .num x := by
  rcases hi with hi | ⟨h1, h2⟩ <;> rcases hsp with h | h <;> simp [castChain, *]

theorem castChain_float_special (S : Strconv) (c : CastCfg) (s x : Str)
    (hi : noInt S c s) (hf : c.toFloat = true) (hp : S.parseFloat s = some (x, true))
    (hn : c.nanInf = false) : castChain S c s = .str s := by
  rcases hi with hi | ⟨h1, h2⟩ <;> simp [castChain, *]

/-- "no float result": floats off or ParseFloat fails -/
def noFloat (S : Strconv) (c : CastCfg) (s : Str) : Prop :=
  c.toFloat = false ∨ S.parseFloat s = none

theorem castChain_bool (S : Strconv) (c : CastCfg) (s : Str) (b : Bool)
    (hi : noInt S c s) (hf : noFloat S c s) (hb : c.toBool = true) (hscr : boolScreen s = true)
    (hp : parseBool s = some b) : castChain S c s = .bool b := by
  rcases hi with hi | ⟨h1, h2⟩ <;> rcases hf with hf | hf <;> simp [castChain, *]

theorem castChain_str (S : Strconv) (c : CastCfg) (s : Str)
    (hi : noInt S c s) (hf : noFloat S c s)
    (hb : c.toBool = false ∨ boolScreen s = false ∨ parseBool s = none) :
    castChain S c s = .str s := by
  rcases hi with hi | ⟨h1, h2⟩ <;> rcases hf with hf | hf <;> rcases hb with hb | hb | hb <;>
    simp [castChain, *]

theorem castChain_result (S : Strconv) (c : CastCfg) (s : Str) :
    castChain S c s = .str s ∨ (∃ x, castChain S c s = .num x) ∨ (∃ b, castChain S c s = .bool b) := by
  unfold castChain
  simp only
  split
  · rename_i v hv
    split at hv
    · split at hv
      · cases hv; exact Or.inr (Or.inl ⟨_, rfl⟩)
      · cases hu : S.parseUint s with
        | none => simp [hu] at hv
        | some u => simp [hu] at hv; subst hv; exact Or.inr (Or.inl ⟨_, rfl⟩)
    · cases hv
  · split
    · rename_i v hv
      split at hv
      · split at hv
        · split at hv
          · cases hv
          · cases hv; exact Or.inr (Or.inl ⟨_, rfl⟩)
        · cases hv
      · cases hv
    · exact Or.inl rfl
    · split
      · split
        · exact Or.inr (Or.inr ⟨_, rfl⟩)
        · exact Or.inl rfl
      · exact Or.inl rfl

theorem cast_result (S : Strconv) (c : CastCfg) (s t : Str) :
    cast S c s t = .str s ∨ (∃ x, cast S c s t = .num x) ∨ (∃ b, cast S c s t = .bool b) := by
  rw [cast_eq]
  split
  · exact Or.inl rfl
  · split
    · exact Or.inl rfl
    · split
      · exact Or.inl rfl
      · exact castChain_result S c s

/-- a numeric result of the chain came from an integer parser or from a ParseFloat that was
    let through by the special-value guard -/
theorem castChain_num (S : Strconv) (c : CastCfg) (s x : Str) (h : castChain S c s = .num x) :
    (c.toInt = true ∧ (S.parseInt s = some x ∨ (S.parseInt s = none ∧ S.parseUint s = some x))) ∨
    (noInt S c s ∧ c.toFloat = true ∧ ∃ sp, S.parseFloat s = some (x, sp) ∧ (c.nanInf = true ∨ sp = false)) := by
  unfold castChain at h
  simp only at h
  cases hi : c.toInt with
  | true =>
    simp only [hi, if_true] at h
    cases hp : S.parseInt s with
    | some y =>
      simp only [hp] at h
      cases h; exact Or.inl ⟨rfl, Or.inl rfl⟩
    | none =>
      simp only [hp] at h
      cases hu : S.parseUint s with
      | some u =>
        simp only [hu, Option.map_some] at h
        cases h; exact Or.inl ⟨rfl, Or.inr ⟨rfl, rfl⟩⟩
      | none =>
        simp only [hu, Option.map_none] at h
        refine Or.inr ⟨Or.inr ⟨hp, hu⟩, ?_⟩
        cases hf : c.toFloat with
        | false =>
          simp only [hf, Bool.false_eq_true, if_false] at h
          split at h <;> (try split at h) <;> cases h
        | true =>
          simp only [hf, if_true] at h
          cases hpf : S.parseFloat s with
          | none =>
            simp only [hpf] at h
            split at h <;> (try split at h) <;> cases h
          | some r =>
            obtain ⟨y, sp⟩ := r
            simp only [hpf] at h
            cases hg : (!c.nanInf && sp) with
            | true => simp [hg] at h
            | false =>
              simp only [hg, Bool.false_eq_true, if_false] at h
              cases h
              refine ⟨rfl, sp, rfl, ?_⟩
              cases hn : c.nanInf <;> cases sp <;> simp_all
  | false =>
    simp only [hi, Bool.false_eq_true, if_false] at h
    refine Or.inr ⟨Or.inl hi, ?_⟩
    cases hf : c.toFloat with
    | false =>
      simp only [hf, Bool.false_eq_true, if_false] at h
      split at h <;> (try split at h) <;> cases h
    | true =>
      simp only [hf, if_true] at h
      cases hpf : S.parseFloat s with
      | none =>
        simp only [hpf] at h
        split at h <;> (try split at h) <;> cases h
      | some r =>
        obtain ⟨y, sp⟩ := r
        simp only [hpf] at h
        cases hg : (!c.nanInf && sp) with
        | true => simp [hg] at h
        | false =>
          simp only [hg, Bool.false_eq_true, if_false] at h
          cases h
          refine ⟨rfl, sp, rfl, ?_⟩
          cases hn : c.nanInf <;> cases sp <;> simp_all

/-- a non-string result means every guard was passed -/
theorem cast_ne_str_guards (S : Strconv) (c : CastCfg) (s t : Str) (h : cast S c s t ≠ .str s) :
    castSkipped c t = false ∧ c.r = true ∧ (!c.nanInf && isNanInfWord S s) = false ∧
      cast S c s t = castChain S c s := by
  rw [cast_eq] at h
  cases hs : castSkipped c t with
  | true => simp [hs] at h
  | false =>
    cases hr : c.r with
    | false => simp [hs, hr] at h
    | true =>
      cases hg : (!c.nanInf && isNanInfWord S s) with
      | true => simp [hs, hr, hg] at h
      | false => exact ⟨rfl, rfl, rfl, cast_eq_chain S c s t hs hr hg⟩

end Mxj
