/-
  Mxj.Lemmas.SeqIndent — helper lemmas for Mxj.Props.C04ExtIndent (namespace `Mxj.SeqIL`): the
  indented sequence encoder (`seqEncP`, `seqEncTreeL` of Mxj.Model.SeqIndent) against the compact
  one (`seqEnc`, `seqEncTree`), and the sequence decoder on layout.
    (0)  `Outdent` undoes `Indent`; the loops `seqKidsP` / `seqMembersP` without the state
         (`kidsOf`, `membersOf`); the map case in closed form (`bodyP`, `seqEncP_map_eq`);
    (A)  `encP_core`: indented pieces minus layout = compact pieces;
    (B,C) `encP_rel`: compact mode against `seqEnc` — same failure always, same bytes on `noteOk`;
    (D)  `encTreeL_strip`: layout tree minus layout nodes = `seqEncTree`;
    (E)  `encTreeL_shape`: text first, layout strings made of the given characters;
    (F)  `encP_linkL`: bytes = rendering of the layout tree;
    (G)  the decoder on blank character data (`Quiet`, `onText_quiet`), trimming lemmas;
    (N)  `value_normalize`: the decoder does not see `normalize` when text is first;
    (H)  `normalize` / `unqualify` / shapes; `value_toNode`;
    (I)  `tokens_decode`: the token stream of a layout forest;
    (J)  `noteOk_value`: decoded values have no scalar under a note key;
    (K)  the top level: parity, root, fuel, `mapSeqXmlIndent_roundtrip`;
    (L)  `value_merge`: adjacent character data is one run; `tokens_decode_merged`.
-/
import Mxj.Lemmas.Seq
import Mxj.Model.SeqIndent
set_option linter.unusedSimpArgs false
namespace Mxj
namespace SeqIL
open Mxj.SeqL Mxj.Dec

theorem outdent_indentStep (p : Pretty) : p.indentStep.outdent = p := by
  cases p with
  | mk indent cnt padding mapDepth start =>
    simp [Pretty.indentStep, Pretty.outdent]

theorem shallower_deeper (p : Pretty) : p.deeper.shallower = p := by
  cases p with
  | mk indent cnt padding mapDepth start =>
    simp [Pretty.deeper, Pretty.shallower]

/-- the loop over the children without the state -/
def kidsOf (enc : Pretty → Str → Val → Outcome (List Piece)) (di : Bool) (p : Pretty) :
    List (Str × Val) → Outcome (List Piece)
  | [] => .ok []
  | (k, v) :: rest =>
    match enc (if di && !v.isList then p.indentStep else p) k v with
    | .ok a => match kidsOf enc di p rest with
      | .ok r => .ok (a ++ r)
      | o => o
    | o => o

def membersOf (enc : Pretty → Str → Val → Outcome (List Piece)) (di : Bool) (p : Pretty) (key : Str) :
    List Val → Outcome (List Piece)
  | [] => .ok []
  | x :: xs =>
    match enc (if di then p.indentStep else p) key x with
    | .ok a => match membersOf enc di p key xs with
      | .ok r => .ok (a ++ r)
      | o => o
    | o => o

theorem seqKidsP_eq (c : SeqCfg) (esc ge di : Bool) (f : Nat) (p : Pretty) :
    ∀ (kvs : List (Str × Val)),
    seqKidsP c esc ge di f p kvs
      = (kidsOf (seqEncP c esc ge di f) di p kvs).mapOk (fun a => (a, p))
  | [] => by simp [seqKidsP, kidsOf, Outcome.mapOk]
  | (k, v) :: rest => by
      have ih := seqKidsP_eq c esc ge di f p rest
      have hp : (if (di && !v.isList) = true then
            (if (di && !v.isList) = true then p.indentStep else p).outdent
          else (if (di && !v.isList) = true then p.indentStep else p)) = p := by
        split <;> simp_all [outdent_indentStep]
      simp only [seqKidsP, kidsOf, hp, ih]
      cases seqEncP c esc ge di f (if (di && !v.isList) = true then p.indentStep else p) k v <;>
        simp only [Outcome.mapOk]
      cases kidsOf (seqEncP c esc ge di f) di p rest <;> rfl

theorem seqMembersP_eq (c : SeqCfg) (esc ge di : Bool) (f : Nat) (p : Pretty) (key : Str) :
    ∀ (xs : List Val),
    seqMembersP c esc ge di f p key xs
      = (membersOf (seqEncP c esc ge di f) di p key xs).mapOk (fun a => (a, p))
  | [] => by simp [seqMembersP, membersOf, Outcome.mapOk]
  | x :: xs => by
      have ih := seqMembersP_eq c esc ge di f p key xs
      have hp : (if di = true then (if di = true then p.indentStep else p).outdent
          else (if di = true then p.indentStep else p)) = p := by
        split <;> simp_all [outdent_indentStep]
      simp only [seqMembersP, membersOf, hp, ih]
      cases seqEncP c esc ge di f (if di = true then p.indentStep else p) key x <;>
        simp only [Outcome.mapOk]
      cases membersOf (seqEncP c esc ge di f) di p key xs <;> rfl


/-! ### the map case of `seqEncP` in closed form -/

/-- `seqEncP` on a map after the attributes have been read — literally the model's text -/
def bodyP0 (esc ge di : Bool) (p : Pretty) (key atext : Str) (hv seqOK : Bool) (n : Nat)
    (ot : Option Val) (ko : Outcome (List Piece × Pretty)) : Outcome (List Piece) :=
  match ot with
  | some tv =>
    if ((n = 3 && hv) || (n = 2 && !hv)) && seqOK then
      match txtOf esc tv with
      | some t =>
          if t.isEmpty then
            .ok (layPad di p ++ [.raw ("<".toList ++ key ++ atext ++
              (if ge then ">".toList ++ closeTag key else "/>".toList))] ++ layEnd di p)
          else .ok (layPad di p ++ [.raw ("<".toList ++ key ++ atext ++ ">".toList ++ t ++ closeTag key)]
                    ++ layEnd di p)
      | none => .err .other
    else
      match txtOf esc tv, ko with
      | some t, .ok (kids, p') =>
          .ok (layPad di p ++ [.raw ("<".toList ++ key ++ atext ++ ">".toList ++ t)] ++ layNl di ++ kids
                ++ layPad di p'.shallower ++ [.raw (closeTag key)] ++ layEnd di p'.shallower)
      | none, _ => .err .other
      | _, o => o.fstOk
  | none =>
    if ((n = 2 && hv) || (n = 1 && !hv)) && seqOK then
      .ok (layPad di p ++ [.raw ("<".toList ++ key ++ atext ++
        (if ge then ">".toList ++ closeTag key else "/>".toList))] ++ layEnd di p)
    else match ko with
      | .ok (kids, p') =>
          .ok (layPad di p ++ [.raw ("<".toList ++ key ++ atext ++ ">".toList)] ++ layNl di ++ kids
                ++ layPad di p'.shallower ++ [.raw (closeTag key)] ++ layEnd di p'.shallower)
      | o => o.fstOk

theorem seqEncP_map_eq0 (c : SeqCfg) (esc ge di : Bool) (f : Nat) (p : Pretty) (key : Str)
    (val : Entries) (h1 : key ≠ c.commentK) (h2 : key ≠ c.directiveK) (h3 : key ≠ c.procinstK) :
    seqEncP c esc ge di (f + 1) p key (.map val)
      = match attrsOutB c esc val with
        | .ok (atext, hv) => bodyP0 esc ge di p key atext hv (lookup c.seqK val).isSome val.length
            (lookup c.textK val)
            (seqKidsP c esc ge di f p.deeper (sortBySeq c (unrollEntries c val)))
        | .eof => .eof | .syntax => .syntax | .err k => .err k | .panic s => .panic s := by
  simp only [seqEncP, h1, h2, h3, if_false]
  rfl

/-- the same with the state gone -/
def bodyP (esc ge di : Bool) (p : Pretty) (key atext : Str) (hv seqOK : Bool) (n : Nat)
    (ot : Option Val) (ko : Outcome (List Piece)) : Outcome (List Piece) :=
  match ot with
  | some tv =>
    if ((n = 3 && hv) || (n = 2 && !hv)) && seqOK then
      match txtOf esc tv with
      | some t =>
          if t.isEmpty then
            .ok (layPad di p ++ [.raw ("<".toList ++ key ++ atext ++
              (if ge then ">".toList ++ closeTag key else "/>".toList))] ++ layEnd di p)
          else .ok (layPad di p ++ [.raw ("<".toList ++ key ++ atext ++ ">".toList ++ t ++ closeTag key)]
                    ++ layEnd di p)
      | none => .err .other
    else
      match txtOf esc tv, ko with
      | some t, .ok kids =>
          .ok (layPad di p ++ [.raw ("<".toList ++ key ++ atext ++ ">".toList ++ t)] ++ layNl di ++ kids
                ++ layPad di p ++ [.raw (closeTag key)] ++ layEnd di p)
      | none, _ => .err .other
      | _, o => o
  | none =>
    if ((n = 2 && hv) || (n = 1 && !hv)) && seqOK then
      .ok (layPad di p ++ [.raw ("<".toList ++ key ++ atext ++
        (if ge then ">".toList ++ closeTag key else "/>".toList))] ++ layEnd di p)
    else match ko with
      | .ok kids =>
          .ok (layPad di p ++ [.raw ("<".toList ++ key ++ atext ++ ">".toList)] ++ layNl di ++ kids
                ++ layPad di p ++ [.raw (closeTag key)] ++ layEnd di p)
      | o => o

theorem bodyP0_eq (esc ge di : Bool) (p : Pretty) (key atext : Str) (hv seqOK : Bool) (n : Nat)
    (ot : Option Val) (ko : Outcome (List Piece)) :
    bodyP0 esc ge di p key atext hv seqOK n ot (ko.mapOk (fun a => (a, p.deeper)))
      = bodyP esc ge di p key atext hv seqOK n ot ko := by
  unfold bodyP0 bodyP
  cases ot with
  | none =>
    simp only
    split
    · rfl
    · cases ko <;> simp [Outcome.mapOk, Outcome.fstOk, shallower_deeper]
  | some tv =>
    simp only
    split
    · rfl
    · cases txtOf esc tv <;> cases ko <;> simp [Outcome.mapOk, Outcome.fstOk, shallower_deeper]

theorem seqEncP_map_eq (c : SeqCfg) (esc ge di : Bool) (f : Nat) (p : Pretty) (key : Str)
    (val : Entries) (h1 : key ≠ c.commentK) (h2 : key ≠ c.directiveK) (h3 : key ≠ c.procinstK) :
    seqEncP c esc ge di (f + 1) p key (.map val)
      = match attrsOutB c esc val with
        | .ok (atext, hv) => bodyP esc ge di p key atext hv (lookup c.seqK val).isSome val.length
            (lookup c.textK val)
            (kidsOf (seqEncP c esc ge di f) di p.deeper (sortBySeq c (unrollEntries c val)))
        | .eof => .eof | .syntax => .syntax | .err k => .err k | .panic s => .panic s := by
  rw [seqEncP_map_eq0 c esc ge di f p key val h1 h2 h3, seqKidsP_eq]
  cases attrsOutB c esc val with
  | ok a => obtain ⟨atext, hv⟩ := a; simp only; rw [bodyP0_eq]
  | eof => rfl
  | «syntax» => rfl
  | err _ => rfl
  | panic _ => rfl

theorem seqEncP_list (c : SeqCfg) (esc ge di : Bool) (f : Nat) (p : Pretty) (key : Str)
    (xs : List Val) :
    seqEncP c esc ge di (f + 1) p key (.list xs) = membersOf (seqEncP c esc ge di f) di p key xs := by
  simp only [seqEncP, seqMembersP_eq]
  cases membersOf (seqEncP c esc ge di f) di p key xs <;> rfl


/-! ### (A) layout pieces only -/

theorem core_append : ∀ (a b : List Piece), Piece.core (a ++ b) = Piece.core a ++ Piece.core b
  | [], b => rfl
  | .lay _ :: a, b => by simp only [List.cons_append, Piece.core, core_append a b]
  | .raw s :: a, b => by simp only [List.cons_append, Piece.core, core_append a b, List.append_assoc]

theorem flat_append : ∀ (a b : List Piece), Piece.flat (a ++ b) = Piece.flat a ++ Piece.flat b
  | [], b => rfl
  | .lay _ :: a, b => by simp only [List.cons_append, Piece.flat, flat_append a b, List.append_assoc]
  | .raw s :: a, b => by simp only [List.cons_append, Piece.flat, flat_append a b, List.append_assoc]

@[simp] theorem core_layPad (di : Bool) (p : Pretty) : Piece.core (layPad di p) = [] := by
  cases di <;> rfl
@[simp] theorem core_layNl (di : Bool) : Piece.core (layNl di) = [] := by cases di <;> rfl
@[simp] theorem core_layEnd (di : Bool) (p : Pretty) : Piece.core (layEnd di p) = [] := by
  unfold layEnd; split <;> rfl
@[simp] theorem layPad_false (p : Pretty) : layPad false p = [] := rfl
@[simp] theorem layNl_false : layNl false = [] := rfl
@[simp] theorem layEnd_false (p : Pretty) : layEnd false p = [] := rfl

/-- a pointwise relation between two element encoders lifts through the loops -/
theorem kidsOf_rel (g1 g2 : List Piece → Str)
    (hg1 : ∀ a b, g1 (a ++ b) = g1 a ++ g1 b) (hg2 : ∀ a b, g2 (a ++ b) = g2 a ++ g2 b)
    (h01 : g1 [] = []) (h02 : g2 [] = [])
    (enc1 enc2 : Pretty → Str → Val → Outcome (List Piece)) (di1 di2 : Bool) :
    ∀ (kvs : List (Str × Val)),
    (∀ e ∈ kvs, ∀ p p', (enc1 p e.1 e.2).mapOk g1 = (enc2 p' e.1 e.2).mapOk g2) →
    ∀ p p', (kidsOf enc1 di1 p kvs).mapOk g1 = (kidsOf enc2 di2 p' kvs).mapOk g2
  | [], _, p, p' => by simp [kidsOf, Outcome.mapOk, h01, h02]
  | (k, v) :: rest, h, p, p' => by
      have h1 := h (k, v) (List.mem_cons_self ..)
        (if (di1 && !v.isList) = true then p.indentStep else p)
        (if (di2 && !v.isList) = true then p'.indentStep else p')
      have h2 := kidsOf_rel g1 g2 hg1 hg2 h01 h02 enc1 enc2 di1 di2 rest
        (fun e he => h e (List.mem_cons_of_mem _ he)) p p'
      simp only [kidsOf]
      simp only at h1
      cases e1 : enc1 (if (di1 && !v.isList) = true then p.indentStep else p) k v <;>
        cases e2 : enc2 (if (di2 && !v.isList) = true then p'.indentStep else p') k v <;>
        rw [e1, e2] at h1 <;> simp only [Outcome.mapOk] at h1 ⊢ <;> try (first | exact h1 | cases h1)
      rename_i a b
      cases r1 : kidsOf enc1 di1 p rest <;> cases r2 : kidsOf enc2 di2 p' rest <;>
        rw [r1, r2] at h2 <;> simp only [Outcome.mapOk] at h2 ⊢ <;> try (first | exact h2 | cases h2)
      rename_i x y
      injection h1 with h1; injection h2 with h2
      rw [hg1, hg2, h1, h2]

theorem membersOf_rel (g1 g2 : List Piece → Str)
    (hg1 : ∀ a b, g1 (a ++ b) = g1 a ++ g1 b) (hg2 : ∀ a b, g2 (a ++ b) = g2 a ++ g2 b)
    (h01 : g1 [] = []) (h02 : g2 [] = [])
    (enc1 enc2 : Pretty → Str → Val → Outcome (List Piece)) (di1 di2 : Bool) (key : Str) :
    ∀ (xs : List Val),
    (∀ x ∈ xs, ∀ p p', (enc1 p key x).mapOk g1 = (enc2 p' key x).mapOk g2) →
    ∀ p p', (membersOf enc1 di1 p key xs).mapOk g1 = (membersOf enc2 di2 p' key xs).mapOk g2
  | [], _, p, p' => by simp [membersOf, Outcome.mapOk, h01, h02]
  | x :: xs, h, p, p' => by
      have h1 := h x (List.mem_cons_self ..)
        (if di1 = true then p.indentStep else p) (if di2 = true then p'.indentStep else p')
      have h2 := membersOf_rel g1 g2 hg1 hg2 h01 h02 enc1 enc2 di1 di2 key xs
        (fun e he => h e (List.mem_cons_of_mem _ he)) p p'
      simp only [membersOf]
      cases e1 : enc1 (if di1 = true then p.indentStep else p) key x <;>
        cases e2 : enc2 (if di2 = true then p'.indentStep else p') key x <;>
        rw [e1, e2] at h1 <;> simp only [Outcome.mapOk] at h1 ⊢ <;> try (first | exact h1 | cases h1)
      rename_i a b
      cases r1 : membersOf enc1 di1 p key xs <;> cases r2 : membersOf enc2 di2 p' key xs <;>
        rw [r1, r2] at h2 <;> simp only [Outcome.mapOk] at h2 ⊢ <;> try (first | exact h2 | cases h2)
      rename_i x y
      injection h1 with h1; injection h2 with h2
      rw [hg1, hg2, h1, h2]

theorem bodyP_core (esc ge : Bool) (p p' : Pretty) (key atext : Str) (hv sq : Bool) (n : Nat)
    (ot : Option Val) (ko1 ko2 : Outcome (List Piece))
    (hk : ko1.mapOk Piece.core = ko2.mapOk Piece.flat) :
    (bodyP esc ge true p key atext hv sq n ot ko1).mapOk Piece.core
      = (bodyP esc ge false p' key atext hv sq n ot ko2).mapOk Piece.flat := by
  unfold bodyP
  cases ot with
  | none =>
    simp only
    split
    · simp [Outcome.mapOk, core_append, flat_append, Piece.core, Piece.flat]
    · cases ko1 <;> cases ko2 <;> simp only [Outcome.mapOk] at hk ⊢ <;>
        first
        | (injection hk with hk; simp [core_append, flat_append, Piece.core, Piece.flat, hk])
        | exact hk
        | cases hk
  | some tv =>
    simp only
    split
    · cases txtOf esc tv with
      | none => rfl
      | some t =>
        simp only
        split <;> simp [Outcome.mapOk, core_append, flat_append, Piece.core, Piece.flat]
    · cases txtOf esc tv with
      | none => rfl
      | some t =>
        cases ko1 <;> cases ko2 <;> simp only [Outcome.mapOk] at hk ⊢ <;>
          first
          | (injection hk with hk; simp [core_append, flat_append, Piece.core, Piece.flat, hk])
          | exact hk
          | cases hk

/-- (A) the indented output without its layout pieces is the compact output -/
theorem encP_core (c : SeqCfg) (esc ge : Bool) : ∀ (f : Nat) (p p' : Pretty) (key : Str) (v : Val),
    (seqEncP c esc ge true f p key v).mapOk Piece.core
      = (seqEncP c esc ge false f p' key v).mapOk Piece.flat := by
  intro f
  induction f with
  | zero => intro p p' key v; simp [seqEncP, Outcome.mapOk]
  | succ f ih =>
    intro p p' key v
    cases v with
    | null => simp [seqEncP, Outcome.mapOk, core_append, flat_append, Piece.core, Piece.flat]
    | bool b =>
      simp only [seqEncP]
      cases fmtV (.bool b) <;>
        simp [Outcome.mapOk, core_append, flat_append, Piece.core, Piece.flat]
    | num t =>
      simp only [seqEncP]
      cases fmtV (.num t) <;>
        simp [Outcome.mapOk, core_append, flat_append, Piece.core, Piece.flat]
    | str s => simp [seqEncP, Outcome.mapOk, core_append, flat_append, Piece.core, Piece.flat]
    | list xs =>
      rw [seqEncP_list, seqEncP_list]
      exact membersOf_rel _ _ core_append flat_append rfl rfl _ _ true false key xs
        (fun x _ q q' => ih q q' key x) p p'
    | map val =>
      by_cases h1 : key = c.commentK
      · subst h1
        simp only [seqEncP, if_true]
        cases strOf (lookup c.textK val) <;>
          simp [Outcome.mapOk, core_append, flat_append, Piece.core, Piece.flat]
      by_cases h2 : key = c.directiveK
      · subst h2
        simp only [seqEncP, h1, if_true, if_false]
        cases strOf (lookup c.textK val) <;>
          simp [Outcome.mapOk, core_append, flat_append, Piece.core, Piece.flat]
      by_cases h3 : key = c.procinstK
      · subst h3
        simp only [seqEncP, h1, h2, if_true, if_false]
        cases strOf (lookup c.targetK val) <;> cases strOf (lookup c.instK val) <;>
          simp [Outcome.mapOk, core_append, flat_append, Piece.core, Piece.flat]
      rw [seqEncP_map_eq c esc ge true f p key val h1 h2 h3,
        seqEncP_map_eq c esc ge false f p' key val h1 h2 h3]
      cases attrsOutB c esc val with
      | ok a =>
        obtain ⟨atext, hv⟩ := a
        simp only
        apply bodyP_core
        exact kidsOf_rel _ _ core_append flat_append rfl rfl _ _ true false _
          (fun e _ q q' => ih q q' e.1 e.2) _ _
      | eof => rfl
      | «syntax» => rfl
      | err _ => rfl
      | panic _ => rfl


/-! ### (B, C) the compact mode against `seqEnc` -/

/-- same failure; if both succeed, the same bytes provided `h` -/
def Rel (h : Prop) (o1 : Outcome (List Piece)) (o2 : Outcome Str) : Prop :=
  match o1, o2 with
  | .ok a, .ok b => h → Piece.flat a = b
  | .eof, .eof => True
  | .syntax, .syntax => True
  | .err k, .err k' => k = k'
  | .panic s, .panic s' => s = s'
  | _, _ => False

theorem Rel.mono {h h' : Prop} (hh : h' → h) {o1 : Outcome (List Piece)} {o2 : Outcome Str}
    (r : Rel h o1 o2) : Rel h' o1 o2 := by
  cases o1 <;> cases o2 <;> simp only [Rel] at r ⊢ <;> first | exact fun x => r (hh x) | exact r

theorem kids_rel (c : SeqCfg) (esc ge : Bool) (f : Nat)
    (enc1 : Pretty → Str → Val → Outcome (List Piece)) :
    ∀ (kvs : List (Str × Val)),
    (∀ e ∈ kvs, ∀ p, Rel (noteOk c e.1 e.2 = true) (enc1 p e.1 e.2) (seqEnc c esc ge f e.1 e.2)) →
    ∀ p, Rel (∀ e ∈ kvs, noteOk c e.1 e.2 = true) (kidsOf enc1 false p kvs) (seqKids c esc ge f kvs)
  | [], _, p => by simp [kidsOf, seqKids, Rel, Piece.flat]
  | (k, v) :: rest, h, p => by
      have h1 := h (k, v) (List.mem_cons_self ..) p
      have h2 := kids_rel c esc ge f enc1 rest (fun e he => h e (List.mem_cons_of_mem _ he)) p
      simp only [kidsOf, seqKids, Bool.false_and, Bool.false_eq_true, if_false]
      simp only at h1
      cases e1 : enc1 p k v <;> cases e2 : seqEnc c esc ge f k v <;>
        rw [e1, e2] at h1 <;> simp only [Rel] at h1 ⊢ <;> try (first | exact h1 | cases h1)
      rename_i a b
      cases r1 : kidsOf enc1 false p rest <;> cases r2 : seqKids c esc ge f rest <;>
        rw [r1, r2] at h2 <;> simp only [Rel] at h2 ⊢ <;> try (first | exact h2 | cases h2)
      intro hall
      rw [flat_append, h1 (hall (k, v) (List.mem_cons_self ..)),
        h2 (fun e he => hall e (List.mem_cons_of_mem _ he))]

theorem noteOkList_iff (c : SeqCfg) (key : Str) : ∀ (xs : List Val),
    noteOkList c key xs = true ↔ ∀ x ∈ xs, noteOk c key x = true
  | [] => by simp [noteOkList]
  | x :: xs => by simp [noteOkList, noteOkList_iff c key xs]

theorem members_rel (c : SeqCfg) (esc ge : Bool) (f : Nat)
    (enc1 : Pretty → Str → Val → Outcome (List Piece)) (key : Str) :
    ∀ (xs : List Val),
    (∀ x ∈ xs, ∀ p, Rel (noteOk c key x = true) (enc1 p key x) (seqEnc c esc ge f key x)) →
    ∀ p, Rel (noteOkList c key xs = true) (membersOf enc1 false p key xs) (seqMembers c esc ge f key xs)
  | [], _, p => by simp [membersOf, seqMembers, Rel, Piece.flat]
  | x :: xs, h, p => by
      have h1 := h x (List.mem_cons_self ..) p
      have h2 := members_rel c esc ge f enc1 key xs (fun e he => h e (List.mem_cons_of_mem _ he)) p
      simp only [membersOf, seqMembers, Bool.false_eq_true, if_false]
      cases e1 : enc1 p key x <;> cases e2 : seqEnc c esc ge f key x <;>
        rw [e1, e2] at h1 <;> simp only [Rel] at h1 ⊢ <;> try (first | exact h1 | cases h1)
      rename_i a b
      cases r1 : membersOf enc1 false p key xs <;> cases r2 : seqMembers c esc ge f key xs <;>
        rw [r1, r2] at h2 <;> simp only [Rel] at h2 ⊢ <;> try (first | exact h2 | cases h2)
      intro hall
      simp only [noteOkList, Bool.and_eq_true] at hall
      rw [flat_append, h1 hall.1, h2 hall.2]

theorem body_rel (esc ge : Bool) (H : Prop) (p : Pretty) (key atext : Str) (hv sq : Bool) (n : Nat)
    (ot : Option Val) (ko1 : Outcome (List Piece)) (ko2 : Outcome Str) (hk : Rel H ko1 ko2) :
    Rel H (bodyP esc ge false p key atext hv sq n ot ko1)
      (encBodyB esc ge key atext hv sq n ot ko2) := by
  unfold bodyP encBodyB
  cases ot with
  | none =>
    simp only
    split
    · simp [Rel, flat_append, Piece.flat]
    · cases ko1 <;> cases ko2 <;> simp only [Rel] at hk ⊢ <;>
        first
        | (intro hH; simp [flat_append, Piece.flat, hk hH])
        | exact hk
        | cases hk
  | some tv =>
    simp only
    split
    · cases txtOf esc tv with
      | none => simp [Rel]
      | some t =>
        simp only
        split <;> simp [Rel, flat_append, Piece.flat]
    · cases txtOf esc tv with
      | none => simp [Rel]
      | some t =>
        cases ko1 <;> cases ko2 <;> simp only [Rel] at hk ⊢ <;>
          first
          | (intro hH; simp [flat_append, Piece.flat, hk hH])
          | exact hk
          | cases hk

theorem noteOk_unroll (c : SeqCfg) : ∀ (l : Entries), noteOkEntries c l = true →
    ∀ e ∈ unrollEntries c l, noteOk c e.1 e.2 = true
  | [], _, e, h => by simp [unrollEntries] at h
  | (k, v) :: rest, hp, e, h => by
      simp only [noteOkEntries, Bool.and_eq_true, Bool.or_eq_true, decide_eq_true_eq] at hp
      rw [unrollEntries_cons, List.mem_append] at h
      rcases h with h | h
      · by_cases hd : dropK c k = true
        · simp [hd] at h
        · simp only [hd, Bool.false_eq_true, if_false] at h
          have hpv : noteOk c k v = true := by
            rcases hp.1 with h1 | h1
            · exfalso; apply hd
              rcases h1 with (h1 | h1) | h1 <;> simp [dropK, h1]
            · exact h1
          cases v with
          | list xs =>
            simp only [unroll1, List.mem_map] at h
            obtain ⟨x, hx, rfl⟩ := h
            simp only [noteOk] at hpv
            exact (noteOkList_iff c k xs).1 hpv x hx
          | null => simp only [unroll1, List.mem_singleton] at h; subst h; exact hpv
          | bool _ => simp only [unroll1, List.mem_singleton] at h; subst h; exact hpv
          | num _ => simp only [unroll1, List.mem_singleton] at h; subst h; exact hpv
          | str _ => simp only [unroll1, List.mem_singleton] at h; subst h; exact hpv
          | map _ => simp only [unroll1, List.mem_singleton] at h; subst h; exact hpv
      · exact noteOk_unroll c rest hp.2 e h

theorem isNoteKey_false (c : SeqCfg) (key : Str) (h1 : key ≠ c.commentK) (h2 : key ≠ c.directiveK)
    (h3 : key ≠ c.procinstK) : noteKeyB c key = false := by
  simp [noteKeyB, h1, h2, h3]

/-- (B, C) the compact mode of `seqEncP` against `seqEnc`: the same failure on every input, the
    same bytes when no scalar sits under a comment / directive / processing-instruction key -/
theorem encP_rel (c : SeqCfg) (esc ge : Bool) : ∀ (f : Nat) (p : Pretty) (key : Str) (v : Val),
    Rel (noteOk c key v = true) (seqEncP c esc ge false f p key v) (seqEnc c esc ge f key v) := by
  intro f
  induction f with
  | zero => intro p key v; simp [seqEncP, seqEnc, Rel]
  | succ f ih =>
    intro p key v
    cases v with
    | null => simp [seqEncP, seqEnc, Rel, Piece.flat]
    | bool b =>
      simp only [seqEncP, seqEnc]
      cases fmtV (.bool b) <;> simp [Rel, Piece.flat, noteOk, ltKey]
      intro h; simp [h]
    | num t =>
      simp only [seqEncP, seqEnc]
      cases fmtV (.num t) <;> simp [Rel, Piece.flat, noteOk, ltKey]
      intro h; simp [h]
    | str s =>
      simp only [seqEncP, seqEnc, Rel, layPad_false, layEnd_false, noteOk, ltKey]
      intro h
      simp at h
      simp [Piece.flat, h]
    | list xs =>
      rw [seqEncP_list]
      simp only [seqEnc, noteOk]
      exact members_rel c esc ge f _ key xs (fun x _ q => ih q key x) p
    | map val =>
      by_cases h1 : key = c.commentK
      · subst h1
        simp only [seqEncP, seqEnc, if_true]
        cases strOf (lookup c.textK val) <;> simp [Rel, Piece.flat]
      by_cases h2 : key = c.directiveK
      · subst h2
        simp only [seqEncP, seqEnc, h1, if_true, if_false]
        cases strOf (lookup c.textK val) <;> simp [Rel, Piece.flat]
      by_cases h3 : key = c.procinstK
      · subst h3
        simp only [seqEncP, seqEnc, h1, h2, if_true, if_false]
        cases strOf (lookup c.targetK val) <;> cases strOf (lookup c.instK val) <;>
          simp [Rel, Piece.flat]
      rw [seqEncP_map_eq c esc ge false f p key val h1 h2 h3, seqEnc_map_eq c esc ge f key val h1 h2 h3]
      cases attrsOutB c esc val with
      | ok a =>
        obtain ⟨atext, hv⟩ := a
        simp only
        apply body_rel
        refine Rel.mono ?_ (kids_rel c esc ge f _ _ (fun e _ q => ih q e.1 e.2) _)
        intro hn e he
        simp only [noteOk, isNoteKey_false c key h1 h2 h3, Bool.false_or] at hn
        exact noteOk_unroll c val hn e ((sortBySeq_perm c _).mem_iff.1 he)
      | eof => simp [Rel]
      | «syntax» => simp [Rel]
      | err _ => simp [Rel]
      | panic _ => simp [Rel]


/-! ### (D) trees: dropping the layout -/

/-! ### the tree form -/

def bodyL (p : Pretty) (key : Str) (as : List Attr) (hv seqOK : Bool) (n : Nat) (ot : Option Val)
    (ko : Outcome (List LNode)) : Outcome (List LNode) :=
  match ot with
  | some tv =>
    if ((n = 3 && hv) || (n = 2 && !hv)) && seqOK then
      match fmtV tv with
      | some t => .ok ([.lay p.padding, .elem key as (textKidL t)] ++ nlL p)
      | none => .err .other
    else
      match fmtV tv, ko with
      | some t, .ok kids =>
          .ok ([.lay p.padding,
                .elem key as (textKidL t ++ [.lay ['\n']] ++ kids ++ [.lay p.padding])] ++ nlL p)
      | none, _ => .err .other
      | _, o => o
  | none =>
    if ((n = 2 && hv) || (n = 1 && !hv)) && seqOK then
      .ok ([.lay p.padding, .elem key as []] ++ nlL p)
    else match ko with
      | .ok kids =>
          .ok ([.lay p.padding, .elem key as ([.lay ['\n']] ++ kids ++ [.lay p.padding])] ++ nlL p)
      | o => o

theorem seqEncTreeL_map_eq (c : SeqCfg) (f : Nat) (p : Pretty) (key : Str) (val : Entries)
    (h1 : key ≠ c.commentK) (h2 : key ≠ c.directiveK) (h3 : key ≠ c.procinstK) :
    seqEncTreeL c (f + 1) p key (.map val)
      = match attrsOutT c val with
        | .ok (as, hv) => bodyL p key as hv (lookup c.seqK val).isSome val.length
            (lookup c.textK val) (seqKidsTreeL c f p.deeper (sortBySeq c (unrollEntries c val)))
        | .eof => .eof | .syntax => .syntax | .err k => .err k | .panic s => .panic s := by
  simp only [seqEncTreeL, h1, h2, h3, if_false]
  rfl

theorem stripKids_append : ∀ (a b : List LNode),
    LNode.stripKids (a ++ b) = LNode.stripKids a ++ LNode.stripKids b
  | [], b => rfl
  | x :: a, b => by simp only [List.cons_append, LNode.stripKids, stripKids_append a b, List.append_assoc]

@[simp] theorem stripKids_nlL (p : Pretty) : LNode.stripKids (nlL p) = [] := by
  unfold nlL; split <;> rfl

@[simp] theorem stripKids_textKidL (t : Str) : LNode.stripKids (textKidL t) = textKid t := by
  unfold textKidL textKid; split <;> rfl

theorem strip_kids (c : SeqCfg) (f : Nat)
    (P : ∀ p key v, (seqEncTreeL c f p key v).mapOk LNode.stripKids = seqEncTree c f key v) :
    ∀ (l : List (Str × Val)) (p : Pretty),
      (seqKidsTreeL c f p l).mapOk LNode.stripKids = seqKidsTree c f l
  | [], p => by simp [seqKidsTreeL, seqKidsTree, Outcome.mapOk, LNode.stripKids]
  | (k, v) :: rest, p => by
      have h1 := P (if v.isList then p else p.indentStep) k v
      have h2 := strip_kids c f P rest p
      simp only [seqKidsTreeL, seqKidsTree, ← h1, ← h2]
      cases seqEncTreeL c f (if v.isList = true then p else p.indentStep) k v <;>
        cases seqKidsTreeL c f p rest <;> simp [Outcome.mapOk, stripKids_append]

theorem strip_members (c : SeqCfg) (f : Nat)
    (P : ∀ p key v, (seqEncTreeL c f p key v).mapOk LNode.stripKids = seqEncTree c f key v) :
    ∀ (key : Str) (xs : List Val) (p : Pretty),
      (seqMembersTreeL c f p key xs).mapOk LNode.stripKids = seqMembersTree c f key xs
  | key, [], p => by simp [seqMembersTreeL, seqMembersTree, Outcome.mapOk, LNode.stripKids]
  | key, x :: xs, p => by
      have h1 := P p.indentStep key x
      have h2 := strip_members c f P key xs p
      simp only [seqMembersTreeL, seqMembersTree, ← h1, ← h2]
      cases seqEncTreeL c f p.indentStep key x <;>
        cases seqMembersTreeL c f p key xs <;> simp [Outcome.mapOk, stripKids_append]

theorem strip_body (p : Pretty) (key : Str) (as : List Attr) (hv sq : Bool) (n : Nat)
    (ot : Option Val) (ko : Outcome (List LNode)) :
    (bodyL p key as hv sq n ot ko).mapOk LNode.stripKids
      = encBody key as hv sq n ot (ko.mapOk LNode.stripKids) := by
  unfold bodyL encBody
  cases ot with
  | none =>
    simp only
    split
    · simp [Outcome.mapOk, LNode.stripKids, LNode.strip, stripKids_append]
    · cases ko <;> simp [Outcome.mapOk, LNode.stripKids, LNode.strip, stripKids_append]
  | some tv =>
    simp only
    split
    · cases fmtV tv <;> simp [Outcome.mapOk, LNode.stripKids, LNode.strip, stripKids_append]
    · cases fmtV tv <;> cases ko <;>
        simp [Outcome.mapOk, LNode.stripKids, LNode.strip, stripKids_append]

/-- (D) dropping the layout nodes gives the compact encoder's tree, exactly -/
theorem encTreeL_strip (c : SeqCfg) : ∀ (f : Nat) (p : Pretty) (key : Str) (v : Val),
    (seqEncTreeL c f p key v).mapOk LNode.stripKids = seqEncTree c f key v := by
  intro f
  induction f with
  | zero => intro p key v; simp [seqEncTreeL, seqEncTree, Outcome.mapOk]
  | succ f ih =>
    intro p key v
    cases v with
    | null => simp [seqEncTreeL, seqEncTree, Outcome.mapOk]
    | bool b =>
      simp only [seqEncTreeL, seqEncTree]
      cases fmtV (.bool b) <;>
        simp [Outcome.mapOk, LNode.stripKids, LNode.strip, stripKids_append]
    | num t =>
      simp only [seqEncTreeL, seqEncTree]
      cases fmtV (.num t) <;>
        simp [Outcome.mapOk, LNode.stripKids, LNode.strip, stripKids_append]
    | str s =>
      simp [seqEncTreeL, seqEncTree, Outcome.mapOk, LNode.stripKids, LNode.strip, stripKids_append]
    | list xs =>
      simp only [seqEncTreeL, seqEncTree]
      exact strip_members c f ih key xs p
    | map val =>
      by_cases h1 : key = c.commentK
      · subst h1
        simp only [seqEncTreeL, seqEncTree, if_true]
        cases strOf (lookup c.textK val) <;>
          simp [Outcome.mapOk, LNode.stripKids, LNode.strip, stripKids_append]
      by_cases h2 : key = c.directiveK
      · subst h2
        simp only [seqEncTreeL, seqEncTree, h1, if_true, if_false]
        cases strOf (lookup c.textK val) <;>
          simp [Outcome.mapOk, LNode.stripKids, LNode.strip, stripKids_append]
      by_cases h3 : key = c.procinstK
      · subst h3
        simp only [seqEncTreeL, seqEncTree, h1, h2, if_true, if_false]
        cases strOf (lookup c.targetK val) <;> cases strOf (lookup c.instK val) <;>
          simp [Outcome.mapOk, LNode.stripKids, LNode.strip, stripKids_append]
      rw [seqEncTreeL_map_eq c f p key val h1 h2 h3, seqEncTree_map_eq c f key val h1 h2 h3]
      cases attrsOutT c val with
      | ok a =>
        obtain ⟨as, hv⟩ := a
        simp only
        rw [strip_body, strip_kids c f ih]
      | eof => rfl
      | «syntax» => rfl
      | err _ => rfl
      | panic _ => rfl


/-! ### (E) shape of the layout tree -/

/-- no text node among these siblings (layout allowed) -/
def noTextTop : List LNode → Bool
  | [] => true
  | .text _ :: _ => false
  | _ :: r => noTextTop r

/-- text only as the first child -/
def topShape : List LNode → Bool
  | .text _ :: r => noTextTop r
  | ks => noTextTop ks

mutual
def shapeL : LNode → Bool
  | .elem _ _ ks => topShape ks && shapeKidsL ks
  | _ => true
def shapeKidsL : List LNode → Bool
  | [] => true
  | k :: r => shapeL k && shapeKidsL r
end

theorem noTextTop_append : ∀ (a b : List LNode), noTextTop (a ++ b) = (noTextTop a && noTextTop b)
  | [], b => by simp [noTextTop]
  | x :: a, b => by cases x <;> simp [noTextTop, noTextTop_append a b]

theorem shapeKidsL_append : ∀ (a b : List LNode), shapeKidsL (a ++ b) = (shapeKidsL a && shapeKidsL b)
  | [], b => by simp [shapeKidsL]
  | x :: a, b => by simp [shapeKidsL, shapeKidsL_append a b, Bool.and_assoc]

theorem allLays_append (P : Str → Bool) : ∀ (a b : List LNode),
    LNode.allLays P (a ++ b) = (LNode.allLays P a && LNode.allLays P b)
  | [], b => by simp [LNode.allLays]
  | x :: a, b => by cases x <;> simp [LNode.allLays, allLays_append P a b, Bool.and_assoc]

/-- the characters of the padding and of the indent string satisfy `P` -/
def GoodP (P : Char → Bool) (p : Pretty) : Prop :=
  (∀ ch ∈ p.padding, P ch = true) ∧ (∀ ch ∈ p.indent, P ch = true)

theorem GoodP.indentStep {P : Char → Bool} {p : Pretty} (h : GoodP P p) : GoodP P p.indentStep := by
  refine ⟨fun ch hc => ?_, h.2⟩
  simp only [Pretty.indentStep, List.mem_append] at hc
  rcases hc with hc | hc
  · exact h.1 ch hc
  · exact h.2 ch hc

theorem GoodP.deeper {P : Char → Bool} {p : Pretty} (h : GoodP P p) : GoodP P p.deeper := h

theorem GoodP.pad {P : Char → Bool} {p : Pretty} (h : GoodP P p) : p.padding.all P = true :=
  List.all_eq_true.2 h.1

/-- what (E) says of an output -/
def OutOk (P : Char → Bool) (out : List LNode) : Prop :=
  noTextTop out = true ∧ shapeKidsL out = true ∧ LNode.allLays (fun s => s.all P) out = true

theorem OutOk.nil (P : Char → Bool) : OutOk P [] := ⟨rfl, rfl, by simp [LNode.allLays]⟩

theorem OutOk.append {P : Char → Bool} {a b : List LNode} (ha : OutOk P a) (hb : OutOk P b) :
    OutOk P (a ++ b) := by
  refine ⟨?_, ?_, ?_⟩
  · rw [noTextTop_append, ha.1, hb.1]; rfl
  · rw [shapeKidsL_append, ha.2.1, hb.2.1]; rfl
  · rw [allLays_append, ha.2.2, hb.2.2]; rfl

theorem OutOk.ofNl {P : Char → Bool} (hnl : P '\n' = true) (p : Pretty) : OutOk P (nlL p) := by
  unfold nlL; split
  · exact ⟨rfl, rfl, by simp [LNode.allLays, hnl]⟩
  · exact OutOk.nil P

/-- padding, one non-text node, newline -/
theorem OutOk.wrap {P : Char → Bool} (hnl : P '\n' = true) {p : Pretty} (hp : GoodP P p) (x : LNode)
    (hx1 : noTextTop [x] = true) (hx2 : shapeL x = true)
    (hx3 : LNode.allLays (fun s => s.all P) [x] = true) :
    OutOk P ([.lay p.padding, x] ++ nlL p) := by
  have h1 : OutOk P [.lay p.padding] := ⟨rfl, rfl, by simp [LNode.allLays, hp.pad]⟩
  have h2 : OutOk P [x] := ⟨hx1, by simp [shapeKidsL, hx2], hx3⟩
  exact OutOk.append (OutOk.append h1 h2) (OutOk.ofNl hnl p)

theorem shape_kids (c : SeqCfg) (P : Char → Bool) (f : Nat)
    (IH : ∀ p key v out, GoodP P p → seqEncTreeL c f p key v = .ok out → OutOk P out) :
    ∀ (l : List (Str × Val)) (p : Pretty) (out : List LNode), GoodP P p →
      seqKidsTreeL c f p l = .ok out → OutOk P out
  | [], p, out, _, h => by
      simp only [seqKidsTreeL, Outcome.ok.injEq] at h; subst h; exact OutOk.nil P
  | (k, v) :: rest, p, out, hp, h => by
      simp only [seqKidsTreeL] at h
      cases e1 : seqEncTreeL c f (if v.isList = true then p else p.indentStep) k v with
      | ok a =>
        rw [e1] at h
        cases e2 : seqKidsTreeL c f p rest with
        | ok r =>
          rw [e2] at h
          simp only [Outcome.ok.injEq] at h
          subst h
          refine OutOk.append (IH _ k v a ?_ e1) (shape_kids c P f IH rest p r hp e2)
          split
          · exact hp
          · exact hp.indentStep
        | eof => rw [e2] at h; cases h
        | «syntax» => rw [e2] at h; cases h
        | err _ => rw [e2] at h; cases h
        | panic _ => rw [e2] at h; cases h
      | eof => rw [e1] at h; cases h
      | «syntax» => rw [e1] at h; cases h
      | err _ => rw [e1] at h; cases h
      | panic _ => rw [e1] at h; cases h

theorem shape_members (c : SeqCfg) (P : Char → Bool) (f : Nat)
    (IH : ∀ p key v out, GoodP P p → seqEncTreeL c f p key v = .ok out → OutOk P out) :
    ∀ (key : Str) (xs : List Val) (p : Pretty) (out : List LNode), GoodP P p →
      seqMembersTreeL c f p key xs = .ok out → OutOk P out
  | key, [], p, out, _, h => by
      simp only [seqMembersTreeL, Outcome.ok.injEq] at h; subst h; exact OutOk.nil P
  | key, x :: xs, p, out, hp, h => by
      simp only [seqMembersTreeL] at h
      cases e1 : seqEncTreeL c f p.indentStep key x with
      | ok a =>
        rw [e1] at h
        cases e2 : seqMembersTreeL c f p key xs with
        | ok r =>
          rw [e2] at h
          simp only [Outcome.ok.injEq] at h
          subst h
          exact OutOk.append (IH _ key x a hp.indentStep e1) (shape_members c P f IH key xs p r hp e2)
        | eof => rw [e2] at h; cases h
        | «syntax» => rw [e2] at h; cases h
        | err _ => rw [e2] at h; cases h
        | panic _ => rw [e2] at h; cases h
      | eof => rw [e1] at h; cases h
      | «syntax» => rw [e1] at h; cases h
      | err _ => rw [e1] at h; cases h
      | panic _ => rw [e1] at h; cases h

theorem topShape_textKidL (t : Str) (r : List LNode) (hr : noTextTop r = true) :
    topShape (textKidL t ++ r) = true := by
  unfold textKidL
  split
  · cases r with
    | nil => rfl
    | cons x r => cases x <;> simp_all [topShape, noTextTop]
  · simpa [topShape] using hr

theorem shape_body (P : Char → Bool) (hnl : P '\n' = true) (p : Pretty) (hp : GoodP P p) (key : Str)
    (as : List Attr) (hv sq : Bool) (n : Nat) (ot : Option Val) (ko : Outcome (List LNode))
    (hk : ∀ K, ko = .ok K → OutOk P K) (out : List LNode)
    (h : bodyL p key as hv sq n ot ko = .ok out) : OutOk P out := by
  have hpad : OutOk P [LNode.lay p.padding] := ⟨rfl, rfl, by simp [LNode.allLays, hp.pad]⟩
  have hnl1 : OutOk P [LNode.lay ['\n']] := ⟨rfl, rfl, by simp [LNode.allLays, hnl]⟩
  have htk : ∀ t, shapeKidsL (textKidL t) = true ∧ LNode.allLays (fun s => s.all P) (textKidL t) = true := by
    intro t; unfold textKidL; split <;> simp [shapeKidsL, shapeL, LNode.allLays]
  have complex : ∀ t K, OutOk P K →
      OutOk P ([.lay p.padding, .elem key as (textKidL t ++ [.lay ['\n']] ++ K ++ [.lay p.padding])]
        ++ nlL p) := by
    intro t K hK
    have hr : OutOk P ([LNode.lay ['\n']] ++ K ++ [LNode.lay p.padding]) :=
      OutOk.append (OutOk.append hnl1 hK) hpad
    apply OutOk.wrap hnl hp
    · rfl
    · simp only [shapeL, Bool.and_eq_true]
      refine ⟨?_, ?_⟩
      · have := topShape_textKidL t _ hr.1
        simpa [List.append_assoc] using this
      · have := hr.2.1
        simp only [List.append_assoc] at this ⊢
        rw [shapeKidsL_append, (htk t).1, this]; rfl
    · have := hr.2.2
      simp only [List.append_assoc] at this ⊢
      simp only [LNode.allLays, Bool.and_true]
      rw [allLays_append, (htk t).2, this]; rfl
  unfold bodyL at h
  cases ot with
  | none =>
    simp only at h
    split at h
    · simp only [Outcome.ok.injEq] at h; subst h
      exact OutOk.wrap hnl hp _ rfl (by simp [shapeL, topShape, noTextTop, shapeKidsL])
        (by simp [LNode.allLays])
    · cases ko with
      | ok K =>
        simp only [Outcome.ok.injEq] at h; subst h
        have := complex [] K (hk K rfl)
        simpa [textKidL] using this
      | eof => cases h
      | «syntax» => cases h
      | err _ => cases h
      | panic _ => cases h
  | some tv =>
    simp only at h
    split at h
    · cases hf : fmtV tv with
      | none => rw [hf] at h; cases h
      | some t =>
        rw [hf] at h
        simp only [Outcome.ok.injEq] at h; subst h
        apply OutOk.wrap hnl hp
        · rfl
        · simp only [shapeL, Bool.and_eq_true]
          refine ⟨?_, (htk t).1⟩
          have := topShape_textKidL t [] rfl
          simpa using this
        · simp [LNode.allLays, (htk t).2]
    · cases hf : fmtV tv with
      | none => rw [hf] at h; cases h
      | some t =>
        rw [hf] at h
        cases ko with
        | ok K =>
          simp only [Outcome.ok.injEq] at h; subst h
          exact complex t K (hk K rfl)
        | eof => cases h
        | «syntax» => cases h
        | err _ => cases h
        | panic _ => cases h

/-- (E) the output of the tree encoder: no text node at the top, text only as the first child of
    every element, and every layout string made of newline / padding / indent characters -/
theorem encTreeL_shape (c : SeqCfg) (P : Char → Bool) (hnl : P '\n' = true) :
    ∀ (f : Nat) (p : Pretty) (key : Str) (v : Val) (out : List LNode), GoodP P p →
      seqEncTreeL c f p key v = .ok out → OutOk P out := by
  intro f
  induction f with
  | zero => intro p key v out _ h; simp [seqEncTreeL] at h
  | succ f ih =>
    intro p key v out hp h
    have leaf : ∀ t : Str, OutOk P ([.lay p.padding, .elem key [] (textKidL t)] ++ nlL p) := by
      intro t
      apply OutOk.wrap hnl hp
      · rfl
      · have := topShape_textKidL t [] rfl
        unfold textKidL at this ⊢
        split <;> simp_all [shapeL, shapeKidsL, topShape, noTextTop]
      · unfold textKidL; split <;> simp [LNode.allLays]
    cases v with
    | null => simp [seqEncTreeL] at h
    | bool b =>
      simp only [seqEncTreeL] at h
      cases hf : fmtV (.bool b) with
      | none => rw [hf] at h; cases h
      | some t =>
        rw [hf] at h; simp only [Outcome.ok.injEq] at h; subst h
        exact OutOk.wrap hnl hp _ rfl (by simp [shapeL, topShape, noTextTop, shapeKidsL])
          (by simp [LNode.allLays])
    | num t' =>
      simp only [seqEncTreeL] at h
      cases hf : fmtV (.num t') with
      | none => rw [hf] at h; cases h
      | some t =>
        rw [hf] at h; simp only [Outcome.ok.injEq] at h; subst h
        exact OutOk.wrap hnl hp _ rfl (by simp [shapeL, topShape, noTextTop, shapeKidsL])
          (by simp [LNode.allLays])
    | str s =>
      simp only [seqEncTreeL, Outcome.ok.injEq] at h; subst h
      exact leaf s
    | list xs =>
      simp only [seqEncTreeL] at h
      exact shape_members c P f ih key xs p out hp h
    | map val =>
      by_cases h1 : key = c.commentK
      · subst h1
        simp only [seqEncTreeL, if_true] at h
        cases hs : strOf (lookup c.textK val) with
        | none => rw [hs] at h; cases h
        | some s =>
          rw [hs] at h; simp only [Outcome.ok.injEq] at h; subst h
          exact OutOk.wrap hnl hp _ rfl rfl (by simp [LNode.allLays])
      by_cases h2 : key = c.directiveK
      · subst h2
        simp only [seqEncTreeL, h1, if_true, if_false] at h
        cases hs : strOf (lookup c.textK val) with
        | none => rw [hs] at h; cases h
        | some s =>
          rw [hs] at h; simp only [Outcome.ok.injEq] at h; subst h
          exact OutOk.wrap hnl hp _ rfl rfl (by simp [LNode.allLays])
      by_cases h3 : key = c.procinstK
      · subst h3
        simp only [seqEncTreeL, h1, h2, if_true, if_false] at h
        cases hs : strOf (lookup c.targetK val) with
        | none => rw [hs] at h; cases h
        | some s =>
          cases hi : strOf (lookup c.instK val) with
          | none => rw [hs, hi] at h; cases h
          | some i =>
            rw [hs, hi] at h; simp only [Outcome.ok.injEq] at h; subst h
            exact OutOk.wrap hnl hp _ rfl rfl (by simp [LNode.allLays])
      rw [seqEncTreeL_map_eq c f p key val h1 h2 h3] at h
      cases ha : attrsOutT c val with
      | ok a =>
        obtain ⟨as, hv⟩ := a
        rw [ha] at h
        simp only at h
        exact shape_body P hnl p hp key as hv _ _ _ _
          (fun K hK => shape_kids c P f ih _ p.deeper K hp.deeper hK) out h
      | eof => rw [ha] at h; cases h
      | «syntax» => rw [ha] at h; cases h
      | err _ => rw [ha] at h; cases h
      | panic _ => rw [ha] at h; cases h


/-! ### (F) bytes = rendering of the layout tree -/

theorem renderLKids_append (esc ge : Bool) : ∀ (a b : List LNode),
    renderLKids esc ge (a ++ b) = renderLKids esc ge a ++ renderLKids esc ge b
  | [], b => rfl
  | x :: a, b => by simp only [List.cons_append, renderLKids, renderLKids_append esc ge a b,
      List.append_assoc]

theorem flat_layEnd (esc ge : Bool) (p : Pretty) :
    Piece.flat (layEnd true p) = renderLKids esc ge (nlL p) := by
  unfold layEnd nlL
  by_cases h : p.cnt > p.start <;> simp [h, Piece.flat, renderLKids, renderL]

theorem renderLKids_textKidL (esc ge : Bool) (s : Str) :
    renderLKids esc ge (textKidL s) = escB esc s := by
  unfold textKidL
  split
  · rename_i h
    have : s = [] := by cases s <;> simp_all
    subst this
    cases esc <;> simp [renderLKids, escB, escapeChars_nil]
  · simp [renderLKids, renderL, escB]

theorem linkL_kids (c : SeqCfg) (esc ge : Bool) (f : Nat)
    (P : ∀ p key v, seqPlain c v = true → noteOk c key v = true →
      (seqEncP c esc ge true f p key v).mapOk Piece.flat
        = (seqEncTreeL c f p key v).mapOk (renderLKids esc ge)) :
    ∀ (l : List (Str × Val)) (p : Pretty),
      (∀ e ∈ l, seqPlain c e.2 = true ∧ noteOk c e.1 e.2 = true) →
      (kidsOf (seqEncP c esc ge true f) true p l).mapOk Piece.flat
        = (seqKidsTreeL c f p l).mapOk (renderLKids esc ge)
  | [], p, _ => by simp [kidsOf, seqKidsTreeL, Outcome.mapOk, Piece.flat, renderLKids]
  | (k, v) :: rest, p, h => by
      have hv := h (k, v) (List.mem_cons_self ..)
      have h1 := P (if v.isList then p else p.indentStep) k v hv.1 hv.2
      have h2 := linkL_kids c esc ge f P rest p (fun y hy => h y (List.mem_cons_of_mem _ hy))
      have hp : (if (true && !v.isList) = true then p.indentStep else p)
          = (if v.isList = true then p else p.indentStep) := by
        cases v.isList <;> simp
      simp only [kidsOf, seqKidsTreeL, hp]
      cases e1 : seqEncP c esc ge true f (if v.isList = true then p else p.indentStep) k v <;>
        cases e2 : seqEncTreeL c f (if v.isList = true then p else p.indentStep) k v <;>
        rw [e1, e2] at h1 <;> simp only [Outcome.mapOk] at h1 ⊢ <;> try (first | exact h1 | cases h1)
      rename_i a b
      cases r1 : kidsOf (seqEncP c esc ge true f) true p rest <;>
        cases r2 : seqKidsTreeL c f p rest <;>
        rw [r1, r2] at h2 <;> simp only [Outcome.mapOk] at h2 ⊢ <;> try (first | exact h2 | cases h2)
      injection h1 with h1; injection h2 with h2
      rw [flat_append, renderLKids_append, h1, h2]

theorem linkL_members (c : SeqCfg) (esc ge : Bool) (f : Nat)
    (P : ∀ p key v, seqPlain c v = true → noteOk c key v = true →
      (seqEncP c esc ge true f p key v).mapOk Piece.flat
        = (seqEncTreeL c f p key v).mapOk (renderLKids esc ge)) :
    ∀ (key : Str) (xs : List Val) (p : Pretty),
      (∀ x ∈ xs, seqPlain c x = true ∧ noteOk c key x = true) →
      (membersOf (seqEncP c esc ge true f) true p key xs).mapOk Piece.flat
        = (seqMembersTreeL c f p key xs).mapOk (renderLKids esc ge)
  | key, [], p, _ => by simp [membersOf, seqMembersTreeL, Outcome.mapOk, Piece.flat, renderLKids]
  | key, x :: xs, p, h => by
      have hv := h x (List.mem_cons_self ..)
      have h1 := P p.indentStep key x hv.1 hv.2
      have h2 := linkL_members c esc ge f P key xs p (fun y hy => h y (List.mem_cons_of_mem _ hy))
      simp only [membersOf, seqMembersTreeL, if_true]
      cases e1 : seqEncP c esc ge true f p.indentStep key x <;>
        cases e2 : seqEncTreeL c f p.indentStep key x <;>
        rw [e1, e2] at h1 <;> simp only [Outcome.mapOk] at h1 ⊢ <;> try (first | exact h1 | cases h1)
      rename_i a b
      cases r1 : membersOf (seqEncP c esc ge true f) true p key xs <;>
        cases r2 : seqMembersTreeL c f p key xs <;>
        rw [r1, r2] at h2 <;> simp only [Outcome.mapOk] at h2 ⊢ <;> try (first | exact h2 | cases h2)
      injection h1 with h1; injection h2 with h2
      rw [flat_append, renderLKids_append, h1, h2]

theorem renderLKids_wrap (esc ge : Bool) (p : Pretty) (x : LNode) :
    renderLKids esc ge ([.lay p.padding, x] ++ nlL p)
      = p.padding ++ renderL esc ge x ++ renderLKids esc ge (nlL p) := by
  simp [renderLKids, renderL, List.append_assoc]

theorem flat_wrap (esc ge : Bool) (p : Pretty) (s : Str) :
    Piece.flat (layPad true p ++ [.raw s] ++ layEnd true p)
      = p.padding ++ s ++ renderLKids esc ge (nlL p) := by
  simp [layPad, flat_append, Piece.flat, flat_layEnd esc ge, List.append_assoc]

theorem linkL_body (esc ge : Bool) (p : Pretty) (key : Str) (as : List Attr) (hv sq : Bool) (n : Nat)
    (ot : Option Val) (ko1 : Outcome (List Piece)) (ko2 : Outcome (List LNode))
    (hk : ko1.mapOk Piece.flat = ko2.mapOk (renderLKids esc ge))
    (hot : ∀ tv, ot = some tv → (∃ s, tv = .str s) ∨ fmtV tv = none) :
    (bodyP esc ge true p key (renderSeqAttrs esc as) hv sq n ot ko1).mapOk Piece.flat
      = (bodyL p key as hv sq n ot ko2).mapOk (renderLKids esc ge) := by
  have complex : ∀ (s : Str) (K1 : List Piece) (K2 : List LNode),
      Piece.flat K1 = renderLKids esc ge K2 →
      Piece.flat (layPad true p ++ [.raw ("<".toList ++ key ++ renderSeqAttrs esc as ++ ">".toList
          ++ escB esc s)] ++ layNl true ++ K1 ++ layPad true p ++ [.raw (closeTag key)]
          ++ layEnd true p)
        = renderLKids esc ge ([.lay p.padding,
            .elem key as (textKidL s ++ [.lay ['\n']] ++ K2 ++ [.lay p.padding])] ++ nlL p) := by
    intro s K1 K2 hK
    have hne : (textKidL s ++ [LNode.lay ['\n']] ++ K2 ++ [LNode.lay p.padding]).isEmpty = false := by
      cases h : textKidL s <;> simp
    rw [renderLKids_wrap]
    simp only [renderL, hne, Bool.false_eq_true, if_false, renderLKids_append, renderLKids_textKidL]
    simp [layPad, layNl, flat_append, Piece.flat, flat_layEnd esc ge, hK, renderLKids, renderL,
      List.append_assoc]
  unfold bodyP bodyL
  cases ot with
  | none =>
    simp only
    split
    · simp only [Outcome.mapOk, Outcome.ok.injEq]
      rw [flat_wrap esc ge, renderLKids_wrap]
      cases ge <;> simp [renderL, List.append_assoc]
    · cases ko1 <;> cases ko2 <;> simp only [Outcome.mapOk] at hk ⊢ <;>
        try (first | exact hk | cases hk)
      rename_i K1 K2
      injection hk with hk
      have := complex [] K1 K2 hk
      simp only [Outcome.ok.injEq]
      cases esc <;> simpa [escB, escapeChars_nil, textKidL] using this
  | some tv =>
    rcases hot tv rfl with ⟨s, rfl⟩ | hnone
    · simp only [txtOf, fmtV]
      split
      · have he := escB_isEmpty esc s
        simp only [escB] at he
        by_cases hs : s.isEmpty = true
        · have hs' : s = [] := by cases s <;> simp_all
          subst hs'
          simp only [he, List.isEmpty_nil, if_true, Outcome.mapOk, Outcome.ok.injEq]
          rw [flat_wrap esc ge, renderLKids_wrap]
          cases ge <;> simp [renderL, textKidL, List.append_assoc]
        · have hs' : s.isEmpty = false := by simpa using hs
          simp only [he, hs', Bool.false_eq_true, if_false, Outcome.mapOk, Outcome.ok.injEq]
          rw [flat_wrap esc ge, renderLKids_wrap]
          have hk' : (textKidL s).isEmpty = false := by simp [textKidL, hs']
          have ht := renderLKids_textKidL esc ge s
          simp only [escB] at ht
          simp [renderL, hk', ht, List.append_assoc]
      · cases ko1 <;> cases ko2 <;> simp only [Outcome.mapOk] at hk ⊢ <;>
          try (first | exact hk | cases hk)
        rename_i K1 K2
        injection hk with hk
        have := complex s K1 K2 hk
        simp only [Outcome.ok.injEq]
        simpa [escB] using this
    · have htx : txtOf esc tv = none := by
        cases tv <;> simp_all [txtOf, fmtV]
      simp only [htx, hnone]
      split
      · rfl
      · cases ko1 <;> cases ko2 <;> simp only [Outcome.mapOk] at hk ⊢ <;> rfl

theorem ltKey_of_noteOk (c : SeqCfg) (key : Str) (h : noteKeyB c key = false) :
    ltKey c key = "<".toList ++ key := by simp [ltKey, h]

/-- (F) the indented bytes are the rendering of the layout tree (any `goEmpty`), for values
    whose leaves are strings and with no string under a comment / directive / PI key -/
theorem encP_linkL (c : SeqCfg) (esc ge : Bool) (hts : c.textK ≠ c.seqK) : ∀ (f : Nat) (p : Pretty)
    (key : Str) (v : Val), seqPlain c v = true → noteOk c key v = true →
    (seqEncP c esc ge true f p key v).mapOk Piece.flat
      = (seqEncTreeL c f p key v).mapOk (renderLKids esc ge) := by
  intro f
  induction f with
  | zero => intro p key v _ _; simp [seqEncP, seqEncTreeL, Outcome.mapOk]
  | succ f ih =>
    intro p key v hv hn
    cases v with
    | null => simp [seqPlain] at hv
    | bool _ => simp [seqPlain] at hv
    | num _ => simp [seqPlain] at hv
    | str s =>
      have hnk : noteKeyB c key = false := by simpa [noteOk] using hn
      simp only [seqEncP, seqEncTreeL, Outcome.mapOk, Outcome.ok.injEq, ltKey_of_noteOk c key hnk]
      rw [flat_wrap esc ge, renderLKids_wrap]
      have he := escB_isEmpty esc s
      simp only [escB] at he
      have ht := renderLKids_textKidL esc ge s
      simp only [escB] at ht
      by_cases hs : s.isEmpty = true
      · have hs' : s = [] := by cases s <;> simp_all
        subst hs'
        cases ge <;> cases esc <;>
          simp [renderL, textKidL, endOf, escapeChars_nil, renderSeqAttrs, List.append_assoc]
      · have hs' : s.isEmpty = false := by simpa using hs
        have hk' : (textKidL s).isEmpty = false := by simp [textKidL, hs']
        have hl : (if esc = true then escapeChars s else s).length ≠ 0 := by
          intro h0
          have := List.eq_nil_of_length_eq_zero h0
          rw [this] at he; simp [hs'] at he
        simp [renderL, hk', ht, he, hs', endOf, hl, renderSeqAttrs, List.append_assoc]
    | list xs =>
      rw [seqEncP_list]
      simp only [seqEncTreeL]
      have h1 := seqPlainList_mem c xs (by simpa [seqPlain] using hv)
      have h2 := (noteOkList_iff c key xs).1 (by simpa [noteOk] using hn)
      exact linkL_members c esc ge f ih key xs p (fun x hx => ⟨h1 x hx, h2 x hx⟩)
    | map val =>
      have hp : seqPlainEntries c val = true := by simpa [seqPlain] using hv
      by_cases h1 : key = c.commentK
      · subst h1
        simp only [seqEncP, seqEncTreeL, if_true]
        cases strOf (lookup c.textK val) <;> simp only [Outcome.mapOk, Outcome.ok.injEq]
        rw [flat_wrap esc ge, renderLKids_wrap]; simp [renderL]
      by_cases h2 : key = c.directiveK
      · subst h2
        simp only [seqEncP, seqEncTreeL, h1, if_true, if_false]
        cases strOf (lookup c.textK val) <;> simp only [Outcome.mapOk, Outcome.ok.injEq]
        rw [flat_wrap esc ge, renderLKids_wrap]; simp [renderL]
      by_cases h3 : key = c.procinstK
      · subst h3
        simp only [seqEncP, seqEncTreeL, h1, h2, if_true, if_false]
        cases strOf (lookup c.targetK val) <;> cases strOf (lookup c.instK val) <;>
          simp only [Outcome.mapOk, Outcome.ok.injEq]
        rw [flat_wrap esc ge, renderLKids_wrap]; simp [renderL]
      have hne : noteOkEntries c val = true := by
        simpa [noteOk, isNoteKey_false c key h1 h2 h3] using hn
      rw [seqEncP_map_eq c esc ge true f p key val h1 h2 h3, seqEncTreeL_map_eq c f p key val h1 h2 h3,
        attrsOut_link c esc hts val hp]
      cases attrsOutT c val with
      | ok a =>
        obtain ⟨as, hvb⟩ := a
        simp only [Outcome.mapOk]
        apply linkL_body
        · exact linkL_kids c esc ge f ih _ _ (fun e he =>
            ⟨plain_unroll c val hp e ((sortBySeq_perm c _).mem_iff.1 he),
             noteOk_unroll c val hne e ((sortBySeq_perm c _).mem_iff.1 he)⟩)
        · intro tv htv
          have hpl := plain_of_lookup c c.textK hts val tv hp htv
          cases tv with
          | str s => exact .inl ⟨s, rfl⟩
          | list _ => exact .inr rfl
          | map _ => exact .inr rfl
          | null => simp [seqPlain] at hpl
          | bool _ => simp [seqPlain] at hpl
          | num _ => simp [seqPlain] at hpl
      | eof => rfl
      | «syntax» => rfl
      | err _ => rfl
      | panic _ => rfl


/-! ### (G) the sequence decoder on blank character data -/

theorem dropWhile_nil_all {α : Type} (p : α → Bool) : ∀ (l : List α), l.dropWhile p = [] →
    ∀ x ∈ l, p x = true
  | [], _, x, h => by simp at h
  | a :: l, h, x, hx => by
      by_cases ha : p a = true
      · rw [List.dropWhile_cons_of_pos ha] at h
        rcases List.mem_cons.1 hx with rfl | hx
        · exact ha
        · exact dropWhile_nil_all p l h x hx
      · rw [List.dropWhile_cons_of_neg ha] at h; cases h

theorem dropWhile_all_nil {α : Type} (p : α → Bool) : ∀ (l : List α), (∀ x ∈ l, p x = true) →
    l.dropWhile p = []
  | [], _ => rfl
  | a :: l, h => by
      rw [List.dropWhile_cons_of_pos (h a (List.mem_cons_self ..))]
      exact dropWhile_all_nil p l (fun x hx => h x (List.mem_cons_of_mem _ hx))

/-- `strings.Trim` gives the empty string exactly on strings made of cut-set characters -/
theorem trim_nil_iff (cut : List Char) (s : Str) :
    trimChars cut s = [] ↔ ∀ ch ∈ s, cut.contains ch = true := by
  unfold trimChars
  constructor
  · intro h
    have h1 : ((s.dropWhile (cut.contains ·)).reverse.dropWhile (cut.contains ·)) = [] := by
      simpa using h
    have h2 := dropWhile_nil_all _ _ h1
    have h3 : s.dropWhile (cut.contains ·) = [] := by
      cases hd : s.dropWhile (cut.contains ·) with
      | nil => rfl
      | cons x r =>
        exfalso
        have hx : cut.contains x = true := h2 x (by rw [hd]; simp)
        have : ∀ (l : Str), l.dropWhile (cut.contains ·) = x :: r → cut.contains x = false := by
          intro l
          induction l with
          | nil => intro h; cases h
          | cons a l ih =>
            intro h
            by_cases ha : cut.contains a = true
            · rw [List.dropWhile_cons_of_pos ha] at h; exact ih h
            · rw [List.dropWhile_cons_of_neg ha] at h
              injection h with h _; subst h; simpa using ha
        rw [this s hd] at hx; cases hx
    exact dropWhile_nil_all _ _ h3
  · intro h
    rw [dropWhile_all_nil _ _ h]; rfl

/-- blank character data behind a run does not change what the run trims to -/
theorem trim_append_blank (cut : List Char) (raw b : Str) (hb : ∀ ch ∈ b, cut.contains ch = true) :
    trimChars cut (raw ++ b) = trimChars cut raw := by
  unfold trimChars
  rw [List.dropWhile_append]
  split
  · rename_i h
    have h' : raw.dropWhile (cut.contains ·) = [] := by
      cases hd : raw.dropWhile (cut.contains ·) <;> simp_all
    rw [h', dropWhile_all_nil _ _ hb]
  · rw [List.reverse_append, List.dropWhile_append_of_pos (by
      intro a ha; exact hb a (List.mem_reverse.1 ha))]

theorem trim_idem (cut : List Char) (s : Str) : trimChars cut (trimChars cut s) = trimChars cut s := by
  -- `trimChars cut s = s'` with `s = a ++ s' ++ b`, blank `a`, `b`: direct computation
  unfold trimChars
  generalize hp : (fun ch => cut.contains ch) = p
  have key : ∀ (l : Str), (l.dropWhile p = [] ∨ ∃ x r, l.dropWhile p = x :: r ∧ p x = false) := by
    intro l
    induction l with
    | nil => exact .inl rfl
    | cons a l ih =>
      by_cases h : p a = true
      · rw [List.dropWhile_cons_of_pos h]; exact ih
      · rw [List.dropWhile_cons_of_neg h]; exact .inr ⟨a, l, rfl, by simpa using h⟩
  have hb : ((((s.dropWhile p).reverse.dropWhile p).reverse).dropWhile p)
      = ((s.dropWhile p).reverse.dropWhile p).reverse := by
    rcases key s with h | ⟨x, r, h, hx⟩
    · rw [h]; rfl
    · rw [h, List.reverse_cons, List.dropWhile_append]
      rcases key r.reverse with h2 | ⟨y, r2, h2, hy⟩
      · rw [h2]
        simp only [List.isEmpty_nil, if_true]
        rw [List.dropWhile_cons_of_neg (by simp [hx])]
        simp only [List.reverse_cons, List.reverse_nil, List.nil_append]
        rw [List.dropWhile_cons_of_neg (by simp [hx])]
      · rw [h2]
        simp only [List.isEmpty_cons, Bool.false_eq_true, if_false, List.reverse_append,
          List.reverse_cons, List.reverse_nil, List.nil_append, List.singleton_append]
        rw [List.dropWhile_cons_of_neg (by simp [hx])]
  rw [hb, List.reverse_reverse]
  have hi : ∀ (l : Str), (l.dropWhile p).dropWhile p = l.dropWhile p := by
    intro l
    rcases key l with h | ⟨x, r, h, hx⟩
    · rw [h]; rfl
    · rw [h, List.dropWhile_cons_of_neg (by simp [hx])]
  rw [hi]

/-- the text of a run of character data -/
def runText (c : SeqCfg) (raw : Str) : Str := escDecIf c.dec (trimChars (trimSet c.dec) raw)

theorem escDecIf_isEmpty (c : SeqCfg) (s : Str) : (escDecIf c.dec s).isEmpty = s.isEmpty := by
  unfold escDecIf; split
  · exact escapeChars_isEmpty' s
  · rfl

theorem runText_blank (c : SeqCfg) (b : Str) (hb : isBlankText c b = true) : runText c b = [] := by
  have : trimChars (trimSet c.dec) b = [] := by
    simpa [isBlankText, seqTrim] using hb
  simp [runText, this, escDecIf, escapeChars_nil]

theorem blank_mem (c : SeqCfg) (b : Str) (hb : isBlankText c b = true) :
    ∀ ch ∈ b, (trimSet c.dec).contains ch = true := by
  have : trimChars (trimSet c.dec) b = [] := by
    simpa [isBlankText, seqTrim] using hb
  exact (trim_nil_iff _ _).1 this

theorem runText_append_blank (c : SeqCfg) (raw b : Str) (hb : isBlankText c b = true) :
    runText c (raw ++ b) = runText c raw := by
  simp only [runText, trim_append_blank _ raw b (blank_mem c b hb)]

theorem insert_of_lookup (k : Str) (v : Val) : ∀ (l : Entries), lookup k l = some v →
    insert k v l = l
  | [], h => by simp [lookup] at h
  | (k', v') :: rest, h => by
      by_cases e : k = k'
      · subst e
        simp only [lookup, if_true, Option.some.injEq] at h
        subst h
        simp [insert]
      · simp only [lookup, e, if_false] at h
        simp only [insert, e, if_false, insert_of_lookup k v rest h]

/-- pending character data that further blank character data cannot turn into a change -/
def Quiet (c : SeqCfg) (S : Strconv) (na : Entries) : Option (Str × Bool) → Prop
  | none => True
  | some (raw, false) => runText c raw = []
  | some (raw, true) => insert c.textK (cast S c.cast (runText c raw) []) na = na

theorem onText_quiet (c : SeqCfg) (S : Strconv) (na : Entries) (seq : Nat)
    (pend : Option (Str × Bool)) (b : Str) (hq : Quiet c S na pend) (hb : isBlankText c b = true) :
    ∃ pend', SeqFold.onText c S na seq pend b = (na, seq, pend') ∧ Quiet c S na pend' := by
  cases pend with
  | none =>
    refine ⟨some (b, false), ?_, ?_⟩
    · have h := runText_blank c b hb
      simp only [runText] at h
      simp [SeqFold.onText, h]
    · exact runText_blank c b hb
  | some pr =>
    obtain ⟨raw, numbered⟩ := pr
    have h := runText_append_blank c raw b hb
    simp only [runText] at h
    cases numbered with
    | false =>
      simp only [Quiet] at hq
      simp only [runText] at hq
      refine ⟨some (raw ++ b, false), ?_, ?_⟩
      · simp [SeqFold.onText, h, hq]
      · simp only [Quiet, runText, h, hq]
    | true =>
      simp only [Quiet, runText] at hq
      refine ⟨some (raw ++ b, true), ?_, ?_⟩
      · simp only [SeqFold.onText, h]
        split
        · rfl
        · simp [hq]
      · simp only [Quiet, runText, h, hq]

/-! ### (N) the decoder does not see `normalize` -/

mutual
/-- text only as the first child, at every level -/
def tfAll (c : SeqCfg) : Node → Bool
  | .elem _ _ _ ks => textFirst c ks && tfAllKids c ks
  | _ => true
def tfAllKids (c : SeqCfg) : List Node → Bool
  | [] => true
  | k :: r => tfAll c k && tfAllKids c r
end

theorem onText_first_gen (c : SeqCfg) (S : Strconv) (na : Entries) (seq : Nat) (s : Str)
    (hb : isBlankText c s = false) :
    SeqFold.onText c S na seq none s
      = (insert c.seqK (seqNum seq) (insert c.textK (cast S c.cast (runText c s) []) na), seq + 1,
          some (s, true)) := by
  have h1 : (trimChars (trimSet c.dec) s).isEmpty = false := hb
  have h2 : (escDecIf c.dec (trimChars (trimSet c.dec) s)).isEmpty = false := by
    rw [escDecIf_isEmpty]; exact h1
  simp only [SeqFold.onText, List.nil_append, h2, Bool.false_eq_true, if_false, runText]

theorem quiet_after_text (c : SeqCfg) (S : Strconv) (hts : c.textK ≠ c.seqK) (na : Entries) (n : Val)
    (raw : Str) (x : Val) (hx : x = cast S c.cast (runText c raw) []) :
    Quiet c S (insert c.seqK n (insert c.textK x na)) (some (raw, true)) := by
  simp only [Quiet, ← hx]
  apply insert_of_lookup
  rw [lookup_insert, if_neg hts, lookup_insert, if_pos rfl]

mutual
theorem value_normalize (c : SeqCfg) (S : Strconv) (hts : c.textK ≠ c.seqK) : ∀ (t : Node),
    tfAll c t = true → SeqFold.value c S (normalizeC c t) = SeqFold.value c S t
  | .elem sp n as [], _ => rfl
  | .elem sp n as (.text s :: r), h => by
      simp only [tfAll, tfAllKids, textFirst, Bool.and_eq_true] at h
      simp only [normalizeC, SeqFold.value]
      congr 1
      by_cases hb : isBlankText c s = true
      · have hb' : (seqTrim c s).isEmpty = true := hb
        simp only [normalizeKidsC, hb', if_true, SeqFold.kids']
        obtain ⟨pend', h1, h2⟩ := onText_quiet c S (seqInitNa c S as) 0 none s trivial hb
        rw [h1]
        exact kids_normalize c S hts r h.1 h.2.2 _ 0 pend' none h2 trivial
      · have hb0 : isBlankText c s = false := by simpa using hb
        have hb' : (seqTrim c s).isEmpty = false := hb0
        have hb2 : isBlankText c (seqTrim c s) = false := by
          simp only [isBlankText, seqTrim, trim_idem]; exact hb0
        simp only [normalizeKidsC, hb', Bool.false_eq_true, if_false, SeqFold.kids']
        rw [onText_first_gen c S _ 0 s hb0, onText_first_gen c S _ 0 _ hb2]
        have hrt : runText c (seqTrim c s) = runText c s := by
          simp only [runText, seqTrim, trim_idem]
        rw [hrt]
        exact kids_normalize c S hts r h.1 h.2.2 _ 1 _ _
          (quiet_after_text c S hts _ _ s _ rfl) (quiet_after_text c S hts _ _ _ _ (by rw [hrt]))
  | .elem sp n as (.elem sp' n' as' ks' :: r), h => by
      simp only [tfAll, textFirst, Bool.and_eq_true] at h
      simp only [normalizeC, SeqFold.value]
      congr 1
      exact kids_normalize c S hts _ h.1 h.2 _ 0 none none trivial trivial
  | .elem sp n as (.comment s :: r), h => by
      simp only [tfAll, textFirst, Bool.and_eq_true] at h
      simp only [normalizeC, SeqFold.value]
      congr 1
      exact kids_normalize c S hts _ h.1 h.2 _ 0 none none trivial trivial
  | .elem sp n as (.directive s :: r), h => by
      simp only [tfAll, textFirst, Bool.and_eq_true] at h
      simp only [normalizeC, SeqFold.value]
      congr 1
      exact kids_normalize c S hts _ h.1 h.2 _ 0 none none trivial trivial
  | .elem sp n as (.procinst s i :: r), h => by
      simp only [tfAll, textFirst, Bool.and_eq_true] at h
      simp only [normalizeC, SeqFold.value]
      congr 1
      exact kids_normalize c S hts _ h.1 h.2 _ 0 none none trivial trivial
  | .text _, _ => rfl
  | .comment _, _ => rfl
  | .directive _, _ => rfl
  | .procinst _ _, _ => rfl
theorem kids_normalize (c : SeqCfg) (S : Strconv) (hts : c.textK ≠ c.seqK) : ∀ (ks : List Node),
    noText c ks = true → tfAllKids c ks = true →
    ∀ (na : Entries) (seq : Nat) (pend pend' : Option (Str × Bool)),
      Quiet c S na pend → Quiet c S na pend' →
      (SeqFold.kids' c S (na, seq, pend') (normalizeKidsC c ks)).1
        = (SeqFold.kids' c S (na, seq, pend) ks).1
  | [], _, _, na, seq, pend, pend', _, _ => by simp [normalizeKidsC, SeqFold.kids']
  | .text b :: r, ht, hd, na, seq, pend, pend', hq, hq' => by
      simp only [noText, Bool.and_eq_true] at ht
      simp only [tfAllKids, tfAll, Bool.true_and] at hd
      have hb' : (seqTrim c b).isEmpty = true := ht.1
      obtain ⟨p2, h1, h2⟩ := onText_quiet c S na seq pend b hq ht.1
      simp only [normalizeKidsC, hb', if_true, SeqFold.kids', h1]
      exact kids_normalize c S hts r ht.2 hd na seq p2 pend' h2 hq'
  | .elem sp n as ks :: r, ht, hd, na, seq, pend, pend', _, _ => by
      simp only [noText] at ht
      simp only [tfAllKids, Bool.and_eq_true] at hd
      have hv := value_normalize c S hts (.elem sp n as ks) hd.1
      simp only [normalizeC] at hv
      simp only [normalizeKidsC, normalizeC, SeqFold.kids', hv]
      exact kids_normalize c S hts r ht hd.2 _ _ none none trivial trivial
  | .comment s :: r, ht, hd, na, seq, pend, pend', _, _ => by
      simp only [noText] at ht
      simp only [tfAllKids, tfAll, Bool.true_and] at hd
      simp only [normalizeKidsC, normalizeC, SeqFold.kids']
      exact kids_normalize c S hts r ht hd _ _ none none trivial trivial
  | .directive s :: r, ht, hd, na, seq, pend, pend', _, _ => by
      simp only [noText] at ht
      simp only [tfAllKids, tfAll, Bool.true_and] at hd
      simp only [normalizeKidsC, normalizeC, SeqFold.kids']
      exact kids_normalize c S hts r ht hd _ _ none none trivial trivial
  | .procinst s i :: r, ht, hd, na, seq, pend, pend', _, _ => by
      simp only [noText] at ht
      simp only [tfAllKids, tfAll, Bool.true_and] at hd
      simp only [normalizeKidsC, normalizeC, SeqFold.kids']
      exact kids_normalize c S hts r ht hd _ _ none none trivial trivial
end


/-! ### (H) `normalize`, `unqualify`, and the shape of trees -/

theorem noText_unqualifyKids (c : SeqCfg) : ∀ (ks : List Node),
    noText c (unqualifyKids ks) = noText c ks
  | [] => rfl
  | k :: r => by
      cases k <;> simp [unqualifyKids, unqualify, noText, noText_unqualifyKids c r]

theorem textFirst_unqualifyKids (c : SeqCfg) (ks : List Node) :
    textFirst c (unqualifyKids ks) = textFirst c ks := by
  cases ks with
  | nil => rfl
  | cons k r =>
    cases k <;> simp [unqualifyKids, unqualify, textFirst, noText, noText_unqualifyKids c r]

mutual
theorem tfAll_unqualify (c : SeqCfg) : ∀ (t : Node), tfAll c (unqualify t) = tfAll c t
  | .elem sp n as ks => by
      simp only [unqualify, tfAll, textFirst_unqualifyKids, tfAllKids_unqualify c ks]
  | .text _ => rfl
  | .comment _ => rfl
  | .directive _ => rfl
  | .procinst _ _ => rfl
theorem tfAllKids_unqualify (c : SeqCfg) : ∀ (ks : List Node),
    tfAllKids c (unqualifyKids ks) = tfAllKids c ks
  | [] => rfl
  | k :: r => by
      simp only [unqualifyKids, tfAllKids, tfAll_unqualify c k, tfAllKids_unqualify c r]
end

mutual
theorem normalize_unqualify (c : SeqCfg) : ∀ (t : Node),
    normalizeC c (unqualify t) = unqualify (normalizeC c t)
  | .elem sp n as ks => by
      simp only [unqualify, normalizeC, normalizeKids_unqualify c ks]
  | .text _ => rfl
  | .comment _ => rfl
  | .directive _ => rfl
  | .procinst _ _ => rfl
theorem normalizeKids_unqualify (c : SeqCfg) : ∀ (ks : List Node),
    normalizeKidsC c (unqualifyKids ks) = unqualifyKids (normalizeKidsC c ks)
  | [] => rfl
  | .text s :: r => by
      simp only [unqualifyKids, unqualify, normalizeKidsC, normalizeKids_unqualify c r]
      split <;> simp [unqualifyKids, unqualify]
  | .elem sp n as ks :: r => by
      have h := normalize_unqualify c (.elem sp n as ks)
      simp only [unqualify] at h
      simp only [unqualifyKids, unqualify, normalizeKidsC, normalizeKids_unqualify c r, h]
  | .comment _ :: r => by
      simp only [unqualifyKids, unqualify, normalizeKidsC, normalizeC, normalizeKids_unqualify c r]
  | .directive _ :: r => by
      simp only [unqualifyKids, unqualify, normalizeKidsC, normalizeC, normalizeKids_unqualify c r]
  | .procinst _ _ :: r => by
      simp only [unqualifyKids, unqualify, normalizeKidsC, normalizeC, normalizeKids_unqualify c r]
end

mutual
theorem normalize_idem (c : SeqCfg) : ∀ (t : Node), normalizeC c (normalizeC c t) = normalizeC c t
  | .elem sp n as ks => by simp only [normalizeC, normalizeKids_idem c ks]
  | .text s => by simp only [normalizeC, seqTrim, trim_idem]
  | .comment _ => rfl
  | .directive _ => rfl
  | .procinst _ _ => rfl
theorem normalizeKids_idem (c : SeqCfg) : ∀ (ks : List Node),
    normalizeKidsC c (normalizeKidsC c ks) = normalizeKidsC c ks
  | [] => rfl
  | .text s :: r => by
      simp only [normalizeKidsC]
      split
      · exact normalizeKids_idem c r
      · rename_i h
        have h2 : (seqTrim c (seqTrim c s)).isEmpty = false := by
          simp only [seqTrim, trim_idem]; simpa [seqTrim] using h
        simp only [normalizeKidsC, h2, Bool.false_eq_true, if_false, normalizeKids_idem c r]
        simp only [seqTrim, trim_idem]
  | .elem sp n as ks :: r => by
      have h := normalize_idem c (.elem sp n as ks)
      simp only [normalizeC] at h
      simp only [normalizeKidsC, normalizeC, normalizeKids_idem c r, h]
  | .comment _ :: r => by simp only [normalizeKidsC, normalizeC, normalizeKids_idem c r]
  | .directive _ :: r => by simp only [normalizeKidsC, normalizeC, normalizeKids_idem c r]
  | .procinst _ _ :: r => by simp only [normalizeKidsC, normalizeC, normalizeKids_idem c r]
end

mutual
theorem tfAll_of_domain (c : SeqCfg) : ∀ (t : Node), seqDomain c t = true → tfAll c t = true
  | .elem sp n as ks, h => by
      have dp := seqDomain_parts h
      simp only [tfAll, dp.tf, tfAllKids_of_domain c ks dp.kids, Bool.and_self]
  | .text _, _ => rfl
  | .comment _, _ => rfl
  | .directive _, _ => rfl
  | .procinst _ _, _ => rfl
theorem tfAllKids_of_domain (c : SeqCfg) : ∀ (ks : List Node), seqDomainKids c ks = true →
    tfAllKids c ks = true
  | [], _ => rfl
  | .elem sp n as ks :: r, h => by
      simp only [seqDomainKids, Bool.and_eq_true] at h
      simp only [tfAllKids, tfAll_of_domain c _ h.1, tfAllKids_of_domain c r h.2, Bool.and_self]
  | .text _ :: r, h => by
      simp only [seqDomainKids] at h
      simp only [tfAllKids, tfAll, tfAllKids_of_domain c r h, Bool.and_self]
  | .comment _ :: r, h => by
      simp only [seqDomainKids] at h
      simp only [tfAllKids, tfAll, tfAllKids_of_domain c r h, Bool.and_self]
  | .directive _ :: r, h => by
      simp only [seqDomainKids] at h
      simp only [tfAllKids, tfAll, tfAllKids_of_domain c r h, Bool.and_self]
  | .procinst _ _ :: r, h => by
      simp only [seqDomainKids] at h
      simp only [tfAllKids, tfAll, tfAllKids_of_domain c r h, Bool.and_self]
end

/-! layout trees -/

/-- made of characters the decoder trims -/
def blankS (c : SeqCfg) (s : Str) : Bool := s.all (fun ch => (trimSet c.dec).contains ch)

theorem isBlank_of_blankS (c : SeqCfg) (s : Str) (h : blankS c s = true) : isBlankText c s = true := by
  have : trimChars (trimSet c.dec) s = [] :=
    (trim_nil_iff _ _).2 (by simpa [blankS, List.all_eq_true] using h)
  simp [isBlankText, seqTrim, this]

theorem noText_append (c : SeqCfg) : ∀ (a b : List Node), noText c (a ++ b) = (noText c a && noText c b)
  | [], b => by simp [noText]
  | k :: a, b => by cases k <;> simp [noText, noText_append c a b, Bool.and_assoc]

theorem textFirst_of_noText (c : SeqCfg) (l : List Node) (h : noText c l = true) :
    textFirst c l = true := by
  cases l with
  | nil => rfl
  | cons k r =>
    cases k <;> simp_all [textFirst, noText]

theorem noText_toNodes (c : SeqCfg) : ∀ (ks : List LNode), noTextTop ks = true →
    LNode.allLays (blankS c) ks = true → noText c (LNode.toNodes ks) = true
  | [], _, _ => rfl
  | .text _ :: r, h, _ => by simp [noTextTop] at h
  | .lay s :: r, h, hl => by
      simp only [LNode.allLays, Bool.and_eq_true] at hl
      simp only [noTextTop] at h
      simp only [LNode.toNodes, LNode.toNode, noText, isBlank_of_blankS c s hl.1,
        noText_toNodes c r h hl.2, Bool.and_self]
  | .elem n as ks :: r, h, hl => by
      simp only [LNode.allLays, Bool.and_eq_true] at hl
      simp only [noTextTop] at h
      simp only [LNode.toNodes, LNode.toNode, noText, noText_toNodes c r h hl.2]
  | .comment _ :: r, h, hl => by
      simp only [LNode.allLays] at hl
      simp only [noTextTop] at h
      simp only [LNode.toNodes, LNode.toNode, noText, noText_toNodes c r h hl]
  | .directive _ :: r, h, hl => by
      simp only [LNode.allLays] at hl
      simp only [noTextTop] at h
      simp only [LNode.toNodes, LNode.toNode, noText, noText_toNodes c r h hl]
  | .procinst _ _ :: r, h, hl => by
      simp only [LNode.allLays] at hl
      simp only [noTextTop] at h
      simp only [LNode.toNodes, LNode.toNode, noText, noText_toNodes c r h hl]

theorem noText_stripKids (c : SeqCfg) : ∀ (ks : List LNode), noTextTop ks = true →
    noText c (LNode.stripKids ks) = true
  | [], _ => rfl
  | .text _ :: r, h => by simp [noTextTop] at h
  | .lay s :: r, h => by
      simp only [noTextTop] at h
      simp only [LNode.stripKids, LNode.strip, List.nil_append, noText_stripKids c r h]
  | .elem n as ks :: r, h => by
      simp only [noTextTop] at h
      simp only [LNode.stripKids, LNode.strip, List.singleton_append, noText, noText_stripKids c r h]
  | .comment _ :: r, h => by
      simp only [noTextTop] at h
      simp only [LNode.stripKids, LNode.strip, List.singleton_append, noText, noText_stripKids c r h]
  | .directive _ :: r, h => by
      simp only [noTextTop] at h
      simp only [LNode.stripKids, LNode.strip, List.singleton_append, noText, noText_stripKids c r h]
  | .procinst _ _ :: r, h => by
      simp only [noTextTop] at h
      simp only [LNode.stripKids, LNode.strip, List.singleton_append, noText, noText_stripKids c r h]

theorem textFirst_toNodes (c : SeqCfg) (ks : List LNode) (h : topShape ks = true)
    (hl : LNode.allLays (blankS c) ks = true) : textFirst c (LNode.toNodes ks) = true := by
  cases ks with
  | nil => rfl
  | cons k r =>
    cases k with
    | text s =>
      simp only [topShape] at h
      simp only [LNode.allLays] at hl
      simp only [LNode.toNodes, LNode.toNode, textFirst, noText_toNodes c r h hl]
    | lay s => exact textFirst_of_noText c _ (noText_toNodes c _ (by simpa [topShape] using h) hl)
    | elem n as ks => exact textFirst_of_noText c _ (noText_toNodes c _ (by simpa [topShape] using h) hl)
    | comment _ => exact textFirst_of_noText c _ (noText_toNodes c _ (by simpa [topShape] using h) hl)
    | directive _ => exact textFirst_of_noText c _ (noText_toNodes c _ (by simpa [topShape] using h) hl)
    | procinst _ _ => exact textFirst_of_noText c _ (noText_toNodes c _ (by simpa [topShape] using h) hl)

theorem textFirst_stripKids (c : SeqCfg) (ks : List LNode) (h : topShape ks = true) :
    textFirst c (LNode.stripKids ks) = true := by
  cases ks with
  | nil => rfl
  | cons k r =>
    cases k with
    | text s =>
      simp only [topShape] at h
      simp only [LNode.stripKids, LNode.strip, List.singleton_append, textFirst, noText_stripKids c r h]
    | lay s => exact textFirst_of_noText c _ (noText_stripKids c _ (by simpa [topShape] using h))
    | elem n as ks => exact textFirst_of_noText c _ (noText_stripKids c _ (by simpa [topShape] using h))
    | comment _ => exact textFirst_of_noText c _ (noText_stripKids c _ (by simpa [topShape] using h))
    | directive _ => exact textFirst_of_noText c _ (noText_stripKids c _ (by simpa [topShape] using h))
    | procinst _ _ => exact textFirst_of_noText c _ (noText_stripKids c _ (by simpa [topShape] using h))

theorem tfAllKids_append (c : SeqCfg) : ∀ (a b : List Node),
    tfAllKids c (a ++ b) = (tfAllKids c a && tfAllKids c b)
  | [], b => by simp [tfAllKids]
  | k :: a, b => by simp [tfAllKids, tfAllKids_append c a b, Bool.and_assoc]

mutual
theorem tfAll_toNode (c : SeqCfg) : ∀ (k : LNode), shapeL k = true →
    LNode.allLays (blankS c) [k] = true → tfAll c (LNode.toNode k) = true
  | .elem n as ks, h, hl => by
      simp only [shapeL, Bool.and_eq_true] at h
      simp only [LNode.allLays, Bool.and_true] at hl
      simp only [LNode.toNode, tfAll, textFirst_toNodes c ks h.1 hl, tfAllKids_toNodes c ks h.2 hl,
        Bool.and_self]
  | .text _, _, _ => rfl
  | .comment _, _, _ => rfl
  | .directive _, _, _ => rfl
  | .procinst _ _, _, _ => rfl
  | .lay _, _, _ => rfl
theorem tfAllKids_toNodes (c : SeqCfg) : ∀ (ks : List LNode), shapeKidsL ks = true →
    LNode.allLays (blankS c) ks = true → tfAllKids c (LNode.toNodes ks) = true
  | [], _, _ => rfl
  | k :: r, h, hl => by
      simp only [shapeKidsL, Bool.and_eq_true] at h
      have hl2 : LNode.allLays (blankS c) [k] = true ∧ LNode.allLays (blankS c) r = true := by
        have := allLays_append (blankS c) [k] r
        simp only [List.singleton_append] at this
        rw [this, Bool.and_eq_true] at hl; exact hl
      simp only [LNode.toNodes, tfAllKids, tfAll_toNode c k h.1 hl2.1, tfAllKids_toNodes c r h.2 hl2.2,
        Bool.and_self]
end

mutual
theorem tfAll_strip (c : SeqCfg) : ∀ (k : LNode), shapeL k = true →
    tfAllKids c (LNode.strip k) = true
  | .elem n as ks, h => by
      simp only [shapeL, Bool.and_eq_true] at h
      simp only [LNode.strip, tfAllKids, tfAll, textFirst_stripKids c ks h.1,
        tfAllKids_stripKids c ks h.2, Bool.and_self]
  | .text _, _ => rfl
  | .comment _, _ => rfl
  | .directive _, _ => rfl
  | .procinst _ _, _ => rfl
  | .lay _, _ => rfl
theorem tfAllKids_stripKids (c : SeqCfg) : ∀ (ks : List LNode), shapeKidsL ks = true →
    tfAllKids c (LNode.stripKids ks) = true
  | [], _ => rfl
  | k :: r, h => by
      simp only [shapeKidsL, Bool.and_eq_true] at h
      simp only [LNode.stripKids, tfAllKids_append, tfAll_strip c k h.1, tfAllKids_stripKids c r h.2,
        Bool.and_self]
end

theorem normalizeKids_append_notext (c : SeqCfg) : ∀ (a b : List Node),
    normalizeKidsC c (a ++ b) = normalizeKidsC c a ++ normalizeKidsC c b
  | [], b => rfl
  | .text s :: a, b => by
      simp only [List.cons_append, normalizeKidsC, normalizeKids_append_notext c a b]
      split <;> simp
  | .elem _ _ _ _ :: a, b => by
      simp only [List.cons_append, normalizeKidsC, normalizeKids_append_notext c a b]
  | .comment _ :: a, b => by
      simp only [List.cons_append, normalizeKidsC, normalizeKids_append_notext c a b]
  | .directive _ :: a, b => by
      simp only [List.cons_append, normalizeKidsC, normalizeKids_append_notext c a b]
  | .procinst _ _ :: a, b => by
      simp only [List.cons_append, normalizeKidsC, normalizeKids_append_notext c a b]

/-- (G1) blank layout disappears under `normalize`: layout-as-character-data and no layout at
    all have the same normal form -/
theorem normalizeKids_toNodes (c : SeqCfg) : ∀ (ks : List LNode),
    LNode.allLays (blankS c) ks = true →
    normalizeKidsC c (LNode.toNodes ks) = normalizeKidsC c (LNode.stripKids ks)
  | [], _ => rfl
  | .lay s :: r, hl => by
      simp only [LNode.allLays, Bool.and_eq_true] at hl
      have hb : (seqTrim c s).isEmpty = true := isBlank_of_blankS c s hl.1
      simp only [LNode.toNodes, LNode.toNode, LNode.stripKids, LNode.strip, List.nil_append,
        normalizeKidsC, hb, if_true, normalizeKids_toNodes c r hl.2]
  | .text s :: r, hl => by
      simp only [LNode.allLays] at hl
      simp only [LNode.toNodes, LNode.toNode, LNode.stripKids, LNode.strip, List.singleton_append,
        normalizeKidsC, normalizeKids_toNodes c r hl]
  | .elem n as ks :: r, hl => by
      simp only [LNode.allLays, Bool.and_eq_true] at hl
      simp only [LNode.toNodes, LNode.toNode, LNode.stripKids, LNode.strip, List.singleton_append,
        normalizeKidsC, normalizeC, normalizeKids_toNodes c r hl.2, normalizeKids_toNodes c ks hl.1]
  | .comment _ :: r, hl => by
      simp only [LNode.allLays] at hl
      simp only [LNode.toNodes, LNode.toNode, LNode.stripKids, LNode.strip, List.singleton_append,
        normalizeKidsC, normalizeC, normalizeKids_toNodes c r hl]
  | .directive _ :: r, hl => by
      simp only [LNode.allLays] at hl
      simp only [LNode.toNodes, LNode.toNode, LNode.stripKids, LNode.strip, List.singleton_append,
        normalizeKidsC, normalizeC, normalizeKids_toNodes c r hl]
  | .procinst _ _ :: r, hl => by
      simp only [LNode.allLays] at hl
      simp only [LNode.toNodes, LNode.toNode, LNode.stripKids, LNode.strip, List.singleton_append,
        normalizeKidsC, normalizeC, normalizeKids_toNodes c r hl]

/-- the decoder's value of a layout element = the value of the element without the layout -/
theorem value_toNode (c : SeqCfg) (S : Strconv) (hts : c.textK ≠ c.seqK) (n : Str) (as : List Attr)
    (ks : List LNode) (hs : shapeL (.elem n as ks) = true)
    (hl : LNode.allLays (blankS c) [.elem n as ks] = true) :
    SeqFold.value c S (unqualify (LNode.toNode (.elem n as ks)))
      = SeqFold.value c S (unqualify (.elem [] n as (LNode.stripKids ks))) := by
  have hl' : LNode.allLays (blankS c) ks = true := by simpa [LNode.allLays] using hl
  have t1 : tfAll c (unqualify (LNode.toNode (.elem n as ks))) = true := by
    rw [tfAll_unqualify]; exact tfAll_toNode c _ hs hl
  have t2 : tfAll c (unqualify (.elem [] n as (LNode.stripKids ks))) = true := by
    rw [tfAll_unqualify]
    have := tfAll_strip c (.elem n as ks) hs
    simpa [LNode.strip, tfAllKids] using this
  rw [← value_normalize c S hts _ t1, ← value_normalize c S hts _ t2, normalize_unqualify,
    normalize_unqualify]
  simp only [LNode.toNode, normalizeC, normalizeKids_toNodes c ks hl']


/-! ### (I) the token stream of the indented output -/

def isLay : LNode → Bool
  | .lay _ => true
  | _ => false

theorem lays_of_strip_nil : ∀ (l : List LNode), noTextTop l = true → LNode.stripKids l = [] →
    l.all isLay = true
  | [], _, _ => rfl
  | .lay s :: r, h, hs => by
      simp only [noTextTop] at h
      simp only [LNode.stripKids, LNode.strip, List.nil_append] at hs
      simp [isLay, lays_of_strip_nil r h hs]
  | .text _ :: r, h, _ => by simp [noTextTop] at h
  | .elem _ _ _ :: r, _, hs => by simp [LNode.stripKids, LNode.strip] at hs
  | .comment _ :: r, _, hs => by simp [LNode.stripKids, LNode.strip] at hs
  | .directive _ :: r, _, hs => by simp [LNode.stripKids, LNode.strip] at hs
  | .procinst _ _ :: r, _, hs => by simp [LNode.stripKids, LNode.strip] at hs

/-- a layout forest whose layout-free part is a single element: layout, the element, layout -/
theorem strip_single : ∀ (l : List LNode) (n : Str) (as : List Attr) (ks0 : List Node),
    noTextTop l = true → LNode.stripKids l = [.elem [] n as ks0] →
    ∃ a ks b, l = a ++ .elem n as ks :: b ∧ a.all isLay = true ∧ b.all isLay = true
      ∧ LNode.stripKids ks = ks0
  | [], _, _, _, _, hs => by simp [LNode.stripKids] at hs
  | .lay s :: r, n, as, ks0, h, hs => by
      simp only [noTextTop] at h
      simp only [LNode.stripKids, LNode.strip, List.nil_append] at hs
      obtain ⟨a, ks, b, h1, h2, h3, h4⟩ := strip_single r n as ks0 h hs
      exact ⟨.lay s :: a, ks, b, by rw [h1]; rfl, by simp [isLay, h2], h3, h4⟩
  | .text _ :: r, _, _, _, h, _ => by simp [noTextTop] at h
  | .elem n' as' ks :: r, n, as, ks0, h, hs => by
      simp only [noTextTop] at h
      simp only [LNode.stripKids, LNode.strip, List.singleton_append, List.cons.injEq,
        Node.elem.injEq, true_and] at hs
      obtain ⟨⟨rfl, rfl, rfl⟩, hr⟩ := hs
      exact ⟨[], ks, r, rfl, rfl, lays_of_strip_nil r h hr, rfl⟩
  | .comment _ :: r, _, _, _, _, hs => by simp [LNode.stripKids, LNode.strip] at hs
  | .directive _ :: r, _, _, _, _, hs => by simp [LNode.stripKids, LNode.strip] at hs
  | .procinst _ _ :: r, _, _, _, _, hs => by simp [LNode.stripKids, LNode.strip] at hs

theorem toNodes_append : ∀ (a b : List LNode),
    LNode.toNodes (a ++ b) = LNode.toNodes a ++ LNode.toNodes b
  | [], _ => rfl
  | x :: a, b => by simp only [List.cons_append, LNode.toNodes, toNodes_append a b]

theorem unqualifyKids_append : ∀ (a b : List Node),
    unqualifyKids (a ++ b) = unqualifyKids a ++ unqualifyKids b
  | [], _ => rfl
  | x :: a, b => by simp only [List.cons_append, unqualifyKids, unqualifyKids_append a b]

theorem flattenKids_append : ∀ (a b : List Node), flattenKids (a ++ b) = flattenKids a ++ flattenKids b
  | [], _ => rfl
  | x :: a, b => by simp only [List.cons_append, flattenKids, flattenKids_append a b, List.append_assoc]

theorem lay_tokens : ∀ (a : List LNode), a.all isLay = true →
    ∀ t ∈ flattenKids (unqualifyKids (LNode.toNodes a)), isText t = true
  | [], _, t, ht => by simp [LNode.toNodes, unqualifyKids, flattenKids] at ht
  | .lay s :: a, h, t, ht => by
      simp only [List.all_cons, isLay, Bool.true_and] at h
      simp only [LNode.toNodes, LNode.toNode, unqualifyKids, unqualify, flattenKids, flatten,
        List.singleton_append, List.mem_cons] at ht
      rcases ht with rfl | ht
      · rfl
      · exact lay_tokens a h t ht
  | .text _ :: a, h, _, _ => by simp [isLay] at h
  | .elem _ _ _ :: a, h, _, _ => by simp [isLay] at h
  | .comment _ :: a, h, _, _ => by simp [isLay] at h
  | .directive _ :: a, h, _, _ => by simp [isLay] at h
  | .procinst _ _ :: a, h, _, _ => by simp [isLay] at h

theorem allLays_mono {P Q : Str → Bool} (hPQ : ∀ s, P s = true → Q s = true) : ∀ (l : List LNode),
    LNode.allLays P l = true → LNode.allLays Q l = true
  | [], _ => by simp [LNode.allLays]
  | .lay s :: r, h => by
      simp only [LNode.allLays, Bool.and_eq_true] at h ⊢
      exact ⟨hPQ s h.1, allLays_mono hPQ r h.2⟩
  | .elem _ _ ks :: r, h => by
      simp only [LNode.allLays, Bool.and_eq_true] at h ⊢
      exact ⟨allLays_mono hPQ ks h.1, allLays_mono hPQ r h.2⟩
  | .text _ :: r, h => by simp only [LNode.allLays] at h ⊢; exact allLays_mono hPQ r h
  | .comment _ :: r, h => by simp only [LNode.allLays] at h ⊢; exact allLays_mono hPQ r h
  | .directive _ :: r, h => by simp only [LNode.allLays] at h ⊢; exact allLays_mono hPQ r h
  | .procinst _ _ :: r, h => by simp only [LNode.allLays] at h ⊢; exact allLays_mono hPQ r h

theorem shapeL_of_mem : ∀ (l : List LNode), shapeKidsL l = true → ∀ x ∈ l, shapeL x = true
  | [], _, x, h => by simp at h
  | y :: r, hs, x, h => by
      simp only [shapeKidsL, Bool.and_eq_true] at hs
      rcases List.mem_cons.1 h with rfl | h
      · exact hs.1
      · exact shapeL_of_mem r hs.2 x h

/-- decoding the token stream of a layout forest whose layout-free part is one element: the
    layout tokens (character data the decoder trims to nothing) do not show -/
theorem tokens_decode (c : SeqCfg) (S : Strconv) (fin : StreamEnd) (hts : c.textK ≠ c.seqK)
    (outL : List LNode) (n : Str) (as : List Attr) (ks0 : List Node)
    (h1 : noTextTop outL = true) (h2 : shapeKidsL outL = true)
    (h3 : LNode.allLays (blankS c) outL = true)
    (hs : LNode.stripKids outL = [.elem [] n as ks0]) :
    newMapXmlSeq c S (flattenKids (unqualifyKids (LNode.toNodes outL))) fin
      = .ok (.doc (SeqFold.doc c S (unqualify (.elem [] n as ks0)))) := by
  obtain ⟨a, ks, b, rfl, ha, hb, rfl⟩ := strip_single outL n as ks0 h1 hs
  have hsh : shapeL (.elem n as ks) = true := shapeL_of_mem _ h2 _ (by simp)
  have hl : LNode.allLays (blankS c) [.elem n as ks] = true := by
    rw [allLays_append, Bool.and_eq_true] at h3
    have h3' := h3.2
    have := allLays_append (blankS c) [.elem n as ks] b
    simp only [List.singleton_append] at this
    rw [this, Bool.and_eq_true] at h3'
    exact h3'.1
  have hv := value_toNode c S hts n as ks hsh hl
  have e : flattenKids (unqualifyKids (LNode.toNodes (a ++ .elem n as ks :: b)))
      = flattenKids (unqualifyKids (LNode.toNodes a))
        ++ flatten (unqualify (LNode.toNode (.elem n as ks)))
        ++ flattenKids (unqualifyKids (LNode.toNodes b)) := by
    simp only [toNodes_append, LNode.toNodes, unqualifyKids_append, unqualifyKids,
      flattenKids_append, flattenKids, List.append_assoc]
  rw [e]
  simp only [LNode.toNode, unqualify] at hv ⊢
  rw [newMapXmlSeq_tree c S fin _ _ (lay_tokens a ha)]
  simp only [SeqFold.doc, hv]

/-! ### (J) decoded values: no scalar under a note key -/

theorem noteOkEntries_append (c : SeqCfg) : ∀ (X Y : Entries),
    noteOkEntries c (X ++ Y) = (noteOkEntries c X && noteOkEntries c Y)
  | [], Y => by simp [noteOkEntries]
  | (k, v) :: X, Y => by
      simp only [List.cons_append, noteOkEntries, noteOkEntries_append c X Y, Bool.and_assoc]

/-- an entry the encoder skips, or one it accepts -/
def entryOk (c : SeqCfg) (k : Str) (v : Val) : Bool :=
  decide (k = c.attrK) || decide (k = c.seqK) || decide (k = c.textK) || noteOk c k v

theorem noteOkEntries_insert (c : SeqCfg) (k : Str) (v : Val) (hv : entryOk c k v = true) :
    ∀ (l : Entries), noteOkEntries c l = true → noteOkEntries c (insert k v l) = true
  | [], _ => by simp only [insert, noteOkEntries, Bool.and_true]; exact hv
  | (k', v') :: rest, h => by
      simp only [noteOkEntries, Bool.and_eq_true] at h
      by_cases e : k = k'
      · simp only [insert, e, if_true, noteOkEntries, Bool.and_eq_true]
        exact ⟨by rw [← e]; exact hv, h.2⟩
      · simp only [insert, e, if_false, noteOkEntries, Bool.and_eq_true]
        exact ⟨h.1, noteOkEntries_insert c k v hv rest h.2⟩

theorem entryOk_of_lookup (c : SeqCfg) (k : Str) : ∀ (l : Entries) (v : Val),
    noteOkEntries c l = true → lookup k l = some v → entryOk c k v = true
  | [], v, _, h => by simp [lookup] at h
  | (k', v') :: rest, v, hp, h => by
      simp only [noteOkEntries, Bool.and_eq_true] at hp
      by_cases e : k = k'
      · subst e
        simp only [lookup, if_true, Option.some.injEq] at h
        subst h
        exact hp.1
      · simp only [lookup, e, if_false] at h
        exact entryOk_of_lookup c k rest v hp.2 h

theorem noteOkList_append (c : SeqCfg) (k : Str) : ∀ (X Y : List Val),
    noteOkList c k (X ++ Y) = (noteOkList c k X && noteOkList c k Y)
  | [], Y => by simp [noteOkList]
  | x :: X, Y => by
      simp only [List.cons_append, noteOkList, noteOkList_append c k X Y, Bool.and_assoc]

theorem entryOk_promote (c : SeqCfg) (k : Str) (o : Option Val) (v : Val)
    (ho : ∀ old, o = some old → entryOk c k old = true) (hv : entryOk c k v = true) :
    entryOk c k (promote o v) = true := by
  by_cases hd : (decide (k = c.attrK) || decide (k = c.seqK) || decide (k = c.textK)) = true
  · simp [entryOk, hd]
  · have hd' : (decide (k = c.attrK) || decide (k = c.seqK) || decide (k = c.textK)) = false := by
      simpa using hd
    simp only [entryOk, hd', Bool.false_or] at ho hv ⊢
    cases o with
    | none => exact hv
    | some old =>
      have h := ho old rfl
      cases old with
      | list xs =>
        simp only [noteOk] at h
        simp [promote, noteOk, noteOkList_append, noteOkList, h, hv]
      | null => simp [promote, noteOk, noteOkList, hv]
      | bool _ => simp only [noteOk] at h; simp [promote, noteOk, noteOkList, hv, h]
      | num _ => simp only [noteOk] at h; simp [promote, noteOk, noteOkList, hv, h]
      | str _ => simp only [noteOk] at h; simp [promote, noteOk, noteOkList, hv, h]
      | map _ => simp only [noteOk] at h; simp [promote, noteOk, noteOkList, hv, h]

theorem noteOkEntries_addChild (c : SeqCfg) (na : Entries) (k : Str) (v : Val)
    (hv : entryOk c k v = true) (hna : noteOkEntries c na = true) :
    noteOkEntries c (addChild na k v) = true := by
  rw [addChild_eq]
  exact noteOkEntries_insert c k _
    (entryOk_promote c k _ v (fun old ho => entryOk_of_lookup c k na old hna ho) hv) na hna

theorem noteOkEntries_addAll (c : SeqCfg) : ∀ (cs : List (Str × Val)) (na : Entries),
    (∀ e ∈ cs, entryOk c e.1 e.2 = true) → noteOkEntries c na = true →
    noteOkEntries c (addAll na cs) = true
  | [], na, _, h => h
  | e :: cs, na, he, h => by
      rw [addAll_cons]
      exact noteOkEntries_addAll c cs _ (fun e' he' => he e' (List.mem_cons_of_mem _ he'))
        (noteOkEntries_addChild c na e.1 e.2 (he e (List.mem_cons_self ..)) h)

theorem noteOk_seqChild (c : SeqCfg) (key : Str) (n : Nat) (v : Val)
    (hv : noteOk c key v = true) (hk : noteKeyB c key = false) :
    noteOk c key (seqChild c n v) = true := by
  cases v with
  | map kvs =>
    simp only [noteOk, hk, Bool.false_or] at hv
    simp only [seqChild, noteOk, hk, Bool.false_or]
    exact noteOkEntries_insert c _ _ (by simp [entryOk]) kvs hv
  | str s => simp [seqChild, noteOk, noteOkEntries]
  | list xs => simp [seqChild, noteOk, noteOkEntries]
  | null => simp [seqChild, noteOk, noteOkEntries]
  | bool _ => simp [seqChild, noteOk, noteOkEntries]
  | num _ => simp [seqChild, noteOk, noteOkEntries]

theorem noteOk_finish (c : SeqCfg) (key : Str) (na : Entries) (hk : noteKeyB c key = false)
    (h : noteOkEntries c na = true) : noteOk c key (SeqFold.finish na) = true := by
  unfold SeqFold.finish
  split
  · simp [noteOk, hk]
  · simp [noteOk, h]

theorem isNoteKey_of_not_hash (c : SeqCfg) (k : Str) (h : k ∉ hashKeys c) : noteKeyB c k = false := by
  have := not_hash h
  simp [noteKeyB, this.2.2.2.1, this.2.2.2.2.1, this.2.2.2.2.2]

mutual
theorem noteOk_value (c : SeqCfg) (S : Strconv) (hc : CfgOk c) : ∀ (t : Node),
    seqDomain c t = true → ∀ key, noteKeyB c key = false →
      noteOk c key (SeqFold.value c S t) = true
  | .elem sp name attrs kids, hd, key, hk => by
      have dp := seqDomain_parts hd
      have hit := noteOk_items c S hc kids dp.kids (if (leadText c kids).isSome then 1 else 0)
      rw [value_eq_finish, decodedEntries_form c S hc sp name attrs kids hd]
      apply noteOk_finish c key _ hk
      rw [noteOkEntries_append, noteOkEntries_append, Bool.and_eq_true, Bool.and_eq_true]
      refine ⟨⟨?_, ?_⟩, ?_⟩
      · split
        · rfl
        · simp [noteOkEntries]
      · cases leadText c kids <;> simp [textEntries, noteOkEntries]
      · exact noteOkEntries_addAll c _ [] (fun e he => by simp [entryOk, hit e he]) rfl
  | .text _, h, _, _ => by simp [seqDomain] at h
  | .comment _, h, _, _ => by simp [seqDomain] at h
  | .directive _, h, _, _ => by simp [seqDomain] at h
  | .procinst _ _, h, _, _ => by simp [seqDomain] at h
theorem noteOk_items (c : SeqCfg) (S : Strconv) (hc : CfgOk c) : ∀ (kids : List Node),
    seqDomainKids c kids = true → ∀ (seq : Nat), ∀ e ∈ items c S seq kids, noteOk c e.1 e.2 = true
  | [], _, seq, e, h => by simp [items] at h
  | .elem sp name attrs ks :: rest, hd, seq, e, h => by
      simp only [seqDomainKids, Bool.and_eq_true] at hd
      simp only [items, List.mem_cons] at h
      rcases h with rfl | h
      · have hk := isNoteKey_of_not_hash c _ (seqDomain_key hd.1)
        exact noteOk_seqChild c _ seq _ (noteOk_value c S hc (.elem sp name attrs ks) hd.1 _ hk) hk
      · exact noteOk_items c S hc rest hd.2 _ e h
  | .text _ :: rest, hd, seq, e, h => by
      simp only [seqDomainKids] at hd
      simp only [items] at h; exact noteOk_items c S hc rest hd _ e h
  | .comment _ :: rest, hd, seq, e, h => by
      simp only [seqDomainKids] at hd
      simp only [items, List.mem_cons] at h
      rcases h with rfl | h
      · simp [noteVal, noteOk, noteKeyB]
      · exact noteOk_items c S hc rest hd _ e h
  | .directive _ :: rest, hd, seq, e, h => by
      simp only [seqDomainKids] at hd
      simp only [items, List.mem_cons] at h
      rcases h with rfl | h
      · simp [noteVal, noteOk, noteKeyB]
      · exact noteOk_items c S hc rest hd _ e h
  | .procinst _ _ :: rest, hd, seq, e, h => by
      simp only [seqDomainKids] at hd
      simp only [items, List.mem_cons] at h
      rcases h with rfl | h
      · simp [piVal, noteOk, noteKeyB]
      · exact noteOk_items c S hc rest hd _ e h
end


/-! ### (K) the top level -/

theorem Rel.cls {h : Prop} {o1 : Outcome (List Piece)} {o2 : Outcome Str} (r : Rel h o1 o2) :
    o1.mapOk (fun _ => ()) = o2.mapOk (fun _ => ()) := by
  cases o1 <;> cases o2 <;> simp only [Rel] at r <;> simp_all [Outcome.mapOk]

theorem Rel.eq {h : Prop} {o1 : Outcome (List Piece)} {o2 : Outcome Str} (r : Rel h o1 o2) (hh : h) :
    o1.mapOk Piece.flat = o2 := by
  cases o1 <;> cases o2 <;> simp only [Rel] at r <;> simp_all [Outcome.mapOk]

theorem mapOk_mapOk {α β γ : Type} (g : α → β) (k : β → γ) (o : Outcome α) :
    (o.mapOk g).mapOk k = o.mapOk (fun a => k (g a)) := by
  cases o <;> rfl

/-- failure parity of the worker, either mode, every input -/
theorem encP_parity (c : SeqCfg) (esc ge di : Bool) (f : Nat) (p : Pretty) (key : Str) (v : Val) :
    (seqEncP c esc ge di f p key v).mapOk (fun _ => ())
      = (seqEnc c esc ge f key v).mapOk (fun _ => ()) := by
  have h0 := (encP_rel c esc ge f p key v).cls
  cases di with
  | false => exact h0
  | true =>
    have h1 := congrArg (Outcome.mapOk (fun _ => ())) (encP_core c esc ge f p p key v)
    rw [mapOk_mapOk, mapOk_mapOk] at h1
    exact h1.trans h0

theorem mapSeqXml_rootI (c : SeqCfg) (esc ge : Bool) (m : Entries) (h : seqRootAgree m = true) :
    mapSeqXml c esc ge m
      = seqEnc c esc ge (2 * Val.depth (.map m) + 2) (seqRootI m).1 (seqRootI m).2 := by
  match m, h with
  | [], _ => rfl
  | [(k, .list xs)], h =>
    have : allMaps xs = false := by simpa [seqRootAgree] using h
    simp [mapSeqXml, seqRootI, this]
  | [(k, .null)], _ => rfl
  | [(k, .bool _)], _ => rfl
  | [(k, .num _)], _ => rfl
  | [(k, .str _)], _ => rfl
  | [(k, .map _)], _ => rfl
  | (k1, v1) :: e2 :: rest, _ =>
    cases v1 <;> simp [mapSeqXml, seqRootI]

theorem seqRootI_finish (key : Str) (na : Entries) :
    seqRootI [(key, SeqFold.finish na)] = (key, SeqFold.finish na) := by
  rcases finish_cases na with h | h <;> rw [h] <;> rfl

theorem goodP_init (P : Char → Bool) (pfx ind : Str) (h1 : ∀ ch ∈ pfx, P ch = true)
    (h2 : ∀ ch ∈ ind, P ch = true) : GoodP P (Pretty.init pfx ind) := ⟨h1, h2⟩

/-- the tree-level round trip with the fuel and the root `XmlIndent` uses -/
theorem treeL_roundtrip (c : SeqCfg) (S : Strconv) (hc : CfgOk c) (sp name : Str)
    (attrs : List Attr) (kids : List Node) (hd : seqDomain c (.elem sp name attrs kids) = true)
    (p : Pretty) (f : Nat) (hf : (Node.elem sp name attrs kids).height + 1 ≤ f) :
    ∃ outL, seqEncTreeL c f p (qualName c sp name) (SeqFold.value c S (.elem sp name attrs kids))
        = .ok outL
      ∧ LNode.stripKids outL = [qualify c (normalizeC c (.elem sp name attrs kids))] := by
  have ht := enc_tree c S hc (.elem sp name attrs kids)
  simp only at ht
  have h1 := (ht hd f hf).1
  have h2 := encTreeL_strip c f p (qualName c sp name) (SeqFold.value c S (.elem sp name attrs kids))
  rw [h1] at h2
  cases e : seqEncTreeL c f p (qualName c sp name) (SeqFold.value c S (.elem sp name attrs kids)) with
  | ok outL =>
    rw [e] at h2
    simp only [Outcome.mapOk, Outcome.ok.injEq] at h2
    exact ⟨outL, rfl, h2⟩
  | eof => rw [e] at h2; cases h2
  | «syntax» => rw [e] at h2; cases h2
  | err _ => rw [e] at h2; cases h2
  | panic _ => rw [e] at h2; cases h2

theorem fuel_ok (c : SeqCfg) (S : Strconv) (hc : CfgOk c) (sp name : Str) (attrs : List Attr)
    (kids : List Node) (hd : seqDomain c (.elem sp name attrs kids) = true) (key : Str) :
    (Node.elem sp name attrs kids).height + 1
      ≤ 2 * Val.depth (.map [(key, SeqFold.value c S (.elem sp name attrs kids))]) + 2 := by
  have hh := (height_le_depth c S hc _ hd).1
  simp only [Val.depth, Val.depthEntries]
  have := Nat.le_max_left (Val.depth (SeqFold.value c S (.elem sp name attrs kids))) 0
  omega

/-- decode, `XmlIndent`: the bytes are the rendering of a layout tree whose layout-free part is
    the normalised document -/
theorem mapSeqXmlIndent_roundtrip (c : SeqCfg) (S : Strconv) (hc : CfgOk c) (esc ge : Bool)
    (pfx ind : Str) (sp name : Str) (attrs : List Attr) (kids : List Node)
    (hd : seqDomain c (.elem sp name attrs kids) = true) :
    ∃ outL,
      seqEncTreeL c (2 * Val.depth (.map [(qualName c sp name,
          SeqFold.value c S (.elem sp name attrs kids))]) + 2) (Pretty.init pfx ind)
          (qualName c sp name) (SeqFold.value c S (.elem sp name attrs kids)) = .ok outL
      ∧ mapSeqXmlIndent c esc ge pfx ind
          [(qualName c sp name, SeqFold.value c S (.elem sp name attrs kids))]
        = .ok (renderLKids esc ge outL)
      ∧ LNode.stripKids outL = [qualify c (normalizeC c (.elem sp name attrs kids))] := by
  obtain ⟨outL, h1, h2⟩ := treeL_roundtrip c S hc sp name attrs kids hd (Pretty.init pfx ind) _
    (fuel_ok c S hc sp name attrs kids hd (qualName c sp name))
  refine ⟨outL, h1, ?_, h2⟩
  have hp := plain_value c S hc _ hd
  have hn := noteOk_value c S hc _ hd (qualName c sp name)
    (isNoteKey_of_not_hash c _ (seqDomain_key hd))
  have hl := encP_linkL c esc ge hc.ts (2 * Val.depth (.map [(qualName c sp name,
    SeqFold.value c S (.elem sp name attrs kids))]) + 2) (Pretty.init pfx ind) (qualName c sp name) _ hp hn
  rw [h1] at hl
  unfold mapSeqXmlIndent mapSeqXmlIndentP
  rw [value_eq_finish] at *
  rw [seqRootI_finish]
  exact hl


/-! ### (L) adjacent character data is one run: the decoder does not see `mergeText` -/

theorem insert_same (k : Str) (a b : Val) : ∀ (l : Entries), insert k b (insert k a l) = insert k b l
  | [] => by simp [insert]
  | (k', v') :: rest => by
      by_cases e : k = k'
      · simp [insert, e]
      · simp [insert, e, insert_same k a b rest]

/-- `m[k]=a; m[k']=n; m[k]=b` is `m[k]=b; m[k']=n` -/
theorem insert_swap (k k' : Str) (hk : k ≠ k') (a b n : Val) : ∀ (l : Entries),
    insert k b (insert k' n (insert k a l)) = insert k' n (insert k b l)
  | [] => by simp [insert, hk, Ne.symm hk]
  | (q, v) :: rest => by
      by_cases e1 : k = q
      · subst e1
        simp [insert, hk, Ne.symm hk]
      · by_cases e2 : k' = q
        · subst e2
          simp [insert, e1, hk, Ne.symm hk, insert_same]
        · simp [insert, e1, e2, insert_swap k k' hk a b n rest]

theorem runText_nonempty_append (c : SeqCfg) (x b : Str) (h : (runText c x).isEmpty = false) :
    (runText c (x ++ b)).isEmpty = false := by
  simp only [runText, escDecIf_isEmpty] at h ⊢
  cases h2 : (trimChars (trimSet c.dec) (x ++ b)).isEmpty with
  | false => rfl
  | true =>
    exfalso
    have h3 : trimChars (trimSet c.dec) (x ++ b) = [] := by
      cases h4 : trimChars (trimSet c.dec) (x ++ b) <;> simp_all
    have h5 := (trim_nil_iff _ _).1 h3
    have h6 : trimChars (trimSet c.dec) x = [] :=
      (trim_nil_iff _ _).2 (fun ch hc => h5 ch (List.mem_append_left _ hc))
    rw [h6] at h; simp at h

/-- two CharData tokens in a row are processed like their concatenation -/
theorem onText_merge (c : SeqCfg) (S : Strconv) (hts : c.textK ≠ c.seqK) (na : Entries) (seq : Nat)
    (pend : Option (Str × Bool)) (a b : Str) :
    SeqFold.onText c S (SeqFold.onText c S na seq pend a).1 (SeqFold.onText c S na seq pend a).2.1
        (SeqFold.onText c S na seq pend a).2.2 b
      = SeqFold.onText c S na seq pend (a ++ b) := by
  have key : ∀ (raw : Str) (numbered : Bool),
      SeqFold.onText c S (SeqFold.onText c S na seq (some (raw, numbered)) a).1
          (SeqFold.onText c S na seq (some (raw, numbered)) a).2.1
          (SeqFold.onText c S na seq (some (raw, numbered)) a).2.2 b
        = SeqFold.onText c S na seq (some (raw, numbered)) (a ++ b) := by
    intro raw numbered
    have hmono := runText_nonempty_append c (raw ++ a) b
    simp only [runText] at hmono
    by_cases h1 : (escDecIf c.dec (trimChars (trimSet c.dec) (raw ++ a))).isEmpty = true
    · simp [SeqFold.onText, h1, List.append_assoc]
    · have h1' : (escDecIf c.dec (trimChars (trimSet c.dec) (raw ++ a))).isEmpty = false := by
        simpa using h1
      have h2 := hmono h1'
      rw [List.append_assoc] at h2
      cases numbered with
      | true => simp [SeqFold.onText, h1', h2, List.append_assoc, insert_same]
      | false =>
        simp [SeqFold.onText, h1', h2, List.append_assoc, insert_swap c.textK c.seqK hts]
  cases pend with
  | none =>
    have := key [] false
    simpa [SeqFold.onText] using this
  | some pr => obtain ⟨raw, numbered⟩ := pr; exact key raw numbered

mutual
theorem value_merge (c : SeqCfg) (S : Strconv) (hts : c.textK ≠ c.seqK) : ∀ (t : Node),
    SeqFold.value c S (mergeText t) = SeqFold.value c S t
  | .elem sp n as ks => by
      simp only [mergeText, SeqFold.value, kids_merge c S hts ks]
  | .text _ => rfl
  | .comment _ => rfl
  | .directive _ => rfl
  | .procinst _ _ => rfl
theorem kids_merge (c : SeqCfg) (S : Strconv) (hts : c.textK ≠ c.seqK) : ∀ (ks : List Node)
    (st : Entries × Nat × Option (Str × Bool)),
    SeqFold.kids' c S st (mergeKids ks) = SeqFold.kids' c S st ks
  | [], st => rfl
  | .text a :: rest, (na, seq, pend) => by
      have ih := kids_merge c S hts rest
      simp only [mergeKids]
      cases hm : mergeKids rest with
      | nil =>
        rw [hm] at ih
        simp only [SeqFold.kids'] at ih ⊢
        exact ih _
      | cons k r =>
        rw [hm] at ih
        cases k with
        | text b =>
          simp only [SeqFold.kids']
          rw [← onText_merge c S hts na seq pend a b]
          have := ih (SeqFold.onText c S na seq pend a)
          simp only [SeqFold.kids'] at this
          exact this
        | elem _ _ _ _ => simp only [SeqFold.kids'] at ih ⊢; exact ih _
        | comment _ => simp only [SeqFold.kids'] at ih ⊢; exact ih _
        | directive _ => simp only [SeqFold.kids'] at ih ⊢; exact ih _
        | procinst _ _ => simp only [SeqFold.kids'] at ih ⊢; exact ih _
  | .elem sp n as ks :: rest, (na, seq, pend) => by
      have hv := value_merge c S hts (.elem sp n as ks)
      simp only [mergeText] at hv
      simp only [mergeKids, mergeText, SeqFold.kids', hv, kids_merge c S hts rest]
  | .comment _ :: rest, (na, seq, pend) => by
      simp only [mergeKids, mergeText, SeqFold.kids', kids_merge c S hts rest]
  | .directive _ :: rest, (na, seq, pend) => by
      simp only [mergeKids, mergeText, SeqFold.kids', kids_merge c S hts rest]
  | .procinst _ _ :: rest, (na, seq, pend) => by
      simp only [mergeKids, mergeText, SeqFold.kids', kids_merge c S hts rest]
end

def isTextNode : Node → Bool
  | .text _ => true
  | _ => false

/-- an element ends a run of character data -/
theorem mergeKids_split (sp n : Str) (as : List Attr) (ks : List Node) (Y : List Node) :
    ∀ (X : List Node), mergeKids (X ++ .elem sp n as ks :: Y)
      = mergeKids X ++ mergeText (.elem sp n as ks) :: mergeKids Y
  | [] => by simp [mergeKids]
  | .text a :: X => by
      have ih := mergeKids_split sp n as ks Y X
      simp only [List.cons_append, mergeKids, ih]
      cases hm : mergeKids X with
      | nil => simp [mergeText]
      | cons k r => cases k <;> simp
  | .elem _ _ _ _ :: X => by
      simp only [List.cons_append, mergeKids, mergeKids_split sp n as ks Y X]
  | .comment _ :: X => by
      simp only [List.cons_append, mergeKids, mergeKids_split sp n as ks Y X]
  | .directive _ :: X => by
      simp only [List.cons_append, mergeKids, mergeKids_split sp n as ks Y X]
  | .procinst _ _ :: X => by
      simp only [List.cons_append, mergeKids, mergeKids_split sp n as ks Y X]

theorem mergeKids_texts : ∀ (X : List Node), X.all isTextNode = true →
    (mergeKids X).all isTextNode = true
  | [], _ => rfl
  | .text a :: X, h => by
      simp only [List.all_cons, isTextNode, Bool.true_and] at h
      have ih := mergeKids_texts X h
      simp only [mergeKids]
      cases hm : mergeKids X with
      | nil => simp [isTextNode]
      | cons k r =>
        rw [hm] at ih
        cases k <;> simp_all [isTextNode]
  | .elem _ _ _ _ :: X, h => by simp [isTextNode] at h
  | .comment _ :: X, h => by simp [isTextNode] at h
  | .directive _ :: X, h => by simp [isTextNode] at h
  | .procinst _ _ :: X, h => by simp [isTextNode] at h

theorem text_tokens : ∀ (X : List Node), X.all isTextNode = true →
    ∀ t ∈ flattenKids X, isText t = true
  | [], _, t, ht => by simp [flattenKids] at ht
  | .text a :: X, h, t, ht => by
      simp only [List.all_cons, isTextNode, Bool.true_and] at h
      simp only [flattenKids, flatten, List.singleton_append, List.mem_cons] at ht
      rcases ht with rfl | ht
      · rfl
      · exact text_tokens X h t ht
  | .elem _ _ _ _ :: X, h, _, _ => by simp [isTextNode] at h
  | .comment _ :: X, h, _, _ => by simp [isTextNode] at h
  | .directive _ :: X, h, _, _ => by simp [isTextNode] at h
  | .procinst _ _ :: X, h, _, _ => by simp [isTextNode] at h

theorem lay_nodes_text : ∀ (a : List LNode), a.all isLay = true →
    (unqualifyKids (LNode.toNodes a)).all isTextNode = true
  | [], _ => rfl
  | .lay s :: a, h => by
      simp only [List.all_cons, isLay, Bool.true_and] at h
      simp [LNode.toNodes, LNode.toNode, unqualifyKids, unqualify, isTextNode, lay_nodes_text a h]
  | .text _ :: a, h => by simp [isLay] at h
  | .elem _ _ _ :: a, h => by simp [isLay] at h
  | .comment _ :: a, h => by simp [isLay] at h
  | .directive _ :: a, h => by simp [isLay] at h
  | .procinst _ _ :: a, h => by simp [isLay] at h

/-- the token stream a tokenizer reports for the indented output (adjacent character data
    merged) decodes to the value of the layout-free element -/
theorem tokens_decode_merged (c : SeqCfg) (S : Strconv) (fin : StreamEnd) (hts : c.textK ≠ c.seqK)
    (outL : List LNode) (n : Str) (as : List Attr) (ks0 : List Node)
    (h1 : noTextTop outL = true) (h2 : shapeKidsL outL = true)
    (h3 : LNode.allLays (blankS c) outL = true)
    (hs : LNode.stripKids outL = [.elem [] n as ks0]) :
    newMapXmlSeq c S (flattenKids (mergeKids (unqualifyKids (LNode.toNodes outL)))) fin
      = .ok (.doc (SeqFold.doc c S (unqualify (.elem [] n as ks0)))) := by
  obtain ⟨a, ks, b, rfl, ha, hb, rfl⟩ := strip_single outL n as ks0 h1 hs
  have hsh : shapeL (.elem n as ks) = true := shapeL_of_mem _ h2 _ (by simp)
  have hl : LNode.allLays (blankS c) [.elem n as ks] = true := by
    rw [allLays_append, Bool.and_eq_true] at h3
    have h3' := h3.2
    have := allLays_append (blankS c) [.elem n as ks] b
    simp only [List.singleton_append] at this
    rw [this, Bool.and_eq_true] at h3'
    exact h3'.1
  have hv := value_toNode c S hts n as ks hsh hl
  have e : unqualifyKids (LNode.toNodes (a ++ .elem n as ks :: b))
      = unqualifyKids (LNode.toNodes a)
        ++ unqualify (LNode.toNode (.elem n as ks)) :: unqualifyKids (LNode.toNodes b) := by
    simp only [toNodes_append, LNode.toNodes, unqualifyKids_append, unqualifyKids]
  rw [e]
  simp only [LNode.toNode, unqualify] at hv ⊢
  rw [mergeKids_split, flattenKids_append]
  simp only [flattenKids]
  rw [← List.append_assoc]
  simp only [mergeText]
  rw [newMapXmlSeq_tree c S fin _ _
    (text_tokens _ (mergeKids_texts _ (lay_nodes_text a ha)))]
  have hm := value_merge c S hts (.elem (splitQual n).1 (splitQual n).2 (as.map unqualAttr)
    (unqualifyKids (LNode.toNodes ks)))
  simp only [mergeText] at hm
  simp only [SeqFold.doc, hm, hv]

/-- the decoder's document value of the re-encoded, normalised tree is that of the tree -/
theorem doc_roundtrip (c : SeqCfg) (S : Strconv) (hts : c.textK ≠ c.seqK) (hs : c.snake = false)
    (sp name : Str) (attrs : List Attr) (kids : List Node)
    (hd : seqDomain c (.elem sp name attrs kids) = true)
    (hn : plainNames (.elem sp name attrs kids) = true) :
    SeqFold.doc c S (unqualify (qualify c (normalizeC c (.elem sp name attrs kids))))
      = SeqFold.doc c S (.elem sp name attrs kids) := by
  rw [unqualify_qualify c hs _ (plainNames_normalize c _ hn)]
  have hv := value_normalize c S hts _ (tfAll_of_domain c _ hd)
  simp only [normalizeC] at hv ⊢
  simp only [SeqFold.doc, hv]

end SeqIL
end Mxj
