/-
  Mxj.Lemmas.EncodeSym — C02 for symmetric non-default option pairs: the trusted-base laws
  about `strings.ToLower` (`LowerLaw`) and `strconv.ParseFloat` / `%v` (`FloatLaw`), and the
  derivation of the two abstract laws the tree-level fixed point needs (`FoldLaw`, `LeafLaw`,
  Lemmas/EncodeSym1.lean) from them.  The development itself is in EncodeSym1 … EncodeSym5.
-/
import Mxj.Lemmas.EncodeSym5
namespace Mxj.EncSym
open Mxj Mxj.Enc

/-! ### key folding -/

/-- TB-LOWER: what C02 needs of `strings.ToLower`: it is idempotent, and it commutes with
    replacing '-' by '_' (it maps '-' and '_' to themselves and nothing else to '-'). -/
structure LowerLaw (S : Strconv) : Prop where
  idem : ∀ s, S.lower (S.lower s) = S.lower s
  snake : ∀ s, S.lower (snakeCase s) = snakeCase (S.lower s)

theorem snakeCase_idem (s : Str) : snakeCase (snakeCase s) = snakeCase s := by
  unfold snakeCase
  rw [List.map_map]
  apply List.map_congr_left
  intro c _
  simp only [Function.comp]
  by_cases h : c = '-'
  · subst h; decide
  · simp [h]

/-- without lower-casing the folding is idempotent by computation -/
theorem FoldLaw_of_noLower (d : DecCfg) (S : Strconv) (h : d.lowerCase = false) : FoldLaw d S := by
  constructor
  · intro s
    unfold elemKey
    cases hsn : d.snake <;> simp [h, snakeCase_idem]
  · intro s
    unfold attrFold
    cases hsn : d.snake <;> simp [h, snakeCase_idem]

theorem FoldLaw_of_LowerLaw (d : DecCfg) (S : Strconv) (hL : LowerLaw S) : FoldLaw d S := by
  constructor
  · intro s
    unfold elemKey
    cases hl : d.lowerCase <;> cases hsn : d.snake <;>
      simp [snakeCase_idem, hL.idem, hL.snake]
  · intro s
    unfold attrFold
    cases hl : d.lowerCase <;> cases hsn : d.snake <;>
      simp [snakeCase_idem, hL.idem, hL.snake]

theorem FoldLaw_of (d : DecCfg) (S : Strconv) (h : d.lowerCase = true → LowerLaw S) :
    FoldLaw d S := by
  cases hl : d.lowerCase
  · exact FoldLaw_of_noLower d S hl
  · exact FoldLaw_of_LowerLaw d S (h hl)

/-! ### an instance of `LowerLaw`: ASCII lower-casing -/

/-- ASCII lower-casing (what `strings.ToLower` does on ASCII text) -/
def lowerAscii (s : Str) : Str := s.map Char.toLower

theorem toLower_idem (c : Char) : c.toLower.toLower = c.toLower := by
  simp only [Char.toLower]
  split
  · split
    · next h1 h2 =>
      simp only [UInt32.le_iff_toNat_le, UInt32.toNat_add, seval] at h1 h2
      omega
    · simp
  · rfl

theorem toLower_ne_dash (c : Char) (h : c ≠ '-') : c.toLower ≠ '-' := by
  simp only [Char.toLower]
  split
  · next h1 =>
    intro he
    have := congrArg Char.val he
    simp only [UInt32.le_iff_toNat_le, seval] at h1
    have h2 := congrArg UInt32.toNat this
    simp only [UInt32.toNat_add, seval] at h2
    omega
  · exact h

theorem lowerAscii_law (S : Strconv) (h : S.lower = lowerAscii) : LowerLaw S := by
  constructor
  · intro s
    rw [h]; unfold lowerAscii
    rw [List.map_map]
    apply List.map_congr_left
    intro c _
    exact toLower_idem c
  · intro s
    rw [h]; unfold lowerAscii snakeCase
    rw [List.map_map, List.map_map]
    apply List.map_congr_left
    intro c _
    simp only [Function.comp]
    by_cases hc : c = '-'
    · subst hc; decide
    · simp [hc, toLower_ne_dash c hc]

/-! ### casting -/

/-- the text Go writes for a boolean -/
def boolText (b : Bool) : Str := if b then "true".toList else "false".toList

/-- TB-FLOAT: what C02 needs of `strconv.ParseFloat(s, 64)` together with `fmt`'s `%v` of a
    float64 (`Strconv.parseFloat s = some (t, special)`: `t` is the tagged `%v` text, `numText t`
    the text itself): the `%v` text parses back to the same float; it is non-empty and contains
    no white space; the text of a finite float is not one of the words nan / inf / -inf; and the
    words true / false are neither floats nor such words. -/
structure FloatLaw (S : Strconv) : Prop where
  reparse : ∀ s t sp, S.parseFloat s = some (t, sp) → S.parseFloat (numText t) = some (t, sp)
  clean : ∀ s t sp, S.parseFloat s = some (t, sp) →
    numText t ≠ [] ∧ ∀ c ∈ numText t, c ≠ ' ' ∧ c ≠ '\t' ∧ c ≠ '\n' ∧ c ≠ '\r' ∧ c ≠ '\x08'
  finite_word : ∀ s t, S.parseFloat s = some (t, false) → isNanInfWord S (numText t) = false
  bool_not_float : ∀ b, S.parseFloat (boolText b) = none
  bool_not_word : ∀ b, isNanInfWord S (boolText b) = false

theorem leafText_bool (b : Bool) : leafText (.bool b) = boolText b := by
  cases b <;> rfl

/-- the three outcomes of `cast` without integer casting (the key plays no role: `[]`) -/
theorem cast_shape (S : Strconv) (c : CastCfg) (hI : c.toInt = false) (s : Str) :
    cast S c s [] = .str s
    ∨ (∃ t sp, cast S c s [] = .num t ∧ c.r = true ∧ c.toFloat = true
        ∧ S.parseFloat s = some (t, sp) ∧ (c.nanInf = true ∨ sp = false))
    ∨ (∃ b, cast S c s [] = .bool b ∧ c.r = true ∧ c.toBool = true) := by
  rcases Bool.eq_false_or_eq_true c.r with hr | hr
  case inr => left; unfold cast; simp [hr]
  by_cases hw : (!c.nanInf && isNanInfWord S s) = true
  · left; unfold cast; simp [hr, hw]
  have hbool : ∀ (hnf : c.toFloat = false ∨ S.parseFloat s = none),
      cast S c s [] = .str s ∨ ∃ b, cast S c s [] = .bool b ∧ c.r = true ∧ c.toBool = true := by
    intro hnf
    rcases Bool.eq_false_or_eq_true c.toBool with hb | hb
    case inr => left; unfold cast; rcases hnf with h | h <;> simp [hI, hr, hw, h, hb]
    cases hpb : parseBool s with
    | none => left; unfold cast; rcases hnf with h | h <;> simp [hI, hr, hw, h, hpb]
    | some b =>
      by_cases hcand : (c.toBool && !s.isEmpty && decide (s.length < 6)
            && (s.head? = some 't' || s.head? = some 'T' || s.head? = some 'f' || s.head? = some 'F')) = true
      · right; refine ⟨b, ?_, hr, hb⟩
        unfold cast; rcases hnf with h | h <;> simp [hI, hr, hw, h, hpb, hcand]
      · left
        unfold cast; rcases hnf with h | h <;> simp [hI, hr, hw, h, hcand]
  rcases Bool.eq_false_or_eq_true c.toFloat with hf | hf
  case inr =>
    rcases hbool (.inl hf) with h | h
    · exact .inl h
    · exact .inr (.inr h)
  cases hp : S.parseFloat s with
  | none =>
    rcases hbool (.inr hp) with h | h
    · exact .inl h
    · exact .inr (.inr h)
  | some ts =>
    obtain ⟨t, sp⟩ := ts
    by_cases hsp : (!c.nanInf && sp) = true
    · left; unfold cast; simp only [hI, hr, hw, hf, hp]; simp [hsp]
    · right; left
      refine ⟨t, sp, ?_, hr, hf, rfl, ?_⟩
      · unfold cast; simp only [hI, hr, hw, hf, hp]; simp [hsp]
      · cases hn : c.nanInf <;> cases hsp' : sp <;> simp_all
theorem cast_num_eval (S : Strconv) (c : CastCfg) (hI : c.toInt = false) (s t : Str) (sp : Bool)
    (hr : c.r = true) (hf : c.toFloat = true) (hp : S.parseFloat s = some (t, sp))
    (hn : c.nanInf = true ∨ (sp = false ∧ isNanInfWord S s = false)) :
    cast S c s [] = .num t := by
  unfold cast
  rcases hn with hn | ⟨h1, h2⟩
  · simp [hI, hr, hf, hp, hn]
  · simp [hI, hr, hf, hp, h1, h2]

theorem cast_bool_eval (S : Strconv) (c : CastCfg) (hI : c.toInt = false) (b : Bool)
    (hr : c.r = true) (hb : c.toBool = true) (hw : isNanInfWord S (boolText b) = false)
    (hp : S.parseFloat (boolText b) = none) :
    cast S c (boolText b) [] = .bool b := by
  unfold cast
  cases b
  · have h1 : parseBool (boolText false) = some false := by decide
    cases hf : c.toFloat <;> simp [hI, hr, hb, hw, hp, h1] <;> simp [boolText]
  · have h1 : parseBool (boolText true) = some true := by decide
    cases hf : c.toFloat <;> simp [hI, hr, hb, hw, hp, h1] <;> simp [boolText]

theorem dropWhile_of_all_false (p : Char → Bool) :
    ∀ (s : Str), (∀ c ∈ s, p c = false) → s.dropWhile p = s
  | [], _ => rfl
  | c :: r, h => by
      rw [List.dropWhile_cons_of_neg (by simp [h c (List.mem_cons_self ..)])]

theorem trimChars_of_none (cut : List Char) (s : Str) (h : ∀ c ∈ s, cut.contains c = false) :
    trimChars cut s = s := by
  unfold trimChars
  rw [dropWhile_of_all_false _ s h, dropWhile_of_all_false _ s.reverse (by
    intro c hc; exact h c (List.mem_reverse.1 hc)), List.reverse_reverse]

theorem trimG_of_no_ws (d : DecCfg) (s : Str)
    (h : ∀ c ∈ s, c ≠ ' ' ∧ c ≠ '\t' ∧ c ≠ '\n' ∧ c ≠ '\r' ∧ c ≠ '\x08') : trimG d s = s := by
  unfold trimG
  apply trimChars_of_none
  intro c hc
  obtain ⟨h1, h2, h3, h4, h5⟩ := h c hc
  unfold trimSet
  split <;> simp [h1, h2, h3, h4, h5]

theorem trimG_boolText (d : DecCfg) (b : Bool) : trimG d (boolText b) = boolText b := by
  apply trimG_of_no_ws
  cases b <;> simp [boolText] <;> decide

/-- with casting off every leaf is a string -/
theorem LeafLaw_of_noCast (d : DecCfg) (S : Strconv) (h : d.cast.r = false) : LeafLaw d S := by
  have hlf : ∀ s, lf d S s = .str s := by
    intro s; unfold lf cast; simp [h]
  constructor
  · intro s; rw [hlf]; rfl
  · intro s; rw [hlf s]; exact hlf _
  · intro s ht hne; rw [hlf s]; exact ⟨ht, hne⟩

/-- with float / bool casting (no integer casting) the leaf law follows from `FloatLaw` -/
theorem LeafLaw_of_FloatLaw (d : DecCfg) (S : Strconv) (hI : d.cast.toInt = false)
    (hFl : FloatLaw S) : LeafLaw d S := by
  constructor
  · intro s
    rcases cast_shape S d.cast hI s with h | ⟨t, sp, h, _⟩ | ⟨b, h, _⟩ <;>
      (unfold lf; rw [h]; rfl)
  · intro s
    rcases cast_shape S d.cast hI s with h | ⟨t, sp, h, hr, hf, hp, hn⟩ | ⟨b, h, hr, hb⟩
    · unfold lf at *; rw [h]; exact h
    · unfold lf at *
      rw [h]
      show cast S d.cast (numText t) [] = .num t
      apply cast_num_eval S d.cast hI _ t sp hr hf (hFl.reparse s t sp hp)
      rcases hn with hn | hn
      · exact .inl hn
      · subst hn
        exact .inr ⟨rfl, hFl.finite_word s t hp⟩
    · unfold lf at *
      rw [h, leafText_bool]
      exact cast_bool_eval S d.cast hI b hr hb (hFl.bool_not_word b) (hFl.bool_not_float b)
  · intro s ht hne
    rcases cast_shape S d.cast hI s with h | ⟨t, sp, h, hr, hf, hp, hn⟩ | ⟨b, h, hr, hb⟩
    · unfold lf at *; rw [h]; exact ⟨ht, hne⟩
    · unfold lf at *
      rw [h]
      have hc := hFl.clean s t sp hp
      exact ⟨trimG_of_no_ws d _ hc.2, hc.1⟩
    · unfold lf at *
      rw [h, leafText_bool]
      refine ⟨trimG_boolText d b, ?_⟩
      cases b <;> simp [boolText]

theorem LeafLaw_of (d : DecCfg) (S : Strconv) (hI : d.cast.toInt = false)
    (h : d.cast.r = true → FloatLaw S) : LeafLaw d S := by
  cases hr : d.cast.r
  · exact LeafLaw_of_noCast d S hr
  · exact LeafLaw_of_FloatLaw d S hI (h hr)

/-! ### reading `NamesOkG` / `Sym` -/

/-- under a symmetric pair, "the attribute key is recognised by the encoder" says that the
    folded local name of the attribute is non-empty -/
theorem isAttrK_attrKey (d : DecCfg) (S : Strconv) (e : EncCfg) (hs : Sym d e)
    (hne : e.attrPrefix ≠ []) (n : Str) :
    isAttrK e (attrKey d S n) = !(attrFold d S n).isEmpty := by
  rw [attrKey_eq, ← hs.pfx]; exact isAttrK_append e hne _

/-- … and with the empty prefix no key is an attribute key (so `NamesOkG` admits only
    attribute-free trees) -/
theorem isAttrK_of_empty_prefix (e : EncCfg) (h : e.attrPrefix = []) (k : Str) :
    isAttrK e k = false := by
  unfold isAttrK; simp [h]

/-- the text key is not an attribute key unless it properly extends the attribute prefix -/
theorem not_isAttrK_of_not_prefix (e : EncCfg) (k : Str)
    (h : e.attrPrefix.isPrefixOf k = false) : isAttrK e k = false := by
  unfold isAttrK; simp [h]

/-! ### towards bytes -/

/-- TB-FLOAT (bytes): the `%v` text of a float contains no character that XML escaping would
    rewrite (Go writes numbers raw) -/
structure FloatTextLaw (S : Strconv) : Prop where
  no_escape : ∀ s t sp, S.parseFloat s = some (t, sp) → escapeChars (numText t) = numText t

theorem NumPlainLaw_of (d : DecCfg) (S : Strconv) (e : EncCfg) (hI : d.cast.toInt = false)
    (hfl : d.cast.r = true → FloatLaw S ∧ FloatTextLaw S) : NumPlainLaw d S e := by
  constructor
  intro s t h
  unfold lf at h
  rcases cast_shape S d.cast hI s with h1 | ⟨t', sp, h1, hr, _, hp, _⟩ | ⟨b, h1, _⟩
  · rw [h1] at h; simp at h
  · rw [h1] at h
    obtain rfl := Val.num.inj h
    obtain ⟨hF, hT⟩ := hfl hr
    refine ⟨?_, ?_⟩
    · have := (hF.clean s t' sp hp).1
      cases hc : numText t' with
      | nil => exact absurd hc this
      | cons _ _ => rfl
    · unfold plainText escIf
      split
      · rw [hT.no_escape s t' sp hp]; simp
      · simp
  · rw [h1] at h; simp at h

/-- `mv.Xml()` on a one-entry Map whose value is not a list uses the entry as the root -/
theorem mapXml_single (e : EncCfg) (k : Str) (v : Val) (h : v.isList = false) :
    mapXml e [(k, v)] none = marshal e k v := by
  cases v with
  | list _ => simp [Val.isList] at h
  | null | bool _ | num _ | str _ | map _ => rfl

/-! ### the statement, and its executable form (for counterexamples by `decide`) -/

/-- "XML → Map → XML → Map is a fixed point at `t`" (tree level) for the pair `(d, e)` -/
def FixedPointAt (d : DecCfg) (S : Strconv) (e : EncCfg) (t : Node) : Prop :=
  ∃ root, Conv.doc d S t = .map [root] ∧
    ∃ n, encTree e root.1 root.2.norm = .ok [n] ∧ Conv.doc d S n ≈ᵥ Conv.doc d S t

/-- the same, computed -/
def fpCheck (d : DecCfg) (S : Strconv) (e : EncCfg) (t : Node) : Bool :=
  match Conv.doc d S t with
  | .map [root] =>
    (match encTree e root.1 root.2.norm with
     | .ok [n] => decide (Conv.doc d S n ≈ᵥ Conv.doc d S t)
     | _ => false)
  | _ => false

theorem fpCheck_iff (d : DecCfg) (S : Strconv) (e : EncCfg) (t : Node) :
    fpCheck d S e t = true ↔ FixedPointAt d S e t := by
  unfold fpCheck FixedPointAt
  constructor
  · intro h
    split at h
    · rename_i root hdoc
      split at h
      · rename_i n hn
        exact ⟨root, hdoc, n, hn, of_decide_eq_true h⟩
      · simp at h
    · simp at h
  · rintro ⟨root, hdoc, n, hn, heq⟩
    rw [hdoc] at heq
    simp only [hdoc, hn]
    exact decide_eq_true heq

end Mxj.EncSym
