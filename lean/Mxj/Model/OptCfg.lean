/-
  Mxj.Model.OptCfg — from the package state (Mxj.Model.Opt) to the configurations the codec
  models take: which package variable each decoder / encoder switch reads.
-/
import Mxj.Model.Opt
import Mxj.Model.Xml
import Mxj.Model.Encode
namespace Mxj.Opt
open Mxj

/-- the Map decoder's configuration in a package state (`cast` is the decoder's own argument;
    the skip-tag function is a function value, represented by its absence here) -/
def cfgOfState (st : St) (cast : Bool) : DecCfg :=
  { attrPrefix := st.attrPrefix, lowerCase := st.lowerCase, snake := st.snakeCaseKeys,
    asMap := st.decodeSimpleValuesAsMap, seqNum := st.includeTagSeqNum,
    keepSpace := st.disableTrimWhiteSpace, textK := st.textK, escDec := st.xmlEscapeCharsDecoder,
    cast := { r := cast, toInt := st.castToInt, toFloat := st.castToFloat, toBool := st.castToBool,
              nanInf := st.castNanInf, skipSet := false, skip := [] } }

/-- the Map encoder's configuration in a package state -/
def encOfState (st : St) : EncCfg :=
  { attrPrefix := st.attrPrefix, textK := st.textK, escape := st.xmlEscapeChars,
    goEmpty := st.useGoXmlEmptyElemSyntax }

/-- calls that concern the encoders, the queries or nothing the decoder reads -/
def encoderOnly : Call → Bool
  | .xmlGoEmptyElemSyntax | .xmlDefaultEmptyElemSyntax | .xmlCheckIsValid _ | .xmlEscapeChars _
  | .setFieldSeparator _ | .leafUseDotNotation _ | .setArraySize _ | .setCheckTagToSkipFunc _
  | .handleXMPPStreamTag _ => true
  | _ => false

/-- calls that concern the decoders, the queries or nothing the encoder reads -/
def decoderOnly : Call → Bool
  | .includeTagSeqNum _ | .coerceKeysToLower _ | .disableTrimWhiteSpace _ | .coerceKeysToSnakeCase _
  | .castValuesToInt _ | .handleXMPPStreamTag _ | .decodeSimpleValuesAsMap _ | .castNanInf _
  | .castValuesToFloat _ | .castValuesToBool _ | .setCheckTagToSkipFunc _ | .setFieldSeparator _
  | .leafUseDotNotation _ | .setArraySize _ | .xmlCheckIsValid _ => true
  | _ => false

end Mxj.Opt

namespace Mxj.Opt
open Mxj

/-- the effect of one call on the decoder configuration alone -/
def stepCfg (cfg : DecCfg) : Call → DecCfg
  | .setGlobalKeyMapPrefix s => { cfg with textK := rekey s cfg.textK }
  | .includeTagSeqNum b => { cfg with seqNum := tog cfg.seqNum b }
  | .coerceKeysToLower b => { cfg with lowerCase := tog cfg.lowerCase b }
  | .disableTrimWhiteSpace b => { cfg with keepSpace := match b with | none => true | some x => x }
  | .prependAttrWithHyphen v => { cfg with attrPrefix := if v then ['-'] else [] }
  | .setAttrPrefix s => { cfg with attrPrefix := s }
  | .coerceKeysToSnakeCase b => { cfg with snake := tog cfg.snake b }
  | .castValuesToInt b => { cfg with cast := { cfg.cast with toInt := tog cfg.cast.toInt b } }
  | .decodeSimpleValuesAsMap b => { cfg with asMap := tog cfg.asMap b }
  | .castNanInf b => { cfg with cast := { cfg.cast with nanInf := tog cfg.cast.nanInf b } }
  | .castValuesToFloat b => { cfg with cast := { cfg.cast with toFloat := tog cfg.cast.toFloat b } }
  | .castValuesToBool b => { cfg with cast := { cfg.cast with toBool := tog cfg.cast.toBool b } }
  | .xmlEscapeCharsDecoder b => { cfg with escDec := tog cfg.escDec b }
  | _ => cfg

end Mxj.Opt
