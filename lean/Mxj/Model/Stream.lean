/-
  Mxj.Model.Stream — io.Reader delivery schedules and the byte-level readers of mxj:
  `byteReader.ReadByte`, `teeReader.ReadByte` (xml.go) and the `getJson` scanner (json.go),
  as repaired (a read may return its last byte together with io.EOF; a (0, nil) read is
  retried; a backslash escapes exactly the next character inside a string).

  mxj always reads through a one-byte buffer, so a schedule is a list of outcomes of
  `Read(p[0:1])`; after the list the reader keeps answering (0, io.EOF).
-/
import Mxj.Model.Str
namespace Mxj.Stream
open Mxj

inductive Rd where
  | byte (b : Char) (eof : Bool)   -- (1, b, nil) / (1, b, io.EOF)
  | zero                           -- (0, nil): legal, discouraged
  | zeroEof                        -- (0, io.EOF)
  | fail                           -- (0, some other error)
  deriving Repr, DecidableEq, Inhabited

abbrev Sched := List Rd

/-- the data bytes a schedule carries, in order -/
def bytesOf : Sched → Str
  | [] => []
  | .byte b _ :: rest => b :: bytesOf rest
  | _ :: rest => bytesOf rest

inductive RdErr where
  | eof | other
  deriving Repr, DecidableEq, Inhabited

/-- `byteReader.ReadByte()` (repaired): retry on (0, nil); a byte is returned without error
    even when it came together with io.EOF (the next call reports EOF) -/
def readByte : Sched → Except RdErr Char × Sched
  | [] => (.error .eof, [])
  | .byte b _ :: rest => (.ok b, rest)
  | .zero :: rest => readByte rest
  | .zeroEof :: rest => (.error .eof, rest)
  | .fail :: rest => (.error .other, rest)

/-- all bytes `ReadByte` delivers until its first error, and that error -/
def drain : Nat → Sched → Str × RdErr
  | 0, _ => ([], .other)
  | f + 1, s => match readByte s with
      | (.ok b, rest) => let (bs, e) := drain f rest; (b :: bs, e)
      | (.error e, _) => ([], e)

/-- `teeReader.ReadByte()` (repaired): same, and every delivered byte is written to `w` -/
def teeReadByte (w : Str) (s : Sched) : Except RdErr Char × Sched × Str :=
  match readByte s with
  | (.ok b, rest) => (.ok b, rest, w ++ [b])
  | (.error e, rest) => (.error e, rest, w)

/-! ### getJson -/

structure JState where
  jb : Str := []          -- reversed
  inQuote : Bool := false
  inJson : Bool := false
  paren : Nat := 0
  escaped : Bool := false
  deriving Repr

inductive JRes where
  | doc (raw : Str)                 -- a complete {...}
  | eof (raw : Str)                 -- io.EOF with nothing pending (raw = what was collected)
  | noClose (raw : Str)             -- "no closing } for JSON string"
  | stray (raw : Str)               -- "closing } without opening {"
  | ioerr (raw : Str)
  deriving Repr, DecidableEq

def isJsonWs (c : Char) : Bool := c = '\n' || c = '\r' || c = '\t' || c = ' '

/-- the scanner loop of `getJson(rdr)`; returns the result and the unread schedule -/
def getJson : Sched → JState → JRes × Sched
  | [], st => (if st.inJson && st.paren > 0 then .noClose st.jb.reverse else .eof st.jb.reverse, [])
  | .zero :: rest, st => getJson rest st
  | .zeroEof :: rest, st =>
      (if st.inJson && st.paren > 0 then .noClose st.jb.reverse else .eof st.jb.reverse, rest)
  | .fail :: rest, st => (.ioerr st.jb.reverse, rest)
  | .byte c _ :: rest, st =>
      let wasEscaped := st.escaped
      let escaped := st.inQuote && !wasEscaped && c = '\\'
      if c = '{' then
        let st' := if !st.inQuote then { st with paren := st.paren + 1, inJson := true } else st
        getJson rest { st' with jb := (if st'.inJson then c :: st'.jb else st'.jb), escaped := escaped }
      else if c = '}' then
        if !st.inQuote && st.paren = 0 then (.stray st.jb.reverse, rest)
        else
          let p := if !st.inQuote then st.paren - 1 else st.paren
          let jb := if st.inJson then c :: st.jb else st.jb
          if st.inJson && p = 0 then (.doc jb.reverse, rest)
          else getJson rest { st with paren := p, jb := jb, escaped := escaped }
      else if c = '"' then
        let inQ := if st.inQuote then (if wasEscaped then true else false) else true
        getJson rest { st with inQuote := inQ, jb := (if st.inJson then c :: st.jb else st.jb), escaped := escaped }
      else if isJsonWs c && !st.inQuote then
        getJson rest { st with escaped := escaped }     -- `continue`: not appended
      else
        getJson rest { st with jb := (if st.inJson then c :: st.jb else st.jb), escaped := escaped }

/-- the schedule that delivers `s` one byte per read with nothing else -/
def plain (s : Str) : Sched := s.map fun c => Rd.byte c false

end Mxj.Stream
