/-
  Mxj.Model.Bulk — the loop of `HandleJsonReader(rdr, mapHandler, errHandler)` (json.go) with BOTH
  handlers.  One round is `NewMapJsonReader` = the scanner `getJson` (Mxj.Model.Stream) followed
  by `NewMapJson` (Mxj.Model.Json), exactly the two pieces of the file loop
  `Files.readMapsJson`; what differs is what is done with the outcome of a round:

      for {
        m, merr := NewMapJsonReader(rdr)
        if merr != nil && merr != io.EOF {      -- ANY non-EOF error: scanner or decoder
          if !errHandler(merr) { return merr }  -- errs+1; failed = true
          continue                              -- errs+1; go on behind the consumed bytes
        }
        if m != nil { if !mapHandler(m) { break } }
        if merr == io.EOF { break }
      }
      return nil

  The handlers are modelled by what the loop can observe of them:
    * `cont : Bool`   — the value the error handler returns (the same on every call);
    * `budget : Nat`  — the map handler returns `false` on its `budget`-th call, with
                        `budget = 0` meaning "never": it returns `true` on every call.
                        (`budget = b + 1`: the first `b` calls return `true`, call `b + 1` returns
                        `false`.  See `spend`.)
  The result records the Maps handed to the map handler, in order, the number of error-handler
  calls, and whether the function returned an error.

  Scanner errors versus decoder errors.  `getJson` reports a scanner error as one of
  `.noClose`/`.stray`/`.ioerr` together with the unread schedule (the bytes up to and including
  the offending read are consumed: a stray `}` is consumed, a (0, err) read is consumed, "no
  closing }" has consumed everything up to the (0, io.EOF) read); a decoder error is `.doc raw`
  with `newMapJson raw = none`, the unread schedule starting right behind the closing brace.  In
  all four cases Go's `merr` is a non-EOF error, so all four go to `errHandler` and, when it
  returns `true`, the loop goes on with the unread schedule.  `.eof` is `merr == io.EOF` with a
  nil Map (`NewMapJsonReader` returns `nil, err` whenever `getJson` reports an error).
-/
import Mxj.Model.Files
namespace Mxj.Files
open Mxj Mxj.Stream

/-- outcome of `HandleJsonReader`: the Maps handed to `mapHandler` (in order), the number of
    `errHandler` calls, and whether an error was returned -/
structure BulkRes where
  maps : List Val
  errs : Nat
  failed : Bool
  deriving Repr, DecidableEq

/-- the map handler's budget after one more call: `none` = this call returned `false`.
    Budget `0` is the handler that never stops; budget `b + 1` stops on call `b + 1`. -/
def spend : Nat → Option Nat
  | 0 => some 0
  | 1 => none
  | b + 2 => some (b + 1)

/-- `HandleJsonReader`: arguments are the value `cont` returned by the error handler, the fuel
    (number of rounds the model may run; running out is reported as `failed = true`, and
    `s.length + 1` rounds always suffice), the map handler's budget (see `spend`; `0` = never
    stops), the reader's schedule, the Maps handed over so far (reversed) and the number of
    error-handler calls so far -/
def handleJson (cont : Bool) : Nat → Nat → Sched → List Val → Nat → BulkRes
  | 0, _, _, acc, errs => ⟨acc.reverse, errs, true⟩
  | f + 1, b, s, acc, errs =>
    match getJson s {} with
    | (.doc raw, rest) =>
        match Json.newMapJson raw with
        | some (.map m) =>
            match spend b with
            | some b' => handleJson cont f b' rest (.map m :: acc) errs
            | none => ⟨(Val.map m :: acc).reverse, errs, false⟩      -- mapHandler said stop
        | some _ => handleJson cont f b rest acc errs                 -- JSON null: nil Map, skipped
        | none =>                                                     -- decoder error
            if cont then handleJson cont f b rest acc (errs + 1)
            else ⟨acc.reverse, errs + 1, true⟩
    | (.eof _, _) => ⟨acc.reverse, errs, false⟩                       -- io.EOF: break, return nil
    | (_, rest) =>                                                    -- scanner error
        if cont then handleJson cont f b rest acc (errs + 1)
        else ⟨acc.reverse, errs + 1, true⟩

end Mxj.Files
