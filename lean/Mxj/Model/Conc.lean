/-
  Mxj.Model.Conc — goroutines over shared read-only state.

  A call in progress is a list of atomic steps; each step may READ the shared state `g` (package
  options, the shared Map) and updates only the call's own local state (its buffers, its result).
  That the read-only API of mxj has this shape is what `C17_readonly_no_global_write` (no
  package-level variable is assigned in the static call closure) and the receiver-immutability
  oracle of the harness establish; the Go memory model then makes every read of `g` see the same
  value, which is why `g` is a constant here.  A schedule is the list of goroutine indexes in
  the order they take their next step.
-/
namespace Mxj.Conc

structure Th (G L : Type) where
  loc : L
  todo : List (G → L → L)

/-- the next step of one goroutine -/
def stepTh {G L : Type} (g : G) (t : Th G L) : Th G L :=
  match t.todo with
  | [] => t
  | s :: rest => ⟨s g t.loc, rest⟩

/-- running a goroutine alone to completion -/
def runTh {G L : Type} (g : G) (t : Th G L) : L := t.todo.foldl (fun l s => s g l) t.loc

def modifyAt {α : Type} (f : α → α) : Nat → List α → List α
  | _, [] => []
  | 0, x :: xs => f x :: xs
  | i + 1, x :: xs => x :: modifyAt f i xs

/-- one scheduler decision: goroutine `i` takes its next step (no-op when out of range or done) -/
def pick {G L : Type} (g : G) (ts : List (Th G L)) (i : Nat) : List (Th G L) :=
  modifyAt (stepTh g) i ts

/-- a whole schedule -/
def exec {G L : Type} (g : G) (ts : List (Th G L)) (schedule : List Nat) : List (Th G L) :=
  schedule.foldl (pick g) ts

def done {G L : Type} (ts : List (Th G L)) : Bool := ts.all (fun t => t.todo.isEmpty)

end Mxj.Conc
