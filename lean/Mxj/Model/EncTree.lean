/-
  Mxj.Model.EncTree — the compact Map→XML encoder of `Mxj.Model.Encode` in TREE form, and the
  vocabulary of the data-preservation properties C02/C03.

  * `encTree cfg key v` mirrors `marshalN cfg key v` clause by clause, but instead of bytes it
    produces the list of sibling elements (`Node.elem "" key attrs kids`) the bytes denote, with
    UNESCAPED attribute values and text.  `render cfg` is the canonical rendering of such a
    tree; `Mxj.Enc.marshalN_eq_render` (Lemmas/Encode.lean) says bytes = rendering of the tree.
  * `image` is what must come back when a JSON-shaped value is encoded and then decoded with
    default options (the documented conventions `Conv.value` applied to the encoder's tree).
  * `EncDomain`, `Decoded`, `NamesOk`, `coalesce` — the domains of the theorems.

  Core Lean only, executable definitions; the proofs live in Lemmas/Encode.lean and Props/.
-/
import Mxj.Model.Encode
import Mxj.Model.Conv
namespace Mxj

/-! ### the encoder as a tree builder -/

/-- the unescaped text of a value in attribute position (strings, numbers, booleans only) -/
def attrValue : Val → Option Str
  | .str s => some s
  | .num t => some (numText t)
  | .bool b => some (if b then "true".toList else "false".toList)
  | _ => none

/-- one attribute (cf. `attrText`) -/
def encAttr (cfg : EncCfg) (k : Str) (v : Val) : Except ErrKind Attr :=
  match attrValue v with
  | some s => .ok ⟨[], k.drop cfg.attrPrefix.length, s⟩
  | none => .error .other

/-- cf. `attrsText` -/
def encAttrs (cfg : EncCfg) : Entries → Except ErrKind (List Attr)
  | [] => .ok []
  | (k, v) :: rest =>
    if isAttrK cfg k then
      match encAttr cfg k v, encAttrs cfg rest with
      | .ok a, .ok r => .ok (a :: r)
      | .error e, _ => .error e
      | _, .error e => .error e
    else encAttrs cfg rest

mutual
/-- `marshalN` producing trees: a value encodes to a LIST of sibling elements (a list value
    becomes repeated elements) -/
def encTree (cfg : EncCfg) : Str → Val → Except ErrKind (List Node)
  | key, .map vv =>
      match encAttrs cfg vv with
      | .error e => .error e
      | .ok attrs =>
        let n := countAttrs cfg vv
        if n = vv.length then .ok [.elem [] key attrs []]
        else
          match lookup cfg.textK vv with
          | some tv =>
            match fmtV tv with
            | none => .error .other
            | some txt =>
              if n + 1 = vv.length then .ok [.elem [] key attrs [.text txt]]
              else
                match encElems cfg vv with
                | .error e => .error e
                | .ok kids => .ok [.elem [] key attrs (.text txt :: kids)]
          | none =>
            match encElems cfg vv with
            | .error e => .error e
            | .ok kids => .ok [.elem [] key attrs kids]
  | key, .list xs =>
      if xs.isEmpty then .ok [.elem [] key [] []]
      else encMembers cfg key xs
  | key, .null => .ok [.elem [] key [] []]
  | key, .str s => .ok [.elem [] key [] (if s.isEmpty then [] else [.text s])]
  | key, v =>
      match fmtV v with
      | some t => .ok [.elem [] key [] [.text t]]
      | none => .error .other
/-- list members: each encoded under the list's key -/
def encMembers (cfg : EncCfg) (key : Str) : List Val → Except ErrKind (List Node)
  | [] => .ok []
  | x :: xs =>
    match encTree cfg key x with
    | .error e => .error e
    | .ok a => match encMembers cfg key xs with
      | .error e => .error e
      | .ok r => .ok (a ++ r)
/-- child elements: every entry that is neither the text key nor an attribute -/
def encElems (cfg : EncCfg) : Entries → Except ErrKind (List Node)
  | [] => .ok []
  | (k, v) :: rest =>
    if k = cfg.textK || isAttrK cfg k then encElems cfg rest
    else match encTree cfg k v with
      | .error e => .error e
      | .ok a => match encElems cfg rest with
        | .error e => .error e
        | .ok r => .ok (a ++ r)
end

/-! ### canonical rendering of a tree -/

def renderAttrs (cfg : EncCfg) : List Attr → Str
  | [] => []
  | a :: as =>
      " ".toList ++ a.name ++ "=\"".toList ++ escIf cfg a.value ++ "\"".toList ++ renderAttrs cfg as

mutual
/-- `escIf cfg` on text and attribute values, attributes as ` name="value"`, an element
    without children per `endOf cfg name 0`.  (Comments, directives and processing
    instructions are never produced by the encoder; they render as nothing.) -/
def render (cfg : EncCfg) : Node → Str
  | .elem _ name attrs kids =>
      "<".toList ++ name ++ renderAttrs cfg attrs ++
        (if kids.isEmpty then endOf cfg name 0
         else ">".toList ++ renderKids cfg kids ++ closeTag name)
  | .text s => escIf cfg s
  | _ => []
def renderKids (cfg : EncCfg) : List Node → Str
  | [] => []
  | k :: ks => render cfg k ++ renderKids cfg ks
end

/-! ### the domain on which bytes = rendering: raw `%v` text must not need escaping

  Go writes numbers (and a `nil` under the text key) with `%v`, unescaped.  For the bytes to be
  the rendering of a tree the `%v` text must be escape-free and, for an element value,
  non-empty.  Real numbers always are; the model's `Val.num t` carries an arbitrary string. -/

def plainText (cfg : EncCfg) (s : Str) : Bool := escIf cfg s == s

mutual
def Plain (cfg : EncCfg) : Val → Bool
  | .num t => !(numText t).isEmpty && plainText cfg (numText t)
  | .list xs => PlainList cfg xs
  | .map kvs => PlainEntries cfg kvs
  | _ => true
def PlainList (cfg : EncCfg) : List Val → Bool
  | [] => true
  | x :: xs => Plain cfg x && PlainList cfg xs
def PlainEntries (cfg : EncCfg) : Entries → Bool
  | [] => true
  | (k, v) :: rest =>
      (match v with
        | .null => !(k = cfg.textK && cfg.escape)
        | _ => true)
      && Plain cfg v && PlainEntries cfg rest
end

end Mxj
