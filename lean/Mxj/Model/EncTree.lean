/-
  Mxj.Model.EncTree — the compact Map→XML encoder of `Mxj.Model.Encode` in TREE form, and the
  vocabulary of the data-preservation properties C02/C03.

  * `encTree cfg key v` mirrors `marshalN cfg key v` clause by clause, but instead of bytes it
    produces the list of sibling elements (`Node.elem "" key attrs kids`) the bytes denote, with
    UNESCAPED attribute values and text.  `render cfg` is the canonical rendering of such a
    tree; `Mxj.Enc.marshalN_eq_render` (Lemmas/Encode.lean) says bytes = rendering of the tree.
  * `image` is what must come back when a JSON-shaped value is encoded and then decoded with
    default options (the documented conventions `Conv.value` applied to the encoder's tree).
  * `Plain`, `EncDomain`, `Decoded`, `NamesOk`, `WellNamed` — the domains of the theorems;
    `anyTree`/`anyImage` — the same for `AnyXml`.

  Core Lean only, executable definitions; the proofs live in Lemmas/Encode.lean and Props/.
-/
import Mxj.Model.Encode
import Mxj.Model.Conv
namespace Mxj

/-! ### the encoder as a tree builder -/

/-- the unescaped text of a value in attribute position (strings, numbers, booleans only) -/
def attrValue : Val → Option Str
  | .str s => some s
  | .num t => some (numText t)
  | .bool b => some (if b then "true".toList else "false".toList)
  | _ => none

/-- one attribute (cf. `attrText`) -/
def encAttr (cfg : EncCfg) (k : Str) (v : Val) : Except ErrKind Attr :=
  match attrValue v with
  | some s => .ok ⟨[], k.drop cfg.attrPrefix.length, s⟩
  | none => .error .other

/-- cf. `attrsText` -/
def encAttrs (cfg : EncCfg) : Entries → Except ErrKind (List Attr)
  | [] => .ok []
  | (k, v) :: rest =>
    if isAttrK cfg k then
      match encAttr cfg k v, encAttrs cfg rest with
      | .ok a, .ok r => .ok (a :: r)
      | .error e, _ => .error e
      | _, .error e => .error e
    else encAttrs cfg rest

mutual
/-- `marshalN` producing trees: a value encodes to a LIST of sibling elements (a list value
    becomes repeated elements) -/
def encTree (cfg : EncCfg) : Str → Val → Except ErrKind (List Node)
  | key, .map vv =>
      match encAttrs cfg vv with
      | .error e => .error e
      | .ok attrs =>
        let n := countAttrs cfg vv
        if n = vv.length then .ok [.elem [] key attrs []]
        else
          match lookup cfg.textK vv with
          | some tv =>
            match fmtV tv with
            | none => .error .other
            | some txt =>
              if n + 1 = vv.length then .ok [.elem [] key attrs [.text txt]]
              else
                match encElems cfg vv with
                | .error e => .error e
                | .ok kids => .ok [.elem [] key attrs (.text txt :: kids)]
          | none =>
            match encElems cfg vv with
            | .error e => .error e
            | .ok kids => .ok [.elem [] key attrs kids]
  | key, .list xs =>
      if xs.isEmpty then .ok [.elem [] key [] []]
      else encMembers cfg key xs
  | key, .null => .ok [.elem [] key [] []]
  | key, .str s => .ok [.elem [] key [] (if s.isEmpty then [] else [.text s])]
  | key, v =>
      match fmtV v with
      | some t => .ok [.elem [] key [] [.text t]]
      | none => .error .other
/-- list members: each encoded under the list's key -/
def encMembers (cfg : EncCfg) (key : Str) : List Val → Except ErrKind (List Node)
  | [] => .ok []
  | x :: xs =>
    match encTree cfg key x with
    | .error e => .error e
    | .ok a => match encMembers cfg key xs with
      | .error e => .error e
      | .ok r => .ok (a ++ r)
/-- child elements: every entry that is neither the text key nor an attribute -/
def encElems (cfg : EncCfg) : Entries → Except ErrKind (List Node)
  | [] => .ok []
  | (k, v) :: rest =>
    if k = cfg.textK || isAttrK cfg k then encElems cfg rest
    else match encTree cfg k v with
      | .error e => .error e
      | .ok a => match encElems cfg rest with
        | .error e => .error e
        | .ok r => .ok (a ++ r)
end

/-! ### canonical rendering of a tree -/

def renderAttrs (cfg : EncCfg) : List Attr → Str
  | [] => []
  | a :: as =>
      " ".toList ++ a.name ++ "=\"".toList ++ escIf cfg a.value ++ "\"".toList ++ renderAttrs cfg as

mutual
/-- `escIf cfg` on text and attribute values, attributes as ` name="value"`, an element
    without children per `endOf cfg name 0`.  (Comments, directives and processing
    instructions are never produced by the encoder; they render as nothing.) -/
def render (cfg : EncCfg) : Node → Str
  | .elem _ name attrs kids =>
      "<".toList ++ name ++ renderAttrs cfg attrs ++
        (if kids.isEmpty then endOf cfg name 0
         else ">".toList ++ renderKids cfg kids ++ closeTag name)
  | .text s => escIf cfg s
  | _ => []
def renderKids (cfg : EncCfg) : List Node → Str
  | [] => []
  | k :: ks => render cfg k ++ renderKids cfg ks
end

/-! ### the domain on which bytes = rendering: raw `%v` text must not need escaping

  Go writes numbers (and a `nil` under the text key) with `%v`, unescaped.  For the bytes to be
  the rendering of a tree the `%v` text must be escape-free and, for an element value,
  non-empty.  Real numbers always are; the model's `Val.num t` carries an arbitrary string. -/

def plainText (cfg : EncCfg) (s : Str) : Bool := escIf cfg s == s

/-- a `nil` under the text key is written as the raw text `<nil>` -/
def nullTextOk (cfg : EncCfg) (k : Str) : Val → Bool
  | .null => !(k = cfg.textK && cfg.escape)
  | _ => true

mutual
def Plain (cfg : EncCfg) : Val → Bool
  | .num t => !(numText t).isEmpty && plainText cfg (numText t)
  | .list xs => PlainList cfg xs
  | .map kvs => PlainEntries cfg kvs
  | _ => true
def PlainList (cfg : EncCfg) : List Val → Bool
  | [] => true
  | x :: xs => Plain cfg x && PlainList cfg xs
def PlainEntries (cfg : EncCfg) : Entries → Bool
  | [] => true
  | (k, v) :: rest =>
      nullTextOk cfg k v && Plain cfg v && PlainEntries cfg rest
end

/-! ### what comes back: the image of a value under encode-then-decode (default options) -/

namespace Enc
/-- the default decoder configuration (attribute prefix "-", text key "#text", no cast, trim) -/
def dc : DecCfg := {}
/-- the default encoder configuration with value escaping on -/
def ec : EncCfg := { escape := true }
end Enc
open Enc

/-- `strings.Trim` with the default cut set of the decoder -/
def trimD (s : Str) : Str := trimChars (trimSet dc) s

/-- the `%v` text of a value in leaf position (`""` for lists and maps, which never sit there) -/
def leafText (v : Val) : Str := (fmtV v).getD []

/-- several values under one key become a list, a single one stays itself -/
def collectV : List Val → Val
  | [x] => x
  | xs => .list xs

/-- attribute entries come back as strings (untrimmed) under the same key -/
def imageAttrs : Entries → Entries
  | [] => []
  | (k, v) :: rest =>
      if isAttrK ec k then (k, .str ((attrValue v).getD [])) :: imageAttrs rest
      else imageAttrs rest

/-- the text-key entry comes back trimmed, and not at all when that leaves nothing -/
def imageText (kvs : Entries) : Option Str :=
  match lookup ec.textK kvs with
  | some tv => if (trimD (leafText tv)).isEmpty then none else some (trimD (leafText tv))
  | none => none

/-- an element with nothing in it is `""`; with only text it is the text; otherwise a map -/
def finishImage (base : Entries) (txt : Option Str) : Val :=
  match txt with
  | none => if base.isEmpty then .str [] else .map base
  | some t => if base.isEmpty then .str t else .map (base ++ [(ec.textK, .str t)])

mutual
/-- the values a value contributes under its key, as repeated siblings in order -/
def imageSibs : Val → List Val
  | .list xs => if xs.isEmpty then [.str []] else imageMembers xs
  | .map kvs => [finishImage (imageAttrs kvs ++ imageElems kvs) (imageText kvs)]
  | .null => [.str []]
  | .str s => [.str (trimD s)]
  | .num t => [.str (trimD (numText t))]
  | .bool b => [.str (trimD (leafText (.bool b)))]
/-- nested lists are flattened: every member contributes its own siblings -/
def imageMembers : List Val → List Val
  | [] => []
  | x :: xs => imageSibs x ++ imageMembers xs
/-- entries that are neither attributes nor the text key: imaged and grouped under their key -/
def imageElems : Entries → Entries
  | [] => []
  | (k, v) :: rest =>
      if k = ec.textK || isAttrK ec k then imageElems rest
      else (k, collectV (imageSibs v)) :: imageElems rest
end

/-- what a value stored under some key comes back as -/
def image (v : Val) : Val := collectV (imageSibs v)

/-- … seen from the parent: the one-entry map `{key: image v}` -/
def imageUnder (key : Str) (v : Val) : Val := .map [(key, image v)]

/-- the decoding conventions applied to a sequence of sibling trees: every element's value
    (`Conv.value`) under its key, repeated keys grouped into lists in document order -/
def siblingsValue (cfg : DecCfg) (S : Strconv) (ns : List Node) : Val :=
  .map (Conv.groupOnto [] (Conv.childVals cfg S 0 ns))

/-! ### domains -/

/-- a string, number or boolean -/
def isScalar (v : Val) : Bool := (attrValue v).isSome

mutual
/-- the values the encoder accepts (and then round-trips to `image`): maps have distinct keys,
    attribute values and text-key values are scalars -/
def EncDomain : Val → Bool
  | .list xs => EncDomainList xs
  | .map kvs => distinctKeys kvs && EncDomainEntries kvs
  | _ => true
def EncDomainList : List Val → Bool
  | [] => true
  | x :: xs => EncDomain x && EncDomainList xs
def EncDomainEntries : Entries → Bool
  | [] => true
  | (k, v) :: rest =>
      (if isAttrK ec k || k = ec.textK then isScalar v else EncDomain v) && EncDomainEntries rest
end

/-- `s` is already trimmed -/
def trimmed (s : Str) : Bool := trimD s == s

def isStr : Val → Bool
  | .str _ => true
  | _ => false

/-- a text-key entry the decoder can have produced: a non-empty trimmed string -/
def textEntryOk : Val → Bool
  | .str s => trimmed s && !s.isEmpty
  | _ => false

mutual
/-- the shape of what the decoder stores under a key (default options): a trimmed string; a
    map that is non-empty, has distinct keys and more than just a text entry, whose attribute
    entries are strings, whose text entry is a non-empty trimmed string and whose other entries
    are again of this shape; or a list of at least two such non-list values -/
def DecodedChild : Val → Bool
  | .str s => trimmed s
  | .map kvs => distinctKeys kvs && kvs.any (fun e => e.1 != ec.textK) && DecodedEntries kvs
  | .list xs => decide (2 ≤ xs.length) && DecodedList xs
  | _ => false
def DecodedList : List Val → Bool
  | [] => true
  | x :: xs => !x.isList && DecodedChild x && DecodedList xs
def DecodedEntries : Entries → Bool
  | [] => true
  | (k, v) :: rest =>
      (if isAttrK ec k then isStr v
       else if k = ec.textK then textEntryOk v
       else DecodedChild v)
      && DecodedEntries rest
end

/-- the shape of an element's value: as above, but not a list -/
def Decoded (v : Val) : Bool := !v.isList && DecodedChild v

mutual
/-- names of a tree that survive decode → encode with default options: attribute names are
    non-empty, and no child element's name is an attribute key (prefix "-" plus at least one
    character — never the case for an XML name, which cannot start with '-') -/
def NamesOk : Node → Bool
  | .elem _ _ attrs kids => attrs.all (fun a => !a.name.isEmpty) && NamesOkKids kids
  | _ => true
def NamesOkKids : List Node → Bool
  | [] => true
  | .elem sp name attrs kids :: rest =>
      !isAttrK ec name && NamesOk (.elem sp name attrs kids) && NamesOkKids rest
  | _ :: rest => NamesOkKids rest
end

/-! ### trees the tokenizer law (TB-XML) speaks about -/

def isXmlNameStart (c : Char) : Bool := c.isAlpha || c = '_'
def isXmlNameChar (c : Char) : Bool := c.isAlpha || c.isDigit || c = '_' || c = '-' || c = '.'

/-- a (conservative, ASCII, colon-free) XML name -/
def xmlNameOk : Str → Bool
  | [] => false
  | c :: r => isXmlNameStart c && r.all isXmlNameChar

/-- character data / attribute values that come back from the tokenizer unchanged: XML
    characters only, and no '\r' (which the tokenizer rewrites to '\n') -/
def xmlCharsOk (s : Str) : Bool := s.all (fun c => xmlCharOk c.toNat && c != '\r')

mutual
/-- canonical, well-named trees: empty name spaces, XML names, round-trippable characters,
    no empty text node, only elements and text -/
def wellNamedNode : Node → Bool
  | .elem sp name attrs kids =>
      sp.isEmpty && xmlNameOk name
      && attrs.all (fun a => a.space.isEmpty && xmlNameOk a.name && xmlCharsOk a.value)
      && wellNamedKids kids
  | .text s => !s.isEmpty && xmlCharsOk s
  | _ => false
def wellNamedKids : List Node → Bool
  | [] => true
  | k :: ks => wellNamedNode k && wellNamedKids ks
end

/-- … and no two adjacent text nodes (the tokenizer would hand them over as one) -/
def WellNamed (n : Node) : Bool := wellNamedNode n && noAdjText n

/-! ### `AnyXml` in tree form -/

/-- one member of a top-level list: a single-entry map `{tag: val}` whose key can be an element
    name is unwrapped (element `tag`), anything else goes under the element tag `et` -/
def anyMember (cfg : EncCfg) (et : Str) (x : Val) : Except ErrKind (List Node) :=
  match x with
  | .map [(tag, val)] =>
      if tag = cfg.textK || isAttrK cfg tag then encTree cfg et x.norm
      else encTree cfg tag val.norm
  | x => encTree cfg et x.norm

def anyMembers (cfg : EncCfg) (et : Str) : List Val → Except ErrKind (List Node)
  | [] => .ok []
  | x :: rest =>
    match anyMember cfg et x with
    | .error e => .error e
    | .ok a => match anyMembers cfg et rest with
      | .error e => .error e
      | .ok r => .ok (a ++ r)

/-- `anyXml` producing trees (an empty top-level list is written `<rt></rt>`: an element with
    an empty text child in the canonical rendering) -/
def anyTree (cfg : EncCfg) (v : Val) (rt et : Str) : Except ErrKind (List Node) :=
  match v with
  | .null => .ok [.elem [] rt [] []]
  | .list xs =>
      match anyMembers cfg et xs with
      | .error e => .error e
      | .ok kids => .ok [.elem [] rt [] (if kids.isEmpty then [.text []] else kids)]
  | v => encTree cfg rt v.norm

/-- the `(key, value)` sequence the members of a top-level list decode to -/
def anyPairs (et : Str) : List Val → List (Str × Val)
  | [] => []
  | x :: rest =>
      (match x with
        | .map [(tag, val)] =>
            if tag = ec.textK || isAttrK ec tag then (imageSibs x.norm).map (et, ·)
            else (imageSibs val.norm).map (tag, ·)
        | x => (imageSibs x.norm).map (et, ·))
      ++ anyPairs et rest

/-- what `AnyXml(v, rt, et)` decodes to under the root tag: for a list, the members' images
    under their tags, grouped by the decoder's own grouping of repeated keys; otherwise the
    image of the value -/
def anyImage (v : Val) (et : Str) : Val :=
  match v with
  | .list xs =>
      if (Conv.groupOnto [] (anyPairs et xs)).isEmpty then .str []
      else .map (Conv.groupOnto [] (anyPairs et xs))
  | v => image v.norm

end Mxj
