/-
  Mxj.Model.Json — model of json.go: `Map.Json` (encoding/json's encoder for JSON-shaped
  values; repaired code asks the encoder not to escape HTML characters instead of rewriting
  the output bytes), `NewMapJson` (first-value decoding, a leading '[' returned under "object", empty input),
  and the JSON text grammar as encoding/json implements it (trusted-base model, sampled).
  Numbers are opaque literals: `Val.num ("jn:" ++ text)`.
-/
import Mxj.Model.Perm
import Mxj.Model.Str
namespace Mxj.Json
open Mxj

def hexDigitLower (n : Nat) : Char :=
  if n < 10 then Char.ofNat ('0'.toNat + n) else Char.ofNat ('a'.toNat + n - 10)

def u4 (n : Nat) : Str :=
  ['\\', 'u', hexDigitLower (n / 4096 % 16), hexDigitLower (n / 256 % 16),
   hexDigitLower (n / 16 % 16), hexDigitLower (n % 16)]

/-- one character of a string literal as encoding/json writes it (`html` = EscapeHTML) -/
def quoteChar (html : Bool) (c : Char) : Str :=
  if c = '"' then ['\\', '"']
  else if c = '\\' then ['\\', '\\']
  else if c = '\n' then ['\\', 'n']
  else if c = '\r' then ['\\', 'r']
  else if c = '\t' then ['\\', 't']
  else if c = '\x08' then ['\\', 'b']
  else if c = '\x0c' then ['\\', 'f']
  else if c.toNat < 0x20 then u4 c.toNat
  else if html && (c = '<' || c = '>' || c = '&') then u4 c.toNat
  else if c.toNat = 0x2028 || c.toNat = 0x2029 then u4 c.toNat
  else [c]

def quote (html : Bool) (s : Str) : Str := ['"'] ++ s.flatMap (quoteChar html) ++ ['"']

def numLit (t : Str) : Str := (t.dropWhile (· ≠ ':')).drop 1

mutual
/-- compact encoding of a value whose maps are already key-sorted -/
def encN (html : Bool) : Val → Str
  | .null => "null".toList
  | .bool true => "true".toList
  | .bool false => "false".toList
  | .num t => numLit t
  | .str s => quote html s
  | .list xs => ['['] ++ encList html xs ++ [']']
  | .map kvs => ['{'] ++ encEntries html kvs ++ ['}']
def encList (html : Bool) : List Val → Str
  | [] => []
  | [x] => encN html x
  | x :: y :: rest => encN html x ++ [','] ++ encList html (y :: rest)
def encEntries (html : Bool) : Entries → Str
  | [] => []
  | [(k, v)] => quote html k ++ [':'] ++ encN html v
  | (k, v) :: e :: rest => quote html k ++ [':'] ++ encN html v ++ [','] ++ encEntries html (e :: rest)
end

/-- `mv.Json(safeEncoding)` : keys sorted, HTML characters escaped only when `safe` -/
def mapJson (safe : Bool) (m : Val) : Str := encN safe m.norm

/-! ### the text grammar -/

def isWs (c : Char) : Bool := c = ' ' || c = '\t' || c = '\n' || c = '\r'
def skipWs (s : Str) : Str := s.dropWhile isWs

def hex4 : Str → Option (Nat × Str)
  | a :: b :: c :: d :: rest =>
      match hexDigitVal' a, hexDigitVal' b, hexDigitVal' c, hexDigitVal' d with
      | some w, some x, some y, some z => some (w * 4096 + x * 256 + y * 16 + z, rest)
      | _, _, _, _ => none
  | _ => none
where hexDigitVal' (c : Char) : Option Nat :=
  if '0' ≤ c ∧ c ≤ '9' then some (c.toNat - '0'.toNat)
  else if 'a' ≤ c ∧ c ≤ 'f' then some (c.toNat - 'a'.toNat + 10)
  else if 'A' ≤ c ∧ c ≤ 'F' then some (c.toNat - 'A'.toNat + 10)
  else none

/-- the body of a string literal after the opening quote → (decoded, rest after closing quote) -/
def strBody : Nat → Str → Str → Option (Str × Str)
  | 0, _, _ => none
  | _ + 1, [], _ => none
  | _ + 1, '"' :: rest, acc => some (acc.reverse, rest)
  | f + 1, '\\' :: c :: rest, acc =>
      if c = '"' then strBody f rest ('"' :: acc)
      else if c = '\\' then strBody f rest ('\\' :: acc)
      else if c = '/' then strBody f rest ('/' :: acc)
      else if c = 'b' then strBody f rest ('\x08' :: acc)
      else if c = 'f' then strBody f rest ('\x0c' :: acc)
      else if c = 'n' then strBody f rest ('\n' :: acc)
      else if c = 'r' then strBody f rest ('\r' :: acc)
      else if c = 't' then strBody f rest ('\t' :: acc)
      else if c = 'u' then
        match hex4 rest with
        | none => none
        | some (n, rest') =>
          if 0xD800 ≤ n && n < 0xDC00 then
            -- high surrogate: combine with a following \uDC00-\uDFFF, else U+FFFD
            match rest' with
            | '\\' :: 'u' :: r2 => match hex4 r2 with
                | some (m, r3) =>
                    if 0xDC00 ≤ m && m < 0xE000 then
                      strBody f r3 (Char.ofNat (0x10000 + (n - 0xD800) * 1024 + (m - 0xDC00)) :: acc)
                    else strBody f rest' (Char.ofNat 0xFFFD :: acc)
                | none => none
            | _ => strBody f rest' (Char.ofNat 0xFFFD :: acc)
          else if 0xDC00 ≤ n && n < 0xE000 then strBody f rest' (Char.ofNat 0xFFFD :: acc)
          else strBody f rest' (Char.ofNat n :: acc)
      else none
  | _ + 1, ['\\'], _ => none
  | f + 1, c :: rest, acc => if c.toNat < 0x20 then none else strBody f rest (c :: acc)

def digits1 (s : Str) : Option (Str × Str) :=
  let ds := s.takeWhile isDigit
  if ds.isEmpty then none else some (ds, s.dropWhile isDigit)

/-- a number literal at the head of `s` → (literal, rest) -/
def numberLit (s : Str) : Option (Str × Str) :=
  let (sign, s1) := match s with | '-' :: r => (['-'], r) | r => ([], r)
  let intPart : Option (Str × Str) := match s1 with
    | '0' :: r => some (['0'], r)
    | _ => match digits1 s1 with
      | some (ds, r) => some (ds, r)
      | none => none
  match intPart with
  | none => none
  | some (ip, s2) =>
    let frac : Option (Str × Str) := match s2 with
      | '.' :: r => match digits1 r with
          | some (ds, r') => some ('.' :: ds, r')
          | none => none
      | r => some ([], r)
    match frac with
    | none => none
    | some (fp, s3) =>
      let exp : Option (Str × Str) := match s3 with
        | e :: r => if e = 'e' || e = 'E' then
              let (sg, r1) := match r with
                | '+' :: r' => (['+'], r')
                | '-' :: r' => (['-'], r')
                | r' => ([], r')
              match digits1 r1 with
              | some (ds, r2) => some (e :: sg ++ ds, r2)
              | none => none
            else some ([], s3)
        | [] => some ([], [])
      match exp with
      | none => none
      | some (ep, s4) => some (sign ++ ip ++ fp ++ ep, s4)

mutual
/-- one JSON value at the head of `s` (leading white space allowed) → (value, rest) -/
def value : Nat → Str → Option (Val × Str)
  | 0, _ => none
  | f + 1, s =>
    match skipWs s with
    | '{' :: r => match skipWs r with
        | '}' :: r' => some (.map [], r')
        | r' => members f r' []
    | '[' :: r => match skipWs r with
        | ']' :: r' => some (.list [], r')
        | r' => elements f r' []
    | '"' :: r => (strBody (r.length + 1) r []).map fun (t, r') => (.str t, r')
    | 't' :: 'r' :: 'u' :: 'e' :: r => some (.bool true, r)
    | 'f' :: 'a' :: 'l' :: 's' :: 'e' :: r => some (.bool false, r)
    | 'n' :: 'u' :: 'l' :: 'l' :: r => some (.null, r)
    | r => (numberLit r).map fun (t, r') => (.num ("jn:".toList ++ t), r')
/-- `value (, value)* ]` -/
def elements : Nat → Str → List Val → Option (Val × Str)
  | 0, _, _ => none
  | f + 1, s, acc =>
    match value f s with
    | none => none
    | some (v, r) => match skipWs r with
      | ',' :: r' => elements f r' (v :: acc)
      | ']' :: r' => some (.list (v :: acc).reverse, r')
      | _ => none
/-- `string : value (, string : value)* }` — a repeated key keeps the last value -/
def members : Nat → Str → Entries → Option (Val × Str)
  | 0, _, _ => none
  | f + 1, s, acc =>
    match skipWs s with
    | '"' :: r => match strBody (r.length + 1) r [] with
      | none => none
      | some (k, r1) => match skipWs r1 with
        | ':' :: r2 => match value f r2 with
          | none => none
          | some (v, r3) => match skipWs r3 with
            | ',' :: r4 => members f r4 (insert k v acc)
            | '}' :: r4 => some (.map (insert k v acc), r4)
            | _ => none
        | _ => none
    | _ => none
end

/-- `json.NewDecoder(b).Decode(&v)`: the first value; trailing bytes are not looked at -/
def firstValue (s : Str) : Option Val := (value (s.length + 1) s).map (·.1)

/-- the key under which `NewMapJson` returns a top-level array, as an explicit character list -/
def objKey : Str := ['o', 'b', 'j', 'e', 'c', 't']

/-- `NewMapJson(jsonVal)` with `JsonUseNumber` on: `none` = error.
    Empty input is the empty Map.  When the first non-white-space byte is '[' the FIRST VALUE is
    decoded on its own (`json.Decoder.Decode(&v)` into an `interface{}`) and returned as
    `Map{"object": v}`; a decoding error is the error.  Otherwise the first value is decoded into
    the Map: an object is accepted, `null` leaves a nil Map and no error, anything else is an
    error.  Bytes behind the first value are never looked at in either branch.
    (Before the repair of F-JSON-ARRAYTAIL the array branch decoded the text
    `{"object":` ++ input ++ `}`, so the bytes behind the array were parsed inside the wrapper.) -/
def newMapJson (s : Str) : Option Val :=
  if s.isEmpty then some (.map [])
  else if (skipWs s).head? = some '[' then
    (firstValue s).map fun v => .map [(objKey, v)]
  else
    match firstValue s with
    | some (.map m) => some (.map m)
    | some .null => some .null          -- a nil Map and no error
    | _ => none

end Mxj.Json
