/-
  Mxj.Model.Mutate — model of set.go, remove.go, rename.go (SetValueForPath, Remove,
  RenameKey).  Go mutates the receiver in place through aliased inner maps; the model
  returns the new tree.  An `Except.error` means "error returned, receiver untouched"
  (the correspondence check compares the receiver after the call in both cases).
-/
import Mxj.Model.Leaf
namespace Mxj

/-- locations (segment paths from the root) of the values `walk none` yields, same order.
    Only wildcard-free key lists are meaningful (map iteration order is not modelled). -/
def walkLoc : Val → List Str → List (List Seg)
  | .list xs, [] => (List.range xs.length).map fun i => [Seg.idx i]
  | _, [] => [[]]
  | .map kvs, k :: ks =>
      match lookup k kvs with
      | some v => (walkLoc v ks).map (Seg.key k :: ·)
      | none => []
  | .list xs, k :: ks =>
      (xs.zipIdx).flatMap fun (x, i) => match x with
        | .map kvs => match lookup k kvs with
            | some v => (walkLoc v ks).map fun l => Seg.idx i :: Seg.key k :: l
            | none => []
        | _ => []
  | _, _ :: _ => []
termination_by _ ks => ks.length
decreasing_by all_goals simp_wf <;> omega

def listSet (xs : List Val) (i : Nat) (v : Val) : List Val := xs.set i v

/-- the value at a location -/
def getLoc : Val → List Seg → Option Val
  | v, [] => some v
  | .map kvs, .key k :: rest => match lookup k kvs with
      | some v => getLoc v rest
      | none => none
  | .list xs, .idx i :: rest => match xs[i]? with
      | some v => getLoc v rest
      | none => none
  | _, _ => none

/-- apply `f` to the map entries found at a location (in-place mutation of that inner map) -/
def updLoc (f : Entries → Entries) : Val → List Seg → Val
  | .map kvs, [] => .map (f kvs)
  | .map kvs, .key k :: rest => match lookup k kvs with
      | some v => .map (insert k (updLoc f v rest) kvs)
      | none => .map kvs
  | .list xs, .idx i :: rest => match xs[i]? with
      | some v => .list (xs.set i (updLoc f v rest))
      | none => .list xs
  | v, _ => v

def pathHasWild (ks : List Str) : Bool := ks.any (· = ['*'])

/-- `mv.SetValueForPath(value, path)` for paths without `[` and without wildcards in the
    parent part (outside that the driver answers `na`).  Repaired code: a parent that is not
    a map is an error instead of a failed type assertion. -/
def setValueForPath (m : Val) (value : Val) (path : Str) : Except ErrKind Val :=
  let pathAry := splitDot path
  let parentKeys := pathKeys (joinDot pathAry.dropLast)
  let key := pathAry.getLast?.getD []
  match (walkLoc m parentKeys).head? with
  | none => .error .pathNotExist
  | some loc =>
    match getLoc m loc with
    | some .null => .ok m                      -- documented no-op on a nil parent
    | some (.map _) => .ok (updLoc (insert key value) m loc)
    | _ => .error .notAMap

/-- `prevValueByPath(m, path)` as a location through nested maps only -/
def prevLoc : Val → List Str → Option (List Seg)
  | .map kvs, [k] => if (lookup k kvs).isSome then some [] else none
  | .map kvs, k :: k' :: ks => match lookup k kvs with
      | some v => (prevLoc v (k' :: ks)).map (Seg.key k :: ·)
      | none => none
  | _, _ => none

/-- `mv.Remove(path)` -/
def removePath (m : Val) (path : Str) : Except ErrKind Val :=
  let keys := splitDot path
  match prevLoc m keys with
  | none => .error .prevNotFound
  | some loc => .ok (updLoc (erase (keys.getLast?.getD [])) m loc)

def parentPathOf (path : Str) : Str := joinDot (splitDot path).dropLast
def lastKeyOf (path : Str) : Str := (splitDot path).getLast?.getD []

/-- the in-place `val[newName] = val[oldName]; delete(val, oldName)` -/
def renameEntries (oldName newName : Str) (kvs : Entries) : Entries :=
  match lookup oldName kvs with
  | some v => erase oldName (insert newName v kvs)
  | none => erase oldName (insert newName .null kvs)

/-- `mv.RenameKey(path, newName)` (repaired: the sibling test at the top level uses `newName`
    itself rather than `"." + newName`).  `ex` stands for `mv.Exists`. -/
def renameKey (ex : Val → Str → Except ErrKind Bool) (m : Val) (path newName : Str) :
    Except ErrKind Val :=
  match ex m path with
  | .error e => .error e
  | .ok false => .error .renameNotFound
  | .ok true =>
    let pp := parentPathOf path
    let newPath := if pp.isEmpty then newName else pp ++ ['.'] ++ newName
    match ex m newPath with
    | .error e => .error e
    | .ok true => .error .renameExists
    | .ok false =>
      match prevLoc m (splitDot path) with
      | none => .error .prevNotFound
      | some loc => .ok (updLoc (renameEntries (lastKeyOf path) newName) m loc)

def existsNoSubs (m : Val) (p : Str) : Except ErrKind Bool :=
  pathExists [':'] (fun _ => none) m p []

end Mxj

namespace Mxj

/-! ### the simple abstract map algebra the three operations are specified against -/

/-- value at a key path through nested maps only -/
def getPath : Val → List Str → Option Val
  | v, [] => some v
  | .map kvs, k :: ks => match lookup k kvs with
      | some v => getPath v ks
      | none => none
  | _, _ :: _ => none

/-- set the entry at a key path through nested maps (parents must exist and be maps) -/
def setPath (nv : Val) : Val → List Str → Val
  | .map kvs, [k] => .map (insert k nv kvs)
  | .map kvs, k :: k' :: ks => match lookup k kvs with
      | some v => .map (insert k (setPath nv v (k' :: ks)) kvs)
      | none => .map kvs
  | v, _ => v

/-- remove the entry at a key path through nested maps -/
def erasePath : Val → List Str → Val
  | .map kvs, [k] => .map (erase k kvs)
  | .map kvs, k :: k' :: ks => match lookup k kvs with
      | some v => .map (insert k (erasePath v (k' :: ks)) kvs)
      | none => .map kvs
  | v, _ => v

mutual
def noEmptyList : Val → Bool
  | .list xs => !xs.isEmpty && noEmptyListL xs
  | .map kvs => noEmptyListE kvs
  | _ => true
def noEmptyListL : List Val → Bool
  | [] => true
  | x :: xs => noEmptyList x && noEmptyListL xs
def noEmptyListE : Entries → Bool
  | [] => true
  | (_, v) :: rest => noEmptyList v && noEmptyListE rest
end

end Mxj
