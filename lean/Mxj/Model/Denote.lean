/-
  Mxj.Model.Denote — declarative ("frontier") semantics of a dot / wildcard / indexed
  path, written independently of the walker in Mxj.Model.Path.  This is the *specification*
  side of C07: `ValuesForPath` must return exactly `Denote.path`.
-/
import Mxj.Model.Path
namespace Mxj.Denote
open Mxj

inductive Step where
  | key (k : Str)
  | wild
  | idx (k : Str) (i : Nat)
  deriving Repr, DecidableEq, Inhabited

/-- a list stands for all of its members -/
def expand : Val → List Val
  | .list xs => xs
  | v => [v]

/-- what map entry `k` selects from one reached value -/
def selKey (k : Str) : Val → List Val
  | .map kvs => (lookup k kvs).toList
  | _ => []

/-- plain key: that entry of every map reached; a list met on the way stands for its members -/
def stepKey (k : Str) (v : Val) : List Val :=
  match v with
  | .list xs => xs.flatMap (selKey k)
  | v => selKey k v

/-- every entry of one reached value; non-map list members are selected themselves -/
def selAll : Val → List Val
  | .map kvs => kvs.map (·.2)
  | _ => []

def stepWild (v : Val) : List Val :=
  match v with
  | .list xs => xs.flatMap fun x => match x with
      | .map kvs => kvs.map (·.2)
      | y => [y]
  | v => selAll v

/-- `k[i]`: for one parent map, the i-th of the values `k` alone would yield -/
def pick (k : Str) (i : Nat) : Val → List Val
  | .map kvs => (((selKey k (.map kvs)).flatMap expand)[i]?).toList
  | _ => []

def run : List Step → List Val → List Val
  | [], fr => fr
  | .key k :: rest, fr => run rest (fr.flatMap (stepKey k))
  | .wild :: rest, fr => run rest (fr.flatMap stepWild)
  | .idx k i :: rest, fr => run rest ((fr.flatMap expand).flatMap (pick k i))

def lastIsIdx : List Step → Bool
  | [] => false
  | [.idx _ _] => true
  | [_] => false
  | _ :: rest => lastIsIdx rest

/-- the values a path denotes on `m` (before sub-key filtering): a final list is returned
    as its members, except that an indexed last step already names one member -/
def path (steps : List Step) (m : Val) : List Val :=
  let fr := run steps [m]
  if lastIsIdx steps then fr else fr.flatMap expand

def plainStep (k : Str) : Step := if k = ['*'] then .wild else .key k

def keyStep (k : Key) : Step :=
  if k.isArray then .idx k.name k.position else plainStep k.name

/-- sub-key arguments only filter -/
def subFilter (subs : Option SubKeys) (vs : List Val) : List Val :=
  match subs with
  | none => vs
  | some s => vs.filter fun v => hasSubKeys v s

mutual
/-- no list directly inside a list -/
def noListInList : Val → Bool
  | .list xs => noLL_members xs
  | .map kvs => noLL_entries kvs
  | _ => true
def noLL_members : List Val → Bool
  | [] => true
  | .list _ :: _ => false
  | x :: xs => noListInList x && noLL_members xs
def noLL_entries : Entries → Bool
  | [] => true
  | (_, v) :: rest => noListInList v && noLL_entries rest
end

/-- indexed steps the property speaks about: a non-empty, non-wildcard key -/
def idxOk (k : Key) : Bool := !k.isArray || (k.name ≠ ['*'] && !k.name.isEmpty)

/-- The specification of `ValuesForPath` on inputs the property quantifies over;
    `none` = outside the domain (argument error, index on a wildcard/empty key, or an
    indexed path on a Map with a list directly inside a list). -/
def valuesForPath (fieldSep : Str) (pf : Str → Option Str)
    (m : Val) (p : Str) (subkeys : List Str) : Option (List Val) :=
  match subKeyArg fieldSep pf subkeys with
  | .error _ => none
  | .ok subs =>
    if !p.contains '[' then
      some (subFilter subs (path ((pathKeys p).map plainStep) m))
    else match parsePath p with
      | .error _ => none
      | .ok keys =>
        if keys.all idxOk && noListInList m then
          some (subFilter subs (path (keys.map keyStep) m))
        else none

end Mxj.Denote
