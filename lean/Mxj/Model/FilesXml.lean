/-
  Mxj.Model.FilesXml — the XML side of files.go and of the XML stream readers, at token level.

  `NewMapsFromXmlFile` (and `HandleXmlReader`) call `NewMapXmlReader` on the same reader until
  io.EOF.  Each call creates a fresh `xml.Decoder` over a byte-at-a-time reader, so the next call
  starts at the byte after the previous root's end tag: on the token stream of the whole file this
  is `decodeTop` applied again to the tokens it left unread.  (That the tokens of the concatenated
  bytes are the concatenated tokens of the documents, and that the decoder reads no byte beyond
  the end tag, is the trusted tokenizer law TB-XML-stop; the harness samples it on every run.)
-/
import Mxj.Model.Decode
import Mxj.Model.Files
namespace Mxj.Files
open Mxj

/-- `NewMapsFromXmlFile` / the loop of `HandleXmlReader` on the token stream of the file:
    a decoded Map is appended; io.EOF (no further start element) ends the loop normally; any
    other outcome returns the Maps read so far together with the error -/
def readMapsXml (cfg : DecCfg) (S : Strconv) (fin : StreamEnd) :
    Nat → List Tok → List Val → ReadRes
  | 0, _, acc => ⟨acc.reverse, true⟩
  | f + 1, toks, acc =>
    match decodeTop cfg S fin (toks.length + 1) toks with
    | .ok (v, rest) => readMapsXml cfg S fin f rest (v :: acc)
    | .eof => ⟨acc.reverse, false⟩
    | _ => ⟨acc.reverse, true⟩

end Mxj.Files
