/-
  Mxj.Model.Perm — Go maps have no order.  `Val.norm` sorts the entries of every map by key;
  `a ≈ b` (`Val.equiv`) is "equal up to the order of map entries at every level".  Theorems
  about values Go builds by ranging over a map are stated up to `≈`.
-/
import Mxj.Model.Val
namespace Mxj

/-- lexicographic order on strings by code point -/
def strLe : Str → Str → Bool
  | [], _ => true
  | _ :: _, [] => false
  | a :: as, b :: bs => a.toNat < b.toNat || (a.toNat == b.toNat && strLe as bs)

/-- insert an entry into a key-sorted association list (stable: after equal keys) -/
def insertByKey (e : Str × Val) : Entries → Entries
  | [] => [e]
  | x :: xs => if strLe x.1 e.1 then x :: insertByKey e xs else e :: x :: xs

def sortByKey (kvs : Entries) : Entries := kvs.foldr insertByKey []

mutual
def Val.norm : Val → Val
  | .list xs => .list (Val.normList xs)
  | .map kvs => .map (sortByKey (Val.normEntries kvs))
  | v => v
def Val.normList : List Val → List Val
  | [] => []
  | x :: xs => Val.norm x :: Val.normList xs
def Val.normEntries : Entries → Entries
  | [] => []
  | (k, v) :: rest => (k, Val.norm v) :: Val.normEntries rest
end

/-- equal up to the order of map entries at every level -/
def Val.equiv (a b : Val) : Prop := a.norm = b.norm

infix:50 " ≈ᵥ " => Val.equiv

instance (a b : Val) : Decidable (a ≈ᵥ b) := by unfold Val.equiv; exact inferInstance

theorem Val.equiv_refl (a : Val) : a ≈ᵥ a := rfl
theorem Val.equiv_symm {a b : Val} (h : a ≈ᵥ b) : b ≈ᵥ a := Eq.symm h
theorem Val.equiv_trans {a b c : Val} (h1 : a ≈ᵥ b) (h2 : b ≈ᵥ c) : a ≈ᵥ c := Eq.trans h1 h2

end Mxj
