/-
  Mxj.Model.Encode — model of the compact Map encoder of xml.go (`marshalMapToXmlIndent` with
  doIndent = false, `Map.Xml` root selection) and of anyxml.go (`AnyXml`), for values of
  JSON/XML shape (maps, lists, strings, numbers, booleans, nil).

  Go ranges over the map and then `sort.Sort`s attributes and child elements by key; the model
  first normalises the value (`Val.norm`: every map's entries sorted by key) and then walks the
  entries in order — so the output is by construction independent of entry order.
  As repaired: with XmlGoEmptyElemSyntax an attributes-only (or empty) map element closes its
  start tag (`<a x="1"></a>`, not `<a x="1"</a>`).
-/
import Mxj.Model.Perm
import Mxj.Model.Xml
namespace Mxj

structure EncCfg where
  attrPrefix : Str := ['-']
  textK : Str := "#text".toList
  escape : Bool := false          -- xmlEscapeChars
  goEmpty : Bool := false         -- useGoXmlEmptyElemSyntax
  deriving Repr

def escIf (cfg : EncCfg) (s : Str) : Str := if cfg.escape then escapeChars s else s

/-- the `%v` text after the type tag of a `Val.num` -/
def numText (t : Str) : Str := (t.dropWhile (· ≠ ':')).drop 1

/-- `fmt.Sprintf("%v", v)` for the values that can sit in a leaf position -/
def fmtV : Val → Option Str
  | .str s => some s
  | .num t => some (numText t)
  | .bool true => some "true".toList
  | .bool false => some "false".toList
  | .null => some "<nil>".toList
  | _ => none

/-- `lenAttrPrefix > 0 && lenAttrPrefix < len(k) && k[:lenAttrPrefix] == attrPrefix` -/
def isAttrK (cfg : EncCfg) (k : Str) : Bool :=
  !cfg.attrPrefix.isEmpty && cfg.attrPrefix.length < k.length && cfg.attrPrefix.isPrefixOf k

/-- one attribute: ` name="value"`; only strings (escaped), numbers and booleans are legal -/
def attrText (cfg : EncCfg) (k : Str) (v : Val) : Except ErrKind Str :=
  let name := k.drop cfg.attrPrefix.length
  match v with
  | .str s => .ok (" ".toList ++ name ++ "=\"".toList ++ escIf cfg s ++ "\"".toList)
  | .num t => .ok (" ".toList ++ name ++ "=\"".toList ++ numText t ++ "\"".toList)
  | .bool b => .ok (" ".toList ++ name ++ "=\"".toList ++ (if b then "true".toList else "false".toList) ++ "\"".toList)
  | _ => .error .other

def attrsText (cfg : EncCfg) : Entries → Except ErrKind Str
  | [] => .ok []
  | (k, v) :: rest =>
    if isAttrK cfg k then
      match attrText cfg k v, attrsText cfg rest with
      | .ok a, .ok r => .ok (a ++ r)
      | .error e, _ => .error e
      | _, .error e => .error e
    else attrsText cfg rest

def countAttrs (cfg : EncCfg) (kvs : Entries) : Nat := (kvs.filter fun e => isAttrK cfg e.1).length

/-- text written for the text-key value: strings escaped, everything else `%v` -/
def textValue (cfg : EncCfg) (v : Val) : Option Str :=
  match v with
  | .str s => some (escIf cfg s)
  | v => fmtV v

def closeTag (key : Str) : Str := "</".toList ++ key ++ ">".toList

/-- the `if endTag { … }` epilogue -/
def endOf (cfg : EncCfg) (key : Str) (elen : Nat) : Str :=
  if elen > 0 || cfg.goEmpty then (if elen = 0 then ">".toList else []) ++ closeTag key
  else "/>".toList

mutual
/-- `marshalMapToXmlIndent(false, b, key, value, p)` on a normalised value -/
def marshalN (cfg : EncCfg) : Str → Val → Except ErrKind Str
  | key, .map vv =>
      match attrsText cfg vv with
      | .error e => .error e
      | .ok attrs =>
        let openTag := "<".toList ++ key ++ attrs
        let n := countAttrs cfg vv
        if n = vv.length then
          .ok (openTag ++ (if cfg.goEmpty then ">".toList ++ closeTag key else "/>".toList))
        else
          match lookup cfg.textK vv with
          | some tv =>
            match textValue cfg tv with
            | none => .error .other
            | some txt =>
              if n + 1 = vv.length then
                -- just the value and attributes
                .ok (openTag ++ ">".toList ++ txt ++ endOf cfg key 1)
              else
                match marshalElems cfg vv with
                | .error e => .error e
                | .ok kids => .ok (openTag ++ ">".toList ++ txt ++ kids ++ endOf cfg key 1)
          | none =>
            match marshalElems cfg vv with
            | .error e => .error e
            | .ok kids => .ok (openTag ++ ">".toList ++ kids ++ endOf cfg key 1)
  | key, .list xs =>
      if xs.isEmpty then .ok ("<".toList ++ key ++ endOf cfg key 0)
      else marshalMembers cfg key xs
  | key, .null => .ok ("<".toList ++ key ++ endOf cfg key 0)
  | key, .str s =>
      let v := escIf cfg s
      .ok ("<".toList ++ key ++ (if v.isEmpty then [] else ">".toList ++ v) ++ endOf cfg key v.length)
  | key, v =>
      match fmtV v with
      | some t => .ok ("<".toList ++ key ++ ">".toList ++ t ++ endOf cfg key t.length)
      | none => .error .other
/-- list members: each encoded under the list's key -/
def marshalMembers (cfg : EncCfg) (key : Str) : List Val → Except ErrKind Str
  | [] => .ok []
  | x :: xs =>
    match marshalN cfg key x with
    | .error e => .error e
    | .ok a => match marshalMembers cfg key xs with
      | .error e => .error e
      | .ok r => .ok (a ++ r)
/-- child elements: every entry that is neither the text key nor an attribute -/
def marshalElems (cfg : EncCfg) : Entries → Except ErrKind Str
  | [] => .ok []
  | (k, v) :: rest =>
    if k = cfg.textK || isAttrK cfg k then marshalElems cfg rest
    else match marshalN cfg k v with
      | .error e => .error e
      | .ok a => match marshalElems cfg rest with
        | .error e => .error e
        | .ok r => .ok (a ++ r)
end

/-- `marshalMapToXmlIndent(false, …)` on any value -/
def marshal (cfg : EncCfg) (key : Str) (v : Val) : Except ErrKind Str := marshalN cfg key v.norm

def defaultRootTag : Str := "doc".toList
def defaultElementTag : Str := "element".toList

def allMaps (xs : List Val) : Bool := xs.all Val.isMap

/-- `mv.Xml(rootTag...)` before the optional validity check -/
def mapXml (cfg : EncCfg) (m : Entries) (rootTag : Option Str) : Except ErrKind Str :=
  match rootTag with
  | some rt => marshal cfg rt (.map m)
  | none =>
    match m with
    | [(key, .list xs)] =>
        if allMaps xs then marshal cfg key (.list xs) else marshal cfg defaultRootTag (.map m)
    | [(key, v)] => marshal cfg key v
    | _ => marshal cfg defaultRootTag (.map m)

/-- the root the indented encoder `mv.XmlIndent` picks (it does not look inside a list) -/
def mapXmlIndentRoot (m : Entries) (rootTag : Option Str) : Str × Val :=
  match rootTag with
  | some rt => (rt, .map m)
  | none =>
    match m with
    | [(_, .list _)] => (defaultRootTag, .map m)
    | [(key, v)] => (key, v)
    | _ => (defaultRootTag, .map m)

/-- `AnyXml(v, tags...)` for JSON-shaped values -/
def anyXml (cfg : EncCfg) (v : Val) (rt et : Str) : Except ErrKind Str :=
  match v with
  | .null => .ok (if cfg.goEmpty then "<".toList ++ rt ++ ">".toList ++ closeTag rt
                  else "<".toList ++ rt ++ "/>".toList)
  | .list xs =>
      let rec go : List Val → Except ErrKind Str
        | [] => .ok []
        | x :: rest =>
          let one := match x with
            | .map [(tag, val)] =>
                -- repaired: an attribute key / the text key is not an element name
                if tag = cfg.textK || isAttrK cfg tag then marshal cfg et x else marshal cfg tag val
            | x => marshal cfg et x
          match one with
          | .error e => .error e
          | .ok a => match go rest with
            | .error e => .error e
            | .ok r => .ok (a ++ r)
      match go xs with
      | .error e => .error e
      | .ok body => .ok ("<".toList ++ rt ++ ">".toList ++ body ++ closeTag rt)
  | .map m => mapXml cfg m (some rt)
  | v => marshal cfg rt v

end Mxj
