/-
  Mxj.Model.Decode — model of xmlToMapParser (xml.go): the Map decoder as a fuel-indexed
  recursive descent over the token stream, mirroring the Go code case by case.
  (XMPP stream-tag handling is a switch the properties never turn on; not modelled.)
-/
import Mxj.Model.Xml
namespace Mxj

/-- attribute loading: `na[key] = cast(v.Value, r, key)`, later duplicates overwrite -/
def loadAttrs (cfg : DecCfg) (S : Strconv) (attrs : List Attr) : Entries :=
  attrs.foldl (fun na a =>
    let key := attrKey cfg S a.name
    insert key (cast S cfg.cast (escDecIf cfg a.value) key) na) []

/-- `IncludeTagSeqNum` decoration of a decoded child value -/
def seqDecorate (cfg : DecCfg) (seq : Nat) (v : Val) : Val × Nat :=
  if !cfg.seqNum then (v, seq)
  else match v with
    | .list _ => (v, seq)
    | .map kvs => (.map (insert "_seq".toList (.num ("i:".toList ++ natToStr seq)) kvs), seq + 1)
    | .null => (v, seq)
    | s => (.map (insert "_seq".toList (.num ("i:".toList ++ natToStr seq))
                  [(cfg.textK, s)]), seq + 1)

/-- `na[key]` exists → list (promote on second occurrence), else singleton -/
def addChild (na : Entries) (key : Str) (v : Val) : Entries :=
  match lookup key na with
  | some (.list xs) => insert key (.list (xs ++ [v])) na
  | some old => insert key (.list [old, v]) na
  | none => insert key v na

/-- the EndElement case: what the element's value is -/
def finishElem (cfg : DecCfg) (na : Entries) (n : Option Val) : Val :=
  match n with
  | none => if na.isEmpty then .str [] else .map na
  | some v => if na.isEmpty then v else .map (insert cfg.textK v na)

/-- the CharData case inside an element with key `skey` -/
def onText (cfg : DecCfg) (S : Strconv) (skey : Str) (na : Entries) (n : Option Val) (s : Str) :
    Entries × Option Val :=
  let tt := escDecIf cfg (trimChars (trimSet cfg) s)
  if tt.isEmpty then (na, n)
  else if !na.isEmpty || cfg.asMap then (insert cfg.textK (cast S cfg.cast tt cfg.textK) na, n)
  else (na, some (cast S cfg.cast tt skey))

/-- the token loop of `xmlToMapParser(skey, a, p, r)` for `skey != ""`, after attribute
    loading: returns the value stored under `skey` and the unread tokens.  `pend` is the
    character data accumulated over directly consecutive CharData tokens (the tokenizer hands
    text and CDATA sections over separately; repaired code treats them as one run). -/
def parseElem (cfg : DecCfg) (S : Strconv) (fin : StreamEnd) :
    Nat → Str → Entries → Option Val → Nat → Option Str → List Tok → Outcome (Val × List Tok)
  | 0, _, _, _, _, _, _ => .err .other          -- out of fuel (never with fuel ≥ #tokens + 1)
  | _ + 1, _, _, _, _, _, [] => match fin with
      | .eof => .eof
      | .bad => .syntax
  | f + 1, skey, na, n, seq, _, .start _ name attrs :: rest =>
      let ckey := elemKey cfg S name
      match parseElem cfg S fin f ckey (loadAttrs cfg S attrs) none 0 none rest with
      | .ok (v, rest') =>
          let (v', seq') := seqDecorate cfg seq v
          parseElem cfg S fin f skey (addChild na ckey v') n seq' none rest'
      | .eof => .eof
      | .syntax => .syntax
      | .err k => .err k
      | .panic s => .panic s
  | _ + 1, _, na, n, _, _, .stop _ _ :: rest => .ok (finishElem cfg na n, rest)
  | f + 1, skey, na, n, seq, pend, .text s :: rest =>
      let raw := (pend.getD []) ++ s
      let (na', n') := onText cfg S skey na n raw
      parseElem cfg S fin f skey na' n' seq (some raw) rest
  | f + 1, skey, na, n, seq, _, _ :: rest => parseElem cfg S fin f skey na n seq none rest

/-- the first call (`skey == ""`): skip everything up to the first start element
    (repaired: stray non-blank text before the root is skipped also under
    DecodeSimpleValuesAsMap instead of writing to a nil map) -/
def decodeTop (cfg : DecCfg) (S : Strconv) (fin : StreamEnd) :
    Nat → List Tok → Outcome (Val × List Tok)
  | 0, _ => .err .other
  | _ + 1, [] => match fin with
      | .eof => .eof
      | .bad => .syntax
  | f + 1, .start _ name attrs :: rest =>
      let key := elemKey cfg S name
      match parseElem cfg S fin f key (loadAttrs cfg S attrs) none 0 none rest with
      | .ok (v, rest') => .ok (.map [(key, v)], rest')
      | .eof => .eof
      | .syntax => .syntax
      | .err k => .err k
      | .panic s => .panic s
  | f + 1, _ :: rest => decodeTop cfg S fin f rest

/-- `NewMapXml(doc, cast)` on the token stream of `doc` -/
def newMapXml (cfg : DecCfg) (S : Strconv) (toks : List Tok) (fin : StreamEnd) : Outcome Val :=
  match decodeTop cfg S fin (toks.length + 1) toks with
  | .ok (v, _) => .ok v
  | .eof => .eof
  | .syntax => .syntax
  | .err k => .err k
  | .panic s => .panic s

end Mxj
