/-
  Mxj.Model.EncodeIndent — model of the INDENTED Map encoder of xml.go:
  `marshalMapToXmlIndent(doIndent = true, b, key, value, pp *pretty)` and the root selection of
  `Map.XmlIndent(prefix, indent, rootTag...)`, for values of JSON/XML shape (maps, lists,
  strings, numbers, booleans, nil) — the same value universe as `Mxj.Model.Encode`, whose
  compact encoder (`marshalN`, doIndent = false) this file mirrors clause by clause.

  Left out exactly as in `Mxj.Model.Encode`: the struct / reflect arms, the `[]byte` arms, the
  `[]map[string]interface{}` / `[]string` / `[]float64` … arms, and a map or list stored under
  the text key or in attribute position (`.error .other` here as there).

  What the Go code does with the `pretty` state (modelled as is, including the odd parts):
  * every call works on a COPY `p` of the caller's state (`p := &pretty{pp.indent, pp.cnt, …}`),
    so nothing a callee does to its `p` is seen by the caller; the caller's own
    `p.Indent()` … `p.Outdent()` pairs around a call cancel (`Pretty.outdent_indent`);
  * a value that is not a `[]interface{}` writes `p.padding` and `<key`; a list writes nothing
    itself, its members are written one level deeper (`p.Indent()` around every member) — a
    list directly inside a list therefore indents its members twice;
  * a map with element children writes `>` (or `>text`), `"\n"`, the children — non-list
    children with `p.Indent()` … `p.Outdent()` around them, list children without — then
    `p.padding` and the end tag.  A map with only the text key (and attributes) is "simple":
    `>text</key>` with no layout inside;
  * an EMPTY list writes `p.padding + p.indent`, `<key`, and then — `isSimple` is not set in that
    arm — `p.padding` AGAIN, inside the tag, before `/>` (or `></key>`): `<key` padding `/>`;
  * every call ends with `"\n"` when `p.cnt > p.start`; `start` is 0 throughout `XmlIndent`, so
    the root element has no trailing newline and everything below it has one — except an empty
    list directly below the root, which is written with the root's own (un-indented) state and
    so gets no newline either;
  * `p.mapDepth` is incremented around the children of a map and never read.

  Core Lean only, executable definitions (linked into the driver).
-/
import Mxj.Model.Encode
namespace Mxj.Enc
open Mxj

/-- Go `type pretty struct{indent; cnt; padding; mapDepth; start}`; the constant `indent` is
    passed alongside as a parameter of the functions below -/
structure Pretty where
  cnt : Nat := 0
  padding : Str := []
  mapDepth : Nat := 0
  start : Nat := 0
  deriving Repr

/-- `p.Indent()` -/
def Pretty.indentP (p : Pretty) (indent : Str) : Pretty :=
  { p with padding := p.padding ++ indent, cnt := p.cnt + 1 }

/-- `p.Outdent()` -/
def Pretty.outdentP (p : Pretty) (indent : Str) : Pretty :=
  if p.cnt > 0 then
    { p with padding := p.padding.take (p.padding.length - indent.length), cnt := p.cnt - 1 }
  else p

/-- `p.mapDepth++` -/
def Pretty.deeper (p : Pretty) : Pretty := { p with mapDepth := p.mapDepth + 1 }

/-- the epilogue `if p.cnt > p.start { b.WriteString("\n") }` -/
def nlIf (p : Pretty) : Str := if p.cnt > p.start then ['\n'] else []

mutual
/-- `marshalMapToXmlIndent(true, b, key, value, p)` on a normalised value; `p` is the callee's
    copy of the state it was handed -/
def marshalI (cfg : EncCfg) (indent : Str) : Pretty → Str → Val → Except ErrKind Str
  | p, key, .map vv =>
      match attrsText cfg vv with
      | .error e => .error e
      | .ok attrs =>
        let openTag := p.padding ++ "<".toList ++ key ++ attrs
        let n := countAttrs cfg vv
        if n = vv.length then
          -- only attributes: `break` with endTag = false
          .ok (openTag ++ (if cfg.goEmpty then ">".toList ++ closeTag key else "/>".toList) ++ nlIf p)
        else
          match lookup cfg.textK vv with
          | some tv =>
            match textValue cfg tv with
            | none => .error .other
            | some txt =>
              if n + 1 = vv.length then
                -- just the value and attributes: isSimple, no padding before the end tag
                .ok (openTag ++ ">".toList ++ txt ++ endOf cfg key 1 ++ nlIf p)
              else
                match marshalElemsI cfg indent p.deeper vv with
                | .error e => .error e
                | .ok kids =>
                  .ok (openTag ++ ">".toList ++ txt ++ ['\n'] ++ kids
                        ++ p.padding ++ endOf cfg key 1 ++ nlIf p)
          | none =>
            match marshalElemsI cfg indent p.deeper vv with
            | .error e => .error e
            | .ok kids =>
              .ok (openTag ++ ">".toList ++ ['\n'] ++ kids ++ p.padding ++ endOf cfg key 1 ++ nlIf p)
  | p, key, .list xs =>
      if xs.isEmpty then
        -- `p.padding + p.indent`, `<key`, then (isSimple is false) `p.padding` once more
        .ok (p.padding ++ indent ++ "<".toList ++ key ++ p.padding ++ endOf cfg key 0 ++ nlIf p)
      else marshalMembersI cfg indent p key xs
  | p, key, .null =>
      -- `case nil: value = ""`
      .ok (p.padding ++ "<".toList ++ key ++ endOf cfg key 0 ++ nlIf p)
  | p, key, .str s =>
      let v := escIf cfg s
      .ok (p.padding ++ "<".toList ++ key ++ (if v.isEmpty then [] else ">".toList ++ v)
            ++ endOf cfg key v.length ++ nlIf p)
  | p, key, v =>
      match fmtV v with
      | some t => .ok (p.padding ++ "<".toList ++ key ++ ">".toList ++ t ++ endOf cfg key t.length ++ nlIf p)
      | none => .error .other
/-- list members: `p.Indent()`, the member under the list's key, `p.Outdent()` -/
def marshalMembersI (cfg : EncCfg) (indent : Str) : Pretty → Str → List Val → Except ErrKind Str
  | _, _, [] => .ok []
  | p, key, x :: xs =>
    match marshalI cfg indent (p.indentP indent) key x with
    | .error e => .error e
    | .ok a => match marshalMembersI cfg indent ((p.indentP indent).outdentP indent) key xs with
      | .error e => .error e
      | .ok r => .ok (a ++ r)
/-- child elements in key order: `p.Indent()` … `p.Outdent()` around every child that is not a
    list (`i` is 0 at the head of every iteration of the Go loop) -/
def marshalElemsI (cfg : EncCfg) (indent : Str) : Pretty → Entries → Except ErrKind Str
  | _, [] => .ok []
  | p, (k, v) :: rest =>
    if k = cfg.textK || isAttrK cfg k then marshalElemsI cfg indent p rest
    else
      let p1 := if v.isList then p else p.indentP indent
      match marshalI cfg indent p1 k v with
      | .error e => .error e
      | .ok a =>
        let p2 := if v.isList then p1 else p1.outdentP indent
        match marshalElemsI cfg indent p2 rest with
        | .error e => .error e
        | .ok r => .ok (a ++ r)
end

/-- the state `XmlIndent` starts from: `p.indent = indent; p.padding = prefix` -/
def Pretty.init (pfx : Str) : Pretty := { padding := pfx }

/-- `mv.XmlIndent(prefix, indent, rootTag...)` before the optional validity check, on the
    normalised Map (root selection: `mapXmlIndentRoot` — unlike `mv.Xml` it never looks inside
    a list value) -/
def mapXmlIndent (cfg : EncCfg) (pfx indent : Str) (m : Entries) (rootTag : Option Str) :
    Except ErrKind Str :=
  let r := mapXmlIndentRoot m rootTag
  marshalI cfg indent (Pretty.init pfx) r.1 r.2.norm

end Mxj.Enc
