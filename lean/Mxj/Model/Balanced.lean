/-
  Mxj.Model.Balanced — well-formedness of a token stream as an executable check (`balanced`):
  properly nested start/end tags with matching names, exactly one root element, no character
  data outside it.  Proved for the encoder's trees in Lemmas/EncTok.lean, used by
  Props/C03ExtTok.lean; the driver op `xenct` prints its verdict on the model's own output and
  harness/c03.go compares it with a stack check of the `encoding/xml` tokens.
-/
import Mxj.Model.Xml
namespace Mxj.EncTok
open Mxj

/-- the well-formedness check of a token stream, as a one-pass stack machine.  `st` is the
    stack of open elements (innermost first), `r` the number of root elements seen so far.
    A start tag is pushed (at top level only if no root was seen yet); an end tag must match the
    innermost open element by space and name; character data must be inside an element;
    comments, processing instructions and directives may stand anywhere; at the end no element
    is open and exactly one root was seen. -/
def balGo : List (Str × Str) → Nat → List Tok → Bool
  | st, r, [] => st.isEmpty && r == 1
  | st, r, .start sp n _ :: ts =>
      (!st.isEmpty || r == 0) && balGo ((sp, n) :: st) (if st.isEmpty then r + 1 else r) ts
  | [], _, .stop _ _ :: _ => false
  | (sp', n') :: st, r, .stop sp n :: ts => decide (sp = sp') && decide (n = n') && balGo st r ts
  | st, r, .text _ :: ts => !st.isEmpty && balGo st r ts
  | st, r, _ :: ts => balGo st r ts

/-- properly nested start/end tags with matching names, exactly one root element, no character
    data outside it -/
def balanced (ts : List Tok) : Bool := balGo [] 0 ts

end Mxj.EncTok
