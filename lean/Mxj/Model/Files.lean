/-
  Mxj.Model.Files — the loops of files.go over the JSON stream reader: what `Maps.JsonFile`
  writes and what `NewMapsFromJsonFile` reads back (as repaired: an empty object is a Map too).
  The XML file readers have the same loop shape over `NewMapXmlReaderRaw`; their correctness
  rests on the tokenizer stopping exactly at the root's end tag (trusted base TB-XML-stop) and is
  covered by the implementation oracles of C13/C19, not by this model.
-/
import Mxj.Model.Json
import Mxj.Model.Stream
namespace Mxj.Files
open Mxj Mxj.Stream

/-- `mvs.JsonString()`: the concatenation of the per-Map encodings -/
def jsonString (ms : List Val) : Str := ms.flatMap (Json.mapJson false)

/-- result of reading a JSON file: the Maps read so far and whether an error stopped the loop -/
structure ReadRes where
  maps : List Val
  failed : Bool
  deriving Repr

/-- `NewMapsFromJsonFile`: call `NewMapJsonReaderRaw` until io.EOF; a scanner or decoder error
    returns the Maps read so far together with the error -/
def readMapsJson : Nat → Sched → List Val → ReadRes
  | 0, _, acc => ⟨acc.reverse, true⟩
  | f + 1, s, acc =>
    match getJson s {} with
    | (.doc raw, rest) =>
        match Json.newMapJson raw with
        | some (.map m) => readMapsJson f rest (.map m :: acc)
        | some _ => readMapsJson f rest acc          -- JSON null: nil Map, skipped
        | none => ⟨acc.reverse, true⟩
    | (.eof _, _) => ⟨acc.reverse, false⟩
    | (_, _) => ⟨acc.reverse, true⟩

end Mxj.Files
