/-
  Mxj.Model.KeySpec — declarative specifications for C08: which values live under a key at
  any depth, which dot-paths end in a key, what a sub-key condition means.  Written
  independently of `hasKey` / `hasKeyPath` / `hasSubKeys`.
-/
import Mxj.Model.Path
namespace Mxj.KeySpec
open Mxj

mutual
/-- every value in the tree, pre-order: the value itself, then whatever it contains -/
def nodes : Val → List Val
  | .map kvs => .map kvs :: nodesEntries kvs
  | .list xs => .list xs :: nodesList xs
  | v => [v]
def nodesList : List Val → List Val
  | [] => []
  | x :: xs => nodes x ++ nodesList xs
def nodesEntries : Entries → List Val
  | [] => []
  | (_, v) :: rest => nodes v ++ nodesEntries rest
end

/-- a stored value counts member-wise when it is a list -/
def members : Val → List Val
  | .list xs => xs
  | v => [v]

/-- the values stored under `key` in one map node (`*` = every key) -/
def storedAt (key : Str) : Val → List Val
  | .map kvs => (kvs.filter fun e => key = ['*'] || e.1 = key).flatMap fun e => members e.2
  | _ => []

/-- every value stored under `key` at any depth, lists expanded -/
def allUnder (key : Str) (m : Val) : List Val := (nodes m).flatMap (storedAt key)

/-! ### the documented meaning of one `key:value[:type]` condition -/

/-- typed equality: a string condition matches only string values, etc. -/
def typedEq : SubVal → Val → Bool
  | .str s, .str s' => s == s'
  | .bool b, .bool b' => b == b'
  | .num t, .num t' => numEq t t'      -- equal as float64 values (the two zeros are equal, NaN is not)
  | _, _ => false

/-- `k:v`  — entry `k` exists and equals `v` (typed);  `k:*` — entry `k` exists;
    `!k:v` — entry `k` exists and differs from `v`;  `!k:*` — entry `k` does not exist. -/
def condHolds (mv : Entries) (c : Str × SubVal) : Bool :=
  match c.1 with
  | '!' :: k =>
      if c.2 = SubVal.str ['*'] then (lookup k mv).isNone
      else match lookup k mv with
        | some v => !typedEq c.2 v
        | none => false
  | k =>
      if c.2 = SubVal.str ['*'] then (lookup k mv).isSome
      else match lookup k mv with
        | some v => typedEq c.2 v
        | none => false

/-- the documented sub-key predicate: only maps can satisfy a non-empty condition set -/
def subPred (subs : SubKeys) (v : Val) : Bool :=
  subs.isEmpty || match v with
    | .map mv => subs.all (condHolds mv)
    | _ => false

/-- specification of `ValuesForKey(key, subkeys...)` -/
def valuesForKey (key : Str) (subs : SubKeys) (m : Val) : List Val :=
  (allUnder key m).filter (subPred subs)

/-! ### key paths -/

mutual
/-- all non-empty key sequences from `v` down through maps (lists are transparent) -/
def keyPaths : Val → List (List Str)
  | .map kvs => keyPathsEntries kvs
  | .list xs => keyPathsList xs
  | _ => []
def keyPathsList : List Val → List (List Str)
  | [] => []
  | x :: xs => keyPaths x ++ keyPathsList xs
def keyPathsEntries : Entries → List (List Str)
  | [] => []
  | (k, v) :: rest => [k] :: ((keyPaths v).map (k :: ·)) ++ keyPathsEntries rest
end

/-- specification of `PathsForKey(key)`: the distinct dot-paths that end in `key` -/
def pathsForKey (m : Val) (key : Str) : List Str :=
  (((keyPaths m).filter fun p => p.getLast? = some key).map joinDot).eraseDups

/-- keys usable in dot-paths: non-empty, no '.', '[' or '*' -/
def keySafe (k : Str) : Bool := !k.isEmpty && !k.contains '.' && !k.contains '[' && !k.contains '*'

mutual
def pathSafe : Val → Bool
  | .map kvs => pathSafeEntries kvs
  | .list xs => pathSafeList xs
  | _ => true
def pathSafeList : List Val → Bool
  | [] => true
  | x :: xs => pathSafe x && pathSafeList xs
def pathSafeEntries : Entries → Bool
  | [] => true
  | (k, v) :: rest => keySafe k && pathSafe v && pathSafeEntries rest
end

mutual
/-- no map in the tree has the literal key `*` (which `ValuesForKey("*")` would count twice) -/
def noStarKey : Val → Bool
  | .map kvs => noStarKeyEntries kvs
  | .list xs => noStarKeyList xs
  | _ => true
def noStarKeyList : List Val → Bool
  | [] => true
  | x :: xs => noStarKey x && noStarKeyList xs
def noStarKeyEntries : Entries → Bool
  | [] => true
  | (k, v) :: rest => k != ['*'] && noStarKey v && noStarKeyEntries rest
end

end Mxj.KeySpec
