/-
  Mxj.Model.Str — the handful of Go `strings`/`strconv` primitives mxj's path code uses,
  over `List Char`.  These are *models of the standard library* (trusted base; sampled
  against the real functions by the correspondence check).
-/
import Mxj.Model.Val
namespace Mxj

/-- `strings.Split(s, sep)` for non-empty `sep` (structural on `s`; `skip` counts the
    characters of a separator occurrence still to be consumed). -/
def splitGo (sep : Str) : Str → Nat → Str → List Str
  | [], _, acc => [acc.reverse]
  | _ :: cs, skip + 1, acc => splitGo sep cs skip acc
  | c :: cs, 0, acc =>
      if sep.isPrefixOf (c :: cs) then acc.reverse :: splitGo sep cs (sep.length - 1) []
      else splitGo sep cs 0 (c :: acc)

def splitOn (sep : Str) (s : Str) : List Str := splitGo sep s 0 []

/-- `strings.Split(s, ".")` -/
def splitDot (s : Str) : List Str := splitOn ['.'] s

/-- `strings.Join(xs, sep)` -/
def joinWith (sep : Str) : List Str → Str
  | [] => []
  | [x] => x
  | x :: y :: rest => x ++ sep ++ joinWith sep (y :: rest)

def joinDot (xs : List Str) : Str := joinWith ['.'] xs

def isDigit (c : Char) : Bool := '0' ≤ c && c ≤ '9'

def digitsVal : Str → Nat → Nat
  | [], acc => acc
  | c :: cs, acc => digitsVal cs (acc * 10 + (c.toNat - '0'.toNat))

/-- `strconv.ParseInt(s, 10, 32)`: optional sign, one or more ASCII digits, value in
    the int32 range; anything else is an error (`none`). -/
def parseInt32 (s : Str) : Option Int :=
  let (neg, ds) := match s with
    | '-' :: r => (true, r)
    | '+' :: r => (false, r)
    | r => (false, r)
  if ds.isEmpty || !ds.all isDigit then none
  else
    let n := digitsVal ds 0
    if neg then (if n ≤ 2147483648 then some (-(n : Int)) else none)
    else (if n ≤ 2147483647 then some (n : Int) else none)

/-- `strconv.ParseBool` -/
def parseBool (s : Str) : Option Bool :=
  if s = "1".toList || s = "t".toList || s = "T".toList || s = "TRUE".toList
      || s = "true".toList || s = "True".toList then some true
  else if s = "0".toList || s = "f".toList || s = "F".toList || s = "FALSE".toList
      || s = "false".toList || s = "False".toList then some false
  else none

/-- `strconv.Itoa` for naturals -/
def natToStr (n : Nat) : Str := (toString n).toList

def hasPrefix (p s : Str) : Bool := p.isPrefixOf s

/-- `strings.Index(s, sub) >= 0` -/
def containsStr (sub : Str) : Str → Bool
  | [] => sub.isEmpty
  | c :: cs => sub.isPrefixOf (c :: cs) || containsStr sub cs

end Mxj
