/-
  Mxj.Model.Opt — the package-level options as a state machine: one field per option variable,
  one constructor per setter call form (explicit value, toggle / argument-less form).
-/
import Mxj.Model.Escape
namespace Mxj.Opt
open Mxj

structure St where
  textK : Str
  seqK : Str
  commentK : Str
  attrK : Str
  directiveK : Str
  procinstK : Str
  targetK : Str
  instK : Str
  includeTagSeqNum : Bool
  lowerCase : Bool
  disableTrimWhiteSpace : Bool
  trimRunes : Str
  attrPrefix : Str
  lenAttrPrefix : Nat
  snakeCaseKeys : Bool
  castToInt : Bool
  handleXMPPStreamTag : Bool
  decodeSimpleValuesAsMap : Bool
  castNanInf : Bool
  castToFloat : Bool
  castToBool : Bool
  checkTagToSkip : Bool          -- a function is registered
  useGoXmlEmptyElemSyntax : Bool
  xmlCheckIsValid : Bool
  xmlEscapeChars : Bool
  xmlEscapeCharsDecoder : Bool
  fieldSep : Str
  useDotNotation : Bool
  defaultArraySize : Nat
  deriving Repr, DecidableEq

def trimAll : Str := ['\t', '\r', '\x08', '\n', ' ']
def trimKeep : Str := ['\t', '\r', '\x08', '\n']

/-- the state of a fresh process -/
def dflt : St :=
  { textK := "#text".toList, seqK := "#seq".toList, commentK := "#comment".toList,
    attrK := "#attr".toList, directiveK := "#directive".toList, procinstK := "#procinst".toList,
    targetK := "#target".toList, instK := "#inst".toList,
    includeTagSeqNum := false, lowerCase := false, disableTrimWhiteSpace := false,
    trimRunes := trimAll, attrPrefix := ['-'], lenAttrPrefix := 1, snakeCaseKeys := false,
    castToInt := false, handleXMPPStreamTag := false, decodeSimpleValuesAsMap := false,
    castNanInf := false, castToFloat := true, castToBool := true, checkTagToSkip := false,
    useGoXmlEmptyElemSyntax := false, xmlCheckIsValid := false, xmlEscapeChars := false,
    xmlEscapeCharsDecoder := false, fieldSep := [':'], useDotNotation := false,
    defaultArraySize := 32 }

/-- `strings.ReplaceAll(k, k[0:1], s)` (empty `k` would panic in Go: left unchanged here and
    excluded by the invariant of the restore theorem) -/
def rekey (s : Str) (k : Str) : Str :=
  match k with
  | [] => k
  | c :: _ => replaceAll [c] s k

/-- a toggling setter: no argument toggles, one argument sets -/
def tog (cur : Bool) (arg : Option Bool) : Bool := match arg with | none => !cur | some b => b

inductive Call where
  | setGlobalKeyMapPrefix (s : Str)
  | includeTagSeqNum (b : Option Bool)
  | coerceKeysToLower (b : Option Bool)
  | disableTrimWhiteSpace (b : Option Bool)
  | prependAttrWithHyphen (v : Bool)
  | setAttrPrefix (s : Str)
  | coerceKeysToSnakeCase (b : Option Bool)
  | castValuesToInt (b : Option Bool)
  | handleXMPPStreamTag (b : Option Bool)
  | decodeSimpleValuesAsMap (b : Option Bool)
  | castNanInf (b : Option Bool)
  | castValuesToFloat (b : Option Bool)
  | castValuesToBool (b : Option Bool)
  | setCheckTagToSkipFunc (registered : Bool)
  | xmlGoEmptyElemSyntax
  | xmlDefaultEmptyElemSyntax
  | xmlCheckIsValid (b : Option Bool)
  | xmlEscapeChars (b : Option Bool)
  | xmlEscapeCharsDecoder (b : Option Bool)
  | setFieldSeparator (s : Option Str)
  | leafUseDotNotation (b : Option Bool)
  | setArraySize (n : Nat)
  deriving Repr, DecidableEq

def step (st : St) : Call → St
  | .setGlobalKeyMapPrefix s =>
      { st with textK := rekey s st.textK, seqK := rekey s st.seqK, commentK := rekey s st.commentK,
                directiveK := rekey s st.directiveK, procinstK := rekey s st.procinstK,
                targetK := rekey s st.targetK, instK := rekey s st.instK, attrK := rekey s st.attrK }
  | .includeTagSeqNum b => { st with includeTagSeqNum := tog st.includeTagSeqNum b }
  | .coerceKeysToLower b => { st with lowerCase := tog st.lowerCase b }
  | .disableTrimWhiteSpace b =>
      let d := match b with | none => true | some x => x
      { st with disableTrimWhiteSpace := d, trimRunes := if d then trimKeep else trimAll }
  | .prependAttrWithHyphen v =>
      if v then { st with attrPrefix := ['-'], lenAttrPrefix := 1 }
      else { st with attrPrefix := [], lenAttrPrefix := 0 }
  | .setAttrPrefix s => { st with attrPrefix := s, lenAttrPrefix := (String.ofList s).utf8ByteSize }
  | .coerceKeysToSnakeCase b => { st with snakeCaseKeys := tog st.snakeCaseKeys b }
  | .castValuesToInt b => { st with castToInt := tog st.castToInt b }
  | .handleXMPPStreamTag b => { st with handleXMPPStreamTag := tog st.handleXMPPStreamTag b }
  | .decodeSimpleValuesAsMap b => { st with decodeSimpleValuesAsMap := tog st.decodeSimpleValuesAsMap b }
  | .castNanInf b => { st with castNanInf := tog st.castNanInf b }
  | .castValuesToFloat b => { st with castToFloat := tog st.castToFloat b }
  | .castValuesToBool b => { st with castToBool := tog st.castToBool b }
  | .setCheckTagToSkipFunc r => { st with checkTagToSkip := r }
  | .xmlGoEmptyElemSyntax => { st with useGoXmlEmptyElemSyntax := true }
  | .xmlDefaultEmptyElemSyntax => { st with useGoXmlEmptyElemSyntax := false }
  | .xmlCheckIsValid b => { st with xmlCheckIsValid := tog st.xmlCheckIsValid b }
  | .xmlEscapeChars b =>
      let bb := tog st.xmlEscapeChars b
      { st with xmlEscapeChars := bb && !st.xmlEscapeCharsDecoder }
  | .xmlEscapeCharsDecoder b =>
      let d := tog st.xmlEscapeCharsDecoder b
      { st with xmlEscapeCharsDecoder := d, xmlEscapeChars := if d && st.xmlEscapeChars then false else st.xmlEscapeChars }
  | .setFieldSeparator s =>
      match s with
      | none => { st with fieldSep := [':'] }
      | some x => if x.isEmpty then { st with fieldSep := [':'] } else { st with fieldSep := x }
  | .leafUseDotNotation b => { st with useDotNotation := tog st.useDotNotation b }
  | .setArraySize n => { st with defaultArraySize := if n > 32 then n else 32 }

def run (st : St) (calls : List Call) : St := calls.foldl step st

/-- "set every option back to its default": the explicit calls a user would make -/
def restoreCalls : List Call :=
  [.setGlobalKeyMapPrefix ['#'], .includeTagSeqNum (some false), .coerceKeysToLower (some false),
   .disableTrimWhiteSpace (some false), .setAttrPrefix ['-'], .coerceKeysToSnakeCase (some false),
   .castValuesToInt (some false), .handleXMPPStreamTag (some false),
   .decodeSimpleValuesAsMap (some false), .castNanInf (some false), .castValuesToFloat (some true),
   .castValuesToBool (some true), .setCheckTagToSkipFunc false, .xmlDefaultEmptyElemSyntax,
   .xmlCheckIsValid (some false), .xmlEscapeCharsDecoder (some false), .xmlEscapeChars (some false),
   .setFieldSeparator none, .leafUseDotNotation (some false), .setArraySize 0]

/-- the state as the `VerifOptions()` hook dumps it (name ↦ rendered value) -/
def dump (st : St) : List (String × Str) :=
  let b := fun (x : Bool) => if x then "true".toList else "false".toList
  [("textK", st.textK), ("seqK", st.seqK), ("commentK", st.commentK), ("attrK", st.attrK),
   ("directiveK", st.directiveK), ("procinstK", st.procinstK), ("targetK", st.targetK),
   ("instK", st.instK), ("includeTagSeqNum", b st.includeTagSeqNum), ("lowerCase", b st.lowerCase),
   ("disableTrimWhiteSpace", b st.disableTrimWhiteSpace), ("trimRunes", st.trimRunes),
   ("attrPrefix", st.attrPrefix), ("lenAttrPrefix", natToStr st.lenAttrPrefix),
   ("snakeCaseKeys", b st.snakeCaseKeys), ("castToInt", b st.castToInt),
   ("handleXMPPStreamTag", b st.handleXMPPStreamTag),
   ("decodeSimpleValuesAsMap", b st.decodeSimpleValuesAsMap), ("castNanInf", b st.castNanInf),
   ("castToFloat", b st.castToFloat), ("castToBool", b st.castToBool),
   ("checkTagToSkip", if st.checkTagToSkip then "set".toList else "nil".toList),
   ("useGoXmlEmptyElemSyntax", b st.useGoXmlEmptyElemSyntax), ("xmlCheckIsValid", b st.xmlCheckIsValid),
   ("xmlEscapeChars", b st.xmlEscapeChars), ("xmlEscapeCharsDecoder", b st.xmlEscapeCharsDecoder),
   ("fieldSep", st.fieldSep), ("useDotNotation", b st.useDotNotation),
   ("defaultArraySize", natToStr st.defaultArraySize)]

end Mxj.Opt
