/-
  Mxj.Model.Tokenizer — an executable model of the `encoding/xml` tokenizer
  (`xml.Decoder.RawToken` in strict mode, collected until EOF) for the XML subset the encoders
  emit and a little more:

    start tags `<name a="v" b='w'>`, empty-element tags `<name …/>` (a start and an end token),
    end tags `</name >`, character data, CDATA sections, comments, processing instructions;
    the five predefined entities and numeric references, expanded exactly as `unesc`
    (Model/Escape.lean) does, in character data and in attribute values; `\r` / `\r\n`
    rewritten to `\n`; `]]>` outside CDATA, a raw `<` in an attribute value, characters outside
    the XML range, a name not followed by what the grammar asks for: syntax error (`none`).

  Not modelled (`none`): directives (`<!DOCTYPE …>`), names with non-ASCII characters.  Like
  `RawToken`, no check that end tags match start tags and no name-space translation: a name
  `p:l` is handed over as space `p`, local `l`.

  `tokenize : Str → Option (List Tok)`; total, structurally recursive on a fuel that
  `tokenize` sets to the input length + 1 (every step consumes at least one character; `tokF`
  checks that it does).  `Lemmas/Tokenizer.lean` proves the tokenizer law of C02 for it
  (`Props/C02ExtTok.lean`); the harness samples it against the real decoder (`xtok`).
-/
import Mxj.Model.Xml
namespace Mxj.Tokz
open Mxj

/-- `d.space()` -/
def isSp (c : Char) : Bool := c = ' ' || c = '\r' || c = '\n' || c = '\t'

def dropSp (s : Str) : Str := s.dropWhile isSp

/-- ASCII name bytes (`isNameByte`) and, of those, the ones a name may begin with (`first`) -/
def isNmCh (c : Char) : Bool :=
  c.isAlpha || c.isDigit || c = '_' || c = ':' || c = '.' || c = '-'
def isNmStart (c : Char) : Bool := c.isAlpha || c = '_' || c = ':'

/-- the character after a name is ASCII (a non-ASCII byte would be read as part of the name and
    checked against the Unicode tables: outside the model) -/
def asciiNext : Str → Bool
  | [] => true
  | c :: _ => decide (c.toNat < 128)

/-- `d.name()`: the maximal run of name bytes; non-empty, first character a name start -/
def lexRawName (s : Str) : Option (Str × Str) :=
  match s.takeWhile isNmCh with
  | [] => none
  | c :: nm =>
    if isNmStart c && asciiNext (s.dropWhile isNmCh) then some (c :: nm, s.dropWhile isNmCh)
    else none

/-- `nsname`: at most one colon; `p:l` with both parts non-empty is (space `p`, local `l`),
    anything else is a local name -/
def nsname (s : Str) : Option (Str × Str) :=
  if s.count ':' > 1 then none
  else
    match s.dropWhile (· != ':') with
    | [] => some ([], s)
    | _ :: loc =>
      if (s.takeWhile (· != ':')).isEmpty || loc.isEmpty then some ([], s)
      else some (s.takeWhile (· != ':'), loc)

/-- a qualified name at the head of `s`: (space, local, rest) -/
def lexName (s : Str) : Option (Str × Str × Str) :=
  match lexRawName s with
  | none => none
  | some (nm, rest) =>
    match nsname nm with
    | none => none
    | some (sp, l) => some (sp, l, rest)

/-- "]]>" somewhere in `s` -/
def hasCDEnd : Str → Bool
  | [] => false
  | c :: r => [']', ']', '>'].isPrefixOf (c :: r) || hasCDEnd r

/-- raw `\r` and `\r\n` become `\n` (`prev`: the previous raw character was `\r`) -/
def normCRa : Bool → Str → Str
  | _, [] => []
  | prev, c :: r =>
    if c = '\r' then '\n' :: normCRa true r
    else if c = '\n' && prev then normCRa false r
    else c :: normCRa false r

def normCR (s : Str) : Str := normCRa false s

def charsOk (s : Str) : Bool := s.all (fun c => xmlCharOk c.toNat)

/-- `d.text(quote, false)` on the raw run up to the delimiter: no "]]>", line ends normalised,
    references expanded (`unesc`: a bare '&', an unknown entity, a raw '<' are errors), only XML
    characters in the result -/
def lexChars (raw : Str) : Option Str :=
  if hasCDEnd raw then none
  else
    match unesc (normCR raw) with
    | none => none
    | some v => if charsOk v then some v else none

/-- `d.text(-1, true)` on the content of a CDATA section: nothing is expanded -/
def cdataChars (raw : Str) : Option Str :=
  if charsOk (normCR raw) then some (normCR raw) else none

/-- the text before the first occurrence of `pat` and the text after it -/
def breakOn (pat : Str) : Str → Option (Str × Str)
  | [] => none
  | c :: r =>
    if pat.isPrefixOf (c :: r) then some ([], (c :: r).drop pat.length)
    else match breakOn pat r with
      | none => none
      | some (a, b) => some (c :: a, b)

/-- one attribute `name = "value"` (either quote) at the head of `s` -/
def lexAttr (s : Str) : Option (Attr × Str) :=
  match lexName s with
  | none => none
  | some (sp, nm, r1) =>
    match dropSp r1 with
    | [] => none
    | e :: r2 =>
      if e = '=' then
        match dropSp r2 with
        | [] => none
        | q :: r3 =>
          if q = '"' || q = '\'' then
            match r3.dropWhile (· != q) with
            | [] => none
            | _ :: r4 =>
              match lexChars (r3.takeWhile (· != q)) with
              | none => none
              | some v => some (⟨sp, nm, v⟩, r4)
          else none
      else none

/-- the attribute loop of a start tag: (attributes, "ended with />", rest) -/
def lexAttrs : Nat → Str → Option (List Attr × Bool × Str)
  | 0, _ => none
  | f + 1, s =>
    match dropSp s with
    | [] => none
    | c :: r =>
      if c = '>' then some ([], false, r)
      else if c = '/' then
        match r with
        | [] => none
        | g :: r' => if g = '>' then some ([], true, r') else none
      else
        match lexAttr (c :: r) with
        | none => none
        | some (a, r1) =>
          match lexAttrs f r1 with
          | none => none
          | some (as, e, rest) => some (a :: as, e, rest)

/-- after `<`: a start tag or an empty-element tag -/
def startTag (s : Str) : Option (List Tok × Str) :=
  match lexName s with
  | none => none
  | some (sp, nm, r1) =>
    match lexAttrs (r1.length + 1) r1 with
    | none => none
    | some (as, empty, rest) =>
      some (if empty then [Tok.start sp nm as, Tok.stop sp nm] else [Tok.start sp nm as], rest)

/-- after `</` -/
def endTag (s : Str) : Option (List Tok × Str) :=
  match lexName s with
  | none => none
  | some (sp, nm, r1) =>
    match dropSp r1 with
    | [] => none
    | c :: rest => if c = '>' then some ([Tok.stop sp nm], rest) else none

/-- after `<?`: target, white space, everything up to the first `?>` -/
def procInst (s : Str) : Option (List Tok × Str) :=
  match lexRawName s with
  | none => none
  | some (target, r1) =>
    match breakOn ['?', '>'] (dropSp r1) with
    | none => none
    | some (inst, rest) => some ([Tok.procinst target inst], rest)

/-- after `<!`: a comment (no `--` inside) or a CDATA section; directives are not modelled -/
def bang (s : Str) : Option (List Tok × Str) :=
  if ['-', '-'].isPrefixOf s then
    match breakOn ['-', '-'] (s.drop 2) with
    | none => none
    | some (body, r) =>
      match r with
      | [] => none
      | c :: rest => if c = '>' then some ([Tok.comment body], rest) else none
  else if ['[', 'C', 'D', 'A', 'T', 'A', '['].isPrefixOf s then
    match breakOn [']', ']', '>'] (s.drop 7) with
    | none => none
    | some (body, rest) =>
      match cdataChars body with
      | none => none
      | some v => some ([Tok.text v], rest)
  else none

/-- a run of character data: everything up to the next `<` (or the end of the input) -/
def textRun (s : Str) : Option (List Tok × Str) :=
  match lexChars (s.takeWhile (· != '<')) with
  | none => none
  | some v => some ([Tok.text v], s.dropWhile (· != '<'))

/-- one `RawToken` call (two tokens for an empty-element tag): the tokens and the unread input -/
def step : Str → Option (List Tok × Str)
  | [] => none
  | c :: r =>
    if c = '<' then
      match r with
      | [] => none
      | d :: r' =>
        if d = '/' then endTag r'
        else if d = '?' then procInst r'
        else if d = '!' then bang r'
        else startTag (d :: r')
    else textRun (c :: r)

/-- tokens until the end of the input; `none` = syntax error (or a construct outside the model) -/
def tokF : Nat → Str → Option (List Tok)
  | _, [] => some []
  | 0, _ :: _ => none
  | f + 1, c :: r =>
    match step (c :: r) with
    | none => none
    | some (ts, rest) =>
      if rest.length ≤ r.length then
        match tokF f rest with
        | none => none
        | some more => some (ts ++ more)
      else none

def tokenize (s : Str) : Option (List Tok) := tokF (s.length + 1) s

/-- the total form the tokenizer law is stated for: a syntax error yields no tokens -/
def tokens (s : Str) : List Tok := (tokenize s).getD []

end Mxj.Tokz
