/-
  Mxj.Model.WrapperValue — model of the value-extraction functions of x2j-wrapper/x2j.go:
    MapValue (without the recast flag `r`), hasAttributes, NewAttributeMap, ValuesForKey and its
    own recursive walker `hasKey` (C20).

  Not modelled: the optional `r` argument of MapValue (it recasts — and MUTATES — the attribute
  map before the walk; with `r` absent or false the function is exactly what is modelled here);
  DocValue and ValuesForTag are the compositions NewMapXml ∘ NewAttributeMap ∘ MapValue and
  NewMapXml ∘ ValuesForKey (harness battery).

  Go's `val != vv` on two interface values is modelled by `attrEq`: equal dynamic type and equal
  value for string / bool / float64 / nil (NaN is unequal to itself: `numEq`), false when the
  dynamic types differ.  When BOTH sides hold a map or both a slice Go panics (comparing
  uncomparable types); attribute maps built by NewAttributeMap hold strings only, so this cannot
  happen there, and `attrEq` answers false.

  Go ranges over the attribute map in random order; the model takes the pairs in list order.
  The order only decides WHICH of the two errors (`noAttrName` / `noAttrPair`) is reported when
  more than one pair fails; success and the returned value do not depend on it
  (`C20_value_attrsMatch_ok_iff`).
-/
import Mxj.Model.Wrapper
namespace Mxj.Wrapper
open Mxj

/-- error kinds of MapValue / hasAttributes / NewAttributeMap (compared by kind only) -/
inductive WErr where
  /-- "no keys beyond: k" -/
  | noKeysBeyond
  /-- "no key in map: k" -/
  | noKeyInMap
  /-- "no list member with matching attributes" -/
  | noListMember
  /-- "no attribute with name: k" -/
  | noAttrName
  /-- "no attribute key:value pair: k:v" -/
  | noAttrPair
  /-- "no match for attributes" -/
  | noAttrMatch
  /-- "attribute not \"name:value\" pair: v" -/
  | badAttrPair
  deriving Repr, DecidableEq, Inhabited

/-- Go `val == vv` on interface values holding string / bool / float64 / nil -/
def attrEq : Val → Val → Bool
  | .str a, .str b => a == b
  | .bool a, .bool b => a == b
  | .num a, .num b => numEq a b
  | .null, .null => true
  | _, _ => false

/-- the `for key, val := range a` loop of the map case of `hasAttributes` -/
def attrsMatch (nv : Entries) : Entries → Except WErr Unit
  | [] => .ok ()
  | (k, val) :: rest => match lookup k nv with
      | none => .error .noAttrName
      | some vv => if attrEq val vv then attrsMatch nv rest else .error .noAttrPair

mutual
/-- `hasAttributes(v, a)` -/
def hasAttributes (a : Entries) : Val → Except WErr Val
  | .list xs => hasAttributesList a xs
  | .map nv => match attrsMatch nv a with
      | .error e => .error e
      | .ok _ => match lookup ['#', 't', 'e', 'x', 't'] nv with
          | some vv => .ok vv
          | none => .ok (.map nv)
  | _ => .error .noAttrMatch
/-- the list case: the first member for which `hasAttributes` succeeds -/
def hasAttributesList (a : Entries) : List Val → Except WErr Val
  | [] => .error .noListMember
  | x :: xs => match hasAttributes a x with
      | .ok v => .ok v
      | .error _ => hasAttributesList a xs
end

/-- the `for _, key := range keys` loop of MapValue: `m` is the map variable, `v` the value
    variable, `isMap` the flag -/
def mvLoop : Entries → Val → Bool → List Str → Except WErr Val
  | _, v, _, [] => .ok v
  | m, _, isMap, key :: ks =>
      if !isMap then .error .noKeysBeyond
      else match lookup key m with
        | none => .error .noKeyInMap
        | some v => match v with
            | .map kvs => mvLoop kvs v true ks
            | _ => mvLoop m v false ks

/-- the loop entered as MapValue does (`v = m`, `isMap = true`).  Go's parameter is a map; on
    another value the loop starts with `isMap = false`. -/
def mvStart (m : Val) (keys : List Str) : Except WErr Val :=
  match m with
  | .map kvs => mvLoop kvs m true keys
  | _ => mvLoop [] m false keys

/-- `MapValue(m, path, attr)` (no `r`).  `attr = none` is the nil map, `some []` a non-nil empty
    one. -/
def mapValue (m : Val) (path : Str) (attr : Option Entries) : Except WErr Val :=
  let keys := splitDot path
  let nAttr := match attr with
    | none => 0
    | some a => a.length
  if keys.head? = some [] && nAttr = 0 then .ok m
  else
    match mvStart m keys with
    | .error e => .error e
    | .ok v => match attr with
        | none => .ok v
        | some a => hasAttributes a v

/-- the loop of `NewAttributeMap` -/
def namLoop : List Str → Entries → Except WErr Entries
  | [], acc => .ok acc
  | v :: rest, acc => match splitOn [':'] v with
      | [n, x] => namLoop rest (insert ('-' :: n) (.str x) acc)
      | _ => .error .badAttrPair

/-- `NewAttributeMap(kv...)`: `(nil, nil)` without arguments -/
def newAttributeMap (kv : List Str) : Except WErr (Option Entries) :=
  if kv.isEmpty then .ok none
  else match namLoop kv [] with
    | .ok a => .ok (some a)
    | .error e => .error e

mutual
/-- the wrapper's own `hasKey(iv, key, ret)`: the stored value itself is appended (a list is
    NOT taken apart, no sub-keys, no wildcard) -/
def wHasKey (key : Str) : Val → List Val
  | .map kvs =>
      (match lookup key kvs with
        | some v => [v]
        | none => [])
      ++ wHasKeyEntries key kvs
  | .list xs => wHasKeyList key xs
  | _ => []
def wHasKeyList (key : Str) : List Val → List Val
  | [] => []
  | x :: xs => wHasKey key x ++ wHasKeyList key xs
def wHasKeyEntries (key : Str) : Entries → List Val
  | [] => []
  | (_, v) :: rest => wHasKey key v ++ wHasKeyEntries key rest
end

/-- `ValuesForKey(m, key)` (nil and the empty list are not told apart) -/
def wValuesForKey (m : Val) (key : Str) : List Val := wHasKey key m

end Mxj.Wrapper
