/-
  Mxj.Model.Forms — the API *forms* around the encoders: the Writer forms of xml.go / json.go
  (`Map.XmlWriter`, `Map.XmlIndentWriter`, `Map.JsonWriter[Raw]`, `Map.JsonIndentWriter[Raw]`)
  and the `Maps` string / file forms of files.go (`Maps.XmlString`, `Maps.XmlStringIndent`,
  `Maps.JsonString`, `Maps.JsonStringIndent`, `Maps.XmlFile`, `Maps.XmlFileIndent`,
  `Maps.JsonFile`, `Maps.JsonFileIndent`).

  Every Writer form in the Go source has the same four lines

      b, err := mv.Enc(args...)        // the byte-returning form
      if err != nil { return err }     // Raw: `return b, err`
      _, err = w.Write(b)
      return err                       // Raw: `return b, err`

  and every `Maps` string form is one loop

      var s string
      for _, v := range mvs {
          x, err := v.Enc(args...)
          if err != nil { return s, err }
          s += string(x)               // JsonStringIndent: a "\n" first, except before the first
      }
      return s, nil

  The model has ONE definition for each shape (`writerForm`, `writerFormRaw`, `mapsLoop`,
  `mapsLoopSep`), parameterised by the byte-returning encoder, and the named forms instantiate
  it with the encoders of Mxj.Model.Encode / EncodeIndent / Json.

  What is modelled as is, including the odd parts:
  * `Maps.JsonString(safeEncoding...)` and `Maps.JsonStringIndent(prefix, indent,
    safeEncoding...)` call `v.Json()` / `v.JsonIndent(prefix, indent)` WITHOUT passing the flag
    on: the members are always encoded with safeEncoding = false.  `Maps.JsonFile[Indent]`
    compute the flag and hand it to the string form, which drops it.
  * `Maps.JsonStringIndent` writes the "\n" BETWEEN members (`haveFirst`), none after the last;
    the other three string forms write no separator at all.
  * `Map.XmlWriterRaw` / `Map.XmlIndentWriterRaw` are commented out in xml.go: the only Raw
    Writer forms are the JSON ones.
  * `Map.JsonIndent` runs `json.Encoder` with `SetIndent(prefix, indent)`; the encoder indents
    only `if enc.indentPrefix != "" || enc.indentValue != ""` (encoding/json stream.go), so
    `JsonIndent("", "")` returns the COMPACT bytes (`json.MarshalIndent` would put every member
    on its own line).  `mapJsonIndent` below models `json.Indent` structurally (trusted base:
    encoding/json; compared byte for byte with the real `Map.JsonIndent` on every C06 run —
    driver op `jenci`, harness/c06.go — and see the examples in Mxj.Props.C16ExtForms; that
    `NewMapJson` reads it back is proved in Mxj.Props.C06ExtIndent).

  Not modelled: a failing `io.Writer` (the abstract `Sink` accepts every write — the forms just
  return the Writer's error, having no further effect), `os.Create` failing (the file forms
  return that error and write nothing), and the optional validity check of `Map.Xml`
  (`XmlCheckIsValid`, off by default) — exactly as in Mxj.Model.Encode.
  The JSON encoder of the model is total (the value universe is JSON-shaped: encoding/json fails
  only on channels, functions, NaN/Inf …); the JSON forms still go through the generic
  error-propagating definitions, the error branch being dead for them.

  Core Lean only, executable definitions.
-/
import Mxj.Model.EncodeIndent
import Mxj.Model.Files
namespace Mxj.Forms
open Mxj Mxj.Enc

/-! ### the abstract `io.Writer` -/

/-- an `io.Writer` that remembers what was written to it (a `bytes.Buffer`, or a file opened for
    appending / freshly created) -/
structure Sink where
  written : Str
  deriving Repr, DecidableEq

/-- a file just after `os.Create`: created or truncated -/
def Sink.empty : Sink := ⟨[]⟩

/-- `w.Write(b)` -/
def Sink.write (w : Sink) (b : Str) : Sink := ⟨w.written ++ b⟩

/-- the result of a byte-returning form: `([]byte, error)` -/
abbrev Bytes := Except ErrKind Str

/-! ### the Writer forms -/

/-- `b, err := enc(); if err != nil { return err }; _, err = w.Write(b); return err` -/
def writerForm (enc : Bytes) (w : Sink) : Sink × Option ErrKind :=
  match enc with
  | .error e => (w, some e)
  | .ok b => (w.write b, none)

/-- the Raw shape: `… return b, err`.  On an encoder error the bytes returned are the encoder's
    (`marshalJson` returns `nil, err`) -/
def writerFormRaw (enc : Bytes) (w : Sink) : Sink × Str × Option ErrKind :=
  match enc with
  | .error e => (w, [], some e)
  | .ok b => (w.write b, b, none)

/-! ### JSON: the byte-returning forms -/

/-- `mv.Json(safeEncoding...)` as a `([]byte, error)` result (never an error in the model) -/
def jsonBytes (safe : Bool) (m : Entries) : Bytes := .ok (Json.mapJson safe (.map m))

/-- `appendNewline`: "\n", the prefix, `depth` copies of the indent -/
def nlIndent (pfx ind : Str) : Nat → Str
  | 0 => '\n' :: pfx
  | d + 1 => nlIndent pfx ind d ++ ind

mutual
/-- `json.Indent` of the compact encoding of a key-sorted value at nesting depth `d`:
    `{}` and `[]` stay as they are, every other object / array puts each member on its own line
    one level deeper and the closing bracket on a line at its own level, `:` becomes `: ` -/
def encNI (html : Bool) (pfx ind : Str) : Nat → Val → Str
  | d, .list xs =>
      if xs.isEmpty then "[]".toList
      else ['['] ++ nlIndent pfx ind (d + 1) ++ encListI html pfx ind (d + 1) xs
            ++ nlIndent pfx ind d ++ [']']
  | d, .map kvs =>
      if kvs.isEmpty then "{}".toList
      else ['{'] ++ nlIndent pfx ind (d + 1) ++ encEntriesI html pfx ind (d + 1) kvs
            ++ nlIndent pfx ind d ++ ['}']
  | _, v => Json.encN html v
def encListI (html : Bool) (pfx ind : Str) : Nat → List Val → Str
  | _, [] => []
  | d, [x] => encNI html pfx ind d x
  | d, x :: y :: rest =>
      encNI html pfx ind d x ++ [','] ++ nlIndent pfx ind d ++ encListI html pfx ind d (y :: rest)
def encEntriesI (html : Bool) (pfx ind : Str) : Nat → Entries → Str
  | _, [] => []
  | d, [(k, v)] => Json.quote html k ++ [':', ' '] ++ encNI html pfx ind d v
  | d, (k, v) :: e :: rest =>
      Json.quote html k ++ [':', ' '] ++ encNI html pfx ind d v ++ [','] ++ nlIndent pfx ind d
        ++ encEntriesI html pfx ind d (e :: rest)
end

/-- `mv.JsonIndent(prefix, indent, safeEncoding...)`: the encoder indents only when the prefix
    or the indent is non-empty -/
def mapJsonIndent (safe : Bool) (pfx ind : Str) (m : Val) : Str :=
  if pfx.isEmpty && ind.isEmpty then Json.encN safe m.norm else encNI safe pfx ind 0 m.norm

def jsonIndentBytes (safe : Bool) (pfx ind : Str) (m : Entries) : Bytes :=
  .ok (mapJsonIndent safe pfx ind (.map m))

/-! ### the named Writer forms -/

/-- `mv.XmlWriter(w, rootTag...)` -/
def xmlWriter (cfg : EncCfg) (m : Entries) (rt : Option Str) (w : Sink) : Sink × Option ErrKind :=
  writerForm (mapXml cfg m rt) w

/-- `mv.XmlIndentWriter(w, prefix, indent, rootTag...)` -/
def xmlIndentWriter (cfg : EncCfg) (pfx indent : Str) (m : Entries) (rt : Option Str) (w : Sink) :
    Sink × Option ErrKind :=
  writerForm (mapXmlIndent cfg pfx indent m rt) w

/-- `mv.JsonWriter(w, safeEncoding...)` -/
def jsonWriter (safe : Bool) (m : Entries) (w : Sink) : Sink × Option ErrKind :=
  writerForm (jsonBytes safe m) w

/-- `mv.JsonIndentWriter(w, prefix, indent, safeEncoding...)` -/
def jsonIndentWriter (safe : Bool) (pfx ind : Str) (m : Entries) (w : Sink) :
    Sink × Option ErrKind :=
  writerForm (jsonIndentBytes safe pfx ind m) w

/-- `mv.JsonWriterRaw(w, safeEncoding...)` -/
def jsonWriterRaw (safe : Bool) (m : Entries) (w : Sink) : Sink × Str × Option ErrKind :=
  writerFormRaw (jsonBytes safe m) w

/-- `mv.JsonIndentWriterRaw(w, prefix, indent, safeEncoding...)` -/
def jsonIndentWriterRaw (safe : Bool) (pfx ind : Str) (m : Entries) (w : Sink) :
    Sink × Str × Option ErrKind :=
  writerFormRaw (jsonIndentBytes safe pfx ind m) w

/-! ### the `Maps` string forms -/

/-- `type Maps []Map` -/
abbrev Maps := List Entries

/-- two lists of the same length related member by member (used only to STATE theorems:
    "`xs` are the encodings of `ms`", "every member of `ms'` is the member of `ms` at the same
    position with its entries in another order") -/
inductive All₂ {α β : Type} (R : α → β → Prop) : List α → List β → Prop
  | nil : All₂ R [] []
  | cons {a : α} {b : β} {as : List α} {bs : List β} :
      R a b → All₂ R as bs → All₂ R (a :: as) (b :: bs)

/-- `xs` are the encodings of `ms`, member by member (all of them succeed) -/
abbrev Encodes (enc : Entries → Bytes) (ms : Maps) (xs : List Str) : Prop :=
  All₂ (fun m x => enc m = .ok x) ms xs

/-- the loop of `XmlString` / `XmlStringIndent` / `JsonString` from the accumulated string `s`:
    `(string, error)` -/
def mapsLoop (enc : Entries → Bytes) : Maps → Str → Str × Option ErrKind
  | [], s => (s, none)
  | v :: rest, s =>
    match enc v with
    | .error e => (s, some e)
    | .ok x => mapsLoop enc rest (s ++ x)

/-- the loop of `JsonStringIndent`: the state is `(haveFirst, s)` -/
def mapsLoopSep (enc : Entries → Bytes) : Maps → Bool → Str → Str × Option ErrKind
  | [], _, s => (s, none)
  | v :: rest, haveFirst, s =>
    match enc v with
    | .error e => (s, some e)
    | .ok j => mapsLoopSep enc rest true ((if haveFirst then s ++ ['\n'] else s) ++ j)

/-- `mvs.XmlString()` -/
def mapsXmlString (cfg : EncCfg) (ms : Maps) : Str × Option ErrKind :=
  mapsLoop (fun m => mapXml cfg m none) ms []

/-- `mvs.XmlStringIndent(prefix, indent)` -/
def mapsXmlStringIndent (cfg : EncCfg) (pfx indent : Str) (ms : Maps) : Str × Option ErrKind :=
  mapsLoop (fun m => mapXmlIndent cfg pfx indent m none) ms []

/-- `mvs.JsonString(safeEncoding...)`: the argument is not used — every member is `v.Json()` -/
def mapsJsonString (_safe : Bool) (ms : Maps) : Str × Option ErrKind :=
  mapsLoop (jsonBytes false) ms []

/-- `mvs.JsonStringIndent(prefix, indent, safeEncoding...)`: members `v.JsonIndent(prefix,
    indent)` (the flag is not used), a "\n" before every member but the first -/
def mapsJsonStringIndent (pfx ind : Str) (_safe : Bool) (ms : Maps) : Str × Option ErrKind :=
  mapsLoopSep (jsonIndentBytes false pfx ind) ms false []

/-- what the doc comments of the file forms recommend for appending ("open it and use
    XmlWriter"): one Writer-form call per member on the same Writer, stopping at the first
    error -/
def writeAll (wr : Entries → Sink → Sink × Option ErrKind) : Maps → Sink → Sink × Option ErrKind
  | [], w => (w, none)
  | m :: rest, w =>
    match wr m w with
    | (w', some e) => (w', some e)
    | (w', none) => writeAll wr rest w'

/-! ### the `Maps` file forms -/

/-- `s, err := mvs.XxxString(…); if err != nil { return err }; fh, _ := os.Create(file);
    fh.WriteString(s); return nil` on the file's previous content: on an encoder error the file
    is not touched, otherwise it is truncated and the string written -/
def fileForm (str : Str × Option ErrKind) (old : Sink) : Sink × Option ErrKind :=
  match str.2 with
  | some e => (old, some e)
  | none => (Sink.empty.write str.1, none)

/-- `mvs.XmlFile(file)` -/
def mapsXmlFile (cfg : EncCfg) (ms : Maps) (old : Sink) : Sink × Option ErrKind :=
  fileForm (mapsXmlString cfg ms) old

/-- `mvs.XmlFileIndent(file, prefix, indent)` -/
def mapsXmlFileIndent (cfg : EncCfg) (pfx indent : Str) (ms : Maps) (old : Sink) :
    Sink × Option ErrKind :=
  fileForm (mapsXmlStringIndent cfg pfx indent ms) old

/-- `mvs.JsonFile(file, safeEncoding...)` -/
def mapsJsonFile (safe : Bool) (ms : Maps) (old : Sink) : Sink × Option ErrKind :=
  fileForm (mapsJsonString safe ms) old

/-- `mvs.JsonFileIndent(file, prefix, indent, safeEncoding...)` -/
def mapsJsonFileIndent (pfx ind : Str) (safe : Bool) (ms : Maps) (old : Sink) :
    Sink × Option ErrKind :=
  fileForm (mapsJsonStringIndent pfx ind safe ms) old

end Mxj.Forms
