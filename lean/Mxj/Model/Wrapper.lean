/-
  Mxj.Model.Wrapper — model of the walkers x2j-wrapper implements itself
  (x2j_valuesFrom.go, x2j_valuesAt.go, x2j_findPath.go as repaired), to be related to the core
  models in Mxj.Model.Path (C20).
-/
import Mxj.Model.Path
namespace Mxj.Wrapper
open Mxj

/-- `string(k[:1]) == "-"` (total form; Maps decoded from XML have no empty keys) -/
def isDashKey (k : Str) : Bool := k.head? = some '-'

/-- the leaf case of the wrapper's `valuesFromKeyPath` -/
def wLeaf : Val → List Val
  | .list xs => xs
  | v => [v]

/-- `valuesFromKeyPath(ret, m, keys, getAttrs)` -/
def wWalk (getAttrs : Bool) : Val → List Str → List Val
  | m, [] => wLeaf m
  | .map kvs, k :: ks =>
      if k = ['*'] then
        kvs.flatMap fun e => if isDashKey e.1 && !getAttrs then [] else wWalk getAttrs e.2 ks
      else match lookup k kvs with
        | some v => wWalk getAttrs v ks
        | none => []
  | .list xs, k :: ks =>
      if k = ['*'] then
        xs.flatMap fun x => match x with
          | .map kvs => kvs.flatMap fun e =>
              if isDashKey e.1 && !getAttrs then [] else wWalk getAttrs e.2 ks
          | v => wWalk getAttrs v ks
      else
        xs.flatMap fun x => match x with
          | .map kvs => match lookup k kvs with
              | some v => wWalk getAttrs v ks
              | none => []
          | _ => []
  | _, _ :: _ => []
termination_by _ ks => ks.length
decreasing_by all_goals simp_wf <;> omega

/-- `ValuesFromKeyPath(m, path, getAttrs)` (the path is split on "." as is: no trailing-dot rule) -/
def valuesFromKeyPath (m : Val) (path : Str) (getAttrs : Bool) : List Val :=
  wWalk getAttrs m (splitDot path)

/-- `ValuesAtKeyPath(m, path, getAttrs)`: the values at the parent path when one of them holds
    the last key (or the last key is "*") -/
def valuesAtKeyPath (m : Val) (path : Str) (getAttrs : Bool) : List Val :=
  let keys := splitDot path
  let parent := if keys.length > 1 then wWalk getAttrs m keys.dropLast else [m]
  let key := keys.getLast?.getD []
  if parent.isEmpty then []
  else if key = ['*'] then parent
  else if parent.any (fun v => match v with
      | .map kvs => (lookup key kvs).isSome
      | _ => false) then parent
  else []

/-- the core walk with attribute entries (keys starting with '-') skipped at wildcard steps:
    the specification of the wrapper's default mode -/
def walkNoAttrs : Val → List Str → List Val
  | m, [] => loadLeaf none m
  | .map kvs, k :: ks =>
      if k = ['*'] then (kvs.filter fun e => !isDashKey e.1).flatMap fun e => walkNoAttrs e.2 ks
      else match lookup k kvs with
        | some v => walkNoAttrs v ks
        | none => []
  | .list xs, k :: ks =>
      if k = ['*'] then
        xs.flatMap fun x => match x with
          | .map kvs => (kvs.filter fun e => !isDashKey e.1).flatMap fun e => walkNoAttrs e.2 ks
          | v => walkNoAttrs v ks
      else
        xs.flatMap fun x => match x with
          | .map kvs => match lookup k kvs with
              | some v => walkNoAttrs v ks
              | none => []
          | _ => []
  | _, _ :: _ => []
termination_by _ ks => ks.length
decreasing_by all_goals simp_wf <;> omega

end Mxj.Wrapper
