/-
  Mxj.Model.NewMap — model of newmap.go (Map.NewMap, addNewVal) as repaired: values are
  copied on insertion, so the new Map shares no map or slice with the receiver and the pure
  functional model is faithful (the receiver is never written).
-/
import Mxj.Model.Path
namespace Mxj

/-- the final store of `addNewVal`: nil → set, list → append, anything else → pair -/
def storeNew (newVal : Val) (k : Str) (n : Entries) : Entries :=
  match lookup k n with
  | none | some .null => insert k newVal n
  | some (.list a) => insert k (.list (a ++ [newVal])) n
  | some v => insert k (.list [v, newVal]) n

/-- in a list met on the way, continue in the first member that is a map or nil (a nil
    member is replaced by a fresh map); `f` is the continuation on that map's entries.
    Returns the rebuilt list, or `none` when no such member exists. -/
def descendFirst (f : Entries → Entries) : List Val → Option (List Val)
  | [] => none
  | .null :: rest => some (.map (f []) :: rest)
  | .map mm :: rest => some (.map (f mm) :: rest)
  | x :: rest => (descendFirst f rest).map (x :: ·)

/-- `addNewVal(&n, path, val)` given the already chosen `newVal` -/
def addNewVal (newVal : Val) : Entries → List Str → Entries
  | n, [] => n
  | n, [k] => storeNew newVal k n
  | n, k :: k' :: ks =>
    match lookup k n with
    | none | some .null => insert k (.map (addNewVal newVal [] (k' :: ks))) n
    | some (.map mm) => insert k (.map (addNewVal newVal mm (k' :: ks))) n
    | some (.list a) =>
        match descendFirst (fun mm => addNewVal newVal mm (k' :: ks)) a with
        | some a' => insert k (.list a') n
        | none => insert k (.list (a ++ [.map (addNewVal newVal [] (k' :: ks))])) n
    | some v => insert k (.list [v, .map (addNewVal newVal [] (k' :: ks))]) n

/-- single value or list (`len(val) == 1`) -/
def singleOrList : List Val → Val
  | [v] => v
  | vs => .list vs

/-- the new-key path: a trailing dot is ignored -/
def newKeyPath (newKey : Str) : List Str := dropTrailingEmpty (splitDot newKey)

/-- `mv.NewMap(keypairs...)`: returns the Map built so far together with the error, as the Go
    code does.  `vfp` stands for `mv.ValuesForPath(oldKey)`. -/
def newMapLoop (vfp : Str → Except ErrKind (List Val)) :
    List Str → Entries → Entries × Option ErrKind
  | [], n => (n, none)
  | v :: rest, n =>
    if v.isEmpty then newMapLoop vfp rest n
    else
      let kp : Option (Str × Str) := match splitOn [':'] v with
        | [a] => some (a, a)
        | [a, b] => some (a, b)
        | _ => none
      match kp with
      | none => (n, some .keypair)
      | some (oldKey, newKey) =>
        if newKey.contains '*' then (n, some .keypair)
        else if newKey.contains '[' then (n, some .keypair)
        else if oldKey.isEmpty || newKey.isEmpty then (n, some .keypair)
        else match vfp oldKey with
          | .error e => (n, some e)
          | .ok [] => newMapLoop vfp rest n
          | .ok vs => newMapLoop vfp rest (addNewVal (singleOrList vs) n (newKeyPath newKey))

def newMap (m : Val) (pairs : List Str) : Entries × Option ErrKind :=
  newMapLoop (fun p => valuesForPath [':'] (fun _ => none) m p []) pairs []

end Mxj
