/-
  Mxj.Model.Seq — model of xmlseq.go: the sequence-preserving decoder
  (`xmlSeqToMapParser`, over `Decoder.RawToken`) and encoder (`mapToXmlSeqIndent`, compact).
  As repaired:
    * a stray end tag ahead of any root is an error, not a write to a nil map;
    * consecutive CharData tokens (text + CDATA) are one run with one sequence number;
    * mixed content: the element's text is written ahead of its child elements (as the Map
      encoder does) instead of being sorted with them (which failed a type assertion);
    * a non-string text value (cast number/boolean) is written with `%v` instead of dropped;
    * with XmlGoEmptyElemSyntax an element without content closes its start tag.
-/
import Mxj.Model.Encode
import Mxj.Model.Decode
namespace Mxj

structure SeqCfg where
  snake : Bool := false
  keepSpace : Bool := false
  escDec : Bool := false
  cast : CastCfg := {}
  textK : Str := "#text".toList
  seqK : Str := "#seq".toList
  attrK : Str := "#attr".toList
  commentK : Str := "#comment".toList
  directiveK : Str := "#directive".toList
  procinstK : Str := "#procinst".toList
  targetK : Str := "#target".toList
  instK : Str := "#inst".toList
  deriving Repr

def SeqCfg.dec (c : SeqCfg) : DecCfg :=
  { keepSpace := c.keepSpace, escDec := c.escDec, cast := c.cast, textK := c.textK }

def seqNum (n : Nat) : Val := .num ("i:".toList ++ natToStr n)

/-- `space:local` or `local` (RawToken keeps the prefix in Name.Space) -/
def qualName (c : SeqCfg) (space name : Str) : Str :=
  let l := if c.snake then snakeCase name else name
  if space.isEmpty then l else space ++ [':'] ++ l

/-- `#attr` map: every attribute with its value and position -/
def seqAttrs (c : SeqCfg) (S : Strconv) : Nat → List Attr → Entries → Entries
  | _, [], acc => acc
  | i, a :: rest, acc =>
      let v := escDecIf c.dec a.value
      seqAttrs c S (i + 1) rest
        (insert (qualName c a.space a.name)
          (.map [(c.textK, cast S c.cast v []), (c.seqK, seqNum i)]) acc)

def seqInitNa (c : SeqCfg) (S : Strconv) (attrs : List Attr) : Entries :=
  if attrs.isEmpty then [] else [(c.attrK, .map (seqAttrs c S 0 attrs []))]

/-- decoration of a decoded child with its sequence number -/
def seqChild (c : SeqCfg) (seq : Nat) (v : Val) : Val :=
  match v with
  | .map kvs => .map (insert c.seqK (seqNum seq) kvs)
  | s => .map [(c.textK, s), (c.seqK, seqNum seq)]

/-- the token loop for `skey != ""`: returns the value stored under `skey`.
    `pend` = character data of the current run of CharData tokens and whether the run has
    already been given its sequence number -/
def seqElem (c : SeqCfg) (S : Strconv) (fin : StreamEnd) :
    Nat → Str → Entries → Nat → Option (Str × Bool) → List Tok → Outcome (Val × List Tok)
  | 0, _, _, _, _, _ => .err .other
  | _ + 1, _, _, _, _, [] => match fin with
      | .eof => .eof
      | .bad => .syntax
  | f + 1, skey, na, seq, _, .start sp name attrs :: rest =>
      let ckey := qualName c sp name
      match seqElem c S fin f ckey (seqInitNa c S attrs) 0 none rest with
      | .ok (v, rest') => seqElem c S fin f skey (addChild na ckey (seqChild c seq v)) (seq + 1) none rest'
      | .eof => .eof
      | .syntax => .syntax
      | .err k => .err k
      | .panic s => .panic s
  | _ + 1, skey, na, _, _, .stop sp name :: rest =>
      if qualName c sp name ≠ skey then .err .other     -- "element … not properly terminated"
      else .ok (if na.isEmpty then .str [] else .map na, rest)
  | f + 1, skey, na, seq, pend, .text s :: rest =>
      let raw := (match pend with | some (p, _) => p | none => []) ++ s
      let numbered := match pend with | some (_, b) => b | none => false
      let tt := escDecIf c.dec (trimChars (trimSet c.dec) raw)
      if tt.isEmpty then seqElem c S fin f skey na seq (some (raw, numbered)) rest
      else if numbered then
        seqElem c S fin f skey (insert c.textK (cast S c.cast tt []) na) seq (some (raw, true)) rest
      else
        seqElem c S fin f skey
          (insert c.seqK (seqNum seq) (insert c.textK (cast S c.cast tt []) na)) (seq + 1)
          (some (raw, true)) rest
  | f + 1, skey, na, seq, _, .comment s :: rest =>
      seqElem c S fin f skey (insert c.commentK (.map [(c.textK, .str s), (c.seqK, seqNum seq)]) na) (seq + 1) none rest
  | f + 1, skey, na, seq, _, .directive s :: rest =>
      seqElem c S fin f skey (insert c.directiveK (.map [(c.textK, .str s), (c.seqK, seqNum seq)]) na) (seq + 1) none rest
  | f + 1, skey, na, seq, _, .procinst t i :: rest =>
      seqElem c S fin f skey
        (insert c.procinstK (.map [(c.targetK, .str t), (c.instK, .str i), (c.seqK, seqNum seq)]) na)
        (seq + 1) none rest

/-- result of the top-level call: a MapSeq, or the documented no-root result -/
inductive SeqTop where
  | doc (m : Val)
  | noRoot (m : Val)
  deriving Repr

/-- the first call (`skey == ""`) -/
def seqTop (c : SeqCfg) (S : Strconv) (fin : StreamEnd) : Nat → List Tok → Outcome SeqTop
  | 0, _ => .err .other
  | _ + 1, [] => match fin with
      | .eof => .eof
      | .bad => .syntax
  | f + 1, .start sp name attrs :: rest =>
      let key := qualName c sp name
      match seqElem c S fin f key (seqInitNa c S attrs) 0 none rest with
      | .ok (v, _) => .ok (.doc (.map [(key, v)]))
      | .eof => .eof
      | .syntax => .syntax
      | .err k => .err k
      | .panic s => .panic s
  | _ + 1, .stop _ _ :: _ => .err .other            -- repaired: stray end tag
  | f + 1, .text _ :: rest => seqTop c S fin f rest
  | _ + 1, .comment s :: _ => .ok (.noRoot (.map [(c.commentK, .str s)]))
  | _ + 1, .directive s :: _ => .ok (.noRoot (.map [(c.directiveK, .str s)]))
  | _ + 1, .procinst t i :: _ =>
      .ok (.noRoot (.map [(c.procinstK, .map [(c.targetK, .str t), (c.instK, .str i)])]))

def newMapXmlSeq (c : SeqCfg) (S : Strconv) (toks : List Tok) (fin : StreamEnd) : Outcome SeqTop :=
  seqTop c S fin (toks.length + 1) toks

/-! ### encoder -/

/-- the `#seq` of a map value as `elemListSeq.Less` reads it (int; anything else sorts last) -/
def seqOf (c : SeqCfg) : Val → Nat
  | .map kvs => match lookup c.seqK kvs with
      | some (.num ('i' :: ':' :: ds)) => if ds.all isDigit && !ds.isEmpty then digitsVal ds 0 else 9999999
      | _ => 9999999
  | _ => 9999999

def insertBySeq (c : SeqCfg) (e : Str × Val) : List (Str × Val) → List (Str × Val)
  | [] => [e]
  | x :: xs => if seqOf c x.2 ≤ seqOf c e.2 then x :: insertBySeq c e xs else e :: x :: xs

/-- `sort.Sort(elemListSeq(kv))` for pairwise distinct sequence numbers -/
def sortBySeq (c : SeqCfg) (l : List (Str × Val)) : List (Str × Val) := l.foldr (insertBySeq c) []

/-- unroll lists into separate `(key, member)` entries -/
def unrollEntries (c : SeqCfg) : Entries → List (Str × Val)
  | [] => []
  | (k, v) :: rest =>
      if k = c.attrK || k = c.seqK || k = c.textK then unrollEntries c rest
      else match v with
        | .list xs => xs.map (fun x => (k, x)) ++ unrollEntries c rest
        | v => (k, v) :: unrollEntries c rest

def seqAttrText (c : SeqCfg) (esc : Bool) (k : Str) (v : Val) : Outcome Str :=
  match v with
  | .map vv => match lookup c.textK vv with
      | some (.str s) => .ok (" ".toList ++ k ++ "=\"".toList ++ (if esc then escapeChars s else s) ++ "\"".toList)
      | some (.num t) => .ok (" ".toList ++ k ++ "=\"".toList ++ numText t ++ "\"".toList)
      | some (.bool b) => .ok (" ".toList ++ k ++ "=\"".toList ++ (if b then "true".toList else "false".toList) ++ "\"".toList)
      | _ => .err .other
  | _ => .panic "attribute value is not a map"

def seqAttrsText (c : SeqCfg) (esc : Bool) : List (Str × Val) → Outcome Str
  | [] => .ok []
  | (k, v) :: rest =>
    match seqAttrText c esc k v, seqAttrsText c esc rest with
    | .ok a, .ok r => .ok (a ++ r)
    | .ok _, o => o
    | o, _ => o

def strOf : Option Val → Option Str
  | some (.str s) => some s
  | _ => none

mutual
/-- `mapToXmlSeqIndent(false, sb, key, value, p)` -/
def seqEnc (c : SeqCfg) (esc goEmpty : Bool) : Nat → Str → Val → Outcome Str
  | 0, _, _ => .err .other
  | f + 1, key, .map val =>
      if key = c.commentK then
        match strOf (lookup c.textK val) with
        | some s => .ok ("<!--".toList ++ s ++ "-->".toList)
        | none => .panic "comment text is not a string"
      else if key = c.directiveK then
        match strOf (lookup c.textK val) with
        | some s => .ok ("<!".toList ++ s ++ ">".toList)
        | none => .panic "directive text is not a string"
      else if key = c.procinstK then
        match strOf (lookup c.targetK val), strOf (lookup c.instK val) with
        | some t, some i => .ok ("<?".toList ++ t ++ " ".toList ++ i ++ "?>".toList)
        | _, _ => .panic "procinst target/inst is not a string"
      else
        let attrs : Outcome (Str × Bool) := match lookup c.attrK val with
          | some (.map av) => match seqAttrsText c esc (sortBySeq c av) with
              | .ok a => .ok (a, true)
              | .eof => .eof | .syntax => .syntax | .err k => .err k | .panic s => .panic s
          | _ => .ok ([], false)
        match attrs with
        | .ok (atext, haveAttrs) =>
          let openTag := "<".toList ++ key ++ atext
          let seqOK := (lookup c.seqK val).isSome
          let n := val.length
          let emptyClose := if goEmpty then ">".toList ++ closeTag key else "/>".toList
          match lookup c.textK val with
          | some tv =>
            if ((n = 3 && haveAttrs) || (n = 2 && !haveAttrs)) && seqOK then
              -- simple element: text (+ attributes)
              let txt := match tv with
                | .str s => some (if esc then escapeChars s else s)
                | v => fmtV v
              match txt with
              | some t => if t.isEmpty then .ok (openTag ++ emptyClose)
                          else .ok (openTag ++ ">".toList ++ t ++ closeTag key)
              | none => .err .other
            else
              let txt := match tv with
                | .str s => some (if esc then escapeChars s else s)
                | v => fmtV v
              match txt, seqKids c esc goEmpty f (sortBySeq c (unrollEntries c val)) with
              | some t, .ok kids => .ok (openTag ++ ">".toList ++ t ++ kids ++ closeTag key)
              | none, _ => .err .other
              | _, o => o
          | none =>
            if ((n = 2 && haveAttrs) || (n = 1 && !haveAttrs)) && seqOK then .ok (openTag ++ emptyClose)
            else match seqKids c esc goEmpty f (sortBySeq c (unrollEntries c val)) with
              | .ok kids => .ok (openTag ++ ">".toList ++ kids ++ closeTag key)
              | o => o
        | .eof => .eof | .syntax => .syntax | .err k => .err k | .panic s => .panic s
  | f + 1, key, .list xs => seqMembers c esc goEmpty f key xs
  | _ + 1, key, .str s =>
      let v := if esc then escapeChars s else s
      .ok ("<".toList ++ key ++ (if v.isEmpty then [] else ">".toList ++ v) ++ endOf { goEmpty := goEmpty } key v.length)
  | _ + 1, key, .null => .ok ("<".toList ++ key)
  | _ + 1, key, v =>
      match fmtV v with
      | some t => .ok ("<".toList ++ key ++ ">".toList ++ t ++ closeTag key)
      | none => .err .other
def seqMembers (c : SeqCfg) (esc goEmpty : Bool) : Nat → Str → List Val → Outcome Str
  | _, _, [] => .ok []
  | f, key, x :: xs =>
    match seqEnc c esc goEmpty f key x with
    | .ok a => match seqMembers c esc goEmpty f key xs with
      | .ok r => .ok (a ++ r)
      | o => o
    | o => o
def seqKids (c : SeqCfg) (esc goEmpty : Bool) : Nat → List (Str × Val) → Outcome Str
  | _, [] => .ok []
  | f, (k, v) :: rest =>
    match seqEnc c esc goEmpty f k v with
    | .ok a => match seqKids c esc goEmpty f rest with
      | .ok r => .ok (a ++ r)
      | o => o
    | o => o
end

mutual
def Val.depth : Val → Nat
  | .list xs => Val.depthList xs + 1
  | .map kvs => Val.depthEntries kvs + 1
  | _ => 1
def Val.depthList : List Val → Nat
  | [] => 0
  | x :: xs => max (Val.depth x) (Val.depthList xs)
def Val.depthEntries : Entries → Nat
  | [] => 0
  | (_, v) :: rest => max (Val.depth v) (Val.depthEntries rest)
end

/-- `msv.Xml()` (no root tag argument) before the validity check -/
def mapSeqXml (c : SeqCfg) (esc goEmpty : Bool) (m : Entries) : Outcome Str :=
  let fuel := 2 * Val.depth (.map m) + 2
  match m with
  | [(key, .list xs)] =>
      if allMaps xs then seqEnc c esc goEmpty fuel key (.list xs)
      else seqEnc c esc goEmpty fuel defaultRootTag (.map m)
  | [(key, v)] => seqEnc c esc goEmpty fuel key v
  | _ => seqEnc c esc goEmpty fuel defaultRootTag (.map m)

end Mxj
