/-
  Mxj.Model.Path — model of keyvalues.go / exists.go:
    hasSubKeys, getSubKeyMap, valuesForKeyPath, oldValuesForPath, parsePath,
    valuesForArray, ValuesForPath, ValueForPath, Exists, hasKey (ValuesForKey),
    hasKeyPath (PathsForKey), PathForKeyShortest.

  Go's randomised `range` over a map is modelled by iterating the association list in
  its given order; theorems about results that depend on that order are stated up to
  permutation (Mxj.Props.*).
-/
import Mxj.Model.Str
namespace Mxj

/-- the value side of a parsed sub-key condition (`getSubKeyMap`) -/
inductive SubVal where
  | str (s : Str)
  | bool (b : Bool)
  /-- a float64, carried as the `%v` text of the parsed value (tagged like `Val.num`) -/
  | num (t : Str)
  deriving Repr, DecidableEq, Inhabited

abbrev SubKeys := List (Str × SubVal)

/-- errors are compared by kind only -/
inductive ErrKind where
  | subkeySpec | subkeyBool | subkeyFloat | subkeyType
  | noRightBracket | badIndex
  | pathNotExist | keyNotExist
  | newValLen | newValSpec | newValBool | newValFloat | newValType
  | notAMap | renameNotFound | renameExists | prevNotFound
  | keypair | other
  deriving Repr, DecidableEq, Inhabited

/-- Go map store on the sub-key map (later duplicate overwrites) -/
def SubKeys.put (k : Str) (v : SubVal) : SubKeys → SubKeys
  | [] => [(k, v)]
  | (k', v') :: rest => if k = k' then (k, v) :: rest else (k', v') :: SubKeys.put k v rest

/-- Go's `==` on two float64 values given by their `%v` texts (which determine the value):
    equal texts are equal values except for NaN; the two zeros are equal although their texts
    differ -/
def numEq (t t' : Str) : Bool :=
  let z := fun (x : Str) => x == "f:0".toList || x == "f:-0".toList
  if t == "f:NaN".toList || t' == "f:NaN".toList then false
  else t == t' || (z t && z t')

/-- does one `skey:sval` condition hold of the map entries `mv`?  (`hasSubKeys` loop body;
    the "!"-test is the `strings.HasPrefix` form, which is total) -/
def subCond (mv : Entries) (skey : Str) (sval : SubVal) : Bool :=
  let isNot := hasPrefix ['!'] skey
  let key := if isNot then skey.drop 1 else skey
  let star := decide (sval = SubVal.str ['*'])
  match lookup key mv with
  | none => isNot && star
  | some vv =>
    if star then !isNot
    else
      let eq := match sval, vv with
        | .str s, .str s' => s == s'
        | .bool b, .bool b' => b == b'
        | .num t, .num t' => numEq t t'
        | _, _ => false
      if eq then !isNot else isNot

/-- `hasSubKeys(v, subkeys)` -/
def hasSubKeys (v : Val) (subs : SubKeys) : Bool :=
  if subs.isEmpty then true
  else match v with
    | .map mv => subs.all fun (k, sv) => subCond mv k sv
    | _ => false

/-- `hasSubKeys` guarded by `subkeys != nil` as at the leaves of `valuesForKeyPath` -/
def passSubs (subs : Option SubKeys) (v : Val) : Bool :=
  match subs with
  | none => true
  | some s => hasSubKeys v s

/-- the leaf case of `valuesForKeyPath` (lenKeys == 0) -/
def loadLeaf (subs : Option SubKeys) : Val → List Val
  | .map kvs => if passSubs subs (.map kvs) then [.map kvs] else []
  | .list xs => xs.filter (passSubs subs)
  | v => match subs with
      | none => [v]
      | some _ => []

/-- `valuesForKeyPath(ret, cnt, m, keys, subkeys)` — returns what is appended to `ret` -/
def walk (subs : Option SubKeys) : Val → List Str → List Val
  | m, [] => loadLeaf subs m
  | .map kvs, k :: ks =>
      if k = ['*'] then kvs.flatMap fun e => walk subs e.2 ks
      else match lookup k kvs with
        | some v => walk subs v ks
        | none => []
  | .list xs, k :: ks =>
      if k = ['*'] then
        xs.flatMap fun x => match x with
          | .map kvs => kvs.flatMap fun e => walk subs e.2 ks
          | v => walk subs v ks
      else
        xs.flatMap fun x => match x with
          | .map kvs => match lookup k kvs with
              | some v => walk subs v ks
              | none => []
          | _ => []
  | _, _ :: _ => []
termination_by _ ks => ks.length
decreasing_by all_goals simp_wf <;> omega

/-- type spec words of `getSubKeyMap` -/
def isStringType (t : Str) : Bool :=
  t = "string".toList || t = "char".toList || t = "text".toList
def isBoolType (t : Str) : Bool := t = "bool".toList || t = "boolean".toList
def isFloatType (t : Str) : Bool :=
  t = "float".toList || t = "float64".toList || t = "num".toList
    || t = "number".toList || t = "numeric".toList

/-- `getSubKeyMap(kv...)`; `pf` stands for `strconv.ParseFloat(·, 64)` returning the
    tagged `%v` text of the parsed value. -/
def getSubKeyMap (fieldSep : Str) (pf : Str → Option Str) :
    List Str → SubKeys → Except ErrKind SubKeys
  | [], acc => .ok acc
  | v :: rest, acc =>
    match splitOn fieldSep v with
    | [k, x] => getSubKeyMap fieldSep pf rest (acc.put k (.str x))
    | [k, x, t] =>
        if isStringType t then getSubKeyMap fieldSep pf rest (acc.put k (.str x))
        else if isBoolType t then
          match parseBool x with
          | some b => getSubKeyMap fieldSep pf rest (acc.put k (.bool b))
          | none => .error .subkeyBool
        else if isFloatType t then
          match pf x with
          | some f => getSubKeyMap fieldSep pf rest (acc.put k (.num f))
          | none => .error .subkeyFloat
        else .error .subkeyType
    | _ => .error .subkeySpec

/-- the `if len(subkeys) > 0 { subKeyMap, err = getSubKeyMap(...) }` preamble -/
def subKeyArg (fieldSep : Str) (pf : Str → Option Str) (subkeys : List Str) :
    Except ErrKind (Option SubKeys) :=
  if subkeys.isEmpty then .ok none
  else match getSubKeyMap fieldSep pf subkeys [] with
    | .ok s => .ok (some s)
    | .error e => .error e

/-- drop one trailing empty segment (`oldValuesForPath`) -/
def dropTrailingEmpty (ks : List Str) : List Str :=
  match ks.getLast? with
  | some [] => ks.dropLast
  | _ => ks

def pathKeys (path : Str) : List Str := dropTrailingEmpty (splitDot path)

/-- `mv.oldValuesForPath(path)` with an already parsed sub-key map -/
def oldValues (subs : Option SubKeys) (m : Val) (path : Str) : List Val :=
  walk subs m (pathKeys path)

structure Key where
  name : Str
  isArray : Bool
  position : Nat
  deriving Repr, DecidableEq, Inhabited

/-- one segment of `parsePath` (segment known to be non-empty) -/
def parseSeg (seg : Str) : Except ErrKind Key :=
  if !seg.contains '[' then .ok ⟨seg, false, 0⟩
  else
    match splitOn ['['] seg with
    | name :: idx :: _ =>
      match splitOn [']'] idx with
      | p0 :: _ =>
        if p0.isEmpty then .error .noRightBracket
        else match parseInt32 p0 with
          | some n => if n < 0 then .error .badIndex else .ok ⟨name, true, n.toNat⟩
          | none => .error .badIndex
      | [] => .error .noRightBracket
    | _ => .error .noRightBracket

/-- `parsePath(s)` -/
def parsePathSegs : List Str → Except ErrKind (List Key)
  | [] => .ok []
  | seg :: rest =>
    if seg.isEmpty then parsePathSegs rest
    else match parseSeg seg with
      | .error e => .error e
      | .ok k => match parsePathSegs rest with
        | .error e => .error e
        | .ok ks => .ok (k :: ks)

def parsePath (s : Str) : Except ErrKind (List Key) := parsePathSegs (splitDot s)

def nextIsArray : List Key → Bool
  | k :: _ => k.isArray
  | [] => false

/-- `valuesForArray(keys, m)`.  `tmp` is `tmppath` (`none` = `!haveFirst`), `vals` the
    loop-carried `vals` variable. -/
def vfa : List Key → Val → Option Str → List Val → List Val
  | [], _, _, vals => vals
  | k :: rest, m, tmp, vals =>
    let tmppath := match tmp with
      | none => k.name
      | some t => t ++ ['.'] ++ k.name
    if !k.isArray && nextIsArray rest then
      -- look-ahead: explode wildcards and un-indexed lists, recurse on each map value
      (oldValues none m tmppath).flatMap fun v => match v with
        | .map am => vfa rest (.map am) none []
        | _ => []
    else if k.isArray || rest.isEmpty then
      let vals' := oldValues none m tmppath
      if rest.isEmpty && !k.isArray then vals'
      else if vals'.length ≤ k.position then []
      else if rest.isEmpty then (vals'.drop k.position).take 1
      else match vals'[k.position]? with
        | some (.map amm) => vfa rest (.map amm) none vals'
        | _ => []
    else vfa rest m (some tmppath) vals

def valuesForArray (keys : List Key) (m : Val) : List Val := vfa keys m none []

/-- `mv.ValuesForPath(path, subkeys...)` -/
def valuesForPath (fieldSep : Str) (pf : Str → Option Str)
    (m : Val) (path : Str) (subkeys : List Str) : Except ErrKind (List Val) :=
  if !path.contains '[' then
    match subKeyArg fieldSep pf subkeys with
    | .error e => .error e
    | .ok subs => .ok (oldValues subs m path)
  else
    match subKeyArg fieldSep pf subkeys with
    | .error e => .error e
    | .ok subs =>
      match parsePath path with
      | .error e => .error e
      | .ok keys =>
        .ok ((valuesForArray keys m).filter fun v => hasSubKeys v (subs.getD []))

/-- `mv.ValueForPath(path)` -/
def valueForPath (m : Val) (path : Str) : Except ErrKind Val :=
  match valuesForPath [':'] (fun _ => none) m path [] with
  | .error e => .error e
  | .ok [] => .error .pathNotExist
  | .ok (v :: _) => .ok v

/-- `mv.Exists(path, subkeys...)` -/
def pathExists (fieldSep : Str) (pf : Str → Option Str)
    (m : Val) (path : Str) (subkeys : List Str) : Except ErrKind Bool :=
  match valuesForPath fieldSep pf m path subkeys with
  | .error e => .error e
  | .ok vs => .ok (!vs.isEmpty)

/-! ### ValuesForKey -/

/-- the value-of-interest part of `hasKey` for one value stored under the key -/
def loadKeyVal (subs : SubKeys) : Val → List Val
  | .map kvs => if hasSubKeys (.map kvs) subs then [.map kvs] else []
  | .list xs => xs.filter fun x => hasSubKeys x subs
  | v => if subs.isEmpty then [v] else []

mutual
/-- `hasKey(iv, key, ret, cnt, subkeys)` -/
def hasKey (key : Str) (subs : SubKeys) : Val → List Val
  | .map kvs =>
      (match lookup key kvs with
        | some v => loadKeyVal subs v
        | none => [])
      ++ (if key = ['*'] then kvs.flatMap (fun e => loadKeyVal subs e.2) else [])
      ++ hasKeyEntries key subs kvs
  | .list xs => hasKeyList key subs xs
  | _ => []
def hasKeyList (key : Str) (subs : SubKeys) : List Val → List Val
  | [] => []
  | x :: xs => hasKey key subs x ++ hasKeyList key subs xs
def hasKeyEntries (key : Str) (subs : SubKeys) : Entries → List Val
  | [] => []
  | (_, v) :: rest => hasKey key subs v ++ hasKeyEntries key subs rest
end

/-- `mv.ValuesForKey(key, subkeys...)` -/
def valuesForKey (fieldSep : Str) (pf : Str → Option Str)
    (m : Val) (key : Str) (subkeys : List Str) : Except ErrKind (List Val) :=
  match subKeyArg fieldSep pf subkeys with
  | .error e => .error e
  | .ok subs => .ok (hasKey key (subs.getD []) m)

/-! ### PathsForKey -/

def crumb (crumbs k : Str) : Str := if crumbs.isEmpty then k else crumbs ++ ['.'] ++ k

mutual
/-- `hasKeyPath(crumbs, iv, key, basket)` — the paths put in the basket, with repeats -/
def hasKeyPath (key : Str) : Str → Val → List Str
  | crumbs, .map kvs =>
      (if (lookup key kvs).isSome then [crumb crumbs key] else [])
      ++ hasKeyPathEntries key crumbs kvs
  | crumbs, .list xs => hasKeyPathList key crumbs xs
  | _, _ => []
def hasKeyPathList (key : Str) : Str → List Val → List Str
  | _, [] => []
  | crumbs, x :: xs => hasKeyPath key crumbs x ++ hasKeyPathList key crumbs xs
def hasKeyPathEntries (key : Str) : Str → Entries → List Str
  | _, [] => []
  | crumbs, (k, v) :: rest =>
      hasKeyPath key (crumb crumbs k) v ++ hasKeyPathEntries key crumbs rest
end

/-- `mv.PathsForKey(key)`: the basket is a set -/
def pathsForKey (m : Val) (key : Str) : List Str := (hasKeyPath key [] m).eraseDups

def segCount (p : Str) : Nat := (splitDot p).length

/-- the scan of `PathForKeyShortest` over a given ordering of the paths -/
def shortestOf : List Str → Str
  | [] => []
  | p :: ps => ps.foldl (fun best q => if segCount q < segCount best then q else best) p

end Mxj
