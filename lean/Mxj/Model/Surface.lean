/-
  Mxj.Model.Surface — a SURFACE renderer for XML source trees: the same tree written with varied
  surface syntax, for the byte-level form of C01 (`Props/C01ExtBytes.lean`).

  A surface tree `SNode` carries the data of a source tree AND the choices of how it is written:

    * `text raw val`   a run of character data written as `raw`: any mixture of literal
                       characters, the five predefined entities and numeric character references
                       (decimal or hexadecimal) that `unesc` expands to `val`;
    * `cdata s`        the text `s` written as a CDATA section `<![CDATA[s]]>`;
    * `comment s`      a comment `<!--s-->` between nodes (the decoder skips the token);
    * `elem name attrs wt ws kids`
                       `<name␣a = "r"… wt>` kids `</name ws>`: every attribute (`SAttr`) with its
                       own quote style (`"` or `'`), white space before the name, before and after
                       `=`; the value written raw (entities and numeric references allowed,
                       `val` its expansion); white space `wt` before the `>` of the start tag and
                       `ws` before the `>` of the end tag;
    * `empty name attrs wt`   the empty-element tag `<name a="r"… wt/>`.

  `toNode` forgets the choices (a CDATA section is a text node); `renderS` writes the bytes.
  Not in the surface grammar yet: processing instructions between nodes.
-/
import Mxj.Model.Tokenizer
import Mxj.Model.EncTree
namespace Mxj.Surf
open Mxj Mxj.Enc

/-- one attribute as written: `␣w1 name w2 = w3 q raw q`, `q` the quote character -/
structure SAttr where
  name : Str
  raw : Str
  val : Str
  single : Bool := false
  w1 : Str := []
  w2 : Str := []
  w3 : Str := []
  deriving Inhabited

def quoteOf (single : Bool) : Char := if single then '\'' else '"'

inductive SNode where
  | elem (name : Str) (attrs : List SAttr) (wt ws : Str) (kids : List SNode)
  | empty (name : Str) (attrs : List SAttr) (wt : Str)
  | text (raw val : Str)
  | cdata (s : Str)
  | comment (s : Str)
  deriving Inhabited

/-- the attributes the tokenizer is to hand over -/
def valsOf : List SAttr → List Attr
  | [] => []
  | a :: as => ⟨[], a.name, a.val⟩ :: valsOf as

def renderSAttrs : List SAttr → Str
  | [] => []
  | a :: as =>
      ' ' :: (a.w1 ++ (a.name ++ (a.w2 ++ ('=' :: (a.w3 ++ (quoteOf a.single :: (a.raw ++
        (quoteOf a.single :: renderSAttrs as))))))))

def cdOpen : Str := ['<', '!', '[', 'C', 'D', 'A', 'T', 'A', '[']
def cdClose : Str := [']', ']', '>']

mutual
/-- the source tree a surface tree denotes -/
def toNode : SNode → Node
  | .elem name attrs _ _ kids => .elem [] name (valsOf attrs) (toNodes kids)
  | .empty name attrs _ => .elem [] name (valsOf attrs) []
  | .text _ v => .text v
  | .cdata s => .text s
  | .comment s => .comment s
def toNodes : List SNode → List Node
  | [] => []
  | k :: ks => toNode k :: toNodes ks
end

mutual
/-- the bytes of a surface tree -/
def renderS : SNode → Str
  | .elem name attrs wt ws kids =>
      '<' :: (name ++ (renderSAttrs attrs ++ (wt ++ ('>' :: (renderSKids kids ++
        ('<' :: '/' :: (name ++ (ws ++ ['>']))))))))
  | .empty name attrs wt => '<' :: (name ++ (renderSAttrs attrs ++ (wt ++ ['/', '>'])))
  | .text raw _ => raw
  | .cdata s => cdOpen ++ (s ++ cdClose)
  | .comment s => '<' :: '!' :: '-' :: '-' :: (s ++ ['-', '-', '>'])
def renderSKids : List SNode → Str
  | [] => []
  | k :: ks => renderS k ++ renderSKids ks
end

/-- a run of raw character data (the only form that does not begin with `<`) -/
def isRaw : SNode → Bool
  | .text _ _ => true
  | _ => false

end Mxj.Surf
