/-
  Mxj.Model.SeqTree — the vocabulary of property C04 (sequence-preserving codec round trip):

  * `SeqFold.value` / `SeqFold.doc`: the steps of the streaming decoder `seqElem` / `seqTop`
    (Mxj.Model.Seq) applied along an XML *tree* instead of its token stream;
  * `seqEncTree`: the encoder `seqEnc` in TREE form — it mirrors `seqEnc` clause by clause but
    produces the sibling nodes the bytes denote (element names = keys, attributes in `#seq`
    order with unescaped values, a `Node.text` child for text, `Node.comment` / `.directive` /
    `.procinst` nodes); `renderSeq` is the canonical rendering of such a tree;
  * `normalize` (drop blank text nodes, trim text), `qualify` (spell every element / attribute
    name the way the document text does: `prefix:local`), `unqualify` (split at the colon again);
  * `SeqDomain`: the domain of C04.

  Core Lean only, executable definitions; proofs live in Lemmas/Seq.lean and Props/C04.lean.
-/
import Mxj.Model.Seq
import Mxj.Model.Conv
namespace Mxj

/-! ### the decoder as a fold over the tree -/

namespace SeqFold

/-- the CharData case of `seqElem`: new `na`, new `seq`, new `pend` -/
def onText (c : SeqCfg) (S : Strconv) (na : Entries) (seq : Nat) (pend : Option (Str × Bool))
    (s : Str) : Entries × Nat × Option (Str × Bool) :=
  let raw := (match pend with | some (p, _) => p | none => []) ++ s
  let numbered := match pend with | some (_, b) => b | none => false
  let tt := escDecIf c.dec (trimChars (trimSet c.dec) raw)
  if tt.isEmpty then (na, seq, some (raw, numbered))
  else if numbered then (insert c.textK (cast S c.cast tt []) na, seq, some (raw, true))
  else (insert c.seqK (seqNum seq) (insert c.textK (cast S c.cast tt []) na), seq + 1,
        some (raw, true))

/-- the EndElement case -/
def finish (na : Entries) : Val := if na.isEmpty then .str [] else .map na

mutual
/-- the value the decoder stores for an element (before the parent's `seqChild`) -/
def value (c : SeqCfg) (S : Strconv) : Node → Val
  | .elem _ _ attrs kids => finish (kids' c S (seqInitNa c S attrs, 0, none) kids).1
  | _ => .null
/-- state: (na, seq, pending character data) -/
def kids' (c : SeqCfg) (S : Strconv) :
    (Entries × Nat × Option (Str × Bool)) → List Node → (Entries × Nat × Option (Str × Bool))
  | st, [] => st
  | (na, seq, _), .elem sp name attrs ks :: rest =>
      kids' c S (addChild na (qualName c sp name)
        (seqChild c seq (value c S (.elem sp name attrs ks))), seq + 1, none) rest
  | (na, seq, pend), .text s :: rest => kids' c S (onText c S na seq pend s) rest
  | (na, seq, _), .comment s :: rest =>
      kids' c S (insert c.commentK (.map [(c.textK, .str s), (c.seqK, seqNum seq)]) na,
        seq + 1, none) rest
  | (na, seq, _), .directive s :: rest =>
      kids' c S (insert c.directiveK (.map [(c.textK, .str s), (c.seqK, seqNum seq)]) na,
        seq + 1, none) rest
  | (na, seq, _), .procinst t i :: rest =>
      kids' c S (insert c.procinstK
        (.map [(c.targetK, .str t), (c.instK, .str i), (c.seqK, seqNum seq)]) na,
        seq + 1, none) rest
end

/-- the MapSeq of a document: one root key -/
def doc (c : SeqCfg) (S : Strconv) : Node → Val
  | .elem sp name attrs kids => .map [(qualName c sp name, value c S (.elem sp name attrs kids))]
  | _ => .null

end SeqFold

/-! ### the encoder as a tree builder -/

/-- one attribute (cf. `seqAttrText`): the name is the key, the value unescaped -/
def seqAttrNode (c : SeqCfg) (k : Str) (v : Val) : Outcome Attr :=
  match v with
  | .map vv => match lookup c.textK vv with
      | some (.str s) => .ok ⟨[], k, s⟩
      | some (.num t) => .ok ⟨[], k, numText t⟩
      | some (.bool b) => .ok ⟨[], k, if b then "true".toList else "false".toList⟩
      | _ => .err .other
  | _ => .panic "attribute value is not a map"

/-- cf. `seqAttrsText` -/
def seqAttrNodes (c : SeqCfg) : List (Str × Val) → Outcome (List Attr)
  | [] => .ok []
  | (k, v) :: rest =>
    match seqAttrNode c k v, seqAttrNodes c rest with
    | .ok a, .ok r => .ok (a :: r)
    | .ok _, .eof => .eof
    | .ok _, .syntax => .syntax
    | .ok _, .err e => .err e
    | .ok _, .panic s => .panic s
    | .eof, _ => .eof
    | .syntax, _ => .syntax
    | .err e, _ => .err e
    | .panic s, _ => .panic s

/-- the text child of an element: none for the empty string -/
def textKid (t : Str) : List Node := if t.isEmpty then [] else [.text t]

mutual
/-- `seqEnc` producing trees: a value encodes to a LIST of sibling nodes.  (A `nil` value makes
    Go write the unterminated `<key`; that is not a tree: `.err`.) -/
def seqEncTree (c : SeqCfg) : Nat → Str → Val → Outcome (List Node)
  | 0, _, _ => .err .other
  | f + 1, key, .map val =>
      if key = c.commentK then
        match strOf (lookup c.textK val) with
        | some s => .ok [.comment s]
        | none => .panic "comment text is not a string"
      else if key = c.directiveK then
        match strOf (lookup c.textK val) with
        | some s => .ok [.directive s]
        | none => .panic "directive text is not a string"
      else if key = c.procinstK then
        match strOf (lookup c.targetK val), strOf (lookup c.instK val) with
        | some t, some i => .ok [.procinst t i]
        | _, _ => .panic "procinst target/inst is not a string"
      else
        let attrs : Outcome (List Attr × Bool) := match lookup c.attrK val with
          | some (.map av) => match seqAttrNodes c (sortBySeq c av) with
              | .ok a => .ok (a, true)
              | .eof => .eof | .syntax => .syntax | .err k => .err k | .panic s => .panic s
          | _ => .ok ([], false)
        match attrs with
        | .ok (as, haveAttrs) =>
          let seqOK := (lookup c.seqK val).isSome
          let n := val.length
          match lookup c.textK val with
          | some tv =>
            if ((n = 3 && haveAttrs) || (n = 2 && !haveAttrs)) && seqOK then
              match fmtV tv with
              | some t => .ok [.elem [] key as (textKid t)]
              | none => .err .other
            else
              match fmtV tv, seqKidsTree c f (sortBySeq c (unrollEntries c val)) with
              | some t, .ok kids => .ok [.elem [] key as (textKid t ++ kids)]
              | none, _ => .err .other
              | _, o => o
          | none =>
            if ((n = 2 && haveAttrs) || (n = 1 && !haveAttrs)) && seqOK then .ok [.elem [] key as []]
            else match seqKidsTree c f (sortBySeq c (unrollEntries c val)) with
              | .ok kids => .ok [.elem [] key as kids]
              | o => o
        | .eof => .eof | .syntax => .syntax | .err k => .err k | .panic s => .panic s
  | f + 1, key, .list xs => seqMembersTree c f key xs
  | _ + 1, key, .str s => .ok [.elem [] key [] (textKid s)]
  | _ + 1, _, .null => .err .other
  | _ + 1, key, v =>
      match fmtV v with
      | some t => .ok [.elem [] key [] [.text t]]
      | none => .err .other
def seqMembersTree (c : SeqCfg) : Nat → Str → List Val → Outcome (List Node)
  | _, _, [] => .ok []
  | f, key, x :: xs =>
    match seqEncTree c f key x with
    | .ok a => match seqMembersTree c f key xs with
      | .ok r => .ok (a ++ r)
      | o => o
    | o => o
def seqKidsTree (c : SeqCfg) : Nat → List (Str × Val) → Outcome (List Node)
  | _, [] => .ok []
  | f, (k, v) :: rest =>
    match seqEncTree c f k v with
    | .ok a => match seqKidsTree c f rest with
      | .ok r => .ok (a ++ r)
      | o => o
    | o => o
end

/-! ### canonical rendering of a sequence tree -/

def renderSeqAttrs (esc : Bool) : List Attr → Str
  | [] => []
  | a :: as =>
      " ".toList ++ a.name ++ "=\"".toList ++ (if esc then escapeChars a.value else a.value)
        ++ "\"".toList ++ renderSeqAttrs esc as

mutual
/-- names as they stand (`qualify` has put the prefix into the name), values escaped per `esc`,
    an element without children per `goEmpty` -/
def renderSeq (esc goEmpty : Bool) : Node → Str
  | .elem _ name attrs kids =>
      "<".toList ++ name ++ renderSeqAttrs esc attrs ++
        (if kids.isEmpty then (if goEmpty then ">".toList ++ closeTag name else "/>".toList)
         else ">".toList ++ renderSeqKids esc goEmpty kids ++ closeTag name)
  | .text s => if esc then escapeChars s else s
  | .comment s => "<!--".toList ++ s ++ "-->".toList
  | .directive s => "<!".toList ++ s ++ ">".toList
  | .procinst t i => "<?".toList ++ t ++ " ".toList ++ i ++ "?>".toList
def renderSeqKids (esc goEmpty : Bool) : List Node → Str
  | [] => []
  | k :: ks => renderSeq esc goEmpty k ++ renderSeqKids esc goEmpty ks
end

/-! ### normal forms of trees -/

/-- the default configuration: no cast, no snake-case, trimming on -/
def seqDflt : SeqCfg := {}

/-- `strings.Trim` with the decoder's cut set -/
def seqTrim (c : SeqCfg) (s : Str) : Str := trimChars (trimSet c.dec) s

mutual
/-- drop blank text nodes, trim the others; nothing else -/
def normalizeC (c : SeqCfg) : Node → Node
  | .elem sp n as ks => .elem sp n as (normalizeKidsC c ks)
  | .text s => .text (seqTrim c s)
  | n => n
def normalizeKidsC (c : SeqCfg) : List Node → List Node
  | [] => []
  | .text s :: rest =>
      if (seqTrim c s).isEmpty then normalizeKidsC c rest
      else .text (seqTrim c s) :: normalizeKidsC c rest
  | k :: rest => normalizeC c k :: normalizeKidsC c rest
end

def normalize : Node → Node := normalizeC seqDflt

def qualAttr (c : SeqCfg) (a : Attr) : Attr := ⟨[], qualName c a.space a.name, a.value⟩

mutual
/-- every element and attribute name as the document text spells it: `prefix:local` in the
    name, nothing in the space -/
def qualify (c : SeqCfg) : Node → Node
  | .elem sp n as ks => .elem [] (qualName c sp n) (as.map (qualAttr c)) (qualifyKids c ks)
  | n => n
def qualifyKids (c : SeqCfg) : List Node → List Node
  | [] => []
  | k :: rest => qualify c k :: qualifyKids c rest
end

/-- `prefix:local` split at the first colon the way the tokenizer does (both parts non-empty,
    otherwise everything is the local name) -/
def splitQual (s : Str) : Str × Str :=
  let sp := s.takeWhile (· ≠ ':')
  let r := s.dropWhile (· ≠ ':')
  match r with
  | _ :: l => if sp.isEmpty || l.isEmpty then ([], s) else (sp, l)
  | [] => ([], s)

def unqualAttr (a : Attr) : Attr := ⟨(splitQual a.name).1, (splitQual a.name).2, a.value⟩

mutual
def unqualify : Node → Node
  | .elem _ n as ks => .elem (splitQual n).1 (splitQual n).2 (as.map unqualAttr) (unqualifyKids ks)
  | n => n
def unqualifyKids : List Node → List Node
  | [] => []
  | k :: rest => unqualify k :: unqualifyKids rest
end

/-! ### the domain of C04 -/

/-- the keys the codec reserves inside an element's map -/
def hashKeys (c : SeqCfg) : List Str :=
  [c.textK, c.seqK, c.attrK, c.commentK, c.directiveK, c.procinstK]

def isBlankText (c : SeqCfg) (s : Str) : Bool := (seqTrim c s).isEmpty

/-- no non-blank text node -/
def noText (c : SeqCfg) : List Node → Bool
  | [] => true
  | .text s :: r => isBlankText c s && noText c r
  | _ :: r => noText c r

/-- text only as the first child (or alone) -/
def textFirst (c : SeqCfg) : List Node → Bool
  | .text _ :: r => noText c r
  | ks => noText c ks

def nComments : List Node → Nat
  | [] => 0
  | .comment _ :: r => nComments r + 1
  | _ :: r => nComments r
def nDirectives : List Node → Nat
  | [] => 0
  | .directive _ :: r => nDirectives r + 1
  | _ :: r => nDirectives r
def nProcinsts : List Node → Nat
  | [] => 0
  | .procinst _ _ :: r => nProcinsts r + 1
  | _ :: r => nProcinsts r

/-- no two text nodes directly adjacent among these siblings -/
def noAdjTop : List Node → Bool
  | [] => true
  | .text _ :: .text _ :: _ => false
  | _ :: r => noAdjTop r

def distinctStrs : List Str → Bool
  | [] => true
  | x :: xs => !xs.contains x && distinctStrs xs

def attrQNames (c : SeqCfg) (attrs : List Attr) : List Str :=
  attrs.map (fun a => qualName c a.space a.name)

mutual
/-- the element's key is not a reserved key; its attributes have pairwise distinct qualified
    names; at most one comment, one directive, one processing instruction among its children;
    no two adjacent text nodes; text only as the first child; and the same below -/
def seqDomain (c : SeqCfg) : Node → Bool
  | .elem sp name attrs kids =>
      !(hashKeys c).contains (qualName c sp name)
      && distinctStrs (attrQNames c attrs)
      && decide (nComments kids ≤ 1) && decide (nDirectives kids ≤ 1)
      && decide (nProcinsts kids ≤ 1)
      && noAdjTop kids && textFirst c kids
      && seqDomainKids c kids
  | _ => false
def seqDomainKids (c : SeqCfg) : List Node → Bool
  | [] => true
  | .elem sp name attrs kids :: rest => seqDomain c (.elem sp name attrs kids) && seqDomainKids c rest
  | _ :: rest => seqDomainKids c rest
end

def SeqDomain (t : Node) : Bool := seqDomain seqDflt t

/-- names as the tokenizer hands them over: no colon inside a prefix or a local name -/
def colonFree (s : Str) : Bool := !s.contains ':'

mutual
def plainNames : Node → Bool
  | .elem sp n as ks =>
      colonFree sp && colonFree n && !n.isEmpty
      && as.all (fun a => colonFree a.space && colonFree a.name && !a.name.isEmpty)
      && plainNamesKids ks
  | _ => true
def plainNamesKids : List Node → Bool
  | [] => true
  | k :: rest => plainNames k && plainNamesKids rest
end

mutual
def Node.height : Node → Nat
  | .elem _ _ _ ks => Node.heightKids ks + 1
  | _ => 1
def Node.heightKids : List Node → Nat
  | [] => 0
  | k :: ks => max (Node.height k) (Node.heightKids ks)
end

/-! ### the domain on which bytes = rendering -/

def Outcome.mapOk {α β : Type} (g : α → β) : Outcome α → Outcome β
  | .ok a => .ok (g a)
  | .eof => .eof
  | .syntax => .syntax
  | .err k => .err k
  | .panic s => .panic s

def isNumVal : Val → Bool
  | .num _ => true
  | _ => false

mutual
/-- values whose leaves are strings, except for the numbers under the sequence key (Go writes
    numbers, booleans and `nil` with `%v`, unescaped; a `nil` element value is written as an
    unterminated tag) -/
def seqPlain (c : SeqCfg) : Val → Bool
  | .str _ => true
  | .list xs => seqPlainList c xs
  | .map kvs => seqPlainEntries c kvs
  | _ => false
def seqPlainList (c : SeqCfg) : List Val → Bool
  | [] => true
  | x :: xs => seqPlain c x && seqPlainList c xs
def seqPlainEntries (c : SeqCfg) : Entries → Bool
  | [] => true
  | (k, v) :: rest => ((k = c.seqK && isNumVal v) || seqPlain c v) && seqPlainEntries c rest
end

/-! ### a sample document -/

namespace SeqSample

def S0 : Strconv :=
  { parseInt := fun _ => none, parseUint := fun _ => none, parseFloat := fun _ => none, lower := id }

/-- `<r x="1" n:y="2"> hi <a>1</a><!--note--><p:b/>␤<a k="v"/></r>`: interleaved siblings
    a, b, a; two attributes; a comment; leading text -/
def tree : Node :=
  .elem [] "r".toList [⟨[], "x".toList, "1".toList⟩, ⟨"n".toList, "y".toList, "2".toList⟩]
    [.text " hi ".toList,
     .elem [] "a".toList [] [.text "1".toList],
     .comment "note".toList,
     .elem "p".toList "b".toList [] [],
     .text "\n".toList,
     .elem [] "a".toList [⟨[], "k".toList, "v".toList⟩] []]

end SeqSample

end Mxj
