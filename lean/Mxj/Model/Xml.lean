/-
  Mxj.Model.Xml — tokens (what `xml.Decoder.Token()` / `RawToken()` hand to mxj), trees,
  decoder configuration, `cast`, key transforms.
-/
import Mxj.Model.Escape
import Mxj.Model.Path
namespace Mxj

structure Attr where
  space : Str
  name : Str
  value : Str
  deriving Repr, DecidableEq, Inhabited

inductive Tok where
  | start (space name : Str) (attrs : List Attr)
  | stop (space name : Str)
  | text (s : Str)
  | comment (s : Str)
  | procinst (target inst : Str)
  | directive (s : Str)
  deriving Repr, DecidableEq, Inhabited

/-- how the token stream ends once the listed tokens are consumed -/
inductive StreamEnd where
  | eof      -- `io.EOF`
  | bad      -- any other tokenizer error
  deriving Repr, DecidableEq, Inhabited

/-- results of the decoders: a value, `io.EOF`, a wrapped tokenizer error, another error, or a
    Go panic at a named site -/
inductive Outcome (α : Type) where
  | ok (a : α)
  | eof
  | syntax
  | err (k : ErrKind)
  | panic (site : String)
  deriving Repr, Inhabited

/-- the standard-library functions `cast` and the key transforms call; trusted-base parameters -/
structure Strconv where
  /-- ParseInt(s,10,64) → tagged `%v` text -/
  parseInt : Str → Option Str
  /-- ParseUint(s,10,64) → tagged `%v` text -/
  parseUint : Str → Option Str
  /-- ParseFloat(s,64) → tagged `%v` text and "is NaN or ±Inf" -/
  parseFloat : Str → Option (Str × Bool)
  /-- strings.ToLower -/
  lower : Str → Str

structure CastCfg where
  r : Bool := false
  toInt : Bool := false
  toFloat : Bool := true
  toBool : Bool := true
  nanInf : Bool := false
  /-- `checkTagToSkip` as a set of keys (`[]` with `skipSet = false` is "no function registered") -/
  skipSet : Bool := false
  skip : List Str := []
  deriving Repr

structure DecCfg where
  attrPrefix : Str := ['-']
  lowerCase : Bool := false
  snake : Bool := false
  asMap : Bool := false
  seqNum : Bool := false
  keepSpace : Bool := false
  textK : Str := "#text".toList
  escDec : Bool := false
  cast : CastCfg := {}
  deriving Repr

def trimSet (cfg : DecCfg) : List Char :=
  if cfg.keepSpace then ['\t', '\r', '\x08', '\n'] else ['\t', '\r', '\x08', '\n', ' ']

/-- `strings.Trim(s, cutset)` -/
def trimChars (cut : List Char) (s : Str) : Str :=
  ((s.dropWhile (cut.contains ·)).reverse.dropWhile (cut.contains ·)).reverse

/-- `strings.Replace(s, "-", "_", -1)` -/
def snakeCase (s : Str) : Str := s.map fun c => if c = '-' then '_' else c

/-- element key: lower first, then snake -/
def elemKey (cfg : DecCfg) (S : Strconv) (name : Str) : Str :=
  let k := if cfg.lowerCase then S.lower name else name
  if cfg.snake then snakeCase k else k

/-- attribute key: snake then lower on the local name, behind the prefix as set (repaired:
    the prefix itself is no longer lower-cased) -/
def attrKey (cfg : DecCfg) (S : Strconv) (name : Str) : Str :=
  let l := if cfg.snake then snakeCase name else name
  cfg.attrPrefix ++ (if cfg.lowerCase then S.lower l else l)

def isNanInfWord (S : Strconv) (s : Str) : Bool :=
  let l := S.lower s
  l = "nan".toList || l = "inf".toList || l = "-inf".toList

/-- `cast(s, r, t)` of xml.go (repaired: a float that parses to NaN/±Inf is not cast unless
    CastNanInf is on, whatever its spelling) -/
def cast (S : Strconv) (c : CastCfg) (s : Str) (t : Str) : Val :=
  if c.skipSet && !t.isEmpty && c.skip.contains t then .str s
  else if !c.r then .str s
  else if !c.nanInf && isNanInfWord S s then .str s
  else
    let asInt : Option Val :=
      if c.toInt then
        match S.parseInt s with
        | some t => some (.num t)
        | none => (S.parseUint s).map Val.num
      else none
    match asInt with
    | some v => v
    | none =>
      let asFloat : Option (Option Val) :=   -- some none = "return s" (guarded special)
        if c.toFloat then
          match S.parseFloat s with
          | some (t, special) => if !c.nanInf && special then some none else some (some (.num t))
          | none => none
        else none
      match asFloat with
      | some (some v) => v
      | some none => .str s
      | none =>
        if c.toBool && !s.isEmpty && s.length < 6
            && (s.head? = some 't' || s.head? = some 'T' || s.head? = some 'f' || s.head? = some 'F') then
          match parseBool s with
          | some b => .bool b
          | none => .str s
        else .str s

/-- decoder-side escaping switch -/
def escDecIf (cfg : DecCfg) (s : Str) : Str := if cfg.escDec then escapeChars s else s

end Mxj
