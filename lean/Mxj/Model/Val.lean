/-
  Mxj.Model.Val — the value universe shared by every model.

  A Go `interface{}` holding JSON/XML-shaped data is a `Val`.  Strings are `List Char`
  (`Str`) so that split/join/replace reasoning stays inside core `List` lemmas.
  A Go `map[string]interface{}` is an association list; well-formed values have
  pairwise distinct keys (`Val.WF`).  Go's randomised iteration order is "some
  permutation of the entries" — see `Mxj.Model.Perm`.

  Core Lean only; no Mathlib (the driver executable links this file).
-/
namespace Mxj

abbrev Str := List Char

inductive Val where
  | null
  | bool (b : Bool)
  /-- a number: `t` is a type tag plus Go's `%v` rendering, e.g. `f:1.5`, `i:3` -/
  | num (t : Str)
  | str (s : Str)
  | list (xs : List Val)
  | map (kvs : List (Str × Val))
  deriving Repr, Inhabited

abbrev Entries := List (Str × Val)

/-- first entry with key `k` (Go map lookup; keys are distinct on well-formed maps) -/
def lookup (k : Str) : Entries → Option Val
  | [] => none
  | (k', v) :: rest => if k = k' then some v else lookup k rest

/-- Go `m[k] = v` on an association list: overwrite in place or append. -/
def insert (k : Str) (v : Val) : Entries → Entries
  | [] => [(k, v)]
  | (k', v') :: rest => if k = k' then (k, v) :: rest else (k', v') :: insert k v rest

/-- Go `delete(m, k)` -/
def erase (k : Str) : Entries → Entries
  | [] => []
  | (k', v') :: rest => if k = k' then rest else (k', v') :: erase k rest

def keys (kvs : Entries) : List Str := kvs.map (·.1)

mutual
/-- structural equality as a Bool (DecidableEq cannot be derived for nested inductives) -/
def Val.beq : Val → Val → Bool
  | .null, .null => true
  | .bool a, .bool b => a == b
  | .num a, .num b => a == b
  | .str a, .str b => a == b
  | .list a, .list b => Val.beqList a b
  | .map a, .map b => Val.beqEntries a b
  | _, _ => false
def Val.beqList : List Val → List Val → Bool
  | [], [] => true
  | x :: xs, y :: ys => Val.beq x y && Val.beqList xs ys
  | _, _ => false
def Val.beqEntries : Entries → Entries → Bool
  | [], [] => true
  | (k, x) :: xs, (k', y) :: ys => k == k' && Val.beq x y && Val.beqEntries xs ys
  | _, _ => false
end

mutual
theorem Val.beq_iff : ∀ (a b : Val), Val.beq a b = true ↔ a = b
  | .null, b => by cases b <;> simp [Val.beq]
  | .bool x, b => by cases b <;> simp [Val.beq]
  | .num x, b => by cases b <;> simp [Val.beq]
  | .str x, b => by cases b <;> simp [Val.beq]
  | .list xs, b => by
      cases b <;> simp [Val.beq]
      exact Val.beqList_iff xs _
  | .map xs, b => by
      cases b <;> simp [Val.beq]
      exact Val.beqEntries_iff xs _
theorem Val.beqList_iff : ∀ (a b : List Val), Val.beqList a b = true ↔ a = b
  | [], b => by cases b <;> simp [Val.beqList]
  | x :: xs, b => by
      cases b with
      | nil => simp [Val.beqList]
      | cons y ys =>
        simp [Val.beqList, Val.beq_iff x y, Val.beqList_iff xs ys]
theorem Val.beqEntries_iff : ∀ (a b : Entries), Val.beqEntries a b = true ↔ a = b
  | [], b => by cases b <;> simp [Val.beqEntries]
  | (k, x) :: xs, b => by
      cases b with
      | nil => simp [Val.beqEntries]
      | cons y ys =>
        obtain ⟨k', y⟩ := y
        simp [Val.beqEntries, Val.beq_iff x y, Val.beqEntries_iff xs ys, and_assoc]
end

instance : DecidableEq Val := fun a b =>
  if h : Val.beq a b = true then isTrue ((Val.beq_iff a b).1 h)
  else isFalse (fun e => h ((Val.beq_iff a b).2 e))

/-- Go type-switch helpers -/
def Val.isMap : Val → Bool | .map _ => true | _ => false
def Val.isList : Val → Bool | .list _ => true | _ => false

def distinctKeys : Entries → Bool
  | [] => true
  | (k, _) :: rest => !(rest.any (fun e => e.1 == k)) && distinctKeys rest

mutual
/-- well-formed: every map has pairwise distinct keys (a Go map cannot have duplicates) -/
def Val.wf : Val → Bool
  | .list xs => Val.wfList xs
  | .map kvs => Val.wfEntries kvs && distinctKeys kvs
  | _ => true
def Val.wfList : List Val → Bool
  | [] => true
  | x :: xs => Val.wf x && Val.wfList xs
def Val.wfEntries : Entries → Bool
  | [] => true
  | (_, v) :: rest => Val.wf v && Val.wfEntries rest
end

end Mxj
