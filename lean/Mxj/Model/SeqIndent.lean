/-
  Mxj.Model.SeqIndent — model of the INDENTED sequence encoder of xmlseq.go:
  `MapSeq.XmlIndent(prefix, indent)` and its worker
  `mapToXmlSeqIndent(doIndent bool, sb, key, value, pp *pretty)`, with the `pretty` state
  (`indent`, `cnt`, `padding`, `mapDepth`, `start`; `Indent()` / `Outdent()` of xml.go) threaded
  explicitly.

  The worker `seqEncP` is INSTRUMENTED: it returns the list of `sb.WriteString` chunks, each
  marked `Piece.lay` (written under `if doIndent { … }`: `p.padding`, `"\n"`) or `Piece.raw`
  (everything else).  The bytes are `Piece.flat` of the list; `Piece.core` drops the layout.
  With `doIndent = false` no `lay` piece is produced: that is the compact encoder
  (`MapSeq.Xml`), the same Go function.

  It mirrors `seqEnc` (Mxj.Model.Seq) case by case — same repairs, same approximations
  (`sortBySeq` for `sort.Sort(elemListSeq)`, `fmtV` for `%v`) — with one addition taken from
  the code: a string / number / boolean stored under the comment, directive or
  processing-instruction key is written WITHOUT the leading `<key` (`>abc</#comment>`);
  `seqEnc` writes `<#comment>abc</#comment>` there.

  Second half: the same encoder in TREE form (`seqEncTreeL`, mirroring `seqEncTree` of
  Mxj.Model.SeqTree) over `LNode` = `Node` + explicit layout nodes, with `LNode.strip` (drop the
  layout), `LNode.toNodes` (layout = character data, what a tokenizer sees) and `renderL`.

  Core Lean only, executable.
-/
import Mxj.Model.SeqTree
namespace Mxj

/-! ### the `pretty` struct -/

/-- `type pretty struct { indent string; cnt int; padding string; mapDepth int; start int }` -/
structure Pretty where
  indent : Str
  cnt : Nat := 0
  padding : Str
  mapDepth : Nat := 0
  start : Nat := 0
  deriving Repr

/-- `func (p *pretty) Indent()` -/
def Pretty.indentStep (p : Pretty) : Pretty :=
  { p with padding := p.padding ++ p.indent, cnt := p.cnt + 1 }

/-- `func (p *pretty) Outdent()`: `padding[:len(padding)-len(indent)]` when `cnt > 0` -/
def Pretty.outdent (p : Pretty) : Pretty :=
  if p.cnt > 0 then
    { p with padding := p.padding.take (p.padding.length - p.indent.length), cnt := p.cnt - 1 }
  else p

/-- `p.mapDepth++` / `p.mapDepth--` (the field is never read by `mapToXmlSeqIndent`) -/
def Pretty.deeper (p : Pretty) : Pretty := { p with mapDepth := p.mapDepth + 1 }
def Pretty.shallower (p : Pretty) : Pretty := { p with mapDepth := p.mapDepth - 1 }

/-- `p := new(pretty); p.indent = indent; p.padding = prefix` -/
def Pretty.init (pfx indent : Str) : Pretty := { indent := indent, padding := pfx }

/-! ### instrumented output -/

inductive Piece where
  /-- written under `if doIndent`: the padding or a newline -/
  | lay (s : Str)
  | raw (s : Str)
  deriving Repr, DecidableEq

/-- the bytes -/
def Piece.flat : List Piece → Str
  | [] => []
  | .lay s :: r => s ++ Piece.flat r
  | .raw s :: r => s ++ Piece.flat r

/-- the bytes without the layout -/
def Piece.core : List Piece → Str
  | [] => []
  | .lay _ :: r => Piece.core r
  | .raw s :: r => s ++ Piece.core r

/-- `if doIndent { sb.WriteString(p.padding) }` -/
def layPad (di : Bool) (p : Pretty) : List Piece := if di then [.lay p.padding] else []

/-- `if doIndent { sb.WriteString("\n") }` -/
def layNl (di : Bool) : List Piece := if di then [.lay ['\n']] else []

/-- the epilogue `if doIndent { if p.cnt > p.start { sb.WriteString("\n") }; p.Outdent() }`
    (`p` is the callee's private copy: the `Outdent` has no effect on anything) -/
def layEnd (di : Bool) (p : Pretty) : List Piece :=
  if di && decide (p.cnt > p.start) then [.lay ['\n']] else []

def noteKeyB (c : SeqCfg) (k : Str) : Bool :=
  decide (k = c.commentK) || decide (k = c.directiveK) || decide (k = c.procinstK)

/-- `if key != commentK && key != directiveK && key != procinstK { "<" + key }` -/
def ltKey (c : SeqCfg) (key : Str) : Str := if noteKeyB c key then [] else "<".toList ++ key

def Outcome.fstOk {α β : Type} : Outcome (α × β) → Outcome α
  | .ok a => .ok a.1
  | .eof => .eof
  | .syntax => .syntax
  | .err k => .err k
  | .panic s => .panic s

mutual
/-- `mapToXmlSeqIndent(di, sb, key, value, pp)`; the callee copies `pp` (`p := &pretty{…}`), so
    nothing flows back to the caller -/
def seqEncP (c : SeqCfg) (esc goEmpty di : Bool) : Nat → Pretty → Str → Val → Outcome (List Piece)
  | 0, _, _, _ => .err .other
  | f + 1, p, key, .map val =>
      if key = c.commentK then
        match strOf (lookup c.textK val) with
        | some s => .ok (layPad di p ++ [.raw ("<!--".toList ++ s ++ "-->".toList)] ++ layEnd di p)
        | none => .panic "comment text is not a string"
      else if key = c.directiveK then
        match strOf (lookup c.textK val) with
        | some s => .ok (layPad di p ++ [.raw ("<!".toList ++ s ++ ">".toList)] ++ layEnd di p)
        | none => .panic "directive text is not a string"
      else if key = c.procinstK then
        match strOf (lookup c.targetK val), strOf (lookup c.instK val) with
        | some t, some i =>
            .ok (layPad di p ++ [.raw ("<?".toList ++ t ++ " ".toList ++ i ++ "?>".toList)]
                  ++ layEnd di p)
        | _, _ => .panic "procinst target/inst is not a string"
      else
        let attrs : Outcome (Str × Bool) := match lookup c.attrK val with
          | some (.map av) => match seqAttrsText c esc (sortBySeq c av) with
              | .ok a => .ok (a, true)
              | .eof => .eof | .syntax => .syntax | .err k => .err k | .panic s => .panic s
          | _ => .ok ([], false)
        match attrs with
        | .ok (atext, haveAttrs) =>
          let openTag := "<".toList ++ key ++ atext
          let seqOK := (lookup c.seqK val).isSome
          let n := val.length
          let emptyClose := if goEmpty then ">".toList ++ closeTag key else "/>".toList
          match lookup c.textK val with
          | some tv =>
            if ((n = 3 && haveAttrs) || (n = 2 && !haveAttrs)) && seqOK then
              -- simple element: `isSimple = true`, no padding ahead of the end tag
              let txt := match tv with
                | .str s => some (if esc then escapeChars s else s)
                | v => fmtV v
              match txt with
              | some t =>
                  if t.isEmpty then .ok (layPad di p ++ [.raw (openTag ++ emptyClose)] ++ layEnd di p)
                  else .ok (layPad di p ++ [.raw (openTag ++ ">".toList ++ t ++ closeTag key)]
                            ++ layEnd di p)
              | none => .err .other
            else
              let txt := match tv with
                | .str s => some (if esc then escapeChars s else s)
                | v => fmtV v
              match txt, seqKidsP c esc goEmpty di f p.deeper (sortBySeq c (unrollEntries c val)) with
              | some t, .ok (kids, p') =>
                  -- `">" + text`, `"\n"`, the children, `p.padding`, the end tag
                  .ok (layPad di p ++ [.raw (openTag ++ ">".toList ++ t)] ++ layNl di ++ kids
                        ++ layPad di p'.shallower ++ [.raw (closeTag key)] ++ layEnd di p'.shallower)
              | none, _ => .err .other
              | _, o => o.fstOk
          | none =>
            if ((n = 2 && haveAttrs) || (n = 1 && !haveAttrs)) && seqOK then
              .ok (layPad di p ++ [.raw (openTag ++ emptyClose)] ++ layEnd di p)
            else match seqKidsP c esc goEmpty di f p.deeper (sortBySeq c (unrollEntries c val)) with
              | .ok (kids, p') =>
                  .ok (layPad di p ++ [.raw (openTag ++ ">".toList)] ++ layNl di ++ kids
                        ++ layPad di p'.shallower ++ [.raw (closeTag key)] ++ layEnd di p'.shallower)
              | o => o.fstOk
        | .eof => .eof | .syntax => .syntax | .err k => .err k | .panic s => .panic s
  | f + 1, p, key, .list xs => (seqMembersP c esc goEmpty di f p key xs).fstOk   -- `return nil`: no epilogue
  | _ + 1, p, key, .str s =>
      let v := if esc then escapeChars s else s
      .ok (layPad di p
            ++ [.raw (ltKey c key ++ (if v.isEmpty then [] else ">".toList ++ v)
                      ++ endOf { goEmpty := goEmpty } key v.length)]
            ++ layEnd di p)
  | _ + 1, p, key, .null =>
      -- `case nil`: the first type switch does not match; padding and `<key` are written here
      .ok (layPad di p ++ [.raw ("<".toList ++ key)] ++ layEnd di p)
  | _ + 1, p, key, v =>
      match fmtV v with
      | some t => .ok (layPad di p ++ [.raw (ltKey c key ++ ">".toList ++ t ++ closeTag key)]
                        ++ layEnd di p)
      | none => .err .other
/-- `case []interface{}`: `for _, v := range value { p.Indent(); mapToXmlSeqIndent(…, key, v, p);
    p.Outdent() }` (both under `if doIndent`) -/
def seqMembersP (c : SeqCfg) (esc goEmpty di : Bool) :
    Nat → Pretty → Str → List Val → Outcome (List Piece × Pretty)
  | _, p, _, [] => .ok ([], p)
  | f, p, key, x :: xs =>
    let p1 := if di then p.indentStep else p
    match seqEncP c esc goEmpty di f p1 key x with
    | .ok a =>
      let p2 := if di then p1.outdent else p1
      match seqMembersP c esc goEmpty di f p2 key xs with
      | .ok (r, p3) => .ok (a ++ r, p3)
      | o => o
    | .eof => .eof | .syntax => .syntax | .err k => .err k | .panic s => .panic s
/-- the loop over the sorted `kv`: `i` is 0 at every test `if i == 0 && doIndent` (`i++` before
    the call, `i--` after it); a list member that is itself a list is not indented by the caller -/
def seqKidsP (c : SeqCfg) (esc goEmpty di : Bool) :
    Nat → Pretty → List (Str × Val) → Outcome (List Piece × Pretty)
  | _, p, [] => .ok ([], p)
  | f, p, (k, v) :: rest =>
    let p1 := if di && !v.isList then p.indentStep else p
    match seqEncP c esc goEmpty di f p1 k v with
    | .ok a =>
      let p2 := if di && !v.isList then p1.outdent else p1
      match seqKidsP c esc goEmpty di f p2 rest with
      | .ok (r, p3) => .ok (a ++ r, p3)
      | o => o
    | .eof => .eof | .syntax => .syntax | .err k => .err k | .panic s => .panic s
end

/-- the root choice of `MapSeq.XmlIndent` (no root tag argument): a single entry supplies the
    root tag unless its value is a list — ANY list; `MapSeq.Xml` keeps the key for a list of maps -/
def seqRootI (m : Entries) : Str × Val :=
  match m with
  | [(_, .list _)] => (defaultRootTag, .map m)
  | [(key, v)] => (key, v)
  | _ => (defaultRootTag, .map m)

/-- `MapSeq.Xml` and `MapSeq.XmlIndent` choose the same root: not a single entry holding a list
    of maps (`Xml` writes that as a row of `key` elements, `XmlIndent` wraps it in `<doc>`) -/
def seqRootAgree (m : Entries) : Bool :=
  match m with
  | [(_, .list xs)] => !allMaps xs
  | _ => true

/-- the pieces `msv.XmlIndent(prefix, indent)` writes -/
def mapSeqXmlIndentP (c : SeqCfg) (esc goEmpty : Bool) (pfx indent : Str) (m : Entries) :
    Outcome (List Piece) :=
  seqEncP c esc goEmpty true (2 * Val.depth (.map m) + 2) (Pretty.init pfx indent)
    (seqRootI m).1 (seqRootI m).2

/-- `msv.XmlIndent(prefix, indent)` (no root tag argument) before the validity check -/
def mapSeqXmlIndent (c : SeqCfg) (esc goEmpty : Bool) (pfx indent : Str) (m : Entries) :
    Outcome Str :=
  (mapSeqXmlIndentP c esc goEmpty pfx indent m).mapOk Piece.flat

/-! ### trees with layout -/

/-- `Node` with names as the encoder writes them (no separate prefix) plus layout nodes -/
inductive LNode where
  | elem (name : Str) (attrs : List Attr) (kids : List LNode)
  | text (s : Str)
  | comment (s : Str)
  | directive (s : Str)
  | procinst (target inst : Str)
  /-- padding or newline -/
  | lay (s : Str)
  deriving Repr, Inhabited

mutual
/-- drop the layout -/
def LNode.strip : LNode → List Node
  | .elem n as ks => [.elem [] n as (LNode.stripKids ks)]
  | .text s => [.text s]
  | .comment s => [.comment s]
  | .directive s => [.directive s]
  | .procinst t i => [.procinst t i]
  | .lay _ => []
def LNode.stripKids : List LNode → List Node
  | [] => []
  | k :: ks => LNode.strip k ++ LNode.stripKids ks
end

mutual
/-- layout is character data (what the tokenizer reports) -/
def LNode.toNode : LNode → Node
  | .elem n as ks => .elem [] n as (LNode.toNodes ks)
  | .text s => .text s
  | .comment s => .comment s
  | .directive s => .directive s
  | .procinst t i => .procinst t i
  | .lay s => .text s
def LNode.toNodes : List LNode → List Node
  | [] => []
  | k :: ks => LNode.toNode k :: LNode.toNodes ks
end

mutual
/-- what a tokenizer reports for character data: adjacent text nodes are ONE CharData token
    (the text of an element followed by the newline and padding the indented encoder writes
    behind it) -/
def mergeText : Node → Node
  | .elem sp n as ks => .elem sp n as (mergeKids ks)
  | n => n
def mergeKids : List Node → List Node
  | [] => []
  | .text a :: rest =>
      match mergeKids rest with
      | .text b :: r => .text (a ++ b) :: r
      | r => .text a :: r
  | k :: rest => mergeText k :: mergeKids rest
end

mutual
/-- the bytes of a layout tree: as `renderSeq`, layout written as it stands -/
def renderL (esc goEmpty : Bool) : LNode → Str
  | .elem name attrs kids =>
      "<".toList ++ name ++ renderSeqAttrs esc attrs ++
        (if kids.isEmpty then (if goEmpty then ">".toList ++ closeTag name else "/>".toList)
         else ">".toList ++ renderLKids esc goEmpty kids ++ closeTag name)
  | .text s => if esc then escapeChars s else s
  | .comment s => "<!--".toList ++ s ++ "-->".toList
  | .directive s => "<!".toList ++ s ++ ">".toList
  | .procinst t i => "<?".toList ++ t ++ " ".toList ++ i ++ "?>".toList
  | .lay s => s
def renderLKids (esc goEmpty : Bool) : List LNode → Str
  | [] => []
  | k :: ks => renderL esc goEmpty k ++ renderLKids esc goEmpty ks
end

/-- every layout string of the forest satisfies `P` -/
def LNode.allLays (P : Str → Bool) : List LNode → Bool
  | [] => true
  | .elem _ _ ks :: r => LNode.allLays P ks && LNode.allLays P r
  | .lay s :: r => P s && LNode.allLays P r
  | _ :: r => LNode.allLays P r

def textKidL (t : Str) : List LNode := if t.isEmpty then [] else [.text t]

/-- trailing newline of a non-root element -/
def nlL (p : Pretty) : List LNode := if p.cnt > p.start then [.lay ['\n']] else []

mutual
/-- `seqEncP … true` producing trees (cf. `seqEncTree`): a value encodes to sibling nodes —
    padding, the node, a newline below the root.  State passing simplified: a child is encoded
    at `p.indentStep` (`Outdent` undoes `Indent`: `SeqIL.outdent_indentStep`) -/
def seqEncTreeL (c : SeqCfg) : Nat → Pretty → Str → Val → Outcome (List LNode)
  | 0, _, _, _ => .err .other
  | f + 1, p, key, .map val =>
      if key = c.commentK then
        match strOf (lookup c.textK val) with
        | some s => .ok ([.lay p.padding, .comment s] ++ nlL p)
        | none => .panic "comment text is not a string"
      else if key = c.directiveK then
        match strOf (lookup c.textK val) with
        | some s => .ok ([.lay p.padding, .directive s] ++ nlL p)
        | none => .panic "directive text is not a string"
      else if key = c.procinstK then
        match strOf (lookup c.targetK val), strOf (lookup c.instK val) with
        | some t, some i => .ok ([.lay p.padding, .procinst t i] ++ nlL p)
        | _, _ => .panic "procinst target/inst is not a string"
      else
        let attrs : Outcome (List Attr × Bool) := match lookup c.attrK val with
          | some (.map av) => match seqAttrNodes c (sortBySeq c av) with
              | .ok a => .ok (a, true)
              | .eof => .eof | .syntax => .syntax | .err k => .err k | .panic s => .panic s
          | _ => .ok ([], false)
        match attrs with
        | .ok (as, haveAttrs) =>
          let seqOK := (lookup c.seqK val).isSome
          let n := val.length
          match lookup c.textK val with
          | some tv =>
            if ((n = 3 && haveAttrs) || (n = 2 && !haveAttrs)) && seqOK then
              match fmtV tv with
              | some t => .ok ([.lay p.padding, .elem key as (textKidL t)] ++ nlL p)
              | none => .err .other
            else
              match fmtV tv, seqKidsTreeL c f p.deeper (sortBySeq c (unrollEntries c val)) with
              | some t, .ok kids =>
                  .ok ([.lay p.padding,
                        .elem key as (textKidL t ++ [.lay ['\n']] ++ kids ++ [.lay p.padding])]
                       ++ nlL p)
              | none, _ => .err .other
              | _, o => o
          | none =>
            if ((n = 2 && haveAttrs) || (n = 1 && !haveAttrs)) && seqOK then
              .ok ([.lay p.padding, .elem key as []] ++ nlL p)
            else match seqKidsTreeL c f p.deeper (sortBySeq c (unrollEntries c val)) with
              | .ok kids =>
                  .ok ([.lay p.padding, .elem key as ([.lay ['\n']] ++ kids ++ [.lay p.padding])]
                       ++ nlL p)
              | o => o
        | .eof => .eof | .syntax => .syntax | .err k => .err k | .panic s => .panic s
  | f + 1, p, key, .list xs => seqMembersTreeL c f p key xs
  | _ + 1, p, key, .str s => .ok ([.lay p.padding, .elem key [] (textKidL s)] ++ nlL p)
  | _ + 1, _, _, .null => .err .other
  | _ + 1, p, key, v =>
      match fmtV v with
      | some t => .ok ([.lay p.padding, .elem key [] [.text t]] ++ nlL p)
      | none => .err .other
def seqMembersTreeL (c : SeqCfg) : Nat → Pretty → Str → List Val → Outcome (List LNode)
  | _, _, _, [] => .ok []
  | f, p, key, x :: xs =>
    match seqEncTreeL c f p.indentStep key x with
    | .ok a => match seqMembersTreeL c f p key xs with
      | .ok r => .ok (a ++ r)
      | o => o
    | o => o
def seqKidsTreeL (c : SeqCfg) : Nat → Pretty → List (Str × Val) → Outcome (List LNode)
  | _, _, [] => .ok []
  | f, p, (k, v) :: rest =>
    match seqEncTreeL c f (if v.isList then p else p.indentStep) k v with
    | .ok a => match seqKidsTreeL c f p rest with
      | .ok r => .ok (a ++ r)
      | o => o
    | o => o
end

/-! ### the domain on which the compact mode of `seqEncP` is `seqEnc` -/

mutual
/-- no string / number / boolean stored under the comment, directive or processing-instruction
    key where the encoder looks (Go omits the `<key` there, `seqEnc` does not) -/
def noteOk (c : SeqCfg) : Str → Val → Bool
  | key, .map kvs => noteKeyB c key || noteOkEntries c kvs
  | key, .list xs => noteOkList c key xs
  | _, .null => true
  | key, _ => !noteKeyB c key
def noteOkList (c : SeqCfg) : Str → List Val → Bool
  | _, [] => true
  | key, x :: xs => noteOk c key x && noteOkList c key xs
def noteOkEntries (c : SeqCfg) : Entries → Bool
  | [] => true
  | (k, v) :: rest =>
      (decide (k = c.attrK) || decide (k = c.seqK) || decide (k = c.textK) || noteOk c k v)
        && noteOkEntries c rest
end

/-! ### sample values for the examples of Props/C04ExtIndent -/

namespace SeqISample

/-- a list of maps at the root: `Xml()` and `XmlIndent()` choose different roots -/
def rootList : Entries :=
  [("r".toList, .list [
     .map [("#seq".toList, .num "i:1".toList), ("#text".toList, .str "b".toList)],
     .map [("#seq".toList, .num "i:0".toList), ("#text".toList, .str "a".toList)]])]

/-- the MapSeq of `<r>hi<a/></r>` (mixed content) -/
def mixed : Entries :=
  [("r".toList, .map [("#text".toList, .str "hi".toList), ("#seq".toList, .num "i:0".toList),
     ("a".toList, .map [("#text".toList, .str []), ("#seq".toList, .num "i:1".toList)])])]

/-- the value of `r` in the MapSeq of `<r><a/></r>` -/
def ra : Val :=
  .map [("a".toList, .map [("#text".toList, .str []), ("#seq".toList, .num "i:0".toList)])]

/-- a list of maps at the root whose members fail differently -/
def twoRoots : Entries :=
  [("r".toList, .list [
     .map [("#seq".toList, .num "i:1".toList),
           ("#attr".toList, .map [("k".toList, .map [])])],
     .map [("#seq".toList, .num "i:0".toList), ("#comment".toList, .map [])]])]

end SeqISample

end Mxj
