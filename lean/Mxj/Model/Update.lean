/-
  Mxj.Model.Update — model of updatevalues.go (UpdateValuesForPath) as repaired:
    * an absent last key is not inserted (`endVal, ok := m[keys0]; if !ok { return }`),
    * a list at the last navigation step treats each map member like a map parent
      (it no longer writes one level too high).
  Go mutates the receiver in place; the model returns the new tree and the count.
-/
import Mxj.Model.Mutate
namespace Mxj

/-- apply `f` to every element, summing the counts -/
def mapCount (f : Val → Val × Nat) : List Val → List Val × Nat
  | [] => ([], 0)
  | x :: xs =>
    let (x', c) := f x
    let (xs', cs) := mapCount f xs
    (x' :: xs', c + cs)

/-- members of a list that satisfy the sub-keys are replaced by `value` -/
def replaceMembers (value : Val) (subs : SubKeys) (xs : List Val) : List Val × Nat :=
  mapCount (fun v => if hasSubKeys v subs then (value, 1) else (v, 0)) xs

/-- members that are maps holding `key` and satisfying the sub-keys get `key := value` -/
def setInMembers (key : Str) (value : Val) (subs : SubKeys) (xs : List Val) : List Val × Nat :=
  mapCount (fun v => match v with
    | .map vv => if (lookup key vv).isSome && hasSubKeys (.map vv) subs
        then (.map (insert key value vv), 1) else (v, 0)
    | _ => (v, 0)) xs

/-- `updateValue` on a map parent `kvs` for one concrete last key `k0` -/
def updAt (key : Str) (value : Val) (subs : SubKeys) (kvs : Entries) (k0 : Str) : Entries × Nat :=
  match lookup k0 kvs with
  | none => (kvs, 0)
  | some endVal =>
    if key = k0 then
      match endVal with
      | .list xs =>
          if hasSubKeys (.map kvs) subs then (insert k0 value kvs, 1)
          else
            let (nv, c) := replaceMembers value subs xs
            (if c > 0 then insert k0 (.list nv) kvs else kvs, c)
      | _ => if hasSubKeys (.map kvs) subs then (insert k0 value kvs, 1) else (kvs, 0)
    else
      match endVal with
      | .map ekvs =>
          if hasSubKeys (.map ekvs) subs && (lookup key ekvs).isSome
          then (insert k0 (.map (insert key value ekvs)) kvs, 1) else (kvs, 0)
      | .list xs =>
          let (nv, c) := setInMembers key value subs xs
          (if c > 0 then insert k0 (.list nv) kvs else kvs, c)
      | _ => (kvs, 0)

/-- `updateValue` on a map parent: `*` ranges over the keys present -/
def updMap (key : Str) (value : Val) (subs : SubKeys) (kvs : Entries) (keys0 : Str) : Entries × Nat :=
  if keys0 = ['*'] then
    (keys kvs).foldl (fun acc k =>
      let (r, c) := updAt key value subs acc.1 k
      (r, acc.2 + c)) (kvs, 0)
  else updAt key value subs kvs keys0

/-- `updateValue(key, value, m, keys0, subkeys, cnt)` -/
def updValue (key : Str) (value : Val) (subs : SubKeys) (m : Val) (keys0 : Str) : Val × Nat :=
  match m with
  | .map kvs => let (r, c) := updMap key value subs kvs keys0; (.map r, c)
  | .list xs =>
      let (r, c) := mapCount (fun v => match v with
        | .map vv => let (r, c) := updMap key value subs vv keys0; (.map r, c)
        | _ => (v, 0)) xs
      (.list r, c)
  | v => (v, 0)

/-- entries → entries with every value transformed, counts summed -/
def mapEntriesCount (f : Val → Val × Nat) : Entries → Entries × Nat
  | [] => ([], 0)
  | (k, v) :: rest =>
    let (v', c) := f v
    let (rest', cs) := mapEntriesCount f rest
    ((k, v') :: rest', c + cs)

/-- `updateValuesForKeyPath(key, value, m, keys, subkeys, cnt)` (keys non-empty) -/
def updPath (key : Str) (value : Val) (subs : SubKeys) : Val → List Str → Val × Nat
  | m, [] => (m, 0)
  | m, [k0] => updValue key value subs m k0
  | m, k :: k' :: ks =>
    if k = ['*'] then
      match m with
      | .map kvs =>
          let (r, c) := mapEntriesCount (fun v => updPath key value subs v (k' :: ks)) kvs
          (.map r, c)
      | .list xs =>
          let (r, c) := mapCount (fun x => match x with
            | .map kvs =>
                let (r, c) := mapEntriesCount (fun v => updPath key value subs v (k' :: ks)) kvs
                (.map r, c)
            | v => updPath key value subs v (k' :: ks)) xs
          (.list r, c)
      | v => (v, 0)
    else
      match m with
      | .map kvs => match lookup k kvs with
          | some v =>
              let (v', c) := updPath key value subs v (k' :: ks)
              (.map (insert k v' kvs), c)
          | none => (.map kvs, 0)
      | .list xs =>
          let (r, c) := mapCount (fun x => match x with
            | .map kvs => match lookup k kvs with
                | some v =>
                    let (v', c) := updPath key value subs v (k' :: ks)
                    (.map (insert k v' kvs), c)
                | none => (x, 0)
            | v => (v, 0)) xs
          (.list r, c)
      | v => (v, 0)
termination_by _ ks => ks.length
decreasing_by all_goals simp_wf <;> omega

/-- the `key:value[:type]` string form of `newVal`; `pf` = strconv.ParseFloat -/
def parseNewVal (fieldSep : Str) (pf : Str → Option Str) (s : Str) : Except ErrKind (Str × Val) :=
  match splitOn fieldSep s with
  | [k, v] => .ok (k, .str v)
  | [k, v, t] =>
      if t = "bool".toList || t = "boolean".toList then
        match parseBool v with
        | some b => .ok (k, .bool b)
        | none => .error .newValBool
      else if t = "num".toList || t = "numeric".toList || t = "float".toList || t = "int".toList then
        match pf v with
        | some f => .ok (k, .num f)
        | none => .error .newValFloat
      else .error .newValType
  | _ => .error .newValSpec

/-- `mv.UpdateValuesForPath(newVal, path, subkeys...)`; `newVal` is either a single-entry map
    or a string -/
def updateValuesForPath (fieldSep : Str) (pf : Str → Option Str) (m : Val) (newVal : Val)
    (path : Str) (subkeys : List Str) : Except ErrKind (Val × Nat) :=
  match subKeyArg fieldSep pf subkeys with
  | .error e => .error e
  | .ok sk =>
    let kv : Except ErrKind (Str × Val) := match newVal with
      | .map [(k, v)] => .ok (k, v)
      | .map _ => .error .newValLen
      | .str s => parseNewVal fieldSep pf s
      | _ => .error .newValType
    match kv with
    | .error e => .error e
    | .ok (k, v) => .ok (updPath k v (sk.getD []) m (splitDot path))

end Mxj
