/-
  Mxj.Model.Escape — model of escapechars.go: `escapeChars` (sequential `bytes.Replace` over
  the *regenerated* table `Mxj.Generated.escapeTable`, in source order) and of the entity
  expansion the encoding/xml tokenizer applies to character data and attribute values
  (`unesc`, trusted-base model of the library; sampled against the real tokenizer).
-/
import Mxj.Model.Str
import Mxj.Generated.Facts
namespace Mxj

/-- `bytes.Replace(s, old, new, -1)` for non-empty `old` = Join(Split(s, old), new) -/
def replaceAll (old new : Str) (s : Str) : Str := joinWith new (splitOn old s)

/-- `escapeChars(s)`: for each table row in order, replace every occurrence -/
def escapeWith (table : List (Str × Str)) (s : Str) : Str :=
  table.foldl (fun acc row => replaceAll row.1 row.2 acc) s

def escapeChars (s : Str) : Str :=
  if s.isEmpty then s else escapeWith Generated.escapeTable s

/-- the single-pass description: what one character becomes -/
def escOne (c : Char) : Str :=
  if c = '&' then "&amp;".toList else if c = '<' then "&lt;".toList
  else if c = '>' then "&gt;".toList else if c = '"' then "&quot;".toList
  else if c = '\'' then "&apos;".toList else [c]

/-! ### entity expansion of the tokenizer (strict mode) -/

def hexDigitVal (c : Char) : Option Nat :=
  if '0' ≤ c ∧ c ≤ '9' then some (c.toNat - '0'.toNat)
  else if 'a' ≤ c ∧ c ≤ 'f' then some (c.toNat - 'a'.toNat + 10)
  else if 'A' ≤ c ∧ c ≤ 'F' then some (c.toNat - 'A'.toNat + 10)
  else none

def decDigitVal (c : Char) : Option Nat :=
  if '0' ≤ c ∧ c ≤ '9' then some (c.toNat - '0'.toNat) else none

/-- digits up to ';' → (value, rest after ';') -/
def numRef (digit : Char → Option Nat) (base : Nat) : Str → Nat → Bool → Option (Nat × Str)
  | [], _, _ => none
  | ';' :: rest, acc, seen => if seen then some (acc, rest) else none
  | c :: rest, acc, _ => match digit c with
      | some d => numRef digit base rest (acc * base + d) true
      | none => none

/-- characters the tokenizer accepts (`isInCharacterRange`) -/
def xmlCharOk (n : Nat) : Bool :=
  n = 0x9 || n = 0xA || n = 0xD || (0x20 ≤ n && n ≤ 0xD7FF) || (0xE000 ≤ n && n ≤ 0xFFFD)
    || (0x10000 ≤ n && n ≤ 0x10FFFF)

/-- the character a numeric reference `n` denotes: above U+10FFFF is an error; a surrogate
    becomes U+FFFD (Go's `string(rune(n))`); the result must be an XML character -/
def refChar (n : Nat) : Option Char :=
  if n ≤ 0x10FFFF then
    let m := if 0xD800 ≤ n && n ≤ 0xDFFF then 0xFFFD else n
    if xmlCharOk m then some (Char.ofNat m) else none
  else none

def namedEnts : List (Str × Char) :=
  [("&amp;".toList, '&'), ("&lt;".toList, '<'), ("&gt;".toList, '>'),
   ("&quot;".toList, '"'), ("&apos;".toList, '\'')]

/-- one reference at the head of `s` (which starts with '&') -/
def matchRef (s : Str) : Option (Char × Str) :=
  match namedEnts.findSome? fun (p, c) => if p.isPrefixOf s then some (c, s.drop p.length) else none with
  | some r => some r
  | none =>
    match s with
    | '&' :: '#' :: 'x' :: rest => match numRef hexDigitVal 16 rest 0 false with
        | some (n, r) => (refChar n).map (·, r)
        | none => none
    | '&' :: '#' :: rest => match numRef decDigitVal 10 rest 0 false with
        | some (n, r) => (refChar n).map (·, r)
        | none => none
    | _ => none

/-- entity expansion of a run of character data / an attribute value that contains no markup;
    `none` = the tokenizer reports a syntax error (bare '&', unknown entity, raw '<').
    `fuel` bounds the recursion (any fuel ≥ length works). -/
def unescF : Nat → Str → Option Str
  | _, [] => some []
  | 0, _ => none
  | f + 1, c :: r =>
    if c = '&' then
      match matchRef (c :: r) with
      | some (d, rest) => (unescF f rest).map (d :: ·)
      | none => none
    else if c = '<' then none
    else (unescF f r).map (c :: ·)

def unesc (s : Str) : Option Str := unescF (s.length + 1) s

end Mxj
