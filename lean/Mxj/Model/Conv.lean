/-
  Mxj.Model.Conv — the documented decoding conventions, stated declaratively on XML *trees*
  (independent of the streaming parser): one root key; each attribute under prefix+name; each
  child element under its (transformed) local name; repeated sibling names collected into one
  list in document order; a text-only element is its trimmed string; text beside attributes or
  children goes under the text key; an empty element is "".
-/
import Mxj.Model.Decode
namespace Mxj

/-- an XML tree as the tokenizer sees it -/
inductive Node where
  | elem (space name : Str) (attrs : List Attr) (kids : List Node)
  | text (s : Str)
  | comment (s : Str)
  | procinst (target inst : Str)
  | directive (s : Str)
  deriving Repr, Inhabited

mutual
def flatten : Node → List Tok
  | .elem sp n as ks => Tok.start sp n as :: (flattenKids ks ++ [Tok.stop sp n])
  | .text s => [Tok.text s]
  | .comment s => [Tok.comment s]
  | .procinst t i => [Tok.procinst t i]
  | .directive s => [Tok.directive s]
def flattenKids : List Node → List Tok
  | [] => []
  | k :: ks => flatten k ++ flattenKids ks
end

namespace Conv

/-- the processed text of a character-data run (trim, optional decoder-side escaping) -/
def textOf (cfg : DecCfg) (s : Str) : Str := escDecIf cfg (trimChars (trimSet cfg) s)

/-- values stored under one key, in document order: one value stays itself, several become
    a list (an existing entry `old` — an attribute with the same key — heads the list) -/
def collect (old : Option Val) (vs : List Val) : Option Val :=
  match old, vs with
  | none, [] => none
  | none, [v] => some v
  | none, vs => some (.list vs)
  | some o, [] => some o
  | some (.list xs), vs => some (.list (xs ++ vs))
  | some o, vs => some (.list (o :: vs))

/-- group `(key, value)` pairs by key, keys in first-occurrence order, onto the base entries -/
def groupOnto (base : Entries) (l : List (Str × Val)) : Entries :=
  ((l.map (·.1)).eraseDups).foldl (fun b k =>
    match collect (lookup k b) ((l.filter (·.1 = k)).map (·.2)) with
    | some val => insert k val b
    | none => b) base

/-- where the element's text ends up, and with which key it is cast: text met while nothing
    else has been recorded (no attribute, no earlier child element, not as-map) is the
    element's own simple value; otherwise it is the text-key entry -/
structure TextRun where
  value : Str
  early : Bool

/-- the non-blank text runs of an element; `seen` = something was already recorded in `na` -/
def textRuns (cfg : DecCfg) : Bool → List Node → List TextRun
  | _, [] => []
  | seen, .text s :: rest =>
      let tt := textOf cfg s
      if tt.isEmpty then textRuns cfg seen rest
      else ⟨tt, !seen⟩ :: textRuns cfg seen rest
  | _, .elem .. :: rest => textRuns cfg true rest
  | seen, _ :: rest => textRuns cfg seen rest

mutual
/-- the Map value of an element -/
def value (cfg : DecCfg) (S : Strconv) : Node → Val
  | .elem _ name attrs kids =>
      let skey := elemKey cfg S name
      let A := loadAttrs cfg S attrs
      let cs := childVals cfg S 0 kids
      let base := groupOnto A cs
      match textRuns cfg (!A.isEmpty || cfg.asMap) kids with
      | [] => if base.isEmpty then .str [] else .map base
      | t :: _ =>
          if t.early then
            if base.isEmpty then cast S cfg.cast t.value skey
            else .map (insert cfg.textK (cast S cfg.cast t.value skey) base)
          else .map (insert cfg.textK (cast S cfg.cast t.value cfg.textK) base)
  | _ => .null
/-- `(key, decorated value)` of every child element, numbering element children from `seq` -/
def childVals (cfg : DecCfg) (S : Strconv) : Nat → List Node → List (Str × Val)
  | _, [] => []
  | seq, .elem sp name attrs kids :: rest =>
      let d := seqDecorate cfg seq (value cfg S (.elem sp name attrs kids))
      (elemKey cfg S name, d.1) :: childVals cfg S d.2 rest
  | seq, _ :: rest => childVals cfg S seq rest
end

/-- the Map of a document: one root key -/
def doc (cfg : DecCfg) (S : Strconv) : Node → Val
  | .elem sp name attrs kids => .map [(elemKey cfg S name, value cfg S (.elem sp name attrs kids))]
  | _ => .null

/-! ### the domain of C01 -/

mutual
/-- at most one non-blank text run per element; no child key collides with the text key (or
    with `_seq` under numbering); no attribute key collides with the text key -/
def inDomain (cfg : DecCfg) (S : Strconv) : Node → Bool
  | .elem _ _ attrs kids =>
      (textRuns cfg false kids).length ≤ 1
      && attrs.all (fun a => attrKey cfg S a.name ≠ cfg.textK
            && (!cfg.seqNum || attrKey cfg S a.name ≠ "_seq".toList))
      && inDomainKids cfg S kids
  | _ => true
def inDomainKids (cfg : DecCfg) (S : Strconv) : List Node → Bool
  | [] => true
  | .elem sp name attrs kids :: rest =>
      elemKey cfg S name ≠ cfg.textK
      && (!cfg.seqNum || elemKey cfg S name ≠ "_seq".toList)
      && inDomain cfg S (.elem sp name attrs kids) && inDomainKids cfg S rest
  | _ :: rest => inDomainKids cfg S rest
end

end Conv
end Mxj

namespace Mxj

/-! ### the tree-recursive fold: the streaming parser's steps applied along the tree -/

namespace Fold

mutual
/-- the element value computed by folding `addChild` / `onText` over the children -/
def value (cfg : DecCfg) (S : Strconv) : Node → Val
  | .elem _ name attrs kids =>
      let st := kids' cfg S (elemKey cfg S name) (loadAttrs cfg S attrs, none, 0, none) kids
      finishElem cfg st.1 st.2.1
  | _ => .null
/-- state: (na, n, seq, pending character data) -/
def kids' (cfg : DecCfg) (S : Strconv) (skey : Str) :
    (Entries × Option Val × Nat × Option Str) → List Node → (Entries × Option Val × Nat × Option Str)
  | st, [] => st
  | (na, n, seq, _), .elem sp name attrs ks :: rest =>
      let d := seqDecorate cfg seq (value cfg S (.elem sp name attrs ks))
      kids' cfg S skey (addChild na (elemKey cfg S name) d.1, n, d.2, none) rest
  | (na, n, seq, pend), .text s :: rest =>
      let raw := (pend.getD []) ++ s
      let r := onText cfg S skey na n raw
      kids' cfg S skey (r.1, r.2, seq, some raw) rest
  | (na, n, seq, _), _ :: rest => kids' cfg S skey (na, n, seq, none) rest
end

def doc (cfg : DecCfg) (S : Strconv) : Node → Val
  | .elem sp name attrs kids => .map [(elemKey cfg S name, value cfg S (.elem sp name attrs kids))]
  | _ => .null

end Fold

mutual
/-- no two text nodes directly adjacent (the tokenizer never produces that from a document
    without CDATA; with CDATA the decoder concatenates, so trees are taken normalised) -/
def noAdjText : Node → Bool
  | .elem _ _ _ kids => noAdjTextKids kids
  | _ => true
def noAdjTextKids : List Node → Bool
  | [] => true
  | .text _ :: .text _ :: _ => false
  | k :: rest => noAdjText k && noAdjTextKids rest
end

end Mxj
