/-
  Mxj.Model.Leaf — model of leafnode.go: getLeafNodes, LeafNodes, LeafPaths, LeafValues,
  and a segment-level specification of what a leaf path is.
-/
import Mxj.Model.Path
namespace Mxj

structure LeafCfg where
  attrPrefix : Str
  textK : Str
  useDot : Bool
  deriving Repr

structure Leaf where
  path : Str
  value : Val
  deriving Repr

/-- the path update at the top of `getLeafNodes` (with the total `HasPrefix` test) -/
def leafPath (cfg : LeafCfg) (noattr : Bool) (path node : Str) : Str :=
  if !noattr || node ≠ cfg.textK then
    (if !path.isEmpty && !hasPrefix ['['] node then path ++ ['.'] else path) ++ node
  else path

def listNode (cfg : LeafCfg) (i : Nat) : Str :=
  if cfg.useDot then natToStr i else ['['] ++ natToStr i ++ [']']

def isAttrKey (cfg : LeafCfg) (k : Str) : Bool :=
  !cfg.attrPrefix.isEmpty && hasPrefix cfg.attrPrefix k

mutual
/-- `getLeafNodes(path, node, mv, l, noattr)` — the leaves appended to `l` -/
def getLeafNodes (cfg : LeafCfg) (noattr : Bool) : Str → Str → Val → List Leaf
  | path, node, .map kvs => leafEntries cfg noattr (leafPath cfg noattr path node) kvs
  | path, node, .list xs => leafList cfg noattr (leafPath cfg noattr path node) 0 xs
  | path, node, v => [⟨leafPath cfg noattr path node, v⟩]
def leafEntries (cfg : LeafCfg) (noattr : Bool) : Str → Entries → List Leaf
  | _, [] => []
  | path, (k, v) :: rest =>
      (if noattr && isAttrKey cfg k then [] else getLeafNodes cfg noattr path k v)
        ++ leafEntries cfg noattr path rest
def leafList (cfg : LeafCfg) (noattr : Bool) : Str → Nat → List Val → List Leaf
  | _, _, [] => []
  | path, i, x :: xs =>
      getLeafNodes cfg noattr path (listNode cfg i) x ++ leafList cfg noattr path (i + 1) xs
end

/-- `mv.LeafNodes(no_attr...)` -/
def leafNodes (cfg : LeafCfg) (noattr : Bool) (m : Val) : List Leaf :=
  getLeafNodes cfg noattr [] [] m

/-- `mv.LeafPaths(no_attr...)` / `mv.LeafValues(no_attr...)` (repaired: they honour the option) -/
def leafPaths (cfg : LeafCfg) (noattr : Bool) (m : Val) : List Str :=
  (leafNodes cfg noattr m).map (·.path)
def leafValues (cfg : LeafCfg) (noattr : Bool) (m : Val) : List Val :=
  (leafNodes cfg noattr m).map (·.value)

/-! ### specification -/

inductive Seg where
  | key (k : Str)
  | idx (i : Nat)
  deriving Repr, DecidableEq

mutual
/-- every scalar with the segments leading to it -/
def leafSegs : Val → List (List Seg × Val)
  | .map kvs => leafSegsEntries kvs
  | .list xs => leafSegsList 0 xs
  | v => [([], v)]
def leafSegsEntries : Entries → List (List Seg × Val)
  | [] => []
  | (k, v) :: rest => (leafSegs v).map (fun (p, x) => (Seg.key k :: p, x)) ++ leafSegsEntries rest
def leafSegsList : Nat → List Val → List (List Seg × Val)
  | _, [] => []
  | i, x :: xs => (leafSegs x).map (fun (p, y) => (Seg.idx i :: p, y)) ++ leafSegsList (i + 1) xs
end

mutual
/-- the scalars of a value, in traversal order -/
def scalars : Val → List Val
  | .map kvs => scalarsEntries kvs
  | .list xs => scalarsList xs
  | v => [v]
def scalarsEntries : Entries → List Val
  | [] => []
  | (_, v) :: rest => scalars v ++ scalarsEntries rest
def scalarsList : List Val → List Val
  | [] => []
  | x :: xs => scalars x ++ scalarsList xs
end

/-- the no-attributes view: attribute entries removed, text-key segments dropped -/
def segIsAttr (cfg : LeafCfg) : Seg → Bool
  | .key k => isAttrKey cfg k
  | .idx _ => false
def stripSegs (cfg : LeafCfg) (p : List Seg) : List Seg :=
  p.filter fun s => s ≠ Seg.key cfg.textK

/-- render segments the way `getLeafNodes` builds the string -/
def renderSegs (cfg : LeafCfg) : Str → List Seg → Str
  | acc, [] => acc
  | acc, .key k :: rest =>
      renderSegs cfg ((if !acc.isEmpty && !hasPrefix ['['] k then acc ++ ['.'] else acc) ++ k) rest
  | acc, .idx i :: rest =>
      renderSegs cfg ((if !acc.isEmpty && cfg.useDot then acc ++ ['.'] else acc) ++ listNode cfg i) rest

end Mxj
